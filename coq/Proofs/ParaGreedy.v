(* Proofs/ParaGreedy.v -- C04 at the level of the whole renderer (a paragraph of an inline flow is
   wrapped exactly as the reference greedy wrapper of Spec/Greedy.v wraps the words of the text
   the flow contributes), its corollary through one prefixed block, and C08 placement (the
   reference "[m]" directly after a link's content and end affix, the list at the end).
   No axioms.  SUMMARY (definitions, exact statements, hypotheses, remarks) at the end. *)
From H2T Require Import Base Tagged Wrap Sub Css Dom Render Api Spec.Greedy.
From H2T Require Import Proofs.WrapInv Proofs.Small Proofs.RenderWidth Proofs.Footnotes.
From H2T Require Import Proofs.Compose.
From H2T Require Proofs.GreedyProof Proofs.RenderTotal Proofs.FragStream Proofs.Decorators
     Proofs.Conserve Proofs.RenderConserve.
From Coq Require Import Lia ZifyN ZifyBool ZifyNat.

Local Arguments N.add : simpl never.
Local Arguments N.sub : simpl never.
Local Arguments N.mul : simpl never.
Local Arguments N.div : simpl never.
Local Arguments N.modulo : simpl never.
Local Arguments N.leb : simpl never.
Local Arguments N.ltb : simpl never.
Local Arguments N.eqb : simpl never.
Local Arguments N.min : simpl never.
Local Arguments N.max : simpl never.
Local Arguments N.to_nat : simpl never.
Local Arguments N.of_nat : simpl never.
Local Open Scope N_scope.

(* ================================================================== *)
(* 0. Monad helpers                                                     *)
(* ================================================================== *)

Lemma bnd_assoc {A B C} (r : res A) (f : A -> res B) (g : B -> res C) :
  (do y <- (do x <- r; f x); g y) = (do x <- r; do y <- f x; g y).
Proof. destruct r; reflexivity. Qed.

Lemma bnd_ret {A} (r : res A) : (do x <- r; Ok x) = r.
Proof. destruct r; reflexivity. Qed.

Lemma bnd_ext {A B} (r : res A) (f g : A -> res B) :
  (forall a, f a = g a) -> bind r f = bind r g.
Proof. intros H. destruct r; cbn [bind]; auto. Qed.

(* extensionality that may use the fact that r succeeded with that value *)
Lemma bnd_ext_ok {A B} (r : res A) (f g : A -> res B) :
  (forall a, r = Ok a -> f a = g a) -> bind r f = bind r g.
Proof. intros H. destruct r; cbn [bind]; auto. Qed.

Lemma fold_err {A B} (f : B -> A -> res A) (l : list B) (e : res A) :
  (forall a, e <> Ok a) ->
  fold_left (fun acc b => do s <- acc; f b s) l e = e.
Proof.
  revert e. induction l as [|b l IH]; intros e He; cbn [fold_left]; [reflexivity|].
  destruct e as [a| | |]; [exfalso; eapply He; reflexivity| | |]; cbn [bind]; apply IH; discriminate.
Qed.

(* a fold started from a computation = the computation, then the fold *)
Lemma fold_bnd {A B C} (f : B -> A -> res A) (l : list B) (r : res C) (g : C -> res A) :
  fold_left (fun acc b => do s <- acc; f b s) l (bind r g) =
  (do x <- r; fold_left (fun acc b => do s <- acc; f b s) l (g x)).
Proof.
  destruct r; cbn [bind]; try reflexivity; apply fold_err; discriminate.
Qed.

(* ================================================================== *)
(* 1. The WrappedBlock: words without markers, closing a block          *)
(* ================================================================== *)

(* an element with content (a Str); a pending word that holds no fragment marker *)
Definition hasc (e : elem) : Prop := elem_has_content e = true.
Definition NF (b : wblock) : Prop := Forall hasc (wword b).
Definition NFo (ow : option wblock) : Prop := match ow with Some w => NF w | None => True end.

Lemma tfr_nf w : Forall hasc w -> trailing_frags w = (w, []).
Proof.
  induction w as [|e w IH]; intros H; [reflexivity|].
  pose proof (Forall_inv H) as He. pose proof (Forall_inv_tail H) as Hw.
  cbn [trailing_frags]. rewrite (IH Hw). destruct w as [|e' w'].
  - unfold hasc in He. rewrite He. reflexivity.
  - reflexivity.
Qed.

Lemma ttf_nf b : NF b -> take_trailing_fragments b = (b, []).
Proof.
  intros H. unfold take_trailing_fragments. rewrite (tfr_nf _ H). destruct b; reflexivity.
Qed.

Lemma vpm_hasc v s t : Forall hasc v -> Forall hasc (v_push_merge v s t).
Proof.
  induction v as [|e v IH]; intros Hv.
  - cbn. constructor; [reflexivity|constructor].
  - destruct v as [|e' v].
    + destruct e as [s0 t0|n]; cbn [v_push_merge].
      * destruct (tag_eqb t0 t); repeat constructor.
      * pose proof (Forall_inv Hv) as X. discriminate X.
    + rewrite GreedyProof.vpm_cons2. constructor; [exact (Forall_inv Hv)|].
      apply IH. exact (Forall_inv_tail Hv).
Qed.

Lemma step1_NF t b c b' : GreedyProof.step1 t b c = Ok b' -> NF b -> NF b'.
Proof.
  unfold GreedyProof.step1. intros H Hb. bind_inv H b1 H1.
  assert (Hb1 : NF b1).
  { destruct (ws c && (0 <? wordlen b)).
    - destruct (FragStream.flush_word_word _ _ _ H1) as [[_ E]|E]; unfold NF; rewrite E;
        [exact Hb|constructor].
    - ok_inv H1. exact Hb. }
  destruct (ws c).
  - destruct ((0 <? tlen_ (wline b1)) && (wslen b1 =? 0)); ok_inv H; exact Hb1.
  - destruct (cw c) as [n|]; ok_inv H; [|exact Hb1].
    unfold NF. cbn [set_word wword]. apply vpm_hasc. exact Hb1.
Qed.

Lemma steps_NF : forall tcs b b', GreedyProof.steps b tcs = Ok b' -> NF b -> NF b'.
Proof.
  induction tcs as [|ct tcs IH]; intros b b' H Hb; cbn [GreedyProof.steps] in H.
  - ok_inv H. exact Hb.
  - bind_inv H b1 H1. exact (IH _ _ H (step1_NF _ _ _ _ H1 Hb)).
Qed.

Lemma wb_add_text_NF b s t b' : wb_add_text b s WsNormal t t = Ok b' -> NF b -> NF b'.
Proof. rewrite GreedyProof.wb_add_text_normal. apply steps_NF. Qed.

Lemma NF_new W pad ovf : NF (wb_new W pad ovf).
Proof. constructor. Qed.

(* the line strings of a closed block *)
Definition fin (ow : option wblock) : res (list text) :=
  match ow with None => Ok [] | Some w => GreedyProof.finish w end.

Lemma strs_RText ls : strs (map RText ls) = map tl_string ls.
Proof. unfold strs. rewrite map_map. reflexivity. Qed.

(* a sub-renderer without lines whose open block holds no marker: its lines are the lines of
   the block *)
Lemma out_lines_fin s ow :
  slines s = [] -> ptxt s = [] -> wrapping s = ow -> NFo ow -> out_lines s = fin ow.
Proof.
  intros Hl Hp Hw Hn. unfold out_lines, sub_into_lines, flush_wrapping. rewrite Hw.
  destruct ow as [w|]; cbn [fin].
  - cbn [NFo] in Hn. rewrite (ttf_nf _ Hn).
    unfold GreedyProof.finish. rewrite wb_into_lines_of_markers.
    destruct (wb_into_lines_markers w) as [[ls mk]| | |]; cbn [bind fst snd]; try reflexivity.
    sprj. f_equal.
    destruct (extend_lines_spec (map RText ls) (set_wrapping s None)) as (A & _).
    { unfold ptxt in *. sprj. exact Hp. }
    rewrite A. sprj. rewrite Hl, strs_RText. reflexivity.
  - cbn [bind]. rewrite Hl. reflexivity.
Qed.

(* ---- all lines made by closing a block are text lines ---- *)
Definition is_text (r : rline) : Prop := match r with RText _ => True | RLine _ _ => False end.

Lemma add_line_is_text s l : Forall is_text (slines s) -> is_text l ->
  Forall is_text (slines (add_line s l)).
Proof.
  intros Hs Hl. unfold add_line.
  destruct (pending_frags s); destruct l; sprj; try contradiction;
    apply Forall_app; split; try exact Hs; repeat constructor.
Qed.

Lemma extend_lines_is_text ls : forall s, Forall is_text (slines s) -> Forall is_text ls ->
  Forall is_text (slines (extend_lines s ls)).
Proof.
  unfold extend_lines. induction ls as [|l ls IH]; intros s Hs Hls; cbn [fold_left]; [exact Hs|].
  apply IH; [apply add_line_is_text; [exact Hs|exact (Forall_inv Hls)]|exact (Forall_inv_tail Hls)].
Qed.

Lemma flush_wrapping_is_text s s1 :
  flush_wrapping s = Ok s1 -> Forall is_text (slines s) -> Forall is_text (slines s1).
Proof.
  unfold flush_wrapping. destruct (wrapping s) as [w|]; intros H Hs; [|ok_inv H; exact Hs].
  destruct (take_trailing_fragments w) as [w1 frags]. bind_inv H lm Hlm. ok_inv H. sprj.
  apply extend_lines_is_text; [sprj; exact Hs|].
  apply Forall_forall. intros r Hr. apply in_map_iff in Hr. destruct Hr as (l & <- & _). exact I.
Qed.

Lemma text_content r : is_text r -> rline_string r <> [] -> rline_has_content r = true.
Proof.
  destruct r as [l|b t]; [|contradiction]. intros _ H. cbn [rline_string rline_has_content] in *.
  unfold tl_is_empty, tl_string in *. rewrite Bool.negb_involutive.
  induction (tv l) as [|e v IH]; [contradiction H; reflexivity|].
  cbn [existsb flat_map] in *. destruct e as [s t|n]; [reflexivity|].
  cbn [elem_text app elem_has_content orb] in *. exact (IH H).
Qed.

Definition ne (l : text) : Prop := l <> [].

(* the blank line start_block puts before a new block *)
Definition blank_after (body : list text) : list text :=
  match body with [] => [] | _ :: _ => [[]] end.

Lemma content_blank L :
  Forall is_text L -> Forall ne (strs L) ->
  (if existsb rline_has_content L then [[]] else []) = blank_after (strs L).
Proof.
  destruct L as [|r L]; intros Ht Hn; [reflexivity|].
  cbn [existsb strs map blank_after]. unfold strs in Hn. cbn [map] in Hn.
  rewrite (text_content r (Forall_inv Ht) (Forall_inv Hn)). reflexivity.
Qed.

(* ---- the reference wrapper never makes an empty line ---- *)
Lemma hc_ne W : forall w ls cur curw ls' cur' curw',
  hard_chars W ls cur curw w = Ok (ls', cur', curw') -> Forall ne ls -> Forall ne ls'.
Proof.
  induction w as [|c w IH]; intros ls cur curw ls' cur' curw' H Hl; cbn [hard_chars] in H.
  - ok_inv H. exact Hl.
  - destruct (curw + cw0 c <=? W); [exact (IH _ _ _ _ _ _ H Hl)|].
    destruct (W <? cw0 c); [discriminate|].
    destruct cur as [|x cur]; [discriminate|].
    apply (IH _ _ _ _ _ _ H). apply Forall_app. split; [exact Hl|].
    constructor; [discriminate|constructor].
Qed.

Lemma pw_ne W st w st' : place_word W st w = Ok st' ->
  Forall ne (fst (fst st)) -> Forall ne (fst (fst st')).
Proof.
  destruct st as [[ls cur] curw]. destruct st' as [[ls' cur'] curw']. cbn [fst]. unfold place_word.
  intros H Hl. destruct cur as [|x cur].
  - destruct (swidth w <=? W); [ok_inv H; exact Hl|exact (hc_ne _ _ _ _ _ _ _ _ H Hl)].
  - destruct (curw + 1 + swidth w <=? W); [ok_inv H; exact Hl|].
    apply (hc_ne _ _ _ _ _ _ _ _ H). apply Forall_app. split; [exact Hl|].
    constructor; [discriminate|constructor].
Qed.

Lemma pws_ne W : forall ws_ st st', place_words W st ws_ = Ok st' ->
  Forall ne (fst (fst st)) -> Forall ne (fst (fst st')).
Proof.
  induction ws_ as [|w ws_ IH]; intros st st' H Hl; cbn [place_words] in H.
  - ok_inv H. exact Hl.
  - bind_inv H st1 H1. exact (IH _ _ H (pw_ne _ _ _ _ H1 Hl)).
Qed.

Lemma greedy_ne W ws_ ls : greedy W ws_ = Ok ls -> Forall ne ls.
Proof.
  unfold greedy. intros H. bind_inv H st Hst. destruct st as [[l cur] curw]. ok_inv H.
  pose proof (pws_ne _ _ _ _ Hst (Forall_nil _)) as Hl. cbn [fst] in Hl.
  destruct cur as [|x cur]; [exact Hl|].
  apply Forall_app. split; [exact Hl|]. constructor; [discriminate|constructor].
Qed.

(* ================================================================== *)
(* 2. Inline flows: the text they contribute, the calls they make       *)
(* ================================================================== *)

(* a style that leaves the white-space mode alone: no white-space:pre / pre-wrap, not a <pre> *)
Definition sty_ok (cs : cstyle) : bool :=
  negb (cs_internal_pre cs) &&
  match ws_val (c_white_space (cs_core cs)) with
  | Some WsPre | Some WsPreWrap => false
  | _ => true
  end.

(* inline flow: text, images and em / strong / s / code / span / a / sup, arbitrarily nested;
   no <br>, no element with an id (fragment marker), no block inside *)
Fixpoint inl (n : rnode) {struct n} : bool :=
  sty_ok (rn_style n) &&
  match rn_info n with
  | IText _ | IImg _ _ => true
  | IContainer cs | ILink _ cs | IEm cs | IStrong cs | IStrikeout cs | ICode cs | ISup cs =>
    forallb inl cs
  | _ => false
  end.

(* ONE block around an inline flow: p-like (IBlock), li (IListItem), div (IDiv), or the bare
   flow itself *)
Definition para (n : rnode) : bool :=
  match rn_info n with
  | IBlock cs | IListItem cs | IDiv cs => sty_ok (rn_style n) && forallb inl cs
  | _ => inl n
  end.

Definition sdep (o : ropts) (k : nat) : nat := if o_strike o then S k else k.
Definition ref_text (m : nat) : text := ftext ([91] ++ dec_N (N.of_nat m) ++ [93]).

(* the annotations a style pushes (colours, for decorators that have them) *)
Definition sty_tag (d : deco) (a : tag) (cs : cstyle) : tag :=
  let a1 := match ws_val (c_colour (cs_core cs)) with
            | Some (r, g, b) => if d_colours d then a ++ [AColour r g b] else a
            | None => a
            end in
  match ws_val (c_bg (cs_core cs)) with
  | Some (r, g, b) => if d_colours d then a1 ++ [ABg r g b] else a1
  | None => a1
  end.

Section KidsCalls.
  Context {A : Type}.
  Variable f : rnode -> nat -> list A.
  (* the children one after the other; nl = number of links seen so far *)
  Fixpoint kids_seq (cs : list rnode) (nl : nat) : list A :=
    match cs with
    | [] => []
    | c :: cs' => f c nl ++ kids_seq cs' (nl + length (all_links c))
    end.
End KidsCalls.

Section Flow.
  Variable d : deco.
  Variable o : ropts.

  (* flow_text k n nl: THE TEXT the flow n hands to the wrapper, in order, when the strikeout
     filter depth is k and nl links precede n: leaf texts, decorator affixes (start, end),
     image texts, superscript digits, and - with footnotes on - the reference "[m]" after a
     link; each filtered by the k strikeout filters in force (apply_filters k inserts U+0336
     after every character with a width). *)
  Fixpoint flow_text (k : nat) (n : rnode) (nl : nat) {struct n} : text :=
    let kids (k' : nat) (cs : list rnode) (nl' : nat) : text :=
        kids_seq (fun c m => flow_text k' c m) cs nl' in
    let wrapped (p : text * ann) (e : text) (cs : list rnode) : text :=
        apply_filters k (fst p) ++ kids k cs nl ++ apply_filters k e in
    match rn_info n with
    | IText t => apply_filters k t
    | IImg src title => apply_filters k (fst (d_image d src title))
    | IContainer cs | IBlock cs | IListItem cs | IDiv cs => kids k cs nl
    | ILink href cs =>
      apply_filters k (fst (d_link_start d href)) ++ kids k cs (S nl) ++
      apply_filters k (d_link_end d) ++
      (if o_footnotes o
       then apply_filters k (ref_text (S nl + length (flat_map all_links cs)))
       else [])
    | IEm cs => wrapped (d_em_start d) (d_em_end d) cs
    | IStrong cs => wrapped (d_strong_start d) (d_strong_end d) cs
    | IStrikeout cs =>
      apply_filters k (fst (d_strike_start d)) ++ kids (sdep o k) cs nl ++
      apply_filters k (d_strike_end d)
    | ICode cs => wrapped (d_code_start d) (d_code_end d) cs
    | ISup cs =>
      match sup_digits cs with
      | Some ds => apply_filters k ds
      | None => wrapped (d_sup_start d) (d_sup_end d) cs
      end
    | _ => []
    end.

  (* the same walk, as the list of wb_add_text calls (text, tag); a = annotation stack *)
  Fixpoint flow_calls (a : tag) (k : nat) (n : rnode) (nl : nat) {struct n} : list (text * tag) :=
    let a1 := sty_tag d a (rn_style n) in
    let kids (a' : tag) (k' : nat) (cs : list rnode) (nl' : nat) : list (text * tag) :=
        kids_seq (fun c m => flow_calls a' k' c m) cs nl' in
    let wrapped (p : text * ann) (e : text) (cs : list rnode) : list (text * tag) :=
        (apply_filters k (fst p), a1 ++ [snd p]) :: kids (a1 ++ [snd p]) k cs nl ++
        [(apply_filters k e, a1 ++ [snd p])] in
    match rn_info n with
    | IText t => [(apply_filters k t, a1)]
    | IImg src title =>
      [(apply_filters k (fst (d_image d src title)), a1 ++ [snd (d_image d src title)])]
    | IContainer cs | IBlock cs | IListItem cs | IDiv cs => kids a1 k cs nl
    | ILink href cs =>
      (apply_filters k (fst (d_link_start d href)), a1 ++ [snd (d_link_start d href)]) ::
      kids (a1 ++ [snd (d_link_start d href)]) k cs (S nl) ++
      [(apply_filters k (d_link_end d), a1 ++ [snd (d_link_start d href)])] ++
      (if o_footnotes o
       then [(apply_filters k (ref_text (S nl + length (flat_map all_links cs))), a1)]
       else [])
    | IEm cs => wrapped (d_em_start d) (d_em_end d) cs
    | IStrong cs => wrapped (d_strong_start d) (d_strong_end d) cs
    | IStrikeout cs =>
      (apply_filters k (fst (d_strike_start d)), a1 ++ [snd (d_strike_start d)]) ::
      kids (a1 ++ [snd (d_strike_start d)]) (sdep o k) cs nl ++
      [(apply_filters k (d_strike_end d), a1 ++ [snd (d_strike_start d)])]
    | ICode cs => wrapped (d_code_start d) (d_code_end d) cs
    | ISup cs =>
      match sup_digits cs with
      | Some ds => [(apply_filters k ds, a1)]
      | None => wrapped (d_sup_start d) (d_sup_end d) cs
      end
    | _ => []
    end.

  Definition calls_text (cl : list (text * tag)) : text := concat (map fst cl).

  Lemma calls_text_app x y : calls_text (x ++ y) = calls_text x ++ calls_text y.
  Proof. unfold calls_text. rewrite map_app, concat_app. reflexivity. Qed.

  Lemma kids_calls_text (ft : rnode -> nat -> text) (fc : rnode -> nat -> list (text * tag)) :
    forall cs nl, Forall (fun c => forall m, calls_text (fc c m) = ft c m) cs ->
    calls_text (kids_seq fc cs nl) = kids_seq ft cs nl.
  Proof.
    induction cs as [|c cs IH]; intros nl HF; cbn [kids_seq]; [reflexivity|].
    rewrite calls_text_app, (Forall_inv HF), (IH _ (Forall_inv_tail HF)). reflexivity.
  Qed.

  Lemma flow_calls_text : forall n a k nl, calls_text (flow_calls a k n nl) = flow_text k n nl.
  Proof.
    apply (rnode_ind' (fun n => forall a k nl, calls_text (flow_calls a k n nl) = flow_text k n nl)).
    intros i sty IH a k nl.
    assert (K : forall cs a' k' nl', Forall (fun n => forall a k nl,
                   calls_text (flow_calls a k n nl) = flow_text k n nl) cs ->
                calls_text (kids_seq (fun c m => flow_calls a' k' c m) cs nl') =
                kids_seq (fun c m => flow_text k' c m) cs nl').
    { intros cs a' k' nl' HF. apply kids_calls_text.
      apply Forall_forall. intros c Hc m. rewrite Forall_forall in HF. apply HF, Hc. }
    destruct i; cbn [direct_kids] in IH; cbn [flow_calls flow_text rn_info rn_style];
      try reflexivity; try (apply K; exact IH).
    - (* IText *) unfold calls_text. cbn. apply app_nil_r.
    - (* ILink *)
      change (?x :: ?l) with ([x] ++ l). rewrite !calls_text_app, (K _ _ _ _ IH).
      destruct (o_footnotes o); unfold calls_text; cbn [map fst concat app]; rewrite ?app_nil_r;
        reflexivity.
    - (* IEm *) change (?x :: ?l) with ([x] ++ l). rewrite !calls_text_app, (K _ _ _ _ IH).
      unfold calls_text. cbn [map fst concat app]. rewrite ?app_nil_r. reflexivity.
    - change (?x :: ?l) with ([x] ++ l). rewrite !calls_text_app, (K _ _ _ _ IH).
      unfold calls_text. cbn [map fst concat app]. rewrite ?app_nil_r. reflexivity.
    - change (?x :: ?l) with ([x] ++ l). rewrite !calls_text_app, (K _ _ _ _ IH).
      unfold calls_text. cbn [map fst concat app]. rewrite ?app_nil_r. reflexivity.
    - change (?x :: ?l) with ([x] ++ l). rewrite !calls_text_app, (K _ _ _ _ IH).
      unfold calls_text. cbn [map fst concat app]. rewrite ?app_nil_r. reflexivity.
    - (* IImg *) unfold calls_text. cbn. apply app_nil_r.
    - (* ISup *) destruct (sup_digits cs).
      + unfold calls_text. cbn. apply app_nil_r.
      + change (?x :: ?l) with ([x] ++ l). rewrite !calls_text_app, (K _ _ _ _ IH).
        unfold calls_text. cbn [map fst concat app]. rewrite ?app_nil_r. reflexivity.
  Qed.
End Flow.

(* ================================================================== *)
(* 3. The sub-renderer inside an inline flow                            *)
(* ================================================================== *)

(* s with another open block, annotation stack and strikeout depth *)
Definition upd (s : subr) (ow : option wblock) (a : tag) (k : nat) : subr :=
  mksub (swidth_ s) (sopts s) (slines s) (pending_frags s) (at_block_end s) ow a k
        (pre_depth s) (ws_stack s).

(* inside a block, normal white-space mode, not inside <pre> *)
Definition Open (s : subr) : Prop :=
  at_block_end s = false /\ pre_depth s = 0 /\ ws_mode s = WsNormal.

(* the width text is wrapped to: the sub-renderer's width, capped by max_wrap_width *)
Definition eff_w (o : ropts) (width : N) : N :=
  match wrap_width o with
  | Some ww => N.min (N.max ww 1) width
  | None => width
  end.

Definition getw (s : subr) (ow : option wblock) : wblock :=
  match ow with
  | Some w => w
  | None => wb_new (eff_w (sopts s) (swidth_ s)) (o_pad (sopts s)) (o_allow_overflow (sopts s))
  end.

Lemma get_wrapping_upd s ow a k : get_wrapping (upd s ow a k) = getw s ow.
Proof. destruct ow; reflexivity. Qed.

(* one call *)
Definition run1 (s : subr) (ow : option wblock) (c : text * tag) : res (option wblock) :=
  do w1 <- wb_add_text (getw s ow) (fst c) WsNormal (snd c) (snd c); Ok (Some w1).

Fixpoint wr_run (s : subr) (ow : option wblock) (cl : list (text * tag)) : res (option wblock) :=
  match cl with
  | [] => Ok ow
  | c :: cl' => do ow1 <- run1 s ow c; wr_run s ow1 cl'
  end.

Lemma wr_run_app s : forall x y ow,
  wr_run s ow (x ++ y) = (do ow1 <- wr_run s ow x; wr_run s ow1 y).
Proof.
  induction x as [|c x IH]; intros y ow; cbn [app wr_run bind]; [reflexivity|].
  rewrite bnd_assoc. apply bnd_ext. intros ow1. apply IH.
Qed.

Lemma wr_run_cons_app3 s ow c1 K c2 T :
  wr_run s ow (c1 :: K ++ [c2] ++ T) = (do ow1 <- wr_run s ow (c1 :: K ++ [c2]); wr_run s ow1 T).
Proof. rewrite app_assoc, app_comm_cons. apply wr_run_app. Qed.

Lemma wr_run_one s ow c : wr_run s ow [c] = run1 s ow c.
Proof. cbn [wr_run]. apply bnd_ret. Qed.

Lemma run1_NF s ow c ow' : run1 s ow c = Ok ow' -> NFo ow -> NFo ow'.
Proof.
  unfold run1. intros H Hn. bind_inv H w1 H1. ok_inv H. cbn [NFo].
  apply (wb_add_text_NF _ _ _ _ H1). destruct ow; [exact Hn|apply NF_new].
Qed.

Lemma wr_run_NF s : forall cl ow ow', wr_run s ow cl = Ok ow' -> NFo ow -> NFo ow'.
Proof.
  induction cl as [|c cl IH]; intros ow ow' H Hn; cbn [wr_run] in H.
  - ok_inv H. exact Hn.
  - bind_inv H ow1 H1. exact (IH _ _ H (run1_NF _ _ _ _ H1 Hn)).
Qed.

Section Ops.
  Variable d : deco.

  Lemma ws_mode_upd s ow a k : ws_mode (upd s ow a k) = ws_mode s.
  Proof. reflexivity. Qed.

  Lemma inline_eq s ow a k t : Open s ->
    add_inline_text d (upd s ow a k) t =
    (do ow1 <- run1 s ow (apply_filters k t, a); Ok (upd s ow1 a k)).
  Proof.
    intros (Ha & Hp & Hm). destruct s as [W o ls pf abe wr an fd pd wst].
    cbn [at_block_end pre_depth] in Ha, Hp. subst abe pd.
    unfold ws_mode in Hm. cbn [ws_stack] in Hm.
    unfold add_inline_text, upd, run1, ws_mode, get_wrapping, getw, eff_w.
    cbn [swidth_ sopts slines pending_frags at_block_end wrapping ann_stack filter_depth pre_depth
         ws_stack set_wrapping fst snd].
    rewrite Hm.
    cbn [preserve_ws negb andb bind swidth_ sopts slines pending_frags at_block_end wrapping
         ann_stack filter_depth pre_depth ws_stack set_wrapping fst snd].
    rewrite Hm. change (0 <? 0) with false. cbv iota.
    rewrite bnd_assoc. apply bnd_ext. intros w1. cbn [bind]. reflexivity.
  Qed.

  Lemma push_ann_upd s ow a k x : push_ann (upd s ow a k) x = upd s ow (a ++ [x]) k.
  Proof. reflexivity. Qed.
  Lemma pop_ann_upd s ow a k x : pop_ann (upd s ow (a ++ [x]) k) = upd s ow a k.
  Proof. unfold pop_ann, set_ann, upd. cbn. rewrite removelast_last. reflexivity. Qed.

  Lemma start_deco_eq s ow a k p : Open s ->
    start_deco d (upd s ow a k) p =
    (do ow1 <- run1 s ow (apply_filters k (fst p), a ++ [snd p]); Ok (upd s ow1 (a ++ [snd p]) k)).
  Proof. intros Ho. unfold start_deco. rewrite push_ann_upd. apply inline_eq, Ho. Qed.

  Lemma end_deco_eq s ow a k x e : Open s ->
    end_deco d (upd s ow (a ++ [x]) k) e =
    (do ow1 <- run1 s ow (apply_filters k e, a ++ [x]); Ok (upd s ow1 a k)).
  Proof.
    intros Ho. unfold end_deco. rewrite (inline_eq _ _ _ _ _ Ho), bnd_assoc.
    apply bnd_ext. intros ow1. cbn [bind]. rewrite pop_ann_upd. reflexivity.
  Qed.

  Lemma start_strikeout_eq s ow a k : Open s ->
    start_strikeout d (upd s ow a k) =
    (do ow1 <- run1 s ow (apply_filters k (fst (d_strike_start d)), a ++ [snd (d_strike_start d)]);
     Ok (upd s ow1 (a ++ [snd (d_strike_start d)]) (sdep (sopts s) k))).
  Proof.
    intros Ho. unfold start_strikeout. rewrite (start_deco_eq _ _ _ _ _ Ho), bnd_assoc.
    apply bnd_ext. intros ow1. cbn [bind]. unfold sdep. cbn [upd sopts].
    destruct (o_strike (sopts s)); reflexivity.
  Qed.

  Lemma end_strikeout_eq s ow a k x : Open s ->
    end_strikeout d (upd s ow (a ++ [x]) (sdep (sopts s) k)) =
    (do ow1 <- run1 s ow (apply_filters k (d_strike_end d), a ++ [x]); Ok (upd s ow1 a k)).
  Proof.
    intros Ho. unfold end_strikeout, sdep. cbn [upd sopts filter_depth].
    destruct (o_strike (sopts s)); cbn [bind]; exact (end_deco_eq _ _ _ _ _ _ Ho).
  Qed.

  Lemma add_image_eq s ow a k src title : Open s ->
    add_image d (upd s ow a k) src title =
    (do ow1 <- run1 s ow (apply_filters k (fst (d_image d src title)),
                          a ++ [snd (d_image d src title)]);
     Ok (upd s ow1 a k)).
  Proof.
    intros Ho. unfold add_image. cbv zeta. rewrite push_ann_upd, (inline_eq _ _ _ _ _ Ho), bnd_assoc.
    apply bnd_ext. intros ow1. cbn [bind]. rewrite pop_ann_upd. reflexivity.
  Qed.

  (* ---- styles ---- *)
  Lemma apply_style_eq s ow a k rest lk cs : sty_ok cs = true ->
    apply_style d (mkrst (upd s ow a k :: rest) lk) cs =
    Ok (mkrst (upd s ow (sty_tag d a cs) k :: rest) lk,
        mkpushed (match ws_val (c_colour (cs_core cs)) with Some _ => true | None => false end)
                 (match ws_val (c_bg (cs_core cs)) with Some _ => true | None => false end)
                 false false).
  Proof.
    unfold sty_ok. intros H. apply andb_true_iff in H. destruct H as [Hpre Hws].
    apply negb_true_iff in Hpre. unfold apply_style, sty_tag. rewrite Hpre.
    assert (Ew : match ws_val (c_white_space (cs_core cs)) with
                 | Some WsPre => Some WsPre | Some WsPreWrap => Some WsPreWrap | _ => None end
                 = @None wsmode).
    { destruct (ws_val (c_white_space (cs_core cs))) as [[| |]|]; try discriminate; reflexivity. }
    rewrite Ew.
    destruct (ws_val (c_colour (cs_core cs))) as [[[r g] b]|];
      destruct (ws_val (c_bg (cs_core cs))) as [[[r' g'] b']|];
      unfold with_top', with_top, push_colour, push_bgcolour; cbn [stack links bind];
      destruct (d_colours d); reflexivity.
  Qed.

  Lemma unwind_eq s ow a k rest lk cs :
    unwind d (mkpushed (match ws_val (c_colour (cs_core cs)) with Some _ => true | None => false end)
                       (match ws_val (c_bg (cs_core cs)) with Some _ => true | None => false end)
                       false false)
           (mkrst (upd s ow (sty_tag d a cs) k :: rest) lk) =
    Ok (mkrst (upd s ow a k :: rest) lk).
  Proof.
    unfold unwind, sty_tag. cbn [p_bg p_colour p_ws p_pre].
    destruct (ws_val (c_colour (cs_core cs))) as [[[r g] b]|];
      destruct (ws_val (c_bg (cs_core cs))) as [[[r' g'] b']|];
      unfold with_top', with_top, pop_bgcolour, pop_colour; cbn [stack links bind];
      destruct (d_colours d); cbn [bind stack links]; rewrite ?pop_ann_upd; reflexivity.
  Qed.
End Ops.

(* ================================================================== *)
(* 4. render_node on an inline flow = the sequence of its calls         *)
(* ================================================================== *)

Section Node.
  Variable d : deco.
  Variable mw : N.

  Lemma inl_wf : forall n, inl n = true -> RenderTotal.wf d mw n = true.
  Proof.
    apply (rnode_ind' (fun n => inl n = true -> RenderTotal.wf d mw n = true)).
    intros i sty IH H. cbn [inl rn_info rn_style] in H. apply andb_true_iff in H. destruct H as [_ H].
    assert (K : forall cs, Forall (fun n => inl n = true -> RenderTotal.wf d mw n = true) cs ->
                forallb inl cs = true -> forallb (RenderTotal.wf d mw) cs = true).
    { intros cs HF Hc. apply forallb_forall. intros c Hin. rewrite Forall_forall in HF.
      rewrite forallb_forall in Hc. auto. }
    destruct i; cbn [direct_kids] in IH; try discriminate H; cbn [RenderTotal.wf rn_info];
      first [reflexivity|exact (K _ IH H)].
  Qed.

  Lemma est_inl n : inl n = true -> exists e, est_node d mw n = Ok e.
  Proof. intros H. apply RenderTotal.est_total, inl_wf, H. Qed.

  Lemma est_para n : para n = true -> exists e, est_node d mw n = Ok e.
  Proof.
    intros H. apply RenderTotal.est_total. destruct n as [i sty]. unfold para in H. cbn [rn_info rn_style] in H.
    assert (K : forall cs, forallb inl cs = true -> forallb (RenderTotal.wf d mw) cs = true).
    { intros cs Hc. apply forallb_forall. intros c Hin. rewrite forallb_forall in Hc.
      apply inl_wf. auto. }
    destruct i; try (apply inl_wf; exact H);
      apply andb_true_iff in H; destruct H as [_ H]; cbn [RenderTotal.wf rn_info]; exact (K _ H).
  Qed.

  Definition node_eq (n : rnode) : Prop :=
    forall s ow a k rest lk, Open s -> inl n = true ->
    render_node d mw n (mkrst (upd s ow a k :: rest) lk) =
    (do ow' <- wr_run s ow (flow_calls d (sopts s) a k n (length lk));
     Ok (mkrst (upd s ow' a k :: rest) (lk ++ all_links n))).

  Lemma kids_eq : forall cs, Forall node_eq cs -> forallb inl cs = true ->
    forall s ow a k rest lk, Open s ->
    fold_left (fun acc c => do s <- acc; render_node d mw c s) cs
              (Ok (mkrst (upd s ow a k :: rest) lk)) =
    (do ow' <- wr_run s ow (kids_seq (fun c m => flow_calls d (sopts s) a k c m) cs (length lk));
     Ok (mkrst (upd s ow' a k :: rest) (lk ++ flat_map all_links cs))).
  Proof.
    induction cs as [|c cs IH]; intros HF Hi s ow a k rest lk Ho;
      cbn [fold_left kids_seq flat_map wr_run bind].
    - rewrite app_nil_r. reflexivity.
    - cbn [forallb] in Hi. apply andb_true_iff in Hi. destruct Hi as [Hc Hcs].
      rewrite (Forall_inv HF s ow a k rest lk Ho Hc), fold_bnd, wr_run_app, bnd_assoc.
      apply bnd_ext. intros ow1.
      rewrite (IH (Forall_inv_tail HF) Hcs s ow1 a k rest _ Ho), app_length, app_assoc.
      reflexivity.
  Qed.

  (* start operation, children, end operation *)
  Lemma wrap_eq (f1 f2 : subr -> res subr) c1 c2 a1 a2 k k2 s ow rest lk cs
        (R : rstate -> res rstate) :
    Open s ->
    (forall ow, f1 (upd s ow a1 k) = (do ow1 <- run1 s ow c1; Ok (upd s ow1 a2 k2))) ->
    (forall ow, f2 (upd s ow a2 k2) = (do ow1 <- run1 s ow c2; Ok (upd s ow1 a1 k))) ->
    Forall node_eq cs -> forallb inl cs = true ->
    (do st1 <- with_top (mkrst (upd s ow a1 k :: rest) lk) f1;
     do st2 <- fold_left (fun acc c => do s <- acc; render_node d mw c s) cs (Ok st1);
     do st3 <- with_top st2 f2; R st3) =
    (do ow' <- wr_run s ow
         (c1 :: kids_seq (fun c m => flow_calls d (sopts s) a2 k2 c m) cs (length lk) ++ [c2]);
     R (mkrst (upd s ow' a1 k :: rest) (lk ++ flat_map all_links cs))).
  Proof.
    intros Ho H1 H2 HF Hi. unfold with_top at 1. cbn [stack links wr_run].
    rewrite H1, !bnd_assoc. apply bnd_ext. intros ow1. cbn [bind].
    rewrite (kids_eq cs HF Hi s ow1 a2 k2 rest lk Ho), wr_run_app, !bnd_assoc.
    apply bnd_ext. intros ow2. cbn [bind]. unfold with_top. cbn [stack links].
    rewrite H2, wr_run_one, !bnd_assoc. apply bnd_ext. intros ow3. reflexivity.
  Qed.

  Lemma node_eq_all : forall n, node_eq n.
  Proof.
    apply rnode_ind'. intros i sty IH s ow a k rest lk Ho Hi.
    destruct (est_inl _ Hi) as [e He].
    cbn [inl rn_info rn_style] in Hi. apply andb_true_iff in Hi. destruct Hi as [Hs Hi].
    destruct i; cbn [direct_kids] in IH; try discriminate Hi;
      cbn [render_node rn_info rn_style]; unfold est_of; rewrite He; cbn [bind];
      rewrite (apply_style_eq d s ow a k rest lk sty Hs); cbn [bind];
      cbn [flow_calls all_links rn_info rn_style].
    - (* IText *)
      unfold inline_text, with_top. cbn [stack links].
      rewrite (inline_eq d _ _ _ _ _ Ho), wr_run_one, !bnd_assoc. apply bnd_ext. intros ow1.
      cbn [bind]. rewrite unwind_eq, app_nil_r. reflexivity.
    - (* IContainer *)
      rewrite (kids_eq cs IH Hi s ow _ k rest lk Ho), !bnd_assoc. apply bnd_ext. intros ow1.
      cbn [bind]. apply unwind_eq.
    - (* ILink *)
      cbn [stack links].
      set (p := d_link_start d href). set (a1 := sty_tag d a sty).
      assert (El : length (lk ++ [href]) = S (length lk)).
      { rewrite app_length. cbn [length]. lia. }
      pose proof (wrap_eq (fun s0 => sub_start_link d s0 href) (sub_end_link d)
                 (apply_filters k (fst p), a1 ++ [snd p]) (apply_filters k (d_link_end d), a1 ++ [snd p])
                 a1 (a1 ++ [snd p]) k k s ow rest (lk ++ [href]) cs
                 (fun st4 =>
                    do tp <- top st4;
                    do st5 <- (if o_footnotes (sopts tp)
                               then inline_text d st4
                                      (ftext ([91] ++ dec_N (N.of_nat (length (links st4))) ++ [93]))
                               else Ok st4);
                    unwind d (mkpushed
                      (match ws_val (c_colour (cs_core sty)) with Some _ => true | None => false end)
                      (match ws_val (c_bg (cs_core sty)) with Some _ => true | None => false end)
                      false false) st5) Ho
                 (fun ow => start_deco_eq d s ow a1 k p Ho)
                 (fun ow => end_deco_eq d s ow a1 k (snd p) (d_link_end d) Ho) IH Hi) as W.
      rewrite El in W. refine (eq_trans W _). clear W.
      rewrite wr_run_cons_app3, bnd_assoc. apply bnd_ext. intros ow1.
      cbn [top stack bind links upd sopts].
      assert (E2 : (lk ++ [href]) ++ flat_map all_links cs = lk ++ href :: flat_map all_links cs).
      { rewrite <- app_assoc. reflexivity. }
      assert (E3 : length ((lk ++ [href]) ++ flat_map all_links cs) =
                   (S (length lk) + length (flat_map all_links cs))%nat).
      { rewrite app_length, El. reflexivity. }
      destruct (o_footnotes (sopts s)).
      + unfold inline_text, with_top. cbn [stack links wr_run]. rewrite E3.
        fold (upd s ow1 a1 k). rewrite (inline_eq d _ _ _ _ _ Ho). fold (ref_text (S (length lk) + length (flat_map all_links cs))).
        rewrite !bnd_assoc. apply bnd_ext. intros ow2. cbn [bind].
        fold (upd s ow2 a1 k). rewrite E2. apply unwind_eq.
      + cbn [wr_run bind]. fold (upd s ow1 a1 k). rewrite E2. apply unwind_eq.
    - (* IEm *)
      rewrite (wrap_eq (start_emphasis d) (end_emphasis d) _ _ _ _ k k s ow rest lk cs _ Ho
                 (fun ow => start_deco_eq d s ow _ k (d_em_start d) Ho)
                 (fun ow => end_deco_eq d s ow _ k _ (d_em_end d) Ho) IH Hi).
      apply bnd_ext. intros ow1. apply unwind_eq.
    - (* IStrong *)
      rewrite (wrap_eq (start_strong d) (end_strong d) _ _ _ _ k k s ow rest lk cs _ Ho
                 (fun ow => start_deco_eq d s ow _ k (d_strong_start d) Ho)
                 (fun ow => end_deco_eq d s ow _ k _ (d_strong_end d) Ho) IH Hi).
      apply bnd_ext. intros ow1. apply unwind_eq.
    - (* IStrikeout *)
      rewrite (wrap_eq (start_strikeout d) (end_strikeout d) _ _ _ _ k (sdep (sopts s) k) s ow rest lk cs _ Ho
                 (fun ow => start_strikeout_eq d s ow _ k Ho)
                 (fun ow => end_strikeout_eq d s ow _ k _ Ho) IH Hi).
      apply bnd_ext. intros ow1. apply unwind_eq.
    - (* ICode *)
      rewrite (wrap_eq (start_code d) (end_code d) _ _ _ _ k k s ow rest lk cs _ Ho
                 (fun ow => start_deco_eq d s ow _ k (d_code_start d) Ho)
                 (fun ow => end_deco_eq d s ow _ k _ (d_code_end d) Ho) IH Hi).
      apply bnd_ext. intros ow1. apply unwind_eq.
    - (* IImg *)
      unfold with_top. cbn [stack links].
      rewrite (add_image_eq d _ _ _ _ _ _ Ho), wr_run_one, !bnd_assoc. apply bnd_ext. intros ow1.
      cbn [bind]. rewrite unwind_eq, app_nil_r. reflexivity.
    - (* ISup *)
      destruct (sup_digits cs) as [ds|] eqn:Esd.
      + unfold inline_text, with_top. cbn [stack links].
        rewrite (inline_eq d _ _ _ _ _ Ho), wr_run_one, !bnd_assoc. apply bnd_ext. intros ow1.
        cbn [bind]. rewrite unwind_eq, (Decorators.sup_digits_links_nil _ _ Esd), app_nil_r.
        reflexivity.
      + rewrite (wrap_eq (start_superscript d) (end_superscript d) _ _ _ _ k k s ow rest lk cs _ Ho
                 (fun ow => start_deco_eq d s ow _ k (d_sup_start d) Ho)
                 (fun ow => end_deco_eq d s ow _ k _ (d_sup_end d) Ho) IH Hi).
        apply bnd_ext. intros ow1. apply unwind_eq.
  Qed.
End Node.

(* ================================================================== *)
(* 5. One block around an inline flow                                   *)
(* ================================================================== *)

(* a sub-renderer in which nothing has been rendered yet (the initial one, and every fresh
   nested one), in normal white-space mode *)
Definition Fresh (s : subr) : Prop :=
  slines s = [] /\ pending_frags s = [] /\ wrapping s = None /\ Open s.

Lemma Fresh_eta s : Fresh s -> s = upd s None (ann_stack s) (filter_depth s).
Proof.
  destruct s as [W o ls pf abe wr an fd pd wst]. unfold Fresh. cbn [wrapping].
  intros (_ & _ & -> & _). reflexivity.
Qed.

Lemma Fresh_open s : Fresh s -> Open s.
Proof. intros H. apply H. Qed.

Lemma Fresh_sub_new width o : Fresh (sub_new width o).
Proof. repeat split. Qed.

Lemma Fresh_new_sub tp w : pre_depth tp = 0 -> ws_mode tp = WsNormal -> Fresh (new_sub_renderer tp w).
Proof. intros H1 H2. repeat split; assumption. Qed.

Lemma start_block_fresh s a k : Fresh s -> start_block (upd s None a k) = Ok (upd s None a k).
Proof.
  destruct s as [W o ls pf abe wr an fd pd wst]. unfold Fresh, Open.
  cbn [slines pending_frags wrapping at_block_end pre_depth].
  intros (-> & -> & -> & -> & -> & _). reflexivity.
Qed.

Lemma flush_none_upd s a k : flush_wrapping (upd s None a k) = Ok (upd s None a k).
Proof. reflexivity. Qed.

Section Para.
  Variable d : deco.
  Variable mw : N.

  (* what the block does after its children *)
  Definition close (n : rnode) (s : subr) (ow : option wblock) : res subr :=
    match rn_info n with
    | IBlock _ | IListItem _ => Ok (set_abe (upd s ow (ann_stack s) (filter_depth s)) true)
    | IDiv _ =>
      do s1 <- flush_wrapping (upd s ow (sty_tag d (ann_stack s) (rn_style n)) (filter_depth s));
      Ok (set_ann s1 (ann_stack s))
    | _ => Ok (upd s ow (ann_stack s) (filter_depth s))
    end.

  Lemma unwind_eq' s' a rest lk cs : ann_stack s' = sty_tag d a cs ->
    unwind d (mkpushed (match ws_val (c_colour (cs_core cs)) with Some _ => true | None => false end)
                       (match ws_val (c_bg (cs_core cs)) with Some _ => true | None => false end)
                       false false)
           (mkrst (s' :: rest) lk) =
    Ok (mkrst (set_ann s' a :: rest) lk).
  Proof.
    intros H. destruct s' as [W o ls pf abe wr an fd pd wst]. cbn [ann_stack] in H. subst an.
    exact (unwind_eq d (mksub W o ls pf abe wr [] fd pd wst) wr a fd rest lk cs).
  Qed.

  Lemma para_eq n s rest lk : para n = true -> Fresh s ->
    render_node d mw n (mkrst (s :: rest) lk) =
    (do ow <- wr_run s None (flow_calls d (sopts s) (ann_stack s) (filter_depth s) n (length lk));
     do b <- close n s ow; Ok (mkrst (b :: rest) (lk ++ all_links n))).
  Proof.
    intros Hp Hf. pose proof (Fresh_open _ Hf) as Ho. pose proof (Fresh_eta _ Hf) as Eta.
    set (a := ann_stack s) in *. set (k := filter_depth s) in *.
    destruct (est_para d mw _ Hp) as [e He].
    replace (mkrst (s :: rest) lk) with (mkrst (upd s None a k :: rest) lk)
      by (rewrite <- Eta; reflexivity).
    assert (Inl : inl n = true ->
      render_node d mw n (mkrst (upd s None a k :: rest) lk) =
      (do ow <- wr_run s None (flow_calls d (sopts s) a k n (length lk));
       do b <- Ok (upd s ow a k); Ok (mkrst (b :: rest) (lk ++ all_links n)))).
    { intros Hi. rewrite (node_eq_all d mw n s None a k rest lk Ho Hi). reflexivity. }
    destruct n as [i sty]. unfold para in Hp. cbn [rn_info rn_style] in Hp.
    assert (Blk : forall cs, sty_ok sty && forallb inl cs = true ->
      (do sz <- Ok e;
       do ap <- apply_style d (mkrst (upd s None a k :: rest) lk) sty;
       let '(st, pushed_style) := ap in
       do st1 <- with_top st start_block;
       do st2 <- fold_left (fun acc c => do s <- acc; render_node d mw c s) cs (Ok st1);
       do st3 <- with_top' st2 end_block; unwind d pushed_style st3) =
      (do ow <- wr_run s None (kids_seq (fun c m => flow_calls d (sopts s) (sty_tag d a sty) k c m) cs (length lk));
       do b <- Ok (set_abe (upd s ow a k) true); Ok (mkrst (b :: rest) (lk ++ flat_map all_links cs)))).
    { intros cs Hc. apply andb_true_iff in Hc. destruct Hc as [Hs Hi]. cbn [bind].
      rewrite (apply_style_eq d s None a k rest lk sty Hs). cbn [bind].
      unfold with_top at 1. cbn [stack links]. rewrite (start_block_fresh _ _ _ Hf). cbn [bind].
      assert (HF : Forall (node_eq d mw) cs) by (apply Forall_forall; intros c _; apply node_eq_all).
      rewrite (kids_eq d mw cs HF Hi s None _ k rest lk Ho), !bnd_assoc.
      apply bnd_ext. intros ow. cbn [bind]. unfold with_top', with_top. cbn [stack links bind].
      exact (unwind_eq d (set_abe s true) ow a k rest _ sty). }
    destruct i; try (exact (Inl Hp)); unfold close; cbn [rn_info rn_style];
      cbn [render_node rn_info rn_style flow_calls all_links]; unfold est_of; rewrite He.
    - (* IBlock *) exact (Blk cs Hp).
    - (* IDiv *)
      apply andb_true_iff in Hp. destruct Hp as [Hs Hi]. cbn [bind].
      rewrite (apply_style_eq d s None a k rest lk sty Hs). cbn [bind].
      unfold with_top at 1, new_line. cbn [stack links]. rewrite flush_none_upd. cbn [bind].
      assert (HF : Forall (node_eq d mw) cs) by (apply Forall_forall; intros c _; apply node_eq_all).
      rewrite (kids_eq d mw cs HF Hi s None _ k rest lk Ho), !bnd_assoc.
      apply bnd_ext. intros ow. cbn [bind]. unfold with_top. cbn [stack links].
      rewrite !bnd_assoc. apply bnd_ext_ok. intros s1 H1. cbn [bind].
      apply unwind_eq'.
      destruct (flush_wrapping_spec _ _ H1) as (_ & _ & (_ & _ & c3 & _) & _).
      { unfold ptxt. cbn [upd pending_frags]. destruct Hf as (_ & -> & _). reflexivity. }
      exact c3.
    - (* IListItem *) exact (Blk cs Hp).
  Qed.
End Para.

(* ================================================================== *)
(* 6. The calls of a flow, closed = the reference greedy wrapper        *)
(* ================================================================== *)

Lemma fin_getw s ow : fin ow = GreedyProof.finish (getw s ow).
Proof. destruct ow; reflexivity. Qed.

Lemma wr_run_steps s : forall cl ow,
  (do ow' <- wr_run s ow cl; GreedyProof.finish (getw s ow')) =
  (do b <- GreedyProof.steps (getw s ow) (GreedyProof.flat cl); GreedyProof.finish b).
Proof.
  induction cl as [|c cl IH]; intros ow.
  - reflexivity.
  - cbn [wr_run]. unfold run1. rewrite !bnd_assoc, GreedyProof.wb_add_text_normal.
    change (GreedyProof.flat (c :: cl))
      with (GreedyProof.tag_all (snd c) (fst c) ++ GreedyProof.flat cl).
    rewrite GreedyProof.steps_app, bnd_assoc. apply bnd_ext. intros w1. cbn [bind].
    exact (IH (Some w1)).
Qed.

Lemma run_greedy s cl :
  o_pad (sopts s) = false -> o_allow_overflow (sopts s) = false ->
  1 <= eff_w (sopts s) (swidth_ s) -> GreedyProof.all_words_pos (calls_text cl) ->
  (do ow <- wr_run s None cl; fin ow) =
  greedy (eff_w (sopts s) (swidth_ s)) (words_of (calls_text cl)).
Proof.
  intros Hpad Hovf HW Hpos. unfold calls_text in *.
  rewrite <- (GreedyProof.c04_greedy _ cl HW Hpos).
  unfold GreedyProof.impl_lines. rewrite GreedyProof.run_calls_steps.
  rewrite (bnd_ext _ _ _ (fun ow => fin_getw s ow)), wr_run_steps.
  unfold getw. rewrite Hpad, Hovf. reflexivity.
Qed.

Lemma greedy_res W ws_ : match greedy W ws_ with Panic _ | OutOfFuel => False | _ => True end.
Proof.
  unfold greedy. pose proof (GreedyProof.place_words_res W ws_ ([], [], 0)) as H.
  destruct (place_words W ([], [], 0) ws_) as [[[ls cur] curw]| | |]; cbn [bind]; exact H.
Qed.

Section ParaGreedy.
  Variable d : deco.
  Variable mw : N.

  Lemma close_out n s ow : Fresh s -> NFo ow ->
    (do b <- close d n s ow; out_lines b) = fin ow.
  Proof.
    intros (Hl & Hpf & Hw & Ho) Hn.
    assert (Base : forall a k abe,
      out_lines (mksub (swidth_ s) (sopts s) (slines s) (pending_frags s) abe ow a k
                       (pre_depth s) (ws_stack s)) = fin ow).
    { intros a k abe. apply out_lines_fin; [exact Hl|unfold ptxt; sprj; rewrite Hpf; reflexivity|
                                           reflexivity|exact Hn]. }
    unfold close. destruct (rn_info n); cbn [bind]; try apply Base.
    (* IDiv *)
    set (S0 := upd s ow (sty_tag d (ann_stack s) (rn_style n)) (filter_depth s)).
    rewrite <- (Base (sty_tag d (ann_stack s) (rn_style n)) (filter_depth s) (at_block_end s)).
    fold (upd s ow (sty_tag d (ann_stack s) (rn_style n)) (filter_depth s)). fold S0.
    unfold out_lines at 2, sub_into_lines. rewrite !bnd_assoc. apply bnd_ext_ok. intros s1 H1.
    cbn [bind]. exact (out_lines_none (set_ann s1 (ann_stack s)) (flush_wrapping_none _ _ H1)).
  Qed.

  Lemma close_shape n s ow b : Fresh s -> close d n s ow = Ok b ->
    ptxt b = [] /\ swidth_ b = swidth_ s /\ sopts b = sopts s /\ Forall is_text (slines b).
  Proof.
    intros (Hl & Hpf & Hw & Ho) H.
    assert (Base : forall a k abe,
      let b := mksub (swidth_ s) (sopts s) (slines s) (pending_frags s) abe ow a k
                     (pre_depth s) (ws_stack s) in
      ptxt b = [] /\ swidth_ b = swidth_ s /\ sopts b = sopts s /\ Forall is_text (slines b)).
    { intros a k abe. unfold ptxt. sprj. rewrite Hpf, Hl. repeat split. constructor. }
    unfold close in H. destruct (rn_info n); try (ok_inv H; apply Base).
    (* IDiv *)
    bind_inv H s1 H1. ok_inv H.
    destruct (Base (sty_tag d (ann_stack s) (rn_style n)) (filter_depth s) (at_block_end s))
      as (B1 & B2 & B3 & B4).
    destruct (flush_wrapping_spec _ _ H1 B1) as (_ & P & (c1 & c2 & _) & _).
    unfold ptxt in *. sprj. split; [exact P|]. split; [exact c1|]. split; [exact c2|].
    exact (flush_wrapping_is_text _ _ H1 B4).
  Qed.

  (* what render_node leaves on top of the stack, as line strings (pending text flushed) *)
  Definition node_out (n : rnode) (st : rstate) : res (list text) :=
    do st' <- render_node d mw n st; do b <- top st'; out_lines b.

  (* the run of a paragraph in a fresh sub-renderer, closed *)
  Lemma node_out_run n s rest lk : para n = true -> Fresh s ->
    node_out n (mkrst (s :: rest) lk) =
    (do ow <- wr_run s None (flow_calls d (sopts s) (ann_stack s) (filter_depth s) n (length lk));
     fin ow).
  Proof.
    intros Hp Hf. unfold node_out. rewrite (para_eq d mw n s rest lk Hp Hf), !bnd_assoc.
    apply bnd_ext_ok. intros ow Hrun.
    rewrite <- (close_out n s ow Hf (wr_run_NF _ _ _ _ Hrun I)), !bnd_assoc.
    apply bnd_ext. intros b. reflexivity.
  Qed.

  (* ---------------------------------------------------------------- *)
  (* GOAL A, node level: ONE block around an inline flow, rendered in a fresh sub-renderer
     (no padding, no overflow, effective wrap width W >= 1): its lines are exactly the lines
     of the reference greedy wrapper on the words of the flow's text - and it fails with
     TooNarrow exactly when the reference does; never a panic.  `rest` (the stack below) and
     the links collected so far are arbitrary. *)
  Theorem para_greedy_node : forall n s rest lk,
    para n = true -> Fresh s ->
    o_pad (sopts s) = false -> o_allow_overflow (sopts s) = false ->
    1 <= eff_w (sopts s) (swidth_ s) ->
    GreedyProof.all_words_pos (flow_text d (sopts s) (filter_depth s) n (length lk)) ->
    node_out n (mkrst (s :: rest) lk) =
    greedy (eff_w (sopts s) (swidth_ s))
           (words_of (flow_text d (sopts s) (filter_depth s) n (length lk))).
  Proof.
    intros n s rest lk Hp Hf Hpad Hovf HW Hpos.
    rewrite (node_out_run n s rest lk Hp Hf).
    rewrite <- (flow_calls_text d (sopts s) n (ann_stack s) (filter_depth s) (length lk)) in *.
    apply run_greedy; assumption.
  Qed.

  (* the state it leaves *)
  Lemma para_node_shape n s rest lk st' : para n = true -> Fresh s ->
    render_node d mw n (mkrst (s :: rest) lk) = Ok st' ->
    exists b, st' = mkrst (b :: rest) (lk ++ all_links n) /\
              ptxt b = [] /\ swidth_ b = swidth_ s /\ sopts b = sopts s /\
              Forall is_text (slines b).
  Proof.
    intros Hp Hf H. rewrite (para_eq d mw n s rest lk Hp Hf) in H.
    bind_inv H ow Hrun. bind_inv H b Hcl. ok_inv H. exists b. split; [reflexivity|].
    exact (close_shape _ _ _ _ Hf Hcl).
  Qed.
End ParaGreedy.
Print Assumptions para_greedy_node.

(* ================================================================== *)
(* 7. GOAL A, whole renderer                                            *)
(* ================================================================== *)

Lemma start_block_ok s s1 : flush_wrapping s = Ok s1 -> exists s4, start_block s = Ok s4.
Proof.
  intros H. unfold start_block. rewrite H. cbn [bind].
  destruct (existsb rline_has_content (slines s1)); [|eexists; reflexivity].
  unfold add_empty_line. rewrite (flush_none _ (flush_wrapping_none _ _ H)). cbn [bind].
  eexists. reflexivity.
Qed.

Lemma out_lines_ok s body : out_lines s = Ok body ->
  exists s1, flush_wrapping s = Ok s1 /\ strs (slines s1) = body /\ sub_into_lines s = Ok (slines s1).
Proof.
  unfold out_lines, sub_into_lines. destruct (flush_wrapping s) as [s1| | |]; cbn [bind]; try discriminate.
  intros H. ok_inv H. eauto.
Qed.

Lemma out_lines_narrow s : out_lines s = TooNarrow ->
  flush_wrapping s = TooNarrow /\ sub_into_lines s = TooNarrow.
Proof.
  unfold out_lines, sub_into_lines. destruct (flush_wrapping s) as [s1| | |]; cbn [bind]; try discriminate.
  auto.
Qed.

Section Tree.
  Variable d : deco.
  Variable mw : N.

  (* the links whose targets are listed at the end *)
  Definition foot_links (o : ropts) (tree : rnode) : list text :=
    if o_footnotes o then all_links tree else [].

  (* ---------------------------------------------------------------- *)
  (* GOAL A: render_tree on ONE block around an inline flow.
     With W = the effective wrap width (= width when max_wrap_width is absent or >= width):
     - if the reference wrapper gives `body`, render_tree succeeds and its lines are
         body ++ [one blank line, iff there is a footnote list and body <> []] ++ new
       where `new` are the lines of the footnote list "[k]: target_k" (k = 1..) - one group of
       lines per link whose strings concatenate to the entry; without link wrapping exactly
       one line per link; no list (new = []) when footnotes are off or there is no link;
     - if the reference wrapper says TooNarrow, so does the renderer;
     - the reference wrapper never panics. *)
  Theorem para_greedy_tree : forall o width tree,
    para tree = true ->
    o_pad o = false -> o_allow_overflow o = false -> 1 <= eff_w o width ->
    GreedyProof.all_words_pos (flow_text d o 0 tree 0) ->
    match greedy (eff_w o width) (words_of (flow_text d o 0 tree 0)) with
    | Ok body =>
      exists s ls new,
        render_tree d mw o width tree = Ok s /\ sub_into_lines s = Ok ls /\
        strs ls = body ++ (match foot_links o tree with [] => [] | _ :: _ => blank_after body end)
                       ++ strs new /\
        entry_groups (map entry_text (finalise_from 1 (foot_links o tree))) [] new /\
        (o_wrap_links o = false ->
         strs new = map entry_text (finalise_from 1 (foot_links o tree)))
    | TooNarrow => (do s <- render_tree d mw o width tree; sub_into_lines s) = TooNarrow
    | _ => False
    end.
  Proof.
    intros o width tree Hp Hpad Hovf HW Hpos.
    set (s0 := sub_new width o).
    pose proof (Fresh_sub_new width o) as Hf. fold s0 in Hf.
    pose proof (para_greedy_node d mw tree s0 [] [] Hp Hf Hpad Hovf HW Hpos) as Hnode.
    cbn [s0 sub_new sopts swidth_ filter_depth length] in Hnode.
    pose proof (greedy_ne (eff_w o width) (words_of (flow_text d o 0 tree 0))) as Hne.
    pose proof (greedy_res (eff_w o width) (words_of (flow_text d o 0 tree 0))) as Hres.
    destruct (greedy (eff_w o width) (words_of (flow_text d o 0 tree 0))) as [body| | |];
      try contradiction.
    - (* the reference succeeds *)
      specialize (Hne body eq_refl). unfold node_out in Hnode.
      bind_inv Hnode st' Hrn. bind_inv Hnode b Htop.
      destruct (para_node_shape d mw tree s0 [] [] st' Hp Hf Hrn) as (b' & -> & Pb & Wb & Ob & Tb).
      cbn [top stack] in Htop. ok_inv Htop. cbn [app] in *.
      destruct (out_lines_ok _ _ Hnode) as (s1 & Hfl & Hstr & Hsil).
      destruct (est_para d mw _ Hp) as [e He].
      unfold render_tree, est_of. fold s0. rewrite He, Hrn. cbn [bind stack links].
      unfold sub_finalise, foot_links. rewrite Ob. cbn [s0 sub_new sopts].
      destruct (o_footnotes o) eqn:Efn; [destruct (all_links tree) as [|u L'] eqn:EL|].
      + exists b, (slines s1), []. cbn [finalise_from map strs app].
        split; [reflexivity|]. split; [exact Hsil|]. split; [rewrite app_nil_r; exact Hstr|].
        split; [constructor|reflexivity].
      + cbn [finalise_from].
        destruct (start_block_ok _ _ Hfl) as (s4 & Hsb). rewrite Hsb. cbn [bind].
        destruct (start_block_spec _ _ Hsb Pb) as (W4 & P4 & _ & O4 & _ & s1' & Hfl' & Hs4).
        rewrite Hfl in Hfl'. injection Hfl' as <-.
        assert (Hs4' : strs (slines s4) = body ++ blank_after body).
        { rewrite Hs4. f_equal; [exact Hstr|]. rewrite <- Hstr.
          apply (content_blank (slines s1) (flush_wrapping_is_text _ _ Hfl Tb)).
          rewrite Hstr. exact Hne. }
        clear Hs4. rename Hs4' into Hs4.
        set (lines := tl_from_string (ftext ([91] ++ dec_N 1 ++ [93; 58; 32]) ++ relabel L_foot u) []
                      :: finalise_from (1 + 1) L') in *.
        destruct (fmt_links_spec lines s4) as (new & G1 & G2 & G3 & G4).
        exists (fmt_links s4 lines), (slines s4 ++ new), new.
        split; [reflexivity|]. split.
        { unfold sub_into_lines, flush_wrapping. rewrite G3, W4. cbn [bind]. rewrite G1. reflexivity. }
        change (pf_text s4) with (ptxt s4) in *. rewrite P4 in *.
        split; [unfold strs in *; rewrite map_app, Hs4, <- app_assoc; reflexivity|].
        split; [exact G2|].
        intros Hwl. unfold strs. rewrite G4 by (rewrite O4, Ob; exact Hwl).
        destruct (map entry_text lines); reflexivity.
      + exists b, (slines s1), []. cbn [finalise_from map strs app].
        split; [reflexivity|]. split; [exact Hsil|]. split; [rewrite app_nil_r; exact Hstr|].
        split; [constructor|reflexivity].
    - (* the reference says TooNarrow *)
      clear Hne Hres. unfold node_out in Hnode.
      destruct (est_para d mw _ Hp) as [e He].
      unfold render_tree, est_of. fold s0. rewrite He. cbn [bind].
      destruct (render_node d mw tree (mkrst [s0] [])) as [st'| | |] eqn:Hrn; cbn [bind] in *;
        try discriminate Hnode; [|reflexivity].
      destruct (para_node_shape d mw tree s0 [] [] st' Hp Hf Hrn) as (b' & -> & Pb & Wb & Ob & Tb).
      cbn [top stack bind links] in *.
      destruct (out_lines_narrow _ Hnode) as [Hfl Hsil].
      destruct (sub_finalise b' ([] ++ all_links tree)) as [|l lines]; cbn [bind]; [exact Hsil|].
      unfold start_block. rewrite Hfl. reflexivity.
  Qed.

  (* the same, read from the renderer's side *)
  Corollary para_tree_lines : forall o width tree s ls,
    para tree = true ->
    o_pad o = false -> o_allow_overflow o = false -> 1 <= eff_w o width ->
    GreedyProof.all_words_pos (flow_text d o 0 tree 0) ->
    render_tree d mw o width tree = Ok s -> sub_into_lines s = Ok ls ->
    exists body new,
      greedy (eff_w o width) (words_of (flow_text d o 0 tree 0)) = Ok body /\
      strs ls = body ++ (match foot_links o tree with [] => [] | _ :: _ => blank_after body end)
                     ++ strs new /\
      entry_groups (map entry_text (finalise_from 1 (foot_links o tree))) [] new /\
      (o_wrap_links o = false -> strs new = map entry_text (finalise_from 1 (foot_links o tree))).
  Proof.
    intros o width tree s ls Hp Hpad Hovf HW Hpos Hr Hl.
    pose proof (para_greedy_tree o width tree Hp Hpad Hovf HW Hpos) as T.
    destruct (greedy (eff_w o width) (words_of (flow_text d o 0 tree 0))) as [body| | |];
      try contradiction.
    - destruct T as (s' & ls' & new & A & B & C & D & E). rewrite Hr in A. ok_inv A.
      rewrite Hl in B. ok_inv B. exists body, new. auto.
    - rewrite Hr in T. cbn [bind] in T. rewrite Hl in T. discriminate T.
  Qed.

  (* max_wrap_width absent or not below the width: the effective width is the width *)
  Lemma eff_w_width o width : 1 <= width ->
    match wrap_width o with Some ww => width <= ww | None => True end -> eff_w o width = width.
  Proof. unfold eff_w. destruct (wrap_width o); intros; lia. Qed.
End Tree.
Print Assumptions para_greedy_tree.
Print Assumptions para_tree_lines.

(* ================================================================== *)
(* 8. GOAL A through ONE prefixed block (Compose.v)                     *)
(* ================================================================== *)

Section Prefixed.
  Variable d : deco.
  Variable mw : N.

  (* the width left for the content of a block whose prefix is pw columns wide, and the text of
     the paragraph inside it *)
  Definition inner_w (s : subr) (pw : N) : N := eff_w (sopts s) (swidth_ s - pw).
  Definition inner_words (s : subr) (p : rnode) (lk : list text) : list text :=
    words_of (flow_text d (sopts s) (filter_depth s) p (length lk)).

  (* side conditions on the outer (fresh) sub-renderer s, the prefix width pw and the paragraph *)
  Definition pre_ok (s : subr) (pw : N) (p : rnode) (lk : list text) : Prop :=
    para p = true /\ Fresh s /\ o_pad (sopts s) = false /\ o_allow_overflow (sopts s) = false /\
    1 <= inner_w s pw /\
    GreedyProof.all_words_pos (flow_text d (sopts s) (filter_depth s) p (length lk)).

  (* the `nested` run of Compose.v, for a paragraph: its lines are the greedy lines at the
     inner width *)
  Lemma nested_para p s a lk pw mn sub lk' ols :
    pre_ok s pw p lk ->
    nested (render_node d mw p) (upd s None a (filter_depth s)) lk pw mn sub lk' ols ->
    greedy (inner_w s pw) (inner_words s p lk) = Ok (strs ols) /\ lk' = lk ++ all_links p.
  Proof.
    intros (Hp & Hf & Hpad & Hovf & HW & Hpos) (w & Hw & Hrun & Hols).
    set (tp := upd s None a (filter_depth s)) in *.
    destruct (width_minus_spec _ _ _ _ Hw) as [_ Hw'].
    destruct (Hw' Hovf) as (Ew & _ & _). clear Hw'.
    assert (Hf' : Fresh (new_sub_renderer tp w)).
    { destruct Hf as (_ & _ & _ & _ & Hpd & Hm). apply Fresh_new_sub; assumption. }
    pose proof (para_greedy_node d mw p (new_sub_renderer tp w) [] lk Hp Hf') as G.
    change (sopts (new_sub_renderer tp w)) with (sopts s) in G.
    change (swidth_ (new_sub_renderer tp w)) with w in G.
    change (filter_depth (new_sub_renderer tp w)) with (filter_depth s) in G.
    assert (HW' : 1 <= eff_w (sopts s) w) by (rewrite Ew; exact HW).
    specialize (G Hpad Hovf HW' Hpos). unfold node_out in G. rewrite Hrun in G.
    cbn [bind top stack] in G. unfold out_lines in G. rewrite Hols in G. cbn [bind] in G.
    rewrite Ew in G. change (swidth_ tp) with (swidth_ s) in G.
    split; [symmetry; exact G|].
    destruct (para_node_shape d mw p _ [] lk _ Hp Hf' Hrun) as (b & E & _). injection E as _ E.
    exact E.
  Qed.

  Lemma Fresh_clean s lk : Fresh s -> clean_top (mkrst [s] lk).
  Proof. intros (_ & Hpf & _). unfold clean_top, ptxt. cbn [stack]. rewrite Hpf. reflexivity. Qed.

  (* a fresh sub-renderer after apply_style *)
  Lemma apply_style_fresh s lk sty st ps : Fresh s -> sty_ok sty = true ->
    apply_style d (mkrst [s] lk) sty = Ok (st, ps) ->
    st = mkrst [upd s None (sty_tag d (ann_stack s) sty) (filter_depth s)] lk.
  Proof.
    intros Hf Hs H. rewrite (Fresh_eta _ Hf) in H at 1.
    rewrite (apply_style_eq d s None _ _ [] lk sty Hs) in H. injection H as <- _. reflexivity.
  Qed.

  Lemma out_lines_fresh s a k : Fresh s -> out_lines (upd s None a k) = Ok [].
  Proof.
    intros (Hl & _). rewrite out_lines_none by reflexivity. cbn [upd slines]. rewrite Hl. reflexivity.
  Qed.

  (* ---- block quote: every greedy line of the paragraph, at width W - |"> "|, with "> " in
     front ---- *)
  Theorem quote_para_greedy : forall p sty s lk st',
    sty_ok sty = true -> pre_ok s (swidth (d_quote_prefix d)) p lk ->
    render_node d mw (RN (IBlockQuote [p]) sty) (mkrst [s] lk) = Ok st' ->
    exists b body,
      st' = mkrst [b] (lk ++ all_links p) /\
      greedy (inner_w s (swidth (d_quote_prefix d))) (inner_words s p lk) = Ok body /\
      out_lines b = Ok (map (app (d_quote_prefix d)) body).
  Proof.
    intros p sty s lk st' Hs Hpre H. pose proof Hpre as (_ & Hf & _).
    destruct (c07_blockquote d mw [p] sty _ _ H)
      as (st & ps & tp & rest & mn & sub & lk' & ols & s4 & s5 & Hap & Es & Hn & [H4 H5] & Hfin & Hl).
    rewrite (apply_style_fresh _ _ _ _ _ Hf Hs Hap) in *. cbn [stack links] in *.
    injection Es as <- <-.
    destruct (nested_para _ _ _ _ _ _ _ _ _ Hpre Hn) as [G ->].
    specialize (Hl (Fresh_clean _ _ Hf)).
    rewrite (start_block_fresh _ _ _ Hf) in H4. injection H4 as <-.
    cbn [upd slines] in Hl. destruct Hf as (Hsl & _). rewrite Hsl in Hl. cbn [strs map app] in Hl.
    destruct (unwind_out _ _ _ _ _ _ Hfin) as (b & -> & Ob).
    exists b, (strs ols). split; [reflexivity|]. split; [exact G|].
    rewrite (same_out_lines _ _ Ob). exact Hl.
  Qed.

  (* ---- heading ---- *)
  Theorem header_para_greedy : forall level p sty s lk st',
    sty_ok sty = true -> pre_ok s (swidth (d_header_prefix d level)) p lk ->
    render_node d mw (RN (IHeader level [p]) sty) (mkrst [s] lk) = Ok st' ->
    exists b body,
      st' = mkrst [b] (lk ++ all_links p) /\
      greedy (inner_w s (swidth (d_header_prefix d level))) (inner_words s p lk) = Ok body /\
      out_lines b = Ok (map (app (d_header_prefix d level)) body).
  Proof.
    intros level p sty s lk st' Hs Hpre H. pose proof Hpre as (_ & Hf & _).
    destruct (c07_header d mw level [p] sty _ _ H)
      as (st & ps & tp & rest & mn & sub & lk' & ols & s4 & s5 & Hap & Es & Hn & [H4 H5] & Hfin & Hl).
    rewrite (apply_style_fresh _ _ _ _ _ Hf Hs Hap) in *. cbn [stack links] in *.
    injection Es as <- <-.
    destruct (nested_para _ _ _ _ _ _ _ _ _ Hpre Hn) as [G ->].
    specialize (Hl (Fresh_clean _ _ Hf)).
    rewrite (start_block_fresh _ _ _ Hf) in H4. injection H4 as <-.
    cbn [upd slines] in Hl. destruct Hf as (Hsl & _). rewrite Hsl in Hl. cbn [strs map app] in Hl.
    destruct (unwind_out _ _ _ _ _ _ Hfin) as (b & -> & Ob).
    exists b, (strs ols). split; [reflexivity|]. split; [exact G|].
    rewrite (same_out_lines _ _ Ob). exact Hl.
  Qed.

  (* ---- dd: two spaces ---- *)
  Theorem dd_para_greedy : forall p sty s lk st',
    sty_ok sty = true -> pre_ok s 2 p lk ->
    render_node d mw (RN (IDd [p]) sty) (mkrst [s] lk) = Ok st' ->
    exists b body,
      st' = mkrst [b] (lk ++ all_links p) /\
      greedy (inner_w s 2) (inner_words s p lk) = Ok body /\
      out_lines b = Ok (map (app (ptext [32; 32])) body).
  Proof.
    intros p sty s lk st' Hs Hpre H. pose proof Hpre as (_ & Hf & _).
    destruct (c07_dd d mw [p] sty _ _ H)
      as (st & ps & tp & rest & mn & sub & lk' & ols & s5 & Hap & Es & Hn & H5 & Hfin & Hl).
    rewrite (apply_style_fresh _ _ _ _ _ Hf Hs Hap) in *. cbn [stack links] in *.
    injection Es as <- <-.
    destruct (nested_para _ _ _ _ _ _ _ _ _ Hpre Hn) as [G ->].
    specialize (Hl (Fresh_clean _ _ Hf)).
    rewrite (out_lines_fresh _ _ _ Hf) in Hl. cbn [bind app] in Hl.
    destruct (unwind_out _ _ _ _ _ _ Hfin) as (b & -> & Ob).
    exists b, (strs ols). split; [reflexivity|]. split; [exact G|].
    rewrite (same_out_lines _ _ Ob). exact Hl.
  Qed.

  (* ---- a list with one item: the bullet on the first line, the indent on the others ---- *)
  Theorem ul_item_greedy : forall p sty s lk st',
    sty_ok sty = true -> pre_ok s (swidth (d_ul_prefix d)) p lk ->
    render_node d mw (RN (IUl [p]) sty) (mkrst [s] lk) = Ok st' ->
    exists b body,
      st' = mkrst [b] (lk ++ all_links p) /\
      greedy (inner_w s (swidth (d_ul_prefix d))) (inner_words s p lk) = Ok body /\
      out_lines b = Ok (prefixed (d_ul_prefix d)
                                 (repeat_chr (spacel L_prefix) (N.to_nat (swidth (d_ul_prefix d))))
                                 body).
  Proof.
    intros p sty s lk st' Hs Hpre H. pose proof Hpre as (_ & Hf & _).
    destruct (c07_ul d mw [p] sty _ _ H (Fresh_clean _ _ Hf))
      as (st & ps & tp & rest & s' & lk' & Ls & Hap & Es & Hit & Hl & Hfin & _).
    rewrite (apply_style_fresh _ _ _ _ _ Hf Hs Hap) in *. cbn [stack links] in *.
    injection Es as <- <-.
    destruct Ls as [|ols [|x Ls]]; cbn [items_rendered] in Hit; try contradiction.
    2:{ destruct Hit as (_ & _ & _ & _ & F). contradiction. }
    destruct Hit as (mn & sub & lk1 & Hn & ->).
    destruct (nested_para _ _ _ _ _ _ _ _ _ Hpre Hn) as [G ->].
    rewrite (out_lines_fresh _ _ _ Hf) in Hl. cbn [bind app flat_map] in Hl.
    rewrite app_nil_r in Hl.
    destruct (unwind_out _ _ _ _ _ _ Hfin) as (b & -> & Ob).
    exists b, (strs ols). split; [reflexivity|]. split; [exact G|].
    rewrite (same_out_lines _ _ Ob). exact Hl.
  Qed.
End Prefixed.
Print Assumptions quote_para_greedy.
Print Assumptions header_para_greedy.
Print Assumptions dd_para_greedy.
Print Assumptions ul_item_greedy.

(* ================================================================== *)
(* 9. GOAL B: where the reference "[m]" of a link stands                *)
(* ================================================================== *)

(* the link nodes of a flow tree in document order (a link before the links inside it) *)
Fixpoint link_nodes (n : rnode) {struct n} : list rnode :=
  let kids (cs : list rnode) : list rnode := flat_map link_nodes cs in
  match rn_info n with
  | ILink _ cs => n :: kids cs
  | IEm cs | IStrong cs | IStrikeout cs | ICode cs | ISup cs | IDt cs
  | IContainer cs | IBlock cs | IListItem cs | IDiv cs | IDl cs => kids cs
  | _ => []
  end.

Definition link_href (n : rnode) : text :=
  match rn_info n with ILink h _ => h | _ => [] end.

Lemma flat_map_map_eq {A B C} (f : A -> list B) (g : A -> list C) (h : B -> C) (l : list A) :
  Forall (fun a => map h (f a) = g a) l -> map h (flat_map f l) = flat_map g l.
Proof.
  induction 1 as [|a l Ha _ IH]; [reflexivity|]. cbn [flat_map]. rewrite map_app, Ha, IH. reflexivity.
Qed.

(* they are the links whose targets are collected, in the same order *)
Lemma link_nodes_hrefs : forall n, Decorators.flow n = true ->
  map link_href (link_nodes n) = all_links n.
Proof.
  apply (rnode_ind' (fun n => Decorators.flow n = true -> map link_href (link_nodes n) = all_links n)).
  intros i sty IH Hf. pose proof (Decorators.flow_kids _ _ Hf) as Hk.
  assert (K : forall cs, Forall (fun n => Decorators.flow n = true ->
                                 map link_href (link_nodes n) = all_links n) cs ->
              forallb Decorators.flow cs = true ->
              map link_href (flat_map link_nodes cs) = flat_map all_links cs).
  { intros cs HF Hc. apply flat_map_map_eq. apply Forall_forall. intros c Hin.
    rewrite Forall_forall in HF. rewrite forallb_forall in Hc. auto. }
  destruct i; cbn [direct_kids] in IH, Hk; cbn [Decorators.flow rn_info] in Hf; try discriminate Hf;
    cbn [link_nodes all_links rn_info map]; try reflexivity; try (exact (K _ IH Hk)).
  cbn [link_href rn_info]. f_equal. exact (K _ IH Hk).
Qed.

Lemma link_nodes_len n : Decorators.flow n = true -> length (link_nodes n) = length (all_links n).
Proof. intros H. rewrite <- (link_nodes_hrefs n H), map_length. reflexivity. Qed.

Lemma sup_digits_link_nodes_nil cs t : sup_digits cs = Some t -> flat_map link_nodes cs = [].
Proof.
  unfold sup_digits. destruct cs as [|n [|n' cs]]; try discriminate.
  destruct n as [i sty]. cbn [rn_info]. destruct i; try discriminate. intros _. reflexivity.
Qed.

Section Placement.
  Variable d : deco.
  Variable o : ropts.

  Notation fs := (Decorators.full_stream d o).

  (* the stream of a tree contains, as ONE contiguous segment, the stream of its i-th link
     node, numbered as the (nl + i)-th link; kf = the strikeout depth at that link (= the
     depth outside when unicode strikeout is off) *)
  Definition seg_ok (n : rnode) : Prop :=
    forall k nl i ln, Decorators.flow n = true -> nth_error (link_nodes n) i = Some ln ->
    exists pre post kf, fs k n nl = pre ++ fs kf ln (nl + i)%nat ++ post /\
                        (o_strike o = false -> kf = k).

  Lemma kids_seg k : forall cs nl i ln,
    Forall seg_ok cs -> forallb Decorators.flow cs = true ->
    nth_error (flat_map link_nodes cs) i = Some ln ->
    exists pre post kf,
      Decorators.kids_fs (fun c m => fs k c m) cs nl = pre ++ fs kf ln (nl + i)%nat ++ post /\
      (o_strike o = false -> kf = k).
  Proof.
    induction cs as [|c cs IH]; intros nl i ln HF Hc Hn.
    - destruct i; discriminate Hn.
    - cbn [forallb] in Hc. apply andb_true_iff in Hc. destruct Hc as [Hc Hcs].
      cbn [flat_map] in Hn. cbn [Decorators.kids_fs].
      destruct (Nat.ltb_spec i (length (link_nodes c))) as [Hlt|Hge].
      + rewrite nth_error_app1 in Hn by exact Hlt.
        destruct (Forall_inv HF k nl i ln Hc Hn) as (pre & post & kf & E & Ek).
        exists pre, (post ++ Decorators.kids_fs (fun c m => fs k c m) cs (nl + length (all_links c))), kf.
        split; [|exact Ek]. rewrite E, <- !app_assoc. reflexivity.
      + rewrite nth_error_app2 in Hn by exact Hge.
        destruct (IH (nl + length (all_links c))%nat _ ln (Forall_inv_tail HF) Hcs Hn)
          as (pre & post & kf & E & Ek).
        exists (fs k c nl ++ pre), post, kf. split; [|exact Ek]. rewrite E, <- app_assoc.
        rewrite (link_nodes_len c Hc) in *.
        replace (nl + length (all_links c) + (i - length (all_links c)))%nat with (nl + i)%nat by lia.
        reflexivity.
  Qed.

  Lemma seg_ok_all : forall n, seg_ok n.
  Proof.
    apply rnode_ind'. intros i0 sty IH k nl i ln Hf Hn.
    pose proof (Decorators.flow_kids _ _ Hf) as Hk.
    assert (Wr : forall cs (x y : text) k', (o_strike o = false -> k' = k) ->
              Forall seg_ok cs -> forallb Decorators.flow cs = true ->
              nth_error (flat_map link_nodes cs) i = Some ln ->
              exists pre post kf,
                (x ++ Decorators.kids_fs (fun c m => fs k' c m) cs nl ++ y =
                 pre ++ fs kf ln (nl + i)%nat ++ post) /\ (o_strike o = false -> kf = k)).
    { intros cs x y k' Hk' HF Hc Hn'.
      destruct (kids_seg k' cs nl i ln HF Hc Hn') as (pre & post & kf & E & Ek).
      exists (x ++ pre), (post ++ y), kf. split; [|intros Hs; rewrite (Ek Hs); exact (Hk' Hs)].
      rewrite E, <- !app_assoc. reflexivity. }
    assert (Pl : forall cs, Forall seg_ok cs -> forallb Decorators.flow cs = true ->
              nth_error (flat_map link_nodes cs) i = Some ln ->
              exists pre post kf,
                Decorators.kids_fs (fun c m => fs k c m) cs nl = pre ++ fs kf ln (nl + i)%nat ++ post /\
                (o_strike o = false -> kf = k)).
    { intros cs HF Hc Hn'. exact (kids_seg k cs nl i ln HF Hc Hn'). }
    assert (Sd : o_strike o = false -> Decorators.sdepth o k = k).
    { intros Hs. unfold Decorators.sdepth. rewrite Hs. reflexivity. }
    destruct i0; cbn [direct_kids] in IH, Hk; cbn [Decorators.flow rn_info] in Hf; try discriminate Hf;
      cbn [link_nodes rn_info] in Hn; try (destruct i; discriminate Hn);
      cbn [Decorators.full_stream rn_info].
    - (* IContainer *) exact (Pl _ IH Hk Hn).
    - (* ILink *)
      destruct i as [|j]; cbn [nth_error] in Hn.
      + injection Hn as <-. exists [], [], k. split; [|reflexivity].
        rewrite Nat.add_0_r, app_nil_r. reflexivity.
      + destruct (kids_seg k cs (S nl) j ln IH Hk Hn) as (pre & post & kf & E & Ek).
        exists (Decorators.vis k (fst (d_link_start d href)) ++ pre),
               (post ++ Decorators.vis k (d_link_end d) ++
                (if o_footnotes o
                 then Decorators.vis k (ftext ([91] ++ dec_N (N.of_nat (S nl + length (flat_map all_links cs))) ++ [93]))
                 else [])), kf.
        split; [|exact Ek]. rewrite E, <- !app_assoc.
        replace (S nl + j)%nat with (nl + S j)%nat by lia. reflexivity.
    - (* IEm *) exact (Wr _ _ _ _ (fun _ => eq_refl) IH Hk Hn).
    - (* IStrong *) exact (Wr _ _ _ _ (fun _ => eq_refl) IH Hk Hn).
    - (* IStrikeout *) exact (Wr _ _ _ _ Sd IH Hk Hn).
    - (* ICode *) exact (Wr _ _ _ _ (fun _ => eq_refl) IH Hk Hn).
    - (* IBlock *) exact (Pl _ IH Hk Hn).
    - (* IDiv *) exact (Pl _ IH Hk Hn).
    - (* IDl *) exact (Pl _ IH Hk Hn).
    - (* IDt *) exact (Wr _ _ _ _ (fun _ => eq_refl) IH Hk Hn).
    - (* IListItem *) exact (Pl _ IH Hk Hn).
    - (* ISup *)
      destruct (sup_digits cs) as [ds|] eqn:Esd.
      + rewrite (sup_digits_link_nodes_nil _ _ Esd) in Hn. destruct i; discriminate Hn.
      + exact (Wr _ _ _ _ (fun _ => eq_refl) IH Hk Hn).
  Qed.

  (* the stream of a link node, by definition: start affix, content, end affix, reference *)
  Lemma link_stream k href cs sty nl :
    fs k (RN (ILink href cs) sty) nl =
    Decorators.vis k (fst (d_link_start d href)) ++ Decorators.kids_full d o k cs (S nl) ++
    Decorators.vis k (d_link_end d) ++
    (if o_footnotes o
     then Decorators.vis k (ref_text (S nl + length (flat_map all_links cs)))
     else []).
  Proof. reflexivity. Qed.
End Placement.

(* ---- the list at the end, explicitly ---- *)
Fixpoint foot_from (k : N) (L : list text) : text :=
  match L with
  | [] => []
  | u :: L' =>
    ftext ([91] ++ dec_N k ++ [93; 58; 32]) ++
    filter Conserve.nonws (nl_to_space (relabel L_foot u)) ++ foot_from (k + 1) L'
  end.

Lemma dec_fuel_no10 : forall fuel n acc, Forall (fun c => c <> 10) acc ->
  Forall (fun c => c <> 10) (dec_pos_fuel fuel n acc).
Proof.
  induction fuel as [|f IH]; intros n acc Ha; cbn [dec_pos_fuel]; [exact Ha|].
  assert (H : Forall (fun c => c <> 10) (48 + n mod 10 :: acc)) by (constructor; [lia|exact Ha]).
  destruct (n / 10 =? 0); [exact H|apply IH, H].
Qed.

Lemma ftext_plain l : Forall (fun c => c <> 10) l ->
  filter Conserve.nonws (nl_to_space (ftext l)) = ftext l.
Proof.
  induction 1 as [|c l Hc _ IH]; [reflexivity|].
  unfold ftext, of_asciil, nl_to_space in *. cbn [map filter]. cbn [mkl cp].
  destruct (N.eqb_spec c 10) as [E|_]; [contradiction|].
  cbn [Conserve.nonws ws negb]. rewrite IH. reflexivity.
Qed.

Lemma foot_stream_from : forall L k,
  filter Conserve.nonws (concat (map entry_text (finalise_from k L))) = foot_from k L.
Proof.
  induction L as [|u L IH]; intros k; [reflexivity|].
  cbn [finalise_from map concat foot_from]. rewrite filter_app, IH, (app_assoc (ftext _)). f_equal.
  unfold entry_text. rewrite tl_string_from_string, nl_to_space_app, filter_app. f_equal.
  apply ftext_plain. apply Forall_app. split; [repeat constructor; lia|].
  apply Forall_app. split; [|repeat constructor; lia].
  unfold dec_N. apply dec_fuel_no10. constructor.
Qed.

Lemma foot_stream_explicit o L :
  Decorators.foot_stream o L = if o_footnotes o then foot_from 1 L else [].
Proof. unfold Decorators.foot_stream. destruct (o_footnotes o); [apply foot_stream_from|reflexivity]. Qed.

(* a made text (reference, "[", "]") is all visible *)
Lemma vis0_made lb l : Decorators.vis 0 (of_asciil lb l) = of_asciil lb l.
Proof.
  unfold Decorators.vis. cbn [apply_filters]. induction l as [|c l IH]; [reflexivity|].
  unfold of_asciil in *. cbn [map]. rewrite Conserve.kept_cons, IH.
  rewrite (Conserve.kept_char (mkl c 1 lb) 1); reflexivity.
Qed.

(* ---------------------------------------------------------------- *)
(* GOAL B.  For a flow tree (inline content below any nesting of p/div/span/dl/dt/li-like
   containers; no table, no prefixed block) and ANY decorator: in the stream of all visible
   (non-whitespace) characters of the output, the i-th link (0-based, document order; every
   link of a flow tree is rendered) occupies ONE contiguous segment
        start affix ++ content ++ end affix ++ reference
   where, with footnotes on, reference = the visible characters of "[m]",
        m = i + 1 + (number of links inside this link)
   - so m = i + 1, the link's own 1-based number, unless the link contains links, in which case
   it is the number of the LAST link inside it - and nothing with footnotes off; and the
   stream ends with the list: "[k]: " and the visible characters of target_k, k = 1..n
   (`foot_from`), nothing with footnotes off.  kf = the number of enclosing <s> (every
   character with a width is followed by kf U+0336 marks; kf = 0 outside <s>). *)
Theorem c08_reference_placement : forall d mw o width tree s ls i href cs sty,
  Decorators.flow tree = true ->
  render_tree d mw o width tree = Ok s -> sub_into_lines s = Ok ls ->
  nth_error (link_nodes tree) i = Some (RN (ILink href cs) sty) ->
  nth_error (all_links tree) i = Some href /\
  exists pre post kf,
    filter Conserve.nonws (flat_map rline_string ls) =
    pre ++
    (Decorators.vis kf (fst (d_link_start d href)) ++ Decorators.kids_full d o kf cs (S i) ++
     Decorators.vis kf (d_link_end d) ++
     (if o_footnotes o
      then Decorators.vis kf (ref_text (S i + length (flat_map all_links cs)))
      else [])) ++
    post ++ (if o_footnotes o then foot_from 1 (all_links tree) else []) /\
    (o_strike o = false -> kf = 0%nat).
Proof.
  intros d mw o width tree s ls i href cs sty Hf Hr Hl Hn. split.
  - rewrite <- (link_nodes_hrefs tree Hf), nth_error_map, Hn. reflexivity.
  - rewrite (Decorators.c16_affixes_tree d mw o width tree s ls Hf Hr Hl), foot_stream_explicit.
    destruct (seg_ok_all d o tree 0%nat 0%nat i _ Hf Hn) as (pre & post & kf & E & Ek).
    exists pre, post, kf. split; [|exact Ek]. rewrite E, link_stream, <- !app_assoc. reflexivity.
Qed.
Print Assumptions c08_reference_placement.

(* the property's own words: a link that contains no link, outside <s>, plain decorator,
   footnotes on: "[" content "]" "[k]" with k = its 1-based position in document order *)
Corollary c08_plain_reference : forall mw o width tree s ls i href cs sty,
  Decorators.flow tree = true -> o_footnotes o = true ->
  render_tree plain_deco mw o width tree = Ok s -> sub_into_lines s = Ok ls ->
  nth_error (link_nodes tree) i = Some (RN (ILink href cs) sty) ->
  flat_map all_links cs = [] ->
  exists pre post kf,
    filter Conserve.nonws (flat_map rline_string ls) =
    pre ++ Decorators.vis kf (dtext [91]) ++ Decorators.kids_full plain_deco o kf cs (S i) ++
    Decorators.vis kf (dtext [93]) ++
    Decorators.vis kf (ftext ([91] ++ dec_N (N.of_nat (S i)) ++ [93])) ++
    post ++ foot_from 1 (all_links tree) /\
    (o_strike o = false -> kf = 0%nat).
Proof.
  intros mw o width tree s ls i href cs sty Hf Hfn Hr Hl Hn Hin.
  destruct (c08_reference_placement plain_deco mw o width tree s ls i href cs sty Hf Hr Hl Hn)
    as (_ & pre & post & kf & E & Ek).
  exists pre, post, kf. split; [|exact Ek]. rewrite E, Hfn, Hin. cbn [length]. rewrite Nat.add_0_r.
  cbn [plain_deco d_link_start d_link_end fst]. unfold ref_text. rewrite <- !app_assoc. reflexivity.
Qed.
Print Assumptions c08_plain_reference.

(* ---- GOAL A and GOAL B speak of the same text: the stream of visible characters
   (Decorators.full_stream) is what is left of the flow's text (flow_text) when whitespace and
   width-less characters are dropped ---- *)
Lemma kids_seq_kept (ft fs_ : rnode -> nat -> text) : forall cs nl,
  Forall (fun c => forall m, Conserve.kept (ft c m) = fs_ c m) cs ->
  Conserve.kept (kids_seq ft cs nl) = Decorators.kids_fs fs_ cs nl.
Proof.
  induction cs as [|c cs IH]; intros nl HF; cbn [kids_seq Decorators.kids_fs]; [reflexivity|].
  rewrite RenderConserve.kept_app, (Forall_inv HF), (IH _ (Forall_inv_tail HF)). reflexivity.
Qed.

Lemma flow_text_stream d o : forall n, inl n = true -> forall k nl,
  Conserve.kept (flow_text d o k n nl) = Decorators.full_stream d o k n nl.
Proof.
  apply (rnode_ind' (fun n => inl n = true -> forall k nl,
           Conserve.kept (flow_text d o k n nl) = Decorators.full_stream d o k n nl)).
  intros i sty IH Hi k nl. cbn [inl rn_info rn_style] in Hi. apply andb_true_iff in Hi.
  destruct Hi as [_ Hi].
  assert (K : forall cs k' nl', Forall (fun n => inl n = true -> forall k nl,
                 Conserve.kept (flow_text d o k n nl) = Decorators.full_stream d o k n nl) cs ->
              forallb inl cs = true ->
              Conserve.kept (kids_seq (fun c m => flow_text d o k' c m) cs nl') =
              Decorators.kids_fs (fun c m => Decorators.full_stream d o k' c m) cs nl').
  { intros cs k' nl' HF Hc. apply kids_seq_kept. apply Forall_forall. intros c Hin m.
    rewrite Forall_forall in HF. rewrite forallb_forall in Hc. apply HF; auto. }
  destruct i; cbn [direct_kids] in IH; try discriminate Hi;
    cbn [flow_text Decorators.full_stream rn_info]; unfold Decorators.vis;
    rewrite ?RenderConserve.kept_app; rewrite ?(K _ _ _ IH Hi); try reflexivity.
  - (* ILink *) destruct (o_footnotes o); reflexivity.
  - (* ISup *) destruct (sup_digits cs); [reflexivity|].
    rewrite !RenderConserve.kept_app, (K _ _ _ IH Hi). reflexivity.
Qed.

(* ================================================================== *)
(* 10. Non-vacuity examples, the side condition on words                *)
(* ================================================================== *)

(* the word condition of c04_greedy is decidable *)
Lemma all_words_pos_dec t :
  forallb (fun w => 1 <=? swidth w) (words_of t) = true -> GreedyProof.all_words_pos t.
Proof.
  intros H w Hin. rewrite forallb_forall in H. specialize (H w Hin). lia.
Qed.

Definition pgx_o : ropts := render_options (set_footnotes (with_decorator plain_deco) true).
Definition pgx_tx (l : list N) : rnode := ex_n (IText (ex_str l)).
(* <p>ab <em>cd</em> <a href=u1>li nk</a> efghijklmnopq <s>x</s></p> *)
Definition pgx_p : rnode :=
  ex_n (IBlock [pgx_tx [97;98;32]; ex_n (IEm [pgx_tx [99;100]]); pgx_tx [32];
                ex_n (ILink (ex_str [117;49]) [pgx_tx [108;105;32;110;107]]);
                pgx_tx [32;101;102;103;104;105;106;107;108;109;110;111;112;113;32];
                ex_n (IStrikeout [pgx_tx [120]])]).
Definition pgx_show (r : res subr) : res (list (list N)) :=
  do s <- r; do ls <- sub_into_lines s; Ok (map (fun l => cps (rline_string l)) ls).

Lemma pgx_pos : GreedyProof.all_words_pos (flow_text plain_deco pgx_o 0 pgx_p 0).
Proof. apply all_words_pos_dec. vm_compute. reflexivity. Qed.

(* the theorem applies (plain decorator, footnotes on, width 8): the hypotheses hold *)
Example pgx_tree_applies :=
  para_greedy_tree plain_deco 3 pgx_o 8 pgx_p eq_refl eq_refl eq_refl
                   ltac:(vm_compute; discriminate) pgx_pos.

(* ... and it says something: five greedy lines (a word split over an <em> boundary stays one
   word, the link text is cut from its affixes only at spaces, a 13-column word is hard-cut at
   8, the struck x carries its U+0336), a blank line, the list *)
Example pgx_tree_lines :
  pgx_show (render_tree plain_deco 3 pgx_o 8 pgx_p) =
    Ok [[97; 98; 32; 99; 100]; [91; 108; 105]; [110; 107; 93; 91; 49; 93];
        [101; 102; 103; 104; 105; 106; 107; 108]; [109; 110; 111; 112; 113; 32; 120; 822];
        []; [91; 49; 93; 58; 32; 117; 49]] /\
  (do b <- greedy 8 (words_of (flow_text plain_deco pgx_o 0 pgx_p 0)); Ok (map cps b)) =
    Ok [[97; 98; 32; 99; 100]; [91; 108; 105]; [110; 107; 93; 91; 49; 93];
        [101; 102; 103; 104; 105; 106; 107; 108]; [109; 110; 111; 112; 113; 32; 120; 822]].
Proof. split; vm_compute; reflexivity. Qed.

(* node level, in a fresh sub-renderer that is not the initial one *)
Example pgx_node_applies :
  node_out plain_deco 3 pgx_p (mkrst [sub_new 8 pgx_o; sub_new 20 pgx_o] [ex_str [120]]) =
  greedy 8 (words_of (flow_text plain_deco pgx_o 0 pgx_p 1)).
Proof.
  apply (para_greedy_node plain_deco 3 pgx_p (sub_new 8 pgx_o) [sub_new 20 pgx_o] [ex_str [120]]);
    try reflexivity; [apply Fresh_sub_new|vm_compute; discriminate|].
  apply all_words_pos_dec. vm_compute. reflexivity.
Qed.

(* too narrow for a wide character: both sides say TooNarrow *)
Definition pgx_wide : rnode :=
  ex_n (IBlock [ex_n (IText [mkchr 19990 (Some 2) false 16])]).
Example pgx_too_narrow :
  greedy 1 (words_of (flow_text plain_deco pgx_o 0 pgx_wide 0)) = TooNarrow /\
  (do s <- render_tree plain_deco 3 pgx_o 1 pgx_wide; sub_into_lines s) = TooNarrow.
Proof. split; vm_compute; reflexivity. Qed.

(* through one block quote: "> " in front of the greedy lines at width 8 - 2 *)
Example pgx_quote :
  exists st' b body,
    render_node plain_deco 3 (ex_n (IBlockQuote [pgx_p])) (mkrst [sub_new 8 pgx_o] []) = Ok st' /\
    st' = mkrst [b] [ex_str [117;49]] /\
    greedy 6 (words_of (flow_text plain_deco pgx_o 0 pgx_p 0)) = Ok body /\
    out_lines b = Ok (map (app (ptext [62; 32])) body) /\
    map cps body = [[97; 98; 32; 99; 100]; [91; 108; 105]; [110; 107; 93; 91; 49; 93];
                    [101; 102; 103; 104; 105; 106]; [107; 108; 109; 110; 111; 112];
                    [113; 32; 120; 822]].
Proof.
  assert (E : exists st', render_node plain_deco 3 (ex_n (IBlockQuote [pgx_p]))
                                      (mkrst [sub_new 8 pgx_o] []) = Ok st')
    by (eexists; vm_compute; reflexivity).
  destruct E as [st' H].
  destruct (quote_para_greedy plain_deco 3 pgx_p cstyle0 (sub_new 8 pgx_o) [] st' eq_refl) as
      (b & body & A & B & C); [|exact H|].
  { split; [reflexivity|]. split; [apply Fresh_sub_new|]. split; [reflexivity|].
    split; [reflexivity|]. split; [vm_compute; discriminate|exact pgx_pos]. }
  exists st', b, body. split; [exact H|]. split; [exact A|].
  change (inner_w (sub_new 8 pgx_o) (swidth (d_quote_prefix plain_deco))) with 6 in B.
  split; [exact B|]. split; [exact C|].
  vm_compute in B. injection B as <-. reflexivity.
Qed.

(* a list item: bullet on the first line, indent on the others *)
Example pgx_ul_item :
  pgx_show (render_tree plain_deco 3 pgx_o 8
              (ex_n (IUl [ex_n (IListItem [pgx_tx [97;98;32;99;100;32;101;102;103;104;105;106;107]])]))) =
  Ok [[42; 32; 97; 98; 32; 99; 100]; [32; 32; 101; 102; 103; 104; 105; 106]; [32; 32; 107]].
Proof. vm_compute. reflexivity. Qed.

(* THE WORD CONDITION IS NEEDED (it is the one of c04_greedy): a "word" made only of
   zero-width characters (a lone combining mark between spaces) has wordlen 0, so the space
   after it does not end it - it is glued to the next word and that space is lost, while
   the reference wrapper keeps three words. *)
Definition pgx_zw : chr := mkchr 769 (Some 0) false 30.
Definition pgx_zw_p : rnode :=
  ex_n (IBlock [ex_n (IText (ex_str [97;32] ++ [pgx_zw] ++ ex_str [32;98]))]).
Example zero_width_word_glued :
  pgx_show (render_tree plain_deco 3 pgx_o 8 pgx_zw_p) = Ok [[97; 32; 769; 98]] /\
  (do b <- greedy 8 (words_of (flow_text plain_deco pgx_o 0 pgx_zw_p 0)); Ok (map cps b)) =
    Ok [[97; 32; 769; 32; 98]].
Proof. split; vm_compute; reflexivity. Qed.

(* ---- GOAL B ---- *)
Example pgx_flow : Decorators.flow pgx_p = true.
Proof. reflexivity. Qed.


Definition pgx_stream (r : res subr) : res (list N) :=
  do s <- r; do ls <- sub_into_lines s;
  Ok (cps (filter Conserve.nonws (flat_map rline_string ls))).

(* the theorem applies to link 0 of pgx_p (href u1, content "li nk", no link inside) *)
Example pgx_placement_applies := fun s ls Hs Hl =>
  c08_plain_reference 3 pgx_o 8 pgx_p s ls 0 (ex_str [117;49]) [pgx_tx [108;105;32;110;107]]
                      cstyle0 eq_refl eq_refl Hs Hl eq_refl eq_refl.

(* ... the stream: a b c d  [ l i n k ] [ 1 ]  e..q x U+0336  [ 1 ] : _ u 1 *)
Example pgx_placement_stream :
  pgx_stream (render_tree plain_deco 3 pgx_o 8 pgx_p) =
  Ok ([97;98;99;100] ++ ([91] ++ [108;105;110;107] ++ [93] ++ [91;49;93]) ++
      [101;102;103;104;105;106;107;108;109;110;111;112;113;120;822] ++ [91;49;93;58;32;117;49]).
Proof. vm_compute. reflexivity. Qed.

(* a link inside a link: <p><a href=u1>x<a href=u2>y</a></a></p>.  The inner link is link 1
   and gets [2]; the outer link is link 0, contains one link, and gets 0 + 1 + 1 = [2] as
   well - the number of the LAST link inside it, not its own. *)
Definition pgx_nested : rnode :=
  ex_n (IBlock [ex_n (ILink (ex_str [117;49])
                        [pgx_tx [120]; ex_n (ILink (ex_str [117;50]) [pgx_tx [121]])])]).
Example pgx_nested_applies := fun s ls Hs Hl =>
  c08_reference_placement plain_deco 3 pgx_o 20 pgx_nested s ls 0 (ex_str [117;49])
     [pgx_tx [120]; ex_n (ILink (ex_str [117;50]) [pgx_tx [121]])] cstyle0 eq_refl Hs Hl eq_refl.
Example pgx_nested_lines :
  pgx_show (render_tree plain_deco 3 pgx_o 20 pgx_nested) =
  Ok [[91; 120; 91; 121; 93; 91; 50; 93; 93; 91; 50; 93]; [];
      [91; 49; 93; 58; 32; 117; 49]; [91; 50; 93; 58; 32; 117; 50]].
Proof. vm_compute. reflexivity. Qed.

(* footnotes off: no reference, no list *)
Definition pgx_o_off : ropts := render_options (with_decorator plain_deco).
Example pgx_footnotes_off :
  pgx_show (render_tree plain_deco 3 pgx_o_off 20 pgx_nested) =
  Ok [[91; 120; 91; 121; 93; 93]].
Proof. vm_compute. reflexivity. Qed.

Print Assumptions flow_text_stream.
Print Assumptions node_eq_all.
Print Assumptions para_eq.

(* ================================================================== *)
(* SUMMARY                                                              *)
(* ==================================================================

   DEFINITIONS
   sty_ok cs       the style pushes no white-space mode: not white-space:pre/pre-wrap, not <pre>
                   (colours are allowed).
   inl n           inline flow: IText, IImg, IContainer (span), ILink, IEm, IStrong, IStrikeout,
                   ICode, ISup, arbitrarily nested, every style sty_ok.  Excluded: IBreak (<br>),
                   IFragStart (an element with an id), any block.
   para n          ONE block around an inline flow: IBlock (p), IListItem (li), IDiv (div) with
                   sty_ok style and inl children - or a bare inl node.
   flow_text d o k n nl
                   the text the flow hands to the wrapper: leaf texts, the decorator's start/end
                   affixes, image text, superscript digits, and with footnotes on the reference
                   "[m]" after each link (m = nl + 1 + number of links up to the end of the
                   link), each passed through the k strikeout filters in force.
   eff_w o width   the wrap width: width, capped by max_wrap_width (= width when that is absent
                   or >= width >= 1: eff_w_width).
   Fresh s         a sub-renderer with no lines, no open block, no pending markers, not at a
                   block end, normal white-space mode, not in <pre>: the initial one
                   (Fresh_sub_new) and every nested one made from such a one (Fresh_new_sub).
   node_out        render_node, then the lines (strings) of the top sub-renderer with its open
                   block flushed.
   link_nodes      the link nodes of a flow tree in document order.
   foot_from k L   "[k]: " ++ visible characters of the k-th target, for all of L.

   MAIN THEOREMS (all for every input, no axioms)
   node_eq_all / para_eq   (the core, equations)  render_node on an inline flow, from ANY
        state whose top is in an open block in normal mode, = the sequence of wb_add_text calls
        `flow_calls` (text and tag of every call made explicit) on the open WrappedBlock,
        nothing else changed, links appended in document order; a para node = that + its close.
   para_greedy_node   GOAL A, node level:
        para n -> Fresh s -> o_pad = false -> o_allow_overflow = false -> 1 <= W ->
        all_words_pos (flow_text ..) ->
        node_out n (mkrst (s :: rest) lk) = greedy W (words_of (flow_text d o k n (length lk)))
        (W = eff_w (sopts s) (swidth_ s), k = filter_depth s): equality of OUTCOMES, so the
        renderer says TooNarrow exactly when the reference does and never panics.
   para_greedy_tree / para_tree_lines   GOAL A for render_tree: lines = greedy lines ++ (one
        blank line if there is a list and body <> []) ++ the footnote list (entry_groups of
        Footnotes.v, one line per link without link wrapping); TooNarrow iff the reference.
   quote_para_greedy, header_para_greedy, dd_para_greedy, ul_item_greedy   GOAL A through one
        prefixed block (Compose.v): every line = prefix ++ greedy line at width
        eff_w (W - |prefix|); for the list item the bullet on the first line and the indent
        on the others.
   c08_reference_placement, c08_plain_reference   GOAL B (any flow tree of Decorators.v: also
        <br>, ids, dl/dt, nested containers): in the stream of visible characters the i-th
        link is one segment  start affix, content, end affix, "[m]"  with
        m = i + 1 + (links inside it); the stream ends with foot_from 1 (all targets);
        neither with footnotes off.  kf (strikeout depth at the link) is 0 when unicode
        strikeout is off.
   flow_text_stream   the stream of GOAL B = the visible characters of the text of GOAL A.

   HYPOTHESES and why
   - o_pad = false, o_allow_overflow = false, 1 <= W, all_words_pos: those of c04_greedy
     (GreedyProof.v), which is used as is.  all_words_pos (every whitespace-separated word
     has width >= 1) is NEEDED: `zero_width_word_glued` - a word of zero-width characters only
     does not end at the following space (wordlen = 0) and is glued to the next word.
   - sty_ok / no <br> / no ids: <br> flushes the block (two greedy runs), white-space:pre
     leaves normal mode, a marker (Frag) in the pending word is outside GreedyProof's
     invariant (no Frag element).
   - Fresh s: in a sub-renderer that already has lines start_block adds a blank line first;
     the statement is about the block alone.

   WHAT THE MODEL DOES (no defect found at the paragraph level)
   - a space between two inline elements is neither lost nor doubled: element boundaries only
     split the text into calls and c04_split_independent makes the split irrelevant; affixes
     made of whitespace simply are whitespace of the text; an empty affix is a call with the
     empty text;
   - zero-width characters stay on the line of the character before them (reference
     hard_chars: a width-0 character always fits);
   - a link containing a link gets the number of the LAST link inside it (pgx_nested_lines:
     "[x[y][2]][2]"), as Footnotes.v says. *)
