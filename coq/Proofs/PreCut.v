(* Proofs/PreCut.v -- C12, the cut case: a preformatted block whose lines do not all fit is cut
   into pieces no wider than the width, and no non-space character is lost, duplicated or
   reordered.  A corollary of the WrappedBlock width bound (WrapInv) and of character
   conservation (Conserve), instantiated at white-space mode Pre. *)
From H2T Require Import Base Tagged Wrap Spec.Greedy Spec.Pre.
From H2T.Proofs Require Import WrapInv Conserve PreProof.
From Coq Require Import Lia ZifyN ZifyBool ZifyNat.

Theorem c12_cut_pieces : forall W src t1 t2,
  1 <= W ->
  match pre_lines W src t1 t2 with
  | Ok ls =>
      (forall l, In l ls -> swidth l <= W) /\
      filter (fun c => negb (ws c)) (concat ls) = kept src
  | TooNarrow => True
  | Panic _ => False
  | OutOfFuel => False
  end.
Proof.
  intros W src t1 t2 HW. unfold pre_lines.
  pose proof (WrapInv.run_total W false false [CText src WsPre t1 t2] HW) as Ht.
  unfold run in Ht. cbn [run_calls do_call] in Ht.
  destruct (wb_add_text (wb_new W false false) src WsPre t1 t2) as [b| | |] eqn:Eb;
    cbn [bind] in *; try exact Ht; try exact I.
  destruct (wb_into_lines b) as [ls| | |] eqn:El; cbn [bind] in *; try exact Ht; try exact I.
  split.
  - intros l Hl. apply in_map_iff in Hl. destruct Hl as (tl & <- & Htl).
    destruct (Ht tl Htl) as [_ Hw]. specialize (Hw eq_refl).
    unfold tl_width_raw in Hw. unfold tl_string.
    clear - Hw. revert Hw. generalize W. induction (tv tl) as [|e v IH]; intros W0 Hw;
      cbn [flat_map map sumN swidth] in *; [lia|].
    rewrite WrapInv.swidth_app. specialize (IH (W0 - swidth (elem_text e))). lia.
  - pose proof (Conserve.c03_run_conserves W false false [(src, WsPre, t1, t2)] ls) as Hc.
    cbn [fold_left bind] in Hc. rewrite Eb in Hc. cbn [bind] in Hc.
    specialize (Hc El). cbn [flat_map fst] in Hc. rewrite app_nil_r in Hc.
    rewrite <- Hc. rewrite <- flat_map_concat_map. reflexivity.
Qed.
Print Assumptions c12_cut_pieces.
