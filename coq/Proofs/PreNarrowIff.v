(* Proofs/PreNarrowIff.v -- C12: exactly when a WrappedBlock without overflow is too narrow.
   PreCut says "either TooNarrow or cut"; here: TooNarrow happens if and only if some non-whitespace
   character of the input has a display width larger than the block width. *)
From H2T Require Import Base Tagged Wrap Spec.Greedy Spec.Pre.
From H2T.Proofs Require Import WrapInv Conserve PreProof PreCut.
From Coq Require Import Lia ZifyN ZifyBool ZifyNat.

Local Arguments N.add : simpl never.
Local Arguments N.sub : simpl never.
Local Arguments N.mul : simpl never.
Local Arguments N.leb : simpl never.
Local Arguments N.ltb : simpl never.
Local Arguments N.eqb : simpl never.
Local Arguments N.min : simpl never.
Local Arguments N.max : simpl never.
Local Arguments N.to_nat : simpl never.
Local Arguments N.of_nat : simpl never.
Local Open Scope N_scope.

(* ------------------------------------------------------------------ *)
(* outcome predicate: an Ok result satisfies P, TooNarrow is excluded (Panic / OutOfFuel are
   excluded separately by WrapInv) *)
Definition fitr {A} (P : A -> Prop) (r : res A) : Prop :=
  match r with Ok a => P a | TooNarrow => False | _ => True end.

Lemma fitr_bind {A B} (P : A -> Prop) (Q : B -> Prop) (r : res A) (f : A -> res B) :
  fitr P r -> (forall a, P a -> fitr Q (f a)) -> fitr Q (bind r f).
Proof. destruct r; cbn; auto. Qed.

Lemma fitr_mono {A} (P Q : A -> Prop) (r : res A) :
  fitr P r -> (forall a, P a -> Q a) -> fitr Q r.
Proof. destruct r; cbn; auto. Qed.

Lemma good_fitr {A} (P Q : A -> Prop) (r : res A) :
  good false P r -> fitr Q r -> exists a, r = Ok a /\ P a /\ Q a.
Proof. destruct r; cbn [good fitr]; intros H1 H2; try contradiction. eauto. Qed.

(* every character of the string / of the pending word fits the width *)
Definition tfits (W : N) (s : text) : Prop := Forall (fun c => cw0 c <= W) s.
Definition wfits (W : N) (v : list elem) : Prop := Forall (fun e => tfits W (elem_text e)) v.

Lemma wfits_push_merge W v s t :
  wfits W v -> tfits W s -> wfits W (v_push_merge v s t).
Proof.
  intros Hv Hs. induction v as [|e v IH].
  - cbn [v_push_merge]. constructor; [exact Hs|constructor].
  - inversion Hv as [|? ? He Hv']; subst. destruct v as [|e' v].
    + cbn [v_push_merge]. destruct e as [s0 t0|n].
      * destruct (tag_eqb t0 t).
        -- constructor; [|constructor]. cbn [elem_text] in *.
           unfold tfits in *. apply Forall_app. auto.
        -- constructor; [exact He|]. constructor; [exact Hs|constructor].
      * constructor; [exact He|]. constructor; [exact Hs|constructor].
    + rewrite v_push_merge_cons2. constructor; [exact He|]. apply IH, Hv'.
Qed.

(* ------------------------------------------------------------------ *)
(* the operations that never report TooNarrow and leave the pending word alone *)
Definition keepw (b b' : wblock) : Prop := wword b' = wword b /\ wwidth b' = wwidth b.

Lemma force_flush_line_fitr b : fitr (keepw b) (force_flush_line b).
Proof.
  unfold force_flush_line, tl_pad_to, tl_width, keepw. destruct (pad_blocks b); cbn [bind fitr].
  - destruct (tlen_ (wline b) =? tl_width_raw (wline b)); cbn [bind fitr]; [|exact I].
    destruct (tl_width_raw (wline b) <? wwidth b); cbn [bind fitr]; prj; auto.
  - prj. auto.
Qed.

Lemma flush_line_fitr b : fitr (keepw b) (flush_line b).
Proof.
  unfold flush_line. destruct (tl_is_empty (wline b)).
  - cbn [fitr]. unfold keepw. auto.
  - apply force_flush_line_fitr.
Qed.

Lemma ws_loop_fitr : forall fuel b, fitr (keepw b) (ws_loop fuel b).
Proof.
  induction fuel as [|f IH]; intros b; cbn [ws_loop]; destruct (wslen b =? 0);
    cbn [fitr]; unfold keepw; auto.
  destruct (wwidth b =? 0); [cbn [fitr]; prj; auto|].
  destruct (spacetag b) as [st|]; [|exact I].
  eapply fitr_bind with (P := fun b2 => wword b2 = wword b /\ wwidth b2 = wwidth b).
  - destruct (N.min (wslen b) (wwidth b) =? wwidth b).
    + eapply fitr_mono; [apply flush_line_fitr|]. unfold keepw. prj. auto.
    + cbn [fitr]. prj. auto.
  - intros b2 [E1 E2]. eapply fitr_mono; [apply IH|]. unfold keepw. prj.
    intros b' [A B]. split; congruence.
Qed.

Lemma tab_loop_fitr tw : forall fuel b t0 pos one fl,
  fitr (fun r => keepw b (fst r)) (tab_loop fuel b t0 tw pos one fl).
Proof.
  induction fuel as [|f IH]; intros b t0 pos one fl; cbn [tab_loop];
    destruct (negb (pos mod 8 =? 0) || negb one); cbn [fitr fst]; unfold keepw; auto.
  destruct (wwidth b =? 0); [cbn [fitr fst]; auto|].
  destruct (wwidth b <=? pos).
  - eapply fitr_bind; [apply flush_line_fitr|]. intros b1 [E1 E2].
    eapply fitr_mono; [apply IH|]. unfold keepw. intros r [A B]. split; congruence.
  - eapply fitr_mono; [apply IH|]. unfold keepw. prj. auto.
Qed.

(* ------------------------------------------------------------------ *)
(* the hard wrap *)

Lemma hw_scan_fitr W line0 :
  tlen_ line0 = tl_width_raw line0 ->
  forall s first taken_rev lineleft wpos,
  tfits W s ->
  (first = true -> tl_width_raw line0 = 0 -> lineleft = W) ->
  fitr (fun _ => True) (hw_scan false line0 first s taken_rev lineleft wpos).
Proof.
  intros Hl. induction s as [|c s IH]; intros first taken_rev lineleft wpos Hfit Hfirst.
  - cbn [hw_scan fitr]. exact I.
  - cbn [hw_scan]. inversion Hfit as [|? ? Hc Hs]; subst.
    destruct (cw c) as [c_w|] eqn:Ecw; [|exact I].
    assert (Hc0 : cw0 c = c_w) by (unfold cw0; rewrite Ecw; reflexivity).
    destruct (N.leb_spec c_w lineleft) as [Hle|Hgt].
    + apply IH; [exact Hs|discriminate].
    + destruct first; [|exact I].
      rewrite (tl_width_ok _ Hl). cbn [bind].
      destruct (N.eqb_spec (tl_width_raw line0) 0) as [Ez|Enz]; [|exact I].
      specialize (Hfirst eq_refl Ez). lia.
Qed.

Lemma tfits_app W a b : tfits W (a ++ b) -> tfits W a /\ tfits W b.
Proof. unfold tfits. rewrite Forall_app. auto. Qed.

Lemma hw_piece_fit t w : forall fuel b rest consumed lineleft wpos,
  Inv0 b -> allow_overflow b = false ->
  has_width rest -> tfits (wwidth b) rest -> wpos + swidth rest = w ->
  (consumed = false -> wpos = 0) ->
  tlen_ (wline b) + lineleft = wwidth b ->
  (2 * length rest + (if (tlen_ (wline b) =? 0)%N then 0 else 1) + 1 <= fuel)%nat ->
  exists b' ll, hw_piece fuel b t w rest consumed lineleft wpos = Ok (b', ll) /\
    piece_post b (b', ll) /\ tlen_ (wline b') + ll = wwidth b.
Proof.
  induction fuel as [|f IH]; intros b rest consumed lineleft wpos HI Hovf Hw Hfit Hsum Hcons Hll Hfuel.
  - destruct (tlen_ (wline b) =? 0); lia.
  - cbn [hw_piece]. rewrite (usub_ok 8 w wpos) by lia. cbn [bind].
    pose proof HI as (HW & [Hl1 Hl2] & Htx & Hst).
    destruct (N.ltb_spec lineleft (w - wpos)) as [Hlt|Hge].
    + pose proof (hw_scan_spec (allow_overflow b) (wline b) Hl1 rest true [] lineleft wpos Hw
                    (fun _ => eq_refl)) as Hs.
      rewrite Hovf in Hs |- *.
      destruct (good_fitr _ (fun _ => True) _ (Hs ltac:(discriminate) ltac:(lia)))
        as ([[taken ll0] wpos'] & Es & (pre & rest' & E1 & E2 & E3 & E4) & _).
      { apply (hw_scan_fitr (wwidth b)); [exact Hl1|exact Hfit|]. intros _ Hz. lia. }
      rewrite Es. cbn [bind]. cbn [rev app] in E2. subst taken.
      destruct E4 as [[A4 B4]|(_ & A4 & _)]; [|discriminate].
      destruct (ffl_ok b (tl_push (wline b) (Str pre t)) HI) as (tx' & E & HI2).
      { split.
        - rewrite tlen_push, raw_push. lia.
        - intros _. rewrite raw_push. cbn [elem_text]. lia. }
      rewrite E. cbn [bind]. subst rest. rewrite skipn_length_app.
      apply has_width_app in Hw. destruct Hw as [Hwp Hwr]. rewrite swidth_app in Hsum.
      apply tfits_app in Hfit. destruct Hfit as [Hfp Hfr].
      destruct (IH (set_text_line b tx' tl_new) rest'
                   (consumed || negb (match pre with [] => true | _ => false end))
                   (wwidth b) wpos') as (b' & ll & Er & Hpp & Heq); try assumption.
      * lia.
      * intros Hc. apply orb_false_iff in Hc. destruct Hc as [Hc1 Hc2].
        destruct pre; [|discriminate]. rewrite swidth_nil in E3. rewrite (Hcons Hc1) in E3. lia.
      * prj. cbn [tl_new tlen_]. lia.
      * prj. cbn [tl_new tlen_]. change (0 =? 0) with true.
        rewrite app_length in Hfuel.
        destruct pre as [|c pre].
        -- specialize (B4 eq_refl).
           destruct (N.eqb_spec (tlen_ (wline b)) 0); [congruence|]. cbn [length] in *. lia.
        -- cbn [length] in Hfuel. lia.
      * exists b', ll. split; [exact Er|]. split; [|exact Heq].
        destruct Hpp as (tx'' & ln'' & Eb & HIb & Hb). prj.
        exists tx'', ln''. split; [exact Eb|]. split; [exact HIb|exact Hb].
    + destruct consumed; cbn [negb].
      * destruct rest as [|c rest].
        -- exists b, lineleft. split; [reflexivity|]. split; [|exact Hll].
           exists (wtext b), (wline b). rewrite set_text_line_id. split; [reflexivity|].
           split; [exact HI|lia].
        -- rewrite (usub_ok 5 lineleft (w - wpos)) by lia. cbn [bind].
           eexists _, _. split; [reflexivity|]. split.
           ++ exists (wtext b), (tl_push (wline b) (Str (c :: rest) t)).
              split; [destruct b; reflexivity|].
              split.
              ** apply Inv0_set_line; [exact HI|].
                 split; rewrite tlen_push, ?raw_push; cbn [elem_text]; lia.
              ** prj. rewrite tlen_push. cbn [elem_text]. lia.
           ++ prj. rewrite tlen_push. cbn [elem_text]. lia.
      * rewrite (Hcons eq_refl) in *.
        rewrite (usub_ok 5 lineleft w) by lia. cbn [bind].
        eexists _, _. split; [reflexivity|]. split.
        -- exists (wtext b), (tl_push (wline b) (Str rest t)).
           split; [destruct b; reflexivity|].
           split.
           ++ apply Inv0_set_line; [exact HI|].
              split; rewrite tlen_push, ?raw_push; cbn [elem_text]; lia.
           ++ prj. rewrite tlen_push. cbn [elem_text]. lia.
        -- prj. rewrite tlen_push. cbn [elem_text]. lia.
Qed.

Lemma hw_elems_fit : forall els b lineleft,
  Inv0 b -> allow_overflow b = false -> elems_have_width els -> wfits (wwidth b) els ->
  tlen_ (wline b) + lineleft = wwidth b ->
  exists b', hw_elems b els lineleft = Ok b' /\
    (exists tx' ln', b' = set_text_line b tx' ln') /\ Inv0 b'.
Proof.
  induction els as [|e els IH]; intros b lineleft HI Hovf Hw Hfit Hll.
  - cbn [hw_elems]. exists b. split; [reflexivity|]. split; [|exact HI].
    exists (wtext b), (wline b). rewrite set_text_line_id. reflexivity.
  - inversion Hw as [|? ? He Hels]; subst. inversion Hfit as [|? ? Hfe Hfels]; subst.
    destruct e as [s t|n]; cbn [hw_elems].
    + cbn [elem_text] in He, Hfe.
      destruct (hw_piece_fit t (swidth s) (2 * length s + 2) b s false lineleft 0 HI Hovf He Hfe)
        as (b' & ll & Er & (tx' & ln' & Eb & HIb & Hb) & Heq); auto; try lia.
      { destruct (tlen_ (wline b) =? 0); lia. }
      rewrite Er. cbn [bind]. subst b'.
      destruct (IH _ ll HIb) as (b'' & Er' & (tx'' & ln'' & Eb') & HIb'); prj; auto.
      exists b''. split; [exact Er'|]. split; [|exact HIb'].
      exists tx'', ln''. exact Eb'.
    + pose proof HI as (HW & [Hl1 Hl2] & _).
      assert (HIa : Inv0 (set_line b (tl_push (wline b) (Frag n)))).
      { apply Inv0_set_line; [exact HI|].
        split; rewrite tlen_push, ?raw_push; cbn [elem_text]; rewrite swidth_nil; lia. }
      assert (Hlla : tlen_ (wline (set_line b (tl_push (wline b) (Frag n)))) + lineleft
                     = wwidth (set_line b (tl_push (wline b) (Frag n)))).
      { prj. rewrite tlen_push. cbn [elem_text]. rewrite swidth_nil. lia. }
      destruct (IH (set_line b (tl_push (wline b) (Frag n))) lineleft HIa Hovf Hels Hfels Hlla)
        as (b'' & Er' & (tx'' & ln'' & Eb') & HIb').
      exists b''. split; [exact Er'|]. split; [|exact HIb'].
      exists tx'', ln''. rewrite Eb'. reflexivity.
Qed.

Lemma fwhw_fit b :
  Inv0 b -> allow_overflow b = false -> elems_have_width (wword b) -> wfits (wwidth b) (wword b) ->
  exists b', flush_word_hard_wrap b = Ok b' /\
    (exists tx' ln', b' = set_word (set_text_line b tx' ln') [] (wordlen b)) /\ Inv0 b'.
Proof.
  intros HI Hovf Hw Hfit. pose proof HI as (HW & [Hl1 Hl2] & _).
  unfold flush_word_hard_wrap. rewrite usub_ok by lia. cbn [bind].
  destruct (hw_elems_fit (wword b) (set_word b [] (wordlen b)) (wwidth b - tlen_ (wline b))
              (Inv0_set_word _ _ _ HI) Hovf Hw Hfit)
    as (b' & Er & (tx' & ln' & Eb) & HIb).
  { prj. lia. }
  exists b'. split; [exact Er|]. split; [|exact HIb].
  exists tx', ln'. rewrite Eb. reflexivity.
Qed.

Lemma flush_word_tail_fit b1 m :
  Inv0 b1 -> allow_overflow b1 = false -> elems_have_width (wword b1) ->
  wfits (wwidth b1) (wword b1) ->
  fitr (fun b' => wword b' = [])
    (do b2 <- flush_line b1;
     let b3 := if is_pre m then set_prew b2 true else b2 in
     do b4 <- ws_loop (S (N.to_nat (wslen b3))) b3;
     let b5 := set_space b4 None (wslen b4) in
     do b6 <- flush_word_hard_wrap b5;
     Ok (set_word b6 (wword b6) 0)).
Proof.
  intros HI Hovf Hw Hfit.
  destruct (flush_line_ok _ HI) as (tx' & ln' & E & HI2 & Hz). rewrite E. cbn [bind].
  cbv zeta.
  assert (H3 : exists pw, (if is_pre m then set_prew (set_text_line b1 tx' ln') true
                           else set_text_line b1 tx' ln')
                          = set_prew (set_text_line b1 tx' ln') pw).
  { destruct (is_pre m); eexists; [reflexivity|symmetry; apply set_prew_id]. }
  destruct H3 as (pw & ->).
  pose proof (ws_loop_ok (S (N.to_nat (wslen (set_prew (set_text_line b1 tx' ln') pw))))
                (set_prew (set_text_line b1 tx' ln') pw)) as Hg.
  prj. rewrite Hovf in Hg.
  destruct (good_fitr _ _ _ (Hg ltac:(apply Inv0_set_prew, HI2) ltac:(right; prj; exact Hz)
                                ltac:(prj; lia)) (ws_loop_fitr _ _))
    as (b4 & E4 & ((tx4 & ln4 & Eb4) & HI4) & _).
  prj. rewrite E4. cbn [bind]. subst b4. prj.
  match goal with |- fitr _ (bind (flush_word_hard_wrap ?x) _) =>
    destruct (fwhw_fit x) as (b6 & E6 & (tx6 & ln6 & Eb6) & HI6) end.
  - apply Inv0_set_space; [|lia]. revert HI4. unfold Inv0. prj. tauto.
  - prj. exact Hovf.
  - prj. exact Hw.
  - prj. exact Hfit.
  - rewrite E6. cbn [bind fitr]. subst b6. prj. reflexivity.
Qed.

Lemma flush_word_fitr b m :
  Inv b -> allow_overflow b = false -> wfits (wwidth b) (wword b) ->
  fitr (fun b' => wword b' = [] \/ wword b' = wword b) (flush_word b m).
Proof.
  intros HI Hovf Hfit. apply Inv_iff in HI. destruct HI as (HI0 & Hwl & Hehw).
  pose proof HI0 as (HW & [Hl1 Hl2] & Htx & Hst).
  unfold flush_word. destruct (word_is_empty (wword b)) eqn:Ewe.
  - cbn [fitr]. prj. auto.
  - cbv zeta. prj. rewrite usub_ok by lia. cbn [bind].
    destruct (N.leb_spec (wslen b + wordlen b) (wwidth b - tlen_ (wline b))) as [Hfit'|Hnofit].
    + destruct (N.ltb_spec 0 (wslen b)) as [Hws|Hws].
      * destruct (spacetag b) as [st|] eqn:Est; [|exact I].
        cbn [bind fitr]. prj. auto.
      * cbn [bind fitr]. prj. auto.
    + eapply fitr_bind with
        (P := fun b1 => Inv0 b1 /\ wword b1 = wword b /\ same_cfg b b1).
      { destruct (do_wrap m); cbn [negb].
        - cbn [fitr]. split; [|split; [reflexivity|unfold same_cfg; prj; auto]].
          apply Inv0_set_space; [exact HI0|lia].
        - destruct (N.leb_spec (wwidth b - tlen_ (wline b)) (wslen b)) as [Hle|Hgt].
          + cbn [fitr]. split; [|split; [reflexivity|unfold same_cfg; prj; auto]].
            apply Inv0_set_space; [exact HI0|]. intros H. apply Hst. lia.
          + destruct (N.ltb_spec 0 (wslen b)) as [Hws|Hws].
            * destruct (spacetag b) as [st|] eqn:Est; [|exact I].
              cbn [fitr]. split; [|split; [reflexivity|unfold same_cfg; prj; auto]].
              apply Inv0_set_space; [|lia]. apply Inv0_set_line; [exact HI0|].
              prj. split; rewrite tlen_push_wsl, ?raw_push_wsl; lia.
            * cbn [fitr]. split; [|split; [reflexivity|unfold same_cfg; prj; auto]].
              exact HI0. }
      intros b1 (H1 & H2 & (c1 & c2 & c3)).
      eapply fitr_mono.
      { apply (flush_word_tail_fit b1 m H1); [congruence| rewrite H2; exact Hehw|].
        rewrite H2, c1. exact Hfit. }
      intros b' Hb'. left. exact Hb'.
Qed.

(* ------------------------------------------------------------------ *)
(* add_char / add_chars / wb_add_text *)

(* a character that can reach the hard wrap: not whitespace *)
Definition chr_fits (W : N) (c : chr) : Prop := ws c = false -> cw0 c <= W.

Lemma add_char_fitr m t1 t2 b u c :
  Inv b -> allow_overflow b = false -> wfits (wwidth b) (wword b) -> chr_fits (wwidth b) c ->
  fitr (fun st' => wfits (wwidth b) (wword (fst st')) /\ wwidth (fst st') = wwidth b)
       (add_char m t1 t2 (b, u) c).
Proof.
  intros HI Hovf Hfit Hc. unfold add_char.
  eapply fitr_bind with
    (P := fun b1 => wfits (wwidth b) (wword b1) /\ wwidth b1 = wwidth b).
  { destruct (ws c && (0 <? wordlen b)).
    - pose proof (flush_word_ok b m HI) as Hg. rewrite Hovf in Hg.
      destruct (good_fitr _ _ _ Hg (flush_word_fitr b m HI Hovf Hfit))
        as (b1 & E & (HI1 & (c1 & c2 & c3)) & Hwd).
      rewrite E. cbn [fitr]. split; [|exact c1].
      destruct Hwd as [-> | ->]; [constructor|exact Hfit].
    - cbn [fitr]. auto. }
  intros b1 [Hf1 Hw1]. cbv zeta.
  destruct (ws c) eqn:Ews.
  - destruct (preserve_ws m).
    + destruct (cp c =? 10).
      * eapply fitr_bind; [apply force_flush_line_fitr|]. intros b2 [E1 E2].
        cbn [fitr fst]. prj. rewrite E1, E2. auto.
      * destruct (cp c =? 9).
        -- eapply fitr_bind; [apply tab_loop_fitr|]. intros r [E1 E2]. cbv zeta.
           cbn [fitr fst]. destruct (is_pre m && snd r); prj; rewrite E1, E2; auto.
        -- destruct (cw c) as [cwidth|]; [|cbn [fitr fst]; auto].
           destruct (wwidth b1 <? tlen_ (wline b1) + wslen b1 + cwidth).
           ++ eapply fitr_bind; [apply flush_line_fitr|]. intros b2 [E1 E2]. prj.
              destruct (do_wrap m); cbn [fitr fst]; prj; rewrite E1, E2; auto.
           ++ cbn [fitr fst]. prj. auto.
    + destruct ((0 <? tlen_ (wline b1)) && (wslen b1 =? 0)); cbn [fitr fst]; prj; auto.
  - destruct (cw c) as [cwidth|] eqn:Ecw; [|cbn [fitr fst]; auto].
    assert (Hc1 : tfits (wwidth b) [c]).
    { constructor; [apply Hc; exact Ews|constructor]. }
    cbn [fitr fst].
    destruct (is_pre m && (wwidth b1 <? tlen_ (wline b1) + wslen b1 + (wordlen b1 + cwidth)));
      prj; (split; [apply wfits_push_merge; assumption|exact Hw1]).
Qed.

Lemma add_chars_fit m t1 t2 : forall s b u,
  Inv b -> allow_overflow b = false -> wfits (wwidth b) (wword b) ->
  Forall (chr_fits (wwidth b)) s ->
  exists st', add_chars m t1 t2 (b, u) s = Ok st' /\
    Inv (fst st') /\ same_cfg b (fst st') /\ wfits (wwidth b) (wword (fst st')).
Proof.
  induction s as [|c s IH]; intros b u HI Hovf Hfit Hs; cbn [add_chars].
  - exists (b, u). cbn [fst]. split; [reflexivity|]. split; [exact HI|].
    split; [apply same_cfg_refl|exact Hfit].
  - inversion Hs as [|? ? Hc Hs']; subst.
    pose proof (add_char_ok m t1 t2 b u c HI) as Hg. rewrite Hovf in Hg.
    destruct (good_fitr _ _ _ Hg (add_char_fitr m t1 t2 b u c HI Hovf Hfit Hc))
      as ([b1 u1] & E & (HI1 & Hc1) & (Hf1 & Hw1)).
    cbn [fst] in *. rewrite E. cbn [bind]. pose proof Hc1 as (c1 & c2 & c3).
    assert (Ho1 : allow_overflow b1 = false) by congruence.
    assert (Hf1' : wfits (wwidth b1) (wword b1)) by (rewrite c1; exact Hf1).
    assert (Hs1' : Forall (chr_fits (wwidth b1)) s) by (rewrite c1; exact Hs').
    destruct (IH b1 u1 HI1 Ho1 Hf1' Hs1') as (st' & E' & HI' & Hc' & Hf').
    exists st'. split; [exact E'|]. split; [exact HI'|].
    split; [eapply same_cfg_trans; eassumption|]. rewrite <- c1. exact Hf'.
Qed.

Lemma wb_add_text_fit b s m t1 t2 :
  Inv b -> allow_overflow b = false -> wfits (wwidth b) (wword b) ->
  Forall (chr_fits (wwidth b)) s ->
  exists b', wb_add_text b s m t1 t2 = Ok b' /\
    Inv b' /\ same_cfg b b' /\ wfits (wwidth b) (wword b').
Proof.
  intros HI Hovf Hfit Hs. unfold wb_add_text.
  destruct (add_chars_fit m t1 t2 s b (pre_wrapped b) HI Hovf Hfit Hs) as (st' & E & H).
  rewrite E. cbn [bind]. exists (fst st'). split; [reflexivity|exact H].
Qed.

Lemma wb_into_lines_fit b :
  Inv b -> allow_overflow b = false -> wfits (wwidth b) (wword b) ->
  exists ls, wb_into_lines b = Ok ls /\
    forall l, In l ls -> tlen_ l = tl_width_raw l /\ tl_width_raw l <= wwidth b.
Proof.
  intros HI Hovf Hfit.
  pose proof (wb_into_lines_ok b HI) as Hg. rewrite Hovf in Hg.
  destruct (good_fitr _ (fun _ => True) _ Hg) as (ls & E & H & _).
  - unfold wb_into_lines, wb_flush.
    pose proof (flush_word_ok b WsNormal HI) as Hg1. rewrite Hovf in Hg1.
    destruct (good_fitr _ _ _ Hg1 (flush_word_fitr b WsNormal HI Hovf Hfit))
      as (b1 & E1 & _ & _).
    rewrite E1. cbn [bind]. eapply fitr_bind; [apply flush_line_fitr|].
    intros b2 _. exact I.
  - exists ls. split; [exact E|]. intros l Hl. destruct (H l Hl) as [A B]. auto.
Qed.

(* ------------------------------------------------------------------ *)
(* whole sequences of calls (any split of the text into tagged wb_add_text calls, any
   white-space mode, marker fragments in between) *)

Definition call_fits (W : N) (c : call) : Prop :=
  match c with CText s _ _ _ => Forall (chr_fits W) s | _ => True end.

Lemma wfits_app W a b : wfits W a -> wfits W b -> wfits W (a ++ b).
Proof. unfold wfits. intros. apply Forall_app. auto. Qed.

Lemma do_call_fit b c :
  Inv b -> allow_overflow b = false -> wfits (wwidth b) (wword b) -> call_fits (wwidth b) c ->
  exists b', do_call b c = Ok b' /\ Inv b' /\ same_cfg b b' /\ wfits (wwidth b) (wword b').
Proof.
  intros HI Hovf Hfit Hc. destruct c as [s m t1 t2|n|]; cbn [do_call call_fits] in *.
  - apply wb_add_text_fit; assumption.
  - eexists. split; [reflexivity|]. destruct (wb_add_frag_Inv b n HI) as [A B].
    split; [exact A|]. split; [exact B|]. cbn [wb_add_element]. prj.
    apply wfits_app; [exact Hfit|]. constructor; [constructor|constructor].
  - eexists. split; [reflexivity|]. destruct (take_trailing_fragments_Inv b HI) as (A & B & _).
    split; [exact A|]. split; [exact B|]. rewrite ttf_eq. cbn [fst]. prj.
    unfold wfits in *. rewrite (tfr_app (wword b)) in Hfit. apply Forall_app in Hfit. apply Hfit.
Qed.

Lemma run_calls_fit : forall cs b,
  Inv b -> allow_overflow b = false -> wfits (wwidth b) (wword b) ->
  Forall (call_fits (wwidth b)) cs ->
  exists b', run_calls b cs = Ok b' /\ Inv b' /\ same_cfg b b' /\ wfits (wwidth b) (wword b').
Proof.
  induction cs as [|c cs IH]; intros b HI Hovf Hfit Hcs; cbn [run_calls].
  - exists b. split; [reflexivity|]. split; [exact HI|]. split; [apply same_cfg_refl|exact Hfit].
  - inversion Hcs as [|? ? Hc Hcs']; subst.
    destruct (do_call_fit b c HI Hovf Hfit Hc) as (b1 & E & HI1 & Hc1 & Hf1).
    rewrite E. cbn [bind]. pose proof Hc1 as (c1 & c2 & c3).
    assert (Ho1 : allow_overflow b1 = false) by congruence.
    assert (Hf1' : wfits (wwidth b1) (wword b1)) by (rewrite c1; exact Hf1).
    assert (Hs1' : Forall (call_fits (wwidth b1)) cs) by (rewrite c1; exact Hcs').
    destruct (IH b1 HI1 Ho1 Hf1' Hs1') as (b' & E' & HI' & Hc' & Hf').
    exists b'. split; [exact E'|]. split; [exact HI'|].
    split; [eapply same_cfg_trans; eassumption|]. rewrite <- c1. exact Hf'.
Qed.

(* MAIN (if): when every non-whitespace character is at most W wide, a block of width W >= 1
   without overflow is never too narrow: the lines come out, each within the width. *)
Theorem run_fits_never_narrow : forall W pad cs,
  1 <= W -> Forall (call_fits W) cs ->
  exists ls, run W pad false cs = Ok ls /\
    forall l, In l ls -> tlen_ l = tl_width_raw l /\ tl_width_raw l <= W.
Proof.
  intros W pad cs HW Hcs. unfold run.
  destruct (run_calls_fit cs (wb_new W pad false) (wb_new_Inv W pad false HW) eq_refl)
    as (b & E & HI & (c1 & c2 & c3) & Hf).
  { constructor. } { exact Hcs. }
  rewrite E. cbn [bind]. cbn [wb_new wwidth allow_overflow] in c1, c3, Hf.
  destruct (wb_into_lines_fit b HI c3) as (ls & E' & H).
  { rewrite c1. exact Hf. }
  exists ls. split; [exact E'|]. rewrite <- c1. exact H.
Qed.
Print Assumptions run_fits_never_narrow.

(* the statement of PreCut with the "either/or" resolved *)
Theorem pre_fits_never_narrow : forall W src t1 t2,
  1 <= W -> Forall (chr_fits W) src ->
  exists ls, pre_lines W src t1 t2 = Ok ls /\
    (forall l, In l ls -> swidth l <= W) /\
    filter (fun c => negb (ws c)) (concat ls) = kept src.
Proof.
  intros W src t1 t2 HW Hs.
  destruct (run_fits_never_narrow W false [CText src WsPre t1 t2] HW) as (tls & E & _).
  { constructor; [exact Hs|constructor]. }
  pose proof (c12_cut_pieces W src t1 t2 HW) as Hc.
  unfold run in E. cbn [run_calls do_call] in E. unfold pre_lines in *.
  destruct (wb_add_text (wb_new W false false) src WsPre t1 t2) as [b| | |];
    cbn [bind] in *; try discriminate E.
  rewrite E in *. cbn [bind] in *. eexists. split; [reflexivity|exact Hc].
Qed.
Print Assumptions pre_fits_never_narrow.

(* non-vacuity: <pre>abc<em>日本</em></pre> at width 4 is cut, not too narrow *)
Definition ex_abc : text := [mk 97 1; mk 98 1; mk 99 1].
Definition ex_nihon : text := [mk 26085 2; mk 26412 2].
Definition ex_calls : list call :=
  [CText ex_abc WsPre [] [APre true]; CText ex_nihon WsPre [AEm] [AEm; APre true]].

Example ex_calls_fit : Forall (call_fits 4) ex_calls.
Proof. repeat constructor; intros _; vm_compute; discriminate. Qed.

Example ex_calls_cut :
  exists l1 l2, run 4 false false ex_calls = Ok [l1; l2] /\
    tl_string l1 = ex_abc /\ tl_string l2 = ex_nihon /\
    tl_width_raw l1 = 3 /\ tl_width_raw l2 = 4.
Proof. vm_compute. eexists _, _. repeat split. Qed.

Example ex_wide_narrow : run 1 false false [CText ex_nihon WsPre [] []] = TooNarrow.
Proof. vm_compute. reflexivity. Qed.

(* ------------------------------------------------------------------ *)
(* the converse: a character wider than the block makes it too narrow *)

Definition nar {A} (P : A -> Prop) (r : res A) : Prop :=
  match r with Ok a => P a | _ => True end.

Lemma nar_bind {A B} (P : A -> Prop) (Q : B -> Prop) (r : res A) (f : A -> res B) :
  nar P r -> (forall a, P a -> nar Q (f a)) -> nar Q (bind r f).
Proof. destruct r; cbn; auto. Qed.
Lemma nar_mono {A} (P Q : A -> Prop) (r : res A) :
  nar P r -> (forall a, P a -> Q a) -> nar Q r.
Proof. destruct r; cbn; auto. Qed.
Lemma good_nar {A} ovf (P : A -> Prop) (r : res A) : good ovf P r -> nar P r.
Proof. destruct r; cbn; auto. Qed.
Lemma fitr_nar {A} (P : A -> Prop) (r : res A) : fitr P r -> nar P r.
Proof. destruct r; cbn; auto. Qed.
Lemma nar_and {A} (P Q : A -> Prop) (r : res A) :
  nar P r -> nar Q r -> nar (fun a => P a /\ Q a) r.
Proof. destruct r; cbn; auto. Qed.

(* the pending word holds a character wider than W *)
Definition haswide (W : N) (v : list elem) : Prop :=
  exists c, In c (flat_map elem_text v) /\ W < cw0 c.

Lemma In_swidth c s : In c s -> cw0 c <= swidth s.
Proof.
  induction s as [|a s IH]; cbn [In]; [intros []|].
  intros [->|H]; rewrite swidth_cons; [lia|specialize (IH H); lia].
Qed.

Lemma flat_vpm v s t : flat_map elem_text (v_push_merge v s t) = flat_map elem_text v ++ s.
Proof.
  induction v as [|e v IH].
  - cbn [v_push_merge flat_map elem_text app]. apply app_nil_r.
  - destruct v as [|e' v].
    + cbn [v_push_merge]. destruct e as [s0 t0|n]; [destruct (tag_eqb t0 t)|];
        cbn [flat_map elem_text app]; rewrite ?app_nil_r; reflexivity.
    + rewrite v_push_merge_cons2.
      change (elem_text e ++ flat_map elem_text (v_push_merge (e' :: v) s t)
              = (elem_text e ++ flat_map elem_text (e' :: v)) ++ s).
      rewrite IH, app_assoc. reflexivity.
Qed.

Lemma swidth_flat v : swidth (flat_map elem_text v) = vw v.
Proof.
  induction v as [|e v IH]; [reflexivity|].
  cbn [flat_map]. rewrite swidth_app, vw_cons, IH. reflexivity.
Qed.

Lemma haswide_vw W v : haswide W v -> W < vw v.
Proof.
  intros (c & Hin & Hc). apply In_swidth in Hin. rewrite swidth_flat in Hin. lia.
Qed.

Lemma hw_piece_wide t w : forall fuel b rest consumed lineleft wpos,
  Inv0 b -> allow_overflow b = false -> has_width rest -> wpos + swidth rest = w ->
  tlen_ (wline b) + lineleft <= wwidth b ->
  (exists c, In c rest /\ wwidth b < cw0 c) ->
  nar (fun _ => False) (hw_piece fuel b t w rest consumed lineleft wpos).
Proof.
  induction fuel as [|f IH]; intros b rest consumed lineleft wpos HI Hovf Hw Hsum Hll (c & Hin & Hc).
  - exact I.
  - cbn [hw_piece]. rewrite (usub_ok 8 w wpos) by lia. cbn [bind].
    pose proof HI as (HW & [Hl1 Hl2] & Htx & Hst).
    pose proof (In_swidth c rest Hin) as Hcs.
    destruct (N.ltb_spec lineleft (w - wpos)) as [Hlt|Hge]; [|lia].
    pose proof (hw_scan_spec (allow_overflow b) (wline b) Hl1 rest true [] lineleft wpos Hw
                  (fun _ => eq_refl) ltac:(discriminate) ltac:(lia)) as Hs.
    rewrite Hovf in Hs |- *.
    destruct (hw_scan false (wline b) true rest [] lineleft wpos) as [[[taken ll0] wpos']| | |];
      cbn [bind nar good] in *; try exact I.
    destruct Hs as (pre & rest' & E1 & E2 & E3 & E4). cbn [rev app] in E2. subst taken.
    destruct E4 as [[A4 B4]|(_ & A4 & _)]; [|discriminate].
    destruct (ffl_ok b (tl_push (wline b) (Str pre t)) HI) as (tx' & E & HI2).
    { split.
      - rewrite tlen_push, raw_push. lia.
      - intros _. rewrite raw_push. cbn [elem_text]. lia. }
    rewrite E. cbn [bind]. subst rest. rewrite skipn_length_app.
    apply has_width_app in Hw. destruct Hw as [Hwp Hwr]. rewrite swidth_app in Hsum.
    apply (IH (set_text_line b tx' tl_new) rest' _ _ wpos' HI2 Hovf Hwr).
    + lia.
    + prj. cbn [tl_new tlen_]. lia.
    + exists c. split; [|prj; exact Hc]. apply in_app_or in Hin.
      destruct Hin as [Hp|Hr]; [|exact Hr]. pose proof (In_swidth c pre Hp). lia.
Qed.

Lemma hw_elems_wide : forall els b lineleft,
  Inv0 b -> allow_overflow b = false -> elems_have_width els ->
  tlen_ (wline b) + lineleft <= wwidth b -> haswide (wwidth b) els ->
  nar (fun _ => False) (hw_elems b els lineleft).
Proof.
  induction els as [|e els IH]; intros b lineleft HI Hovf Hw Hll (c & Hin & Hc).
  - cbn in Hin. contradiction.
  - inversion Hw as [|? ? He Hels]; subst. cbn [flat_map] in Hin. apply in_app_or in Hin.
    destruct e as [s t|n]; cbn [hw_elems elem_text] in *.
    + destruct Hin as [Hs|Hr].
      * eapply nar_bind with (P := fun _ => False); [|intros ? []].
        apply hw_piece_wide; auto. exists c; auto.
      * eapply nar_bind.
        { eapply good_nar.
          apply (hw_piece_ok t (swidth s) (2 * length s + 2) b s false lineleft 0 HI He);
            auto; try lia.
          destruct (tlen_ (wline b) =? 0); lia. }
        intros [b' ll] (tx' & ln' & Eb & HIb & Hb). subst b'.
        apply (IH (set_text_line b tx' ln') ll HIb Hovf Hels Hb).
        exists c. split; [exact Hr|exact Hc].
    + destruct Hin as [[]|Hr]. pose proof HI as (HW & [Hl1 Hl2] & _).
      apply (IH (set_line b (tl_push (wline b) (Frag n))) lineleft).
      * apply Inv0_set_line; [exact HI|].
        split; rewrite tlen_push, ?raw_push; cbn [elem_text]; rewrite swidth_nil; lia.
      * exact Hovf.
      * exact Hels.
      * prj. rewrite tlen_push. cbn [elem_text]. rewrite swidth_nil. lia.
      * exists c. split; [exact Hr|exact Hc].
Qed.

Lemma fwhw_wide b :
  Inv0 b -> allow_overflow b = false -> elems_have_width (wword b) ->
  haswide (wwidth b) (wword b) -> nar (fun _ => False) (flush_word_hard_wrap b).
Proof.
  intros HI Hovf Hw Hwide. pose proof HI as (HW & [Hl1 Hl2] & _).
  unfold flush_word_hard_wrap. rewrite usub_ok by lia. cbn [bind].
  apply (hw_elems_wide (wword b) (set_word b [] (wordlen b)) _ (Inv0_set_word _ _ _ HI) Hovf Hw);
    [prj; lia|exact Hwide].
Qed.

Lemma flush_word_wide b m :
  Inv b -> allow_overflow b = false -> haswide (wwidth b) (wword b) ->
  nar (fun _ => False) (flush_word b m).
Proof.
  intros HI Hovf Hwide. apply Inv_iff in HI. destruct HI as (HI0 & Hwl & Hehw).
  pose proof HI0 as (HW & [Hl1 Hl2] & Htx & Hst).
  pose proof (haswide_vw _ _ Hwide) as Hvw.
  unfold flush_word. destruct (word_is_empty (wword b)) eqn:Ewe.
  - apply word_is_empty_vw in Ewe. lia.
  - cbv zeta. prj. rewrite usub_ok by lia. cbn [bind].
    destruct (N.leb_spec (wslen b + wordlen b) (wwidth b - tlen_ (wline b))) as [Hfit'|Hnofit];
      [lia|].
    eapply nar_bind with
      (P := fun b1 => Inv0 b1 /\ wword b1 = wword b /\ same_cfg b b1).
    { destruct (do_wrap m); cbn [negb].
      - cbn [nar]. split; [|split; [reflexivity|unfold same_cfg; prj; auto]].
        apply Inv0_set_space; [exact HI0|lia].
      - destruct (N.leb_spec (wwidth b - tlen_ (wline b)) (wslen b)) as [Hle|Hgt].
        + cbn [nar]. split; [|split; [reflexivity|unfold same_cfg; prj; auto]].
          apply Inv0_set_space; [exact HI0|]. intros H. apply Hst. lia.
        + destruct (N.ltb_spec 0 (wslen b)) as [Hws|Hws].
          * destruct (spacetag b) as [st|] eqn:Est; [|exact I].
            cbn [nar]. split; [|split; [reflexivity|unfold same_cfg; prj; auto]].
            apply Inv0_set_space; [|lia]. apply Inv0_set_line; [exact HI0|].
            prj. split; rewrite tlen_push_wsl, ?raw_push_wsl; lia.
          * cbn [nar]. split; [|split; [reflexivity|unfold same_cfg; prj; auto]].
            exact HI0. }
    intros b1 (H1 & H2 & (c1 & c2 & c3)).
    destruct (flush_line_ok _ H1) as (tx' & ln' & E & HI2 & Hz). rewrite E. cbn [bind].
    cbv zeta.
    assert (H3 : exists pw, (if is_pre m then set_prew (set_text_line b1 tx' ln') true
                             else set_text_line b1 tx' ln')
                            = set_prew (set_text_line b1 tx' ln') pw).
    { destruct (is_pre m); eexists; [reflexivity|symmetry; apply set_prew_id]. }
    destruct H3 as (pw & ->).
    eapply nar_bind.
    { eapply good_nar. apply (ws_loop_ok _ (set_prew (set_text_line b1 tx' ln') pw)).
      - apply Inv0_set_prew, HI2.
      - right. prj. exact Hz.
      - prj. lia. }
    intros b4 ((tx4 & ln4 & E4) & HI4). subst b4. prj.
    eapply nar_bind with (P := fun _ => False); [|intros ? []].
    match goal with |- nar _ (flush_word_hard_wrap ?x) => apply (fwhw_wide x) end.
    + apply Inv0_set_space; [|lia]. revert HI4. unfold Inv0. prj. tauto.
    + prj. congruence.
    + prj. rewrite H2. exact Hehw.
    + prj. rewrite H2, c1. exact Hwide.
Qed.

(* a character that makes the block too narrow: not whitespace and wider than W
   (a character without a width has cw0 = 0 and never counts) *)
Definition wide (W : N) (c : chr) : Prop := ws c = false /\ W < cw0 c.

Lemma add_char_wide_keep m t1 t2 b u c :
  Inv b -> allow_overflow b = false -> haswide (wwidth b) (wword b) ->
  nar (fun st' => haswide (wwidth b) (wword (fst st'))) (add_char m t1 t2 (b, u) c).
Proof.
  intros HI Hovf Hwide. unfold add_char.
  eapply nar_bind with (P := fun b1 => b1 = b).
  { destruct (ws c && (0 <? wordlen b)); [|reflexivity].
    eapply nar_mono; [apply flush_word_wide; assumption|intros ? []]. }
  intros b1 ->. cbv zeta.
  destruct (ws c) eqn:Ews.
  - destruct (preserve_ws m).
    + destruct (cp c =? 10).
      * eapply nar_bind; [apply fitr_nar, force_flush_line_fitr|]. intros b2 [E1 E2].
        cbn [nar fst]. prj. rewrite E1. exact Hwide.
      * destruct (cp c =? 9).
        -- eapply nar_bind; [apply fitr_nar, tab_loop_fitr|]. intros r [E1 E2]. cbv zeta.
           cbn [nar fst]. destruct (is_pre m && snd r); prj; rewrite E1; exact Hwide.
        -- destruct (cw c) as [cwidth|]; [|cbn [nar fst]; exact Hwide].
           destruct (wwidth b <? tlen_ (wline b) + wslen b + cwidth).
           ++ eapply nar_bind; [apply fitr_nar, flush_line_fitr|]. intros b2 [E1 E2]. prj.
              destruct (do_wrap m); cbn [nar fst]; prj; rewrite E1; exact Hwide.
           ++ cbn [nar fst]. prj. exact Hwide.
    + destruct ((0 <? tlen_ (wline b)) && (wslen b =? 0)); cbn [nar fst]; prj; exact Hwide.
  - destruct (cw c) as [cwidth|]; [|cbn [nar fst]; exact Hwide].
    cbn [nar fst]. destruct Hwide as (c0 & Hin & Hc0).
    destruct (is_pre m && (wwidth b <? tlen_ (wline b) + wslen b + (wordlen b + cwidth)));
      prj; (exists c0; split; [rewrite flat_vpm; apply in_or_app; left; exact Hin|exact Hc0]).
Qed.

Lemma add_char_wide_new m t1 t2 b u c :
  wide (wwidth b) c ->
  nar (fun st' => haswide (wwidth b) (wword (fst st'))) (add_char m t1 t2 (b, u) c).
Proof.
  intros [Ews Hc]. unfold add_char. rewrite Ews. cbn [andb bind]. cbv zeta.
  destruct (cw c) as [cwidth|] eqn:Ecw.
  - cbn [nar fst].
    destruct (is_pre m && (wwidth b <? tlen_ (wline b) + wslen b + (wordlen b + cwidth)));
      prj; (exists c; split;
            [rewrite flat_vpm; apply in_or_app; right; left; reflexivity|exact Hc]).
  - unfold cw0 in Hc. rewrite Ecw in Hc. lia.
Qed.

Definition wpost (b : wblock) (b' : wblock) : Prop :=
  Inv b' /\ same_cfg b b' /\ haswide (wwidth b) (wword b').

Lemma add_chars_wide_keep m t1 t2 : forall s b u,
  Inv b -> allow_overflow b = false -> haswide (wwidth b) (wword b) ->
  nar (fun st' => wpost b (fst st')) (add_chars m t1 t2 (b, u) s).
Proof.
  induction s as [|c s IH]; intros b u HI Hovf Hwide; cbn [add_chars].
  - cbn [nar fst]. split; [exact HI|]. split; [apply same_cfg_refl|exact Hwide].
  - eapply nar_bind.
    { apply nar_and; [eapply good_nar, add_char_ok, HI|apply add_char_wide_keep; assumption]. }
    intros [b1 u1] [[HI1 Hc1] Hw1]. cbn [fst] in *. pose proof Hc1 as (c1 & c2 & c3).
    eapply nar_mono; [apply IH; [exact HI1|congruence|rewrite c1; exact Hw1]|].
    intros st' (A & B & C). split; [exact A|].
    split; [eapply same_cfg_trans; eassumption|rewrite <- c1; exact C].
Qed.

Lemma add_chars_wide_new m t1 t2 : forall s b u,
  Inv b -> allow_overflow b = false -> Exists (wide (wwidth b)) s ->
  nar (fun st' => wpost b (fst st')) (add_chars m t1 t2 (b, u) s).
Proof.
  induction s as [|c s IH]; intros b u HI Hovf Hex; cbn [add_chars].
  - inversion Hex.
  - apply Exists_cons in Hex. destruct Hex as [Hc|Hs].
    + eapply nar_bind.
      { apply nar_and; [eapply good_nar, add_char_ok, HI|apply add_char_wide_new; exact Hc]. }
      intros [b1 u1] [[HI1 Hc1] Hw1]. cbn [fst] in *. pose proof Hc1 as (c1 & c2 & c3).
      eapply nar_mono;
        [apply add_chars_wide_keep; [exact HI1|congruence|rewrite c1; exact Hw1]|].
      intros st' (A & B & C). split; [exact A|].
      split; [eapply same_cfg_trans; eassumption|rewrite <- c1; exact C].
    + eapply nar_bind; [eapply good_nar, add_char_ok, HI|].
      intros [b1 u1] [HI1 Hc1]. cbn [fst] in *. pose proof Hc1 as (c1 & c2 & c3).
      eapply nar_mono; [apply IH; [exact HI1|congruence|rewrite c1; exact Hs]|].
      intros st' (A & B & C). split; [exact A|].
      split; [eapply same_cfg_trans; eassumption|rewrite <- c1; exact C].
Qed.

Definition call_wide (W : N) (c : call) : Prop :=
  match c with CText s _ _ _ => Exists (wide W) s | _ => False end.

Lemma do_call_wide_keep b c :
  Inv b -> allow_overflow b = false -> haswide (wwidth b) (wword b) ->
  nar (wpost b) (do_call b c).
Proof.
  intros HI Hovf Hwide. destruct c as [s m t1 t2|n|]; cbn [do_call].
  - unfold wb_add_text. eapply nar_bind; [apply add_chars_wide_keep; assumption|].
    intros st' H. exact H.
  - cbn [nar]. destruct (wb_add_frag_Inv b n HI) as [A B].
    split; [exact A|]. split; [exact B|]. cbn [wb_add_element]. prj.
    destruct Hwide as (c0 & Hin & Hc0). exists c0. split; [|exact Hc0].
    rewrite flat_map_app. apply in_or_app. left. exact Hin.
  - cbn [nar]. destruct (take_trailing_fragments_Inv b HI) as (A & B & _).
    split; [exact A|]. split; [exact B|]. rewrite ttf_eq. cbn [fst]. prj.
    destruct Hwide as (c0 & Hin & Hc0). exists c0. split; [|exact Hc0].
    rewrite (tfr_app (wword b)), flat_map_app in Hin. apply in_app_or in Hin.
    destruct Hin as [Hin|Hin]; [exact Hin|].
    apply in_flat_map in Hin. destruct Hin as (e & He & Hce).
    apply tfr_snd_frag in He. destruct He as (n & ->). destruct Hce.
Qed.

Lemma do_call_wide_new b c :
  Inv b -> allow_overflow b = false -> call_wide (wwidth b) c -> nar (wpost b) (do_call b c).
Proof.
  intros HI Hovf Hc. destruct c as [s m t1 t2|n|]; cbn [do_call call_wide] in *; try contradiction.
  unfold wb_add_text. eapply nar_bind; [apply add_chars_wide_new; assumption|].
  intros st' H. exact H.
Qed.

Lemma run_calls_wide_keep : forall cs b,
  Inv b -> allow_overflow b = false -> haswide (wwidth b) (wword b) ->
  nar (wpost b) (run_calls b cs).
Proof.
  induction cs as [|c cs IH]; intros b HI Hovf Hwide; cbn [run_calls].
  - cbn [nar]. split; [exact HI|]. split; [apply same_cfg_refl|exact Hwide].
  - eapply nar_bind; [apply do_call_wide_keep; assumption|].
    intros b1 (HI1 & Hc1 & Hw1). pose proof Hc1 as (c1 & c2 & c3).
    eapply nar_mono; [apply IH; [exact HI1|congruence|rewrite c1; exact Hw1]|].
    intros b' (A & B & C). split; [exact A|].
    split; [eapply same_cfg_trans; eassumption|rewrite <- c1; exact C].
Qed.

Lemma do_call_nar b c : Inv b -> nar (fun b1 => Inv b1 /\ same_cfg b b1) (do_call b c).
Proof.
  intros HI. pose proof (do_call_total b c HI) as H.
  destruct (do_call b c); cbn [nar total_post] in *; auto.
Qed.

Lemma run_calls_wide_new : forall cs b,
  Inv b -> allow_overflow b = false -> Exists (call_wide (wwidth b)) cs ->
  nar (wpost b) (run_calls b cs).
Proof.
  induction cs as [|c cs IH]; intros b HI Hovf Hex; cbn [run_calls].
  - inversion Hex.
  - apply Exists_cons in Hex. destruct Hex as [Hc|Hs].
    + eapply nar_bind; [apply do_call_wide_new; assumption|].
      intros b1 (HI1 & Hc1 & Hw1). pose proof Hc1 as (c1 & c2 & c3).
      eapply nar_mono;
        [apply run_calls_wide_keep; [exact HI1|congruence|rewrite c1; exact Hw1]|].
      intros b' (A & B & C). split; [exact A|].
      split; [eapply same_cfg_trans; eassumption|rewrite <- c1; exact C].
    + eapply nar_bind; [apply do_call_nar, HI|].
      intros b1 (HI1 & Hc1). pose proof Hc1 as (c1 & c2 & c3).
      eapply nar_mono; [apply IH; [exact HI1|congruence|rewrite c1; exact Hs]|].
      intros b' (A & B & C). split; [exact A|].
      split; [eapply same_cfg_trans; eassumption|rewrite <- c1; exact C].
Qed.

Lemma wb_into_lines_wide b :
  Inv b -> allow_overflow b = false -> haswide (wwidth b) (wword b) ->
  nar (fun _ => False) (wb_into_lines b).
Proof.
  intros HI Hovf Hwide. unfold wb_into_lines, wb_flush.
  eapply nar_bind with (P := fun _ => False); [|intros ? []].
  eapply nar_bind with (P := fun _ => False); [|intros ? []].
  apply flush_word_wide; assumption.
Qed.

(* MAIN (only if): a non-whitespace character wider than W anywhere in the input makes the
   block too narrow, whatever follows it. *)
Theorem run_wide_too_narrow : forall W pad cs,
  1 <= W -> Exists (call_wide W) cs -> run W pad false cs = TooNarrow.
Proof.
  intros W pad cs HW Hex.
  assert (Hn : nar (fun _ => False) (run W pad false cs)).
  { unfold run. eapply nar_bind.
    - apply (run_calls_wide_new cs (wb_new W pad false) (wb_new_Inv W pad false HW) eq_refl Hex).
    - intros b (HI & (c1 & c2 & c3) & Hw). cbn [wb_new wwidth allow_overflow] in c1, c3, Hw.
      apply wb_into_lines_wide; [exact HI|exact c3|rewrite c1; exact Hw]. }
  pose proof (run_total W pad false cs HW) as Ht.
  destruct (run W pad false cs); cbn [nar] in Hn; try contradiction. reflexivity.
Qed.
Print Assumptions run_wide_too_narrow.

Lemma chr_fits_or_wide W c : chr_fits W c \/ wide W c.
Proof.
  unfold chr_fits, wide. destruct (ws c); [left; discriminate|].
  destruct (N.le_gt_cases (cw0 c) W); [left; auto|right; split; [reflexivity|lia]].
Qed.

Lemma text_fits_or_wide W s : Forall (chr_fits W) s \/ Exists (wide W) s.
Proof.
  induction s as [|c s [IH|IH]]; [left; constructor| |right; apply Exists_cons_tl, IH].
  destruct (chr_fits_or_wide W c) as [H|H]; [left; constructor; assumption|].
  right. apply Exists_cons_hd, H.
Qed.

Lemma calls_fit_or_wide W cs : Forall (call_fits W) cs \/ Exists (call_wide W) cs.
Proof.
  induction cs as [|c cs [IH|IH]]; [left; constructor| |right; apply Exists_cons_tl, IH].
  destruct c as [s m t1 t2|n|].
  - destruct (text_fits_or_wide W s) as [H|H]; [left; constructor; assumption|].
    right. apply Exists_cons_hd, H.
  - left. constructor; [exact I|exact IH].
  - left. constructor; [exact I|exact IH].
Qed.

(* MAIN: the exact condition.  For a block of width W >= 1 without overflow, fed by any
   sequence of tagged wb_add_text calls (any white-space mode) and marker fragments, the
   result is TooNarrow if and only if some non-whitespace character of some text is wider
   than W; otherwise it is Ok with every line within W. *)
Theorem run_too_narrow_iff : forall W pad cs,
  1 <= W ->
  (run W pad false cs = TooNarrow <-> Exists (call_wide W) cs).
Proof.
  intros W pad cs HW. split.
  - intros E. destruct (calls_fit_or_wide W cs) as [H|H]; [|exact H].
    destruct (run_fits_never_narrow W pad cs HW H) as (ls & E' & _). congruence.
  - apply run_wide_too_narrow, HW.
Qed.
Print Assumptions run_too_narrow_iff.

(* the same for the preformatted block of PreCut *)
Theorem pre_too_narrow_iff : forall W src t1 t2,
  1 <= W ->
  (pre_lines W src t1 t2 = TooNarrow <-> Exists (wide W) src).
Proof.
  intros W src t1 t2 HW.
  pose proof (run_too_narrow_iff W false [CText src WsPre t1 t2] HW) as H.
  assert (E : pre_lines W src t1 t2 = TooNarrow <->
              run W false false [CText src WsPre t1 t2] = TooNarrow).
  { unfold pre_lines, run. cbn [run_calls do_call].
    destruct (wb_add_text (wb_new W false false) src WsPre t1 t2) as [b| | |];
      cbn [bind run_calls]; try tauto.
    destruct (wb_into_lines b); cbn [bind]; split; intros H0; try discriminate H0; try reflexivity.
    all: split; intros H0; discriminate H0. }
  rewrite E, H. split.
  - intros Hex. apply Exists_cons in Hex. destruct Hex as [Hex|Hex]; [exact Hex|inversion Hex].
  - intros Hex. apply Exists_cons_hd. exact Hex.
Qed.
Print Assumptions pre_too_narrow_iff.

(* non-vacuity of the "only if" side *)
Example ex_wide_call : Exists (call_wide 1) [CText ex_nihon WsPre [] []].
Proof. apply Exists_cons_hd. apply Exists_cons_hd. split; vm_compute; reflexivity. Qed.

(* a wide character arriving on a non-empty line at W = 1, and one hidden behind text and a
   marker fragment in a later call *)
Example ex_wide_later :
  run 1 false false [CText ex_abc WsPre [] []; CFrag []; CText ex_nihon WsNormal [AEm] [AEm]]
  = TooNarrow.
Proof. vm_compute. reflexivity. Qed.

(* whitespace never counts: a 3-wide whitespace character and a tab at width 2 *)
Example ex_wide_space_ok :
  exists ls, run 2 false false
    [CText [mk 97 1; mkchr 12288 (Some 3) true 0; mkchr 9 (Some 1) true 0; mk 98 1] WsPre [] []]
  = Ok ls.
Proof. vm_compute. eexists. reflexivity. Qed.
