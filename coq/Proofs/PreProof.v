(* Proofs/PreProof.v -- C12: preformatted text keeps its lines and spacing.

   The model's `WsPre` path of WrappedBlock::add_text is compared with the reference
   of Spec/Pre.v (split at newlines, expand tabs to 8-column stops, whitespace to spaces,
   drop width-less characters).  When every expanded source line fits the width, the block
   is reproduced line for line.

   Exact line correspondence (found with vm_compute, see the examples at the end):
     - every newline of the source finishes one output line, blank or not;
     - the text after the last newline (the whole text if there is none) yields one more
       output line iff it contains a tab or a non-whitespace character that has a width
       (`vis`); a final piece that is empty or consists only of spaces (or width-less
       characters) yields NO line, although the same piece followed by a newline yields a
       blank line;
     - each output line is a prefix of the expanded source line and the missing remainder
       consists of `spacel L_space` characters only (the spaces pending in `wslen` at the
       newline are dropped; spaces made by a tab are pushed immediately and survive), so
       the two agree exactly after `rstrip`.

   Hypotheses added to the intended statement, each with a counterexample at the end:
     - `ctl_ws src`: a character whose code point is 9 or 10 is whitespace (`ws = true`).
       The model only recognises tab/newline among whitespace characters, the reference
       looks at the code point only.  True of every real character.  Needed by all
       theorems (cx_newline_not_whitespace, cx_tab_not_whitespace,
       cx_newline_not_whitespace_tag).
     - `words_pos src`: every whitespace-separated word has display width >= 1 (the
       hypothesis `all_words_pos` of C04).  A word made only of zero-width characters is
       not flushed by the following whitespace (`0 <? wordlen` is false): it slides behind
       the spaces, or onto the next line at a newline (cx_zero_width_word_slides,
       cx_zero_width_word_next_line).  Needed for the strings only: `c12_fits_main_tag`
       is proved without it.
   `1 <= W` is kept in the statements as given but is not used (a tab or any character
   with a width already forces W >= 1 through `fits`).

   Theorems: c12_verbatim, c12_verbatim_prefix (string-level form), c12_fits_main_tag,
   c12_line_count, c12_line_count_newlines. *)
From H2T Require Import Base Tagged Wrap Spec.Pre Spec.Greedy.
From H2T.Proofs Require Import WrapInv.
From Coq Require Import Lia ZifyN ZifyBool ZifyNat.

Local Arguments N.add : simpl never.
Local Arguments N.sub : simpl never.
Local Arguments N.mul : simpl never.
Local Arguments N.div : simpl never.
Local Arguments N.modulo : simpl never.
Local Arguments N.leb : simpl never.
Local Arguments N.ltb : simpl never.
Local Arguments N.eqb : simpl never.
Local Arguments N.min : simpl never.
Local Arguments N.max : simpl never.
Local Arguments N.to_nat : simpl never.
Local Arguments N.of_nat : simpl never.
Local Open Scope N_scope.

Definition pre_lines (W : N) (src : text) (t1 t2 : tag) : res (list text) :=
  do b <- wb_add_text (wb_new W false false) src WsPre t1 t2;
  do ls <- wb_into_lines b; Ok (map tl_string ls).

(* tab and newline are whitespace characters *)
Definition chr_ok (c : chr) : Prop := (cp c = 9 \/ cp c = 10) -> ws c = true.
Definition ctl_ws (src : text) : Prop := Forall chr_ok src.

(* every whitespace-separated word has a positive width (as `all_words_pos` of C04) *)
Definition words_pos (src : text) : Prop := forall w, In w (words_of src) -> 1 <= swidth w.

(* characters that make the unfinished last line count as a line *)
Definition vis (c : chr) : bool := (cp c =? 9) || is_wordchar c.

(* the source lines that yield an output line *)
Definition kept_lines (src : text) : list text :=
  let ls := split_lines src in
  if existsb vis (last ls []) then ls else removelast ls.

Local Notation rep n := (repeat_chr (spacel L_space) n).

(* ------------------------------------------------------------------ *)
(* Part 1: generic facts *)

Lemma lN_eqb_refl l : lN_eqb l l = true.
Proof.
  induction l as [|x l IH]; cbn [lN_eqb]; [reflexivity|].
  rewrite N.eqb_refl, IH. reflexivity.
Qed.

Lemma ann_eqb_refl a : ann_eqb a a = true.
Proof.
  destruct a; cbn [ann_eqb]; unfold text_eqb;
    rewrite ?lN_eqb_refl, ?N.eqb_refl, ?Bool.eqb_reflx; reflexivity.
Qed.

Lemma tag_eqb_refl t : tag_eqb t t = true.
Proof.
  induction t as [|a t IH]; cbn [tag_eqb]; [reflexivity|].
  rewrite ann_eqb_refl, IH. reflexivity.
Qed.

Lemma rep_app a b : rep (a + b) = rep a ++ rep b.
Proof.
  induction a as [|a IH]; cbn [Nat.add repeat_chr app]; [reflexivity|].
  rewrite IH. reflexivity.
Qed.

Lemma rep_comm a b : rep a ++ rep b = rep b ++ rep a.
Proof. rewrite <- !rep_app. f_equal. lia. Qed.

Lemma swidth_rep n : swidth (rep n) = N.of_nat n.
Proof.
  induction n as [|n IH]; cbn [repeat_chr]; [reflexivity|].
  rewrite swidth_cons, IH. unfold cw0, spacel. cbn [cw]. lia.
Qed.

Lemma in_rep c n : In c (rep n) -> c = spacel L_space.
Proof.
  induction n as [|n IH]; cbn [repeat_chr In]; [contradiction|].
  intros [H|H]; [symmetry; exact H | exact (IH H)].
Qed.

Lemma drop_ws_app_ws a y : (forall c, In c a -> ws c = true) -> drop_ws (a ++ y) = drop_ws y.
Proof.
  induction a as [|c a IH]; intros H; cbn [app drop_ws]; [reflexivity|].
  rewrite (H c (or_introl eq_refl)). apply IH. intros c' Hc'. apply H. right. exact Hc'.
Qed.

Lemma rstrip_rep x k : rstrip (x ++ rep k) = rstrip x.
Proof.
  unfold rstrip. rewrite rev_app_distr, drop_ws_app_ws; [reflexivity|].
  intros c Hc. apply in_rev in Hc. apply in_rep in Hc. subst c. reflexivity.
Qed.

Lemma expand_app p : forall q col,
  expand (p ++ q) col = expand p col ++ expand q (col + swidth (expand p col)).
Proof.
  induction p as [|c p IH]; intros q col.
  - cbn [app expand]. rewrite swidth_nil, N.add_0_r. reflexivity.
  - cbn [app expand]. destruct (cp c =? 9).
    + rewrite IH, <- app_assoc, swidth_app, swidth_rep, N2Nat.id, N.add_assoc. reflexivity.
    + destruct (cw c) as [w|] eqn:Ecw; [destruct (ws c)|].
      * rewrite IH, <- app_assoc, swidth_app, swidth_rep, N2Nat.id, N.add_assoc. reflexivity.
      * rewrite IH, swidth_cons. unfold cw0. rewrite Ecw, N.add_assoc. reflexivity.
      * apply IH.
Qed.

Lemma expand1 c col :
  expand [c] col =
  if cp c =? 9 then rep (N.to_nat (8 - col mod 8))
  else match cw c with
       | None => []
       | Some w => if ws c then rep (N.to_nat w) else [c]
       end.
Proof.
  cbn [expand]. destruct (cp c =? 9); [apply app_nil_r|].
  destruct (cw c); [destruct (ws c)|]; rewrite ?app_nil_r; reflexivity.
Qed.

(* ------------------------------------------------------------------ *)
(* Part 2: element vectors and tagged lines *)

Definition hasc (v : list elem) : bool := existsb elem_has_content v.
Definition nonnil (w : text) : bool := match w with [] => false | _ => true end.

Lemma wstr_push_merge v s t :
  flat_map elem_text (v_push_merge v s t) = flat_map elem_text v ++ s.
Proof.
  induction v as [|e v IH].
  - cbn [v_push_merge flat_map elem_text app]. apply app_nil_r.
  - destruct v as [|e' v].
    + cbn [v_push_merge]. destruct e as [s0 t0|n].
      * destruct (tag_eqb t0 t); cbn [flat_map elem_text app]; rewrite ?app_nil_r; reflexivity.
      * cbn [flat_map elem_text app]. apply app_nil_r.
    + rewrite v_push_merge_cons2.
      change (flat_map elem_text (e :: v_push_merge (e' :: v) s t))
        with (elem_text e ++ flat_map elem_text (v_push_merge (e' :: v) s t)).
      rewrite IH.
      change (flat_map elem_text (e :: e' :: v))
        with (elem_text e ++ flat_map elem_text (e' :: v)).
      apply app_assoc.
Qed.

Lemma tl_string_push_str l s t : tl_string (tl_push_str l s t) = tl_string l ++ s.
Proof.
  destruct s as [|c s]; cbn [tl_push_str]; [symmetry; apply app_nil_r|].
  unfold tl_string. cbn [tv]. apply wstr_push_merge.
Qed.

Lemma tl_string_push_char l c t : tl_string (tl_push_char l c t) = tl_string l ++ [c].
Proof. unfold tl_string, tl_push_char. cbn [tv]. apply wstr_push_merge. Qed.

Lemma hasc_push_str l s t : hasc (tv (tl_push_str l s t)) = hasc (tv l) || nonnil s.
Proof.
  destruct s as [|c s]; cbn [tl_push_str nonnil]; [symmetry; apply orb_false_r|].
  cbn [tv]. unfold hasc. rewrite content_push_merge. symmetry. apply orb_true_r.
Qed.

Lemma hasc_push_char l c t : hasc (tv (tl_push_char l c t)) = true.
Proof. unfold tl_push_char. cbn [tv]. apply content_push_merge. Qed.

Section Pre.
Variable W : N.
Variables t1 t2 : tag.

Definition tagged (e : elem) : Prop := exists s, e = Str s t1.

Lemma tagged_push_merge v s : Forall tagged v -> Forall tagged (v_push_merge v s t1).
Proof.
  induction v as [|e v IH]; intros Hv.
  - cbn [v_push_merge]. constructor; [exists s; reflexivity|constructor].
  - inversion Hv as [|? ? He Hv']; subst. destruct v as [|e' v].
    + cbn [v_push_merge]. destruct e as [s0 t0|n].
      * destruct He as [s0' He]. injection He as -> ->.
        destruct (tag_eqb t1 t1).
        -- constructor; [eexists; reflexivity|constructor].
        -- constructor; [eexists; reflexivity|]. constructor; [eexists; reflexivity|constructor].
      * destruct He as [s0' He]. discriminate He.
    + rewrite v_push_merge_cons2. constructor; [exact He|]. apply IH. exact Hv'.
Qed.

Lemma tagged_push_str l s : Forall tagged (tv l) -> Forall tagged (tv (tl_push_str l s t1)).
Proof.
  intros H. destruct s as [|c s]; cbn [tl_push_str]; [exact H|].
  cbn [tv]. apply tagged_push_merge. exact H.
Qed.

Lemma tagged_push_char l c : Forall tagged (tv l) -> Forall tagged (tv (tl_push_char l c t1)).
Proof. intros H. unfold tl_push_char. cbn [tv]. apply tagged_push_merge. exact H. Qed.

(* the pending word: one piece carrying the main tag *)
Definition word_of (w : text) : list elem := match w with [] => [] | _ => [Str w t1] end.

Lemma word_of_push w c : v_push_merge (word_of w) [c] t1 = word_of (w ++ [c]).
Proof.
  destruct w as [|c0 w]; cbn [word_of v_push_merge app]; [reflexivity|].
  rewrite tag_eqb_refl. reflexivity.
Qed.

(* ------------------------------------------------------------------ *)
(* Part 3: the tab loop, when the next tab stop is within the width *)

Local Ltac Zify.zify_post_hook ::= Z.to_euclidean_division_equations.

Fixpoint pushl (k : nat) (l : tline) : tline :=
  match k with
  | O => l
  | S k' => pushl k' (tl_push_char l (spacel L_space) t1)
  end.

Lemma pushl_string k : forall l, tl_string (pushl k l) = tl_string l ++ rep k.
Proof.
  induction k as [|k IH]; intros l; cbn [pushl repeat_chr]; [symmetry; apply app_nil_r|].
  rewrite IH, tl_string_push_char, <- app_assoc. reflexivity.
Qed.

Lemma pushl_tlen k : forall l, tlen_ (pushl k l) = tlen_ l + N.of_nat k.
Proof.
  induction k as [|k IH]; intros l; cbn [pushl]; [lia|].
  rewrite IH, tlen_push_char, cw0_spacel. lia.
Qed.

Lemma pushl_tagged k : forall l, Forall tagged (tv l) -> Forall tagged (tv (pushl k l)).
Proof.
  induction k as [|k IH]; intros l H; cbn [pushl]; [exact H|].
  apply IH, tagged_push_char, H.
Qed.

Lemma pushl_hasc k : forall l, (0 < k)%nat -> hasc (tv (pushl k l)) = true.
Proof.
  induction k as [|k IH]; intros l H; [lia|]. cbn [pushl].
  destruct k as [|k]; [cbn [pushl]; apply hasc_push_char|]. apply IH. lia.
Qed.

Definition ptabm (pos : N) : nat := N.to_nat ((8 - pos mod 8) mod 8).

Lemma tab_true tw fl : forall k f b pos,
  ptabm pos = k -> (k <= f)%nat -> pos + N.of_nat k <= wwidth b ->
  tab_loop f b t1 tw pos true fl = Ok (set_line b (pushl k (wline b)), fl).
Proof.
  induction k as [|k IH]; intros f b pos Hk Hf Hw.
  - assert (Hz : pos mod 8 = 0) by (unfold ptabm in Hk; lia).
    destruct f; cbn [tab_loop]; rewrite Hz, N.eqb_refl; cbn [negb orb pushl];
      rewrite set_line_id; reflexivity.
  - destruct f as [|f]; [lia|].
    assert (Hz : pos mod 8 <> 0 /\ ptabm (pos + 1) = k) by (unfold ptabm in *; lia).
    destruct Hz as [Hz Hk'].
    cbn [tab_loop]. destruct (N.eqb_spec (pos mod 8) 0) as [|_]; [contradiction|].
    cbn [negb orb].
    destruct (N.eqb_spec (wwidth b) 0) as [|_]; [lia|].
    destruct (N.leb_spec (wwidth b) pos) as [|_]; [lia|].
    rewrite (IH f _ (pos + 1) Hk'); [reflexivity | lia | cbn [set_line wwidth]; lia].
Qed.

Lemma tab_false tw fl f b pos :
  (8 <= f)%nat -> pos + (8 - pos mod 8) <= wwidth b ->
  tab_loop f b t1 tw pos false fl =
  Ok (set_line b (pushl (N.to_nat (8 - pos mod 8)) (wline b)), fl).
Proof.
  intros Hf Hw. destruct f as [|f]; [lia|].
  cbn [tab_loop]. rewrite orb_true_r.
  destruct (N.eqb_spec (wwidth b) 0) as [|_]; [lia|].
  destruct (N.leb_spec (wwidth b) pos) as [|_]; [lia|].
  assert (E : N.to_nat (8 - pos mod 8) = S (ptabm (pos + 1))) by (unfold ptabm; lia).
  rewrite (tab_true tw fl (ptabm (pos + 1)) f _ (pos + 1) eq_refl).
  - rewrite E. reflexivity.
  - unfold ptabm. lia.
  - cbn [set_line wwidth]. unfold ptabm. lia.
Qed.

(* ------------------------------------------------------------------ *)
(* Part 4: the invariant.  p = the part of the current source line processed so far,
   w = the pending word. *)

Ltac prjs :=
  cbn [wwidth wtext wline spacetag wword wordlen wslen pre_wrapped pad_blocks allow_overflow
       set_line set_text_line set_space set_word set_prew] in *.

Record PInv (b : wblock) (p w : text) : Prop := mkPInv {
  I_w : wwidth b = W;
  I_pad : pad_blocks b = false;
  I_pw : pre_wrapped b = false;
  I_str : expand p 0 = tl_string (wline b) ++ rep (N.to_nat (wslen b)) ++ w;
  I_word : wword b = word_of w;
  I_wl : wordlen b = swidth w;
  I_tl : tlen_ (wline b) = swidth (tl_string (wline b));
  I_tag : Forall tagged (tv (wline b));
  I_st : match spacetag b with Some t => t = t1 | None => wslen b = 0 end;
  I_vis : hasc (tv (wline b)) || nonnil w = existsb vis p;
  I_fit : swidth (expand p 0) <= W
}.

Lemma PInv_col b p w :
  PInv b p w -> tlen_ (wline b) + wslen b + wordlen b = swidth (expand p 0).
Proof.
  intros [_ _ _ Hstr _ Hwl Htl _ _ _ _].
  rewrite Hstr, !swidth_app, swidth_rep, Htl, Hwl. lia.
Qed.

Lemma PInv_new : PInv (wb_new W false false) [] [].
Proof.
  constructor; cbn; try reflexivity.
  - constructor.
  - lia.
Qed.

(* a finished line: a prefix of the expanded source line, the rest being spaces; all
   pieces carry the main tag *)
Definition LineR (l : tline) (p : text) : Prop :=
  (exists k, expand p 0 = tl_string l ++ rep k) /\ Forall tagged (tv l).

(* flush_word when the word fits: pending spaces, then the word, go onto the line *)
Lemma flush_word_fit m b p w :
  PInv b p w -> w <> [] ->
  exists b', flush_word b m = Ok b' /\ PInv b' p [] /\ wtext b' = wtext b.
Proof.
  intros HI Hne. pose proof (PInv_col _ _ _ HI) as Hcol.
  destruct HI as [Hw Hpad Hpw Hstr Hword Hwl Htl Htag Hst Hvis Hfit].
  destruct w as [|c0 w0]; [contradiction|]. clear Hne.
  unfold flush_word. rewrite Hword.
  cbn [word_of word_is_empty existsb elem_has_content orb negb]. prjs.
  rewrite usub_ok by lia. cbn [bind].
  destruct (N.leb_spec (wslen b + wordlen b) (wwidth b - tlen_ (wline b))) as [_|Hbad]; [|lia].
  cbn [nonnil] in Hvis. rewrite orb_true_r in Hvis.
  destruct (N.ltb_spec 0 (wslen b)) as [Hpos|Hzero].
  - destruct (spacetag b) as [st|] eqn:Est; [subst st|lia].
    cbn [bind]. prjs. rewrite Hword. cbn [word_of fold_left].
    eexists. split; [reflexivity|]. split; [|reflexivity].
    constructor; prjs; try assumption; try reflexivity.
    + cbn [tl_push]. rewrite !tl_string_push_str, Hstr, app_nil_r, <- app_assoc. reflexivity.
    + cbn [tl_push]. rewrite !tlen_push_str, !tl_string_push_str, !swidth_app, Htl. reflexivity.
    + cbn [tl_push]. apply tagged_push_str, tagged_push_str, Htag.
    + cbn [tl_push]. rewrite hasc_push_str. cbn [nonnil]. rewrite orb_true_r, orb_false_r.
      exact Hvis.
  - cbn [bind]. prjs. rewrite Hword. cbn [word_of fold_left].
    eexists. split; [reflexivity|]. split; [|reflexivity].
    assert (Ez : wslen b = 0) by lia.
    constructor; prjs; try assumption; try reflexivity.
    + cbn [tl_push]. rewrite tl_string_push_str, Hstr, Ez, app_nil_r. reflexivity.
    + cbn [tl_push]. rewrite tlen_push_str, tl_string_push_str, swidth_app, Htl. reflexivity.
    + cbn [tl_push]. apply tagged_push_str, Htag.
    + cbn [tl_push]. rewrite hasc_push_str. cbn [nonnil]. rewrite orb_true_r, orb_false_r.
      exact Hvis.
Qed.

(* the flush at the head of add_char, for a whitespace character *)
Lemma preflush b p w :
  PInv b p w -> (w <> [] -> 1 <= swidth w) ->
  exists b', (if 0 <? wordlen b then flush_word b WsPre else Ok b) = Ok b' /\
             PInv b' p [] /\ wtext b' = wtext b.
Proof.
  intros HI Hwp. destruct w as [|c0 w0].
  - rewrite (I_wl _ _ _ HI), swidth_nil. cbn [N.ltb N.compare].
    exists b. split; [reflexivity|]. split; [exact HI|reflexivity].
  - assert (Hp : 1 <= swidth (c0 :: w0)) by (apply Hwp; discriminate).
    destruct (N.ltb_spec 0 (wordlen b)) as [_|Hbad]; [|rewrite (I_wl _ _ _ HI) in Hbad; lia].
    apply (flush_word_fit WsPre b p (c0 :: w0) HI). discriminate.
Qed.

(* one character other than a newline *)
Lemma step c b p w :
  PInv b p w -> cp c <> 10 -> chr_ok c ->
  swidth (expand (p ++ [c]) 0) <= W ->
  (ws c = true -> w <> [] -> 1 <= swidth w) ->
  exists b', add_char WsPre t1 t2 (b, false) c = Ok (b', false) /\ wtext b' = wtext b /\
    PInv b' (p ++ [c]) (if ws c then [] else if is_wordchar c then w ++ [c] else w).
Proof.
  intros HI Hnl Hok Hfit' Hwp.
  assert (Eexp : expand (p ++ [c]) 0 = expand p 0 ++ expand [c] (swidth (expand p 0))).
  { rewrite expand_app, N.add_0_l. reflexivity. }
  rewrite Eexp, swidth_app, expand1 in Hfit'.
  assert (Evis : existsb vis (p ++ [c]) =
                 existsb vis p || ((cp c =? 9) || (negb (ws c) &&
                                   match cw c with Some _ => true | None => false end))).
  { rewrite existsb_app. cbn [existsb]. rewrite orb_false_r. reflexivity. }
  unfold add_char. unfold is_wordchar.
  destruct (ws c) eqn:Hws.
  - (* whitespace *)
    destruct (preflush b p w HI (Hwp eq_refl)) as (b' & E & HI' & Htx).
    cbn [andb]. rewrite E. cbn [bind preserve_ws]. clear E HI Hwp.
    pose proof (PInv_col _ _ _ HI') as Hcol.
    destruct HI' as [Hw Hpad Hpw Hstr Hword Hwl Htl Htag Hst Hvis Hfit].
    rewrite swidth_nil in Hwl. rewrite app_nil_r in Hstr.
    cbn [negb andb] in Evis. rewrite orb_false_r in Evis.
    destruct (N.eqb_spec (cp c) 10) as [|_]; [contradiction|].
    destruct (N.eqb_spec (cp c) 9) as [H9|H9].
    + (* tab *)
      rewrite swidth_rep in Hfit'.
      assert (Epos : tlen_ (wline b') + wslen b' = swidth (expand p 0)) by lia.
      rewrite Epos.
      rewrite tab_false; [| lia | lia].
      cbn [bind is_pre fst snd andb orb]. eexists. split; [reflexivity|]. split; [exact Htx|].
      constructor; prjs; try assumption.
      * rewrite Eexp, expand1. destruct (N.eqb_spec (cp c) 9) as [_|]; [|contradiction].
        rewrite pushl_string, Hstr, !app_nil_r, <- !app_assoc. f_equal. apply rep_comm.
      * rewrite pushl_tlen, pushl_string, swidth_app, swidth_rep, Htl. reflexivity.
      * apply pushl_tagged, Htag.
      * rewrite Evis, orb_true_r, pushl_hasc by lia. reflexivity.
      * rewrite Eexp, expand1. destruct (N.eqb_spec (cp c) 9) as [_|]; [|contradiction].
        rewrite swidth_app, swidth_rep. lia.
    + destruct (cw c) as [cwidth|] eqn:Ecw.
      * (* a whitespace character with a width *)
        rewrite swidth_rep in Hfit'.
        destruct (N.ltb_spec (wwidth b') (tlen_ (wline b') + wslen b' + cwidth)) as [Hbad|_]; [lia|].
        eexists. split; [reflexivity|]. split; [exact Htx|].
        constructor; prjs; try assumption; try reflexivity.
        -- rewrite Eexp, expand1. destruct (N.eqb_spec (cp c) 9) as [|_]; [contradiction|].
           rewrite Ecw, Hws, Hstr, app_nil_r, <- app_assoc, <- rep_app. f_equal. f_equal. lia.
        -- rewrite Evis, (orb_false_r (existsb vis p)). exact Hvis.
        -- rewrite Eexp, expand1. destruct (N.eqb_spec (cp c) 9) as [|_]; [contradiction|].
           rewrite Ecw, Hws, swidth_app, swidth_rep. lia.
      * (* a width-less whitespace character: ignored *)
        eexists. split; [reflexivity|]. split; [exact Htx|].
        constructor; prjs; try assumption; try reflexivity.
        -- rewrite Eexp, expand1. destruct (N.eqb_spec (cp c) 9) as [|_]; [contradiction|].
           rewrite Ecw, Hstr, !app_nil_r. reflexivity.
        -- rewrite Evis, (orb_false_r (existsb vis p)). exact Hvis.
        -- rewrite Eexp, expand1. destruct (N.eqb_spec (cp c) 9) as [|_]; [contradiction|].
           rewrite Ecw, app_nil_r. exact Hfit.
  - (* not whitespace *)
    clear Hwp. cbn [andb bind negb] in *.
    pose proof (PInv_col _ _ _ HI) as Hcol.
    destruct HI as [Hw Hpad Hpw Hstr Hword Hwl Htl Htag Hst Hvis Hfit].
    assert (H9 : cp c <> 9).
    { intros H9. assert (Hc : ws c = true) by (apply Hok; left; exact H9). congruence. }
    destruct (N.eqb_spec (cp c) 9) as [|_]; [contradiction|]. cbn [orb] in Evis.
    destruct (cw c) as [cwidth|] eqn:Ecw.
    + (* a word character *)
      assert (Ecw0 : cw0 c = cwidth) by (unfold cw0; rewrite Ecw; reflexivity).
      rewrite swidth_cons, swidth_nil, Ecw0 in Hfit'.
      cbn [is_pre].
      destruct (N.ltb_spec (wwidth b) (tlen_ (wline b) + wslen b + (wordlen b + cwidth)))
        as [Hbad|_]; [lia|].
      cbn [andb orb]. eexists. split; [reflexivity|]. split; [reflexivity|].
      constructor; prjs; try assumption; try reflexivity.
      * rewrite Eexp, expand1. destruct (N.eqb_spec (cp c) 9) as [|_]; [contradiction|].
        rewrite Ecw, Hws, Hstr, <- !app_assoc. reflexivity.
      * rewrite Hword. apply word_of_push.
      * rewrite swidth_app, swidth_cons, swidth_nil, Ecw0, Hwl. lia.
      * rewrite Evis, orb_true_r. destruct w; cbn [app nonnil]; apply orb_true_r.
      * rewrite Eexp, expand1. destruct (N.eqb_spec (cp c) 9) as [|_]; [contradiction|].
        rewrite Ecw, Hws, swidth_app, swidth_cons, swidth_nil, Ecw0. lia.
    + (* a width-less character: ignored *)
      eexists. split; [reflexivity|]. split; [reflexivity|].
      constructor; prjs; try assumption; try reflexivity.
      * rewrite Eexp, expand1. destruct (N.eqb_spec (cp c) 9) as [|_]; [contradiction|].
        rewrite Ecw, app_nil_r. exact Hstr.
      * rewrite Evis, (orb_false_r (existsb vis p)). exact Hvis.
      * rewrite Eexp, expand1. destruct (N.eqb_spec (cp c) 9) as [|_]; [contradiction|].
        rewrite Ecw, app_nil_r. exact Hfit.
Qed.

(* a newline: the line is finished (blank or not), pending spaces are dropped *)
Lemma step_nl c b p w :
  PInv b p w -> cp c = 10 -> ws c = true -> (w <> [] -> 1 <= swidth w) ->
  exists b' l, add_char WsPre t1 t2 (b, false) c = Ok (b', false) /\
    wtext b' = wtext b ++ [l] /\ PInv b' [] [] /\ LineR l p.
Proof.
  intros HI H10 Hws Hwp. unfold add_char. rewrite Hws. cbn [andb].
  destruct (preflush b p w HI Hwp) as (b' & E & HI' & Htx).
  rewrite E. cbn [bind preserve_ws]. clear E HI Hwp.
  destruct HI' as [Hw Hpad Hpw Hstr Hword Hwl Htl Htag Hst Hvis Hfit].
  rewrite H10. cbn [N.eqb Pos.eqb]. unfold force_flush_line. rewrite Hpad. cbn [bind].
  eexists. exists (wline b'). split; [reflexivity|]. prjs.
  split; [rewrite Htx; reflexivity|]. split.
  - constructor; prjs; try assumption; try reflexivity.
    + constructor.
    + cbn. lia.
  - split; [|exact Htag]. exists (N.to_nat (wslen b')). rewrite Hstr, app_nil_r. reflexivity.
Qed.

(* ------------------------------------------------------------------ *)
(* Part 5: the hypotheses, along the source *)

Definition wpos (x : text) : Prop := 1 <= swidth x.
Definition fitsW (l : text) : Prop := swidth (expand l 0) <= W.

Lemma rev_nil_inv (w : text) : rev w = [] -> w = [].
Proof.
  intros H. apply (f_equal (@rev chr)) in H. rewrite rev_involutive in H. exact H.
Qed.

Lemma words_step_ws c s w :
  ws c = true -> Forall wpos (words_aux (c :: s) (rev w)) ->
  (w <> [] -> 1 <= swidth w) /\ Forall wpos (words_aux s []).
Proof.
  intros Hws H. cbn [words_aux] in H. rewrite Hws in H.
  destruct (rev w) as [|x r] eqn:Er.
  - split; [|exact H]. intros Hne. exfalso. apply Hne, rev_nil_inv, Er.
  - inversion H as [|? ? Hx Hrest]; subst. split; [|exact Hrest].
    intros _. change (rev r ++ [x]) with (rev (x :: r)) in Hx.
    rewrite <- Er, rev_involutive in Hx. exact Hx.
Qed.

Lemma words_step_nws c s w :
  ws c = false -> Forall wpos (words_aux (c :: s) (rev w)) ->
  Forall wpos (words_aux s (rev (if is_wordchar c then w ++ [c] else w))).
Proof.
  intros Hws H. cbn [words_aux] in H. rewrite Hws in H.
  destruct (is_wordchar c); [rewrite rev_unit|]; exact H.
Qed.

Lemma fits_head : forall s p,
  Forall fitsW (split_lines_aux s (rev p)) -> swidth (expand p 0) <= W.
Proof.
  induction s as [|c s IH]; intros p H; cbn [split_lines_aux] in H.
  - inversion H as [|? ? Hx _]; subst. rewrite rev_involutive in Hx. exact Hx.
  - destruct (cp c =? 10).
    + inversion H as [|? ? Hx _]; subst. rewrite rev_involutive in Hx. exact Hx.
    + rewrite <- rev_unit in H. apply IH in H.
      rewrite expand_app, swidth_app in H. lia.
Qed.

(* ------------------------------------------------------------------ *)
(* Part 6: the whole source *)

Lemma sim : forall s b p w,
  PInv b p w -> Forall chr_ok s ->
  Forall wpos (words_aux s (rev w)) ->
  Forall fitsW (split_lines_aux s (rev p)) ->
  exists b' newl fin lastp w',
    add_chars WsPre t1 t2 (b, false) s = Ok (b', false) /\
    wtext b' = wtext b ++ newl /\
    split_lines_aux s (rev p) = fin ++ [lastp] /\
    Forall2 LineR newl fin /\
    PInv b' lastp w'.
Proof.
  induction s as [|c s IH]; intros b p w HI Hok Hwords Hfits.
  - exists b, [], [], p, w. cbn [add_chars split_lines_aux app].
    rewrite rev_involutive, app_nil_r.
    split; [reflexivity|]. split; [reflexivity|]. split; [reflexivity|].
    split; [constructor|exact HI].
  - inversion Hok as [|? ? Hc Hok']; subst.
    cbn [add_chars split_lines_aux] in *.
    destruct (N.eqb_spec (cp c) 10) as [H10|H10].
    + (* newline *)
      assert (Hws : ws c = true) by (apply Hc; right; exact H10).
      destruct (words_step_ws c s w Hws Hwords) as [Hwp Hwords'].
      destruct (step_nl c b p w HI H10 Hws Hwp) as (b1 & l & E & Htx & HI1 & HR).
      rewrite E. cbn [bind].
      inversion Hfits as [|? ? _ Hfits']; subst.
      destruct (IH b1 [] [] HI1 Hok' Hwords' Hfits')
        as (b' & newl & fin & lastp & w' & E' & Htx' & Esp & HF & HI').
      exists b', (l :: newl), (p :: fin), lastp, w'.
      split; [exact E'|]. split; [rewrite Htx', Htx, <- app_assoc; reflexivity|].
      split; [cbn [rev] in Esp; rewrite Esp, rev_involutive; reflexivity|].
      split; [constructor; assumption|exact HI'].
    + (* any other character *)
      rewrite <- rev_unit in Hfits.
      pose proof (fits_head _ _ Hfits) as Hfit1.
      assert (Hwp : ws c = true -> w <> [] -> 1 <= swidth w).
      { intros Hws. exact (proj1 (words_step_ws c s w Hws Hwords)). }
      destruct (step c b p w HI H10 Hc Hfit1 Hwp) as (b1 & E & Htx & HI1).
      rewrite E. cbn [bind].
      assert (Hwords' : Forall wpos (words_aux s
                 (rev (if ws c then [] else if is_wordchar c then w ++ [c] else w)))).
      { destruct (ws c) eqn:Hws.
        - exact (proj2 (words_step_ws c s w Hws Hwords)).
        - exact (words_step_nws c s w Hws Hwords). }
      destruct (IH b1 _ _ HI1 Hok' Hwords' Hfits)
        as (b' & newl & fin & lastp & w' & E' & Htx' & Esp & HF & HI').
      exists b', newl, fin, lastp, w'.
      split; [exact E'|]. split; [rewrite Htx', Htx; reflexivity|].
      split; [rewrite <- rev_unit; exact Esp|]. split; [exact HF|exact HI'].
Qed.

(* the final flush: the unfinished last line is emitted iff it has something visible *)
Lemma final b p w :
  PInv b p w ->
  exists extra, wb_into_lines b = Ok (wtext b ++ extra) /\
    Forall2 LineR extra (if existsb vis p then [p] else []).
Proof.
  intros HI.
  assert (H1 : exists b1, flush_word b WsNormal = Ok b1 /\ PInv b1 p [] /\ wtext b1 = wtext b).
  { destruct w as [|c0 w0].
    - exists (set_word b (wword b) 0). unfold flush_word. rewrite (I_word _ _ _ HI).
      cbn [word_of word_is_empty existsb negb]. split; [reflexivity|]. split; [|reflexivity].
      destruct HI as [Hw Hpad Hpw Hstr Hword Hwl Htl Htag Hst Hvis Hfit].
      constructor; prjs; try assumption; reflexivity.
    - apply (flush_word_fit WsNormal b p (c0 :: w0) HI). discriminate. }
  destruct H1 as (b1 & E & HI1 & Htx).
  unfold wb_into_lines, wb_flush. rewrite E. cbn [bind]. clear E HI.
  destruct HI1 as [Hw Hpad Hpw Hstr Hword Hwl Htl Htag Hst Hvis Hfit].
  cbn [nonnil] in Hvis. rewrite orb_false_r in Hvis. rewrite app_nil_r in Hstr.
  unfold flush_line, tl_is_empty. fold (hasc (tv (wline b1))). rewrite Hvis.
  destruct (existsb vis p); cbn [negb].
  - unfold force_flush_line. rewrite Hpad. cbn [bind]. prjs.
    exists [wline b1]. split; [rewrite Htx; reflexivity|].
    constructor; [|constructor]. split; [|exact Htag].
    exists (N.to_nat (wslen b1)). exact Hstr.
  - cbn [bind]. exists []. split; [rewrite Htx, app_nil_r; reflexivity|constructor].
Qed.

Lemma LineR_rstrip ls fin :
  Forall2 LineR ls fin ->
  map rstrip (map tl_string ls) = map (fun l => rstrip (expand l 0)) fin.
Proof.
  induction 1 as [|l p ls fin [[k Hk] _] _ IH]; cbn [map]; [reflexivity|].
  rewrite Hk, rstrip_rep, IH. reflexivity.
Qed.

(* everything about one run *)
Lemma run_spec src :
  ctl_ws src -> words_pos src -> Forall fitsW (split_lines src) ->
  exists b ls,
    wb_add_text (wb_new W false false) src WsPre t1 t2 = Ok b /\
    wb_into_lines b = Ok ls /\
    Forall2 LineR ls (kept_lines src).
Proof.
  intros Hok Hwp Hfits.
  destruct (sim src (wb_new W false false) [] [] PInv_new Hok)
    as (b' & newl & fin & lastp & w' & E & Htx & Esp & HF & HI').
  { apply Forall_forall. exact Hwp. }
  { exact Hfits. }
  destruct (final b' lastp w' HI') as (extra & Ef & HFe).
  exists b', (wtext b' ++ extra).
  split; [unfold wb_add_text; cbn [wb_new pre_wrapped]; rewrite E; reflexivity|].
  split; [exact Ef|].
  unfold kept_lines, split_lines. cbn [rev] in Esp. rewrite Esp, last_last, removelast_last.
  rewrite Htx. cbn [wb_new wtext app].
  destruct (existsb vis lastp).
  - apply Forall2_app; assumption.
  - inversion HFe; subst. rewrite app_nil_r. exact HF.
Qed.

(* ------------------------------------------------------------------ *)
(* Part 6b: tags only.  The same walk with an invariant that tracks widths and tags but
   not strings: it does not need `words_pos` (a zero-width word that slides behind spaces
   or onto the next line changes the strings, not the widths or the tags). *)

Definition linesT (ls : list tline) : Prop := Forall (fun l => Forall tagged (tv l)) ls.

Record QInv (b : wblock) (col : N) : Prop := mkQInv {
  Q_w : wwidth b = W;
  Q_pad : pad_blocks b = false;
  Q_pw : pre_wrapped b = false;
  Q_col : tlen_ (wline b) + wslen b + wordlen b = col;
  Q_fit : col <= W;
  Q_tagl : Forall tagged (tv (wline b));
  Q_tagw : Forall tagged (wword b);
  Q_vw : vw (wword b) = wordlen b;
  Q_st : match spacetag b with Some t => t = t1 | None => wslen b = 0 end;
  Q_text : linesT (wtext b)
}.

Lemma QInv_new : QInv (wb_new W false false) 0.
Proof. constructor; cbn; try reflexivity; try constructor. lia. Qed.

Lemma tagged_fold_push v : forall l,
  Forall tagged v -> Forall tagged (tv l) -> Forall tagged (tv (fold_left tl_push v l)).
Proof.
  induction v as [|e v IH]; intros l Hv Hl; cbn [fold_left]; [exact Hl|].
  inversion Hv as [|? ? He Hv']; subst. apply IH; [exact Hv'|].
  destruct He as [s ->]. cbn [tl_push]. apply tagged_push_str, Hl.
Qed.

Lemma q_flush m b col :
  QInv b col -> word_is_empty (wword b) = false ->
  exists b', flush_word b m = Ok b' /\ QInv b' col /\ wordlen b' = 0.
Proof.
  intros [Hw Hpad Hpw Hcol Hfit Htagl Htagw Hvw Hst Htext] Hne.
  unfold flush_word. rewrite Hne. prjs.
  rewrite usub_ok by lia. cbn [bind].
  destruct (N.leb_spec (wslen b + wordlen b) (wwidth b - tlen_ (wline b))) as [_|Hbad]; [|lia].
  destruct (N.ltb_spec 0 (wslen b)) as [Hpos|Hzero].
  - destruct (spacetag b) as [st|] eqn:Est; [subst st|lia].
    cbn [bind]. prjs.
    eexists. split; [reflexivity|]. split; [|reflexivity].
    constructor; prjs; try assumption; try reflexivity.
    + rewrite tlen_fold_push, tlen_push. cbn [elem_text]. rewrite swidth_spacesl. lia.
    + apply tagged_fold_push; [exact Htagw|]. cbn [tl_push]. apply tagged_push_str, Htagl.
    + constructor.
  - cbn [bind]. prjs.
    eexists. split; [reflexivity|]. split; [|reflexivity].
    constructor; prjs; try assumption; try reflexivity.
    + rewrite tlen_fold_push. lia.
    + apply tagged_fold_push; assumption.
    + constructor.
Qed.

Lemma q_preflush b col :
  QInv b col ->
  exists b', (if 0 <? wordlen b then flush_word b WsPre else Ok b) = Ok b' /\
             QInv b' col /\ wordlen b' = 0 /\ wtext b' = wtext b.
Proof.
  intros HI. destruct (N.ltb_spec 0 (wordlen b)) as [Hpos|Hz].
  - assert (Hne : word_is_empty (wword b) = false).
    { destruct (word_is_empty (wword b)) eqn:E; [|reflexivity].
      apply word_is_empty_vw in E. rewrite (Q_vw _ _ HI) in E. lia. }
    destruct (q_flush WsPre b col HI Hne) as (b' & E & HI' & Hz).
    exists b'. split; [exact E|]. split; [exact HI'|]. split; [exact Hz|].
    (* flush_word in the fitting branch leaves wtext alone *)
    revert E. unfold flush_word. rewrite Hne. prjs.
    destruct HI as [Hw Hpad Hpw Hcol Hfit Htagl Htagw Hvw Hst Htext].
    rewrite usub_ok by lia. cbn [bind].
    destruct (N.leb_spec (wslen b + wordlen b) (wwidth b - tlen_ (wline b))) as [_|Hbad]; [|lia].
    destruct (N.ltb_spec 0 (wslen b)) as [Hp|Hp].
    + destruct (spacetag b) as [st|]; [|lia]. cbn [bind]. intros E. injection E as <-. reflexivity.
    + cbn [bind]. intros E. injection E as <-. reflexivity.
  - exists b. split; [reflexivity|]. split; [exact HI|]. split; [lia|reflexivity].
Qed.

Lemma q_step c b col :
  QInv b col -> cp c <> 10 -> chr_ok c -> col + swidth (expand [c] col) <= W ->
  exists b', add_char WsPre t1 t2 (b, false) c = Ok (b', false) /\
             QInv b' (col + swidth (expand [c] col)).
Proof.
  intros HI Hnl Hok Hfit'. rewrite expand1 in *. unfold add_char.
  destruct (ws c) eqn:Hws.
  - destruct (q_preflush b col HI) as (b' & E & HI' & Hz & Htx).
    cbn [andb]. rewrite E. cbn [bind preserve_ws]. clear E HI.
    destruct HI' as [Hw Hpad Hpw Hcol Hfit Htagl Htagw Hvw Hst Htext].
    destruct (N.eqb_spec (cp c) 10) as [|_]; [contradiction|].
    destruct (N.eqb_spec (cp c) 9) as [H9|H9].
    + rewrite swidth_rep in *.
      assert (Epos : tlen_ (wline b') + wslen b' = col) by lia. rewrite Epos.
      rewrite tab_false; [| lia | lia].
      cbn [bind is_pre fst snd andb orb]. eexists. split; [reflexivity|].
      constructor; prjs; try assumption.
      * rewrite pushl_tlen. lia.
      * apply pushl_tagged, Htagl.
    + destruct (cw c) as [cwidth|] eqn:Ecw.
      * rewrite swidth_rep in *.
        destruct (N.ltb_spec (wwidth b') (tlen_ (wline b') + wslen b' + cwidth)) as [Hbad|_]; [lia|].
        eexists. split; [reflexivity|].
        constructor; prjs; try assumption; try reflexivity. lia.
      * rewrite swidth_nil, N.add_0_r in *.
        eexists. split; [reflexivity|].
        constructor; prjs; assumption.
  - cbn [andb bind negb].
    destruct HI as [Hw Hpad Hpw Hcol Hfit Htagl Htagw Hvw Hst Htext].
    assert (H9 : cp c <> 9).
    { intros H9. assert (Hc : ws c = true) by (apply Hok; left; exact H9). congruence. }
    destruct (N.eqb_spec (cp c) 9) as [|_]; [contradiction|].
    destruct (cw c) as [cwidth|] eqn:Ecw.
    + assert (Ecw0 : cw0 c = cwidth) by (unfold cw0; rewrite Ecw; reflexivity).
      rewrite swidth_cons, swidth_nil, Ecw0, N.add_0_r in *.
      cbn [is_pre].
      destruct (N.ltb_spec (wwidth b) (tlen_ (wline b) + wslen b + (wordlen b + cwidth)))
        as [Hbad|_]; [lia|].
      cbn [andb orb]. eexists. split; [reflexivity|].
      constructor; prjs; try assumption; try reflexivity.
      * lia.
      * apply tagged_push_merge, Htagw.
      * rewrite vw_push_merge, swidth_cons, swidth_nil, Ecw0. lia.
    + rewrite swidth_nil, N.add_0_r in *.
      eexists. split; [reflexivity|].
      constructor; prjs; assumption.
Qed.

Lemma q_step_nl c b col :
  QInv b col -> cp c = 10 -> ws c = true ->
  exists b', add_char WsPre t1 t2 (b, false) c = Ok (b', false) /\ QInv b' 0.
Proof.
  intros HI H10 Hws. unfold add_char. rewrite Hws. cbn [andb].
  destruct (q_preflush b col HI) as (b' & E & HI' & Hz & Htx).
  rewrite E. cbn [bind preserve_ws]. clear E HI.
  destruct HI' as [Hw Hpad Hpw Hcol Hfit Htagl Htagw Hvw Hst Htext].
  rewrite H10. cbn [N.eqb Pos.eqb]. unfold force_flush_line. rewrite Hpad. cbn [bind].
  eexists. split; [reflexivity|].
  constructor; prjs; try assumption; try reflexivity; try (cbn; lia).
  - constructor.
  - apply Forall_app. split; [exact Htext|]. constructor; [exact Htagl|constructor].
Qed.

Lemma q_sim : forall s b p,
  QInv b (swidth (expand p 0)) -> Forall chr_ok s ->
  Forall fitsW (split_lines_aux s (rev p)) ->
  exists b' col, add_chars WsPre t1 t2 (b, false) s = Ok (b', false) /\ QInv b' col.
Proof.
  induction s as [|c s IH]; intros b p HI Hok Hfits.
  - exists b, (swidth (expand p 0)). split; [reflexivity|exact HI].
  - inversion Hok as [|? ? Hc Hok']; subst.
    cbn [add_chars split_lines_aux] in *.
    destruct (N.eqb_spec (cp c) 10) as [H10|H10].
    + assert (Hws : ws c = true) by (apply Hc; right; exact H10).
      destruct (q_step_nl c b _ HI H10 Hws) as (b1 & E & HI1).
      rewrite E. cbn [bind].
      inversion Hfits as [|? ? _ Hfits']; subst.
      exact (IH b1 [] HI1 Hok' Hfits').
    + rewrite <- rev_unit in Hfits.
      pose proof (fits_head _ _ Hfits) as Hfit1.
      rewrite expand_app, swidth_app, N.add_0_l in Hfit1.
      destruct (q_step c b _ HI H10 Hc Hfit1) as (b1 & E & HI1).
      rewrite E. cbn [bind].
      apply (IH b1 (p ++ [c])); [|exact Hok'|exact Hfits].
      rewrite expand_app, swidth_app, N.add_0_l. exact HI1.
Qed.

Lemma q_final b col :
  QInv b col -> exists ls, wb_into_lines b = Ok ls /\ linesT ls.
Proof.
  intros HI.
  assert (H1 : exists b1, flush_word b WsNormal = Ok b1 /\ QInv b1 col).
  { destruct (word_is_empty (wword b)) eqn:Ee.
    - exists (set_word b (wword b) 0). unfold flush_word. rewrite Ee. split; [reflexivity|].
      pose proof (word_is_empty_vw _ Ee) as Hv0.
      destruct HI as [Hw Hpad Hpw Hcol Hfit Htagl Htagw Hvw Hst Htext].
      constructor; prjs; try assumption; lia.
    - destruct (q_flush WsNormal b col HI Ee) as (b1 & E & HI1 & _).
      exists b1. split; assumption. }
  destruct H1 as (b1 & E & HI1).
  unfold wb_into_lines, wb_flush. rewrite E. cbn [bind]. clear E HI.
  destruct HI1 as [Hw Hpad Hpw Hcol Hfit Htagl Htagw Hvw Hst Htext].
  unfold flush_line. destruct (tl_is_empty (wline b1)).
  - cbn [bind]. eexists. split; [reflexivity|exact Htext].
  - unfold force_flush_line. rewrite Hpad. cbn [bind]. prjs.
    eexists. split; [reflexivity|].
    apply Forall_app. split; [exact Htext|]. constructor; [exact Htagl|constructor].
Qed.

Lemma run_tags src :
  ctl_ws src -> Forall fitsW (split_lines src) ->
  exists b ls,
    wb_add_text (wb_new W false false) src WsPre t1 t2 = Ok b /\
    wb_into_lines b = Ok ls /\ linesT ls.
Proof.
  intros Hok Hfits.
  destruct (q_sim src (wb_new W false false) [] QInv_new Hok Hfits) as (b' & col & E & HI').
  destruct (q_final b' col HI') as (ls & Ef & HT).
  exists b', ls.
  split; [unfold wb_add_text; cbn [wb_new pre_wrapped]; rewrite E; reflexivity|].
  split; assumption.
Qed.

End Pre.

(* ------------------------------------------------------------------ *)
(* Part 7: the theorems *)

(* stronger, string-level form: each output line is a prefix of the expanded source line
   and what is missing are spaces *)
Theorem c12_verbatim_prefix : forall W src t1 t2,
  1 <= W -> ctl_ws src -> words_pos src -> fits W src ->
  exists ls, pre_lines W src t1 t2 = Ok ls /\
    Forall2 (fun out l => exists k, expand l 0 = out ++ repeat_chr (spacel L_space) k)
            ls (kept_lines src).
Proof.
  intros W src t1 t2 _ Hok Hwp Hfits.
  destruct (run_spec W t1 t2 src Hok Hwp Hfits) as (b & ls & E1 & E2 & HF).
  exists (map tl_string ls). unfold pre_lines. rewrite E1. cbn [bind]. rewrite E2. cbn [bind].
  split; [reflexivity|].
  clear E1 E2. induction HF as [|l p ls fin [Hk _] _ IH]; cbn [map]; constructor; assumption.
Qed.

Theorem c12_verbatim : forall W src t1 t2,
  1 <= W -> ctl_ws src -> words_pos src -> fits W src ->
  exists ls, pre_lines W src t1 t2 = Ok ls /\
    map rstrip ls = map (fun l => rstrip (expand l 0)) (kept_lines src).
Proof.
  intros W src t1 t2 _ Hok Hwp Hfits.
  destruct (run_spec W t1 t2 src Hok Hwp Hfits) as (b & ls & E1 & E2 & HF).
  exists (map tl_string ls). unfold pre_lines. rewrite E1. cbn [bind]. rewrite E2. cbn [bind].
  split; [reflexivity|]. exact (LineR_rstrip t1 ls _ HF).
Qed.

(* tags: needs neither `words_pos` nor a look at the strings *)
Theorem c12_fits_main_tag : forall W src t1 t2 b,
  1 <= W -> ctl_ws src -> fits W src ->
  wb_add_text (wb_new W false false) src WsPre t1 t2 = Ok b ->
  forall l ls, wb_into_lines b = Ok ls -> In l ls ->
  forall s t, In (Str s t) (tv l) -> t = t1.
Proof.
  intros W src t1 t2 b _ Hok Hfits Eb l ls Els Hin s t Hst.
  destruct (run_tags W t1 t2 src Hok Hfits) as (b0 & ls0 & E1 & E2 & HT).
  rewrite Eb in E1. injection E1 as <-. rewrite Els in E2. injection E2 as <-.
  unfold linesT in HT. rewrite Forall_forall in HT. specialize (HT l Hin).
  rewrite Forall_forall in HT. destruct (HT _ Hst) as [s' Es]. congruence.
Qed.

(* the number of output lines *)
Corollary c12_line_count : forall W src t1 t2 ls,
  1 <= W -> ctl_ws src -> words_pos src -> fits W src ->
  pre_lines W src t1 t2 = Ok ls -> length ls = length (kept_lines src).
Proof.
  intros W src t1 t2 ls HW Hok Hwp Hfits E.
  destruct (c12_verbatim W src t1 t2 HW Hok Hwp Hfits) as (ls0 & E0 & Hm).
  rewrite E in E0. injection E0 as <-.
  apply (f_equal (@length text)) in Hm. rewrite !map_length in Hm. exact Hm.
Qed.

(* every newline of the source accounts for exactly one output line; the piece after the
   last newline for one more iff it has something visible *)
Definition newlines (src : text) : nat := length (filter (fun c => cp c =? 10) src).

Lemma split_aux_length s : forall acc, length (split_lines_aux s acc) = S (newlines s).
Proof.
  unfold newlines. induction s as [|c s IH]; intros acc; cbn [split_lines_aux filter];
    [reflexivity|].
  destruct (cp c =? 10); cbn [length]; rewrite IH; reflexivity.
Qed.

Lemma kept_lines_length src :
  length (kept_lines src) =
  (newlines src + if existsb vis (last (split_lines src) []) then 1 else 0)%nat.
Proof.
  unfold kept_lines. cbv zeta.
  assert (HL : length (split_lines src) = S (newlines src)) by apply split_aux_length.
  destruct (existsb vis (last (split_lines src) [])); [lia|].
  assert (Hne : split_lines src <> []) by (intros E; rewrite E in HL; discriminate HL).
  pose proof (@app_removelast_last text (split_lines src) [] Hne) as E.
  apply (f_equal (@length text)) in E. rewrite app_length in E. cbn [length] in E. lia.
Qed.

Corollary c12_line_count_newlines : forall W src t1 t2 ls,
  1 <= W -> ctl_ws src -> words_pos src -> fits W src ->
  pre_lines W src t1 t2 = Ok ls ->
  length ls = (newlines src + if existsb vis (last (split_lines src) []) then 1 else 0)%nat.
Proof.
  intros W src t1 t2 ls HW Hok Hwp Hfits E.
  rewrite (c12_line_count W src t1 t2 ls HW Hok Hwp Hfits E). apply kept_lines_length.
Qed.

(* boolean forms of the hypotheses, for concrete sources *)
Lemma ctl_ws_dec src :
  forallb (fun c => implb ((cp c =? 9) || (cp c =? 10)) (ws c)) src = true -> ctl_ws src.
Proof.
  intros H. rewrite forallb_forall in H. apply Forall_forall. intros c Hc [E|E];
    specialize (H c Hc); rewrite E in H; cbn in H; exact H.
Qed.

Lemma words_pos_dec src :
  forallb (fun w => 1 <=? swidth w) (words_of src) = true -> words_pos src.
Proof.
  intros H w Hw. rewrite forallb_forall in H. specialize (H w Hw). lia.
Qed.

Lemma fits_dec W src :
  forallb (fun l => swidth (expand l 0) <=? W) (split_lines src) = true -> fits W src.
Proof.
  intros H. rewrite forallb_forall in H. apply Forall_forall. intros l Hl.
  specialize (H l Hl). lia.
Qed.

(* ------------------------------------------------------------------ *)
(* Part 8: examples *)

Definition ex_a := mkchr 97 (Some 1) false 16.
Definition ex_b := mkchr 98 (Some 1) false 17.
Definition ex_sp := mkchr 32 (Some 1) true 18.
Definition ex_nl := mkchr 10 None true 19.
Definition ex_tab := mkchr 9 None true 20.
Definition ex_wide := mkchr 20013 (Some 2) false 21.   (* width 2 *)
Definition ex_zw := mkchr 769 (Some 0) false 22.       (* combining mark, width 0 *)
Definition ex_ctl := mkchr 7 None false 23.            (* control character, no width *)
Definition ex_wsp := mkchr 12288 (Some 2) true 24.     (* ideographic space, width 2 *)
Definition ex_ctlws := mkchr 133 None true 25.         (* NEL: whitespace without width *)
Definition ex_t1 : tag := [APre false].
Definition ex_t2 : tag := [APre true].

(* four source lines: "  ab<TAB>a<zw>  ", "", " <wide><ctl>b<wsp>a ", "b<NEL>a" *)
Definition ex_src : text :=
  [ex_sp; ex_sp; ex_a; ex_b; ex_tab; ex_a; ex_zw; ex_sp; ex_sp; ex_nl;
   ex_nl;
   ex_sp; ex_wide; ex_ctl; ex_b; ex_wsp; ex_a; ex_sp; ex_nl;
   ex_b; ex_ctlws; ex_a].

Example c12_nonvacuous :
  exists ls, pre_lines 30 ex_src ex_t1 ex_t2 = Ok ls /\
    map rstrip ls = map (fun l => rstrip (expand l 0)) (kept_lines ex_src).
Proof.
  apply c12_verbatim.
  - lia.
  - apply ctl_ws_dec. vm_compute. reflexivity.
  - apply words_pos_dec. vm_compute. reflexivity.
  - apply fits_dec. vm_compute. reflexivity.
Qed.

Example c12_nonvacuous_value :
  let s := spacel L_space in
  pre_lines 30 ex_src ex_t1 ex_t2 =
    Ok [ [s; s; ex_a; ex_b; s; s; s; s; ex_a; ex_zw];
         [];
         [s; ex_wide; ex_b; s; s; ex_a];
         [ex_b; ex_a] ] /\
  map cps (kept_lines ex_src) =
    [ [32; 32; 97; 98; 9; 97; 769; 32; 32]; []; [32; 20013; 7; 98; 12288; 97; 32]; [98; 133; 97] ].
Proof. vm_compute. split; reflexivity. Qed.

(* boundary behaviour of the last line *)
Example c12_trailing_newline :      (* "a\n": one line, nothing for the empty rest *)
  pre_lines 30 [ex_a; ex_nl] ex_t1 ex_t2 = Ok [[ex_a]] /\ kept_lines [ex_a; ex_nl] = [[ex_a]].
Proof. vm_compute. split; reflexivity. Qed.
Example c12_blank_lines_kept :      (* "a\n\n  \nb": four lines, two of them blank *)
  pre_lines 30 [ex_a; ex_nl; ex_nl; ex_sp; ex_sp; ex_nl; ex_b] ex_t1 ex_t2
    = Ok [[ex_a]; []; []; [ex_b]].
Proof. vm_compute. reflexivity. Qed.
Example c12_final_spaces_dropped :  (* "a\n  ": the final spaces-only piece gives no line *)
  pre_lines 30 [ex_a; ex_nl; ex_sp; ex_sp] ex_t1 ex_t2 = Ok [[ex_a]] /\
  kept_lines [ex_a; ex_nl; ex_sp; ex_sp] = [[ex_a]].
Proof. vm_compute. split; reflexivity. Qed.
Example c12_final_tab_kept :        (* "a\n\t": the final tab-only piece gives a line of spaces *)
  pre_lines 30 [ex_a; ex_nl; ex_tab] ex_t1 ex_t2
    = Ok [[ex_a]; repeat_chr (spacel L_space) 8] /\
  kept_lines [ex_a; ex_nl; ex_tab] = [[ex_a]; [ex_tab]].
Proof. vm_compute. split; reflexivity. Qed.
Example c12_empty_source : pre_lines 30 [] ex_t1 ex_t2 = Ok [] /\ kept_lines [] = [].
Proof. vm_compute. split; reflexivity. Qed.

(* why `words_pos`: a zero-width word is not flushed by whitespace *)
Example cx_zero_width_word_slides :   (* "a <zw> b": the mark ends up behind the second space *)
  let src := [ex_a; ex_sp; ex_zw; ex_sp; ex_b] in
  ctl_ws src /\ fits 30 src /\
  pre_lines 30 src ex_t1 ex_t2 = Ok [[ex_a; spacel L_space; spacel L_space; ex_zw; ex_b]] /\
  map (fun l => rstrip (expand l 0)) (kept_lines src)
    = [[ex_a; spacel L_space; ex_zw; spacel L_space; ex_b]].
Proof.
  cbv zeta. split; [apply ctl_ws_dec; vm_compute; reflexivity|].
  split; [apply fits_dec; vm_compute; reflexivity|]. vm_compute. split; reflexivity.
Qed.
Example cx_zero_width_word_next_line :   (* "a <zw>\nb": the mark moves to the next line *)
  let src := [ex_a; ex_sp; ex_zw; ex_nl; ex_b] in
  ctl_ws src /\ fits 30 src /\
  pre_lines 30 src ex_t1 ex_t2 = Ok [[ex_a]; [ex_zw; ex_b]] /\
  map (fun l => rstrip (expand l 0)) (kept_lines src) = [[ex_a; spacel L_space; ex_zw]; [ex_b]].
Proof.
  cbv zeta. split; [apply ctl_ws_dec; vm_compute; reflexivity|].
  split; [apply fits_dec; vm_compute; reflexivity|]. vm_compute. split; reflexivity.
Qed.

(* why `ctl_ws`: the model recognises newline and tab only among whitespace characters *)
Definition ex_badnl := mkchr 10 None false 30.
Definition ex_badtab := mkchr 9 None false 31.
Example cx_newline_not_whitespace :
  let src := [ex_a; ex_badnl; ex_b] in
  words_pos src /\ fits 30 src /\
  pre_lines 30 src ex_t1 ex_t2 = Ok [[ex_a; ex_b]] /\
  map (fun l => rstrip (expand l 0)) (kept_lines src) = [[ex_a]; [ex_b]].
Proof.
  cbv zeta. split; [apply words_pos_dec; vm_compute; reflexivity|].
  split; [apply fits_dec; vm_compute; reflexivity|]. vm_compute. split; reflexivity.
Qed.
Example cx_tab_not_whitespace :
  let src := [ex_a; ex_badtab; ex_b] in
  words_pos src /\ fits 30 src /\
  pre_lines 30 src ex_t1 ex_t2 = Ok [[ex_a; ex_b]] /\
  map (fun l => rstrip (expand l 0)) (kept_lines src)
    = [[ex_a] ++ repeat_chr (spacel L_space) 7 ++ [ex_b]].
Proof.
  cbv zeta. split; [apply words_pos_dec; vm_compute; reflexivity|].
  split; [apply fits_dec; vm_compute; reflexivity|]. vm_compute. split; reflexivity.
Qed.
(* ... and then the continuation tag does appear although every source line fits *)
Example cx_newline_not_whitespace_tag :
  let src := [ex_a; ex_a; ex_a; ex_a; ex_badnl; ex_b; ex_b; ex_b; ex_b] in
  words_pos src /\ fits 4 src /\
  (do b <- wb_add_text (wb_new 4 false false) src WsPre ex_t1 ex_t2; wb_into_lines b)
    = Ok [ mktl [Str [ex_a; ex_a; ex_a; ex_a] ex_t1] 4;
           mktl [Str [ex_b; ex_b; ex_b; ex_b] ex_t2] 4 ].
Proof.
  cbv zeta. split; [apply words_pos_dec; vm_compute; reflexivity|].
  split; [apply fits_dec; vm_compute; reflexivity|]. vm_compute. reflexivity.
Qed.

Print Assumptions c12_verbatim.
Print Assumptions c12_verbatim_prefix.
Print Assumptions c12_fits_main_tag.
Print Assumptions c12_line_count.
Print Assumptions c12_line_count_newlines.
Print Assumptions c12_nonvacuous.
