(* Proofs/PreTags.v -- C12, last clause: the tags of a preformatted block that is cut.

   "... in rich output the first piece of every source line is tagged preformatted and the
   overflow pieces preformatted-continuation."

   Setting: a fresh WrappedBlock (any width W >= 1, overflow on or off, no padding), any sequence
   of `wb_add_text _ s_i WsPre t_i tw_i` calls (what the inline elements inside <pre> produce;
   t_i = main tag, tw_i = wrap tag), then `wb_into_lines` (`run_pre`).

   1. The reference (Part 1).  `expected_tags W [s_0; s_1; ...]` is a flat machine over marked
      characters: a mark (i, w) says "made by call i; w = continuation".  It never looks at tags.
      It keeps the line under construction, the pending spaces, the pending word, the sticky
      flag; its cut rule `r_hw` lays a word that does not fit out character by character.  Every
      emitted line carries a flag: true = first emitted line of its source line.

   2. Refinement (Parts 2-4), `pre_tags_refine` / `pre_tags_lines`:
        run_pre W ovf calls = Ok ls ->
        map line_tags ls = map (resolve calls . snd) (expected_tags W (texts of calls))
      i.e. line for line and character for character the model's output is the reference's, each
      mark (i, false) resolved to t_i and (i, true) to tw_i.  This fixes the tag of EVERY
      character of every output line.  Tags are compared after `norm_tag` (TaggedLine merges
      strings whose tags are `tag_eqb`-equal, which ignores the harness metadata of URL characters).
      Side condition `cut_regular`: no character wider than W, or no zero-width word character;
      needed because in the corner "zero-width character directly before an over-wide one" the
      model's cut depends on whether the two are in one string element, i.e. on tag equality,
      and because zero-width characters directly after an over-wide one stay on its line
      (`take_zw`), which the greedy reference does not do (cx_zero_width_then_wide).

   3. The rule, read off the reference (Parts 5-6); hypothesis `words_pos` (every word has a
      positive width: a zero-width word is not flushed by whitespace, PreProof) throughout:
      - `pre_cont_pieces`: on a continuation piece the main-tagged non-space characters form
        one run at the head of the piece (after spaces): `cont_shape`, `cont_shape_spec`.  This
        is the recorded class pre_moved_word_first_tag, stated exactly: the characters of a
        moved word that entered the word buffer before the overflow was detected keep the main
        tag; everything else on a continuation piece that is not a space is continuation-tagged.
        (Spaces can be main-tagged anywhere on a continuation piece: pending spaces keep the tag
        they were counted with, across a wrapping tab.)
      - `pre_first_pieces`: every character of a first piece is main-tagged, provided
        `first_ok`: no word character wider than W; before its first tab / word character a
        source line has fewer than W columns of spaces; the text after the last newline is blank.
        Each part is needed (the cx_first_needs examples): otherwise the first EMITTED piece carries
        continuation tags because a blank first piece was dropped (leading spaces that fill the
        width; or, at the end of the block, `flush` = flush_word(Normal) drops the pending
        spaces: "  aabbbb" at width 4 gives "aabb" tagged main,main,cont,cont as the only first
        piece), or an over-wide character stands alone on it.
      - `pre_one_word_lines`: if no word character follows whitespace on its source line (and
        none is wider than W) the rule holds without exception: word characters of first pieces
        main-tagged, all characters of continuation pieces continuation-tagged.  Leading
        whitespace already brings the exception back (cx_one_word_needs_shape).

   Examples: ex_cut (a cut line), ex_moved (a moved word), ex_two (two inline calls). *)
From H2T Require Import Base Tagged Wrap Spec.Pre Spec.Greedy.
From H2T.Proofs Require Import WrapInv Conserve PreProof.
From Coq Require Import Lia ZifyN ZifyBool ZifyNat.

Local Arguments N.add : simpl never.
Local Arguments N.sub : simpl never.
Local Arguments N.mul : simpl never.
Local Arguments N.div : simpl never.
Local Arguments N.modulo : simpl never.
Local Arguments N.leb : simpl never.
Local Arguments N.ltb : simpl never.
Local Arguments N.eqb : simpl never.
Local Arguments N.min : simpl never.
Local Arguments N.max : simpl never.
Local Arguments N.to_nat : simpl never.
Local Arguments N.of_nat : simpl never.
Local Open Scope N_scope.

(* ================================================================== *)
(* Part 1: the reference.  A flat machine over marked characters.      *)

(* a mark: (index of the add_text call that made the character, continuation?) *)
Definition mark : Type := (nat * bool)%type.
Definition tc : Type := (chr * mark)%type.

Definition lw (l : list tc) : N := swidth (map fst l).
Definition spc (n : N) (m : mark) : list tc := map (fun c => (c, m)) (spacesl L_space n).

Record rst : Type := mkr {
  r_out : list (bool * list tc);  (* emitted lines, oldest first; flag: first emitted line of its source line *)
  r_line : list tc;               (* line under construction *)
  r_nsp : N;                      (* pending spaces ... *)
  r_sp : option mark;             (* ... and their mark *)
  r_word : list tc;               (* pending word *)
  r_wrapped : bool;               (* the sticky continuation flag *)
  r_fresh : bool                  (* no line emitted yet for the current source line *)
}.

Definition r_init : rst := mkr [] [] 0 None [] false true.

Definition r_set_line (st : rst) (l : list tc) : rst :=
  mkr (r_out st) l (r_nsp st) (r_sp st) (r_word st) (r_wrapped st) (r_fresh st).
Definition r_set_space (st : rst) (sp : option mark) (n : N) : rst :=
  mkr (r_out st) (r_line st) n sp (r_word st) (r_wrapped st) (r_fresh st).
Definition r_set_word (st : rst) (w : list tc) : rst :=
  mkr (r_out st) (r_line st) (r_nsp st) (r_sp st) w (r_wrapped st) (r_fresh st).
Definition r_set_wrapped (st : rst) (b : bool) : rst :=
  mkr (r_out st) (r_line st) (r_nsp st) (r_sp st) (r_word st) b (r_fresh st).
Definition r_push (st : rst) (l : list tc) : rst := r_set_line st (r_line st ++ l).

(* the line under construction is emitted (even when blank) *)
Definition r_emit (st : rst) : rst :=
  mkr (r_out st ++ [(r_fresh st, r_line st)]) [] (r_nsp st) (r_sp st) (r_word st)
      (r_wrapped st) false.
(* ... only when it holds something *)
Definition r_flush_line (st : rst) : rst :=
  match r_line st with [] => st | _ => r_emit st end.

Section Ref.
Variable W : N.

(* the cut rule: a word that does not fit beside what is on the line is laid out
   character by character; a character that does not fit starts a new line; a character
   wider than a whole line stands alone on its line *)
Fixpoint r_hw (w : list tc) (st : rst) : rst :=
  match w with
  | [] => st
  | x :: w' =>
    if cw0 (fst x) <=? W - lw (r_line st) then r_hw w' (r_push st [x])
    else if lw (r_line st) =? 0 then r_hw w' (r_emit (r_push st [x]))
    else let st' := r_emit st in
         if cw0 (fst x) <=? W then r_hw w' (r_push st' [x])
         else r_hw w' (r_emit (r_push st' [x]))
  end.

(* pending spaces that did not fit on the line just emitted: whole lines of spaces, the
   remainder stays on the line *)
Fixpoint r_ws_loop (fuel : nat) (st : rst) : rst :=
  if r_nsp st =? 0 then st else
  match fuel with
  | O => st
  | S f =>
    let k := N.min (r_nsp st) W in
    match r_sp st with
    | None => st
    | Some m =>
      let st1 := r_push st (spc k m) in
      let st2 := if k =? W then r_flush_line st1 else st1 in
      r_ws_loop f (r_set_space st2 (r_sp st2) (r_nsp st2 - k))
    end
  end.

(* the pending spaces go onto the line in front of the word *)
Definition r_pend_fit (st : rst) : rst :=
  if 0 <? r_nsp st
  then match r_sp st with
       | Some m => r_set_space (r_push st (spc (r_nsp st) m)) None 0
       | None => st
       end
  else st.

(* the word does not fit: at a whitespace character of the source (pre = true) the spaces
   that would fill the rest of the line are dropped if there are that many, else all of them go
   onto the line; at the end of the block (pre = false) they are all dropped *)
Definition r_pend_nofit (pre : bool) (st : rst) : rst :=
  if pre
  then if W - lw (r_line st) <=? r_nsp st
       then r_set_space st (r_sp st) (r_nsp st - (W - lw (r_line st)))
       else r_pend_fit st
  else r_set_space st None 0.

(* ... then the line is emitted, left-over spaces fill whole lines, and the word is cut *)
Definition r_place (pre : bool) (st1 : rst) : rst :=
  let st2 := r_flush_line st1 in
  let st3 := if pre then r_set_wrapped st2 true else st2 in
  let st4 := r_ws_loop (S (N.to_nat (r_nsp st3))) st3 in
  let st5 := r_set_space st4 None (r_nsp st4) in
  r_hw (r_word st5) (r_set_word st5 []).

(* the pending word goes to the line(s).  pre = true: at a whitespace character of the
   source; pre = false: at the end of the block *)
Definition r_flush_word (pre : bool) (st : rst) : rst :=
  match r_word st with
  | [] => st
  | _ :: _ =>
    if r_nsp st + lw (r_word st) <=? W - lw (r_line st)
    then let st1 := r_pend_fit st in r_set_word (r_push st1 (r_word st1)) []
    else r_place pre (r_pend_nofit pre st)
  end.

(* a tab: spaces up to the next multiple of 8 (k = how many are still missing); when the
   width is reached first, the line is emitted and the tab ends there *)
Fixpoint r_tab_go (k : nat) (st : rst) (m : mark) (pos : N) : rst * bool :=
  match k with
  | O => (st, false)
  | S k' =>
    if W <=? pos then (r_flush_line st, true)
    else r_tab_go k' (r_push st [(spacel L_space, m)]) m (pos + 1)
  end.

Definition r_tab (st : rst) (m mw : mark) : rst * bool :=
  let pos := lw (r_line st) + r_nsp st in
  if W <=? pos
  then (fst (r_tab_go 8 (r_flush_line st) mw 0), true)
  else r_tab_go (N.to_nat (8 - pos mod 8)) st m pos.

(* one source character of call number i *)
Definition r_char (i : nat) (st : rst) (c : chr) : rst :=
  let st := if ws c && (0 <? lw (r_word st)) then r_flush_word true st else st in
  let m : mark := (i, r_wrapped st) in
  if ws c then
    if cp c =? 10 then
      let st1 := r_emit st in
      mkr (r_out st1) [] 0 None (r_word st1) false true
    else if cp c =? 9 then
      let r := r_tab st m (i, true) in
      if snd r then r_set_wrapped (fst r) true else fst r
    else
      match cw c with
      | None => st
      | Some w =>
        if W <? lw (r_line st) + r_nsp st + w
        then
          let st2 := r_flush_line (r_set_space st (r_sp st) 0) in
          r_set_wrapped (r_set_space st2 (Some (i, true)) (r_nsp st2 + w)) true
        else r_set_space st (Some m) (r_nsp st + w)
      end
  else
    match cw c with
    | None => st
    | Some w =>
      let sw := W <? lw (r_line st) + r_nsp st + (lw (r_word st) + w) in
      let wr := r_wrapped st || sw in
      r_set_word (r_set_wrapped st wr) (r_word st ++ [(c, (i, wr))])
    end.

Fixpoint r_chars (i : nat) (st : rst) (s : text) : rst :=
  match s with
  | [] => st
  | c :: s' => r_chars i (r_char i st c) s'
  end.

Fixpoint r_calls (i : nat) (st : rst) (texts : list text) : rst :=
  match texts with
  | [] => st
  | s :: texts' => r_calls (S i) (r_chars i st s) texts'
  end.

Definition r_finish (st : rst) : rst := r_flush_line (r_flush_word false st).

(* the reference: the marked lines for a sequence of add_text calls in Pre mode *)
Definition expected_tags (texts : list text) : list (bool * list tc) :=
  r_out (r_finish (r_calls 0 r_init texts)).

End Ref.


(* ------------------------------------------------------------------ *)
(* the model side: the characters of a tagged line with their tags.

   TaggedLine merges adjacent strings whose tags are equal under `tag_eqb`, and that test
   compares the URL of a link / image by code points only: two tags can be `tag_eqb`-equal
   without being equal terms (the URL characters may differ in the cw / ws / lab fields that
   the harness attaches).  Tags are therefore compared after `norm_tag`, which keeps only
   the code points of URLs; `norm_tag` is the identity on tags without links or images and
   `tag_eqb a b = true <-> norm_tag a = norm_tag b` (norm_tag_eqb, norm_tag_complete). *)

Definition canon_text (u : text) : text := map (fun c => mkchr (cp c) None false 0) u.
Definition norm_ann (a : ann) : ann :=
  match a with
  | ALink u => ALink (canon_text u)
  | AImage u => AImage (canon_text u)
  | x => x
  end.
Definition norm_tag (t : tag) : tag := map norm_ann t.

Definition tchars_el (e : elem) : list (chr * tag) :=
  match e with Str s t => map (fun c => (c, norm_tag t)) s | Frag _ => [] end.
Definition tchars (v : list elem) : list (chr * tag) := flat_map tchars_el v.
Definition line_tags (l : tline) : list (chr * tag) := tchars (tv l).

Definition pcall : Type := (text * tag * tag)%type.
Definition pcall_text (c : pcall) : text := fst (fst c).
Definition to_call (c : pcall) : call :=
  let '(s, t, tw) := c in CText s WsPre t tw.

(* the tag a mark stands for: the main or the wrap tag of its call *)
Definition tag_of (calls : list pcall) (m : mark) : tag :=
  match nth_error calls (fst m) with
  | Some (_, t, tw) => if snd m then tw else t
  | None => []
  end.
Definition resolve (calls : list pcall) (l : list tc) : list (chr * tag) :=
  map (fun x => (fst x, norm_tag (tag_of calls (snd x)))) l.

Definition run_pre (W : N) (ovf : bool) (calls : list pcall) : res (list tline) :=
  run W false ovf (map to_call calls).

(* ================================================================== *)
(* Part 2: marked characters of element vectors and tagged lines       *)

Ltac prjs :=
  cbn [wwidth wtext wline spacetag wword wordlen wslen pre_wrapped pad_blocks allow_overflow
       set_line set_text_line set_space set_word set_prew] in *.
Ltac rprj :=
  cbn [r_out r_line r_nsp r_sp r_word r_wrapped r_fresh
       r_set_line r_set_space r_set_word r_set_wrapped r_push r_emit] in *.

Lemma lN_eqb_eq : forall a b, lN_eqb a b = true -> a = b.
Proof.
  induction a as [|x a IH]; intros [|y b] H; cbn [lN_eqb] in H; try discriminate; [reflexivity|].
  apply andb_true_iff in H. destruct H as [H1 H2]. apply N.eqb_eq in H1. subst y.
  f_equal. apply IH, H2.
Qed.

Lemma canon_text_cps u : canon_text u = map (fun n => mkchr n None false 0) (cps u).
Proof. unfold canon_text, cps. rewrite map_map. reflexivity. Qed.

Lemma cps_canon_text u : cps (canon_text u) = cps u.
Proof. unfold canon_text, cps. rewrite map_map. apply map_ext. reflexivity. Qed.

Lemma norm_ann_eqb a b : ann_eqb a b = true -> norm_ann a = norm_ann b.
Proof.
  destruct a, b; cbn [ann_eqb norm_ann]; intros H; try discriminate; try reflexivity.
  - unfold text_eqb in H. apply lN_eqb_eq in H. rewrite !canon_text_cps, H. reflexivity.
  - unfold text_eqb in H. apply lN_eqb_eq in H. rewrite !canon_text_cps, H. reflexivity.
  - apply Bool.eqb_prop in H. subst. reflexivity.
  - apply andb_true_iff in H. destruct H as [H H3]. apply andb_true_iff in H. destruct H as [H1 H2].
    apply N.eqb_eq in H1, H2, H3. subst. reflexivity.
  - apply andb_true_iff in H. destruct H as [H H3]. apply andb_true_iff in H. destruct H as [H1 H2].
    apply N.eqb_eq in H1, H2, H3. subst. reflexivity.
Qed.

Lemma norm_tag_eqb : forall a b, tag_eqb a b = true -> norm_tag a = norm_tag b.
Proof.
  induction a as [|x a IH]; intros [|y b] H; cbn [tag_eqb] in H; try discriminate; [reflexivity|].
  apply andb_true_iff in H. destruct H as [H1 H2]. cbn [norm_tag map].
  rewrite (norm_ann_eqb _ _ H1). f_equal. apply IH, H2.
Qed.

(* nothing but the character metadata of URLs is forgotten *)
Lemma norm_ann_complete a b : norm_ann a = norm_ann b -> ann_eqb a b = true.
Proof.
  destruct a, b; cbn [norm_ann ann_eqb]; intros H; try discriminate; try reflexivity.
  - injection H as H. unfold text_eqb. rewrite <- (cps_canon_text url), H, cps_canon_text.
    apply PreProof.lN_eqb_refl.
  - injection H as H. unfold text_eqb. rewrite <- (cps_canon_text src), H, cps_canon_text.
    apply PreProof.lN_eqb_refl.
  - injection H as ->. apply Bool.eqb_reflx.
  - injection H as -> -> ->. rewrite !N.eqb_refl. reflexivity.
  - injection H as -> -> ->. rewrite !N.eqb_refl. reflexivity.
Qed.

Lemma norm_tag_complete : forall a b, norm_tag a = norm_tag b -> tag_eqb a b = true.
Proof.
  induction a as [|x a IH]; intros [|y b] H; cbn [norm_tag map] in H; try discriminate;
    [reflexivity|].
  injection H as H1 H2. cbn [tag_eqb]. rewrite (norm_ann_complete _ _ H1). apply IH, H2.
Qed.

Definition mk_tc (t : tag) (s : text) : list (chr * tag) := map (fun c => (c, norm_tag t)) s.

Lemma tchars_app a b : tchars (a ++ b) = tchars a ++ tchars b.
Proof. apply flat_map_app. Qed.

Lemma tchars_cons e v : tchars (e :: v) = tchars_el e ++ tchars v.
Proof. reflexivity. Qed.

Lemma tchars_push_merge v s t : tchars (v_push_merge v s t) = tchars v ++ mk_tc t s.
Proof.
  induction v as [|e v IH].
  - cbn [v_push_merge tchars flat_map tchars_el app]. apply app_nil_r.
  - destruct v as [|e' v].
    + cbn [v_push_merge]. destruct e as [s0 t0|n].
      * destruct (tag_eqb t0 t) eqn:E.
        -- cbn [tchars flat_map tchars_el app]. rewrite !app_nil_r.
           unfold mk_tc. rewrite map_app, (norm_tag_eqb _ _ E). reflexivity.
        -- cbn [tchars flat_map tchars_el app]. rewrite !app_nil_r. reflexivity.
      * cbn [tchars flat_map tchars_el app]. rewrite ?app_nil_r. reflexivity.
    + rewrite v_push_merge_cons2, !tchars_cons, IH, tchars_cons. apply app_assoc.
Qed.

Lemma map_fst_mk_tc t s : map fst (mk_tc t s) = s.
Proof. unfold mk_tc. rewrite map_map. cbn [fst]. apply map_id. Qed.

Lemma vw_tchars v : vw v = swidth (map fst (tchars v)).
Proof.
  induction v as [|e v IH]; [reflexivity|].
  rewrite vw_cons, tchars_cons, map_app, swidth_app, IH. f_equal.
  destruct e as [s t|n]; cbn [elem_text tchars_el]; [|reflexivity].
  fold (mk_tc t s). rewrite map_fst_mk_tc. reflexivity.
Qed.

(* no empty string element (TaggedLine never stores one; `is_empty` looks at elements) *)
Definition nes_el (e : elem) : Prop := match e with Str [] _ => False | _ => True end.
Definition nes (v : list elem) : Prop := Forall nes_el v.

Lemma nes_push_merge v s t : nes v -> s <> [] -> nes (v_push_merge v s t).
Proof.
  intros Hv Hs. induction v as [|e v IH].
  - cbn [v_push_merge]. constructor; [|constructor]. destruct s; [contradiction|exact I].
  - inversion Hv as [|? ? He Hv']; subst. destruct v as [|e' v].
    + cbn [v_push_merge]. destruct e as [s0 t0|n].
      * destruct (tag_eqb t0 t).
        -- constructor; [|constructor]. destruct s0; [contradiction|exact I].
        -- constructor; [exact He|]. constructor; [|constructor]. destruct s; [contradiction|exact I].
      * constructor; [exact I|]. constructor; [|constructor]. destruct s; [contradiction|exact I].
    + rewrite v_push_merge_cons2. constructor; [exact He|]. apply IH, Hv'.
Qed.

Lemma nes_content v : nes v -> existsb elem_has_content v = negb (match tchars v with [] => true | _ => false end).
Proof.
  induction v as [|e v IH]; intros H; [reflexivity|].
  inversion H as [|? ? He Hv]; subst. cbn [existsb]. rewrite tchars_cons.
  destruct e as [s t|n]; cbn [elem_has_content tchars_el orb].
  - destruct s as [|c s]; [contradiction|]. reflexivity.
  - cbn [app]. apply IH, Hv.
Qed.

Lemma nes_is_empty l : nes (tv l) ->
  tl_is_empty l = match line_tags l with [] => true | _ => false end.
Proof.
  intros H. unfold tl_is_empty, line_tags. rewrite (nes_content _ H).
  destruct (tchars (tv l)); reflexivity.
Qed.

Lemma nes_word_is_empty v : nes v ->
  word_is_empty v = match tchars v with [] => true | _ => false end.
Proof.
  intros H. unfold word_is_empty. rewrite (nes_content _ H). destruct (tchars v); reflexivity.
Qed.

(* the TaggedLine operations *)
Lemma lt_push_str l s t : line_tags (tl_push_str l s t) = line_tags l ++ mk_tc t s.
Proof.
  destruct s as [|c s]; cbn [tl_push_str]; [symmetry; apply app_nil_r|].
  unfold line_tags. cbn [tv]. apply tchars_push_merge.
Qed.
Lemma nes_push_str l s t : nes (tv l) -> nes (tv (tl_push_str l s t)).
Proof.
  intros H. destruct s as [|c s]; cbn [tl_push_str]; [exact H|].
  cbn [tv]. apply nes_push_merge; [exact H|discriminate].
Qed.
Lemma lt_push_char l c t : line_tags (tl_push_char l c t) = line_tags l ++ [(c, norm_tag t)].
Proof. unfold line_tags, tl_push_char. cbn [tv]. apply tchars_push_merge. Qed.
Lemma nes_push_char l c t : nes (tv l) -> nes (tv (tl_push_char l c t)).
Proof. intros H. unfold tl_push_char. cbn [tv]. apply nes_push_merge; [exact H|discriminate]. Qed.
Lemma lt_push l e : line_tags (tl_push l e) = line_tags l ++ tchars_el e.
Proof.
  destruct e as [s t|n]; cbn [tl_push tchars_el].
  - apply lt_push_str.
  - unfold line_tags. cbn [tv]. rewrite tchars_app. reflexivity.
Qed.
Lemma nes_push l e : nes (tv l) -> nes (tv (tl_push l e)).
Proof.
  intros H. destruct e as [s t|n]; cbn [tl_push]; [apply nes_push_str, H|].
  cbn [tv]. apply Forall_app. split; [exact H|]. constructor; [exact I|constructor].
Qed.
Lemma lt_fold_push els : forall l, line_tags (fold_left tl_push els l) = line_tags l ++ tchars els.
Proof.
  induction els as [|e els IH]; intros l; cbn [fold_left].
  - symmetry. apply app_nil_r.
  - rewrite IH, lt_push, tchars_cons, app_assoc. reflexivity.
Qed.
Lemma nes_fold_push els : forall l, nes (tv l) -> nes (tv (fold_left tl_push els l)).
Proof.
  induction els as [|e els IH]; intros l H; cbn [fold_left]; [exact H|]. apply IH, nes_push, H.
Qed.

(* ================================================================== *)
(* Part 3: the refinement relation and the primitive steps             *)

Section Refine.
Variable W : N.
Hypothesis HW : 1 <= W.
Variable tg : mark -> tag.

Definition rs (l : list tc) : list (chr * tag) :=
  map (fun x => (fst x, norm_tag (tg (snd x)))) l.

Lemma map_fst_rs l : map fst (rs l) = map fst l.
Proof. unfold rs. rewrite map_map. reflexivity. Qed.
Lemma rs_app a b : rs (a ++ b) = rs a ++ rs b.
Proof. apply map_app. Qed.
Lemma rs_nil_iff l : rs l = [] <-> l = [].
Proof. destruct l; cbn; split; intros H; try reflexivity; discriminate. Qed.
Lemma rs_spc n m : rs (spc n m) = mk_tc (tg m) (spacesl L_space n).
Proof. unfold rs, spc, mk_tc. rewrite map_map. reflexivity. Qed.
Lemma lw_app a b : lw (a ++ b) = lw a + lw b.
Proof. unfold lw. rewrite map_app, swidth_app. reflexivity. Qed.
Lemma lw_nil : lw [] = 0.
Proof. reflexivity. Qed.
Lemma lw_spc n m : lw (spc n m) = n.
Proof. unfold lw, spc. rewrite map_map. cbn [fst]. rewrite map_id. apply swidth_spacesl. Qed.
Lemma lw_rs l l' : rs l = l' -> lw l = swidth (map fst l').
Proof. intros <-. rewrite map_fst_rs. reflexivity. Qed.
Lemma lw_one c m : lw [(c, m)] = cw0 c.
Proof. unfold lw. cbn [map fst]. rewrite swidth_cons, swidth_nil. lia. Qed.

(* the lines *)
Record LR (b : wblock) (r : rst) : Prop := mkLR {
  L_w : wwidth b = W;
  L_pad : pad_blocks b = false;
  L_out : map line_tags (wtext b) = map (fun x => rs (snd x)) (r_out r);
  L_line : line_tags (wline b) = rs (r_line r);
  L_nes : nes (tv (wline b));
  L_tlen : tlen_ (wline b) = lw (r_line r)
}.
(* pending spaces and the flag *)
Record SR (b : wblock) (r : rst) : Prop := mkSR {
  S_nsp : wslen b = r_nsp r;
  S_sp : spacetag b = option_map tg (r_sp r);
  S_pw : pre_wrapped b = r_wrapped r
}.
(* the pending word *)
Record WR (b : wblock) (r : rst) : Prop := mkWR {
  W_word : tchars (wword b) = rs (r_word r);
  W_nes : nes (wword b);
  W_wl : wordlen b = lw (r_word r)
}.

Lemma LR_frame b r b' r' :
  LR b r -> wwidth b' = wwidth b -> pad_blocks b' = pad_blocks b ->
  wtext b' = wtext b -> wline b' = wline b -> r_out r' = r_out r -> r_line r' = r_line r ->
  LR b' r'.
Proof.
  intros [A B C D E F] H1 H2 H3 H4 H5 H6.
  constructor; rewrite ?H1, ?H2, ?H3, ?H4, ?H5, ?H6; assumption.
Qed.

Lemma LR_set_line b r ln l :
  LR b r -> line_tags ln = rs l -> nes (tv ln) -> tlen_ ln = lw l ->
  LR (set_line b ln) (r_set_line r l).
Proof. intros [A B C D E F] H1 H2 H3. constructor; prjs; rprj; assumption. Qed.

Lemma LR_push_str b r s t l :
  LR b r -> rs l = mk_tc t s ->
  LR (set_line b (tl_push_str (wline b) s t)) (r_push r l).
Proof.
  intros HL Hl. unfold r_push. apply LR_set_line; [exact HL| | |].
  - rewrite lt_push_str, rs_app, (L_line _ _ HL), Hl. reflexivity.
  - apply nes_push_str, (L_nes _ _ HL).
  - rewrite tlen_push_str, lw_app, (L_tlen _ _ HL), (lw_rs _ _ Hl), map_fst_mk_tc. reflexivity.
Qed.

Lemma LR_push_Str b r s t l :
  LR b r -> rs l = mk_tc t s ->
  LR (set_line b (tl_push (wline b) (Str s t))) (r_push r l).
Proof. exact (LR_push_str b r s t l). Qed.

Lemma LR_push_char b r c m :
  LR b r ->
  LR (set_line b (tl_push_char (wline b) c (tg m))) (r_push r [(c, m)]).
Proof.
  intros HL. unfold r_push. apply LR_set_line; [exact HL| | |].
  - rewrite lt_push_char, rs_app, (L_line _ _ HL). reflexivity.
  - apply nes_push_char, (L_nes _ _ HL).
  - rewrite tlen_push_char, lw_app, (L_tlen _ _ HL), lw_one. reflexivity.
Qed.

Lemma LR_emit b r :
  LR b r -> LR (set_text_line b (wtext b ++ [wline b]) tl_new) (r_emit r).
Proof.
  intros [A B C D E F]. constructor; prjs; rprj; try assumption.
  - rewrite !map_app, C. cbn [map snd]. rewrite D. reflexivity.
  - reflexivity.
  - constructor.
  - reflexivity.
Qed.

Lemma ffl_eq b :
  pad_blocks b = false ->
  force_flush_line b = Ok (set_text_line b (wtext b ++ [wline b]) tl_new).
Proof. intros H. unfold force_flush_line. rewrite H. reflexivity. Qed.

Lemma LR_is_empty b r :
  LR b r -> tl_is_empty (wline b) = match r_line r with [] => true | _ => false end.
Proof.
  intros HL. rewrite (nes_is_empty _ (L_nes _ _ HL)), (L_line _ _ HL).
  destruct (r_line r); reflexivity.
Qed.

Lemma fl_eq b r :
  LR b r ->
  flush_line b = Ok (match r_line r with
                     | [] => b
                     | _ => set_text_line b (wtext b ++ [wline b]) tl_new
                     end).
Proof.
  intros HL. unfold flush_line. rewrite (LR_is_empty _ _ HL), (ffl_eq _ (L_pad _ _ HL)).
  destruct (r_line r); reflexivity.
Qed.

Lemma LR_flush_line b r :
  LR b r ->
  LR (match r_line r with
      | [] => b
      | _ => set_text_line b (wtext b ++ [wline b]) tl_new
      end) (r_flush_line r).
Proof.
  intros HL. unfold r_flush_line. destruct (r_line r) eqn:E; [exact HL|].
  apply LR_emit, HL.
Qed.

(* what the line operations leave alone *)
Definition lines_only (b b' : wblock) : Prop :=
  spacetag b' = spacetag b /\ wslen b' = wslen b /\ wword b' = wword b /\
  wordlen b' = wordlen b /\ pre_wrapped b' = pre_wrapped b /\ allow_overflow b' = allow_overflow b.
Definition rlines_only (r r' : rst) : Prop :=
  r_nsp r' = r_nsp r /\ r_sp r' = r_sp r /\ r_word r' = r_word r /\ r_wrapped r' = r_wrapped r.

Lemma lines_only_refl b : lines_only b b.
Proof. unfold lines_only; auto 7. Qed.
Lemma lines_only_trans a b c : lines_only a b -> lines_only b c -> lines_only a c.
Proof. unfold lines_only. intuition congruence. Qed.
Lemma rlines_only_refl r : rlines_only r r.
Proof. unfold rlines_only; auto. Qed.
Lemma rlines_only_trans a b c : rlines_only a b -> rlines_only b c -> rlines_only a c.
Proof. unfold rlines_only. intuition congruence. Qed.

Lemma SR_lines b r b' r' : SR b r -> lines_only b b' -> rlines_only r r' -> SR b' r'.
Proof.
  intros [A B C] (h1 & h2 & h3 & h4 & h5 & h6) (g1 & g2 & g3 & g4).
  constructor; congruence.
Qed.
Lemma WR_lines b r b' r' : WR b r -> lines_only b b' -> rlines_only r r' -> WR b' r'.
Proof.
  intros [A B C] (h1 & h2 & h3 & h4 & h5 & h6) (g1 & g2 & g3 & g4).
  constructor; congruence.
Qed.

Lemma flush_line_lines_only b r :
  lines_only b (match r_line r with
                | [] => b
                | _ => set_text_line b (wtext b ++ [wline b]) tl_new
                end).
Proof. destruct (r_line r); unfold lines_only; prjs; auto 7. Qed.
Lemma r_flush_line_only r : rlines_only r (r_flush_line r).
Proof. unfold r_flush_line, rlines_only. destruct (r_line r); rprj; auto. Qed.
Lemma r_emit_only r : rlines_only r (r_emit r).
Proof. unfold rlines_only. rprj. auto. Qed.
Lemma r_push_only r l : rlines_only r (r_push r l).
Proof. unfold rlines_only. rprj. auto. Qed.

Ltac open_rel :=
  repeat match goal with
  | H : LR _ _ |- _ => destruct H
  | H : SR _ _ |- _ => destruct H
  | H : WR _ _ |- _ => destruct H
  end.
Ltac frame := open_rel; constructor; prjs; rprj; try assumption; try congruence; try reflexivity.

(* ---- the whitespace loop of flush_word ---- *)
Lemma ws_loop_ref : forall fuel b r b',
  ws_loop fuel b = Ok b' -> LR b r -> SR b r ->
  LR b' (r_ws_loop W fuel r) /\ SR b' (r_ws_loop W fuel r) /\
  wword b' = wword b /\ wordlen b' = wordlen b /\ allow_overflow b' = allow_overflow b /\
  r_word (r_ws_loop W fuel r) = r_word r /\ r_wrapped (r_ws_loop W fuel r) = r_wrapped r.
Proof.
  induction fuel as [|f IH]; intros b r b' H HL HS.
  - cbn [ws_loop r_ws_loop] in *. rewrite (S_nsp _ _ HS) in H.
    destruct (r_nsp r =? 0); [|discriminate H]. injection H as <-. auto 8.
  - cbn [ws_loop r_ws_loop] in *. rewrite (S_nsp _ _ HS) in H.
    destruct (r_nsp r =? 0) eqn:Ez; [injection H as <-; auto 8|].
    rewrite (L_w _ _ HL) in H.
    destruct (N.eqb_spec W 0) as [|_]; [lia|].
    rewrite (S_sp _ _ HS) in H.
    destruct (r_sp r) as [m|] eqn:Esp; cbn [option_map] in H; [|discriminate H].
    set (k := N.min (r_nsp r) W) in *.
    assert (HL1 : LR (set_line b (tl_push_wsl L_space (wline b) k (tg m))) (r_push r (spc k m))).
    { unfold tl_push_wsl. apply LR_push_str; [exact HL|apply rs_spc]. }
    assert (HS1 : SR (set_line b (tl_push_wsl L_space (wline b) k (tg m))) (r_push r (spc k m))).
    { frame. }
    destruct (k =? W).
    + rewrite (fl_eq _ _ HL1) in H. cbn [bind] in H.
      pose proof (LR_flush_line _ _ HL1) as HL2.
      pose proof (flush_line_lines_only (set_line b (tl_push_wsl L_space (wline b) k (tg m)))
                    (r_push r (spc k m))) as Hlo.
      pose proof (r_flush_line_only (r_push r (spc k m))) as Hro.
      pose proof (SR_lines _ _ _ _ HS1 Hlo Hro) as HS2.
      match type of H with ws_loop f ?bb = _ => set (b2 := bb) in * end.
      match goal with |- context [r_ws_loop W f ?rr] => set (r2 := rr) in * end.
      destruct (IH b2 r2 b' H) as (A1 & A2 & A3 & A4 & A5 & A6 & A7).
      { subst b2 r2. eapply LR_frame; [exact HL2|reflexivity..]. }
      { subst b2 r2. destruct HS2 as [B1 B2 B3]. constructor; prjs; rprj.
        - rewrite B1. reflexivity.
        - exact B2.
        - exact B3. }
      split; [exact A1|]. split; [exact A2|].
      destruct Hlo as (h1 & h2 & h3 & h4 & h5 & h6). destruct Hro as (g1 & g2 & g3 & g4).
      subst b2 r2. prjs. rprj.
      repeat split; congruence.
    + cbn [bind] in H.
      match type of H with ws_loop f ?bb = _ => set (b2 := bb) in * end.
      match goal with |- context [r_ws_loop W f ?rr] => set (r2 := rr) in * end.
      destruct (IH b2 r2 b' H) as (A1 & A2 & A3 & A4 & A5 & A6 & A7).
      { subst b2 r2. eapply LR_frame; [exact HL1|reflexivity..]. }
      { subst b2 r2. destruct HS1 as [B1 B2 B3]. constructor; prjs; rprj.
        - rewrite B1. reflexivity.
        - exact B2.
        - exact B3. }
      subst b2 r2. prjs. rprj. split; [exact A1|]. split; [exact A2|]. repeat split; congruence.
Qed.

(* ---- the tab loop ---- *)
Local Ltac Zify.zify_post_hook ::= Z.to_euclidean_division_equations.

Definition tabk (pos : N) : nat := N.to_nat ((8 - pos mod 8) mod 8).

Lemma tabk_zero pos : pos mod 8 = 0 -> tabk pos = 0%nat.
Proof. unfold tabk. lia. Qed.
Lemma tabk_succ pos : pos mod 8 <> 0 -> tabk pos = S (tabk (pos + 1)).
Proof. unfold tabk. lia. Qed.
Lemma tabk_first pos : N.to_nat (8 - pos mod 8) = S (tabk (pos + 1)).
Proof. unfold tabk. lia. Qed.

Local Ltac Zify.zify_post_hook ::= idtac.

Lemma r_tab_go_only : forall k r m pos, rlines_only r (fst (r_tab_go W k r m pos)).
Proof.
  induction k as [|k IH]; intros r m pos; cbn [r_tab_go].
  - apply rlines_only_refl.
  - destruct (W <=? pos); cbn [fst].
    + apply r_flush_line_only.
    + eapply rlines_only_trans; [apply (r_push_only r [(spacel L_space, m)])|apply IH].
Qed.

Lemma tab_true_ref t tw m : tg m = t -> forall f b r pos fl b' fl',
  tab_loop f b t tw pos true fl = Ok (b', fl') -> LR b r ->
  LR b' (fst (r_tab_go W (tabk pos) r m pos)) /\ lines_only b b' /\
  fl' = (fl || snd (r_tab_go W (tabk pos) r m pos)).
Proof.
  intros Htg. induction f as [|f IH]; intros b r pos fl b' fl' H HL.
  - cbn [tab_loop] in H. destruct (N.eqb_spec (pos mod 8) 0) as [Ez|Enz]; cbn [negb orb] in H;
      [|discriminate H].
    injection H as <- <-. rewrite (tabk_zero _ Ez). cbn [r_tab_go fst snd].
    rewrite orb_false_r. split; [exact HL|]. split; [apply lines_only_refl|reflexivity].
  - cbn [tab_loop] in H. destruct (N.eqb_spec (pos mod 8) 0) as [Ez|Enz]; cbn [negb orb] in H.
    + injection H as <- <-. rewrite (tabk_zero _ Ez). cbn [r_tab_go fst snd].
      rewrite orb_false_r. split; [exact HL|]. split; [apply lines_only_refl|reflexivity].
    + rewrite (tabk_succ _ Enz). cbn [r_tab_go].
      rewrite (L_w _ _ HL) in H.
      destruct (N.eqb_spec W 0) as [|_]; [lia|].
      destruct (W <=? pos).
      * rewrite (fl_eq _ _ HL) in H. cbn [bind] in H. rewrite tab_loop_0_true in H.
        injection H as <- <-. cbn [fst snd]. rewrite orb_true_r.
        split; [apply LR_flush_line, HL|]. split; [apply flush_line_lines_only|reflexivity].
      * apply IH with (r := r_push r [(spacel L_space, m)]) in H.
        -- destruct H as (A & B & C). split; [exact A|]. split; [|exact C].
           eapply lines_only_trans; [|exact B]. unfold lines_only. prjs. auto 7.
        -- rewrite <- Htg. apply LR_push_char, HL.
Qed.

Lemma tab_false_ref t tw m mw : tg m = t -> tg mw = tw -> forall f b r pos b' fl',
  tab_loop f b t tw pos false false = Ok (b', fl') -> LR b r ->
  pos = lw (r_line r) + r_nsp r ->
  LR b' (fst (r_tab W r m mw)) /\ lines_only b b' /\ fl' = snd (r_tab W r m mw).
Proof.
  intros Htg Htw f b r pos b' fl' H HL Hpos.
  destruct f as [|f]; cbn [tab_loop] in H; rewrite orb_true_r in H; [discriminate H|].
  rewrite (L_w _ _ HL) in H. destruct (N.eqb_spec W 0) as [|_]; [lia|].
  unfold r_tab. rewrite <- Hpos.
  destruct (W <=? pos) eqn:Ewp.
  - rewrite (fl_eq _ _ HL) in H. cbn [bind] in H.
    pose proof (LR_flush_line _ _ HL) as HL1.
    pose proof (flush_line_lines_only b r) as Hlo.
    set (b1 := match r_line r with [] => b | _ => _ end) in *.
    destruct f as [|f]; cbn [tab_loop] in H; rewrite orb_true_r in H; [discriminate H|].
    rewrite (L_w _ _ HL1) in H. destruct (N.eqb_spec W 0) as [|_]; [lia|].
    destruct (N.leb_spec W 0) as [|_]; [lia|].
    change 8%nat with (S 7). cbn [r_tab_go].
    destruct (N.leb_spec W 0) as [|_]; [lia|].
    apply (tab_true_ref tw tw mw Htw) with (r := r_push (r_flush_line r) [(spacel L_space, mw)]) in H.
    + destruct H as (A & B & C). cbn [fst snd].
      change (tabk (0 + 1)) with 7%nat in A. split; [exact A|]. split; [|rewrite C; reflexivity].
      eapply lines_only_trans; [exact Hlo|]. eapply lines_only_trans; [|exact B].
      unfold lines_only. prjs. auto 7.
    + rewrite <- Htw. apply LR_push_char, HL1.
  - rewrite tabk_first. cbn [r_tab_go]. rewrite Ewp.
    apply (tab_true_ref t tw m Htg) with (r := r_push r [(spacel L_space, m)]) in H.
    + destruct H as (A & B & C). split; [exact A|]. split; [|rewrite C; reflexivity].
      eapply lines_only_trans; [|exact B]. unfold lines_only. prjs. auto 7.
    + rewrite <- Htg. apply LR_push_char, HL.
Qed.

(* ---- the hard wrap ---- *)

(* Side condition of the refinement.  The model's cut depends on the element structure of the
   word in one corner: a zero-width character directly followed by a character wider than the
   whole line; and zero-width characters directly after such a character stay with it, unlike
   in the reference (see cx_zero_width_then_wide).  Both are excluded by either of: no character
   is wider than the line (big = false), or no word character has width zero (big = true). *)
Variable big : bool.
Definition okc (c : chr) : Prop := if big then 1 <= cw0 c else cw0 c <= W.
Definition lok (l : list tc) : Prop := Forall (fun x => okc (fst x)) l.

Lemma okc_space : okc (spacel L_space).
Proof. unfold okc. destruct big; cbn; lia. Qed.

Lemma lok_spc n m : lok (spc n m).
Proof.
  unfold lok, spc, spacesl. induction (N.to_nat n) as [|k IH]; cbn [repeat_chr map]; constructor.
  - apply okc_space.
  - exact IH.
Qed.

Lemma lw_zero_big l : big = true -> lok l -> lw l = 0 -> l = [].
Proof.
  intros Hb Hl Hz. destruct l as [|x l]; [reflexivity|].
  inversion Hl as [|? ? Hx _]; subst. unfold okc in Hx. rewrite Hb in Hx.
  unfold lw in Hz. cbn [map] in Hz. rewrite swidth_cons in Hz. lia.
Qed.

Lemma r_push_push r a b : r_push (r_push r a) b = r_push r (a ++ b).
Proof. unfold r_push. rprj. rewrite app_assoc. reflexivity. Qed.

Lemma r_hw_app_fits : forall pre rest r,
  lw pre <= W - lw (r_line r) -> r_hw W (pre ++ rest) r = r_hw W rest (r_push r pre).
Proof.
  induction pre as [|x pre IH]; intros rest r H.
  - cbn [app]. unfold r_push. rewrite app_nil_r. destruct r; reflexivity.
  - cbn [app r_hw]. change (x :: pre) with ([x] ++ pre) in H. rewrite lw_app in H.
    destruct x as [c m]. rewrite lw_one in H. cbn [fst].
    destruct (N.leb_spec (cw0 c) (W - lw (r_line r))) as [_|Hbad]; [|lia].
    rewrite IH.
    + rewrite r_push_push. reflexivity.
    + rprj. rewrite lw_app, lw_one. lia.
Qed.

Lemma r_hw_fits seg r : lw seg <= W - lw (r_line r) -> r_hw W seg r = r_push r seg.
Proof.
  intros H. rewrite <- (app_nil_r seg) at 1. rewrite (r_hw_app_fits seg [] r H). reflexivity.
Qed.

Lemma r_hw_retry x w' r :
  lw (r_line r) <> 0 -> W - lw (r_line r) < cw0 (fst x) ->
  r_hw W (x :: w') r = r_hw W (x :: w') (r_emit r).
Proof.
  intros Hnz Hnf. cbn [r_hw].
  destruct (N.leb_spec (cw0 (fst x)) (W - lw (r_line r))) as [|_]; [lia|].
  destruct (N.eqb_spec (lw (r_line r)) 0) as [|_]; [contradiction|].
  cbv zeta. rprj. rewrite lw_nil, N.sub_0_r. change (0 =? 0) with true.
  destruct (cw0 (fst x) <=? W); reflexivity.
Qed.

Lemma r_hw_only : forall w r, rlines_only r (r_hw W w r).
Proof.
  induction w as [|x w IH]; intros r; cbn [r_hw]; [apply rlines_only_refl|].
  destruct (cw0 (fst x) <=? W - lw (r_line r)).
  - eapply rlines_only_trans; [apply (r_push_only r [x])|apply IH].
  - destruct (lw (r_line r) =? 0).
    + eapply rlines_only_trans; [|apply IH].
      eapply rlines_only_trans; [apply (r_push_only r [x])|apply r_emit_only].
    + cbv zeta. destruct (cw0 (fst x) <=? W).
      * eapply rlines_only_trans; [|apply IH].
        eapply rlines_only_trans; [apply r_emit_only|apply (r_push_only _ [x])].
      * eapply rlines_only_trans; [|apply IH].
        eapply rlines_only_trans; [apply r_emit_only|].
        eapply rlines_only_trans; [apply (r_push_only _ [x])|apply r_emit_only].
Qed.

Lemma r_hw_lok : forall w r, lok w -> lok (r_line r) -> lok (r_line (r_hw W w r)).
Proof.
  induction w as [|x w IH]; intros r Hw Hl; cbn [r_hw]; [exact Hl|].
  inversion Hw as [|? ? Hx Hw']; subst.
  assert (H1 : lok [x]) by (constructor; [exact Hx|constructor]).
  destruct (cw0 (fst x) <=? W - lw (r_line r)).
  - apply IH; [exact Hw'|]. rprj. apply Forall_app. split; assumption.
  - destruct (lw (r_line r) =? 0).
    + apply IH; [exact Hw'|]. rprj. constructor.
    + cbv zeta. destruct (cw0 (fst x) <=? W).
      * apply IH; [exact Hw'|]. rprj. exact H1.
      * apply IH; [exact Hw'|]. rprj. constructor.
Qed.

(* what hw_scan returns: the longest prefix that fits, or one over-wide character (with the
   zero-width characters that follow it) *)
Lemma scan_fw ovf line0 : tlen_ line0 = tl_width_raw line0 ->
  forall s first tr ll wpos taken ll' wpos',
  hw_scan ovf line0 first s tr ll wpos = Ok (taken, ll', wpos') ->
  (first = true -> tr = []) -> ll < swidth s ->
  exists pre x rest', s = pre ++ x :: rest' /\ swidth pre <= ll /\ ll - swidth pre < cw0 x /\
    ((taken = rev tr ++ pre /\ wpos' = wpos + swidth pre /\
      (first = true -> pre = [] -> tl_width_raw line0 <> 0)) \/
     (first = true /\ pre = [] /\ taken = x :: take_zw rest' /\ wpos' = wpos + cw0 x /\
      tl_width_raw line0 = 0)).
Proof.
  intros Hl0. induction s as [|c s IH]; intros first tr ll wpos taken ll' wpos' H Hf Hlt.
  - rewrite swidth_nil in Hlt. lia.
  - cbn [hw_scan] in H. destruct (cw c) as [c_w|] eqn:Ecw; [|discriminate H].
    assert (Hc0 : cw0 c = c_w) by (unfold cw0; rewrite Ecw; reflexivity).
    rewrite swidth_cons in Hlt.
    destruct (N.leb_spec c_w ll) as [Hfit|Hnofit].
    + apply IH in H; [|discriminate|lia].
      destruct H as (pre & x & rest' & E1 & E2 & E3 & E4).
      exists (c :: pre), x, rest'. rewrite swidth_cons. subst s.
      split; [reflexivity|]. split; [lia|]. split; [lia|].
      destruct E4 as [(A & B & C)|(A & _)]; [|discriminate A]. left.
      split; [rewrite A; cbn [rev]; rewrite <- app_assoc; reflexivity|].
      split; [lia|]. intros _ E. discriminate E.
    + exists [], c, s. rewrite swidth_nil. split; [reflexivity|]. split; [lia|]. split; [lia|].
      destruct first.
      * rewrite (Hf eq_refl) in *. rewrite (tl_width_ok _ Hl0) in H. cbn [bind] in H.
        destruct (N.eqb_spec (tl_width_raw line0) 0) as [Ez|Enz].
        -- destruct ovf; [|discriminate H]. injection H as <- <- <-. right.
           repeat split; auto. lia.
        -- injection H as <- <- <-. left. cbn [rev app]. repeat split; auto. lia.
      * injection H as <- <- <-. left. rewrite app_nil_r. split; [reflexivity|].
        split; [lia|]. intros E. discriminate E.
Qed.

(* under the side condition no zero-width character follows an over-wide one inside a word *)
Lemma take_zw_big s : big = true -> Forall okc s -> take_zw s = [].
Proof.
  intros Hb Hs. destruct s as [|c s]; [reflexivity|].
  inversion Hs as [|? ? Hc _]; subst. unfold okc in Hc. rewrite Hb in Hc. unfold cw0 in Hc.
  cbn [take_zw]. destruct (cw c) as [[|p]|]; [lia|reflexivity|reflexivity].
Qed.

Lemma rs_split seg t a b :
  rs seg = mk_tc t (a ++ b) ->
  exists sa sb, seg = sa ++ sb /\ rs sa = mk_tc t a /\ rs sb = mk_tc t b.
Proof.
  unfold mk_tc, rs. rewrite map_app. intros H. apply map_eq_app in H.
  destruct H as (sa & sb & E1 & E2 & E3). exists sa, sb. auto.
Qed.

Lemma rs_split1 seg t c b :
  rs seg = mk_tc t (c :: b) ->
  exists m sb, seg = (c, m) :: sb /\ norm_tag (tg m) = norm_tag t /\ rs sb = mk_tc t b.
Proof.
  unfold mk_tc, rs. cbn [map]. intros H. apply map_eq_cons in H.
  destruct H as ([c' m] & sb & E1 & E2 & E3). cbn [fst snd] in E2. injection E2 as -> E2.
  exists m, sb. auto.
Qed.

Lemma lok_rs seg t s : rs seg = mk_tc t s -> Forall okc s -> lok seg.
Proof.
  intros H Hs. unfold lok. apply (f_equal (map fst)) in H.
  rewrite map_fst_rs, map_fst_mk_tc in H. rewrite <- H in Hs.
  rewrite Forall_map in Hs. exact Hs.
Qed.

Lemma usub_inv site a b x : usub site a b = Ok x -> b <= a /\ x = a - b.
Proof.
  unfold usub. destruct (N.leb_spec b a) as [Hle|Hgt]; intros E; [|discriminate E].
  injection E as <-. auto.
Qed.

Lemma hw_piece_ref t w : forall fuel b r rest seg consumed ll wpos b' ll',
  hw_piece fuel b t w rest consumed ll wpos = Ok (b', ll') ->
  LR b r -> rs seg = mk_tc t rest ->
  ll = W - lw (r_line r) -> lw (r_line r) <= W ->
  wpos + swidth rest = w -> (consumed = false -> wpos = 0) ->
  lok (r_line r) -> Forall okc rest ->
  LR b' (r_hw W seg r) /\ lines_only b b' /\
  ll' = W - lw (r_line (r_hw W seg r)) /\ lw (r_line (r_hw W seg r)) <= W.
Proof.
  induction fuel as [|f IH];
    intros b r rest seg consumed ll wpos b' ll' H HL Hseg Hll HlW Hsum Hcons Hlok Hrest;
    cbn [hw_piece] in H; [discriminate H|].
  bd H rem Hrem. apply usub_inv in Hrem. destruct Hrem as [Hr1 Hr2].
  assert (Erem : rem = swidth rest) by lia. clear Hr2.
  assert (Hraw : tlen_ (wline b) = tl_width_raw (wline b)).
  { rewrite raw_eq, vw_tchars. fold (line_tags (wline b)).
    rewrite (L_line _ _ HL), map_fst_rs. exact (L_tlen _ _ HL). }
  assert (Hrawlw : tl_width_raw (wline b) = lw (r_line r)).
  { rewrite <- Hraw. exact (L_tlen _ _ HL). }
  destruct (N.ltb_spec ll rem) as [Hlt|Hge].
  - bd H sc Hsc. destruct sc as [[taken x0] wpos']. cbv zeta in H.
    apply (scan_fw _ _ Hraw) in Hsc; [|reflexivity|lia].
    destruct Hsc as (pre & x & rest' & Es & Hp1 & Hp2 & Hcase).
    subst rest. destruct (rs_split _ _ _ _ Hseg) as (spre & srest & -> & Hspre & Hsrest).
    destruct (rs_split1 _ _ _ _ Hsrest) as (mx & srest' & -> & Hmx & Hsrest').
    assert (Hwpre : lw spre = swidth pre).
    { rewrite (lw_rs _ _ Hspre), map_fst_mk_tc. reflexivity. }
    apply Forall_app in Hrest. destruct Hrest as [Hokpre Hokx].
    inversion Hokx as [|? ? Hx Hokrest]; subst.
    assert (Hlokpre : lok spre) by (eapply lok_rs; eassumption).
    rewrite ffl_eq in H by (prjs; exact (L_pad _ _ HL)). cbn [bind] in H. prjs.
    destruct Hcase as [(Etaken & Ewpos & Hfirst)|(_ & Epre & Etaken & Ewpos & Hz)].
    + (* the prefix that fits is pushed, the line emitted *)
      cbn [rev app] in Etaken. subst taken. rewrite skipn_length_app in H.
      rewrite r_hw_app_fits by lia.
      assert (Hnz : lw (r_line (r_push r spre)) <> 0).
      { rprj. rewrite lw_app. intros Hz0.
        destruct big eqn:Eb.
        - assert (E : r_line r ++ spre = []).
          { apply (lw_zero_big _ Eb); [apply Forall_app; split; assumption|].
            rewrite lw_app. exact Hz0. }
          apply app_eq_nil in E. destruct E as [E1 E2]. subst spre.
          destruct pre; [|discriminate Hspre].
          apply (Hfirst eq_refl eq_refl). rewrite Hrawlw, E1. reflexivity.
        - unfold okc in Hx. rewrite Eb in Hx. lia. }
      rewrite r_hw_retry; [|exact Hnz|rprj; rewrite lw_app; cbn [fst]; lia].
      apply IH with (r := r_emit (r_push r spre)) (seg := (x, mx) :: srest') in H.
      * destruct H as (A & B & C & D). split; [exact A|]. split; [|split; [exact C|exact D]].
        eapply lines_only_trans; [|exact B]. unfold lines_only. prjs. auto 7.
      * match goal with |- LR (set_text_line ?bb _ _) _ =>
          change (LR (set_text_line (set_line b (tl_push (wline b) (Str pre t)))
                        (wtext (set_line b (tl_push (wline b) (Str pre t))) ++
                         [wline (set_line b (tl_push (wline b) (Str pre t)))]) tl_new)
                     (r_emit (r_push r spre))) end.
        apply LR_emit. apply LR_push_Str; assumption.
      * exact Hsrest.
      * rprj. rewrite lw_nil, (L_w _ _ HL). lia.
      * rprj. rewrite lw_nil. lia.
      * rewrite ?swidth_app, ?swidth_cons, ?swidth_nil in *. lia.
      * intros Hc. apply orb_false_iff in Hc. destruct Hc as [Hc1 Hc2].
        destruct pre; [|discriminate Hc2]. rewrite swidth_nil in Ewpos. rewrite (Hcons Hc1) in Ewpos. lia.
      * rprj. constructor.
      * constructor; assumption.
    + (* an over-wide character alone on an empty-width line *)
      assert (Hzw : take_zw rest' = []).
      { destruct big eqn:Eb; [apply take_zw_big; [exact Eb|exact Hokrest]|].
        exfalso. unfold okc in Hx. rewrite Eb in Hx. subst pre. rewrite swidth_nil in Hp2. lia. }
      rewrite Hzw in Etaken.
      subst pre taken. cbn [app length skipn] in *. destruct spre; [|discriminate Hspre].
      cbn [app]. cbn [r_hw fst].
      rewrite swidth_nil in *.
      destruct (N.leb_spec (cw0 x) (W - lw (r_line r))) as [|_]; [lia|].
      rewrite <- Hrawlw, Hz. change (0 =? 0) with true.
      apply IH with (r := r_emit (r_push r [(x, mx)])) (seg := srest') in H.
      * destruct H as (A & B & C & D). split; [exact A|]. split; [|split; [exact C|exact D]].
        eapply lines_only_trans; [|exact B]. unfold lines_only. prjs. auto 7.
      * match goal with |- LR (set_text_line ?bb _ _) _ =>
          change (LR (set_text_line (set_line b (tl_push (wline b) (Str [x] t)))
                        (wtext (set_line b (tl_push (wline b) (Str [x] t))) ++
                         [wline (set_line b (tl_push (wline b) (Str [x] t)))]) tl_new)
                     (r_emit (r_push r [(x, mx)]))) end.
        apply LR_emit. apply LR_push_Str; [exact HL|].
        unfold rs, mk_tc. cbn [map fst snd]. rewrite Hmx. reflexivity.
      * exact Hsrest'.
      * rprj. rewrite lw_nil, (L_w _ _ HL). lia.
      * rprj. rewrite lw_nil. lia.
      * rewrite ?swidth_app, ?swidth_cons, ?swidth_nil in *. lia.
      * rewrite orb_true_r. discriminate.
      * rprj. constructor.
      * exact Hokrest.
  - (* everything that is left fits *)
    assert (Hwseg : lw seg = swidth rest).
    { rewrite (lw_rs _ _ Hseg), map_fst_mk_tc. reflexivity. }
    rewrite r_hw_fits by lia.
    destruct consumed; cbn [negb] in H.
    + destruct rest as [|c rest].
      * injection H as <- <-. destruct seg; [|discriminate Hseg].
        unfold r_push. rewrite app_nil_r.
        replace (r_set_line r (r_line r)) with r by (destruct r; reflexivity).
        split; [exact HL|]. split; [apply lines_only_refl|]. split; [exact Hll|exact HlW].
      * bd H l1 Hl1. apply usub_inv in Hl1. destruct Hl1 as [Hl1 Hl2].
        injection H as <- <-.
        split; [exact (LR_push_Str b r (c :: rest) t seg HL Hseg)|].
        split; [unfold lines_only; prjs; auto 7|].
        rprj. rewrite lw_app. lia.
    + bd H l1 Hl1. apply usub_inv in Hl1. destruct Hl1 as [Hl1 Hl2].
      injection H as <- <-.
      split; [exact (LR_push_Str b r rest t seg HL Hseg)|].
      split; [unfold lines_only; prjs; auto 7|].
      rprj. rewrite lw_app. specialize (Hcons eq_refl). lia.
Qed.

Lemma r_hw_app : forall a b r, r_hw W (a ++ b) r = r_hw W b (r_hw W a r).
Proof.
  induction a as [|x a IH]; intros b r; cbn [app r_hw]; [reflexivity|].
  destruct (cw0 (fst x) <=? W - lw (r_line r)); [apply IH|].
  destruct (lw (r_line r) =? 0); [apply IH|].
  cbv zeta. destruct (cw0 (fst x) <=? W); apply IH.
Qed.

Lemma lok_fst seg t s : rs seg = mk_tc t s -> lok seg -> Forall okc s.
Proof.
  intros H Hs. unfold lok in Hs. apply (f_equal (map fst)) in H.
  rewrite map_fst_rs, map_fst_mk_tc in H. rewrite <- H. rewrite Forall_map. exact Hs.
Qed.

Lemma hw_elems_ref : forall els b r segs ll b',
  hw_elems b els ll = Ok b' -> LR b r -> rs segs = tchars els ->
  ll = W - lw (r_line r) -> lw (r_line r) <= W -> lok (r_line r) -> lok segs ->
  LR b' (r_hw W segs r) /\ lines_only b b' /\ lw (r_line (r_hw W segs r)) <= W.
Proof.
  induction els as [|e els IH]; intros b r segs ll b' H HL Hsegs Hll HlW Hlok Hlsegs;
    cbn [hw_elems] in H.
  - injection H as <-. destruct segs; [|discriminate Hsegs]. cbn [r_hw].
    split; [exact HL|]. split; [apply lines_only_refl|exact HlW].
  - destruct e as [s t|n].
    + bd H p Hp. destruct p as [b1 ll1].
      rewrite tchars_cons in Hsegs. cbn [tchars_el] in Hsegs. fold (mk_tc t s) in Hsegs.
      unfold rs in Hsegs. apply map_eq_app in Hsegs.
      destruct Hsegs as (seg & segs' & -> & Hseg & Hsegs'). fold (rs seg) in Hseg. fold (rs segs') in Hsegs'.
      apply Forall_app in Hlsegs. destruct Hlsegs as [Hls1 Hls2].
      apply (hw_piece_ref t (swidth s)) with (r := r) (seg := seg) in Hp;
        try assumption; try reflexivity; [|eapply lok_fst; eassumption].
      destruct Hp as (A & B & C & D).
      rewrite r_hw_app.
      apply IH with (r := r_hw W seg r) (segs := segs') in H; try assumption.
      * destruct H as (A' & B' & D'). split; [exact A'|]. split; [|exact D'].
        eapply lines_only_trans; eassumption.
      * apply r_hw_lok; assumption.
    + rewrite tchars_cons in Hsegs. cbn [tchars_el app] in Hsegs.
      assert (HL1 : LR (set_line b (tl_push (wline b) (Frag n))) r).
      { destruct HL as [A B C D E F]. constructor; prjs; try assumption.
        - rewrite lt_push. cbn [tchars_el]. rewrite app_nil_r. exact D.
        - apply nes_push, E. }
      apply IH with (r := r) (segs := segs) in H; assumption.
Qed.

Lemma fwhw_ref b r b' :
  flush_word_hard_wrap b = Ok b' -> LR b r -> tchars (wword b) = rs (r_word r) ->
  lok (r_line r) -> lok (r_word r) ->
  LR b' (r_hw W (r_word r) (r_set_word r [])) /\
  spacetag b' = spacetag b /\ wslen b' = wslen b /\ wword b' = [] /\
  pre_wrapped b' = pre_wrapped b /\ allow_overflow b' = allow_overflow b.
Proof.
  unfold flush_word_hard_wrap. intros H HL Hw Hlok Hlw.
  bd H ll Hll. apply usub_inv in Hll. destruct Hll as [Hl1 Hl2]. cbv zeta in H.
  rewrite (L_w _ _ HL), (L_tlen _ _ HL) in Hl1, Hl2.
  apply hw_elems_ref with (r := r_set_word r []) (segs := r_word r) in H; rprj; try assumption.
  - destruct H as (A & (h1 & h2 & h3 & h4 & h5 & h6) & D). prjs. auto 7.
  - eapply LR_frame; [exact HL|reflexivity..].
  - prjs. symmetry. exact Hw.
Qed.

(* ---- flush_word ---- *)

Lemma r_flush_line_lok r : lok (r_line r) -> lok (r_line (r_flush_line r)).
Proof. unfold r_flush_line. destruct (r_line r) eqn:E; rprj; [rewrite E; auto|constructor]. Qed.

Lemma r_ws_loop_lok : forall fuel r, lok (r_line r) -> lok (r_line (r_ws_loop W fuel r)).
Proof.
  induction fuel as [|f IH]; intros r H; cbn [r_ws_loop]; destruct (r_nsp r =? 0); try exact H.
  destruct (r_sp r) as [m|]; [|exact H].
  apply IH. rprj.
  assert (H1 : lok (r_line r ++ spc (N.min (r_nsp r) W) m)).
  { apply Forall_app. split; [exact H|apply lok_spc]. }
  destruct (N.min (r_nsp r) W =? W); [|exact H1].
  apply (r_flush_line_lok (r_push r (spc (N.min (r_nsp r) W) m))). exact H1.
Qed.

Lemma WR_empty b r : WR b r ->
  word_is_empty (wword b) = match r_word r with [] => true | _ => false end.
Proof.
  intros [A B C]. rewrite (nes_word_is_empty _ B), A. destruct (r_word r); reflexivity.
Qed.

Definition mode_pre (m : wsmode) (pre : bool) : Prop :=
  (m = WsPre /\ pre = true) \/ (m = WsNormal /\ pre = false).

Lemma flush_word_ref m pre b r b' :
  mode_pre m pre ->
  flush_word b m = Ok b' -> LR b r -> SR b r -> WR b r -> lok (r_line r) -> lok (r_word r) ->
  LR b' (r_flush_word W pre r) /\ SR b' (r_flush_word W pre r) /\ WR b' (r_flush_word W pre r) /\
  allow_overflow b' = allow_overflow b.
Proof.
  intros Hm H HL HS HW' Hlok Hlokw. unfold flush_word in H.
  unfold r_flush_word, r_place, r_pend_nofit, r_pend_fit.
  rewrite (WR_empty _ _ HW') in H.
  destruct (r_word r) as [|x0 w0] eqn:Ew.
  - injection H as <-. split; [frame|]. split; [frame|]. split; [|reflexivity].
    destruct HW' as [A B C]. constructor; prjs; try assumption. rewrite Ew. reflexivity.
  - rewrite <- Ew in *. cbv zeta in H.
    bd H sil Hsil. apply usub_inv in Hsil. destruct Hsil as [Hs1 Hs2].
    rewrite (L_w _ _ HL), (L_tlen _ _ HL) in Hs1, Hs2. subst sil.
    rewrite (S_nsp _ _ HS), (W_wl _ _ HW') in H.
    destruct (r_nsp r + lw (r_word r) <=? W - lw (r_line r)) eqn:Efit.
    + (* fits *)
      bd H b1 Hb1.
      assert (H1 : LR b1 (if 0 <? r_nsp r
                          then match r_sp r with
                               | Some m0 => r_set_space (r_push r (spc (r_nsp r) m0)) None 0
                               | None => r
                               end
                          else r) /\
                   SR b1 (if 0 <? r_nsp r
                          then match r_sp r with
                               | Some m0 => r_set_space (r_push r (spc (r_nsp r) m0)) None 0
                               | None => r
                               end
                          else r) /\ wword b1 = wword b /\ allow_overflow b1 = allow_overflow b).
      { rewrite ?(S_nsp _ _ HS) in Hb1. destruct (0 <? r_nsp r).
        - rewrite (S_sp _ _ HS) in Hb1. destruct (r_sp r) as [m0|]; cbn [option_map] in Hb1;
            [|discriminate Hb1].
          injection Hb1 as <-. prjs.
          pose proof (LR_push_Str b r (spacesl L_space (r_nsp r)) (tg m0) (spc (r_nsp r) m0) HL
                        (rs_spc _ _)) as HL1.
          split; [eapply LR_frame; [exact HL1|reflexivity..]|].
          split; [|auto]. destruct HS as [A B C]. constructor; prjs; rprj; auto.
        - injection Hb1 as <-. auto. }
      destruct H1 as (HL1 & HS1 & Hw1 & Ho1).
      set (r1 := if 0 <? r_nsp r then _ else r) in *.
      assert (Ew1 : r_word r1 = r_word r).
      { subst r1. destruct (0 <? r_nsp r); [|reflexivity]. destruct (r_sp r); reflexivity. }
      injection H as <-. rewrite Hw1. rewrite Ew1.
      split; [|split; [|split]].
      * destruct HL1 as [A B C D E F]. constructor; prjs; rprj; try assumption.
        -- rewrite lt_fold_push, rs_app, D, (W_word _ _ HW'). reflexivity.
        -- apply nes_fold_push, E.
        -- rewrite tlen_fold_push, lw_app, F, vw_tchars, (W_word _ _ HW'), map_fst_rs. reflexivity.
      * destruct HS1 as [A B C]. constructor; prjs; rprj; assumption.
      * constructor; prjs; rprj; [reflexivity|constructor|reflexivity].
      * prjs. exact Ho1.
    + (* does not fit *)
      bd H b1 Hb1.
      set (r1 := if pre then
                   if W - lw (r_line r) <=? r_nsp r
                   then r_set_space r (r_sp r) (r_nsp r - (W - lw (r_line r)))
                   else if 0 <? r_nsp r
                        then match r_sp r with
                             | Some m0 => r_set_space (r_push r (spc (r_nsp r) m0)) None 0
                             | None => r
                             end
                        else r
                 else r_set_space r None 0) in *.
      assert (H1 : LR b1 r1 /\ SR b1 r1 /\ wword b1 = wword b /\
                   allow_overflow b1 = allow_overflow b /\ r_word r1 = r_word r /\
                   lok (r_line r1)).
      { subst r1. rewrite ?(S_nsp _ _ HS) in Hb1.
        destruct Hm as [[-> ->]|[-> ->]]; cbn [do_wrap negb] in Hb1.
        - destruct (W - lw (r_line r) <=? r_nsp r).
          + injection Hb1 as <-. split; [frame|]. split; [frame|]. auto.
          + destruct (0 <? r_nsp r).
            * rewrite (S_sp _ _ HS) in Hb1. destruct (r_sp r) as [m0|]; cbn [option_map] in Hb1;
                [|discriminate Hb1].
              injection Hb1 as <-. prjs.
              pose proof (LR_push_str b r (spacesl L_space (r_nsp r)) (tg m0) (spc (r_nsp r) m0) HL
                            (rs_spc _ _)) as HL1.
              split; [eapply LR_frame; [exact HL1|reflexivity..]|].
              split; [destruct HS as [A B C]; constructor; prjs; rprj; auto|].
              rprj. repeat split; auto. apply Forall_app. split; [exact Hlok|apply lok_spc].
            * injection Hb1 as <-. auto 7.
        - injection Hb1 as <-. split; [frame|]. split; [frame|]. auto. }
      destruct H1 as (HL1 & HS1 & Hw1 & Ho1 & Ew1 & Hlok1).
      rewrite (fl_eq _ _ HL1) in H. cbn [bind] in H.
      pose proof (LR_flush_line _ _ HL1) as HL2.
      pose proof (flush_line_lines_only b1 r1) as Hlo2.
      pose proof (r_flush_line_only r1) as Hro2.
      pose proof (SR_lines _ _ _ _ HS1 Hlo2 Hro2) as HS2.
      pose proof (r_flush_line_lok _ Hlok1) as Hlok2.
      set (b2 := match r_line r1 with [] => b1 | _ => _ end) in *.
      set (r2 := r_flush_line r1) in *.
      cbv zeta in H.
      set (b3 := if is_pre m then set_prew b2 true else b2) in *.
      set (r3 := if pre then r_set_wrapped r2 true else r2).
      assert (H3 : LR b3 r3 /\ SR b3 r3 /\ wword b3 = wword b2 /\ allow_overflow b3 = allow_overflow b2 /\
                   r_word r3 = r_word r2 /\ lok (r_line r3)).
      { subst b3 r3. destruct Hm as [[-> ->]|[-> ->]]; cbn [is_pre].
        - split; [frame|]. split; [frame|]. auto.
        - auto 7. }
      destruct H3 as (HL3 & HS3 & Hw3 & Ho3 & Ew3 & Hlok3).
      bd H b4 Hb4. rewrite (S_nsp _ _ HS3) in Hb4.
      apply ws_loop_ref with (r := r3) in Hb4; [|exact HL3|exact HS3].
      destruct Hb4 as (HL4 & HS4 & Hw4 & Hwl4 & Ho4 & Ew4 & Ewr4).
      set (r4 := r_ws_loop W (S (N.to_nat (r_nsp r3))) r3) in *.
      bd H b6 Hb6.
      assert (Hwchain : wword b4 = wword b).
      { rewrite Hw4, Hw3. destruct Hlo2 as (_ & _ & h3 & _). rewrite h3. exact Hw1. }
      assert (Ewchain : r_word r4 = r_word r).
      { rewrite Ew4, Ew3. destruct Hro2 as (_ & _ & g3 & _). rewrite g3. exact Ew1. }
      apply fwhw_ref with (r := r_set_space r4 None (r_nsp r4)) in Hb6.
      * destruct Hb6 as (HL6 & h1 & h2 & h3 & h4 & h5). prjs. rprj.
        injection H as <-.
        pose proof (r_hw_only (r_word r4) (r_set_word (r_set_space r4 None (r_nsp r4)) []))
          as (g1 & g2 & g3 & g4). rprj.
        split; [eapply LR_frame; [exact HL6|reflexivity..]|].
        split; [|split].
        -- destruct HS4 as [A B C]. constructor; prjs.
           ++ rewrite h2, g1. exact A.
           ++ rewrite h1, g2. reflexivity.
           ++ rewrite h4, g4. exact C.
        -- constructor; prjs.
           ++ rewrite h3, g3. reflexivity.
           ++ rewrite h3. constructor.
           ++ rewrite g3. reflexivity.
        -- prjs. rewrite h5, Ho4, Ho3. destruct Hlo2 as (_ & _ & _ & _ & _ & h6). rewrite h6. exact Ho1.
      * eapply LR_frame; [exact HL4|reflexivity..].
      * prjs. rprj. rewrite Hwchain, Ewchain. exact (W_word _ _ HW').
      * rprj. apply r_ws_loop_lok, Hlok3.
      * rprj. rewrite Ewchain. exact Hlokw.
Qed.

(* ---- reference-side invariant needed by the refinement ---- *)

Record J (r : rst) : Prop := mkJ {
  J_lok : lok (r_line r);
  J_lokw : lok (r_word r);
  (* a pending word that no longer fits has already set the sticky flag *)
  J_K : r_word r <> [] -> W < lw (r_line r) + r_nsp r + lw (r_word r) -> r_wrapped r = true
}.

Lemma J_init : J r_init.
Proof. constructor; cbn; try constructor. intros H. contradiction. Qed.

Lemma r_ws_loop_keep : forall fuel r,
  r_word (r_ws_loop W fuel r) = r_word r /\ r_wrapped (r_ws_loop W fuel r) = r_wrapped r /\
  r_sp (r_ws_loop W fuel r) = r_sp r.
Proof.
  induction fuel as [|f IH]; intros r; cbn [r_ws_loop]; destruct (r_nsp r =? 0); auto.
  destruct (r_sp r) as [m|] eqn:Esp; auto.
  match goal with |- context [r_ws_loop W f ?x] => destruct (IH x) as (A & B & C) end.
  rewrite A, B, C. rprj.
  destruct (N.min (r_nsp r) W =? W).
  - pose proof (r_flush_line_only (r_push r (spc (N.min (r_nsp r) W) m))) as (g1 & g2 & g3 & g4).
    rprj. rewrite g2, g3, g4. auto.
  - rprj. auto.
Qed.

Lemma r_pend_fit_keep r :
  r_word (r_pend_fit r) = r_word r /\ r_wrapped (r_pend_fit r) = r_wrapped r.
Proof. unfold r_pend_fit. destruct (0 <? r_nsp r); [destruct (r_sp r)|]; rprj; auto. Qed.
Lemma r_pend_fit_lok r : lok (r_line r) -> lok (r_line (r_pend_fit r)).
Proof.
  intros H. unfold r_pend_fit. destruct (0 <? r_nsp r); [destruct (r_sp r)|]; rprj; auto.
  apply Forall_app. split; [exact H|apply lok_spc].
Qed.
Lemma r_pend_nofit_keep pre r :
  r_word (r_pend_nofit W pre r) = r_word r /\ r_wrapped (r_pend_nofit W pre r) = r_wrapped r.
Proof.
  unfold r_pend_nofit. destruct pre; [|rprj; auto].
  destruct (W - lw (r_line r) <=? r_nsp r); [rprj; auto|apply r_pend_fit_keep].
Qed.
Lemma r_pend_nofit_lok pre r : lok (r_line r) -> lok (r_line (r_pend_nofit W pre r)).
Proof.
  intros H. unfold r_pend_nofit. destruct pre; [|rprj; auto].
  destruct (W - lw (r_line r) <=? r_nsp r); [rprj; auto|apply r_pend_fit_lok, H].
Qed.

Lemma r_place_word pre r : r_word (r_place W pre r) = [].
Proof.
  unfold r_place. cbv zeta.
  match goal with |- r_word (r_hw W ?w ?x) = _ => destruct (r_hw_only w x) as (_ & _ & g3 & _) end.
  rewrite g3. reflexivity.
Qed.

Lemma r_place_wrapped pre r :
  r_wrapped (r_place W pre r) = if pre then true else r_wrapped r.
Proof.
  unfold r_place. cbv zeta.
  match goal with |- r_wrapped (r_hw W ?w ?x) = _ => destruct (r_hw_only w x) as (_ & _ & _ & g4) end.
  rewrite g4. rprj.
  match goal with |- r_wrapped (r_ws_loop W ?f ?x) = _ =>
    destruct (r_ws_loop_keep f x) as (_ & B & _) end.
  rewrite B. destruct (r_flush_line_only r) as (_ & _ & _ & g4').
  destruct pre; rprj; [reflexivity|exact g4'].
Qed.

Lemma r_place_lok pre r :
  lok (r_line r) -> lok (r_word r) -> lok (r_line (r_place W pre r)).
Proof.
  intros Hl Hw. unfold r_place. cbv zeta. apply r_hw_lok.
  - rprj.
    match goal with |- lok (r_word (r_ws_loop W ?f ?x)) =>
      destruct (r_ws_loop_keep f x) as (A & _ & _) end.
    rewrite A. destruct (r_flush_line_only r) as (_ & _ & g3 & _).
    destruct pre; rprj; rewrite g3; exact Hw.
  - rprj. apply r_ws_loop_lok. destruct pre; rprj; apply r_flush_line_lok, Hl.
Qed.

Lemma r_flush_word_word pre r : r_word (r_flush_word W pre r) = [].
Proof.
  unfold r_flush_word. destruct (r_word r) as [|x0 w0] eqn:Ew; [exact Ew|]. rewrite <- Ew.
  destruct (r_nsp r + lw (r_word r) <=? W - lw (r_line r)); [reflexivity|apply r_place_word].
Qed.

Lemma r_flush_word_lok pre r : J r -> lok (r_line (r_flush_word W pre r)).
Proof.
  intros [Hl Hw _]. unfold r_flush_word. destruct (r_word r) as [|x0 w0] eqn:Ew; [exact Hl|].
  rewrite <- Ew in *.
  destruct (r_nsp r + lw (r_word r) <=? W - lw (r_line r)).
  - cbv zeta. rprj. apply Forall_app. split; [apply r_pend_fit_lok, Hl|].
    destruct (r_pend_fit_keep r) as [A _]. rewrite A. exact Hw.
  - apply r_place_lok.
    + apply r_pend_nofit_lok, Hl.
    + destruct (r_pend_nofit_keep pre r) as [A _]. rewrite A. exact Hw.
Qed.

Lemma r_flush_word_wrapped r : J r -> r_wrapped (r_flush_word W true r) = r_wrapped r.
Proof.
  intros [_ _ HK]. unfold r_flush_word. destruct (r_word r) as [|x0 w0] eqn:Ew; [reflexivity|].
  rewrite <- Ew in *.
  destruct (N.leb_spec (r_nsp r + lw (r_word r)) (W - lw (r_line r))) as [Hfit|Hnofit].
  - cbv zeta. rprj. apply r_pend_fit_keep.
  - rewrite r_place_wrapped. symmetry. apply HK; [rewrite Ew; discriminate|lia].
Qed.

Lemma J_flush_word pre r : J r -> J (r_flush_word W pre r).
Proof.
  intros HJ. constructor.
  - apply r_flush_word_lok, HJ.
  - rewrite r_flush_word_word. constructor.
  - rewrite r_flush_word_word. intros H. contradiction.
Qed.

Lemma r_tab_only r m mw : rlines_only r (fst (r_tab W r m mw)).
Proof.
  unfold r_tab. destruct (W <=? lw (r_line r) + r_nsp r); cbn [fst].
  - eapply rlines_only_trans; [apply r_flush_line_only|apply r_tab_go_only].
  - apply r_tab_go_only.
Qed.

Lemma r_tab_go_lok : forall k r m pos, lok (r_line r) -> lok (r_line (fst (r_tab_go W k r m pos))).
Proof.
  induction k as [|k IH]; intros r m pos H; cbn [r_tab_go]; [exact H|].
  destruct (W <=? pos); cbn [fst]; [apply r_flush_line_lok, H|].
  apply IH. rprj. apply Forall_app. split; [exact H|].
  constructor; [apply okc_space|constructor].
Qed.

Lemma r_tab_lok r m mw : lok (r_line r) -> lok (r_line (fst (r_tab W r m mw))).
Proof.
  intros H. unfold r_tab. destruct (W <=? lw (r_line r) + r_nsp r); cbn [fst].
  - apply r_tab_go_lok, r_flush_line_lok, H.
  - apply r_tab_go_lok, H.
Qed.

(* a tab that does not wrap stays within the width *)
Lemma r_tab_go_pos : forall k r m pos,
  pos = lw (r_line r) + r_nsp r -> pos <= W -> snd (r_tab_go W k r m pos) = false ->
  lw (r_line (fst (r_tab_go W k r m pos))) + r_nsp r <= W.
Proof.
  induction k as [|k IH]; intros r m pos Hpos Hle Hfl; cbn [r_tab_go] in *; [cbn [fst]; lia|].
  destruct (N.leb_spec W pos) as [Hge|Hlt]; [discriminate Hfl|].
  specialize (IH (r_push r [(spacel L_space, m)]) m (pos + 1)). rprj.
  apply IH; [|lia|exact Hfl]. rewrite lw_app, lw_one. cbn. lia.
Qed.

Lemma r_tab_pos r m mw :
  snd (r_tab W r m mw) = false -> lw (r_line (fst (r_tab W r m mw))) + r_nsp r <= W.
Proof.
  unfold r_tab. destruct (N.leb_spec W (lw (r_line r) + r_nsp r)) as [Hge|Hlt]; cbn [snd fst].
  - discriminate.
  - intros H. apply r_tab_go_pos; [reflexivity|lia|exact H].
Qed.

(* the source characters allowed by the side condition *)
Definition src_ok (c : chr) : Prop := ws c = false -> cw c <> None -> okc c.

Lemma J_char i r c : J r -> src_ok c -> J (r_char W i r c).
Proof.
  intros HJ Hc. unfold r_char.
  set (r1 := if ws c && (0 <? lw (r_word r)) then r_flush_word W true r else r).
  assert (HJ1 : J r1).
  { subst r1. destruct (ws c && (0 <? lw (r_word r))); [apply J_flush_word, HJ|exact HJ]. }
  assert (Hw0 : ws c = true -> lw (r_word r1) = 0).
  { intros Hws. subst r1. rewrite Hws. cbn [andb].
    destruct (N.ltb_spec 0 (lw (r_word r))) as [Hp|Hz]; [|lia].
    rewrite r_flush_word_word. reflexivity. }
  clearbody r1. clear HJ r. rename r1 into r. destruct HJ1 as [Hl Hw HK].
  destruct (ws c) eqn:Hws.
  - specialize (Hw0 eq_refl).
    destruct (cp c =? 10).
    + constructor; rprj; [constructor|exact Hw|]. intros _ H. rewrite lw_nil, Hw0 in H. lia.
    + destruct (cp c =? 9).
      * set (m := (i, r_wrapped r)). set (mw := (i, true)).
        pose proof (r_tab_only r m mw) as (g1 & g2 & g3 & g4).
        pose proof (r_tab_lok r m mw Hl) as Hl'.
        pose proof (r_tab_pos r m mw) as Hpos.
        destruct (snd (r_tab W r m mw)).
        -- constructor; rprj; [exact Hl'|rewrite g3; exact Hw|reflexivity].
        -- constructor; [exact Hl'|rewrite g3; exact Hw|].
           intros _ H. rewrite g1, g3, Hw0 in H. specialize (Hpos eq_refl). lia.
      * destruct (cw c) as [w|]; [|constructor; assumption].
        destruct (N.ltb_spec W (lw (r_line r) + r_nsp r + w)) as [Hov|Hfit].
        -- pose proof (r_flush_line_only (r_set_space r (r_sp r) 0)) as (g1 & g2 & g3 & g4).
           constructor; rprj; [|rewrite g3; exact Hw|reflexivity].
           apply (r_flush_line_lok (r_set_space r (r_sp r) 0)). exact Hl.
        -- constructor; rprj; [exact Hl|exact Hw|]. intros _ H. rewrite Hw0 in H. lia.
  - destruct (cw c) as [w|] eqn:Ecw; [|constructor; assumption].
    assert (Hokc : okc c) by (apply Hc; [exact Hws|congruence]).
    assert (Hc0 : cw0 c = w) by (unfold cw0; rewrite Ecw; reflexivity).
    constructor; rprj; [exact Hl| |].
    + apply Forall_app. split; [exact Hw|]. constructor; [exact Hokc|constructor].
    + intros _ H. rewrite lw_app, lw_one, Hc0 in H.
      destruct (N.ltb_spec W (lw (r_line r) + r_nsp r + (lw (r_word r) + w))) as [_|Hbad]; [|lia].
      apply orb_true_r.
Qed.

(* ---- one character of add_text ---- *)
Lemma add_char_ref i t tw b r u c b' u' :
  tg (i, false) = t -> tg (i, true) = tw ->
  add_char WsPre t tw (b, u) c = Ok (b', u') ->
  LR b r -> SR b r -> WR b r -> J r -> u = r_wrapped r ->
  LR b' (r_char W i r c) /\ SR b' (r_char W i r c) /\ WR b' (r_char W i r c) /\
  u' = r_wrapped (r_char W i r c) /\ allow_overflow b' = allow_overflow b.
Proof.
  intros Ht Htw H HL HS HW' HJ Hu. unfold add_char in H. unfold r_char.
  bd H b1 Hb1. rewrite (W_wl _ _ HW') in Hb1.
  set (r1 := if ws c && (0 <? lw (r_word r)) then r_flush_word W true r else r).
  assert (H1 : LR b1 r1 /\ SR b1 r1 /\ WR b1 r1 /\ u = r_wrapped r1 /\
               allow_overflow b1 = allow_overflow b).
  { subst r1. destruct (ws c && (0 <? lw (r_word r))).
    - apply (flush_word_ref WsPre true) with (r := r) in Hb1;
        [|left; auto|assumption..|apply (J_lok _ HJ)|apply (J_lokw _ HJ)].
      destruct Hb1 as (A & B & C & D). rewrite (r_flush_word_wrapped _ HJ). auto.
    - injection Hb1 as <-. auto. }
  destruct H1 as (HL1 & HS1 & HW1 & Hu1 & Ho1). rewrite <- Ho1.
  clearbody r1. clear Hb1 HL HS HW' HJ Hu Ho1 b r. rename b1 into b, r1 into r.
  assert (Ht0 : (if u then tw else t) = tg (i, r_wrapped r)).
  { rewrite <- Hu1. destruct u; auto. }
  cbv zeta in H. rewrite Ht0 in H.
  destruct (ws c) eqn:Hws.
  - cbn [preserve_ws is_pre andb] in H.
    destruct (cp c =? 10).
    + rewrite (ffl_eq _ (L_pad _ _ HL1)) in H. cbn [bind] in H. injection H as <- <-.
      pose proof (LR_emit _ _ HL1) as HL2.
      split; [eapply LR_frame; [exact HL2|reflexivity..]|].
      split; [constructor; prjs; rprj; reflexivity|].
      split; [frame|]. split; reflexivity.
    + destruct (cp c =? 9).
      * bd H p Hp. destruct p as [b2 fl]. cbn [fst snd] in H. injection H as <- <-.
        apply (tab_false_ref (tg (i, r_wrapped r)) tw (i, r_wrapped r) (i, true) eq_refl Htw)
          with (r := r) in Hp; [|exact HL1|].
        2:{ rewrite (L_tlen _ _ HL1), (S_nsp _ _ HS1). reflexivity. }
        destruct Hp as (A & B & C). subst fl.
        pose proof (r_tab_only r (i, r_wrapped r) (i, true)) as Hro.
        pose proof (SR_lines _ _ _ _ HS1 B Hro) as HS2.
        pose proof (WR_lines _ _ _ _ HW1 B Hro) as HW2.
        destruct Hro as (g1 & g2 & g3 & g4). destruct B as (h1 & h2 & h3 & h4 & h5 & h6).
        destruct (snd (r_tab W r (i, r_wrapped r) (i, true))).
        -- split; [eapply LR_frame; [exact A|reflexivity..]|].
           split; [frame|]. split; [frame|]. rprj. split; [apply orb_true_r|exact h6].
        -- split; [exact A|]. split; [exact HS2|]. split; [exact HW2|].
           rewrite orb_false_r, g4. auto.
      * destruct (cw c) as [cwidth|]; [|injection H as <- <-; auto 6].
        rewrite (L_w _ _ HL1), (L_tlen _ _ HL1), (S_nsp _ _ HS1) in H.
        destruct (W <? lw (r_line r) + r_nsp r + cwidth).
        -- assert (HL2 : LR (set_space b (spacetag b) 0) (r_set_space r (r_sp r) 0)) by frame.
           rewrite (fl_eq _ _ HL2) in H. cbn [bind do_wrap] in H. injection H as <- <-.
           pose proof (LR_flush_line _ _ HL2) as HL3. rprj.
           pose proof (flush_line_lines_only (set_space b (spacetag b) 0)
                         (r_set_space r (r_sp r) 0)) as (h1 & h2 & h3 & h4 & h5 & h6).
           pose proof (r_flush_line_only (r_set_space r (r_sp r) 0)) as (g1 & g2 & g3 & g4).
           rprj. prjs.
           set (b2 := match r_line r with [] => _ | _ => _ end) in *.
           set (r2 := r_flush_line (r_set_space r (r_sp r) 0)) in *.
           split; [eapply LR_frame; [exact HL3|reflexivity..]|].
           split; [constructor; prjs; rprj; cbn [option_map];
                   [rewrite h2, g1; reflexivity|rewrite Htw; reflexivity|reflexivity]|].
           split; [|split; [reflexivity|exact h6]].
           destruct HW1 as [A B C]. constructor; prjs; rprj.
           ++ rewrite h3, g3. exact A.
           ++ rewrite h3. exact B.
           ++ rewrite h4, g3. exact C.
        -- injection H as <- <-. split; [frame|]. split; [frame|]. split; [frame|]. auto.
  - cbn [andb negb] in H.
    destruct (cw c) as [cwidth|] eqn:Ecw; [|injection H as <- <-; auto 6].
    assert (Hc0 : cw0 c = cwidth) by (unfold cw0; rewrite Ecw; reflexivity).
    cbn [is_pre andb] in H.
    rewrite (L_w _ _ HL1), (L_tlen _ _ HL1), (S_nsp _ _ HS1), (W_wl _ _ HW1) in H.
    set (sw := W <? lw (r_line r) + r_nsp r + (lw (r_word r) + cwidth)) in *.
    injection H as <- <-. rewrite Hu1.
    assert (Htag : (if r_wrapped r || sw then tw else t) = tg (i, r_wrapped r || sw)).
    { destruct (r_wrapped r || sw); auto. }
    rewrite Htag.
    split; [destruct sw; frame|]. split; [|split; [|split]].
    + destruct HS1 as [A B C]. destruct sw; constructor; prjs; rprj; auto.
      * rewrite orb_true_r. reflexivity.
      * rewrite orb_false_r. exact C.
    + destruct HW1 as [A B C]. destruct sw; constructor; prjs; rprj.
      * rewrite tchars_push_merge, rs_app, A. reflexivity.
      * apply nes_push_merge; [exact B|discriminate].
      * rewrite lw_app, lw_one, Hc0. reflexivity.
      * rewrite tchars_push_merge, rs_app, A. reflexivity.
      * apply nes_push_merge; [exact B|discriminate].
      * rewrite lw_app, lw_one, Hc0. reflexivity.
    + reflexivity.
    + destruct sw; reflexivity.
Qed.

(* ---- whole calls ---- *)
Definition R (b : wblock) (r : rst) : Prop := LR b r /\ SR b r /\ WR b r /\ J r.

Lemma add_chars_ref i t tw : tg (i, false) = t -> tg (i, true) = tw ->
  forall s b r u b' u',
  add_chars WsPre t tw (b, u) s = Ok (b', u') -> R b r -> u = r_wrapped r ->
  Forall src_ok s ->
  R b' (r_chars W i r s) /\ u' = r_wrapped (r_chars W i r s) /\
  allow_overflow b' = allow_overflow b.
Proof.
  intros Ht Htw. induction s as [|c s IH]; intros b r u b' u' H HR Hu Hs; cbn [add_chars r_chars] in *.
  - injection H as <- <-. auto.
  - inversion Hs as [|? ? Hc Hs']; subst. bd H st Hst. destruct st as [b1 u1].
    destruct HR as (HL & HS & HW' & HJ).
    apply (add_char_ref i _ _ b r _ c b1 u1 eq_refl eq_refl) in Hst; try assumption; [|reflexivity].
    destruct Hst as (A & B & C & D & E).
    apply IH with (r := r_char W i r c) in H; [| |exact D|exact Hs'].
    + destruct H as (F & G & K). split; [exact F|]. split; [exact G|]. congruence.
    + split; [exact A|]. split; [exact B|]. split; [exact C|]. apply J_char; assumption.
Qed.

Lemma wb_add_text_ref i t tw s b r b' :
  tg (i, false) = t -> tg (i, true) = tw ->
  wb_add_text b s WsPre t tw = Ok b' -> R b r -> Forall src_ok s ->
  R b' (r_chars W i r s) /\ allow_overflow b' = allow_overflow b.
Proof.
  intros Ht Htw H HR Hs. unfold wb_add_text in H. bd H st Hst. destruct st as [b1 u1].
  injection H as <-. cbn [fst].
  apply (add_chars_ref i t tw Ht Htw) with (r := r) in Hst; [|exact HR| |exact Hs].
  - destruct Hst as (A & _ & C). auto.
  - destruct HR as (_ & HS & _). exact (S_pw _ _ HS).
Qed.

Lemma into_lines_ref b r ls :
  wb_into_lines b = Ok ls -> R b r ->
  map line_tags ls = map (fun x => rs (snd x)) (r_out (r_finish W r)).
Proof.
  intros H (HL & HS & HW' & HJ). unfold wb_into_lines, wb_flush in H.
  bd H b2 Hb2. injection H as <-. bd Hb2 b1 Hb1.
  apply (flush_word_ref WsNormal false) with (r := r) in Hb1;
    [|right; auto|assumption..|apply (J_lok _ HJ)|apply (J_lokw _ HJ)].
  destruct Hb1 as (A & _). rewrite (fl_eq _ _ A) in Hb2. injection Hb2 as <-.
  exact (L_out _ _ (LR_flush_line _ _ A)).
Qed.

Lemma R_init ovf : R (wb_new W false ovf) r_init.
Proof.
  split; [|split; [|split]].
  - constructor; cbn; try reflexivity. constructor.
  - constructor; reflexivity.
  - constructor; cbn; try reflexivity. constructor.
  - apply J_init.
Qed.

End Refine.

(* ================================================================== *)
(* Part 4: the refinement theorem                                      *)

Lemma tag_of_nth (calls : list pcall) i s t tw :
  nth_error calls i = Some (s, t, tw) ->
  tag_of calls (i, false) = t /\ tag_of calls (i, true) = tw.
Proof. intros H. unfold tag_of. cbn [fst snd]. rewrite H. auto. Qed.

Lemma run_calls_ref W (HW : 1 <= W) big calls : forall pcs i b r b',
  (forall j pc, nth_error pcs j = Some pc -> nth_error calls (i + j) = Some pc) ->
  run_calls b (map to_call pcs) = Ok b' -> R W (tag_of calls) big b r ->
  Forall (fun pc => Forall (src_ok W big) (pcall_text pc)) pcs ->
  R W (tag_of calls) big b' (r_calls W i r (map pcall_text pcs)).
Proof.
  induction pcs as [|pc pcs IH]; intros i b r b' Hnth H HR Hok; cbn [map run_calls r_calls] in *.
  - injection H as <-. exact HR.
  - inversion Hok as [|? ? Hpc Hok']; subst. bd H b1 Hb1.
    destruct pc as [[s t] tw]. cbn [to_call do_call pcall_text fst] in *.
    pose proof (Hnth 0%nat _ eq_refl) as Hn0. rewrite Nat.add_0_r in Hn0.
    destruct (tag_of_nth _ _ _ _ _ Hn0) as [Ht Htw].
    apply (wb_add_text_ref W HW (tag_of calls) big i t tw s b r b1 Ht Htw) in Hb1;
      [|exact HR|exact Hpc].
    destruct Hb1 as [HR1 _].
    apply IH with (i := S i) (r := r_chars W i r s) in H; [exact H| |exact HR1|exact Hok'].
    intros j pc Hj. specialize (Hnth (S j) pc Hj). rewrite Nat.add_succ_r in Hnth. exact Hnth.
Qed.

(* all characters of all calls *)
Definition all_chars (calls : list pcall) : text := flat_map pcall_text calls.

(* the side condition (see cx_zero_width_then_wide): no character is wider than the line,
   or no word character has width zero *)
Definition cut_regular (W : N) (src : text) : Prop :=
  (forall c, In c src -> cw0 c <= W) \/
  (forall c, In c src -> ws c = false -> cw c <> Some 0).

Lemma pre_tags_refine_big big : forall W ovf (calls : list pcall) ls,
  1 <= W -> Forall (fun pc => Forall (src_ok W big) (pcall_text pc)) calls ->
  run_pre W ovf calls = Ok ls ->
  map line_tags ls =
  map (fun x => resolve calls (snd x)) (expected_tags W (map pcall_text calls)).
Proof.
  intros W ovf calls ls HW Hok H. unfold run_pre, run in H. bd H b Hb.
  apply (run_calls_ref W HW big calls calls 0 _ r_init) in Hb;
    [|intros j pc Hj; exact Hj|apply R_init; exact HW|exact Hok].
  apply (into_lines_ref W HW (tag_of calls) big) with (r := r_calls W 0 r_init (map pcall_text calls)) in H;
    [|exact Hb].
  exact H.
Qed.

Theorem pre_tags_refine : forall W ovf (calls : list pcall) ls,
  1 <= W -> cut_regular W (all_chars calls) ->
  run_pre W ovf calls = Ok ls ->
  map line_tags ls =
  map (fun x => resolve calls (snd x)) (expected_tags W (map pcall_text calls)).
Proof.
  intros W ovf calls ls HW Hreg H.
  assert (Hin : forall pc c, In pc calls -> In c (pcall_text pc) -> In c (all_chars calls)).
  { intros pc c Hpc Hc. unfold all_chars. apply in_flat_map. exists pc. auto. }
  destruct Hreg as [H1|H2].
  - apply (pre_tags_refine_big false W ovf calls ls HW); [|exact H].
    apply Forall_forall. intros pc Hpc. apply Forall_forall. intros c Hc.
    unfold src_ok, okc. intros _ _. apply H1. eapply Hin; eassumption.
  - apply (pre_tags_refine_big true W ovf calls ls HW); [|exact H].
    apply Forall_forall. intros pc Hpc. apply Forall_forall. intros c Hc.
    unfold src_ok, okc. intros Hws Hcw. specialize (H2 c (Hin _ _ Hpc Hc) Hws). unfold cw0.
    destruct (cw c) as [n|]; [|contradiction]. assert (n <> 0) by congruence. lia.
Qed.
Print Assumptions pre_tags_refine.

(* ================================================================== *)
(* Part 5: the tagging rule, read off the reference                    *)

(* one flat run over (call index, character) pairs *)
Fixpoint ichars (i : nat) (texts : list text) : list (nat * chr) :=
  match texts with
  | [] => []
  | s :: texts' => map (fun c => (i, c)) s ++ ichars (S i) texts'
  end.

Fixpoint r_run (W : N) (st : rst) (l : list (nat * chr)) : rst :=
  match l with
  | [] => st
  | ic :: l' => r_run W (r_char W (fst ic) st (snd ic)) l'
  end.

Lemma r_run_app W : forall a b st, r_run W st (a ++ b) = r_run W (r_run W st a) b.
Proof. induction a as [|x a IH]; intros b st; cbn [app r_run]; [reflexivity|apply IH]. Qed.

Lemma r_chars_run W i : forall s st, r_chars W i st s = r_run W st (map (fun c => (i, c)) s).
Proof. induction s as [|c s IH]; intros st; cbn [r_chars map r_run fst snd]; [reflexivity|apply IH]. Qed.

Lemma r_calls_run W : forall texts i st, r_calls W i st texts = r_run W st (ichars i texts).
Proof.
  induction texts as [|s texts IH]; intros i st; cbn [r_calls ichars]; [reflexivity|].
  rewrite r_run_app, <- r_chars_run. apply IH.
Qed.

Lemma ichars_snd : forall texts i, map snd (ichars i texts) = concat texts.
Proof.
  induction texts as [|s texts IH]; intros i; cbn [ichars concat]; [reflexivity|].
  rewrite map_app, map_map, IH. cbn [snd]. rewrite map_id. reflexivity.
Qed.

(* the whole source of a sequence of calls *)
Definition source (texts : list text) : text := concat texts.

(* marks *)
Definition is_main (x : tc) : Prop := snd (snd x) = false.
Definition is_wrap (x : tc) : Prop := snd (snd x) = true.
Definition is_wsc (x : tc) : Prop := ws (fst x) = true.
Definition is_nonws (x : tc) : Prop := ws (fst x) = false.

(* shape of a continuation piece: spaces, then main-tagged word characters (the beginning of a
   word that was moved there), then nothing main-tagged but spaces *)
Definition restb (x : tc) : bool := ws (fst x) || snd (snd x).
Definition in_rest (l : list tc) : bool := forallb restb l.
Fixpoint in_pre (l : list tc) : bool :=
  match l with
  | [] => true
  | x :: l' => if negb (ws (fst x)) && negb (snd (snd x)) then in_pre l' else in_rest l
  end.
Fixpoint cont_shape (l : list tc) : bool :=
  match l with
  | [] => true
  | x :: l' => if ws (fst x) then cont_shape l' else in_pre l
  end.

Lemma in_rest_app a b : in_rest (a ++ b) = in_rest a && in_rest b.
Proof. apply forallb_app. Qed.

Lemma in_rest_pre l : in_rest l = true -> in_pre l = true.
Proof.
  destruct l as [|x l]; [reflexivity|]. intros H. cbn [in_pre].
  destruct (negb (ws (fst x)) && negb (snd (snd x))) eqn:E; [|exact H].
  cbn [in_rest forallb] in H. unfold restb in H at 1.
  apply andb_true_iff in E. destruct E as [E1 E2].
  apply negb_true_iff in E1, E2. rewrite E1, E2 in H. discriminate H.
Qed.

Lemma in_pre_shape l : in_pre l = true -> cont_shape l = true.
Proof.
  induction l as [|x l IH]; [reflexivity|]. intros H. cbn [cont_shape].
  destruct (ws (fst x)) eqn:E; [|exact H].
  cbn [in_pre] in H. rewrite E in H. cbn [negb andb] in H.
  cbn [in_rest forallb] in H. apply andb_true_iff in H. destruct H as [_ H].
  apply IH, in_rest_pre, H.
Qed.

Lemma in_pre_app_inv : forall a b, in_pre (a ++ b) = true -> in_pre a = true /\ in_pre b = true.
Proof.
  induction a as [|x a IH]; intros b H; cbn [app] in *; [auto|].
  cbn [in_pre] in *. destruct (negb (ws (fst x)) && negb (snd (snd x))); [apply IH, H|].
  change (x :: a ++ b) with ((x :: a) ++ b) in H. rewrite in_rest_app in H.
  apply andb_true_iff in H. destruct H as [H1 H2]. split; [exact H1|apply in_rest_pre, H2].
Qed.

Lemma cont_shape_app_inv : forall a b,
  cont_shape (a ++ b) = true -> cont_shape a = true /\ cont_shape b = true.
Proof.
  induction a as [|x a IH]; intros b H; cbn [app] in *; [auto|].
  cbn [cont_shape] in *. destruct (ws (fst x)); [apply IH, H|].
  change (x :: a ++ b) with ((x :: a) ++ b) in H. apply in_pre_app_inv in H.
  destruct H as [H1 H2]. split; [exact H1|apply in_pre_shape, H2].
Qed.

Lemma in_pre_app_rest : forall a b, in_pre a = true -> in_rest b = true -> in_pre (a ++ b) = true.
Proof.
  induction a as [|x a IH]; intros b Ha Hb; cbn [app]; [apply in_rest_pre, Hb|].
  cbn [in_pre] in *. destruct (negb (ws (fst x)) && negb (snd (snd x))); [apply IH; assumption|].
  change (x :: a ++ b) with ((x :: a) ++ b). rewrite in_rest_app, Ha, Hb. reflexivity.
Qed.

Lemma cont_shape_app_rest : forall a b,
  cont_shape a = true -> in_rest b = true -> cont_shape (a ++ b) = true.
Proof.
  induction a as [|x a IH]; intros b Ha Hb; cbn [app]; [apply in_pre_shape, in_rest_pre, Hb|].
  cbn [cont_shape] in *. destruct (ws (fst x)); [apply IH; assumption|].
  change (x :: a ++ b) with ((x :: a) ++ b). apply in_pre_app_rest; assumption.
Qed.

Lemma cont_shape_ws_pre : forall a b,
  Forall is_wsc a -> in_pre b = true -> cont_shape (a ++ b) = true.
Proof.
  induction a as [|x a IH]; intros b Ha Hb; cbn [app]; [apply in_pre_shape, Hb|].
  inversion Ha as [|? ? Hx Ha']; subst. cbn [cont_shape]. unfold is_wsc in Hx. rewrite Hx.
  apply IH; assumption.
Qed.

Lemma Forall_wsc_shape l : Forall is_wsc l -> cont_shape l = true.
Proof. intros H. rewrite <- (app_nil_r l). apply cont_shape_ws_pre; [exact H|reflexivity]. Qed.

(* a pending word: main-tagged characters, then continuation-tagged ones; no whitespace *)
Definition wshape (w : list tc) : Prop :=
  Forall is_nonws w /\ exists a b, w = a ++ b /\ Forall is_main a /\ Forall is_wrap b.

Lemma wshape_in_pre w : wshape w -> in_pre w = true.
Proof.
  intros [Hn (a & b & -> & Ha & Hb)]. apply Forall_app in Hn. destruct Hn as [Hna Hnb].
  induction a as [|x a IH]; cbn [app].
  - apply in_rest_pre. unfold in_rest. apply forallb_forall. intros x Hx.
    rewrite Forall_forall in Hb. specialize (Hb x Hx). unfold is_wrap in Hb. unfold restb.
    rewrite Hb. apply orb_true_r.
  - inversion Ha as [|? ? Hx Ha']; subst. inversion Hna as [|? ? Hx' Hna']; subst.
    cbn [in_pre]. unfold is_main in Hx. unfold is_nonws in Hx'. rewrite Hx, Hx'. cbn [negb andb].
    apply IH; assumption.
Qed.

Lemma wshape_nil : wshape [].
Proof. split; [constructor|]. exists [], []. repeat split; constructor. Qed.

Lemma allwrap_in_rest l : Forall is_wrap l -> in_rest l = true.
Proof.
  intros H. unfold in_rest. apply forallb_forall. intros x Hx. rewrite Forall_forall in H.
  specialize (H x Hx). unfold is_wrap in H. unfold restb. rewrite H. apply orb_true_r.
Qed.

Lemma allws_in_rest l : Forall is_wsc l -> in_rest l = true.
Proof.
  intros H. unfold in_rest. apply forallb_forall. intros x Hx. rewrite Forall_forall in H.
  specialize (H x Hx). unfold is_wsc in H. unfold restb. rewrite H. reflexivity.
Qed.

Lemma spc_wsc n m : Forall is_wsc (spc n m).
Proof.
  unfold spc, spacesl. induction (N.to_nat n) as [|k IH]; cbn [repeat_chr map]; constructor;
    [reflexivity|exact IH].
Qed.

Section Rule.
Variable W : N.
Hypothesis HW : 1 <= W.

(* ---- continuation pieces ---- *)

Definition out_cont (out : list (bool * list tc)) : Prop :=
  forall f l, In (f, l) out -> f = false -> cont_shape l = true.

Definition GL (r : rst) : Prop :=
  out_cont (r_out r) /\ (r_fresh r = false -> cont_shape (r_line r) = true).

Record G (r : rst) : Prop := mkG {
  G_gl : GL r;
  G_wsh : wshape (r_word r);
  G_fw : r_fresh r = false -> r_wrapped r = true /\ Forall is_wrap (r_word r);
  G_nw : r_wrapped r = false -> Forall is_main (r_word r)
}.

Lemma out_cont_app out f l :
  out_cont out -> (f = false -> cont_shape l = true) -> out_cont (out ++ [(f, l)]).
Proof.
  intros H1 H2 f' l' Hin Hf. apply in_app_or in Hin. destruct Hin as [Hin|[Hin|[]]].
  - exact (H1 f' l' Hin Hf).
  - injection Hin as <- <-. exact (H2 Hf).
Qed.

Lemma GL_emit r : GL r -> GL (r_emit r).
Proof.
  intros [H1 H2]. split; rprj; [|reflexivity]. apply out_cont_app; assumption.
Qed.

Lemma GL_flush_line r : GL r -> GL (r_flush_line r).
Proof. intros H. unfold r_flush_line. destruct (r_line r); [exact H|apply GL_emit, H]. Qed.

Lemma GL_push_rest r l : GL r -> in_rest l = true -> GL (r_push r l).
Proof.
  intros [H1 H2] Hl. split; rprj; [exact H1|]. intros Hf.
  apply cont_shape_app_rest; [apply H2, Hf|exact Hl].
Qed.

Lemma GL_frame r r' :
  GL r -> r_out r' = r_out r -> r_line r' = r_line r -> r_fresh r' = r_fresh r -> GL r'.
Proof. intros [H1 H2] E1 E2 E3. split; rewrite ?E1, ?E2, ?E3; assumption. Qed.

Lemma GL_ws_loop : forall fuel r, GL r -> GL (r_ws_loop W fuel r).
Proof.
  induction fuel as [|f IH]; intros r H; cbn [r_ws_loop]; destruct (r_nsp r =? 0); try exact H.
  destruct (r_sp r) as [m|]; [|exact H]. apply IH.
  assert (H1 : GL (r_push r (spc (N.min (r_nsp r) W) m))).
  { apply GL_push_rest; [exact H|apply allws_in_rest, spc_wsc]. }
  destruct (N.min (r_nsp r) W =? W).
  - eapply GL_frame; [apply GL_flush_line, H1|reflexivity..].
  - eapply GL_frame; [exact H1|reflexivity..].
Qed.

Lemma r_flush_line_wsc r : Forall is_wsc (r_line r) -> Forall is_wsc (r_line (r_flush_line r)).
Proof. intros H. unfold r_flush_line. destruct (r_line r) eqn:E; rprj; [rewrite E; exact H|constructor]. Qed.

Lemma ws_loop_wsc : forall fuel r,
  Forall is_wsc (r_line r) -> Forall is_wsc (r_line (r_ws_loop W fuel r)).
Proof.
  induction fuel as [|f IH]; intros r H; cbn [r_ws_loop]; destruct (r_nsp r =? 0); try exact H.
  destruct (r_sp r) as [m|]; [|exact H]. apply IH. rprj.
  assert (H1 : Forall is_wsc (r_line r ++ spc (N.min (r_nsp r) W) m)).
  { apply Forall_app. split; [exact H|apply spc_wsc]. }
  destruct (N.min (r_nsp r) W =? W); [|exact H1].
  apply (r_flush_line_wsc (r_push r (spc (N.min (r_nsp r) W) m))). exact H1.
Qed.

Lemma GL_tab_go : forall k r m pos, GL r -> GL (fst (r_tab_go W k r m pos)).
Proof.
  induction k as [|k IH]; intros r m pos H; cbn [r_tab_go]; [exact H|].
  destruct (W <=? pos); cbn [fst]; [apply GL_flush_line, H|].
  apply IH, GL_push_rest; [exact H|reflexivity].
Qed.

Lemma GL_tab r m mw : GL r -> GL (fst (r_tab W r m mw)).
Proof.
  intros H. unfold r_tab. destruct (W <=? lw (r_line r) + r_nsp r); cbn [fst].
  - apply GL_tab_go, GL_flush_line, H.
  - apply GL_tab_go, H.
Qed.

(* a tab that does not wrap emits nothing *)
Lemma tab_go_quiet : forall k r m pos,
  snd (r_tab_go W k r m pos) = false ->
  r_out (fst (r_tab_go W k r m pos)) = r_out r /\ r_fresh (fst (r_tab_go W k r m pos)) = r_fresh r.
Proof.
  induction k as [|k IH]; intros r m pos H; cbn [r_tab_go] in *; [auto|].
  destruct (W <=? pos); [discriminate H|].
  destruct (IH _ _ _ H) as [A B]. rewrite A, B. rprj. auto.
Qed.

Lemma tab_quiet r m mw :
  snd (r_tab W r m mw) = false ->
  r_out (fst (r_tab W r m mw)) = r_out r /\ r_fresh (fst (r_tab W r m mw)) = r_fresh r.
Proof.
  unfold r_tab. destruct (W <=? lw (r_line r) + r_nsp r); cbn [snd fst]; [discriminate|].
  apply tab_go_quiet.
Qed.

(* the cut *)
Lemma GL_hw : forall w r,
  out_cont (r_out r) -> cont_shape w = true ->
  (r_fresh r = false -> cont_shape (r_line r ++ w) = true) ->
  GL (r_hw W w r).
Proof.
  induction w as [|x w IH]; intros r Hout Hw Hline; cbn [r_hw].
  - split; [exact Hout|]. intros Hf. specialize (Hline Hf). rewrite app_nil_r in Hline. exact Hline.
  - assert (Hw' : cont_shape w = true).
    { change (x :: w) with ([x] ++ w) in Hw. apply cont_shape_app_inv in Hw. apply Hw. }
    assert (Hx : cont_shape [x] = true).
    { change (x :: w) with ([x] ++ w) in Hw. apply cont_shape_app_inv in Hw. apply Hw. }
    destruct (cw0 (fst x) <=? W - lw (r_line r)).
    + apply IH; rprj; [exact Hout|exact Hw'|].
      intros Hf. rewrite <- app_assoc. exact (Hline Hf).
    + destruct (lw (r_line r) =? 0).
      * apply IH; rprj; [|exact Hw'|intros _; exact Hw'].
        apply out_cont_app; [exact Hout|]. intros Hf. specialize (Hline Hf).
        change (x :: w) with ([x] ++ w) in Hline. rewrite app_assoc in Hline.
        apply cont_shape_app_inv in Hline. apply Hline.
      * cbv zeta.
        assert (Hout' : out_cont (r_out (r_emit r))).
        { rprj. apply out_cont_app; [exact Hout|]. intros Hf. specialize (Hline Hf).
          apply cont_shape_app_inv in Hline. apply Hline. }
        destruct (cw0 (fst x) <=? W).
        -- apply IH; rprj; [exact Hout'|exact Hw'|intros _; exact Hw].
        -- apply IH; rprj; [|exact Hw'|intros _; exact Hw'].
           apply out_cont_app; [exact Hout'|]. intros _. exact Hx.
Qed.

Lemma r_pend_fit_GL r : GL r -> GL (r_pend_fit r).
Proof.
  intros H. unfold r_pend_fit. destruct (0 <? r_nsp r); [|exact H].
  destruct (r_sp r) as [m|]; [|exact H].
  eapply GL_frame; [apply (GL_push_rest r (spc (r_nsp r) m) H), allws_in_rest, spc_wsc|reflexivity..].
Qed.

Lemma r_pend_nofit_GL pre r : GL r -> GL (r_pend_nofit W pre r).
Proof.
  intros H. unfold r_pend_nofit. destruct pre.
  - destruct (W - lw (r_line r) <=? r_nsp r); [|apply r_pend_fit_GL, H].
    eapply GL_frame; [exact H|reflexivity..].
  - eapply GL_frame; [exact H|reflexivity..].
Qed.

Lemma r_flush_line_line r : r_line (r_flush_line r) = [].
Proof. unfold r_flush_line. destruct (r_line r) eqn:E; [exact E|reflexivity]. Qed.

Lemma GL_place pre r : GL r -> wshape (r_word r) -> GL (r_place W pre r).
Proof.
  intros H Hw. unfold r_place. cbv zeta.
  set (r2 := r_flush_line r).
  set (r3 := if pre then r_set_wrapped r2 true else r2).
  assert (H3 : GL r3 /\ r_line r3 = [] /\ r_word r3 = r_word r).
  { subst r3 r2. pose proof (GL_flush_line r H) as H2.
    pose proof (r_flush_line_line r) as E. destruct (r_flush_line_only r) as (_ & _ & g3 & _).
    destruct pre; rprj; [|auto]. split; [|auto]. eapply GL_frame; [exact H2|reflexivity..]. }
  destruct H3 as (H3 & E3 & Ew3).
  set (r4 := r_ws_loop W (S (N.to_nat (r_nsp r3))) r3).
  assert (H4 : GL r4) by (apply GL_ws_loop, H3).
  assert (L4 : Forall is_wsc (r_line r4)) by (apply ws_loop_wsc; rewrite E3; constructor).
  assert (Ew4 : r_word r4 = r_word r).
  { subst r4. destruct (r_ws_loop_keep W (S (N.to_nat (r_nsp r3))) r3) as (A & _). congruence. }
  rprj. rewrite Ew4.
  apply GL_hw; rprj.
  - apply H4.
  - apply in_pre_shape, wshape_in_pre, Hw.
  - intros _. apply cont_shape_ws_pre; [exact L4|apply wshape_in_pre, Hw].
Qed.


Lemma r_pend_fit_same r :
  r_out (r_pend_fit r) = r_out r /\ r_fresh (r_pend_fit r) = r_fresh r.
Proof. unfold r_pend_fit. destruct (0 <? r_nsp r); [destruct (r_sp r)|]; rprj; auto. Qed.

Lemma flush_word_G pre r :
  G r ->
  GL (r_flush_word W pre r) /\ r_word (r_flush_word W pre r) = [] /\
  (r_fresh (r_flush_word W pre r) = false -> pre = true -> r_wrapped (r_flush_word W pre r) = true).
Proof.
  intros [Hgl Hwsh Hfw Hnw]. split; [|split; [apply r_flush_word_word|]].
  - unfold r_flush_word. destruct (r_word r) as [|x0 w0] eqn:Ew; [exact Hgl|]. rewrite <- Ew in *.
    destruct (r_nsp r + lw (r_word r) <=? W - lw (r_line r)).
    + cbv zeta. pose proof (r_pend_fit_GL r Hgl) as [H1 H2].
      destruct (r_pend_fit_same r) as [E1 E2]. destruct (r_pend_fit_keep r) as [E3 E4].
      split; rprj; [exact H1|]. rewrite E2, E3. intros Hf.
      apply cont_shape_app_rest; [apply H2; rewrite E2; exact Hf|].
      apply allwrap_in_rest. apply (Hfw Hf).
    + apply GL_place; [apply r_pend_nofit_GL, Hgl|].
      destruct (r_pend_nofit_keep W pre r) as [E _]. rewrite E. exact Hwsh.
  - unfold r_flush_word. destruct (r_word r) as [|x0 w0] eqn:Ew.
    + intros Hf _. apply (Hfw Hf).
    + rewrite <- Ew in *. destruct (r_nsp r + lw (r_word r) <=? W - lw (r_line r)).
      * cbv zeta. rprj. destruct (r_pend_fit_same r) as [E1 E2]. destruct (r_pend_fit_keep r) as [E3 E4].
        rewrite E2, E4. intros Hf _. apply (Hfw Hf).
      * intros _ ->. rewrite r_place_wrapped. reflexivity.
Qed.

Lemma G_flush_word_pre r : G r -> G (r_flush_word W true r).
Proof.
  intros HG. destruct (flush_word_G true r HG) as (A & B & C). constructor.
  - exact A.
  - rewrite B. apply wshape_nil.
  - intros Hf. rewrite B. split; [exact (C Hf eq_refl)|constructor].
  - intros _. rewrite B. constructor.
Qed.

Definition flush_hyp (r : rst) (c : chr) : Prop :=
  ws c = true -> r_word r <> [] -> 0 < lw (r_word r).

Lemma G_char i r c : G r -> flush_hyp r c -> G (r_char W i r c).
Proof.
  intros HG Hfl. unfold r_char.
  set (r1 := if ws c && (0 <? lw (r_word r)) then r_flush_word W true r else r).
  assert (HG1 : G r1).
  { subst r1. destruct (ws c && (0 <? lw (r_word r))); [apply G_flush_word_pre, HG|exact HG]. }
  assert (Hw0 : ws c = true -> r_word r1 = []).
  { intros Hws. subst r1. rewrite Hws. cbn [andb].
    destruct (N.ltb_spec 0 (lw (r_word r))) as [Hp|Hz]; [apply r_flush_word_word|].
    destruct (r_word r) eqn:E; [reflexivity|]. exfalso.
    assert (0 < lw (r_word r)) by (apply Hfl; [exact Hws|rewrite E; discriminate]). rewrite E in *. lia. }
  assert (Hr1 : ws c = false -> r1 = r).
  { intros Hws. subst r1. rewrite Hws. reflexivity. }
  clearbody r1. destruct HG1 as [Hgl Hwsh Hfw Hnw].
  destruct (ws c) eqn:Hws.
  - specialize (Hw0 eq_refl).
    destruct (cp c =? 10).
    + constructor; rprj.
      * split; rprj; [apply (GL_emit r1 Hgl)|discriminate].
      * rewrite Hw0. apply wshape_nil.
      * discriminate.
      * intros _. rewrite Hw0. constructor.
    + destruct (cp c =? 9).
      * set (m := (i, r_wrapped r1)). set (mw := (i, true)).
        pose proof (GL_tab r1 m mw Hgl) as Hgl'.
        pose proof (r_tab_only W r1 m mw) as (g1 & g2 & g3 & g4).
        pose proof (tab_quiet r1 m mw) as Hq.
        destruct (snd (r_tab W r1 m mw)).
        -- constructor; rprj.
           ++ eapply GL_frame; [exact Hgl'|reflexivity..].
           ++ rewrite g3. exact Hwsh.
           ++ intros _. rewrite g3, Hw0. split; [reflexivity|constructor].
           ++ discriminate.
        -- destruct (Hq eq_refl) as [q1 q2]. constructor.
           ++ exact Hgl'.
           ++ rewrite g3. exact Hwsh.
           ++ rewrite q2, g3, g4. exact Hfw.
           ++ rewrite g3, g4. exact Hnw.
      * destruct (cw c) as [w|]; [|constructor; assumption].
        destruct (W <? lw (r_line r1) + r_nsp r1 + w).
        -- pose proof (r_flush_line_only (r_set_space r1 (r_sp r1) 0)) as (g1 & g2 & g3 & g4).
           constructor; rprj.
           ++ eapply GL_frame; [apply (GL_flush_line (r_set_space r1 (r_sp r1) 0))|reflexivity..].
              eapply GL_frame; [exact Hgl|reflexivity..].
           ++ rewrite g3. exact Hwsh.
           ++ intros _. rewrite g3. rprj. rewrite Hw0. split; [reflexivity|constructor].
           ++ discriminate.
        -- constructor; rprj; assumption.
  - rewrite (Hr1 eq_refl) in *. clear Hr1 Hw0 r1.
    destruct (cw c) as [w|]; [|constructor; assumption].
    set (wr := r_wrapped r || (W <? lw (r_line r) + r_nsp r + (lw (r_word r) + w))).
    assert (Hx : is_nonws (c, (i, wr))) by exact Hws.
    constructor; rprj.
    + eapply GL_frame; [exact Hgl|reflexivity..].
    + destruct Hwsh as [Hn (a & b & Eab & Ha & Hb)]. split.
      * apply Forall_app. split; [exact Hn|]. constructor; [exact Hx|constructor].
      * destruct wr eqn:Ewr.
        -- exists a, (b ++ [(c, (i, true))]). rewrite Eab, app_assoc. split; [reflexivity|].
           split; [exact Ha|]. apply Forall_app. split; [exact Hb|]. constructor; [reflexivity|constructor].
        -- exists (r_word r ++ [(c, (i, false))]), []. rewrite app_nil_r. split; [reflexivity|].
           split; [|constructor]. apply Forall_app. split; [|constructor; [reflexivity|constructor]].
           apply Hnw. unfold wr in Ewr. apply orb_false_iff in Ewr. apply Ewr.
    + intros Hf. destruct (Hfw Hf) as [A B]. subst wr. rewrite A. cbn [orb]. split; [reflexivity|].
      apply Forall_app. split; [exact B|]. constructor; [reflexivity|constructor].
    + intros Hwr. apply Forall_app. split.
      * apply Hnw. apply orb_false_iff in Hwr. apply Hwr.
      * constructor; [exact Hwr|constructor].
Qed.

(* ---- threading `words_pos` along the source ---- *)

Definition next_word (w : text) (c : chr) : text :=
  if ws c then [] else if is_wordchar c then w ++ [c] else w.

Lemma r_char_word i r c w :
  map fst (r_word r) = w -> flush_hyp r c ->
  map fst (r_word (r_char W i r c)) = next_word w c.
Proof.
  intros Hw Hfl. unfold r_char, next_word, is_wordchar.
  set (r1 := if ws c && (0 <? lw (r_word r)) then r_flush_word W true r else r).
  assert (Hw0 : ws c = true -> r_word r1 = []).
  { intros Hws. subst r1. rewrite Hws. cbn [andb].
    destruct (N.ltb_spec 0 (lw (r_word r))) as [Hp|Hz]; [apply r_flush_word_word|].
    destruct (r_word r) eqn:E; [reflexivity|]. exfalso.
    assert (0 < lw (r_word r)) by (apply Hfl; [exact Hws|rewrite E; discriminate]). rewrite E in *. lia. }
  assert (Hr1 : ws c = false -> r1 = r).
  { intros Hws. subst r1. rewrite Hws. reflexivity. }
  clearbody r1. destruct (ws c) eqn:Hws.
  - specialize (Hw0 eq_refl). destruct (cp c =? 10); [rprj; rewrite Hw0; reflexivity|].
    destruct (cp c =? 9).
    + pose proof (r_tab_only W r1 (i, r_wrapped r1) (i, true)) as (g1 & g2 & g3 & g4).
      destruct (snd (r_tab W r1 (i, r_wrapped r1) (i, true))); rprj; rewrite g3, Hw0; reflexivity.
    + destruct (cw c) as [w1|]; [|rewrite Hw0; reflexivity].
      destruct (W <? lw (r_line r1) + r_nsp r1 + w1); rprj; [|rewrite Hw0; reflexivity].
      pose proof (r_flush_line_only (r_set_space r1 (r_sp r1) 0)) as (g1 & g2 & g3 & g4).
      rewrite g3. rprj. rewrite Hw0. reflexivity.
  - rewrite (Hr1 eq_refl). cbn [negb andb]. destruct (cw c) as [w1|]; [|exact Hw].
    rprj. rewrite map_app. cbn [map fst]. f_equal. exact Hw.
Qed.

Lemma flush_hyp_words r c s w :
  map fst (r_word r) = w -> Forall wpos (words_aux (c :: s) (rev w)) -> flush_hyp r c.
Proof.
  intros Hw Hwords Hws Hne.
  destruct (words_step_ws c s w Hws Hwords) as [Hp _].
  assert (Hwne : w <> []). { intros E. subst w. apply map_eq_nil in E. contradiction. }
  specialize (Hp Hwne). unfold lw. rewrite Hw. lia.
Qed.

Lemma words_next c s w :
  Forall wpos (words_aux (c :: s) (rev w)) -> Forall wpos (words_aux s (rev (next_word w c))).
Proof.
  intros H. unfold next_word. destruct (ws c) eqn:Hws.
  - exact (proj2 (words_step_ws c s w Hws H)).
  - exact (words_step_nws c s w Hws H).
Qed.

(* a generic run: an invariant indexed by a ghost state that follows the source *)
Section Run.
Context {S : Type}.
Variable P : S -> rst -> Prop.
Variable step : S -> chr -> S.
Variable ok : S -> chr -> Prop.
Hypothesis Hstep : forall s i r c,
  P s r -> flush_hyp r c -> ok s c -> P (step s c) (r_char W i r c).

Fixpoint oks (s : S) (cs : text) : Prop :=
  match cs with
  | [] => True
  | c :: cs' => ok s c /\ oks (step s c) cs'
  end.

Lemma run_gen : forall l r w s,
  P s r -> map fst (r_word r) = w -> Forall wpos (words_aux (map snd l) (rev w)) ->
  oks s (map snd l) ->
  P (fold_left step (map snd l) s) (r_run W r l) /\
  (Forall wpos (words_aux [] (rev (map fst (r_word (r_run W r l)))))).
Proof.
  induction l as [|[i c] l IH]; intros r w s HP Hw Hwords Hoks; cbn [map snd r_run fold_left fst] in *.
  - subst w. auto.
  - destruct Hoks as [Hok Hoks'].
    pose proof (flush_hyp_words r c _ w Hw Hwords) as Hfl.
    apply (IH _ (next_word w c)).
    + apply Hstep; assumption.
    + apply r_char_word; assumption.
    + apply words_next, Hwords.
    + exact Hoks'.
Qed.
End Run.

Lemma words_pos_Forall src : words_pos src -> Forall wpos (words_aux src (rev [])).
Proof. intros H. apply Forall_forall. exact H. Qed.

(* at the end of a source that satisfies words_pos the pending word is flushed by the final
   flush_word whenever it is not empty: nothing to prove, r_flush_word handles any word *)

Lemma G_init : G r_init.
Proof.
  constructor; cbn.
  - split; [intros f l []|discriminate].
  - apply wshape_nil.
  - discriminate.
  - constructor.
Qed.

Theorem cont_pieces_shape : forall texts,
  words_pos (source texts) ->
  forall l, In (false, l) (expected_tags W texts) -> cont_shape l = true.
Proof.
  intros texts Hwp l Hin. unfold expected_tags in Hin. rewrite r_calls_run in Hin.
  destruct (run_gen (fun (_ : unit) r => G r) (fun s _ => s) (fun _ _ => True)
              (fun s i r c HG Hfl _ => G_char i r c HG Hfl)
              (ichars 0 texts) r_init [] tt G_init eq_refl) as [HG _].
  { rewrite ichars_snd. apply words_pos_Forall, Hwp. }
  { clear. generalize (map snd (ichars 0 texts)). intros cs. induction cs; cbn; auto. }
  set (r := r_run W r_init (ichars 0 texts)) in *.
  destruct (flush_word_G false r HG) as (A & _).
  pose proof (GL_flush_line _ A) as [B _].
  exact (B false l Hin eq_refl).
Qed.


(* ---- source lines without interior whitespace: the rule holds without exception ---- *)

Lemma lw_one' c m : lw [(c, m)] = cw0 c.
Proof. unfold lw. cbn [map fst]. rewrite swidth_cons, swidth_nil. apply N.add_0_r. Qed.
Definition hw_app_fits' := r_hw_app_fits W HW (fun _ => []).
Definition hw_retry' := r_hw_retry W HW.

Definition nwm (x : tc) : Prop := is_nonws x -> is_main x.
Definition line4 (f : bool) (l : list tc) : Prop :=
  if f then Forall nwm l else Forall is_wrap l.
Definition out4 (out : list (bool * list tc)) : Prop :=
  forall f l, In (f, l) out -> line4 f l.
Definition LBO (r : rst) : Prop := out4 (r_out r) /\ line4 (r_fresh r) (r_line r).

Lemma out4_app out f l : out4 out -> line4 f l -> out4 (out ++ [(f, l)]).
Proof.
  intros H1 H2 f' l' Hin. apply in_app_or in Hin. destruct Hin as [Hin|[Hin|[]]].
  - exact (H1 f' l' Hin).
  - injection Hin as <- <-. exact H2.
Qed.

Lemma line4_nil f : line4 f [].
Proof. destruct f; constructor. Qed.

Lemma line4_app f a b : line4 f a -> line4 f b -> line4 f (a ++ b).
Proof. destruct f; cbn [line4]; intros Ha Hb; apply Forall_app; auto. Qed.

Lemma LBO_emit r : LBO r -> LBO (r_emit r).
Proof. intros [H1 H2]. split; rprj; [apply out4_app; assumption|constructor]. Qed.

Lemma LBO_flush_line r : LBO r -> LBO (r_flush_line r).
Proof. intros H. unfold r_flush_line. destruct (r_line r); [exact H|apply LBO_emit, H]. Qed.

Lemma LBO_push r l : LBO r -> line4 (r_fresh r) l -> LBO (r_push r l).
Proof. intros [H1 H2] Hl. split; rprj; [exact H1|apply line4_app; assumption]. Qed.

Lemma LBO_frame r r' :
  LBO r -> r_out r' = r_out r -> r_line r' = r_line r -> r_fresh r' = r_fresh r -> LBO r'.
Proof. intros [H1 H2] E1 E2 E3. split; rewrite ?E1, ?E2, ?E3; assumption. Qed.

Lemma line4_space f m : (f = false -> snd m = true) -> line4 f [(spacel L_space, m)].
Proof.
  intros H. destruct f; cbn [line4]; constructor; try constructor.
  - intros Hn. discriminate Hn.
  - exact (H eq_refl).
Qed.

Lemma LBO_tab_go : forall k r m pos,
  LBO r -> (r_fresh r = false -> snd m = true) -> LBO (fst (r_tab_go W k r m pos)).
Proof.
  induction k as [|k IH]; intros r m pos H Hm; cbn [r_tab_go]; [exact H|].
  destruct (W <=? pos); cbn [fst]; [apply LBO_flush_line, H|].
  apply IH; [|rprj; exact Hm]. apply LBO_push; [exact H|apply line4_space, Hm].
Qed.

Lemma LBO_tab r m mw :
  LBO r -> (r_fresh r = false -> snd m = true) -> snd mw = true -> LBO (fst (r_tab W r m mw)).
Proof.
  intros H Hm Hmw. unfold r_tab. destruct (W <=? lw (r_line r) + r_nsp r); cbn [fst].
  - apply LBO_tab_go; [apply LBO_flush_line, H|intros _; exact Hmw].
  - apply LBO_tab_go; assumption.
Qed.

Lemma hw_allwrap : forall w r,
  Forall is_wrap w -> r_fresh r = false -> LBO r ->
  LBO (r_hw W w r) /\ r_fresh (r_hw W w r) = false.
Proof.
  induction w as [|x w IH]; intros r Hw Hf H; cbn [r_hw]; [auto|].
  inversion Hw as [|? ? Hx Hw']; subst.
  assert (Hpx : forall r0, r_fresh r0 = false -> LBO r0 -> LBO (r_push r0 [x])).
  { intros r0 Hf0 H0. apply LBO_push; [exact H0|]. rewrite Hf0. constructor; [exact Hx|constructor]. }
  destruct (cw0 (fst x) <=? W - lw (r_line r)).
  - apply IH; [exact Hw'|exact Hf|apply Hpx; assumption].
  - destruct (lw (r_line r) =? 0).
    + apply IH; [exact Hw'|reflexivity|]. apply LBO_emit, Hpx; assumption.
    + cbv zeta. destruct (cw0 (fst x) <=? W).
      * apply IH; [exact Hw'|reflexivity|]. apply Hpx; [reflexivity|apply LBO_emit, H].
      * apply IH; [exact Hw'|reflexivity|]. apply LBO_emit, Hpx; [reflexivity|apply LBO_emit, H].
Qed.

(* the pending word of a source line that has had no whitespace yet: the characters that fit the
   width carry the main tag, the others the continuation tag *)
Definition EC (r : rst) : Prop :=
  Forall (fun x => cw0 (fst x) <= W) (r_word r) /\
  exists pre suf, r_word r = pre ++ suf /\ Forall is_main pre /\ Forall is_wrap suf /\
    lw pre <= W /\ (r_wrapped r = false -> suf = []) /\ (r_wrapped r = true -> suf <> []) /\
    (forall x suf', suf = x :: suf' -> W < lw pre + cw0 (fst x)).

Definition PA (r : rst) : Prop :=
  out4 (r_out r) /\ r_line r = [] /\ r_nsp r = 0 /\ r_fresh r = true /\ EC r.
Definition PB (r : rst) : Prop :=
  LBO r /\ r_word r = [] /\ (r_fresh r = false -> r_wrapped r = true).

Lemma r_ws_loop_zero fuel r : r_nsp r = 0 -> r_ws_loop W fuel r = r.
Proof. intros H. destruct fuel; cbn [r_ws_loop]; rewrite H; reflexivity. Qed.

Lemma PA_flush pre r :
  PA r -> r_word r <> [] ->
  LBO (r_flush_word W pre r) /\
  (r_fresh (r_flush_word W pre r) = false -> pre = true -> r_wrapped (r_flush_word W pre r) = true).
Proof.
  intros (Hout & Hline & Hnsp & Hfresh & Hwid & pre0 & suf & Ew & Hpre & Hsuf & Hlw & Hnw & Hwn & Hcut) Hne.
  unfold r_flush_word. destruct (r_word r) as [|x0 w0] eqn:Ew0; [contradiction|]. rewrite <- Ew0 in *.
  rewrite Hline, Hnsp, lw_nil, N.sub_0_r, N.add_0_l.
  assert (Epf : r_pend_fit r = r).
  { unfold r_pend_fit. rewrite Hnsp. reflexivity. }
  destruct (N.leb_spec (lw (r_word r)) W) as [Hfit|Hnofit].
  - (* the word fits: it is all main-tagged *)
    cbv zeta. rewrite Epf.
    split; [|rprj; rewrite Hfresh; discriminate].
    split; rprj; [exact Hout|]. rewrite Hline, Hfresh. cbn [app line4].
    destruct suf as [|x suf'].
    + rewrite Ew, app_nil_r. eapply Forall_impl; [|exact Hpre]. intros a Ha _. exact Ha.
    + exfalso. specialize (Hcut x suf' eq_refl).
      rewrite Ew, lw_app in Hfit. change (x :: suf') with ([x] ++ suf') in Hfit.
      rewrite lw_app in Hfit. destruct x as [c m]. rewrite lw_one' in Hfit. cbn [fst] in Hcut. lia.
  - (* it is cut: exactly the main-tagged part stays on the first piece *)
    destruct suf as [|x suf'].
    { exfalso. rewrite Ew, app_nil_r in Hnofit. lia. }
    specialize (Hcut x suf' eq_refl).
    assert (Hxw : cw0 (fst x) <= W).
    { rewrite Ew in Hwid. apply Forall_app in Hwid. destruct Hwid as [_ Hwid].
      inversion Hwid; subst; assumption. }
    assert (Epn : r_pend_nofit W pre r = r_set_space r (if pre then r_sp r else None) 0).
    { unfold r_pend_nofit. rewrite Hline, Hnsp, lw_nil, N.sub_0_r. destruct pre.
      - destruct (N.leb_spec W 0) as [|_]; [lia|]. rewrite Epf. destruct r; cbn in *; subst; reflexivity.
      - reflexivity. }
    rewrite Epn. unfold r_place. cbv zeta.
    set (r1 := r_set_space r (if pre then r_sp r else None) 0).
    assert (E2 : r_flush_line r1 = r1).
    { unfold r_flush_line. subst r1. rprj. rewrite Hline. reflexivity. }
    rewrite E2.
    set (r3 := if pre then r_set_wrapped r1 true else r1).
    assert (E3 : r_nsp r3 = 0 /\ r_line r3 = [] /\ r_fresh r3 = true /\ r_out r3 = r_out r /\
                 r_word r3 = r_word r /\ (pre = true -> r_wrapped r3 = true)).
    { subst r3 r1. destruct pre; rprj; auto 7. repeat split; auto. discriminate. }
    destruct E3 as (e1 & e2 & e3 & e4 & e5 & e6).
    rewrite (r_ws_loop_zero _ _ e1). rprj. rewrite e5, Ew.
    set (r5 := r_set_word (r_set_space r3 None (r_nsp r3)) []).
    assert (E5 : r_line r5 = [] /\ r_fresh r5 = true /\ r_out r5 = r_out r /\
                 r_wrapped r5 = r_wrapped r3).
    { subst r5. rprj. auto. }
    destruct E5 as (f1 & f2 & f3 & f4).
    rewrite hw_app_fits' by (rewrite f1, lw_nil; lia).
    assert (Hnz : lw (r_line (r_push r5 pre0)) <> 0).
    { rprj. rewrite f1. cbn [app]. lia. }
    rewrite hw_retry'; [|exact Hnz|rprj; rewrite f1; cbn [app]; lia].
    assert (H6 : LBO (r_emit (r_push r5 pre0))).
    { apply LBO_emit, LBO_push.
      - split; [rewrite f3; exact Hout|rewrite f1; apply line4_nil].
      - rewrite f2. cbn [line4]. eapply Forall_impl; [|exact Hpre]. intros a Ha _. exact Ha. }
    destruct (hw_allwrap (x :: suf') (r_emit (r_push r5 pre0)) Hsuf eq_refl H6) as [A B].
    split; [exact A|]. intros _ Hp.
    destruct (r_hw_only W (x :: suf') (r_emit (r_push r5 pre0))) as (_ & _ & _ & g4).
    etransitivity; [exact g4|]. rprj. rewrite f4. apply e6, Hp.
Qed.

Definition step4 (ph : bool) (c : chr) : bool := if ws c then negb (cp c =? 10) else ph.
Definition ok4 (ph : bool) (c : chr) : Prop :=
  (ph = true -> is_wordchar c = false) /\ (is_wordchar c = true -> cw0 c <= W).
Definition I4 (ph : bool) (r : rst) : Prop := if ph then PB r else PA r.

Lemma I4_char ph i r c : I4 ph r -> flush_hyp r c -> ok4 ph c -> I4 (step4 ph c) (r_char W i r c).
Proof.
  intros HI Hfl [Hok1 Hok2]. unfold r_char, step4.
  destruct (ws c) eqn:Hws.
  - (* whitespace: after the flush the state is in phase B *)
    cbn [andb].
    set (r1 := if 0 <? lw (r_word r) then r_flush_word W true r else r).
    assert (HB : PB r1).
    { subst r1. destruct ph; cbn [I4] in HI.
      - destruct HI as (A & B & C). rewrite B, lw_nil.
        destruct (N.ltb_spec 0 0) as [|_]; [lia|]. split; [exact A|]. split; [exact B|exact C].
      - destruct (r_word r) as [|x0 w0] eqn:Ew.
        + rewrite lw_nil. destruct (N.ltb_spec 0 0) as [|_]; [lia|].
          destruct HI as (A & B & C & D & E). split; [|split; [exact Ew|rewrite D; discriminate]].
          split; [exact A|]. rewrite B. apply line4_nil.
        + assert (Hne : r_word r <> []) by (rewrite Ew; discriminate).
          assert (Hp : 0 < lw (r_word r)) by (apply Hfl; assumption).
          rewrite <- Ew. destruct (N.ltb_spec 0 (lw (r_word r))) as [_|]; [|lia].
          destruct (PA_flush true r HI Hne) as [A B].
          split; [exact A|]. split; [apply r_flush_word_word|]. intros Hf. exact (B Hf eq_refl). }
    clearbody r1. destruct HB as (HL & Hw & Hfw).
    destruct (cp c =? 10); cbn [negb I4].
    + (* newline: back to phase A *)
      split; rprj; [apply (LBO_emit r1 HL)|]. repeat split; auto.
      * rewrite Hw. constructor.
      * exists [], []. rewrite Hw. repeat split; auto; try constructor.
        -- cbn. lia.
        -- discriminate.
        -- intros x s' E. discriminate E.
    + destruct (cp c =? 9).
      * set (m := (i, r_wrapped r1)). set (mw := (i, true)).
        assert (Hm : r_fresh r1 = false -> snd m = true) by (intros Hf; cbn; apply Hfw, Hf).
        pose proof (LBO_tab r1 m mw HL Hm eq_refl) as HL'.
        pose proof (r_tab_only W r1 m mw) as (g1 & g2 & g3 & g4).
        pose proof (tab_quiet r1 m mw) as Hq.
        destruct (snd (r_tab W r1 m mw)).
        -- split; [eapply LBO_frame; [exact HL'|reflexivity..]|]. rprj. rewrite g3. auto.
        -- destruct (Hq eq_refl) as [q1 q2]. split; [exact HL'|]. rewrite g3, g4, q2. auto.
      * destruct (cw c) as [w|]; [|split; auto].
        destruct (W <? lw (r_line r1) + r_nsp r1 + w).
        -- pose proof (r_flush_line_only (r_set_space r1 (r_sp r1) 0)) as (g1 & g2 & g3 & g4).
           split; rprj; [|rewrite g3; auto].
           eapply LBO_frame; [apply (LBO_flush_line (r_set_space r1 (r_sp r1) 0))|reflexivity..].
           eapply LBO_frame; [exact HL|reflexivity..].
        -- split; rprj; [eapply LBO_frame; [exact HL|reflexivity..]|auto].
  - (* not whitespace *)
    cbn [andb]. destruct (cw c) as [w|] eqn:Ecw; [|exact HI].
    assert (Hwc : is_wordchar c = true) by (unfold is_wordchar; rewrite Hws, Ecw; reflexivity).
    destruct ph; [specialize (Hok1 eq_refl); congruence|].
    assert (Hc0 : cw0 c = w) by (unfold cw0; rewrite Ecw; reflexivity).
    specialize (Hok2 Hwc). cbn [I4] in *.
    destruct HI as (Hout & Hline & Hnsp & Hfresh & Hwid & pre0 & suf & Ew & Hpre & Hsuf & Hlw & Hnw & Hwn & Hcut).
    split; [exact Hout|]. rprj. repeat split; auto.
    + apply Forall_app. split; [exact Hwid|]. constructor; [cbn [fst]; lia|constructor].
    + rewrite Hline, Hnsp, lw_nil. rewrite !N.add_0_l.
      destruct (r_wrapped r) eqn:Ewr; cbn [orb].
      * exists pre0, (suf ++ [(c, (i, true))]). rewrite Ew, app_assoc.
        split; [reflexivity|]. split; [exact Hpre|].
        split; [apply Forall_app; split; [exact Hsuf|constructor; [reflexivity|constructor]]|].
        split; [exact Hlw|]. split; [discriminate|].
        split; [intros _ E; apply app_eq_nil in E; destruct E as [_ E]; discriminate E|].
        intros x s' E. destruct suf as [|y suf'].
        -- (* the flag is set only by a character that does not fit *)
           exfalso. apply (Hwn eq_refl). reflexivity.
        -- cbn [app] in E. injection E as <- <-. apply (Hcut y suf' eq_refl).
      * specialize (Hnw eq_refl). subst suf. rewrite app_nil_r in Ew.
        destruct (N.ltb_spec W (lw (r_word r) + w)) as [Hov|Hfit].
        -- exists pre0, [(c, (i, true))]. rewrite Ew.
           split; [reflexivity|]. split; [exact Hpre|].
           split; [constructor; [reflexivity|constructor]|]. split; [exact Hlw|].
           split; [discriminate|]. split; [discriminate|].
           intros x s' E. injection E as <- <-. cbn [fst]. rewrite Ew in Hov. lia.
        -- exists (pre0 ++ [(c, (i, false))]), []. rewrite Ew, app_nil_r.
           split; [reflexivity|].
           split; [apply Forall_app; split; [exact Hpre|constructor; [reflexivity|constructor]]|].
           split; [constructor|]. rewrite lw_app, lw_one'. rewrite Ew in Hfit.
           split; [lia|]. split; [reflexivity|]. split; [discriminate|].
           intros x s' E. discriminate E.
Qed.

Lemma PA_init : PA r_init.
Proof.
  split; [intros f l []|]. split; [reflexivity|]. split; [reflexivity|]. split; [reflexivity|].
  split; [constructor|]. exists [], [].
  split; [reflexivity|]. split; [constructor|]. split; [constructor|].
  split; [cbn; lia|]. split; [reflexivity|]. split; [discriminate|].
  intros x s' E. discriminate E.
Qed.

Lemma I4_finish ph r : I4 ph r -> out4 (r_out (r_finish W r)).
Proof.
  intros HI. unfold r_finish.
  assert (HL : LBO (r_flush_word W false r)).
  { destruct ph; cbn [I4] in HI.
    - destruct HI as (A & B & C). unfold r_flush_word. rewrite B. exact A.
    - destruct (r_word r) as [|x0 w0] eqn:Ew.
      + unfold r_flush_word. rewrite Ew. destruct HI as (A & B & C & D & E).
        split; [exact A|]. rewrite B. apply line4_nil.
      + apply (PA_flush false r HI). rewrite Ew. discriminate. }
  apply (LBO_flush_line _ HL).
Qed.

Theorem one_word_lines_rule_sec : forall texts,
  words_pos (source texts) -> oks step4 ok4 false (source texts) ->
  forall f l, In (f, l) (expected_tags W texts) -> line4 f l.
Proof.
  intros texts Hwp Hok f l Hin. unfold expected_tags in Hin. rewrite r_calls_run in Hin.
  destruct (run_gen I4 step4 ok4 I4_char (ichars 0 texts) r_init [] false PA_init eq_refl) as [HI _].
  { rewrite ichars_snd. apply words_pos_Forall, Hwp. }
  { rewrite ichars_snd. exact Hok. }
  exact (I4_finish _ _ HI f l Hin).
Qed.

(* ---- first pieces, in general ---- *)

Definition line3 (f : bool) (l : list tc) : Prop := if f then Forall is_main l else True.
Definition out3 (out : list (bool * list tc)) : Prop := forall f l, In (f, l) out -> line3 f l.
Definition FO (r : rst) : Prop := out3 (r_out r) /\ line3 (r_fresh r) (r_line r).

Lemma out3_app out f l : out3 out -> line3 f l -> out3 (out ++ [(f, l)]).
Proof.
  intros H1 H2 f' l' Hin. apply in_app_or in Hin. destruct Hin as [Hin|[Hin|[]]].
  - exact (H1 f' l' Hin).
  - injection Hin as <- <-. exact H2.
Qed.
Lemma line3_nil f : line3 f [].
Proof. destruct f; constructor. Qed.
Lemma line3_app f a b : line3 f a -> line3 f b -> line3 f (a ++ b).
Proof. destruct f; cbn [line3]; intros Ha Hb; [apply Forall_app; auto|exact I]. Qed.
Lemma line3_false l : line3 false l.
Proof. exact I. Qed.

Lemma FO_emit r : FO r -> FO (r_emit r).
Proof. intros [H1 H2]. split; rprj; [apply out3_app; assumption|exact I]. Qed.
Lemma FO_flush_line r : FO r -> FO (r_flush_line r).
Proof. intros H. unfold r_flush_line. destruct (r_line r); [exact H|apply FO_emit, H]. Qed.
Lemma FO_push r l : FO r -> line3 (r_fresh r) l -> FO (r_push r l).
Proof. intros [H1 H2] Hl. split; rprj; [exact H1|apply line3_app; assumption]. Qed.
Lemma FO_frame r r' :
  FO r -> r_out r' = r_out r -> r_line r' = r_line r -> r_fresh r' = r_fresh r -> FO r'.
Proof. intros [H1 H2] E1 E2 E3. split; rewrite ?E1, ?E2, ?E3; assumption. Qed.

Lemma line3_spc f n m : (f = true -> snd m = false) -> line3 f (spc n m).
Proof.
  intros H. destruct f; cbn [line3]; [|exact I]. specialize (H eq_refl).
  unfold spc. apply Forall_map. apply Forall_forall. intros c _. exact H.
Qed.

Lemma FO_tab_go : forall k r m pos,
  FO r -> (r_fresh r = true -> snd m = false) -> FO (fst (r_tab_go W k r m pos)).
Proof.
  induction k as [|k IH]; intros r m pos H Hm; cbn [r_tab_go]; [exact H|].
  destruct (W <=? pos); cbn [fst]; [apply FO_flush_line, H|].
  apply IH; [|rprj; exact Hm]. apply FO_push; [exact H|].
  destruct (r_fresh r); cbn [line3]; [|exact I]. constructor; [exact (Hm eq_refl)|constructor].
Qed.

(* once a line of the source line has been emitted, no first piece is added *)
Lemma FO_nf_emit r : r_fresh r = false -> FO r -> FO (r_emit r) /\ r_fresh (r_emit r) = false.
Proof. intros _ H. split; [apply FO_emit, H|reflexivity]. Qed.

Lemma FO_nf_flush_line r :
  r_fresh r = false -> FO r -> FO (r_flush_line r) /\ r_fresh (r_flush_line r) = false.
Proof.
  intros Hf H. unfold r_flush_line. destruct (r_line r); [auto|]. split; [apply FO_emit, H|reflexivity].
Qed.

Lemma FO_nf_push r l : r_fresh r = false -> FO r -> FO (r_push r l) /\ r_fresh (r_push r l) = false.
Proof. intros Hf H. split; [apply FO_push; [exact H|rewrite Hf; exact I]|exact Hf]. Qed.

Lemma FO_nf_ws_loop : forall fuel r,
  r_fresh r = false -> FO r -> FO (r_ws_loop W fuel r) /\ r_fresh (r_ws_loop W fuel r) = false.
Proof.
  induction fuel as [|f IH]; intros r Hf H; cbn [r_ws_loop]; destruct (r_nsp r =? 0); auto.
  destruct (r_sp r) as [m|]; [|auto].
  destruct (FO_nf_push r (spc (N.min (r_nsp r) W) m) Hf H) as [H1 Hf1].
  destruct (N.min (r_nsp r) W =? W).
  - destruct (FO_nf_flush_line _ Hf1 H1) as [H2 Hf2].
    apply IH; [exact Hf2|]. eapply FO_frame; [exact H2|reflexivity..].
  - apply IH; [exact Hf1|]. eapply FO_frame; [exact H1|reflexivity..].
Qed.

Lemma FO_nf_hw : forall w r,
  r_fresh r = false -> FO r -> FO (r_hw W w r) /\ r_fresh (r_hw W w r) = false.
Proof.
  induction w as [|x w IH]; intros r Hf H; cbn [r_hw]; [auto|].
  destruct (cw0 (fst x) <=? W - lw (r_line r)).
  - destruct (FO_nf_push r [x] Hf H) as [H1 Hf1]. apply IH; assumption.
  - destruct (lw (r_line r) =? 0).
    + destruct (FO_nf_push r [x] Hf H) as [H1 Hf1]. apply IH; [reflexivity|apply FO_emit, H1].
    + cbv zeta. destruct (FO_nf_push (r_emit r) [x] eq_refl (FO_emit r H)) as [H1 Hf1].
      destruct (cw0 (fst x) <=? W).
      * apply IH; assumption.
      * apply IH; [reflexivity|apply FO_emit, H1].
Qed.

Lemma FO_nf_tab_go : forall k r m pos,
  r_fresh r = false -> FO r ->
  FO (fst (r_tab_go W k r m pos)) /\ r_fresh (fst (r_tab_go W k r m pos)) = false.
Proof.
  induction k as [|k IH]; intros r m pos Hf H; cbn [r_tab_go]; [auto|].
  destruct (W <=? pos); cbn [fst]; [apply FO_nf_flush_line; assumption|].
  destruct (FO_nf_push r [(spacel L_space, m)] Hf H) as [H1 Hf1]. apply IH; assumption.
Qed.

(* the rest of r_place once its first flush_line has left a non-fresh state *)
Lemma FO_nf_place_tail (pre : bool) (r2 : rst) :
  r_fresh r2 = false -> FO r2 ->
  let r3 : rst := if pre then r_set_wrapped r2 true else r2 in
  let r4 := r_ws_loop W (S (N.to_nat (r_nsp r3))) r3 in
  let r5 := r_set_space r4 None (r_nsp r4) in
  FO (r_hw W (r_word r5) (r_set_word r5 [])) /\
  r_fresh (r_hw W (r_word r5) (r_set_word r5 [])) = false.
Proof.
  intros Hf H. cbv zeta.
  set (r3 := if pre then r_set_wrapped r2 true else r2).
  assert (H3 : FO r3 /\ r_fresh r3 = false).
  { subst r3. destruct pre; [|auto]. split; [eapply FO_frame; [exact H|reflexivity..]|exact Hf]. }
  destruct H3 as [H3 Hf3].
  destruct (FO_nf_ws_loop (S (N.to_nat (r_nsp r3))) r3 Hf3 H3) as [H4 Hf4].
  apply FO_nf_hw; [exact Hf4|]. eapply FO_frame; [exact H4|reflexivity..].
Qed.

Lemma r_ws_loop_nsp : forall fuel r,
  (N.to_nat (r_nsp r) < fuel)%nat -> (0 < r_nsp r -> r_sp r <> None) ->
  r_nsp (r_ws_loop W fuel r) = 0.
Proof.
  induction fuel as [|f IH]; intros r Hfuel Hsp; [lia|]. cbn [r_ws_loop].
  destruct (N.eqb_spec (r_nsp r) 0) as [Ez|Enz]; [exact Ez|].
  destruct (r_sp r) as [m|] eqn:Esp; [|exfalso; apply Hsp; [lia|reflexivity]].
  apply IH; rprj.
  - destruct (N.min (r_nsp r) W =? W).
    + destruct (r_flush_line_only (r_push r (spc (N.min (r_nsp r) W) m))) as (g1 & _).
      rewrite g1. rprj. lia.
    + rprj. lia.
  - intros _. destruct (N.min (r_nsp r) W =? W).
    + destruct (r_flush_line_only (r_push r (spc (N.min (r_nsp r) W) m))) as (_ & g2 & _).
      rewrite g2. rprj. rewrite Esp. discriminate.
    + rprj. rewrite Esp. discriminate.
Qed.

Definition spn (r : rst) : Prop := 0 < r_nsp r -> r_sp r <> None.
Definition spmain (r : rst) : Prop :=
  r_fresh r = true -> 0 < r_nsp r -> forall m, r_sp r = Some m -> snd m = false.

Lemma r_pend_fit_facts r :
  spn r ->
  r_nsp (r_pend_fit r) = 0 /\ lw (r_line (r_pend_fit r)) = lw (r_line r) + r_nsp r /\
  r_out (r_pend_fit r) = r_out r /\ r_fresh (r_pend_fit r) = r_fresh r /\
  (r_line (r_pend_fit r) = [] -> r_line r = [] /\ r_nsp r = 0).
Proof.
  intros Hs. unfold r_pend_fit. destruct (N.ltb_spec 0 (r_nsp r)) as [Hp|Hz].
  - destruct (r_sp r) as [m|] eqn:E; [|exfalso; apply (Hs Hp); exact E].
    rprj. rewrite lw_app, lw_spc.
    split; [reflexivity|]. split; [reflexivity|]. split; [reflexivity|]. split; [reflexivity|].
    intros E0. exfalso. apply (f_equal lw) in E0. rewrite lw_app, lw_spc, lw_nil in E0. lia.
  - assert (Ez : r_nsp r = 0) by lia.
    split; [exact Ez|]. split; [lia|]. split; [reflexivity|]. split; [reflexivity|].
    intros E0. split; [exact E0|exact Ez].
Qed.

Lemma FO_pend_fit r : FO r -> spmain r -> FO (r_pend_fit r).
Proof.
  intros H Hm. unfold r_pend_fit. destruct (N.ltb_spec 0 (r_nsp r)) as [Hp|Hz]; [|exact H].
  destruct (r_sp r) as [m|] eqn:E; [|exact H].
  eapply FO_frame; [apply (FO_push r (spc (r_nsp r) m) H)|reflexivity..].
  apply line3_spc. intros Hf. exact (Hm Hf Hp m E).
Qed.

Definition ecg (r : rst) : Prop :=
  exists pre x suf, r_word r = pre ++ x :: suf /\ Forall is_main pre /\ Forall is_wrap (x :: suf) /\
    lw (r_line r) + r_nsp r + lw pre <= W /\ W < lw (r_line r) + r_nsp r + lw pre + cw0 (fst x).

Record F3 (r : rst) : Prop := mkF3 {
  F_G : G r;
  F_J : J W false r;
  F_fo : FO r;
  F_spn : spn r;
  F_sp : spmain r;
  F_ec : r_fresh r = true -> r_wrapped r = true -> ecg r;
  F_fit : r_wrapped r = false -> lw (r_line r) + r_nsp r <= W
}.

(* what the flush of a non-empty word at a whitespace character leaves *)
Definition after_flush (r' : rst) : Prop :=
  (r_fresh r' = false /\ r_wrapped r' = true) \/
  (r_fresh r' = true /\ r_wrapped r' = false /\ r_line r' <> [] /\
   lw (r_line r') + r_nsp r' <= W).

Lemma r_place_nsp pre r : spn r -> r_nsp (r_place W pre r) = 0.
Proof.
  intros Hs. unfold r_place. cbv zeta.
  match goal with |- r_nsp (r_hw W ?w ?x) = 0 => destruct (r_hw_only W w x) as (g1 & _) end.
  etransitivity; [exact g1|]. rprj. apply r_ws_loop_nsp; [lia|].
  destruct (r_flush_line_only r) as (h1 & h2 & _).
  destruct pre; rprj; rewrite h1, h2; exact Hs.
Qed.

Lemma FO_nf_place pre r :
  FO r -> (r_line r <> [] \/ r_fresh r = false) ->
  FO (r_place W pre r) /\ r_fresh (r_place W pre r) = false.
Proof.
  intros H Hor. unfold r_place.
  assert (H2 : FO (r_flush_line r) /\ r_fresh (r_flush_line r) = false).
  { unfold r_flush_line. destruct (r_line r) eqn:E.
    - destruct Hor as [Hne|Hf]; [contradiction|auto].
    - split; [apply FO_emit, H|reflexivity]. }
  destruct H2 as [H2 Hf2]. apply FO_nf_place_tail; assumption.
Qed.

Lemma F3_flush r :
  F3 r -> (r_fresh r = true -> r_line r = [] -> r_nsp r < W) -> r_word r <> [] ->
  FO (r_flush_word W true r) /\ r_nsp (r_flush_word W true r) = 0 /\
  after_flush (r_flush_word W true r).
Proof.
  intros [HG HJ Hfo Hspn Hsp Hec Hfit] Hlead Hne.
  destruct (r_pend_fit_facts r Hspn) as (p1 & p2 & p3 & p4 & p5).
  destruct (r_pend_fit_keep r) as [p6 p7].
  pose proof (FO_pend_fit r Hfo Hsp) as Hfo1.
  assert (Hspn1 : spn (r_pend_nofit W true r)).
  { unfold r_pend_nofit. destruct (W - lw (r_line r) <=? r_nsp r).
    - unfold spn. rprj. intros Hp. apply Hspn. lia.
    - unfold spn. rewrite p1. lia. }
  unfold r_flush_word. destruct (r_word r) as [|x0 w0] eqn:Ew0; [contradiction|]. rewrite <- Ew0 in *.
  destruct (N.leb_spec (r_nsp r + lw (r_word r)) (W - lw (r_line r))) as [Hok|Hbad].
  - (* the word fits *)
    cbv zeta. destruct (r_fresh r) eqn:Hf.
    + destruct (r_wrapped r) eqn:Hwr.
      * exfalso. destruct (Hec eq_refl eq_refl) as (pre0 & x & suf & Ew & Hpre & Hsuf & Hle & Hgt).
        rewrite Ew, lw_app in Hok. change (x :: suf) with ([x] ++ suf) in Hok. rewrite lw_app in Hok.
        destruct x as [c m]. rewrite lw_one' in Hok. cbn [fst] in Hgt. lia.
      * specialize (Hfit eq_refl). split; [|split].
        -- split; rprj; [rewrite p3; apply Hfo|]. rewrite p4. cbn [line3].
           apply Forall_app. split.
           ++ destruct Hfo1 as [_ Hl1]. rewrite p4 in Hl1. exact Hl1.
           ++ rewrite p6. apply (G_nw _ HG), Hwr.
        -- rprj. exact p1.
        -- right. rprj. rewrite p4, p7, p6. split; [reflexivity|]. split; [reflexivity|]. split.
           ++ intros E. apply app_eq_nil in E. destruct E as [_ E]. rewrite E in Ew0. discriminate Ew0.
           ++ rewrite lw_app, p2, p1. lia.
    + destruct (G_fw _ HG Hf) as [Hwr _]. split; [|split].
      * split; rprj; [rewrite p3; apply Hfo|rewrite p4; exact I].
      * rprj. exact p1.
      * left. rprj. rewrite p4, p7. auto.
  - (* it does not fit *)
    split; [|split; [apply r_place_nsp, Hspn1|]].
    2:{ left. rewrite r_place_wrapped. split; [|reflexivity].
        (* freshness is settled together with FO below; here via the same case analysis *)
        destruct (r_fresh r) eqn:Hf.
        - destruct (r_wrapped r) eqn:Hwr.
          + destruct (Hec eq_refl eq_refl) as (pre0 & x & suf & Ew & Hpre & Hsuf & Hle & Hgt).
            assert (Hxw : cw0 (fst x) <= W).
            { pose proof (J_lokw _ _ _ HJ) as Hl. rewrite Ew in Hl. apply Forall_app in Hl.
              destruct Hl as [_ Hl]. inversion Hl as [|? ? Hx _]; subst. exact Hx. }
            unfold r_pend_nofit.
            destruct (N.leb_spec (W - lw (r_line r)) (r_nsp r)) as [Hdrop|Hkeep].
            * apply FO_nf_place; [eapply FO_frame; [exact Hfo|reflexivity..]|]. left. rprj.
              intros E. specialize (Hlead eq_refl E). rewrite E, lw_nil in Hdrop. lia.
            * destruct (r_line (r_pend_fit r)) as [|y l1] eqn:El1.
              -- destruct (p5 eq_refl) as [El Ens]. rewrite El, Ens, lw_nil in *.
                 unfold r_place. cbv zeta.
                 assert (E2 : r_flush_line (r_pend_fit r) = r_pend_fit r)
                   by (unfold r_flush_line; rewrite El1; reflexivity).
                 rewrite E2.
                 rewrite (r_ws_loop_zero _ (r_set_wrapped (r_pend_fit r) true)) by (rprj; exact p1).
                 rprj. rewrite p6, Ew.
                 set (r5 := r_set_word (r_set_space (r_set_wrapped (r_pend_fit r) true) None
                                          (r_nsp (r_pend_fit r))) []).
                 assert (f1 : r_line r5 = []) by (subst r5; rprj; exact El1).
                 rewrite hw_app_fits' by (rewrite f1, lw_nil; lia).
                 rewrite hw_retry'; [| rprj; rewrite f1; cbn [app]; lia | rprj; rewrite f1; cbn [app]; lia].
                 apply FO_nf_hw; [reflexivity|]. apply FO_emit, FO_push.
                 ++ split; [subst r5; rprj; rewrite p3; apply Hfo|rewrite f1; apply line3_nil].
                 ++ subst r5. rprj. rewrite p4. exact Hpre.
              -- apply FO_nf_place; [exact Hfo1|]. left. rewrite El1. discriminate.
          + exfalso. assert (Hk : r_wrapped r = true).
            { apply (J_K _ _ _ HJ); [exact Hne|]. specialize (Hfit eq_refl). lia. }
            congruence.
        - apply FO_nf_place.
          + unfold r_pend_nofit. destruct (W - lw (r_line r) <=? r_nsp r);
              [eapply FO_frame; [exact Hfo|reflexivity..]|exact Hfo1].
          + right. unfold r_pend_nofit. destruct (W - lw (r_line r) <=? r_nsp r); [exact Hf|exact p4]. }
    (* FO: the same case analysis *)
    destruct (r_fresh r) eqn:Hf.
    + destruct (r_wrapped r) eqn:Hwr.
      * destruct (Hec eq_refl eq_refl) as (pre0 & x & suf & Ew & Hpre & Hsuf & Hle & Hgt).
        assert (Hxw : cw0 (fst x) <= W).
        { pose proof (J_lokw _ _ _ HJ) as Hl. rewrite Ew in Hl. apply Forall_app in Hl.
          destruct Hl as [_ Hl]. inversion Hl as [|? ? Hx _]; subst. exact Hx. }
        unfold r_pend_nofit.
        destruct (N.leb_spec (W - lw (r_line r)) (r_nsp r)) as [Hdrop|Hkeep].
        -- apply FO_nf_place; [eapply FO_frame; [exact Hfo|reflexivity..]|]. left. rprj.
           intros E. specialize (Hlead eq_refl E). rewrite E, lw_nil in Hdrop. lia.
        -- destruct (r_line (r_pend_fit r)) as [|y l1] eqn:El1.
           ++ destruct (p5 eq_refl) as [El Ens]. rewrite El, Ens, lw_nil in *.
              unfold r_place. cbv zeta.
              assert (E2 : r_flush_line (r_pend_fit r) = r_pend_fit r)
                by (unfold r_flush_line; rewrite El1; reflexivity).
              rewrite E2.
              rewrite (r_ws_loop_zero _ (r_set_wrapped (r_pend_fit r) true)) by (rprj; exact p1).
              rprj. rewrite p6, Ew.
              set (r5 := r_set_word (r_set_space (r_set_wrapped (r_pend_fit r) true) None
                                       (r_nsp (r_pend_fit r))) []).
              assert (f1 : r_line r5 = []) by (subst r5; rprj; exact El1).
              rewrite hw_app_fits' by (rewrite f1, lw_nil; lia).
              rewrite hw_retry'; [| rprj; rewrite f1; cbn [app]; lia | rprj; rewrite f1; cbn [app]; lia].
              apply FO_nf_hw; [reflexivity|]. apply FO_emit, FO_push.
              ** split; [subst r5; rprj; rewrite p3; apply Hfo|rewrite f1; apply line3_nil].
              ** subst r5. rprj. rewrite p4. exact Hpre.
           ++ apply FO_nf_place; [exact Hfo1|]. left. rewrite El1. discriminate.
      * exfalso. assert (Hk : r_wrapped r = true).
        { apply (J_K _ _ _ HJ); [exact Hne|]. specialize (Hfit eq_refl). lia. }
        congruence.
    + apply FO_nf_place.
      * unfold r_pend_nofit. destruct (W - lw (r_line r) <=? r_nsp r);
          [eapply FO_frame; [exact Hfo|reflexivity..]|exact Hfo1].
      * right. unfold r_pend_nofit. destruct (W - lw (r_line r) <=? r_nsp r); [exact Hf|exact p4].
Qed.

(* tabs and freshness *)
Lemma flush_line_fresh_mono r : r_fresh (r_flush_line r) = true -> r_fresh r = true.
Proof. unfold r_flush_line. destruct (r_line r); [auto|discriminate]. Qed.

Lemma flush_line_ne r :
  r_line r <> [] \/ r_fresh r = false -> r_fresh (r_flush_line r) = false.
Proof.
  unfold r_flush_line. destruct (r_line r) eqn:E; [|reflexivity].
  intros [H|H]; [contradiction|exact H].
Qed.

Lemma tab_go_fresh_mono : forall k r m pos,
  r_fresh (fst (r_tab_go W k r m pos)) = true -> r_fresh r = true.
Proof.
  induction k as [|k IH]; intros r m pos H; cbn [r_tab_go] in H; [exact H|].
  destruct (W <=? pos); cbn [fst] in H; [apply flush_line_fresh_mono, H|].
  apply IH in H. exact H.
Qed.

Lemma tab_go_ne : forall k r m pos,
  r_line r <> [] \/ r_fresh r = false ->
  (r_fresh (fst (r_tab_go W k r m pos)) = false \/ r_line (fst (r_tab_go W k r m pos)) <> []) /\
  (snd (r_tab_go W k r m pos) = true -> r_fresh (fst (r_tab_go W k r m pos)) = false).
Proof.
  induction k as [|k IH]; intros r m pos H; cbn [r_tab_go].
  - cbn [fst snd]. split; [destruct H; auto|discriminate].
  - destruct (W <=? pos); cbn [fst snd].
    + pose proof (flush_line_ne r H). auto.
    + apply IH. rprj. destruct H as [H|H]; [left|right; exact H].
      intros E. apply app_eq_nil in E. destruct E as [_ E]. discriminate E.
Qed.

Definition tab_pre (r : rst) : Prop :=
  r_fresh r = false \/ r_line r <> [] \/ lw (r_line r) + r_nsp r < W.

Lemma tab_after r m mw :
  tab_pre r ->
  (r_fresh (fst (r_tab W r m mw)) = false \/ r_line (fst (r_tab W r m mw)) <> []) /\
  (snd (r_tab W r m mw) = true -> r_fresh (fst (r_tab W r m mw)) = false).
Proof.
  intros Hp. unfold r_tab.
  destruct (N.leb_spec W (lw (r_line r) + r_nsp r)) as [Hge|Hlt]; cbn [fst snd].
  - assert (Hf : r_fresh (r_flush_line r) = false).
    { apply flush_line_ne. destruct Hp as [H|[H|H]]; [auto|auto|lia]. }
    destruct (tab_go_ne 8 (r_flush_line r) mw 0 (or_intror Hf)) as [A B].
    split; [exact A|]. intros _.
    destruct (r_fresh (fst (r_tab_go W 8 (r_flush_line r) mw 0))) eqn:E; [|reflexivity].
    apply tab_go_fresh_mono in E. congruence.
  - rewrite (tabk_first W HW). cbn [r_tab_go].
    destruct (N.leb_spec W (lw (r_line r) + r_nsp r)) as [|_]; [lia|].
    apply tab_go_ne. left. rprj. intros E. apply app_eq_nil in E. destruct E as [_ E]. discriminate E.
Qed.

Lemma tab_fresh_mono r m mw : r_fresh (fst (r_tab W r m mw)) = true -> r_fresh r = true.
Proof.
  unfold r_tab. destruct (W <=? lw (r_line r) + r_nsp r); cbn [fst]; intros H.
  - apply tab_go_fresh_mono in H. apply flush_line_fresh_mono, H.
  - apply tab_go_fresh_mono in H. exact H.
Qed.

Lemma FO_tab3 r m mw :
  FO r -> (r_fresh r = true -> snd m = false) -> tab_pre r -> FO (fst (r_tab W r m mw)).
Proof.
  intros H Hm Hp. unfold r_tab.
  destruct (N.leb_spec W (lw (r_line r) + r_nsp r)) as [Hge|Hlt]; cbn [fst].
  - assert (Hf : r_fresh (r_flush_line r) = false).
    { apply flush_line_ne. destruct Hp as [H0|[H0|H0]]; [auto|auto|lia]. }
    apply FO_tab_go; [apply FO_flush_line, H|]. rewrite Hf. discriminate.
  - apply FO_tab_go; assumption.
Qed.

(* the ghost state of a source line: Some acc = only non-tab whitespace so far, of total width
   acc; None = a tab or a word character has been seen *)
Definition step3 (s : option N) (c : chr) : option N :=
  if ws c then
    if cp c =? 10 then Some 0
    else if cp c =? 9 then None
    else match s with Some acc => Some (acc + cw0 c) | None => None end
  else if is_wordchar c then None else s.
Definition ok3 (s : option N) (c : chr) : Prop :=
  (is_wordchar c = true -> cw0 c <= W) /\
  match s with
  | Some acc => ws c = true -> (cp c =? 10) = false -> (cp c =? 9) = false -> acc + cw0 c < W
  | None => True
  end.
Definition M3 (s : option N) (r : rst) : Prop :=
  match s with
  | Some acc => acc < W /\ r_line r = [] /\ r_word r = [] /\ r_nsp r <= acc /\
                r_fresh r = true /\ r_wrapped r = false
  | None => r_fresh r = true -> r_line r = [] -> r_word r <> [] /\ r_nsp r < W
  end.
Definition I3 (s : option N) (r : rst) : Prop := F3 r /\ M3 s r.

Lemma ecg_word r : ecg r -> r_word r <> [].
Proof. intros (p & x & q & E & _) H. rewrite H in E. destruct p; discriminate E. Qed.

Lemma I3_char s i r c : I3 s r -> flush_hyp r c -> ok3 s c -> I3 (step3 s c) (r_char W i r c).
Proof.
  intros [HF HM] Hfl [Hok1 Hok2].
  assert (Hsrc : src_ok W false c).
  { intros Hws Hcw. unfold okc. apply Hok1. unfold is_wordchar. rewrite Hws.
    destruct (cw c); [reflexivity|contradiction]. }
  pose proof (G_char i r c (F_G _ HF) Hfl) as HG'.
  pose proof (J_char W HW (fun _ => []) false i r c (F_J _ HF) Hsrc) as HJ'.
  assert (Hlead : r_fresh r = true -> r_line r = [] -> r_nsp r < W).
  { intros Hf Hl. destruct s as [acc|]; cbn [M3] in HM.
    - destruct HM as (A & _ & _ & B & _). lia.
    - apply (HM Hf Hl). }
  revert HG' HJ'. unfold r_char, step3.
  destruct (ws c) eqn:Hws.
  - (* a whitespace character; first the flush *)
    cbn [andb].
    set (r1 := if 0 <? lw (r_word r) then r_flush_word W true r else r).
    assert (H1 : F3 r1 /\ r_word r1 = [] /\
                 match s with
                 | Some acc => r1 = r
                 | None => r_fresh r1 = false \/ r_line r1 <> []
                 end).
    { subst r1. destruct (r_word r) as [|x0 w0] eqn:Ew.
      - rewrite lw_nil. destruct (N.ltb_spec 0 0) as [|_]; [lia|].
        split; [exact HF|]. split; [exact Ew|]. destruct s as [acc|]; [reflexivity|].
        cbn [M3] in HM. destruct (r_fresh r) eqn:Hf; [|auto]. right. intros El.
        destruct (HM eq_refl El) as [A _]. apply A, Ew.
      - assert (Hne : r_word r <> []) by (rewrite Ew; discriminate).
        assert (Hp : 0 < lw (r_word r)) by (apply Hfl; assumption).
        rewrite <- Ew. destruct (N.ltb_spec 0 (lw (r_word r))) as [_|]; [|lia].
        destruct (F3_flush r HF Hlead Hne) as (A & B & C).
        pose proof (r_flush_word_word W true r) as Ew'.
        split; [|split; [exact Ew'|]].
        + constructor.
          * apply G_flush_word_pre, (F_G _ HF).
          * apply J_flush_word; [exact HW|apply (F_J _ HF)].
          * exact A.
          * unfold spn. rewrite B. lia.
          * unfold spmain. rewrite B. lia.
          * intros Hf Hw. destruct C as [[C1 C2]|[C1 [C2 _]]]; congruence.
          * intros Hw. destruct C as [[C1 C2]|(C1 & C2 & C3 & C4)]; [congruence|exact C4].
        + destruct s as [acc|].
          * cbn [M3] in HM. destruct HM as (_ & _ & E & _). congruence.
          * destruct C as [[C1 _]|(_ & _ & C3 & _)]; auto. }
    destruct H1 as (HF1 & Ew1 & HQ).
    assert (Hfw1 : r_fresh r1 = true -> r_wrapped r1 = false).
    { intros Hf. destruct (r_wrapped r1) eqn:Hw; [|reflexivity].
      exfalso. apply (ecg_word r1 (F_ec _ HF1 Hf Hw)), Ew1. }
    assert (HM1 : M3 s r1).
    { destruct s as [acc|]; [rewrite HQ; exact HM|]. cbn [M3]. intros Hf Hl.
      destruct HQ as [HQ|HQ]; [congruence|contradiction]. }
    assert (HQ' : s = None -> r_fresh r1 = false \/ r_line r1 <> []).
    { intros ->. exact HQ. }
    clearbody r1. clear HQ HF HM Hlead Hfl r. rename r1 into r.
    destruct HF1 as [HG HJ Hfo Hspn Hsp Hec Hfit].
    destruct (cp c =? 10) eqn:E10.
    + (* newline *)
      intros HG' HJ'. split.
      * apply mkF3; [exact HG'|exact HJ'| | | | |]; rprj.
        -- split; rprj; [apply (FO_emit r Hfo)|constructor].
        -- unfold spn. rprj. lia.
        -- unfold spmain. rprj. lia.
        -- discriminate.
        -- intros _. rewrite lw_nil. lia.
      * cbn [M3]. rprj. repeat split; auto; lia.
    + destruct (cp c =? 9) eqn:E9.
      * (* tab *)
        set (m := (i, r_wrapped r)). set (mw := (i, true)).
        assert (Hm : r_fresh r = true -> snd m = false) by (intros Hf; cbn; apply Hfw1, Hf).
        assert (Htp : tab_pre r).
        { destruct s as [acc|]; cbn [M3] in HM1.
          - destruct HM1 as (A & B & _ & D & _). right. right. rewrite B, lw_nil. lia.
          - destruct (HQ' eq_refl) as [HQ|HQ]; [left; exact HQ|right; left; exact HQ]. }
        pose proof (FO_tab3 r m mw Hfo Hm Htp) as Hfo'.
        pose proof (r_tab_only W r m mw) as (g1 & g2 & g3 & g4).
        pose proof (tab_quiet r m mw) as Hq.
        pose proof (tab_after r m mw Htp) as [Ha1 Ha2].
        pose proof (r_tab_pos W HW (fun _ => []) r m mw) as Hpos.
        destruct (snd (r_tab W r m mw)) eqn:Efl.
        -- specialize (Ha2 eq_refl). intros HG' HJ'. split.
           ++ apply mkF3; [exact HG'|exact HJ'| | | | |]; rprj.
              ** eapply FO_frame; [exact Hfo'|reflexivity..].
              ** unfold spn. rprj. rewrite g1, g2. exact Hspn.
              ** unfold spmain. rprj. rewrite Ha2. discriminate.
              ** rewrite Ha2. discriminate.
              ** discriminate.
           ++ cbn [M3]. rprj. rewrite Ha2. discriminate.
        -- destruct (Hq eq_refl) as [q1 q2]. intros HG' HJ'. split.
           ++ apply mkF3; [exact HG'|exact HJ'| | | | |].
              ** exact Hfo'.
              ** unfold spn. rewrite g1, g2. exact Hspn.
              ** unfold spmain. rewrite g1, g2, q2. exact Hsp.
              ** rewrite q2, g4. intros Hf Hw. specialize (Hfw1 Hf). congruence.
              ** intros _. rewrite g1. apply Hpos. reflexivity.
           ++ cbn [M3]. intros Hf Hl. destruct Ha1 as [Ha1|Ha1]; [congruence|contradiction].
      * destruct (cw c) as [w|] eqn:Ecw.
        -- assert (Hc0 : cw0 c = w) by (unfold cw0; rewrite Ecw; reflexivity).
           destruct (N.ltb_spec W (lw (r_line r) + r_nsp r + w)) as [Hov|Hfitc].
           ++ (* the space does not fit *)
              destruct s as [acc|].
              { exfalso. cbn [M3] in HM1.
                destruct HM1 as (A & B & _ & D & _). specialize (Hok2 eq_refl eq_refl eq_refl).
                rewrite B, lw_nil in Hov. lia. }
              pose proof (HQ' eq_refl) as Hne.
              set (r0 := r_set_space r (r_sp r) 0).
              assert (Hf2 : r_fresh (r_flush_line r0) = false).
              { apply flush_line_ne. subst r0. rprj. destruct Hne; auto. }
              pose proof (r_flush_line_only r0) as (g1 & g2 & g3 & g4).
              intros HG' HJ'. split.
              ** apply mkF3; [exact HG'|exact HJ'| | | | |]; rprj.
                 --- eapply FO_frame; [apply (FO_flush_line r0)|reflexivity..].
                     eapply FO_frame; [exact Hfo|reflexivity..].
                 --- unfold spn. rprj. discriminate.
                 --- unfold spmain. rprj. rewrite Hf2. discriminate.
                 --- rewrite Hf2. discriminate.
                 --- discriminate.
              ** cbn [M3]. rprj. rewrite Hf2. discriminate.
           ++ (* it is added to the pending spaces *)
              intros HG' HJ'. split.
              ** apply mkF3; [exact HG'|exact HJ'| | | | |]; rprj.
                 --- eapply FO_frame; [exact Hfo|reflexivity..].
                 --- unfold spn. rprj. discriminate.
                 --- unfold spmain. rprj. intros Hf _ m0 Em. injection Em as <-. cbn. apply Hfw1, Hf.
                 --- intros Hf Hw. specialize (Hfw1 Hf). congruence.
                 --- intros _. lia.
              ** destruct s as [acc|]; cbn [M3] in *; rprj.
                 --- destruct HM1 as (A & B & C & D & E & F). specialize (Hok2 eq_refl eq_refl eq_refl).
                     rewrite Hc0 in *. repeat split; auto; lia.
                 --- intros Hf Hl. destruct (HQ' eq_refl) as [HQ|HQ]; [congruence|contradiction].
        -- (* no width: ignored *)
           intros HG' HJ'. split; [apply mkF3; assumption|].
           destruct s as [acc|]; cbn [M3] in *.
           ++ assert (Hc0 : cw0 c = 0) by (unfold cw0; rewrite Ecw; reflexivity).
              rewrite Hc0, N.add_0_r. exact HM1.
           ++ exact HM1.
  - (* not whitespace *)
    cbn [andb]. unfold is_wordchar. rewrite Hws. cbn [negb andb].
    destruct (cw c) as [w|] eqn:Ecw; [|intros _ _; split; assumption].
    assert (Hc0 : cw0 c = w) by (unfold cw0; rewrite Ecw; reflexivity).
    assert (Hwc : is_wordchar c = true) by (unfold is_wordchar; rewrite Hws, Ecw; reflexivity).
    specialize (Hok1 Hwc).
    destruct HF as [HG HJ Hfo Hspn Hsp Hec Hfit].
    set (sw := W <? lw (r_line r) + r_nsp r + (lw (r_word r) + w)).
    intros HG' HJ'. split.
    + apply mkF3; [exact HG'|exact HJ'| | | | |]; rprj.
      * eapply FO_frame; [exact Hfo|reflexivity..].
      * exact Hspn.
      * exact Hsp.
      * intros Hf Hwr. destruct (r_wrapped r) eqn:Ewr.
        -- destruct (Hec Hf eq_refl) as (pre0 & x & suf & Ew & Hpre & Hsuf & Hle & Hgt).
           exists pre0, x, (suf ++ [(c, (i, true))]). rprj. cbn [orb].
           split; [rewrite Ew, <- app_assoc; reflexivity|]. split; [exact Hpre|].
           split; [|auto].
           change (x :: suf ++ [(c, (i, true))]) with ((x :: suf) ++ [(c, (i, true))]).
           apply Forall_app. split; [exact Hsuf|constructor; [reflexivity|constructor]].
        -- cbn [orb] in *. exists (r_word r), (c, (i, sw)), []. rprj.
           split; [reflexivity|]. split; [apply (G_nw _ HG), Ewr|].
           split; [constructor; [exact Hwr|constructor]|]. cbn [fst]. rewrite Hc0.
           unfold sw in Hwr. apply N.ltb_lt in Hwr. split; [|lia].
           destruct (r_word r) as [|y wd] eqn:Ewd.
           ++ rewrite lw_nil. specialize (Hfit eq_refl). lia.
           ++ destruct (N.ltb_spec W (lw (r_line r) + r_nsp r + lw (y :: wd))) as [Hbad|Hgood]; [|lia].
              exfalso. assert (Hk : r_wrapped r = true).
              { apply (J_K _ _ _ HJ); [rewrite Ewd; discriminate|rewrite Ewd; exact Hbad]. }
              congruence.
      * intros Hwr. apply orb_false_iff in Hwr. apply Hfit, Hwr.
    + cbn [M3]. rprj. intros Hf Hl. split.
      * intros E. apply app_eq_nil in E. destruct E as [_ E]. discriminate E.
      * apply Hlead; assumption.
Qed.

Lemma I3_init : I3 (Some 0) r_init.
Proof.
  split.
  - apply mkF3.
    + apply G_init.
    + apply J_init.
    + split; [intros f l []|constructor].
    + unfold spn. cbn. lia.
    + unfold spmain. cbn. lia.
    + cbn. discriminate.
    + cbn. lia.
  - cbn. repeat split; auto; lia.
Qed.

Theorem first_pieces_main_sec : forall texts,
  words_pos (source texts) -> oks step3 ok3 (Some 0) (source texts) ->
  (exists acc, fold_left step3 (source texts) (Some 0) = Some acc) ->
  forall l, In (true, l) (expected_tags W texts) -> Forall is_main l.
Proof.
  intros texts Hwp Hok [acc Hend] l Hin. unfold expected_tags in Hin. rewrite r_calls_run in Hin.
  destruct (run_gen I3 step3 ok3 I3_char (ichars 0 texts) r_init [] (Some 0) I3_init eq_refl)
    as [[HF HM] _].
  { rewrite ichars_snd. apply words_pos_Forall, Hwp. }
  { rewrite ichars_snd. exact Hok. }
  rewrite ichars_snd in HM. unfold source in Hend. rewrite Hend in HM. cbn [M3] in HM.
  destruct HM as (_ & El & Ew & _).
  set (r := r_run W r_init (ichars 0 texts)) in *.
  assert (E : r_finish W r = r).
  { unfold r_finish, r_flush_word. rewrite Ew. unfold r_flush_line. rewrite El. reflexivity. }
  rewrite E in Hin. destruct (F_fo _ HF) as [Ho _]. exact (Ho true l Hin).
Qed.

End Rule.

(* ================================================================== *)
(* Part 6: the statements                                              *)

(* what `cont_shape` says *)
Lemma in_rest_spec l : in_rest l = true -> Forall (fun x => is_wsc x \/ is_wrap x) l.
Proof.
  intros H. apply Forall_forall. intros x Hx. unfold in_rest in H. rewrite forallb_forall in H.
  specialize (H x Hx). unfold restb in H. apply orb_true_iff in H. exact H.
Qed.

Lemma in_pre_spec : forall l, in_pre l = true ->
  exists pre rest, l = pre ++ rest /\ Forall (fun x => is_nonws x /\ is_main x) pre /\
                   Forall (fun x => is_wsc x \/ is_wrap x) rest.
Proof.
  induction l as [|x l IH]; intros H.
  - exists [], []. repeat split; constructor.
  - cbn [in_pre] in H. destruct (negb (ws (fst x)) && negb (snd (snd x))) eqn:E.
    + destruct (IH H) as (pre & rest & -> & Hp & Hr). exists (x :: pre), rest.
      split; [reflexivity|]. split; [|exact Hr]. constructor; [|exact Hp].
      apply andb_true_iff in E. destruct E as [E1 E2]. apply negb_true_iff in E1, E2. split; assumption.
    + exists [], (x :: l). split; [reflexivity|]. split; [constructor|apply in_rest_spec, H].
Qed.

Theorem cont_shape_spec : forall l, cont_shape l = true ->
  exists sp pre rest, l = sp ++ pre ++ rest /\ Forall is_wsc sp /\
    Forall (fun x => is_nonws x /\ is_main x) pre /\
    Forall (fun x => is_wsc x \/ is_wrap x) rest.
Proof.
  induction l as [|x l IH]; intros H.
  - exists [], [], []. repeat split; constructor.
  - cbn [cont_shape] in H. destruct (ws (fst x)) eqn:E.
    + destruct (IH H) as (sp & pre & rest & -> & Hs & Hp & Hr). exists (x :: sp), pre, rest.
      split; [reflexivity|]. split; [constructor; [exact E|exact Hs]|]. auto.
    + destruct (in_pre_spec _ H) as (pre & rest & -> & Hp & Hr). exists [], pre, rest.
      split; [reflexivity|]. split; [constructor|]. auto.
Qed.

(* the side conditions, on the whole source *)

(* C: no word character follows a whitespace character on the same source line, and no word
   character is wider than the line *)
Definition one_word_lines (W : N) (src : text) : Prop := oks step4 (ok4 W) false src.

(* F: before its first tab or word character every source line has less than W columns of
   whitespace; no word character is wider than the line; the text after the last newline is
   blank (whitespace other than tabs) *)
Definition first_ok (W : N) (src : text) : Prop :=
  oks step3 (ok3 W) (Some 0) src /\ exists acc, fold_left step3 src (Some 0) = Some acc.

Lemma all_chars_source calls : all_chars calls = source (map pcall_text calls).
Proof. unfold all_chars, source. apply flat_map_concat_map. Qed.

Definition marked (W : N) (calls : list pcall) : list (bool * list tc) :=
  expected_tags W (map pcall_text calls).

(* T2: on a continuation piece, main-tagged characters other than spaces occur only as one run
   at the head of the piece (after spaces): the beginning of the word that was moved there *)
Theorem pre_cont_pieces : forall W (calls : list pcall),
  1 <= W -> words_pos (all_chars calls) ->
  forall l, In (false, l) (marked W calls) -> cont_shape l = true.
Proof.
  intros W calls HW Hwp. rewrite all_chars_source in Hwp. exact (cont_pieces_shape W HW _ Hwp).
Qed.

(* T3: first pieces carry main tags only *)
Theorem pre_first_pieces : forall W (calls : list pcall),
  1 <= W -> words_pos (all_chars calls) -> first_ok W (all_chars calls) ->
  forall l, In (true, l) (marked W calls) -> Forall is_main l.
Proof.
  intros W calls HW Hwp [Hok Hend]. rewrite all_chars_source in *.
  exact (first_pieces_main_sec W HW _ Hwp Hok Hend).
Qed.

(* T4: without interior whitespace the rule has no exception: word characters of first pieces are
   main-tagged, every character of a continuation piece is continuation-tagged *)
Theorem pre_one_word_lines : forall W (calls : list pcall),
  1 <= W -> words_pos (all_chars calls) -> one_word_lines W (all_chars calls) ->
  forall f l, In (f, l) (marked W calls) ->
  if f then Forall (fun x => is_nonws x -> is_main x) l else Forall is_wrap l.
Proof.
  intros W calls HW Hwp Hok. rewrite all_chars_source in *.
  exact (one_word_lines_rule_sec W HW _ Hwp Hok).
Qed.

(* the model's output lines are the reference lines, one for one *)
Lemma map_eq_Forall2 {A B C} (f : A -> C) (g : B -> C) : forall la lb,
  map f la = map g lb -> Forall2 (fun x y => f x = g y) la lb.
Proof.
  induction la as [|x la IH]; intros [|y lb] H; cbn [map] in H; try discriminate; constructor.
  - injection H as H _. exact H.
  - injection H as _ H. apply IH, H.
Qed.

Theorem pre_tags_lines : forall W ovf (calls : list pcall) ls,
  1 <= W -> cut_regular W (all_chars calls) ->
  run_pre W ovf calls = Ok ls ->
  Forall2 (fun l e => line_tags l = resolve calls (snd e)) ls (marked W calls).
Proof.
  intros W ovf calls ls HW Hreg H. apply map_eq_Forall2.
  exact (pre_tags_refine W ovf calls ls HW Hreg H).
Qed.

(* a mark resolves to the main / the wrap tag of its call *)
Lemma resolve_mark (calls : list pcall) c i w s t tw :
  nth_error calls i = Some (s, t, tw) ->
  resolve calls [(c, (i, w))] = [(c, norm_tag (if w then tw else t))].
Proof. intros H. unfold resolve, tag_of. cbn [map fst snd]. rewrite H. reflexivity. Qed.

(* boolean forms of the side conditions, for concrete sources *)
Section Dec.
Context {S : Type}.
Variable step : S -> chr -> S.
Variable ok : S -> chr -> Prop.
Variable okb : S -> chr -> bool.
Hypothesis okb_ok : forall s c, okb s c = true -> ok s c.
Fixpoint oksb (s : S) (cs : text) : bool :=
  match cs with
  | [] => true
  | c :: cs' => okb s c && oksb (step s c) cs'
  end.
Lemma oksb_oks : forall cs s, oksb s cs = true -> oks step ok s cs.
Proof.
  induction cs as [|c cs IH]; intros s H; cbn [oksb oks] in *; [exact I|].
  apply andb_true_iff in H. destruct H as [H1 H2]. split; [apply okb_ok, H1|apply IH, H2].
Qed.
End Dec.

Definition ok4b (W : N) (ph : bool) (c : chr) : bool :=
  implb ph (negb (is_wordchar c)) && implb (is_wordchar c) (cw0 c <=? W).
Lemma ok4b_ok W ph c : ok4b W ph c = true -> ok4 W ph c.
Proof.
  unfold ok4b, ok4. intros H. apply andb_true_iff in H. destruct H as [H1 H2]. split.
  - intros ->. cbn in H1. apply negb_true_iff in H1. exact H1.
  - intros E. rewrite E in H2. cbn in H2. lia.
Qed.
Lemma one_word_lines_dec W src : oksb step4 (ok4b W) false src = true -> one_word_lines W src.
Proof. apply oksb_oks, ok4b_ok. Qed.

Definition ok3b (W : N) (s : option N) (c : chr) : bool :=
  implb (is_wordchar c) (cw0 c <=? W) &&
  match s with
  | Some acc => implb (ws c && negb (cp c =? 10) && negb (cp c =? 9)) (acc + cw0 c <? W)
  | None => true
  end.
Lemma ok3b_ok W s c : ok3b W s c = true -> ok3 W s c.
Proof.
  unfold ok3b, ok3. intros H. apply andb_true_iff in H. destruct H as [H1 H2]. split.
  - intros E. rewrite E in H1. cbn in H1. lia.
  - destruct s as [acc|]; [|exact I]. intros E1 E2 E3. rewrite E1, E2, E3 in H2. cbn in H2. lia.
Qed.
Lemma first_ok_dec W src :
  oksb step3 (ok3b W) (Some 0) src = true ->
  (match fold_left step3 src (Some 0) with Some _ => true | None => false end) = true ->
  first_ok W src.
Proof.
  intros H1 H2. split; [apply (oksb_oks _ _ _ (ok3b_ok W)), H1|].
  destruct (fold_left step3 src (Some 0)) as [acc|]; [exists acc; reflexivity|discriminate].
Qed.

Lemma cut_regular_dec W src :
  forallb (fun c => cw0 c <=? W) src
  || forallb (fun c => implb (negb (ws c)) (negb match cw c with Some 0 => true | _ => false end)) src
  = true -> cut_regular W src.
Proof.
  intros H. apply orb_true_iff in H. destruct H as [H|H]; rewrite forallb_forall in H.
  - left. intros c Hc. specialize (H c Hc). lia.
  - right. intros c Hc Hws E. specialize (H c Hc). rewrite Hws, E in H. discriminate H.
Qed.

Print Assumptions pre_tags_refine.
Print Assumptions pre_tags_lines.
Print Assumptions pre_cont_pieces.
Print Assumptions pre_first_pieces.
Print Assumptions pre_one_word_lines.
Print Assumptions cont_shape_spec.

(* ================================================================== *)
(* Part 7: examples (non-vacuity) and counterexamples for the hypotheses *)

Definition ex_em1 : tag := [APre false; AEm].
Definition ex_em2 : tag := [APre true; AEm].
Definition M (c : chr) (i : nat) (w : bool) : tc := (c, (i, w)).

(* 1. a line that is cut: "aaaabbbb\n" at width 4 *)
Definition ex_cut : list pcall := [([ex_a; ex_a; ex_a; ex_a; ex_b; ex_b; ex_b; ex_b; ex_nl], ex_t1, ex_t2)].
Example ex_cut_hyps :
  cut_regular 4 (all_chars ex_cut) /\ words_pos (all_chars ex_cut) /\
  first_ok 4 (all_chars ex_cut) /\ one_word_lines 4 (all_chars ex_cut).
Proof.
  split; [apply cut_regular_dec; vm_compute; reflexivity|].
  split; [apply words_pos_dec; vm_compute; reflexivity|].
  split; [apply first_ok_dec; vm_compute; reflexivity|].
  apply one_word_lines_dec. vm_compute. reflexivity.
Qed.
Example ex_cut_run :
  run_pre 4 false ex_cut =
    Ok [ mktl [Str [ex_a; ex_a; ex_a; ex_a] ex_t1] 4; mktl [Str [ex_b; ex_b; ex_b; ex_b] ex_t2] 4 ] /\
  marked 4 ex_cut =
    [ (true, [M ex_a 0 false; M ex_a 0 false; M ex_a 0 false; M ex_a 0 false]);
      (false, [M ex_b 0 true; M ex_b 0 true; M ex_b 0 true; M ex_b 0 true]) ].
Proof. split; vm_compute; reflexivity. Qed.
(* the theorems applied to it *)
Example ex_cut_thm : forall ls, run_pre 4 false ex_cut = Ok ls ->
  Forall2 (fun l e => line_tags l = resolve ex_cut (snd e)) ls (marked 4 ex_cut) /\
  (forall f l, In (f, l) (marked 4 ex_cut) ->
     if f then Forall (fun x => is_nonws x -> is_main x) l else Forall is_wrap l).
Proof.
  intros ls H. destruct ex_cut_hyps as (H1 & H2 & H3 & H4). split.
  - apply (pre_tags_lines 4 false); [lia|exact H1|exact H].
  - apply pre_one_word_lines; [lia|exact H2|exact H4].
Qed.

(* 2. a moved word (the recorded finding pre_moved_word_first_tag): "ab aabbbb\n" at width 5.
   "aabbbb" starts at column 3, its first two characters fit and keep the main tag, the whole
   word goes to the second piece *)
Definition ex_moved : list pcall :=
  [([ex_a; ex_b; ex_sp; ex_a; ex_a; ex_b; ex_b; ex_b; ex_b; ex_nl], ex_t1, ex_t2)].
Example ex_moved_hyps :
  cut_regular 5 (all_chars ex_moved) /\ words_pos (all_chars ex_moved) /\
  first_ok 5 (all_chars ex_moved).
Proof.
  split; [apply cut_regular_dec; vm_compute; reflexivity|].
  split; [apply words_pos_dec; vm_compute; reflexivity|].
  apply first_ok_dec; vm_compute; reflexivity.
Qed.
Example ex_moved_run :
  run_pre 5 false ex_moved =
    Ok [ mktl [Str [ex_a; ex_b; spacel L_space] ex_t1] 3;
         mktl [Str [ex_a; ex_a] ex_t1; Str [ex_b; ex_b; ex_b] ex_t2] 5;
         mktl [Str [ex_b] ex_t2] 1 ] /\
  marked 5 ex_moved =
    [ (true, [M ex_a 0 false; M ex_b 0 false; M (spacel L_space) 0 false]);
      (false, [M ex_a 0 false; M ex_a 0 false; M ex_b 0 true; M ex_b 0 true; M ex_b 0 true]);
      (false, [M ex_b 0 true]) ].
Proof. split; vm_compute; reflexivity. Qed.
Example ex_moved_thm :
  (forall l, In (false, l) (marked 5 ex_moved) -> cont_shape l = true) /\
  (forall l, In (true, l) (marked 5 ex_moved) -> Forall is_main l) /\
  ~ one_word_lines 5 (all_chars ex_moved).
Proof.
  destruct ex_moved_hyps as (H1 & H2 & H3).
  split; [apply pre_cont_pieces; [lia|exact H2]|].
  split; [apply pre_first_pieces; [lia|exact H2|exact H3]|].
  intros H4.
  pose proof (pre_one_word_lines 5 ex_moved ltac:(lia) H2 H4 false
                [M ex_a 0 false; M ex_a 0 false; M ex_b 0 true; M ex_b 0 true; M ex_b 0 true]) as H.
  assert (Hin : In (false, [M ex_a 0 false; M ex_a 0 false; M ex_b 0 true; M ex_b 0 true; M ex_b 0 true])
                   (marked 5 ex_moved)).
  { rewrite (proj2 ex_moved_run). right. left. reflexivity. }
  specialize (H Hin). cbn in H. inversion H as [|? ? Hx _]. discriminate Hx.
Qed.

(* 3. two inline calls with different tag pairs: "ab aa" then "bbbb\n" (as <pre>ab aa<em>bbbb</em>) *)
Definition ex_two : list pcall :=
  [([ex_a; ex_b; ex_sp; ex_a; ex_a], ex_t1, ex_t2); ([ex_b; ex_b; ex_b; ex_b; ex_nl], ex_em1, ex_em2)].
Example ex_two_run :
  cut_regular 5 (all_chars ex_two) /\ words_pos (all_chars ex_two) /\ first_ok 5 (all_chars ex_two) /\
  run_pre 5 false ex_two =
    Ok [ mktl [Str [ex_a; ex_b; spacel L_space] ex_t1] 3;
         mktl [Str [ex_a; ex_a] ex_t1; Str [ex_b; ex_b; ex_b] ex_em2] 5;
         mktl [Str [ex_b] ex_em2] 1 ] /\
  marked 5 ex_two =
    [ (true, [M ex_a 0 false; M ex_b 0 false; M (spacel L_space) 0 false]);
      (false, [M ex_a 0 false; M ex_a 0 false; M ex_b 1 true; M ex_b 1 true; M ex_b 1 true]);
      (false, [M ex_b 1 true]) ].
Proof.
  split; [apply cut_regular_dec; vm_compute; reflexivity|].
  split; [apply words_pos_dec; vm_compute; reflexivity|].
  split; [apply first_ok_dec; vm_compute; reflexivity|].
  split; vm_compute; reflexivity.
Qed.
Example ex_two_thm : forall ls, run_pre 5 true ex_two = Ok ls ->
  Forall2 (fun l e => line_tags l = resolve ex_two (snd e)) ls (marked 5 ex_two) /\
  resolve ex_two [M ex_a 0 false; M ex_b 1 true] = [(ex_a, ex_t1); (ex_b, ex_em2)].
Proof.
  intros ls H. destruct ex_two_run as (H1 & _). split.
  - apply (pre_tags_lines 5 true); [lia|exact H1|exact H].
  - vm_compute. reflexivity.
Qed.

(* ---- why the hypotheses ---- *)

(* cut_regular: zero-width word characters next to a character wider than the line.  Width 1,
   overflow allowed.
   (a) directly before it, at the start of a piece ("X zX", the word "zX" is cut on its own): the
       model cuts between the two when they are in one string element and not when they are in
       two; the flat reference cannot know (it never cuts there).
   (b) directly after it ("XzX"): the model keeps the zero-width character with the over-wide one
       (`take_zw`: a combining mark stays with its character), whatever the elements are; the
       greedy reference lets the over-wide character stand alone and starts the next line with
       the zero-width one. *)
Example cx_zero_width_then_wide :
  let calls : list pcall := [([ex_wide; ex_zw; ex_wide], ex_t1, ex_t2)] in
  let calls' : list pcall := [([ex_wide; ex_sp; ex_zw; ex_wide], ex_t1, ex_t2)] in
  ~ cut_regular 1 (all_chars calls) /\ ~ cut_regular 1 (all_chars calls') /\
  (* (b) *)
  run_pre 1 true calls =
    Ok [ mktl [Str [ex_wide; ex_zw] ex_t2] 2; mktl [Str [ex_wide] ex_t2] 2 ] /\
  marked 1 calls = [ (true, [M ex_wide 0 true]); (false, [M ex_zw 0 true; M ex_wide 0 true]) ] /\
  run_pre 1 true [([ex_wide; ex_zw], ex_t1, ex_t2); ([ex_wide], ex_em1, ex_em2)] =
    Ok [ mktl [Str [ex_wide; ex_zw] ex_t2] 2; mktl [Str [ex_wide] ex_em2] 2 ] /\
  (* (a) *)
  run_pre 1 true calls' =
    Ok [ mktl [Str [ex_wide] ex_t2] 2; mktl [Str [ex_zw] ex_t2] 0; mktl [Str [ex_wide] ex_t2] 2 ] /\
  marked 1 calls' = [ (true, [M ex_wide 0 true]); (false, [M ex_zw 0 true; M ex_wide 0 true]) ] /\
  run_pre 1 true [([ex_wide; ex_sp; ex_zw], ex_t1, ex_t2); ([ex_wide], ex_em1, ex_em2)] =
    Ok [ mktl [Str [ex_wide] ex_t2] 2; mktl [Str [ex_zw] ex_t2; Str [ex_wide] ex_em2] 2 ].
Proof.
  cbv zeta. split; [|split].
  - intros [H|H].
    + specialize (H ex_wide (or_introl eq_refl)). vm_compute in H. apply H. reflexivity.
    + apply (H ex_zw (or_intror (or_introl eq_refl))); reflexivity.
  - intros [H|H].
    + specialize (H ex_wide (or_introl eq_refl)). vm_compute in H. apply H. reflexivity.
    + apply (H ex_zw (or_intror (or_intror (or_introl eq_refl)))); reflexivity.
  - repeat split; vm_compute; reflexivity.
Qed.

(* words_pos (continuation pieces): a zero-width word is not flushed by whitespace and not by a
   newline either, and takes its continuation tag to the next source line: "aaaab z\n  aab\n" *)
Example cx_cont_needs_words_pos :
  let src := [ex_a; ex_a; ex_a; ex_a; ex_b; ex_sp; ex_zw; ex_nl; ex_sp; ex_sp; ex_a; ex_a; ex_b; ex_nl] in
  In (false, [M ex_zw 0 true; M ex_a 0 false; M ex_a 0 false; M ex_b 0 true]) (expected_tags 4 [src]) /\
  cont_shape [M ex_zw 0 true; M ex_a 0 false; M ex_a 0 false; M ex_b 0 true] = false.
Proof. cbv zeta. split; vm_compute; auto. Qed.

(* first pieces: each part of first_ok, and words_pos *)
Example cx_first_needs_widths :       (* an over-wide character starts a line: width 1, overflow *)
  expected_tags 1 [[ex_wide; ex_nl]] = [ (true, [M ex_wide 0 true]); (false, []) ].
Proof. vm_compute. reflexivity. Qed.
Example cx_first_needs_lead :         (* leading spaces fill the width: the blank piece is dropped *)
  expected_tags 4 [[ex_sp; ex_sp; ex_sp; ex_sp; ex_a; ex_b; ex_nl]] =
    [ (true, [M ex_a 0 true; M ex_b 0 true]) ].
Proof. vm_compute. reflexivity. Qed.
Example cx_first_needs_final_newline : (* the flush at the end of the block drops the spaces *)
  expected_tags 4 [[ex_sp; ex_sp; ex_a; ex_a; ex_b; ex_b; ex_b; ex_b]] =
    [ (true, [M ex_a 0 false; M ex_a 0 false; M ex_b 0 true; M ex_b 0 true]);
      (false, [M ex_b 0 true; M ex_b 0 true]) ].
Proof. vm_compute. reflexivity. Qed.
Example cx_first_needs_words_pos :
  expected_tags 2 [[ex_tab; ex_zw; ex_nl]] =
    [ (true, [M (spacel L_space) 0 false; M (spacel L_space) 0 false]); (false, []);
      (true, [M ex_zw 0 true]) ].
Proof. vm_compute. reflexivity. Qed.
(* the same four on the model itself *)
Example cx_first_model :
  run_pre 4 false [([ex_sp; ex_sp; ex_sp; ex_sp; ex_a; ex_b; ex_nl], ex_t1, ex_t2)] =
    Ok [ mktl [Str [ex_a; ex_b] ex_t2] 2 ] /\
  run_pre 4 false [([ex_sp; ex_sp; ex_a; ex_a; ex_b; ex_b; ex_b; ex_b], ex_t1, ex_t2)] =
    Ok [ mktl [Str [ex_a; ex_a] ex_t1; Str [ex_b; ex_b] ex_t2] 4; mktl [Str [ex_b; ex_b] ex_t2] 2 ].
Proof. split; vm_compute; reflexivity. Qed.

(* one word per line: interior (here: leading) whitespace brings the exception back *)
Example cx_one_word_needs_shape :
  expected_tags 4 [[ex_sp; ex_a; ex_a; ex_a; ex_b; ex_b; ex_b; ex_nl]] =
    [ (true, [M (spacel L_space) 0 false]);
      (false, [M ex_a 0 false; M ex_a 0 false; M ex_a 0 false; M ex_b 0 true]);
      (false, [M ex_b 0 true; M ex_b 0 true]) ].
Proof. vm_compute. reflexivity. Qed.
Example cx_one_word_needs_words_pos :
  expected_tags 2 [[ex_zw; ex_tab]] =
    [ (true, [M (spacel L_space) 0 false; M (spacel L_space) 0 false]); (false, [M ex_zw 0 false]) ].
Proof. vm_compute. reflexivity. Qed.

Print Assumptions ex_cut_thm.
Print Assumptions ex_moved_thm.
Print Assumptions ex_two_thm.
Print Assumptions cx_zero_width_then_wide.
