(* Proofs/Prune.v -- C18: hidden (display:none) subtrees are equivalent to deleted subtrees at
   the DOM -> render tree stage; document styles have no effect unless enabled.

   Main results (all closed under the global context):
   (2) computed_style_sim     no :nth-child in the sheet => the computed style depends only on
                              names/classes/ids of the element and its ancestors, not on indices
       process_sim_gen        ... hence `process` does not depend on any element index
   (1) local_deletion_gen     a child yielding `Ok None` is as good as absent, for every parent
       local_deletion_hidden  ... in particular a hidden element child
   (3) prune_equiv            dom_to_render_tree sd udc inl doc = ... (prune_doc sd udc inl doc)
       prune_doc_idem         prune_doc leaves no hidden element behind
       to_render_tree_prune, to_render_tree_prune_doc, to_render_tree_prune_nodoccss (Api)
   (4) nodoccss_frontend_indep, nodoccss_strip, nodoccss_styles_irrelevant
   Observations (section 8): ex_nth_needed (the hypothesis is necessary),
   style_in_hidden_subtree (rules of a <style> inside a hidden subtree still apply),
   svg_style_is_text (a non-html <style> element's CSS source is rendered as text).

   Element indices (`idx`, what :nth-child tests): `process` numbers the ELEMENT children of a
   parent 1, 2, ... (text, comments, doctype do not count, hidden elements do); deleting an
   element child therefore lowers the index of every later element sibling by one. *)
From H2T Require Import Base Tagged Wrap Css Dom Api CssParse.
From Coq Require Import Lia ZifyN ZifyBool ZifyNat.
From Coq Require String Ascii.
Local Arguments N.add : simpl never.
Local Arguments N.sub : simpl never.
Local Arguments N.leb : simpl never.
Local Arguments N.ltb : simpl never.
Local Arguments N.eqb : simpl never.
Local Arguments N.max : simpl never.
Local Arguments N.min : simpl never.

(* ====================================================================== *)
(* 0. Induction on the nested DOM                                          *)
(* ====================================================================== *)
Section NodeInd.
  Variable P : node -> Prop.
  Hypothesis HE : forall html name attrs kids, Forall P kids -> P (NElem html name attrs kids).
  Hypothesis HT : forall t, P (NText t).
  Hypothesis HC : P NComment.
  Hypothesis HO : P NOther.
  Fixpoint node_ind' (n : node) : P n :=
    match n with
    | NElem h nm a kids =>
      HE h nm a kids
         ((fix go (l : list node) : Forall P l :=
             match l with
             | [] => Forall_nil P
             | k :: l' => @Forall_cons _ P k l' (node_ind' k) (go l')
             end) kids)
    | NText t => HT t
    | NComment => HC
    | NOther => HO
    end.
End NodeInd.

(* ====================================================================== *)
(* 1. (2) STYLE INDEPENDENCE: without :nth-child the computed style does   *)
(*    not depend on element indices                                        *)
(* ====================================================================== *)
Definition comp_no_nth (c : comp) : bool :=
  match c with CNthChild _ _ => false | _ => true end.
Definition sel_no_nth (s : selector) : bool := forallb comp_no_nth (comps s).
Definition rules_no_nth (rs : list ruleset) : bool :=
  forallb (fun r => sel_no_nth (rs_sel r)) rs.
Definition sheet_no_nth (sd : styledata) : bool :=
  rules_no_nth (agent_rules sd) && rules_no_nth (user_rules sd) && rules_no_nth (author_rules sd).

(* two elements that the matcher cannot tell apart: same name, classes and ids, and - when
   x = true - the same index.  x = false is the relation for sheets without :nth-child. *)
Record anc_simx (x : bool) (a a' : anc) : Prop := mk_anc_sim {
  as_name : a_name a = a_name a';
  as_class : forall c, has_class a c = has_class a' c;
  as_id : forall h, has_id a h = has_id a' h;
  as_idx : x = true -> a_idx a = a_idx a' }.
Notation anc_sim := (anc_simx false).

Lemma anc_sim_idx : forall name attrs i i', anc_sim (mkanc name attrs i) (mkanc name attrs i').
Proof. intros. constructor; try reflexivity. discriminate. Qed.

Lemma anc_sim_refl : forall x a, anc_simx x a a.
Proof. intros. constructor; reflexivity. Qed.

Lemma chain_sim_refl : forall x p, Forall2 (anc_simx x) p p.
Proof. induction p; constructor; [apply anc_sim_refl|assumption]. Qed.

Lemma do_matches_simx : forall x cs, (x = false -> forallb comp_no_nth cs = true) ->
  forall p p', Forall2 (anc_simx x) p p' -> do_matches cs p = do_matches cs p'.
Proof.
  induction cs as [|c cs IH]; intros Hn p p' Hs; [reflexivity|].
  assert (IH' : forall p p', Forall2 (anc_simx x) p p' -> do_matches cs p = do_matches cs p').
  { apply IH. intros Hx. specialize (Hn Hx). cbn [forallb] in Hn.
    apply andb_true_iff in Hn. apply Hn. }
  clear IH.
  destruct c as [cl|nm|h| | | |ca cb]; cbn [do_matches].
  - destruct Hs as [|a a' p p' Ha Hs]; [reflexivity|].
    rewrite (as_class _ _ _ Ha), (IH' (a :: p) (a' :: p')); [reflexivity|constructor; assumption].
  - destruct Hs as [|a a' p p' Ha Hs]; [reflexivity|].
    rewrite (as_name _ _ _ Ha), (IH' (a :: p) (a' :: p')); [reflexivity|constructor; assumption].
  - destruct Hs as [|a a' p p' Ha Hs]; [reflexivity|].
    rewrite (as_id _ _ _ Ha), (IH' (a :: p) (a' :: p')); [reflexivity|constructor; assumption].
  - destruct Hs as [|a a' p p' Ha Hs]; [reflexivity|].
    apply IH'. constructor; assumption.
  - destruct Hs as [|a a' p p' Ha Hs]; [reflexivity|]. apply IH'. exact Hs.
  - induction Hs as [|a a' p p' Ha Hs IHs]; [reflexivity|].
    rewrite (IH' p p' Hs), IHs. reflexivity.
  - destruct x.
    + destruct Hs as [|a a' p p' Ha Hs]; [reflexivity|].
      rewrite (as_idx _ _ _ Ha eq_refl), (IH' (a :: p) (a' :: p')); [reflexivity|constructor; assumption].
    + specialize (Hn eq_refl). discriminate Hn.
Qed.

Lemma apply_rules_simx : forall x o rules, (x = false -> rules_no_nth rules = true) ->
  forall p p', Forall2 (anc_simx x) p p' ->
  forall cs, apply_rules o rules p cs = apply_rules o rules p' cs.
Proof.
  induction rules as [|r rules IH]; intros Hn p p' Hs cs; [reflexivity|].
  cbn [apply_rules]. unfold sel_matches.
  rewrite (do_matches_simx x (comps (rs_sel r))) with (p' := p'); [|
    intros Hx; specialize (Hn Hx); cbn [rules_no_nth forallb] in Hn;
    apply andb_true_iff in Hn; apply Hn | exact Hs].
  apply IH; [|exact Hs].
  intros Hx; specialize (Hn Hx); cbn [rules_no_nth forallb] in Hn;
    apply andb_true_iff in Hn; apply Hn.
Qed.

Theorem computed_style_simx : forall x sd, (x = false -> sheet_no_nth sd = true) ->
  forall p p' inl, Forall2 (anc_simx x) p p' -> computed_style sd p inl = computed_style sd p' inl.
Proof.
  intros x sd Hn p p' inl Hs.
  assert (H3 : x = false -> rules_no_nth (agent_rules sd) = true /\
                            rules_no_nth (user_rules sd) = true /\
                            rules_no_nth (author_rules sd) = true).
  { intros Hx. specialize (Hn Hx). unfold sheet_no_nth in Hn.
    apply andb_true_iff in Hn. destruct Hn as [Hn Hau].
    apply andb_true_iff in Hn. destruct Hn as [Hag Hus]. auto. }
  unfold computed_style.
  rewrite (apply_rules_simx x OAgent (agent_rules sd)) with (p' := p'); [|intros Hx; apply (H3 Hx)|exact Hs].
  rewrite (apply_rules_simx x OUser (user_rules sd)) with (p' := p'); [|intros Hx; apply (H3 Hx)|exact Hs].
  rewrite (apply_rules_simx x OAuthor (author_rules sd)) with (p' := p'); [|intros Hx; apply (H3 Hx)|exact Hs].
  reflexivity.
Qed.

(* (2) the computed style of an element depends only on the names, classes and ids of the
   element and its ancestors - not on any sibling index - when no selector uses :nth-child *)
Theorem computed_style_sim : forall sd, sheet_no_nth sd = true ->
  forall p p' inl, Forall2 anc_sim p p' -> computed_style sd p inl = computed_style sd p' inl.
Proof. intros sd Hn. apply computed_style_simx. intros _. exact Hn. Qed.

(* ====================================================================== *)
(* 2. `process` as body + child loop                                       *)
(* ====================================================================== *)
Definition is_elem (k : node) : bool := match k with NElem _ _ _ _ => true | _ => false end.

(* the child loop of `process`, over an arbitrary per-child function *)
Definition pk_of (proc : node -> Z -> res (option rnode)) : list node -> Z -> res (list rnode) :=
  fix pk (kids : list node) (idx : Z) {struct kids} : res (list rnode) :=
    match kids with
    | [] => Ok []
    | k :: kids' =>
      let is_el := match k with NElem _ _ _ _ => true | _ => false end in
      do r <- proc k idx;
      do rs <- pk kids' (if is_el then (idx + 1)%Z else idx);
      Ok (match r with Some x => x :: rs | None => rs end)
    end.

(* what `process` does with an element once the inline declarations `ri` and the processed
   children `rk` are given *)
Definition pbody (sd : styledata) (ri : res (list styledecl)) (html : bool) (name : text)
           (attrs : list (text * text)) (me : list anc) (rk : res (list rnode))
  : res (option rnode) :=
  do inls <- ri;
  let computed := computed_style sd me inls in
  match ws_val (c_display (cs_core computed)) with
  | Some true => Ok None
  | _ =>
    let is_a := html && names [[97]] name in
    do base <-
       (if negb html then
          do cs <- rk;
          match cs with [] => Ok None | _ => Ok (Some (RN (IContainer cs) computed)) end
        else if names [[105;109;103]] name then
          match img_attrs attrs None None with
          | (Some title, Some src) => Ok (Some (RN (IImg src title) computed))
          | _ => Ok None
          end
        else if names [[98;114]] name then Ok (Some (RN IBreak computed))
        else if names [[108;105;110;107]; [109;101;116;97]; [104;114]; [115;99;114;105;112;116];
                       [115;116;121;108;101]; [104;101;97;100]] name then Ok None
        else
          do cs <- rk;
          build_element name attrs computed cs);
    let wrapped := match base with
                   | Some nd => Some (wrap_pseudo computed nd)
                   | None => None
                   end in
    match fragment_of name is_a attrs with
    | None => Ok wrapped
    | Some frag =>
      let fragnode := rn_new (IFragStart frag) in
      match wrapped with
      | None => Ok (Some fragnode)
      | Some nd => Ok (Some (insert_child fragnode nd true))
      end
    end
  end.

Lemma process_eq : forall sd udc inl html name attrs kids p idx,
  process sd udc inl (NElem html name attrs kids) p idx =
  pbody sd (if udc then inl attrs else Ok []) html name attrs (mkanc name attrs idx :: p)
        (pk_of (fun k i => process sd udc inl k (mkanc name attrs idx :: p) i) kids 1%Z).
Proof. reflexivity. Qed.

Lemma process_kids_eq : forall sd udc inl kids p idx,
  process_kids sd udc inl kids p idx = pk_of (fun k i => process sd udc inl k p i) kids idx.
Proof.
  induction kids as [|k kids IH]; intros p idx; [reflexivity|].
  cbn [process_kids pk_of]. destruct (process sd udc inl k p idx); cbn [bind]; try reflexivity.
  rewrite IH. reflexivity.
Qed.

(* ---------- generic facts about the child loop ---------- *)
Fixpoint count_elems (l : list node) : Z :=
  match l with
  | [] => 0%Z
  | k :: l' => ((if is_elem k then 1 else 0) + count_elems l')%Z
  end.

Lemma pk_ext : forall proc proc' kids,
  Forall (fun k => forall i i', proc k i = proc' k i') kids ->
  forall i i', pk_of proc kids i = pk_of proc' kids i'.
Proof.
  induction kids as [|k kids IH]; intros H i i'; [reflexivity|].
  inversion H as [|? ? Hk Hkids]; subst. cbn [pk_of].
  rewrite (Hk i i'). destruct (proc' k i'); cbn [bind]; try reflexivity.
  rewrite (IH Hkids _ (if match k with NElem _ _ _ _ => true | _ => false end then (i' + 1)%Z else i')).
  reflexivity.
Qed.

Lemma pk_ext_same : forall proc proc' kids,
  Forall (fun k => forall i, proc k i = proc' k i) kids ->
  forall i, pk_of proc kids i = pk_of proc' kids i.
Proof.
  induction kids as [|k kids IH]; intros H i; [reflexivity|].
  inversion H as [|? ? Hk Hkids]; subst. cbn [pk_of].
  rewrite (Hk i). destruct (proc' k i); cbn [bind]; try reflexivity.
  rewrite (IH Hkids). reflexivity.
Qed.

Lemma pk_app : forall proc l1 l2 i,
  pk_of proc (l1 ++ l2) i =
  (do r1 <- pk_of proc l1 i; do r2 <- pk_of proc l2 (i + count_elems l1)%Z; Ok (r1 ++ r2)).
Proof.
  induction l1 as [|k l1 IH]; intros l2 i.
  - cbn [app pk_of count_elems bind]. replace (i + 0)%Z with i by lia.
    destruct (pk_of proc l2 i); reflexivity.
  - cbn [app pk_of count_elems]. destruct (proc k i) as [r| | |]; cbn [bind]; try reflexivity.
    rewrite IH.
    replace (i + ((if is_elem k then 1 else 0) + count_elems l1))%Z
      with ((if is_elem k then (i + 1)%Z else i) + count_elems l1)%Z
      by (destruct (is_elem k); lia).
    change (match k with NElem _ _ _ _ => true | _ => false end) with (is_elem k).
    destruct (pk_of proc l1 (if is_elem k then (i + 1)%Z else i)) as [r1| | |]; cbn [bind]; try reflexivity.
    destruct (pk_of proc l2 _) as [r2| | |]; cbn [bind]; try reflexivity.
    destruct r; reflexivity.
Qed.

(* ---------- the body only looks at names, classes and ids of the ancestors ---------- *)
Lemma pbody_simx : forall x sd, (x = false -> sheet_no_nth sd = true) ->
  forall ri html name attrs me me' rk, Forall2 (anc_simx x) me me' ->
  pbody sd ri html name attrs me rk = pbody sd ri html name attrs me' rk.
Proof.
  intros x sd Hn ri html name attrs me me' rk Hs. unfold pbody.
  destruct ri as [inls| | |]; cbn [bind]; try reflexivity.
  rewrite (computed_style_simx x sd Hn me me' inls Hs). reflexivity.
Qed.

Lemma pbody_sim : forall sd, sheet_no_nth sd = true ->
  forall ri html name attrs me me' rk, Forall2 anc_sim me me' ->
  pbody sd ri html name attrs me rk = pbody sd ri html name attrs me' rk.
Proof. intros sd Hn. apply pbody_simx. intros _. exact Hn. Qed.

Section Prune.
  Variable sd : styledata.
  Variable udc : bool.
  Variable inl : list (text * text) -> res (list styledecl).

  Notation process := (process sd udc inl).

  (* ==================================================================== *)
  (* 3. index independence of `process` (no :nth-child)                    *)
  (* ==================================================================== *)
  Lemma process_sim_gen : sheet_no_nth sd = true -> forall n p p' idx idx',
    Forall2 anc_sim p p' -> process n p idx = process n p' idx'.
  Proof.
    intros Hnth.
    apply (node_ind' (fun n => forall p p' idx idx',
             Forall2 anc_sim p p' -> process n p idx = process n p' idx')); try reflexivity.
    intros html name attrs kids IH p p' idx idx' Hs. rewrite !process_eq.
    assert (Hme : Forall2 anc_sim (mkanc name attrs idx :: p) (mkanc name attrs idx' :: p'))
      by (constructor; [apply anc_sim_idx|exact Hs]).
    rewrite (pbody_sim sd Hnth _ html name attrs _ _ _ Hme). f_equal.
    apply pk_ext. rewrite Forall_forall in *. intros k Hk i i'. apply (IH k Hk _ _ i i' Hme).
  Qed.

  (* ==================================================================== *)
  (* 4. (1) LOCAL: a child that yields nothing is as good as absent        *)
  (* ==================================================================== *)
  (* statement for an arbitrary per-child function (no hypothesis on the sheet): the child
     loop over l1 ++ c :: l2 equals the loop over l1 ++ l2 when c yields None and the later
     siblings do not care about the shift of their index *)
  Lemma pk_delete : forall proc l1 c l2 i,
    proc c (i + count_elems l1)%Z = Ok None ->
    (is_elem c = false \/ forall k j j', proc k j = proc k j') ->
    pk_of proc (l1 ++ c :: l2) i = pk_of proc (l1 ++ l2) i.
  Proof.
    intros proc l1 c l2 i Hc Hshift. rewrite !pk_app.
    destruct (pk_of proc l1 i) as [r1| | |]; cbn [bind]; try reflexivity.
    cbn [pk_of]. rewrite Hc. cbn [bind].
    change (match c with NElem _ _ _ _ => true | _ => false end) with (is_elem c).
    assert (E : pk_of proc l2 (if is_elem c then (i + count_elems l1 + 1)%Z else (i + count_elems l1)%Z)
                = pk_of proc l2 (i + count_elems l1)%Z).
    { destruct Hshift as [Hne|Hind]; [rewrite Hne; reflexivity|].
      apply pk_ext. apply Forall_forall. intros k _ j j'. apply Hind. }
    rewrite E. destruct (pk_of proc l2 (i + count_elems l1)%Z); reflexivity.
  Qed.

  (* (1) LOCAL, for every parent kind at once: if the child c - processed in the context in
     which the parent processes it: ancestors = parent :: p, index = 1 + number of element
     siblings before it - yields `Ok None`, the parent's result is the same as if c were
     absent.  Deleting an element shifts the :nth-child index of the later element
     siblings, hence the side condition: c is not an element, or no :nth-child selector. *)
  Theorem local_deletion_gen : forall html name attrs l1 c l2 p idx,
    (is_elem c = false \/ sheet_no_nth sd = true) ->
    process c (mkanc name attrs idx :: p) (1 + count_elems l1)%Z = Ok None ->
    process (NElem html name attrs (l1 ++ c :: l2)) p idx =
    process (NElem html name attrs (l1 ++ l2)) p idx.
  Proof.
    intros html name attrs l1 c l2 p idx Hside Hc. rewrite !process_eq. f_equal.
    apply pk_delete; [exact Hc|].
    destruct Hside as [Hne|Hn]; [left; exact Hne|right].
    intros k j j'. apply (process_sim_gen Hn). apply chain_sim_refl.
  Qed.

  (* ==================================================================== *)
  (* 5. (3) GLOBAL: pruning every hidden element                           *)
  (* ==================================================================== *)
  (* the test `process` makes: the element at the head of `me` (with attributes attrs) has a
     winning display:none.  (When the inline declarations fail to parse with a panic the
     element is kept: `process` then fails in the same way on the pruned document.) *)
  Definition hidden (me : list anc) (attrs : list (text * text)) : bool :=
    match (if udc then inl attrs else Ok []) with
    | Ok inls => match ws_val (c_display (cs_core (computed_style sd me inls))) with
                 | Some true => true
                 | _ => false
                 end
    | _ => false
    end.

  (* the child loop of prune, over an arbitrary per-child function; indices advance as in
     `process` (original positions) *)
  Definition prk_of (pr : node -> Z -> option node) : list node -> Z -> list node :=
    fix prk (kids : list node) (idx : Z) {struct kids} : list node :=
      match kids with
      | [] => []
      | k :: kids' =>
        let rest := prk kids' (if is_elem k then (idx + 1)%Z else idx) in
        match pr k idx with Some k' => k' :: rest | None => rest end
      end.

  (* delete every element whose computed display, in its context, is none; same traversal
     (ancestor chain, element indices) as `process` *)
  Fixpoint prune (n : node) (p : list anc) (idx : Z) {struct n} : option node :=
    match n with
    | NElem html name attrs kids =>
      let me := mkanc name attrs idx :: p in
      if hidden me attrs then None
      else Some (NElem html name attrs (prk_of (fun k i => prune k me i) kids 1%Z))
    | _ => Some n
    end.

  Definition prune_kids (kids : list node) (p : list anc) (idx : Z) : list node :=
    prk_of (fun k i => prune k p i) kids idx.
  Definition prune_doc (doc : list node) : list node := prune_kids doc [] 1%Z.

  Lemma pbody_hidden : forall html name attrs me rk,
    hidden me attrs = true ->
    pbody sd (if udc then inl attrs else Ok []) html name attrs me rk = Ok None.
  Proof.
    intros html name attrs me rk H. unfold hidden in H. unfold pbody.
    destruct (if udc then inl attrs else Ok []) as [inls| | |]; try discriminate H. cbn [bind].
    destruct (ws_val (c_display (cs_core (computed_style sd me inls)))) as [[|]|];
      [reflexivity|discriminate H|discriminate H].
  Qed.

  Lemma process_hidden : forall html name attrs kids p idx,
    hidden (mkanc name attrs idx :: p) attrs = true ->
    process (NElem html name attrs kids) p idx = Ok None.
  Proof. intros. rewrite process_eq. apply pbody_hidden. assumption. Qed.

  (* (1) for a hidden element child: whatever the parent is, whatever the child contains *)
  Corollary local_deletion_hidden : forall html name attrs l1 l2 p idx chtml cname cattrs ckids,
    sheet_no_nth sd = true ->
    hidden (mkanc cname cattrs (1 + count_elems l1)%Z :: mkanc name attrs idx :: p) cattrs = true ->
    process (NElem html name attrs (l1 ++ NElem chtml cname cattrs ckids :: l2)) p idx =
    process (NElem html name attrs (l1 ++ l2)) p idx.
  Proof.
    intros html name attrs l1 l2 p idx chtml cname cattrs ckids Hn Hh.
    apply local_deletion_gen; [right; exact Hn|]. apply process_hidden. exact Hh.
  Qed.

  Lemma pk_prune : forall proc proc' pr kids,
    Forall (fun k => forall i i', proc k i = match pr k i with
                                            | None => Ok None
                                            | Some k' => proc' k' i'
                                            end) kids ->
    forall i i', pk_of proc kids i = pk_of proc' (prk_of pr kids i) i'.
  Proof.
    induction kids as [|k kids IH]; intros H i i'; [reflexivity|].
    inversion H as [|? ? Hk Hkids]; subst. specialize (IH Hkids).
    cbn [pk_of prk_of].
    change (match k with NElem _ _ _ _ => true | _ => false end) with (is_elem k).
    destruct (pr k i) as [k'|] eqn:Epr.
    - cbn [pk_of]. rewrite (Hk i i'), Epr.
      destruct (proc' k' i'); cbn [bind]; try reflexivity.
      rewrite (IH _ (if match k' with NElem _ _ _ _ => true | _ => false end then (i' + 1)%Z else i')).
      reflexivity.
    - rewrite (Hk i i'), Epr. cbn [bind]. rewrite (IH _ i').
      destruct (pk_of proc' _ i'); reflexivity.
  Qed.

  Hypothesis Hnth : sheet_no_nth sd = true.

  Lemma process_prune : forall n p p' idx idx',
    Forall2 anc_sim p p' ->
    process n p idx = match prune n p idx with
                      | None => Ok None
                      | Some n' => process n' p' idx'
                      end.
  Proof.
    apply (node_ind' (fun n => forall p p' idx idx', Forall2 anc_sim p p' ->
             process n p idx = match prune n p idx with
                               | None => Ok None
                               | Some n' => process n' p' idx'
                               end)); try reflexivity.
    intros html name attrs kids IH p p' idx idx' Hs. cbn [prune].
    destruct (hidden (mkanc name attrs idx :: p) attrs) eqn:Eh.
    - rewrite process_eq. apply pbody_hidden. exact Eh.
    - rewrite !process_eq.
      assert (Hme : Forall2 anc_sim (mkanc name attrs idx :: p) (mkanc name attrs idx' :: p'))
        by (constructor; [apply anc_sim_idx|exact Hs]).
      rewrite (pbody_sim sd Hnth _ html name attrs _ _ _ Hme). f_equal.
      apply pk_prune. rewrite Forall_forall in *. intros k Hk i i'. apply (IH k Hk _ _ i i' Hme).
  Qed.

  Lemma process_kids_prune : forall kids p idx,
    process_kids sd udc inl kids p idx = process_kids sd udc inl (prune_kids kids p idx) p idx.
  Proof.
    intros kids p idx. rewrite !process_kids_eq. unfold prune_kids.
    apply pk_prune. apply Forall_forall. intros k _ i i'. apply process_prune. apply chain_sim_refl.
  Qed.

  (* (3) GLOBAL at a fixed style sheet: the render tree of a document is the render tree of
     the document with every hidden element (and its subtree) deleted - the outcome is the
     same also when it is a failure. *)
  Theorem prune_equiv : forall doc,
    dom_to_render_tree sd udc inl doc = dom_to_render_tree sd udc inl (prune_doc doc).
  Proof.
    intros doc. unfold dom_to_render_tree, prune_doc. rewrite <- process_kids_prune. reflexivity.
  Qed.
End Prune.

(* ---------- prune really removes every hidden element: it is idempotent ---------- *)
Section PruneIdem.
  Variable sd : styledata.
  Variable udc : bool.
  Variable inl : list (text * text) -> res (list styledecl).
  Hypothesis Hnth : sheet_no_nth sd = true.

  Lemma hidden_sim : forall me me' attrs, Forall2 anc_sim me me' ->
    hidden sd udc inl me attrs = hidden sd udc inl me' attrs.
  Proof.
    intros me me' attrs Hs. unfold hidden.
    destruct (if udc then inl attrs else Ok []) as [inls| | |]; try reflexivity.
    rewrite (computed_style_sim sd Hnth me me' inls Hs). reflexivity.
  Qed.

  Lemma prk_idem : forall (pr pr' : node -> Z -> option node) kids,
    Forall (fun k => forall i i' k', pr k i = Some k' -> pr' k' i' = Some k') kids ->
    forall i i', prk_of pr' (prk_of pr kids i) i' = prk_of pr kids i.
  Proof.
    induction kids as [|k kids IH]; intros H i i'; [reflexivity|].
    inversion H as [|? ? Hk Hkids]; subst. specialize (IH Hkids). cbn [prk_of].
    destruct (pr k i) as [k'|] eqn:E.
    - cbn [prk_of]. rewrite (Hk i i' k' E), IH. reflexivity.
    - apply IH.
  Qed.

  Lemma prune_fixed : forall n p p' idx idx' n',
    Forall2 anc_sim p p' -> prune sd udc inl n p idx = Some n' ->
    prune sd udc inl n' p' idx' = Some n'.
  Proof.
    apply (node_ind' (fun n => forall p p' idx idx' n', Forall2 anc_sim p p' ->
             prune sd udc inl n p idx = Some n' -> prune sd udc inl n' p' idx' = Some n'));
      try (intros; cbn [prune] in *; match goal with H : Some _ = Some _ |- _ =>
                                        inversion H; subst; reflexivity end).
    intros html name attrs kids IH p p' idx idx' n' Hs H. cbn [prune] in H.
    destruct (hidden sd udc inl (mkanc name attrs idx :: p) attrs) eqn:Eh; [discriminate H|].
    inversion H; subst n'; clear H. cbn [prune].
    assert (Hme : Forall2 anc_sim (mkanc name attrs idx :: p) (mkanc name attrs idx' :: p'))
      by (constructor; [apply anc_sim_idx|exact Hs]).
    rewrite <- (hidden_sim _ _ attrs Hme), Eh. do 2 f_equal.
    apply prk_idem. rewrite Forall_forall in *. intros k Hk i i' k' E.
    apply (IH k Hk _ _ i i' k' Hme E).
  Qed.

  Theorem prune_doc_idem : forall doc,
    prune_doc sd udc inl (prune_doc sd udc inl doc) = prune_doc sd udc inl doc.
  Proof.
    intros doc. unfold prune_doc, prune_kids. apply prk_idem.
    apply Forall_forall. intros k _ i i' k' E. apply (prune_fixed k [] [] i i' k'); [constructor|exact E].
  Qed.
End PruneIdem.

(* ====================================================================== *)
(* 6. The Api level                                                        *)
(* ====================================================================== *)
Section Routes.
  Variable inline_styles : list (text * text) -> res (list styledecl).
  Variable doc_rules : list node -> res (list ruleset).

  (* (3) at the Api: the hidden elements are determined with the style data in effect for
     the ORIGINAL document (its <style> rules included when document CSS is enabled). *)
  Theorem to_render_tree_prune : forall c doc,
    (forall sd, effective_sd doc_rules c doc = Ok sd -> sheet_no_nth sd = true) ->
    to_render_tree inline_styles doc_rules c doc =
    (do sd <- effective_sd doc_rules c doc;
     dom_to_render_tree sd (c_use_doc_css c) inline_styles
                        (prune_doc sd (c_use_doc_css c) inline_styles doc)).
  Proof.
    intros c doc Hn. unfold to_render_tree.
    destruct (effective_sd doc_rules c doc) as [sd| | |]; cbn [bind]; try reflexivity.
    apply prune_equiv. apply Hn. reflexivity.
  Qed.

  (* ... and when pruning does not change the style data in effect (always the case when
     document CSS is off; with document CSS on: when no <style> element with rules sits in
     a hidden subtree - see `style_in_hidden_subtree` below) the pruned document gives
     the same render tree through the public route *)
  Theorem to_render_tree_prune_doc : forall c doc sd,
    effective_sd doc_rules c doc = Ok sd ->
    sheet_no_nth sd = true ->
    effective_sd doc_rules c (prune_doc sd (c_use_doc_css c) inline_styles doc) = Ok sd ->
    to_render_tree inline_styles doc_rules c doc =
    to_render_tree inline_styles doc_rules c (prune_doc sd (c_use_doc_css c) inline_styles doc).
  Proof.
    intros c doc sd E Hn E'. unfold to_render_tree. rewrite E, E'. cbn [bind].
    apply prune_equiv. exact Hn.
  Qed.

  Corollary to_render_tree_prune_nodoccss : forall c doc,
    c_use_doc_css c = false ->
    sheet_no_nth (c_sd c) = true ->
    to_render_tree inline_styles doc_rules c doc =
    to_render_tree inline_styles doc_rules c (prune_doc (c_sd c) false inline_styles doc).
  Proof.
    intros c doc Hu Hn.
    assert (E : forall d, effective_sd doc_rules c d = Ok (c_sd c))
      by (intros d; unfold effective_sd; rewrite Hu; reflexivity).
    rewrite <- Hu. apply to_render_tree_prune_doc; [apply E|exact Hn|apply E].
  Qed.
End Routes.

(* ====================================================================== *)
(* 7. (4) Document styles have no effect unless document CSS is enabled    *)
(* ====================================================================== *)
(* 7a. the CSS front end is never consulted *)
Lemma process_nodoccss_indep : forall sd inl1 inl2 n p idx,
  process sd false inl1 n p idx = process sd false inl2 n p idx.
Proof.
  (* `inl` occurs in `process` only under `if use_doc_css then inl attrs else Ok []` *)
  intros. reflexivity.
Qed.

Lemma dom_nodoccss_indep : forall sd inl1 inl2 doc,
  dom_to_render_tree sd false inl1 doc = dom_to_render_tree sd false inl2 doc.
Proof.
  intros sd inl1 inl2 doc. unfold dom_to_render_tree. rewrite !process_kids_eq.
  rewrite (pk_ext_same (fun k i => process sd false inl1 k [] i)
                       (fun k i => process sd false inl2 k [] i)); [reflexivity|].
  apply Forall_forall. intros k _ i. apply process_nodoccss_indep.
Qed.

(* With use_doc_css = false neither the inline-style parser nor the <style> rule extractor
   has any influence: the render tree is the same for ANY two CSS front ends. *)
Theorem nodoccss_frontend_indep : forall inl1 dr1 inl2 dr2 c doc,
  c_use_doc_css c = false ->
  to_render_tree inl1 dr1 c doc = to_render_tree inl2 dr2 c doc.
Proof.
  intros inl1 dr1 inl2 dr2 c doc Hu. unfold to_render_tree, effective_sd. rewrite Hu. cbn [bind].
  apply dom_nodoccss_indep.
Qed.

(* 7b. ... and the document's style information itself is never looked at: removing every
   `style`, `color` and `bgcolor` attribute (the three attributes CssParse.inline_styles
   reads) and emptying every html <style> element changes nothing. *)
Definition is_css_attr (k : text) : bool :=
  attr_is k s_style || attr_is k s_colorattr || attr_is k s_bgcolor.
Definition strip_attrs (attrs : list (text * text)) : list (text * text) :=
  filter (fun kv => negb (is_css_attr (fst kv))) attrs.

Fixpoint strip (n : node) : node :=
  match n with
  | NElem html name attrs kids =>
    NElem html name (strip_attrs attrs)
          (if html && is_ascii_str name s_style then [] else map strip kids)
  | _ => n
  end.

Lemma lN_eqb_eq : forall a b, lN_eqb a b = true -> a = b.
Proof.
  induction a as [|x a IH]; intros [|y b] H; cbn [lN_eqb] in H; try discriminate; [reflexivity|].
  apply andb_true_iff in H. destruct H as [H1 H2]. apply N.eqb_eq in H1. subst y.
  rewrite (IH b H2). reflexivity.
Qed.

Lemma attr_is_excl : forall k l1 l2, l1 <> l2 -> attr_is k l1 = true -> attr_is k l2 = false.
Proof.
  intros k l1 l2 Hne H1. destruct (attr_is k l2) eqn:H2; [|reflexivity].
  unfold attr_is, is_ascii_str in *. apply lN_eqb_eq in H1. apply lN_eqb_eq in H2. congruence.
Qed.

Lemma find_filter : forall {A} (f g : A -> bool) l,
  (forall x, f x = true -> g x = true) -> find f (filter g l) = find f l.
Proof.
  intros A f g l H. induction l as [|x l IH]; [reflexivity|]. cbn [filter find].
  destruct (g x) eqn:Eg; cbn [find]; destruct (f x) eqn:Ef; try reflexivity; try exact IH.
  rewrite (H x Ef) in Eg. discriminate Eg.
Qed.

Lemma existsb_filter : forall {A} (f g : A -> bool) l,
  (forall x, f x = true -> g x = true) -> existsb f (filter g l) = existsb f l.
Proof.
  intros A f g l H. induction l as [|x l IH]; [reflexivity|]. cbn [filter existsb].
  destruct (g x) eqn:Eg; cbn [existsb]; destruct (f x) eqn:Ef; cbn [orb]; try reflexivity; try exact IH.
  rewrite (H x Ef) in Eg. discriminate Eg.
Qed.

Lemma css_attr_excl : forall k l,
  l <> s_style -> l <> s_colorattr -> l <> s_bgcolor ->
  attr_is k l = true -> is_css_attr k = false.
Proof.
  intros k l H1 H2 H3 H. unfold is_css_attr.
  destruct (attr_is k s_style) eqn:E1;
    [rewrite (attr_is_excl k s_style l (not_eq_sym H1) E1) in H; discriminate H|].
  destruct (attr_is k s_colorattr) eqn:E2;
    [rewrite (attr_is_excl k s_colorattr l (not_eq_sym H2) E2) in H; discriminate H|].
  destruct (attr_is k s_bgcolor) eqn:E3;
    [rewrite (attr_is_excl k s_bgcolor l (not_eq_sym H3) E3) in H; discriminate H|].
  reflexivity.
Qed.

Lemma css_attr_excl' : forall k l,
  l <> s_style -> l <> s_colorattr -> l <> s_bgcolor ->
  is_css_attr k = true -> attr_is k l = false.
Proof.
  intros k l H1 H2 H3 H. destruct (attr_is k l) eqn:E; [|reflexivity].
  rewrite (css_attr_excl k l H1 H2 H3 E) in H. discriminate H.
Qed.

Ltac not_style :=
  let kv := fresh "kv" in let H := fresh "H" in
  intros kv H; apply negb_true_iff;
  repeat match type of H with
         | (_ && _)%bool = true => apply andb_true_iff in H; destruct H as [H _]
         end;
  match type of H with
  | attr_is _ ?l = true => apply (css_attr_excl _ l); [discriminate|discriminate|discriminate|exact H]
  end.

Lemma find_attr_strip : forall attrs k,
  k <> s_style -> k <> s_colorattr -> k <> s_bgcolor ->
  find_attr (strip_attrs attrs) k = find_attr attrs k.
Proof.
  intros attrs k H1 H2 H3. unfold find_attr, strip_attrs. rewrite find_filter; [reflexivity|].
  intros kv H. apply negb_true_iff. apply (css_attr_excl _ k H1 H2 H3 H).
Qed.

Lemma td_colspan_strip : forall attrs, td_colspan (strip_attrs attrs) = td_colspan attrs.
Proof.
  intros attrs. unfold td_colspan, strip_attrs.
  set (f := fun (acc : N) (kv : text * text) =>
              if attr_is (fst kv) s_colspan
              then match parse_usize (snd kv) with Some n => N.min n 1000 | None => 1 end
              else acc).
  generalize 1.
  induction attrs as [|kv attrs IH]; intros acc; [reflexivity|]. cbn [filter fold_left].
  destruct (is_css_attr (fst kv)) eqn:Es; cbn [negb fold_left].
  - replace (f acc kv) with acc; [apply IH|]. unfold f.
    rewrite (css_attr_excl' _ s_colspan ltac:(discriminate) ltac:(discriminate) ltac:(discriminate) Es).
    reflexivity.
  - apply IH.
Qed.

Lemma fragment_of_strip : forall name is_a attrs,
  fragment_of name is_a (strip_attrs attrs) = fragment_of name is_a attrs.
Proof.
  intros name is_a attrs. unfold fragment_of, strip_attrs. rewrite find_filter; [reflexivity|].
  intros kv H. apply negb_true_iff. apply orb_true_iff in H. destruct H as [H|H].
  - apply (css_attr_excl _ s_id); [discriminate|discriminate|discriminate|exact H].
  - apply andb_true_iff in H. destruct H as [_ H].
    apply (css_attr_excl _ s_name); [discriminate|discriminate|discriminate|exact H].
Qed.

Lemma img_attrs_strip : forall attrs title src,
  match title, src with Some _, Some _ => False | _, _ => True end ->
  img_attrs (strip_attrs attrs) title src = img_attrs attrs title src.
Proof.
  induction attrs as [|[k v] attrs IH]; intros title src Hinv; [reflexivity|].
  unfold strip_attrs. cbn [filter fst]. fold (strip_attrs attrs).
  destruct (is_css_attr k) eqn:Es; cbn [negb].
  - cbn [img_attrs].
    rewrite (css_attr_excl' _ s_alt ltac:(discriminate) ltac:(discriminate) ltac:(discriminate) Es).
    rewrite (css_attr_excl' _ s_src ltac:(discriminate) ltac:(discriminate) ltac:(discriminate) Es).
    cbn [andb].
    destruct title as [t|], src as [s|]; try (apply IH; exact Hinv). destruct Hinv.
  - cbn [img_attrs].
    destruct (if attr_is k s_alt && negb match v with [] => true | _ :: _ => false end
              then Some v else title) as [t'|] eqn:Et;
    destruct (if attr_is k s_src && negb match v with [] => true | _ :: _ => false end
              then Some v else src) as [s'|] eqn:Esr; try reflexivity; apply IH; exact I.
Qed.

Lemma build_element_strip : forall name attrs computed cs,
  build_element name (strip_attrs attrs) computed cs = build_element name attrs computed cs.
Proof.
  intros name attrs computed cs. unfold build_element.
  rewrite (find_attr_strip attrs s_href ltac:(discriminate) ltac:(discriminate) ltac:(discriminate)).
  rewrite (find_attr_strip attrs s_start ltac:(discriminate) ltac:(discriminate) ltac:(discriminate)).
  rewrite td_colspan_strip. reflexivity.
Qed.

Lemma anc_strip : forall name attrs idx,
  anc_simx true (mkanc name attrs idx) (mkanc name (strip_attrs attrs) idx).
Proof.
  intros name attrs idx. constructor; try reflexivity.
  - intros c. unfold has_class, strip_attrs. cbn [a_attrs]. symmetry. apply existsb_filter. not_style.
  - intros h. unfold has_id, strip_attrs. cbn [a_attrs]. symmetry. apply existsb_filter. not_style.
Qed.

(* the body does not look at `style` attributes, and not at the children of an html <style> *)
Lemma pbody_strip_attrs : forall sd html name attrs me rk,
  pbody sd (Ok []) html name (strip_attrs attrs) me rk = pbody sd (Ok []) html name attrs me rk.
Proof.
  intros. unfold pbody. cbn [bind].
  rewrite fragment_of_strip, (img_attrs_strip attrs None None I).
  destruct (ws_val _) as [[|]|]; [reflexivity|..];
  (destruct (negb html); [reflexivity|];
   destruct (names [[105;109;103]] name); [reflexivity|];
   destruct (names [[98;114]] name); [reflexivity|];
   destruct (names _ name); [reflexivity|];
   destruct rk as [cs| | |]; cbn [bind]; [rewrite build_element_strip|..]; reflexivity).
Qed.

Lemma pbody_style_kids : forall sd ri name attrs me rk rk',
  is_ascii_str name s_style = true ->
  pbody sd ri true name attrs me rk = pbody sd ri true name attrs me rk'.
Proof.
  intros sd ri name attrs me rk rk' Hs. unfold pbody.
  destruct ri as [inls| | |]; cbn [bind]; try reflexivity.
  destruct (ws_val _) as [[|]|]; [reflexivity|..]; cbn [negb];
  (destruct (names [[105;109;103]] name); [reflexivity|];
   destruct (names [[98;114]] name); [reflexivity|];
   replace (names [[108;105;110;107]; [109;101;116;97]; [104;114]; [115;99;114;105;112;116];
                   [115;116;121;108;101]; [104;101;97;100]] name) with true; [reflexivity|];
   unfold names; cbn [existsb]; change [115;116;121;108;101] with s_style; rewrite Hs;
   rewrite !orb_true_r; reflexivity).
Qed.

Lemma pk_map : forall proc proc' (f : node -> node) kids,
  (forall k, is_elem (f k) = is_elem k) ->
  Forall (fun k => forall i, proc k i = proc' (f k) i) kids ->
  forall i, pk_of proc kids i = pk_of proc' (map f kids) i.
Proof.
  induction kids as [|k kids IH]; intros Hf H i; [reflexivity|].
  inversion H as [|? ? Hk Hkids]; subst. cbn [map pk_of]. rewrite (Hk i).
  destruct (proc' (f k) i); cbn [bind]; try reflexivity.
  change (match f k with NElem _ _ _ _ => true | _ => false end) with (is_elem (f k)).
  change (match k with NElem _ _ _ _ => true | _ => false end) with (is_elem k).
  rewrite (Hf k), (IH Hf Hkids). reflexivity.
Qed.

Lemma is_elem_strip : forall k, is_elem (strip k) = is_elem k.
Proof. destruct k; reflexivity. Qed.

Lemma process_strip : forall sd inl inl' n p p' idx,
  Forall2 (anc_simx true) p p' ->
  process sd false inl n p idx = process sd false inl' (strip n) p' idx.
Proof.
  intros sd inl inl'.
  apply (node_ind' (fun n => forall p p' idx, Forall2 (anc_simx true) p p' ->
           process sd false inl n p idx = process sd false inl' (strip n) p' idx)); try reflexivity.
  intros html name attrs kids IH p p' idx Hs. cbn [strip]. rewrite !process_eq.
  assert (Hme : Forall2 (anc_simx true) (mkanc name attrs idx :: p)
                        (mkanc name (strip_attrs attrs) idx :: p'))
    by (constructor; [apply anc_strip|exact Hs]).
  rewrite pbody_strip_attrs.
  rewrite (pbody_simx true sd ltac:(discriminate) _ html name attrs _ _ _ Hme).
  destruct (html && is_ascii_str name s_style) eqn:Est.
  - apply andb_true_iff in Est. destruct Est as [Hh Hst]. subst html.
    apply pbody_style_kids. exact Hst.
  - f_equal. apply pk_map; [exact is_elem_strip|].
    rewrite Forall_forall in *. intros k Hk i. apply (IH k Hk _ _ i Hme).
Qed.

Theorem dom_strip : forall sd inl inl' doc,
  dom_to_render_tree sd false inl doc = dom_to_render_tree sd false inl' (map strip doc).
Proof.
  intros sd inl inl' doc. unfold dom_to_render_tree. rewrite !process_kids_eq.
  rewrite (pk_map (fun k i => process sd false inl k [] i)
                  (fun k i => process sd false inl' k [] i) strip doc is_elem_strip); [reflexivity|].
  apply Forall_forall. intros k _ i. apply process_strip. constructor.
Qed.

(* (4) With document CSS disabled the render tree is that of the document with all `style`,
   `color`, `bgcolor` attributes removed and all html <style> elements emptied - whatever
   the CSS front end. *)
Theorem nodoccss_strip : forall inl dr inl' dr' c doc,
  c_use_doc_css c = false ->
  to_render_tree inl dr c doc = to_render_tree inl' dr' c (map strip doc).
Proof.
  intros inl dr inl' dr' c doc Hu. unfold to_render_tree, effective_sd. rewrite Hu. cbn [bind].
  apply dom_strip.
Qed.

(* hence: two documents that differ only in style attributes and <style> contents give the
   same render tree (and so the same output on every route) *)
Corollary nodoccss_styles_irrelevant : forall inl dr c doc1 doc2,
  c_use_doc_css c = false -> map strip doc1 = map strip doc2 ->
  to_render_tree inl dr c doc1 = to_render_tree inl dr c doc2.
Proof.
  intros inl dr c doc1 doc2 Hu E.
  rewrite (nodoccss_strip inl dr inl dr c doc1 Hu), (nodoccss_strip inl dr inl dr c doc2 Hu), E.
  reflexivity.
Qed.

(* ====================================================================== *)
(* 8. Examples (non-vacuity), necessity of the hypotheses, observations    *)
(* ====================================================================== *)
Module PruneExamples.
Import String Ascii.
Local Open Scope string_scope.

Fixpoint lN (s : string) : list N :=
  match s with EmptyString => [] | String a s' => N_of_ascii a :: lN s' end.
Definition t (s : string) : text :=
  List.map (fun c => mkchr c (Some 1) ((c =? 32)%N || (c =? 10)%N) 16) (lN s).
Definition el (name : string) (attrs : list (string * string)) (kids : list node) : node :=
  NElem true (t name) (List.map (fun kv => (t (fst kv), t (snd kv))) attrs) kids.
Definition tx (s : string) : node := NText (t s).
Definition hide : list (string * string) := [("style", "display:none")].
(* plain decorator, footnotes, document CSS enabled / disabled *)
Definition cfg : config := set_doc_css cfg_plain.
Definition out (c : config) (doc : list node) : res (list N) :=
  match string_from_read inline_styles doc_rules c doc 30 with
  | Ok r => Ok (cps r) | TooNarrow => TooNarrow | Panic s => Panic s | OutOfFuel => OutOfFuel
  end.
Definition the_sd (c : config) (doc : list node) : styledata :=
  match effective_sd doc_rules c doc with Ok sd => sd | _ => styledata0 end.

(* ---- a document with hidden parts in every kind of parent: inline child of a paragraph,
   list item of an <ol>, a table row and a table cell, the only child of a link, an element
   with an id hidden by the zero-height/hidden-overflow idiom, a descendant selector ---- *)
Definition doc1 : list node :=
  [el "html" []
    [el "head" [] [el "style" [] [tx "div.k b { display: none }"]];
     el "body" []
      [el "p" [] [tx "a"; el "span" hide [tx "b"]; tx "c"];
       el "ol" [] [el "li" [] [tx "x"]; el "li" hide [tx "y"]; el "li" [] [tx "z"]];
       el "table" []
         [el "tbody" []
            [el "tr" hide [el "td" [] [tx "h"]];
             el "tr" [] [el "td" [] [tx "v"]; el "td" hide [tx "w"]]]];
       el "a" [("href", "u")] [el "b" hide [tx "q"]];
       el "div" [("id", "i"); ("style", "height:0;overflow:hidden")] [tx "zz"];
       el "div" [("class", "j k")] [el "p" [] [tx "m"; el "b" [] [tx "n"]]]]]].

Definition doc1_pruned : list node :=
  [el "html" []
    [el "head" [] [el "style" [] [tx "div.k b { display: none }"]];
     el "body" []
      [el "p" [] [tx "a"; tx "c"];
       el "ol" [] [el "li" [] [tx "x"]; el "li" [] [tx "z"]];
       el "table" [] [el "tbody" [] [el "tr" [] [el "td" [] [tx "v"]]]];
       el "a" [("href", "u")] [];
       el "div" [("class", "j k")] [el "p" [] [tx "m"]]]]].

Example ex_doc1_prune :
  prune_doc (the_sd cfg doc1) (c_use_doc_css cfg) inline_styles doc1 = doc1_pruned.
Proof. vm_compute. reflexivity. Qed.

(* the global theorem applies to doc1 (all hypotheses hold) ... *)
Example ex_doc1_equiv :
  to_render_tree inline_styles doc_rules cfg doc1 =
  to_render_tree inline_styles doc_rules cfg doc1_pruned.
Proof.
  rewrite <- ex_doc1_prune.
  apply to_render_tree_prune_doc; vm_compute; reflexivity.
Qed.
(* ... and the output is "ac / 1. x / 2. z / (table) v / m": nothing of b y h w q zz n, no
   fragment marker, no link, no footnote *)
Example ex_doc1_out :
  out cfg doc1 = Ok (lN "ac" ++ [10] ++ lN "1. x" ++ [10] ++ lN "2. z" ++ [10; 10; 9472; 10] ++
                     lN "v" ++ [10; 9472; 10; 10] ++ lN "m" ++ [10])%list.
Proof. vm_compute. reflexivity. Qed.

(* (1) LOCAL on a concrete parent: the hidden <li> in the <ol> *)
Example ex_local :
  let sd := the_sd cfg doc1 in
  let li s a := el "li" a [tx s] in
  process sd true inline_styles (el "ol" [] ([li "x" []] ++ li "y" hide :: [li "z" []])) [] 1%Z =
  process sd true inline_styles (el "ol" [] ([li "x" []] ++ [li "z" []])) [] 1%Z.
Proof.
  cbv zeta. apply local_deletion_gen; [right|]; vm_compute; reflexivity.
Qed.

(* (2) on concrete chains: same names/classes/ids, different indices *)
Example ex_style_sim :
  let sd := the_sd cfg doc1 in
  let p i j := [mkanc (t "b") [] i; mkanc (t "p") [] j; mkanc (t "div") [(t "class", t "j k")] 7%Z] in
  computed_style sd (p 2%Z 1%Z) [] = computed_style sd (p 5%Z 3%Z) [] /\
  ws_val (c_display (cs_core (computed_style sd (p 2%Z 1%Z) []))) = Some true.
Proof.
  cbv zeta. split; [|vm_compute; reflexivity].
  apply computed_style_sim; [vm_compute; reflexivity|].
  repeat constructor; discriminate.
Qed.

(* ---- the hypothesis sheet_no_nth is necessary: deleting a hidden element renumbers its
   later siblings.  <style>p:nth-child(1){display:none}</style>
   <div><p style="display:none">a</p><p>b</p><p>c</p></div>  renders "b / c"; with the hidden
   first <p> deleted, "b" becomes the first child and disappears as well. ---- *)
Definition doc_nth (with_a : bool) : list node :=
  [el "style" [] [tx "p:nth-child(1){display:none}"];
   el "div" [] ((if with_a then [el "p" hide [tx "a"]] else []) ++
                [el "p" [] [tx "b"]; el "p" [] [tx "c"]])%list].
Example ex_nth_needed :
  sheet_no_nth (the_sd cfg (doc_nth true)) = false /\
  prune_doc (the_sd cfg (doc_nth true)) true inline_styles (doc_nth true) = doc_nth false /\
  out cfg (doc_nth true) = Ok (lN "b" ++ [10; 10] ++ lN "c" ++ [10])%list /\
  out cfg (doc_nth false) = Ok (lN "c" ++ [10])%list.
Proof. vm_compute. repeat split; reflexivity. Qed.

(* ---- OBSERVATION (limit of "as if the hidden subtrees had been deleted" at the Api level):
   the rules of a <style> element are collected from the whole document, also from inside a
   hidden subtree (and from a hidden <style> element itself).  So deleting the hidden subtree
   from the DOCUMENT also deletes rules:
   <div style="display:none"><style>p{display:none}</style></div><p>x</p>  renders "", the
   document with the hidden <div> deleted renders "x".  (Browsers agree with html2text here.)
   This is why `to_render_tree_prune` prunes with the style data of the original document and
   `to_render_tree_prune_doc` asks that pruning leaves the effective style data unchanged. ---- *)
Definition doc_sh : list node :=
  [el "div" hide [el "style" [] [tx "p{display:none}"]]; el "p" [] [tx "x"]].
Example style_in_hidden_subtree :
  out cfg doc_sh = Ok [] /\
  prune_doc (the_sd cfg doc_sh) true inline_styles doc_sh = [] /\
  out cfg [el "p" [] [tx "x"]] = Ok (lN "x" ++ [10])%list /\
  effective_sd doc_rules cfg [el "p" [] [tx "x"]] <> effective_sd doc_rules cfg doc_sh.
Proof. vm_compute. repeat split; try reflexivity. discriminate. Qed.

(* ---- a winning display value other than none (cell = Some false) does not hide: the inline
   display:block beats the sheet's p{display:none}, the element is kept by prune and rendered ---- *)
Definition doc_blk : list node :=
  [el "style" [] [tx "p{display:none}"];
   el "p" [("style", "display:block")] [tx "x"]; el "p" [] [tx "y"]].
Example ex_display_other_kept :
  prune_doc (the_sd cfg doc_blk) true inline_styles doc_blk =
    [el "style" [] [tx "p{display:none}"]; el "p" [("style", "display:block")] [tx "x"]] /\
  ws_val (c_display (cs_core (computed_style (the_sd cfg doc_blk)
            [mkanc (t "p") [(t "style", t "display:block")] 2%Z]
            (match inline_styles [(t "style", t "display:block")] with Ok l => l | _ => [] end))))
    = Some false /\
  out cfg doc_blk = Ok (lN "x" ++ [10])%list.
Proof. vm_compute. repeat split; reflexivity. Qed.

(* ---- (4): document CSS disabled ---- *)
Definition doc4 : list node :=
  [el "style" [] [tx "p{display:none}"];
   el "p" [("style", "display:none"); ("id", "f"); ("color", "#fff")] [tx "x"];
   el "table" [] [el "tr" [] [el "td" [("bgcolor", "red"); ("colspan", "2"); ("style", "")] [tx "y"]]]].
Definition doc4_stripped : list node :=
  [el "style" [] [];
   el "p" [("id", "f")] [tx "x"];
   el "table" [] [el "tr" [] [el "td" [("colspan", "2")] [tx "y"]]]].
Example ex_strip : List.map strip doc4 = doc4_stripped.
Proof. vm_compute. reflexivity. Qed.
Example ex_nodoccss :
  to_render_tree inline_styles doc_rules cfg_plain doc4 =
  to_render_tree (fun _ => Panic 0) (fun _ => Panic 0) cfg_plain doc4_stripped.
Proof. rewrite <- ex_strip. apply nodoccss_strip. reflexivity. Qed.
Example ex_nodoccss_out :
  out cfg_plain doc4 = out cfg_plain doc4_stripped /\
  out cfg doc4 = Ok [] /\
  match out cfg_plain doc4 with Ok (c :: _) => c = 120 | _ => False end.
Proof. vm_compute. repeat split; reflexivity. Qed.

(* ---- OBSERVATION: only html <style> elements are silent.  A <style> element in another
   namespace (the HTML parser produces one for <svg><style>..</style></svg>) is an ordinary
   container: its CSS source text is rendered, with document CSS on or off. ---- *)
Definition doc_svg : list node :=
  [NElem false (t "svg") [] [NElem false (t "style") [] [tx "p{display:none}"]]; el "p" [] [tx "x"]].
Example svg_style_is_text :
  out cfg_plain doc_svg = Ok (lN "p{display:none}" ++ [10; 10] ++ lN "x" ++ [10])%list /\
  out cfg doc_svg = Ok (lN "p{display:none}" ++ [10; 10] ++ lN "x" ++ [10])%list.
Proof. vm_compute. split; reflexivity. Qed.
End PruneExamples.

Print Assumptions computed_style_sim.
Print Assumptions process_sim_gen.
Print Assumptions local_deletion_gen.
Print Assumptions local_deletion_hidden.
Print Assumptions prune_equiv.
Print Assumptions prune_doc_idem.
Print Assumptions to_render_tree_prune.
Print Assumptions to_render_tree_prune_doc.
Print Assumptions to_render_tree_prune_nodoccss.
Print Assumptions nodoccss_frontend_indep.
Print Assumptions nodoccss_strip.
Print Assumptions nodoccss_styles_irrelevant.
Print Assumptions PruneExamples.ex_doc1_equiv.
