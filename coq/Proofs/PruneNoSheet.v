(* Proofs/PruneNoSheet.v -- C18, the last step to the property as stated:
       render_css(d) = render(delete_hidden(d))     (right-hand side WITHOUT the sheet)
   Proofs/Prune.v shows  tree(doc) = tree(prune_doc doc)  under the SAME style data.  Here: the
   pruned document under the sheet renders like the pruned document without the hiding rules -
   in particular, when the sheet only hides, without any style data at all.  No axioms.

   MAIN THEOREMS (section 8; both routes lines_from_read / string_from_read, every width, every
   decorator and option; sd = the style data in effect for the document, `effective_sd`;
   doc' = prune_doc sd (c_use_doc_css c) inline_styles doc):
     c18_hidden_as_deleted         sheet_no_nth sd, sheet_only_hides sd, doc_only_hides doc ->
                                   routes c doc w = routes (no_css c) doc' w
                                   (no_css c: agent, user and author sheet empty, document CSS off)
     c18_hidden_as_deleted_base    sheet_no_nth sd, sheet_none_only sd, doc_only_hides doc ->
                                   routes c doc w = routes (with_css c (unhide sd) false) doc' w
                                   (the sheet may contain other rules - e.g. the plain decorator's
                                   em::before{content:"*"} - the deleted side keeps them: `unhide sd`
                                   = sd minus its hiding rules)
     c18_hidden_as_deleted_inline  the same with document CSS on on both sides (inline colours stay),
                                   doc_none_only doc, given that the style data in effect for doc' is
                                   `unhide sd`.
   Hypotheses (all decidable booleans):
     sheet_no_nth (Prune)   no :nth-child: deleting shifts sibling indices (Prune.ex_nth_needed).
     sheet_only_hides sd    every declaration of every rule of the three sheets is display:none
                            (also what the height:0 + overflow:hidden idiom yields); rules for
                            ::before / ::after included.
     sheet_none_only sd     no rule for an element itself declares a display value other than none
                            (needed: exD_needed - a rule that hides and styles is removable only
                            because all it matches is hidden).
     doc_only_hides doc     every element's inline declarations (style / color / bgcolor attributes,
                            when document CSS is on) parse and are empty or contain a display:none and
                            no other display value (needed: exC_needed - a colour on an element that
                            stays is still rendered on the full side).
   WHAT DIFFERS BETWEEN THE TWO SIDES (answer to "render trees differ in pseudo-element fields"):
   the render trees are in general NOT equal (exA_trees): a node stores its whole computed style,
   and on the full side this contains, for a rule like em::before{display:none}, a ::before style
   with a display cell; origins / specificities of cells are stored too.  None of this is read:
   Render.render_node looks at a style only through apply_style (values of colour, background,
   white-space; the <pre> flag), Dom.wrap_pseudo only at the content values of ::before/::after.
   So the statement is proved up to `nrm` (section 3: every style replaced by what apply_style
   reads):  render_tree_nrm : render_tree .. (nrm t) = render_tree .. t   (sections 4-5), and
   dom_unhide : rmap nrm (tree doc, full side) = rmap nrm (tree doc', deleted side) (sections 6-7),
   from computed_unhide (section 2): an element that is not hidden under sd has, up to display
   cells, the computed style it has under `unhide sd`, and is not hidden there.
   (1) of the task holds without exception: no counterexample through ::before{display:none},
   internal_pre or a pseudo position was found - they are covered by the theorem.
   OBSERVATION pseudo_display_none_ignored: display:none on ::before/::after does not suppress
   the pseudo-element's content (model and implementation agree). *)
From H2T Require Import Base Tagged Wrap Sub Css Dom Render Api CssParse.
From H2T Require Import Proofs.RenderWidth Proofs.Prune.
From Coq Require Import Lia ZifyN ZifyBool ZifyNat.
From Coq Require String Ascii.
Local Arguments N.add : simpl never.
Local Arguments N.sub : simpl never.
Local Arguments N.leb : simpl never.
Local Arguments N.ltb : simpl never.
Local Arguments N.eqb : simpl never.
Local Arguments N.max : simpl never.
Local Arguments N.min : simpl never.

(* ====================================================================== *)
(* 1. Sheets: hiding rules, the sheet without them                         *)
(* ====================================================================== *)
Definition is_disp (d : styledecl) : bool :=
  match sd_style d with SDisplay _ => true | _ => false end.
(* display: none *)
Definition is_none (d : styledecl) : bool :=
  match sd_style d with SDisplay true => true | _ => false end.
(* anything but a display value other than none *)
Definition not_shown (d : styledecl) : bool :=
  match sd_style d with SDisplay false => false | _ => true end.

(* a rule that can be left out on the deleted side: all its declarations are display
   declarations (for a ::before / ::after rule that is the only possibility: the display cell
   of a pseudo-element is never read), or it is a rule for the element itself that contains a
   display declaration (it then hides every element it matches, given `rule_ok`) *)
Definition removable (r : ruleset) : bool :=
  forallb is_disp (rs_styles r) ||
  match pseudo_el (rs_sel r) with
  | None => existsb is_disp (rs_styles r)
  | Some _ => false
  end.
(* no display value other than none for the element itself *)
Definition rule_ok (r : ruleset) : bool :=
  match pseudo_el (rs_sel r) with
  | None => forallb not_shown (rs_styles r)
  | Some _ => true
  end.

Definition unhide_rules (rs : list ruleset) : list ruleset :=
  filter (fun r => negb (removable r)) rs.
(* the sheet without its hiding rules *)
Definition unhide (sd : styledata) : styledata :=
  mkstd (unhide_rules (agent_rules sd)) (unhide_rules (user_rules sd))
        (unhide_rules (author_rules sd)).

(* every display declaration for an element itself is display:none *)
Definition sheet_none_only (sd : styledata) : bool :=
  forallb rule_ok (agent_rules sd) && forallb rule_ok (user_rules sd) &&
  forallb rule_ok (author_rules sd).

(* the sheet only hides: every declaration of every rule is display:none (what the zero-height
   + hidden-overflow idiom produces is exactly such a declaration) *)
Definition rules_only_hide (rs : list ruleset) : bool :=
  forallb (fun r => forallb is_none (rs_styles r)) rs.
Definition sheet_only_hides (sd : styledata) : bool :=
  rules_only_hide (agent_rules sd) && rules_only_hide (user_rules sd) &&
  rules_only_hide (author_rules sd).

Lemma is_none_disp : forall d, is_none d = true -> is_disp d = true.
Proof. intros [[ | |[|]| | ] i]; cbn; congruence. Qed.
Lemma is_none_not_shown : forall d, is_none d = true -> not_shown d = true.
Proof. intros [[ | |[|]| | ] i]; cbn; congruence. Qed.

Lemma forallb_impl : forall {A} (f g : A -> bool) l,
  (forall x, f x = true -> g x = true) -> forallb f l = true -> forallb g l = true.
Proof.
  intros A f g l H. induction l as [|x l IH]; [reflexivity|]. cbn [forallb].
  intros E. apply andb_true_iff in E. destruct E as [E1 E2].
  rewrite (H x E1), (IH E2). reflexivity.
Qed.

Lemma rules_only_hide_unhide : forall rs, rules_only_hide rs = true -> unhide_rules rs = [].
Proof.
  induction rs as [|r rs IH]; [reflexivity|]. unfold rules_only_hide. cbn [forallb].
  intros E. apply andb_true_iff in E. destruct E as [E1 E2].
  unfold unhide_rules. cbn [filter]. unfold removable.
  rewrite (forallb_impl is_none is_disp _ is_none_disp E1). cbn [orb negb]. apply IH. exact E2.
Qed.

Lemma rules_only_hide_ok : forall rs, rules_only_hide rs = true -> forallb rule_ok rs = true.
Proof.
  intros rs. unfold rules_only_hide. apply forallb_impl. intros r E. unfold rule_ok.
  destruct (pseudo_el (rs_sel r)); [reflexivity|].
  apply (forallb_impl is_none not_shown _ is_none_not_shown E).
Qed.

Lemma only_hides_unhide : forall sd, sheet_only_hides sd = true -> unhide sd = styledata0.
Proof.
  intros sd E. unfold sheet_only_hides in E.
  apply andb_true_iff in E. destruct E as [E E3]. apply andb_true_iff in E. destruct E as [E1 E2].
  unfold unhide. rewrite !rules_only_hide_unhide by assumption. reflexivity.
Qed.

Lemma only_hides_none_only : forall sd, sheet_only_hides sd = true -> sheet_none_only sd = true.
Proof.
  intros sd E. unfold sheet_only_hides in E.
  apply andb_true_iff in E. destruct E as [E E3]. apply andb_true_iff in E. destruct E as [E1 E2].
  unfold sheet_none_only. rewrite !rules_only_hide_ok by assumption. reflexivity.
Qed.

(* ====================================================================== *)
(* 2. The computed style of an element that is not hidden                  *)
(* ====================================================================== *)
(* everything of a property set except its display cell *)
Definition core_sim (c c' : cscore) : Prop :=
  c_colour c = c_colour c' /\ c_bg c = c_bg c' /\ c_white_space c = c_white_space c' /\
  c_content c = c_content c'.
Definition ocore (o : option cscore) : cscore := match o with Some c => c | None => core0 end.
(* two computed styles that agree except for display cells (and for an absent pseudo-element
   style against a present one without any value) *)
Record csim (s s' : cstyle) : Prop := mk_csim {
  cs_sim_core : core_sim (cs_core s) (cs_core s');
  cs_sim_before : core_sim (ocore (cs_before s)) (ocore (cs_before s'));
  cs_sim_after : core_sim (ocore (cs_after s)) (ocore (cs_after s'));
  cs_sim_pre : cs_internal_pre s = cs_internal_pre s' }.

Lemma core_sim_refl : forall c, core_sim c c.
Proof. intros c. repeat split. Qed.
Lemma csim_refl : forall s, csim s s.
Proof. intros s. constructor; try apply core_sim_refl. reflexivity. Qed.

Definition dval (s : cstyle) : option bool := ws_val (c_display (cs_core s)).

(* the display cell under updates with `true` *)
Lemma mu_true_hidden : forall (w : withspec bool) imp o sp,
  ws_val w <> Some false -> ws_val (maybe_update w imp o sp true) = Some true.
Proof.
  intros w imp o sp H. unfold maybe_update.
  destruct (ws_val w) as [[|]|] eqn:E; try reflexivity; [|congruence].
  repeat match goal with |- context [if ?b then _ else _] => destruct b end;
    cbn [ws_val]; try exact E; reflexivity.
Qed.

Lemma merge_core_sim : forall c c' imp o sp st,
  core_sim c c' -> core_sim (merge_core c imp o sp st) (merge_core c' imp o sp st).
Proof.
  intros c c' imp o sp st (H1 & H2 & H3 & H4).
  destruct st; cbn [merge_core]; unfold core_sim; cbn [c_colour c_bg c_white_space c_content];
    rewrite ?H1, ?H2, ?H3, ?H4; repeat split.
Qed.

(* the state of the two cascades side by side: cs with all rules, cs0 without the hiding rules.
   The display value of the element itself is never `Some false`; the deleted side is hidden only
   if the full side is; and either the full side is hidden already or the two agree *)
Record rel (cs cs0 : cstyle) : Prop := mk_rel {
  rel_d : dval cs <> Some false;
  rel_d0 : dval cs0 = Some true -> dval cs = Some true;
  rel_s : dval cs = Some true \/ csim cs cs0 }.

Lemma rel_refl : rel cstyle0 cstyle0.
Proof.
  constructor; [cbn; discriminate|auto|right; apply csim_refl].
Qed.

Lemma merge_both : forall o sp ps d cs cs0,
  (ps = None -> not_shown d = true) -> rel cs cs0 ->
  rel (merge_computed_style cs (sd_important d) o sp ps (sd_style d))
      (merge_computed_style cs0 (sd_important d) o sp ps (sd_style d)).
Proof.
  intros o sp ps [st imp] cs cs0 Hd [Hd1 Hd0 Hs]. cbn [sd_important sd_style] in *.
  destruct ps as [[|]|]; cbn [merge_computed_style].
  - (* ::before *)
    constructor; unfold dval in *; cbn [cs_core]; [exact Hd1|exact Hd0|].
    destruct Hs as [Hs|[S1 S2 S3 S4]]; [left; exact Hs|right].
    constructor; cbn [cs_core cs_before cs_after cs_internal_pre ocore]; try assumption.
    apply merge_core_sim. destruct (cs_before cs), (cs_before cs0); exact S2.
  - (* ::after *)
    constructor; unfold dval in *; cbn [cs_core]; [exact Hd1|exact Hd0|].
    destruct Hs as [Hs|[S1 S2 S3 S4]]; [left; exact Hs|right].
    constructor; cbn [cs_core cs_before cs_after cs_internal_pre ocore]; try assumption.
    apply merge_core_sim. destruct (cs_after cs), (cs_after cs0); exact S3.
  - (* the element itself *)
    specialize (Hd eq_refl).
    destruct st as [r g b|r g b|[|]|m|t]; try discriminate Hd.
    3:{ (* display: none *)
      constructor; unfold dval in *; cbn [cs_core merge_core c_display].
      - rewrite mu_true_hidden by exact Hd1. discriminate.
      - intros _. apply mu_true_hidden. exact Hd1.
      - left. apply mu_true_hidden. exact Hd1. }
    all: constructor; unfold dval in *; cbn [cs_core merge_core c_display];
      [exact Hd1|exact Hd0|];
      (destruct Hs as [Hs|[S1 S2 S3 S4]]; [left; exact Hs|right]);
      constructor; cbn [cs_core cs_before cs_after cs_internal_pre]; try assumption;
      destruct S1 as (H1 & H2 & H3 & H4); unfold core_sim;
      cbn [c_colour c_bg c_white_space c_content]; rewrite ?H1, ?H2, ?H3, ?H4; repeat split.
Qed.

Lemma rel_hidden : forall cs cs0, dval cs = Some true -> rel cs cs0.
Proof. intros cs cs0 H. constructor; [rewrite H; discriminate|intros _; exact H|left; exact H]. Qed.

(* the display value of the element itself under one more declaration *)
Lemma merge_dval : forall o sp ps d cs,
  (ps = None -> not_shown d = true) -> dval cs <> Some false ->
  let cs' := merge_computed_style cs (sd_important d) o sp ps (sd_style d) in
  dval cs' <> Some false /\ (dval cs = Some true -> dval cs' = Some true) /\
  (ps = None -> is_disp d = true -> dval cs' = Some true).
Proof.
  intros o sp ps [st imp] cs Hd H. cbn [sd_important sd_style] in *. cbv zeta.
  destruct ps as [[|]|]; cbn [merge_computed_style]; unfold dval in *; cbn [cs_core].
  1,2: repeat split; [exact H|auto|discriminate].
  specialize (Hd eq_refl).
  destruct st as [r g b|r g b|[|]|m|t]; try discriminate Hd; cbn [merge_core c_display];
    try (repeat split; [exact H|auto|intros _ E; discriminate E]).
  rewrite mu_true_hidden by exact H. repeat split; auto. discriminate.
Qed.

Definition stepf (o : origin) (sp : spec) (ps : option pseudo) : cstyle -> styledecl -> cstyle :=
  fun acc d => merge_computed_style acc (sd_important d) o sp ps (sd_style d).

Lemma fold_dval : forall o sp ps ds cs,
  (ps = None -> forallb not_shown ds = true) -> dval cs <> Some false ->
  let cs' := fold_left (stepf o sp ps) ds cs in
  dval cs' <> Some false /\ (dval cs = Some true -> dval cs' = Some true) /\
  (ps = None -> existsb is_disp ds = true -> dval cs' = Some true).
Proof.
  intros o sp ps. induction ds as [|d ds IH]; intros cs Hds H; cbv zeta; cbn [fold_left].
  - repeat split; [exact H|auto|intros _ E; discriminate E].
  - assert (Hd : ps = None -> not_shown d = true).
    { intros E. specialize (Hds E). cbn [forallb] in Hds. apply andb_true_iff in Hds. apply Hds. }
    assert (Hds' : ps = None -> forallb not_shown ds = true).
    { intros E. specialize (Hds E). cbn [forallb] in Hds. apply andb_true_iff in Hds. apply Hds. }
    destruct (merge_dval o sp ps d cs Hd H) as (M1 & M2 & M3).
    destruct (IH (stepf o sp ps cs d) Hds' M1) as (I1 & I2 & I3).
    repeat split.
    + exact I1.
    + intros E. apply I2, M2, E.
    + intros E X. cbn [existsb] in X. apply orb_true_iff in X. destruct X as [X|X].
      * apply I2. apply M3; assumption.
      * apply I3; assumption.
Qed.

(* the declarations of a rule that both sides have *)
Lemma fold_both : forall o sp ps ds cs cs0,
  (ps = None -> forallb not_shown ds = true) -> rel cs cs0 ->
  rel (fold_left (stepf o sp ps) ds cs) (fold_left (stepf o sp ps) ds cs0).
Proof.
  intros o sp ps. induction ds as [|d ds IH]; intros cs cs0 Hds H; cbn [fold_left]; [exact H|].
  apply IH.
  - intros E. specialize (Hds E). cbn [forallb] in Hds. apply andb_true_iff in Hds. apply Hds.
  - unfold stepf. apply merge_both; [|exact H].
    intros E. specialize (Hds E). cbn [forallb] in Hds. apply andb_true_iff in Hds. apply Hds.
Qed.

(* a display declaration on the full side only *)
Lemma merge_left_disp : forall o sp ps d cs cs0,
  (ps = None -> not_shown d = true) -> is_disp d = true -> rel cs cs0 ->
  rel (merge_computed_style cs (sd_important d) o sp ps (sd_style d)) cs0.
Proof.
  intros o sp ps d cs cs0 Hd Hdisp H.
  destruct ps as [p|].
  - destruct H as [Hd1 Hd0 Hs]. destruct d as [st imp]. cbn [sd_important sd_style].
    destruct st as [| |b| |]; try discriminate Hdisp.
    destruct p; cbn [merge_computed_style]; (constructor; unfold dval in *; cbn [cs_core];
      [exact Hd1|exact Hd0|]; destruct Hs as [Hs|[S1 S2 S3 S4]]; [left; exact Hs|right];
      constructor; cbn [cs_core cs_before cs_after cs_internal_pre ocore]; try assumption).
  - apply rel_hidden. apply (merge_dval o sp None d cs Hd (rel_d _ _ H)); [reflexivity|exact Hdisp].
Qed.

Lemma fold_left_disp : forall o sp ps ds cs cs0,
  (ps = None -> forallb not_shown ds = true) -> forallb is_disp ds = true -> rel cs cs0 ->
  rel (fold_left (stepf o sp ps) ds cs) cs0.
Proof.
  intros o sp ps. induction ds as [|d ds IH]; intros cs cs0 Hds Hdisp H; cbn [fold_left]; [exact H|].
  cbn [forallb] in Hdisp. apply andb_true_iff in Hdisp. destruct Hdisp as [D1 D2].
  apply IH; [|exact D2|].
  - intros E. specialize (Hds E). cbn [forallb] in Hds. apply andb_true_iff in Hds. apply Hds.
  - unfold stepf. apply merge_left_disp; [|exact D1|exact H].
    intros E. specialize (Hds E). cbn [forallb] in Hds. apply andb_true_iff in Hds. apply Hds.
Qed.

(* a removable rule, applied on the full side only *)
Lemma fold_removable : forall o r cs cs0,
  rule_ok r = true -> removable r = true -> rel cs cs0 ->
  rel (fold_left (stepf o (specificity (rs_sel r)) (pseudo_el (rs_sel r))) (rs_styles r) cs) cs0.
Proof.
  intros o r cs cs0 Hok Hrm H. unfold rule_ok in Hok. unfold removable in Hrm.
  assert (Hns : pseudo_el (rs_sel r) = None -> forallb not_shown (rs_styles r) = true).
  { intros E. rewrite E in Hok. exact Hok. }
  apply orb_true_iff in Hrm. destruct Hrm as [Hall|Hex].
  - apply fold_left_disp; assumption.
  - destruct (pseudo_el (rs_sel r)) eqn:E; [discriminate Hex|].
    apply rel_hidden. apply (fold_dval o _ None (rs_styles r) cs Hns (rel_d _ _ H)); [reflexivity|exact Hex].
Qed.

Lemma apply_rules_unhide : forall o rules p cs cs0,
  forallb rule_ok rules = true -> rel cs cs0 ->
  rel (apply_rules o rules p cs) (apply_rules o (unhide_rules rules) p cs0).
Proof.
  intros o. induction rules as [|r rules IH]; intros p cs cs0 Hok H; [exact H|].
  cbn [forallb] in Hok. apply andb_true_iff in Hok. destruct Hok as [Hr Hok].
  unfold unhide_rules. cbn [filter apply_rules]. fold (unhide_rules rules).
  change (fun (acc : cstyle) (sd : styledecl) =>
            merge_computed_style acc (sd_important sd) o (specificity (rs_sel r))
                                 (pseudo_el (rs_sel r)) (sd_style sd))
    with (stepf o (specificity (rs_sel r)) (pseudo_el (rs_sel r))).
  destruct (removable r) eqn:Erm; cbn [negb].
  - apply IH; [exact Hok|].
    destruct (sel_matches (rs_sel r) p); [|exact H].
    apply fold_removable; assumption.
  - cbn [apply_rules].
    change (fun (acc : cstyle) (sd : styledecl) =>
              merge_computed_style acc (sd_important sd) o (specificity (rs_sel r))
                                   (pseudo_el (rs_sel r)) (sd_style sd))
      with (stepf o (specificity (rs_sel r)) (pseudo_el (rs_sel r))).
    apply IH; [exact Hok|].
    destruct (sel_matches (rs_sel r) p); [|exact H].
    apply fold_both; [|exact H]. unfold rule_ok in Hr. intros E. rewrite E in Hr. exact Hr.
Qed.

(* (1) an element that is NOT hidden under the full sheet has, up to display cells, the style
   it gets without the hiding rules - and is not hidden there either *)
Theorem computed_unhide : forall sd me l,
  sheet_none_only sd = true -> forallb not_shown l = true ->
  dval (computed_style sd me l) <> Some true ->
  csim (computed_style sd me l) (computed_style (unhide sd) me l) /\
  dval (computed_style (unhide sd) me l) <> Some true.
Proof.
  intros sd me l Hsd Hl Hnh. unfold sheet_none_only in Hsd.
  apply andb_true_iff in Hsd. destruct Hsd as [Hsd H3].
  apply andb_true_iff in Hsd. destruct Hsd as [H1 H2].
  assert (R : rel (computed_style sd me l) (computed_style (unhide sd) me l)).
  { unfold computed_style, unhide. cbn [agent_rules user_rules author_rules].
    change (fun (acc : cstyle) (st : styledecl) =>
              merge_computed_style acc (sd_important st) OAuthor spec_inline None (sd_style st))
      with (stepf OAuthor spec_inline None).
    apply fold_both; [intros _; exact Hl|].
    apply apply_rules_unhide; [exact H3|]. apply apply_rules_unhide; [exact H2|].
    apply apply_rules_unhide; [exact H1|]. apply rel_refl. }
  destruct R as [R1 R2 R3]. split.
  - destruct R3 as [R3|R3]; [contradiction|exact R3].
  - intros E. apply Hnh, R2, E.
Qed.

(* ... and an element that is not hidden has no inline display declaration at all *)
Lemma not_hidden_no_inline_display : forall sd me l,
  sheet_none_only sd = true -> forallb not_shown l = true ->
  dval (computed_style sd me l) <> Some true -> existsb is_disp l = false.
Proof.
  intros sd me l Hsd Hl Hnh. destruct (existsb is_disp l) eqn:E; [|reflexivity]. exfalso. apply Hnh.
  unfold sheet_none_only in Hsd.
  apply andb_true_iff in Hsd. destruct Hsd as [Hsd H3].
  apply andb_true_iff in Hsd. destruct Hsd as [H1 H2].
  unfold computed_style.
  change (fun (acc : cstyle) (st : styledecl) =>
            merge_computed_style acc (sd_important st) OAuthor spec_inline None (sd_style st))
    with (stepf OAuthor spec_inline None).
  apply fold_dval; [intros _; exact Hl| |reflexivity|exact E].
  assert (R : rel (apply_rules OAuthor (author_rules sd) me
                     (apply_rules OUser (user_rules sd) me
                        (apply_rules OAgent (agent_rules sd) me cstyle0)))
                  (apply_rules OAuthor (unhide_rules (author_rules sd)) me
                     (apply_rules OUser (unhide_rules (user_rules sd)) me
                        (apply_rules OAgent (unhide_rules (agent_rules sd)) me cstyle0)))).
  { apply apply_rules_unhide; [exact H3|]. apply apply_rules_unhide; [exact H2|].
    apply apply_rules_unhide; [exact H1|]. apply rel_refl. }
  apply (rel_d _ _ R).
Qed.

(* ====================================================================== *)
(* 3. What the renderer reads of a render tree: the normal form `nrm`      *)
(* ====================================================================== *)
(* Render.render_node looks at a node's style only through Render.apply_style: the VALUES of
   the colour, background and white-space cells and the <pre> flag.  `nsty` keeps exactly
   those; `nrm` applies it to every style in a render tree. *)
Definition nval {A} (w : withspec A) : withspec A := mkws (ws_val w) ONone spec0 false.
Definition ncore (c : cscore) : cscore :=
  mkcore (nval (c_colour c)) (nval (c_bg c)) ws_default (nval (c_white_space c)) ws_default.
Definition nsty (s : cstyle) : cstyle := mkcs (ncore (cs_core s)) None None (cs_internal_pre s).

Fixpoint nrm (n : rnode) {struct n} : rnode :=
  match n with
  | RN i s =>
    let ncell := fun c => match c with RCell k ct st => RCell k (map nrm ct) (nsty st) end in
    let nrow := fun r => match r with RRow cells rs => RRow (map ncell cells) (nsty rs) end in
    RN (match i with
        | IText t => IText t
        | IContainer cs => IContainer (map nrm cs)
        | ILink h cs => ILink h (map nrm cs)
        | IEm cs => IEm (map nrm cs)
        | IStrong cs => IStrong (map nrm cs)
        | IStrikeout cs => IStrikeout (map nrm cs)
        | ICode cs => ICode (map nrm cs)
        | IImg a b => IImg a b
        | IBlock cs => IBlock (map nrm cs)
        | IHeader l cs => IHeader l (map nrm cs)
        | IDiv cs => IDiv (map nrm cs)
        | IBlockQuote cs => IBlockQuote (map nrm cs)
        | IUl cs => IUl (map nrm cs)
        | IOl z cs => IOl z (map nrm cs)
        | IDl cs => IDl (map nrm cs)
        | IDt cs => IDt (map nrm cs)
        | IDd cs => IDd (map nrm cs)
        | IBreak => IBreak
        | ITable rows nc => ITable (map nrow rows) nc
        | ITableBody rows => ITableBody (map nrow rows)
        | ITableRow r => ITableRow (nrow r)
        | ITableCell c => ITableCell (ncell c)
        | IFragStart t => IFragStart t
        | IListItem cs => IListItem (map nrm cs)
        | ISup cs => ISup (map nrm cs)
        end) (nsty s)
  end.

Definition ncell (c : rcell) : rcell :=
  match c with RCell k ct st => RCell k (map nrm ct) (nsty st) end.
Definition nrow (r : rrow) : rrow :=
  match r with RRow cells rs => RRow (map ncell cells) (nsty rs) end.
Definition ninfo (i : rinfo) : rinfo :=
  match i with
  | IText t => IText t
  | IContainer cs => IContainer (map nrm cs)
  | ILink h cs => ILink h (map nrm cs)
  | IEm cs => IEm (map nrm cs)
  | IStrong cs => IStrong (map nrm cs)
  | IStrikeout cs => IStrikeout (map nrm cs)
  | ICode cs => ICode (map nrm cs)
  | IImg a b => IImg a b
  | IBlock cs => IBlock (map nrm cs)
  | IHeader l cs => IHeader l (map nrm cs)
  | IDiv cs => IDiv (map nrm cs)
  | IBlockQuote cs => IBlockQuote (map nrm cs)
  | IUl cs => IUl (map nrm cs)
  | IOl z cs => IOl z (map nrm cs)
  | IDl cs => IDl (map nrm cs)
  | IDt cs => IDt (map nrm cs)
  | IDd cs => IDd (map nrm cs)
  | IBreak => IBreak
  | ITable rows nc => ITable (map nrow rows) nc
  | ITableBody rows => ITableBody (map nrow rows)
  | ITableRow r => ITableRow (nrow r)
  | ITableCell c => ITableCell (ncell c)
  | IFragStart t => IFragStart t
  | IListItem cs => IListItem (map nrm cs)
  | ISup cs => ISup (map nrm cs)
  end.

Lemma nrm_eq : forall i s, nrm (RN i s) = RN (ninfo i) (nsty s).
Proof. intros i s. destruct i; reflexivity. Qed.

Lemma nsty0 : nsty cstyle0 = cstyle0.
Proof. reflexivity. Qed.

Lemma rn_info_nrm : forall n, rn_info (nrm n) = ninfo (rn_info n).
Proof. intros [i s]. rewrite nrm_eq. reflexivity. Qed.

Lemma csim_nsty : forall s s', csim s s' -> nsty s = nsty s'.
Proof.
  intros s s' [(H1 & H2 & H3 & H4) _ _ Hp]. unfold nsty, ncore. rewrite H1, H2, H3, Hp. reflexivity.
Qed.

(* ---------- helpers ---------- *)
Lemma bind_ext {A B} (e : res A) (k1 k2 : A -> res B) :
  (forall x, k1 x = k2 x) -> bind e k1 = bind e k2.
Proof. intros H. destruct e; cbn [bind]; auto. Qed.

Lemma fold_left_map_ext {A B C} (f : A -> B -> A) (g : A -> C -> A) (h : C -> B) l :
  (forall a c, In c l -> f a (h c) = g a c) ->
  forall a, fold_left f (map h l) a = fold_left g l a.
Proof.
  induction l as [|c l IH]; intros H a; [reflexivity|]. cbn [map fold_left].
  rewrite (H a c (or_introl eq_refl)). apply IH. intros a' c' Hc. apply H. right. exact Hc.
Qed.

(* ====================================================================== *)
(* 4. Size estimates do not look at styles                                 *)
(* ====================================================================== *)
Section EstNrm.
  Variables (d : deco) (mw : N).

  Notation kstep := (fun (acc : res est) (c : rnode) =>
                       do a <- acc; do e <- est_node d mw c; Ok (est_add a e)).

  Lemma fold_kids_nrm : forall cs,
    Forall (fun c => est_node d mw (nrm c) = est_node d mw c) cs ->
    forall acc, fold_left kstep (map nrm cs) acc = fold_left kstep cs acc.
  Proof.
    intros cs H acc. apply fold_left_map_ext. intros a c Hc. rewrite Forall_forall in H.
    rewrite (H c Hc). reflexivity.
  Qed.

  Theorem est_nrm : forall n, est_node d mw (nrm n) = est_node d mw n.
  Proof.
    apply (rnode_ind' (fun n => est_node d mw (nrm n) = est_node d mw n)). intros i sty IH.
    rewrite nrm_eq.
    destruct i; cbn [direct_kids] in IH; cbn [ninfo]; try reflexivity;
      try (cbn [est_node rn_info]; rewrite ?map_length;
           pose proof (fold_kids_nrm _ IH (Ok est0)) as E; rewrite E; reflexivity).
    (* ITable *)
    cbn [est_node rn_info].
    assert (Hcell : forall r c, In r rows -> In c (row_cells r) ->
              fold_left kstep (cell_content (ncell c)) (Ok est0) =
              fold_left kstep (cell_content c) (Ok est0)).
    { intros r c Hr Hcin. destruct c as [n k cs]. cbn [ncell cell_content].
      apply Forall_flat_map in IH. rewrite Forall_forall in IH. specialize (IH r Hr).
      unfold row_kids in IH. apply Forall_flat_map in IH. rewrite Forall_forall in IH.
      specialize (IH _ Hcin). cbn [cell_content] in IH. apply fold_kids_nrm. exact IH. }
    destruct (ncols =? 0).
    - match goal with |- bind ?a _ = bind ?b _ => assert (E : a = b); [|rewrite E; reflexivity] end.
      apply fold_left_map_ext. intros a [cells s] Hr. cbn [nrow row_cells].
      apply bind_ext. intros _. apply fold_left_map_ext. intros a' c Hcin.
      apply bind_ext. intros _. specialize (Hcell _ c Hr Hcin).
      destruct c as [n k cs]. cbn [ncell cell_content] in *. rewrite Hcell. reflexivity.
    - match goal with |- bind ?a _ = bind ?b _ => assert (E : a = b); [|rewrite E; reflexivity] end.
      apply fold_left_map_ext. intros a [cells s] Hr. cbn [nrow row_cells].
      apply bind_ext. intros sz0.
      match goal with |- bind ?a _ = bind ?b _ => assert (E : a = b); [|rewrite E; reflexivity] end.
      apply fold_left_map_ext. intros a' c Hcin.
      apply bind_ext. intros [sz1 colno]. specialize (Hcell _ c Hr Hcin).
      destruct c as [n k cs]. cbn [ncell cell_content cell_colspan] in *. rewrite Hcell. reflexivity.
  Qed.

  Lemma est_kids_nrm : forall cs, est_kids d mw (map nrm cs) = est_kids d mw cs.
  Proof.
    intros cs. unfold est_kids. apply fold_kids_nrm. apply Forall_forall. intros c _. apply est_nrm.
  Qed.
End EstNrm.

(* ====================================================================== *)
(* 5. The renderer does not see the difference between a tree and its nrm  *)
(* ====================================================================== *)
Lemma apply_style_nsty : forall d st s, apply_style d st (nsty s) = apply_style d st s.
Proof. intros. reflexivity. Qed.

Lemma sup_digits_nrm : forall cs, sup_digits (map nrm cs) = sup_digits cs.
Proof.
  intros [|[i s] [|c cs]]; try reflexivity. cbn [map]. rewrite nrm_eq.
  destruct i; reflexivity.
Qed.

Section RenderNrm.
  Variables (d : deco) (mw : N).

  Notation RP := (fun n => forall st, render_node d mw (nrm n) st = render_node d mw n st).
  Notation rstep := (fun (acc : res rstate) (c : rnode) => do s <- acc; render_node d mw c s).

  Lemma render_kids_nrm : forall cs, Forall RP cs ->
    forall acc, fold_left rstep (map nrm cs) acc = fold_left rstep cs acc.
  Proof.
    intros cs H acc. apply fold_left_map_ext. intros a c Hc. rewrite Forall_forall in H.
    apply bind_ext. intros s. apply (H c Hc).
  Qed.

  Lemma est_of_nrm : forall i s, est_of d mw (RN (ninfo i) (nsty s)) = est_of d mw (RN i s).
  Proof. intros i s. rewrite <- nrm_eq. apply est_nrm. Qed.

  Lemma cell_widths_nrm vr col_widths : forall cells colno,
    cell_widths vr col_widths (map ncell cells) colno = cell_widths vr col_widths cells colno.
  Proof.
    induction cells as [|[n k cs] cells IH]; intros colno; cbn [map cell_widths ncell cell_colspan];
      [reflexivity|]. rewrite IH. reflexivity.
  Qed.

  Lemma cells_loop_nrm : forall cells,
    Forall (fun c => Forall RP (cell_content c)) cells ->
    forall wsl s subs,
    cells_loop d mw (map ncell cells) wsl s subs = cells_loop d mw cells wsl s subs.
  Proof.
    induction cells as [|[n k cs] cells IH]; intros HF wsl s subs; [reflexivity|].
    inversion HF as [|? ? H1 H2]; subst. cbn [cell_content] in H1.
    cbn [map ncell cells_loop]. destruct wsl as [|[w|] wsl]; [reflexivity| |apply IH, H2].
    apply bind_ext. intros tp2. rewrite apply_style_nsty. apply bind_ext. intros [s4 pcell].
    rewrite (render_kids_nrm k H1). apply bind_ext. intros s5. apply bind_ext. intros s6.
    apply bind_ext. intros [sub s7]. apply IH, H2.
  Qed.

  Lemma row_body_nrm vr col_widths r s :
    Forall RP (row_kids r) ->
    row_body d mw vr col_widths (nrow r) s = row_body d mw vr col_widths r s.
  Proof.
    intros HF. destruct r as [cells rs]. unfold row_kids in HF. cbn [row_cells] in HF.
    apply Forall_flat_map in HF. cbn [nrow row_body]. rewrite apply_style_nsty.
    apply bind_ext. intros [s1 prow]. rewrite cell_widths_nrm. apply bind_ext. intros cws.
    rewrite (cells_loop_nrm cells HF). reflexivity.
  Qed.

  (* walk down two computations that differ only in a list of children *)
  Ltac walk IH :=
    repeat first
      [ reflexivity
      | rewrite (render_kids_nrm _ IH)
      | match goal with
        | |- bind ?e _ = bind ?e _ => apply bind_ext; intros ?
        | |- (let '(a, b) := ?p in _) = _ => destruct p
        | |- (if ?c then _ else _) = (if ?c then _ else _) => destruct c
        end ].

  Theorem render_node_nrm : forall n st, render_node d mw (nrm n) st = render_node d mw n st.
  Proof.
    apply (rnode_ind' RP). intros i sty IH st. rewrite nrm_eq.
    pose proof (est_of_nrm i sty) as Eest.
    destruct i; cbn [direct_kids] in IH; cbn [ninfo] in Eest |- *;
      cbn [render_node rn_info rn_style]; rewrite ?Eest, ?apply_style_nsty.
    all: try (walk IH; fail).
    - (* IUl *)
      apply bind_ext. intros sz. apply bind_ext. intros [st0 ps].
      match goal with |- bind ?a _ = bind ?b _ => assert (E : a = b); [|rewrite E; reflexivity] end.
      apply fold_left_map_ext. intros a c Hc. rewrite Forall_forall in IH.
      apply bind_ext. intros s. apply bind_ext. intros iw. apply bind_ext. intros tp.
      apply bind_ext. intros w. rewrite (IH c Hc). reflexivity.
    - (* IOl *)
      rewrite map_length.
      apply bind_ext. intros sz. apply bind_ext. intros [st0 ps].
      match goal with |- bind ?a _ = bind ?b _ => assert (E : a = b); [|rewrite E; reflexivity] end.
      apply fold_left_map_ext. intros a c Hc. rewrite Forall_forall in IH.
      apply bind_ext. intros [s i]. apply bind_ext. intros iw. apply bind_ext. intros tp.
      apply bind_ext. intros w. rewrite (IH c Hc). reflexivity.
    - (* ITable *)
      apply bind_ext. intros sz. apply bind_ext. intros [st0 ps].
      match goal with |- bind ?a _ = bind ?b _ => assert (E : a = b) end.
      { apply fold_left_map_ext. intros a [cells rs] Hr. cbn [nrow row_cells].
        apply bind_ext. intros s0.
        match goal with |- bind ?a _ = bind ?b _ => assert (E : a = b); [|rewrite E; reflexivity] end.
        apply fold_left_map_ext. intros a' [n k cs] Hcin. cbn [ncell cell_content cell_colspan].
        apply bind_ext. intros [sz_ colno]. rewrite est_kids_nrm. reflexivity. }
      rewrite E. clear E.
      apply bind_ext. intros col_sizes. apply bind_ext. intros tp. apply bind_ext. intros col_widths.
      apply bind_ext. intros st1. apply bind_ext. intros st2.
      match goal with |- bind ?a _ = bind ?b _ => assert (E : a = b); [|rewrite E; reflexivity] end.
      apply fold_left_map_ext. intros a r Hr. apply bind_ext. intros s.
      apply Forall_flat_map in IH. rewrite Forall_forall in IH.
      apply (row_body_nrm _ _ r s (IH r Hr)).
    - (* ISup *)
      rewrite sup_digits_nrm. walk IH. destruct (sup_digits cs); walk IH.
  Qed.
End RenderNrm.

Theorem render_tree_nrm : forall d mw o width t,
  render_tree d mw o width (nrm t) = render_tree d mw o width t.
Proof.
  intros d mw o width t. unfold render_tree, est_of. rewrite est_nrm.
  apply bind_ext. intros _. rewrite render_node_nrm. reflexivity.
Qed.

(* ====================================================================== *)
(* 6. DOM -> render tree, up to nrm                                        *)
(* ====================================================================== *)
Definition rmap {A B} (f : A -> B) (r : res A) : res B :=
  match r with
  | Ok a => Ok (f a)
  | TooNarrow => TooNarrow
  | Panic s => Panic s
  | OutOfFuel => OutOfFuel
  end.
Definition rmo (r : res (option rnode)) : res (option rnode) := rmap (option_map nrm) r.

Lemma rmap_bind_cong {A A' B B' C} (f : A -> C) (f' : A' -> C) (g : B -> B') (g' : B -> B')
      (e : res A) (e' : res A') (k : A -> res B) (k' : A' -> res B) :
  rmap f e = rmap f' e' ->
  (forall x x', f x = f' x' -> rmap g (k x) = rmap g' (k' x')) ->
  rmap g (bind e k) = rmap g' (bind e' k').
Proof.
  intros He Hk. destruct e, e'; cbn [rmap bind] in *; try discriminate He;
    try (inversion He; subst; reflexivity).
  apply Hk. congruence.
Qed.

Lemma ins_map {A B} (f : A -> B) s x l : map f (ins s x l) = ins s (f x) (map f l).
Proof. unfold ins. destruct s; [reflexivity|]. rewrite map_app. reflexivity. Qed.

Lemma ins_first_cell_nrm s x cells :
  map ncell (ins_first_cell s x cells) = ins_first_cell s (nrm x) (map ncell cells).
Proof.
  destruct cells as [|[n k st] cells]; [reflexivity|]. cbn [ins_first_cell map ncell].
  rewrite ins_map. reflexivity.
Qed.

Lemma ins_first_row_nrm s x rows :
  map nrow (ins_first_row s x rows) = ins_first_row s (nrm x) (map nrow rows).
Proof.
  destruct rows as [|[cells st] rows]; [reflexivity|]. cbn [ins_first_row map nrow].
  rewrite ins_first_cell_nrm. reflexivity.
Qed.

Lemma insert_child_nrm : forall a b s, nrm (insert_child a b s) = insert_child (nrm a) (nrm b) s.
Proof.
  intros a [i st] s. rewrite (nrm_eq i st).
  destruct i; cbn [insert_child ninfo]; unfold rn_new; rewrite ?nrm_eq; cbn [ninfo];
    rewrite ?ins_map, ?ins_first_row_nrm, ?nsty0; try reflexivity;
    try (destruct s; rewrite nrm_eq; cbn [ninfo map]; rewrite ?nrm_eq; reflexivity).
  - destruct r as [cells rs]. cbn [nrow]. rewrite nrm_eq. cbn [ninfo nrow].
    rewrite ins_first_cell_nrm. reflexivity.
  - destruct c as [n k cs]. cbn [ncell]. rewrite nrm_eq. cbn [ninfo ncell].
    rewrite ins_map. reflexivity.
Qed.

(* pseudo-element content: only the content values of ::before / ::after matter *)
Definition wp (b a : option text) (n : rnode) : rnode :=
  let n1 := match b with
            | Some t => insert_child (rn_new (IText (relabel L_deco t))) n true
            | None => n
            end in
  match a with
  | Some t => insert_child (rn_new (IText (relabel L_deco t))) n1 false
  | None => n1
  end.

Lemma wrap_pseudo_wp : forall c n,
  wrap_pseudo c n = wp (ws_val (c_content (ocore (cs_before c))))
                       (ws_val (c_content (ocore (cs_after c)))) n.
Proof.
  intros c n. unfold wrap_pseudo, wp. destruct (cs_before c), (cs_after c); reflexivity.
Qed.

Lemma wp_nrm : forall b a n, nrm (wp b a n) = wp b a (nrm n).
Proof.
  intros b a n. unfold wp. destruct b, a; rewrite ?insert_child_nrm; reflexivity.
Qed.

Lemma wrap_pseudo_rel : forall c c0 n n0,
  csim c c0 -> nrm n = nrm n0 -> nrm (wrap_pseudo c n) = nrm (wrap_pseudo c0 n0).
Proof.
  intros c c0 n n0 [_ (_ & _ & _ & Hb) (_ & _ & _ & Ha) _] H.
  rewrite !wrap_pseudo_wp, !wp_nrm, Hb, Ha, H. reflexivity.
Qed.

Lemma is_shallow_empty_nrm : forall n, is_shallow_empty (nrm n) = is_shallow_empty n.
Proof.
  intros [i s]. rewrite nrm_eq. unfold is_shallow_empty. cbn [rn_info].
  destruct i; cbn [ninfo]; try reflexivity;
    match goal with |- context [map nrm ?v] => destruct v; reflexivity end.
Qed.

Lemma existsb_map {A B} (f : B -> bool) (h : A -> B) l : existsb f (map h l) = existsb (fun x => f (h x)) l.
Proof. induction l as [|x l IH]; [reflexivity|]. cbn [map existsb]. rewrite IH. reflexivity. Qed.

Lemma existsb_ext' {A} (f g : A -> bool) l : (forall x, f x = g x) -> existsb f l = existsb g l.
Proof. intros H. induction l as [|x l IH]; [reflexivity|]. cbn [existsb]. rewrite H, IH. reflexivity. Qed.

Lemma nonempty_nrm : forall cs cs0 : list rnode, map nrm cs = map nrm cs0 ->
  existsb (fun c => negb (is_shallow_empty c)) cs = existsb (fun c => negb (is_shallow_empty c)) cs0.
Proof.
  intros cs cs0 H.
  rewrite <- (existsb_ext' (fun c => negb (is_shallow_empty (nrm c))) _ cs)
    by (intros x; rewrite is_shallow_empty_nrm; reflexivity).
  rewrite <- (existsb_ext' (fun c => negb (is_shallow_empty (nrm c))) _ cs0)
    by (intros x; rewrite is_shallow_empty_nrm; reflexivity).
  rewrite <- !(existsb_map (fun c => negb (is_shallow_empty c)) nrm). rewrite H. reflexivity.
Qed.

(* ---------- selections of children by kind ---------- *)
Lemma flat_map_sel {B} (sel : rinfo -> list B) (h : B -> B) :
  (forall i, sel (ninfo i) = map h (sel i)) ->
  forall cs, flat_map (fun n => sel (rn_info n)) (map nrm cs) =
             map h (flat_map (fun n => sel (rn_info n)) cs).
Proof.
  intros H. induction cs as [|c cs IH]; [reflexivity|]. cbn [map flat_map].
  rewrite map_app, IH, rn_info_nrm, H. reflexivity.
Qed.

Lemma filter_info_nrm (f : rinfo -> bool) :
  (forall i, f (ninfo i) = f i) ->
  forall cs, filter_info f (map nrm cs) = map nrm (filter_info f cs).
Proof.
  intros H. unfold filter_info. induction cs as [|c cs IH]; [reflexivity|]. cbn [map filter].
  rewrite rn_info_nrm, H, IH. destruct (f (rn_info c)); reflexivity.
Qed.

(* ---------- the table constructors only move styles around ---------- *)
Lemma cell_colspan_ncell c : cell_colspan (ncell c) = cell_colspan c.
Proof. destruct c; reflexivity. Qed.
Lemma row_cells_nrow r : row_cells (nrow r) = map ncell (row_cells r).
Proof. destruct r; reflexivity. Qed.

Lemma row_count_nrm : forall cells hz n, row_count (map ncell cells) hz n = row_count cells hz n.
Proof.
  induction cells as [|c cells IH]; intros hz n; [reflexivity|]. cbn [map row_count].
  rewrite cell_colspan_ncell. apply bind_ext. intros n'. apply IH.
Qed.

Lemma rows_counts_nrm : forall rows, rows_counts (map nrow rows) = rows_counts rows.
Proof.
  induction rows as [|r rows IH]; [reflexivity|]. cbn [map rows_counts].
  rewrite row_cells_nrow, row_count_nrm, IH. reflexivity.
Qed.

Lemma fix_zero_colspan_nrm maxc r cnt :
  fix_zero_colspan maxc (nrow r) cnt = nrow (fix_zero_colspan maxc r cnt).
Proof.
  unfold fix_zero_colspan. destruct (fst cnt); [|reflexivity]. destruct r as [cells s].
  cbn [nrow]. f_equal. rewrite !map_map. apply map_ext. intros [n k st]. cbn [ncell].
  destruct (n =? 0); reflexivity.
Qed.

Lemma map2_fix_nrm maxc : forall rows counts,
  map2 (fix_zero_colspan maxc) (map nrow rows) counts =
  map nrow (map2 (fix_zero_colspan maxc) rows counts).
Proof.
  induction rows as [|r rows IH]; intros [|c counts]; try reflexivity. cbn [map map2].
  rewrite fix_zero_colspan_nrm, IH. reflexivity.
Qed.

Lemma tbody_rows_nrm : forall rows, tbody_rows (map nrow rows) = rmap (map nrow) (tbody_rows rows).
Proof.
  intros rows. unfold tbody_rows. rewrite rows_counts_nrm.
  destruct (rows_counts rows) as [counts| | |]; cbn [bind rmap]; try reflexivity.
  rewrite map2_fix_nrm. reflexivity.
Qed.

Lemma row_positions_nrm : forall cells col,
  row_positions (map ncell cells) col = row_positions cells col.
Proof.
  induction cells as [|c cells IH]; intros col; [reflexivity|]. cbn [map row_positions].
  rewrite cell_colspan_ncell. apply bind_ext. intros col'. rewrite IH. reflexivity.
Qed.

Lemma all_positions_nrm : forall rows, all_positions (map nrow rows) = all_positions rows.
Proof.
  induction rows as [|r rows IH]; [reflexivity|]. cbn [map all_positions].
  rewrite row_cells_nrow, row_positions_nrm, IH. reflexivity.
Qed.

Lemma remap_cells_nrm set : forall cells pos mapped,
  remap_cells set (map ncell cells) pos mapped = rmap (map ncell) (remap_cells set cells pos mapped).
Proof.
  induction cells as [|[n k s] cells IH]; intros pos mapped; [reflexivity|].
  cbn [map ncell remap_cells].
  destruct (uadd 30 pos (N.max n 1)) as [np| | |]; cbn [bind rmap]; try reflexivity.
  destruct (index_of np set 0) as [nm|]; [|reflexivity].
  destruct (usub 30 nm mapped) as [cs| | |]; cbn [bind rmap]; try reflexivity.
  rewrite IH. destruct (remap_cells set cells np nm); reflexivity.
Qed.

Lemma remap_rows_nrm set : forall rows,
  remap_rows set (map nrow rows) = rmap (map nrow) (remap_rows set rows).
Proof.
  induction rows as [|[cells s] rows IH]; [reflexivity|]. cbn [map nrow remap_rows].
  rewrite remap_cells_nrm. destruct (remap_cells set cells 0 0) as [cells'| | |]; cbn [bind rmap];
    try reflexivity.
  rewrite IH. destruct (remap_rows set rows); reflexivity.
Qed.

Lemma row_num_cells_nrm r : row_num_cells (nrow r) = row_num_cells r.
Proof.
  unfold row_num_cells. rewrite row_cells_nrow, map_map. f_equal. apply map_ext. intros c.
  rewrite cell_colspan_ncell. reflexivity.
Qed.

Lemma render_table_new_nrm : forall rows,
  render_table_new (map nrow rows) = rmap ninfo (render_table_new rows).
Proof.
  intros rows. unfold render_table_new. rewrite all_positions_nrm.
  destruct (all_positions rows) as [ps| | |]; cbn [bind rmap]; try reflexivity.
  rewrite remap_rows_nrm. destruct (remap_rows _ rows) as [rows'| | |]; cbn [bind rmap];
    try reflexivity.
  cbn [ninfo]. do 2 f_equal. rewrite map_map. f_equal. apply map_ext. intros r.
  apply row_num_cells_nrm.
Qed.

Lemma map_nil_iff {A B} (f : A -> B) l l' : map f l = map f l' -> (l = [] <-> l' = []).
Proof. destruct l, l'; cbn; intros H; try discriminate H; split; congruence. Qed.

Lemma flat_map_sel_rel {B} (sel : rinfo -> list B) (h : B -> B) :
  (forall i, sel (ninfo i) = map h (sel i)) ->
  forall cs cs0, map nrm cs = map nrm cs0 ->
  map h (flat_map (fun n => sel (rn_info n)) cs) = map h (flat_map (fun n => sel (rn_info n)) cs0).
Proof.
  intros Hsel cs cs0 H. rewrite <- !(flat_map_sel sel h Hsel). rewrite H. reflexivity.
Qed.

(* tactics for build_element_rel: a branch that makes a node from the children / a branch that
   yields nothing for no children / the next test of the if-chain *)
Ltac fin Hs H :=
  unfold rmo; cbn [rmap option_map bind]; rewrite ?nrm_eq; cbn [ninfo ncell nrow];
  rewrite ?Hs, ?H; reflexivity.
Ltac ne Hs H cs cs0 :=
  destruct cs, cs0; [reflexivity|discriminate H|discriminate H|fin Hs H].
Ltac nx tac :=
  match goal with
  | |- rmo (if ?b then _ else _) = rmo (if ?b then _ else _) => destruct b; [tac|]
  end.

(* the element constructors: related styles and related children give related nodes *)
Lemma build_element_rel : forall name attrs c c0 cs cs0,
  csim c c0 -> map nrm cs = map nrm cs0 ->
  rmo (build_element name attrs c cs) = rmo (build_element name attrs c0 cs0).
Proof.
  intros name attrs c c0 cs cs0 Hc H. pose proof (csim_nsty _ _ Hc) as Hs.
  pose proof (flat_map_sel_rel (fun i => match i with ITableBody b => b | _ => [] end) nrow
                ltac:(intros []; reflexivity) cs cs0 H) as HTB.
  pose proof (flat_map_sel_rel (fun i => match i with ITableRow r => [r] | _ => [] end) nrow
                ltac:(intros []; reflexivity) cs cs0 H) as HTR.
  pose proof (flat_map_sel_rel (fun i => match i with ITableCell c => [c] | _ => [] end) ncell
                ltac:(intros []; reflexivity) cs cs0 H) as HTC.
  pose proof (filter_info_nrm (fun i => match i with IListItem _ => true | _ => false end)
                ltac:(intros []; reflexivity)) as HFL.
  pose proof (filter_info_nrm (fun i => match i with IDt _ | IDd _ => true | _ => false end)
                ltac:(intros []; reflexivity)) as HFD.
  cbv beta in HTB, HTR, HTC.
  unfold build_element. cbv zeta.
  nx ltac:(fin Hs H). nx ltac:(fin Hs H). nx ltac:(ne Hs H cs cs0).
  nx ltac:(idtac).
  { destruct (find_attr attrs s_href) as [href|]; [|fin Hs H].
    rewrite (nonempty_nrm _ _ H).
    destruct (existsb (fun c1 => negb (is_shallow_empty c1)) cs0); fin Hs H. }
  nx ltac:(fin Hs H). nx ltac:(fin Hs H). nx ltac:(fin Hs H). nx ltac:(fin Hs H).
  nx ltac:(fin Hs H).
  destruct (heading_level name) as [lvl|]; [fin Hs H|].
  nx ltac:(ne Hs H cs cs0). nx ltac:(fin Hs H). nx ltac:(fin Hs H). nx ltac:(ne Hs H cs cs0).
  nx ltac:(idtac).
  { (* pre *)
    destruct Hc as [(H1 & H2 & H3 & H4) _ _ Hp].
    unfold rmo; cbn [rmap option_map]. rewrite !nrm_eq. cbn [ninfo]. unfold nsty, ncore.
    cbn [cs_core cs_internal_pre c_colour c_bg c_white_space]. rewrite H1, H2, H3, H. reflexivity. }
  nx ltac:(fin Hs H).
  nx ltac:(idtac).
  { (* table *)
    set (R := flat_map _ cs) in *. set (R0 := flat_map _ cs0) in *.
    destruct R as [|r R], R0 as [|r0 R0]; [reflexivity|discriminate HTB|discriminate HTB|].
    unfold rmo. apply (rmap_bind_cong ninfo ninfo).
    - rewrite <- !render_table_new_nrm, HTB. reflexivity.
    - intros t t0 Ht. cbn [rmap option_map]. rewrite !nrm_eq, Hs, Ht. reflexivity. }
  nx ltac:(idtac).
  { (* thead / tbody *)
    destruct cs as [|x cs], cs0 as [|x0 cs0]; [reflexivity|discriminate H|discriminate H|].
    unfold rmo. apply (rmap_bind_cong (map nrow) (map nrow)).
    - rewrite <- !tbody_rows_nrm, HTR. reflexivity.
    - intros t t0 Ht. cbn [rmap option_map]. rewrite !nrm_eq, Hs. cbn [ninfo]. rewrite Ht. reflexivity. }
  nx ltac:(idtac).
  { (* tr *)
    unfold rmo; cbn [rmap option_map]. rewrite !nrm_eq. cbn [ninfo nrow]. rewrite HTC, Hs. reflexivity. }
  nx ltac:(fin Hs H). nx ltac:(ne Hs H cs cs0). nx ltac:(ne Hs H cs cs0).
  nx ltac:(idtac).
  { (* ol *)
    destruct cs as [|x cs], cs0 as [|x0 cs0]; [reflexivity|discriminate H|discriminate H|].
    unfold rmo; cbn [rmap option_map]. rewrite !nrm_eq. cbn [ninfo]. rewrite <- !HFL, H, Hs. reflexivity. }
  nx ltac:(idtac).
  { (* dl *)
    destruct cs as [|x cs], cs0 as [|x0 cs0]; [reflexivity|discriminate H|discriminate H|].
    unfold rmo; cbn [rmap option_map]. rewrite !nrm_eq. cbn [ninfo]. rewrite <- !HFD, H, Hs. reflexivity. }
  nx ltac:(fin Hs H). nx ltac:(fin Hs H). ne Hs H cs cs0.
Qed.

(* ---------- the body of `process`, as a function of the computed style ---------- *)
Definition pb_rest (computed : cstyle) (html : bool) (name : text) (attrs : list (text * text))
           (rk : res (list rnode)) : res (option rnode) :=
  let is_a := html && names [[97]] name in
  do base <-
     (if negb html then
        do cs <- rk;
        match cs with [] => Ok None | _ => Ok (Some (RN (IContainer cs) computed)) end
      else if names [[105;109;103]] name then
        match img_attrs attrs None None with
        | (Some title, Some src) => Ok (Some (RN (IImg src title) computed))
        | _ => Ok None
        end
      else if names [[98;114]] name then Ok (Some (RN IBreak computed))
      else if names [[108;105;110;107]; [109;101;116;97]; [104;114]; [115;99;114;105;112;116];
                     [115;116;121;108;101]; [104;101;97;100]] name then Ok None
      else
        do cs <- rk;
        build_element name attrs computed cs);
  let wrapped := match base with
                 | Some nd => Some (wrap_pseudo computed nd)
                 | None => None
                 end in
  match fragment_of name is_a attrs with
  | None => Ok wrapped
  | Some frag =>
    let fragnode := rn_new (IFragStart frag) in
    match wrapped with
    | None => Ok (Some fragnode)
    | Some nd => Ok (Some (insert_child fragnode nd true))
    end
  end.

Definition pb (computed : cstyle) (html : bool) (name : text) (attrs : list (text * text))
           (rk : res (list rnode)) : res (option rnode) :=
  match dval computed with
  | Some true => Ok None
  | _ => pb_rest computed html name attrs rk
  end.

Lemma pbody_pb : forall sd ri html name attrs me rk,
  pbody sd ri html name attrs me rk =
  (do inls <- ri; pb (computed_style sd me inls) html name attrs rk).
Proof. reflexivity. Qed.

Lemma pb_rest_rel : forall c c0 html name attrs rk rk0,
  csim c c0 -> rmap (map nrm) rk = rmap (map nrm) rk0 ->
  rmo (pb_rest c html name attrs rk) = rmo (pb_rest c0 html name attrs rk0).
Proof.
  intros c c0 html name attrs rk rk0 Hc Hk. pose proof (csim_nsty _ _ Hc) as Hs.
  unfold pb_rest. cbv zeta. unfold rmo at 1 2.
  apply (rmap_bind_cong (option_map nrm) (option_map nrm)).
  - (* the element-specific node *)
    destruct (negb html).
    { apply (rmap_bind_cong (map nrm) (map nrm)); [exact Hk|].
      intros cs cs0 H. destruct cs, cs0; [reflexivity|discriminate H|discriminate H|].
      cbn [rmap option_map]. rewrite !nrm_eq. cbn [ninfo]. rewrite H, Hs. reflexivity. }
    destruct (names [[105;109;103]] name).
    { destruct (img_attrs attrs None None) as [[t|] [s|]]; try reflexivity.
      cbn [rmap option_map]. rewrite !nrm_eq, Hs. reflexivity. }
    destruct (names [[98;114]] name).
    { cbn [rmap option_map]. rewrite !nrm_eq, Hs. reflexivity. }
    destruct (names _ name); [reflexivity|].
    apply (rmap_bind_cong (map nrm) (map nrm)); [exact Hk|].
    intros cs cs0 H. apply build_element_rel; assumption.
  - (* pseudo-element content, fragment marker *)
    intros b b0 Hb.
    assert (Hw : option_map nrm (match b with Some nd => Some (wrap_pseudo c nd) | None => None end) =
                 option_map nrm (match b0 with Some nd => Some (wrap_pseudo c0 nd) | None => None end)).
    { destruct b as [nd|], b0 as [nd0|]; try discriminate Hb; [|reflexivity].
      cbn [option_map] in *. f_equal. apply wrap_pseudo_rel; [exact Hc|congruence]. }
    destruct (fragment_of name (html && names [[97]] name) attrs) as [frag|].
    + destruct (match b with Some nd => Some (wrap_pseudo c nd) | None => None end) as [w|],
               (match b0 with Some nd => Some (wrap_pseudo c0 nd) | None => None end) as [w0|];
        try discriminate Hw; [|reflexivity].
      cbn [rmap option_map] in *. rewrite !insert_child_nrm. do 3 f_equal. congruence.
    + cbn [rmap]. f_equal. exact Hw.
Qed.

Lemma pb_rel : forall c c0 html name attrs rk rk0,
  csim c c0 -> dval c <> Some true -> dval c0 <> Some true ->
  rmap (map nrm) rk = rmap (map nrm) rk0 ->
  rmo (pb c html name attrs rk) = rmo (pb c0 html name attrs rk0).
Proof.
  intros c c0 html name attrs rk rk0 Hc Hd Hd0 Hk. unfold pb.
  destruct (dval c) as [[|]|]; try congruence;
    destruct (dval c0) as [[|]|]; try congruence; apply pb_rest_rel; assumption.
Qed.

(* ---------- the child loop ---------- *)
Lemma pk_rmap : forall proc kids i,
  rmap (map nrm) (pk_of proc kids i) = pk_of (fun k j => rmo (proc k j)) kids i.
Proof.
  intros proc. induction kids as [|k kids IH]; intros i; [reflexivity|]. cbn [pk_of].
  destruct (proc k i) as [r| | |]; cbn [rmo rmap bind]; try reflexivity.
  rewrite <- IH. destruct (pk_of proc kids _) as [rs| | |]; cbn [rmap bind]; try reflexivity.
  destruct r; reflexivity.
Qed.

(* a condition on the attributes of every element of a document *)
Fixpoint attrs_all (f : list (text * text) -> bool) (n : node) {struct n} : bool :=
  match n with
  | NElem _ _ attrs kids => f attrs && forallb (attrs_all f) kids
  | _ => true
  end.

Section Core.
  (* full side: sd, udc, inl; deleted side: sd0, udc0, inl0 *)
  Variables (sd sd0 : styledata) (udc udc0 : bool).
  Variables (inl inl0 : list (text * text) -> res (list styledecl)).
  Hypothesis Hnth : sheet_no_nth sd = true.
  Variable fA : list (text * text) -> bool.
  (* what is needed of an element that is not hidden: both sides see the same inline
     declarations, and the two computed styles agree up to display cells *)
  Hypothesis HA : forall attrs me, fA attrs = true -> hidden sd udc inl me attrs = false ->
    (if udc0 then inl0 attrs else Ok []) = (if udc then inl attrs else Ok []) /\
    forall l, (if udc then inl attrs else Ok []) = Ok l ->
              csim (computed_style sd me l) (computed_style sd0 me l) /\
              dval (computed_style sd0 me l) <> Some true.

  Lemma process_unhide : forall n p p' idx idx',
    Forall2 anc_sim p p' -> attrs_all fA n = true ->
    rmo (process sd udc inl n p idx) =
    match prune sd udc inl n p idx with
    | None => Ok None
    | Some n' => rmo (process sd0 udc0 inl0 n' p' idx')
    end.
  Proof.
    apply (node_ind' (fun n => forall p p' idx idx', Forall2 anc_sim p p' -> attrs_all fA n = true ->
             rmo (process sd udc inl n p idx) =
             match prune sd udc inl n p idx with
             | None => Ok None
             | Some n' => rmo (process sd0 udc0 inl0 n' p' idx')
             end)); try reflexivity.
    intros html name attrs kids IH p p' idx idx' Hs Hall. cbn [prune].
    cbn [attrs_all] in Hall. apply andb_true_iff in Hall. destruct Hall as [Hf Hkids].
    destruct (hidden sd udc inl (mkanc name attrs idx :: p) attrs) eqn:Eh.
    - rewrite (process_hidden sd udc inl html name attrs kids p idx Eh). reflexivity.
    - rewrite !process_eq.
      assert (Hme : Forall2 anc_sim (mkanc name attrs idx :: p) (mkanc name attrs idx' :: p'))
        by (constructor; [apply anc_sim_idx|exact Hs]).
      rewrite (pbody_sim sd Hnth _ html name attrs _ _ _ Hme).
      rewrite (hidden_sim sd udc inl Hnth _ _ attrs Hme) in Eh.
      destruct (HA attrs _ Hf Eh) as [Eiv Hl]. rewrite Eiv. rewrite !pbody_pb.
      unfold hidden in Eh.
      destruct (if udc then inl attrs else Ok []) as [l| | |]; cbn [bind]; try reflexivity.
      destruct (Hl l eq_refl) as [Hc Hd0].
      apply pb_rel; [exact Hc| |exact Hd0|].
      + unfold dval. destruct (ws_val _) as [[|]|]; congruence.
      + rewrite !pk_rmap.
        apply (pk_prune _ _ (fun k i => prune sd udc inl k (mkanc name attrs idx :: p) i)).
        rewrite Forall_forall in *. rewrite forallb_forall in Hkids. intros k Hk i i'.
        apply (IH k Hk _ _ i i' Hme (Hkids k Hk)).
  Qed.

  (* the render tree of the document under the full sheet and the render tree of the pruned
     document on the deleted side are the same to the renderer *)
  Theorem dom_unhide : forall doc, forallb (attrs_all fA) doc = true ->
    rmap nrm (dom_to_render_tree sd udc inl doc) =
    rmap nrm (dom_to_render_tree sd0 udc0 inl0 (prune_doc sd udc inl doc)).
  Proof.
    intros doc Hall. unfold dom_to_render_tree, prune_doc, prune_kids. rewrite !process_kids_eq.
    apply (rmap_bind_cong (map nrm) (map nrm)).
    - rewrite !pk_rmap. apply pk_prune. apply Forall_forall. intros k Hk i i'.
      rewrite forallb_forall in Hall. apply process_unhide; [constructor|apply Hall, Hk].
    - intros cs cs0 H. cbn [rmap]. unfold rn_new. rewrite !nrm_eq. cbn [ninfo]. rewrite H. reflexivity.
  Qed.
End Core.

(* ====================================================================== *)
(* 7. The two instances: inline styles kept / no styles at all             *)
(* ====================================================================== *)
(* the inline declarations of an element (when they parse) contain no display value other
   than none *)
Definition inl_none_only (udc : bool) (inl : list (text * text) -> res (list styledecl))
           (attrs : list (text * text)) : bool :=
  match (if udc then inl attrs else Ok []) with
  | Ok l => forallb not_shown l
  | _ => true
  end.
(* the inline declarations of an element parse, contain no display value other than none, and
   - unless there is none at all - a display:none among them (`style="color:red;display:none"`
   is allowed: the element is hidden anyway; a `color` attribute or `style="color:red"` on an
   element is not: it would still be styled on the full side when it is not hidden) *)
Definition inl_only_hides (udc : bool) (inl : list (text * text) -> res (list styledecl))
           (attrs : list (text * text)) : bool :=
  match (if udc then inl attrs else Ok []) with
  | Ok l => forallb not_shown l && (existsb is_disp l || match l with [] => true | _ => false end)
  | _ => false
  end.
Definition doc_none_only udc inl (doc : list node) : bool :=
  forallb (attrs_all (inl_none_only udc inl)) doc.
Definition doc_only_hides udc inl (doc : list node) : bool :=
  forallb (attrs_all (inl_only_hides udc inl)) doc.

Lemma hidden_false_dval : forall sd udc inl me attrs l,
  hidden sd udc inl me attrs = false -> (if udc then inl attrs else Ok []) = Ok l ->
  dval (computed_style sd me l) <> Some true.
Proof.
  intros sd udc inl me attrs l Eh El. unfold hidden in Eh. rewrite El in Eh. unfold dval.
  destruct (ws_val _) as [[|]|]; congruence.
Qed.

Section Instances.
  Variables (sd : styledata) (udc : bool) (inl : list (text * text) -> res (list styledecl)).
  Hypothesis Hnth : sheet_no_nth sd = true.
  Hypothesis Hno : sheet_none_only sd = true.

  (* (A) the deleted side keeps the inline styles: same switch, same front end *)
  Theorem dom_unhide_inline : forall doc, doc_none_only udc inl doc = true ->
    rmap nrm (dom_to_render_tree sd udc inl doc) =
    rmap nrm (dom_to_render_tree (unhide sd) udc inl (prune_doc sd udc inl doc)).
  Proof.
    apply (dom_unhide sd (unhide sd) udc udc inl inl Hnth (inl_none_only udc inl)).
    intros attrs me Hf Eh. split; [reflexivity|]. intros l El.
    unfold inl_none_only in Hf. rewrite El in Hf.
    apply computed_unhide; [exact Hno|exact Hf|]. apply (hidden_false_dval _ _ _ _ _ _ Eh El).
  Qed.

  (* (B) the deleted side reads no inline styles at all (any front end) *)
  Theorem dom_unhide_nodoccss : forall inl0 doc, doc_only_hides udc inl doc = true ->
    rmap nrm (dom_to_render_tree sd udc inl doc) =
    rmap nrm (dom_to_render_tree (unhide sd) false inl0 (prune_doc sd udc inl doc)).
  Proof.
    intros inl0.
    apply (dom_unhide sd (unhide sd) udc false inl inl0 Hnth (inl_only_hides udc inl)).
    intros attrs me Hf Eh. unfold inl_only_hides in Hf.
    destruct (if udc then inl attrs else Ok []) as [l| | |] eqn:El; try discriminate Hf.
    pose proof (hidden_false_dval _ _ _ _ _ _ Eh El) as Hd.
    apply andb_true_iff in Hf. destruct Hf as [Hns Hf].
    pose proof (not_hidden_no_inline_display sd me l Hno Hns Hd) as Hnd.
    rewrite Hnd in Hf. cbn [orb] in Hf. destruct l as [|d0 l]; [|discriminate Hf].
    split; [reflexivity|]. intros l' El'. injection El' as <-.
    apply computed_unhide; [exact Hno|reflexivity|exact Hd].
  Qed.
End Instances.

(* ====================================================================== *)
(* 8. The Api level: the two routes                                        *)
(* ====================================================================== *)
(* the configuration c with other style data and another document-CSS switch *)
Definition with_css (c : config) (sd : styledata) (udc : bool) : config :=
  mkcfg (c_deco c) (c_max_wrap c) sd udc (c_pad c) (c_overflow c) (c_min_wrap c) (c_raw c)
        (c_borders c) (c_wrap_links c) (c_footnotes c) (c_strike c).
(* ... with no style data at all: no agent, user or author rule, document CSS off *)
Definition no_css (c : config) : config := with_css c styledata0 false.

Section Routes.
  Variable inline_styles : list (text * text) -> res (list styledecl).
  Variable doc_rules : list node -> res (list ruleset).

  Lemma routes_of_trees : forall c sd0 udc0 (t t0 : res rnode) width,
    rmap nrm t = rmap nrm t0 ->
    (do tree <- t; do s <- render_with_context c tree width; do ls <- sub_into_lines s;
     Ok (map rline_into_tagged ls)) =
    (do tree <- t0; do s <- render_with_context (with_css c sd0 udc0) tree width;
     do ls <- sub_into_lines s; Ok (map rline_into_tagged ls)) /\
    (do tree <- t; do s <- render_with_context c tree width; sub_into_string s) =
    (do tree <- t0; do s <- render_with_context (with_css c sd0 udc0) tree width;
     sub_into_string s).
  Proof.
    intros c sd0 udc0 t t0 width H.
    assert (E : forall a a0, nrm a = nrm a0 ->
              render_with_context c a width = render_with_context (with_css c sd0 udc0) a0 width).
    { intros a a0 Ha. unfold render_with_context. destruct (width =? 0); [reflexivity|].
      change (render_options (with_css c sd0 udc0)) with (render_options c).
      cbn [with_css c_deco c_min_wrap].
      rewrite <- (render_tree_nrm _ _ _ _ a), <- (render_tree_nrm _ _ _ _ a0), Ha. reflexivity. }
    destruct t as [a| | |], t0 as [a0| | |]; cbn [rmap bind] in *; try discriminate H;
      try (inversion H; subst; split; reflexivity).
    injection H as H. rewrite (E a a0 H). split; reflexivity.
  Qed.

  (* GENERAL FORM, the deleted side keeps what is not a hiding rule:
     c  = the configuration with the sheet (sd = the style data in effect for the document);
     c0 = c with the style data `unhide sd` (every hiding rule removed) and document CSS off. *)
  Theorem c18_hidden_as_deleted_base : forall c doc sd width,
    effective_sd doc_rules c doc = Ok sd ->
    sheet_no_nth sd = true -> sheet_none_only sd = true ->
    doc_only_hides (c_use_doc_css c) inline_styles doc = true ->
    let doc' := prune_doc sd (c_use_doc_css c) inline_styles doc in
    let c0 := with_css c (unhide sd) false in
    lines_from_read inline_styles doc_rules c doc width =
      lines_from_read inline_styles doc_rules c0 doc' width /\
    string_from_read inline_styles doc_rules c doc width =
      string_from_read inline_styles doc_rules c0 doc' width.
  Proof.
    intros c doc sd width Esd Hnth Hno Hdoc doc' c0.
    unfold lines_from_read, string_from_read. apply routes_of_trees.
    unfold to_render_tree. rewrite Esd. unfold effective_sd. cbn [c0 with_css c_use_doc_css c_sd bind].
    apply dom_unhide_nodoccss; assumption.
  Qed.

  (* ... or keeps its inline styles too (document CSS on on both sides), provided the style
     data in effect for the pruned document is `unhide sd` *)
  Theorem c18_hidden_as_deleted_inline : forall c doc sd sd' width,
    effective_sd doc_rules c doc = Ok sd ->
    sheet_no_nth sd = true -> sheet_none_only sd = true ->
    doc_none_only (c_use_doc_css c) inline_styles doc = true ->
    let doc' := prune_doc sd (c_use_doc_css c) inline_styles doc in
    let c0 := with_css c sd' (c_use_doc_css c) in
    effective_sd doc_rules c0 doc' = Ok (unhide sd) ->
    lines_from_read inline_styles doc_rules c doc width =
      lines_from_read inline_styles doc_rules c0 doc' width /\
    string_from_read inline_styles doc_rules c doc width =
      string_from_read inline_styles doc_rules c0 doc' width.
  Proof.
    intros c doc sd sd' width Esd Hnth Hno Hdoc doc' c0 Esd0.
    unfold lines_from_read, string_from_read. apply routes_of_trees.
    unfold to_render_tree. fold c0. rewrite Esd, Esd0. cbn [bind c0 with_css c_use_doc_css].
    apply dom_unhide_inline; assumption.
  Qed.

  (* THE PROPERTY AS STATED: render_css(d) = render(delete_hidden(d)), the right-hand side
     rendered with no style data at all, on both routes, for every width. *)
  Theorem c18_hidden_as_deleted : forall c doc sd width,
    effective_sd doc_rules c doc = Ok sd ->
    sheet_no_nth sd = true -> sheet_only_hides sd = true ->
    doc_only_hides (c_use_doc_css c) inline_styles doc = true ->
    let doc' := prune_doc sd (c_use_doc_css c) inline_styles doc in
    lines_from_read inline_styles doc_rules c doc width =
      lines_from_read inline_styles doc_rules (no_css c) doc' width /\
    string_from_read inline_styles doc_rules c doc width =
      string_from_read inline_styles doc_rules (no_css c) doc' width.
  Proof.
    intros c doc sd width Esd Hnth Hoh Hdoc doc'. unfold no_css.
    rewrite <- (only_hides_unhide sd Hoh).
    apply c18_hidden_as_deleted_base; try assumption. apply only_hides_none_only, Hoh.
  Qed.
End Routes.

Print Assumptions computed_unhide.
Print Assumptions render_tree_nrm.
Print Assumptions dom_unhide.
Print Assumptions c18_hidden_as_deleted_base.
Print Assumptions c18_hidden_as_deleted_inline.
Print Assumptions c18_hidden_as_deleted.

(* ====================================================================== *)
(* 9. Examples (non-vacuity), necessity of the hypotheses, observations    *)
(* ====================================================================== *)
Module NoSheetExamples.
Import String Ascii.
Import PruneExamples.
Local Open Scope string_scope.

(* ---- the property as stated.  Plain decorator without the decorate rules, footnotes on,
   document CSS on.  Hidden: a list item (class), a table cell (inline, next to a colour
   declaration), the FIRST of two links (class; the footnote numbers change), an element with
   an id (idiom in the sheet), an element with the idiom inline; and a rule for a
   pseudo-element that only hides (it changes the computed style of the <em>, which stays). ---- *)
Definition cfg0 : config := set_doc_css (set_footnotes (with_decorator plain_deco) true).
Definition docA : list node :=
  [el "style" [] [tx ".h{display:none} #i{height:0;overflow:hidden} em::before{display:none}"];
   el "ol" [] [el "li" [] [tx "x"]; el "li" [("class","h")] [tx "y"]; el "li" [] [tx "z"]];
   el "table" []
      [el "tbody" [] [el "tr" [] [el "td" [] [tx "v"];
                                  el "td" [("style","color:red;display:none")] [tx "w"]]]];
   el "p" [] [el "a" [("href","u1"); ("class","h")] [tx "q"]; tx " ";
              el "a" [("href","u2")] [tx "r"]; el "em" [] [tx "e"]];
   el "div" [("id","i")] [tx "zz"];
   el "div" [("style","height:0;overflow:hidden")] [tx "yy"]].
Definition docA_pruned : list node :=
  [el "style" [] [tx ".h{display:none} #i{height:0;overflow:hidden} em::before{display:none}"];
   el "ol" [] [el "li" [] [tx "x"]; el "li" [] [tx "z"]];
   el "table" [] [el "tbody" [] [el "tr" [] [el "td" [] [tx "v"]]]];
   el "p" [] [tx " "; el "a" [("href","u2")] [tx "r"]; el "em" [] [tx "e"]]].

Example exA_hyps :
  sheet_no_nth (the_sd cfg0 docA) = true /\ sheet_only_hides (the_sd cfg0 docA) = true /\
  doc_only_hides true inline_styles docA = true /\
  prune_doc (the_sd cfg0 docA) true inline_styles docA = docA_pruned.
Proof. vm_compute. repeat split; reflexivity. Qed.

(* the theorem applies, at every width, on both routes *)
Example exA_theorem : forall width,
  lines_from_read inline_styles doc_rules cfg0 docA width =
    lines_from_read inline_styles doc_rules (no_css cfg0) docA_pruned width /\
  string_from_read inline_styles doc_rules cfg0 docA width =
    string_from_read inline_styles doc_rules (no_css cfg0) docA_pruned width.
Proof.
  intros width. destruct exA_hyps as (H1 & H2 & H3 & H4). rewrite <- H4.
  apply c18_hidden_as_deleted; try assumption. vm_compute. reflexivity.
Qed.

(* both sides computed: "1. x / 2. z / (table) v / [r][1]e / [1]: u2" - the remaining link is
   footnote 1 - and the document itself without CSS renders something else *)
Definition outA : list N :=
  (lN "1. x" ++ [10] ++ lN "2. z" ++ [10; 10; 9472; 10] ++ lN "v" ++ [10; 9472; 10; 10] ++
   lN "[r][1]e" ++ [10; 10] ++ lN "[1]: u2" ++ [10])%list.
Example exA_out :
  out cfg0 docA = Ok outA /\ out (no_css cfg0) docA_pruned = Ok outA /\
  out (no_css cfg0) docA <> Ok outA /\
  lines_from_read inline_styles doc_rules cfg0 docA 7 =
    lines_from_read inline_styles doc_rules (no_css cfg0) docA_pruned 7.
Proof. vm_compute. repeat split; try reflexivity. discriminate. Qed.

(* the render trees of the two sides are NOT equal: the <em> carries a ::before style on the
   full side (from em::before{display:none}); they are equal up to nrm *)
Example exA_trees :
  to_render_tree inline_styles doc_rules cfg0 docA <>
    to_render_tree inline_styles doc_rules (no_css cfg0) docA_pruned /\
  rmap nrm (to_render_tree inline_styles doc_rules cfg0 docA) =
    rmap nrm (to_render_tree inline_styles doc_rules (no_css cfg0) docA_pruned).
Proof. split; [vm_compute; discriminate|vm_compute; reflexivity]. Qed.

(* ---- the general form: the plain decorator WITH its decorate rules (em::before{content:"*"}
   ... in the agent sheet: `sheet_only_hides` fails, `sheet_none_only` holds), a user sheet
   `.h{color:red;display:none}`, document CSS off.  The deleted side is cfg_plain itself. ---- *)
Definition hide_rule : ruleset :=
  mkrs (mksel [CClass (t "h")] None) [mksd (SColour 255 0 0) false; mksd (SDisplay true) false].
Definition cfgB : config :=
  set_sd cfg_plain (mkstd (agent_rules (c_sd cfg_plain)) [hide_rule] []).
Definition docB : list node :=
  [el "p" [] [tx "a"; el "em" [("class","h")] [tx "b"]; el "em" [] [tx "c"]];
   el "ul" [] [el "li" [("class","h")] [tx "y"]; el "li" [] [tx "z"]]].
Definition docB_pruned : list node :=
  [el "p" [] [tx "a"; el "em" [] [tx "c"]]; el "ul" [] [el "li" [] [tx "z"]]].

Example exB_hyps :
  effective_sd doc_rules cfgB docB = Ok (c_sd cfgB) /\
  sheet_no_nth (c_sd cfgB) = true /\ sheet_none_only (c_sd cfgB) = true /\
  sheet_only_hides (c_sd cfgB) = false /\
  doc_only_hides false inline_styles docB = true /\
  prune_doc (c_sd cfgB) false inline_styles docB = docB_pruned /\
  with_css cfgB (unhide (c_sd cfgB)) false = cfg_plain.
Proof. vm_compute. repeat split; reflexivity. Qed.

Example exB_theorem : forall width,
  lines_from_read inline_styles doc_rules cfgB docB width =
    lines_from_read inline_styles doc_rules cfg_plain docB_pruned width /\
  string_from_read inline_styles doc_rules cfgB docB width =
    string_from_read inline_styles doc_rules cfg_plain docB_pruned width.
Proof.
  intros width. destruct exB_hyps as (H1 & H2 & H3 & _ & H5 & H6 & H7).
  rewrite <- H6, <- H7. apply c18_hidden_as_deleted_base; assumption.
Qed.

Example exB_out :
  out cfgB docB = Ok (lN "a*c*" ++ [10] ++ lN "* z" ++ [10])%list /\
  out cfg_plain docB_pruned = Ok (lN "a*c*" ++ [10] ++ lN "* z" ++ [10])%list.
Proof. vm_compute. split; reflexivity. Qed.

(* ---- the form with inline styles on both sides: rich decorator (colours are annotations
   of the lines route), user sheet .h{display:none}, document CSS on, a `color` attribute on an
   element that stays ---- *)
Definition cfgC : config :=
  set_doc_css (set_sd cfg_rich (mkstd [] [mkrs (mksel [CClass (t "h")] None)
                                               [mksd (SDisplay true) false]] [])).
Definition docC : list node :=
  [el "p" [("color","#ff0000")] [tx "a"; el "b" [("class","h"); ("color","#00ff00")] [tx "b"]];
   el "p" [("style","display:none;color:blue")] [tx "c"]].
Definition docC_pruned : list node := [el "p" [("color","#ff0000")] [tx "a"]].

Example exC_hyps :
  effective_sd doc_rules cfgC docC = Ok (c_sd cfgC) /\
  sheet_no_nth (c_sd cfgC) = true /\ sheet_none_only (c_sd cfgC) = true /\
  doc_none_only true inline_styles docC = true /\
  doc_only_hides true inline_styles docC = false /\
  prune_doc (c_sd cfgC) true inline_styles docC = docC_pruned /\
  effective_sd doc_rules (with_css cfgC styledata0 true) docC_pruned = Ok (unhide (c_sd cfgC)).
Proof. vm_compute. repeat split; reflexivity. Qed.

Example exC_theorem : forall width,
  lines_from_read inline_styles doc_rules cfgC docC width =
    lines_from_read inline_styles doc_rules (with_css cfgC styledata0 true) docC_pruned width.
Proof.
  intros width. destruct exC_hyps as (H1 & H2 & H3 & H4 & _ & H6 & H7).
  rewrite <- H6 in *.
  apply (c18_hidden_as_deleted_inline inline_styles doc_rules cfgC docC (c_sd cfgC) styledata0);
    assumption.
Qed.

(* ... and `doc_only_hides` is NECESSARY for the form without any style: with NO CSS the red
   <p> loses its colour annotation, so the tagged lines differ (the strings do not) *)
Example exC_needed :
  lines_from_read inline_styles doc_rules cfgC docC 20 <>
    lines_from_read inline_styles doc_rules (no_css cfgC) docC_pruned 20 /\
  lines_from_read inline_styles doc_rules cfgC docC 20 =
    lines_from_read inline_styles doc_rules (with_css cfgC styledata0 true) docC_pruned 20.
Proof. split; [vm_compute; discriminate|vm_compute; reflexivity]. Qed.

(* ---- `sheet_none_only` is necessary for the general form: a rule that hides AND styles
   (.k{color:red;display:none}) is removable only because every element it matches is hidden;
   when another display value wins on such an element (#i{display:block}, higher specificity)
   the element stays and keeps the rule's colour ---- *)
Definition cfgD : config :=
  set_sd cfg_rich
    (mkstd [] [mkrs (mksel [CClass (t "k")] None)
                    [mksd (SColour 255 0 0) false; mksd (SDisplay true) false];
               mkrs (mksel [CHash (t "i")] None) [mksd (SDisplay false) false]] []).
Definition docD : list node := [el "p" [("class","k"); ("id","i")] [tx "a"]].
Example exD_needed :
  sheet_none_only (c_sd cfgD) = false /\ sheet_no_nth (c_sd cfgD) = true /\
  doc_only_hides false inline_styles docD = true /\
  prune_doc (c_sd cfgD) false inline_styles docD = docD /\
  unhide (c_sd cfgD) = styledata0 /\
  lines_from_read inline_styles doc_rules cfgD docD 20 <>
    lines_from_read inline_styles doc_rules (no_css cfgD) docD 20.
Proof. vm_compute. repeat split; try reflexivity. discriminate. Qed.

(* ---- OBSERVATION (model = implementation, checked with the harness binary:
   `<p>a<em>b</em></p>` with the user sheet `em::before{content:"x"} em::before{display:none}`
   gives "axb*"): a display:none on a ::before / ::after pseudo-element does not suppress its
   content - the display cell of a pseudo-element style is never read (Dom.wrap_pseudo looks at
   the content cell only).  This is why a rule like em::before{display:none} is harmless for
   the theorem, and it is a deviation from CSS outside the statement of C18 (which speaks
   about elements). ---- *)
Definition cfgE : config :=
  set_sd cfg_plain
    (mkstd (agent_rules (c_sd cfg_plain))
           [mkrs (mksel [CElement (t "em")] (Some PBefore)) [mksd (SContent (t "x")) false];
            mkrs (mksel [CElement (t "em")] (Some PBefore)) [mksd (SDisplay true) false]] []).
Example pseudo_display_none_ignored :
  out cfgE [el "p" [] [tx "a"; el "em" [] [tx "b"]]] = Ok (lN "axb*" ++ [10])%list.
Proof. vm_compute. reflexivity. Qed.
End NoSheetExamples.

Print Assumptions NoSheetExamples.exA_theorem.
Print Assumptions NoSheetExamples.exB_theorem.
Print Assumptions NoSheetExamples.exC_theorem.
