(* Proofs/RenderConserve.v -- property C03 ("every visible character of the document body
   appears in the output exactly once; everything else is whitespace or renderer-made; document
   order is kept outside side-by-side table rows") lifted from the WrappedBlock
   (Proofs/Conserve.v) through the sub-renderers, render_node, render_tree and the Api routes.
   No axioms.  Main theorems: c03_render_node_no_table, c03_render_tree_no_table,
   c03_render_tree_leaves, c03_string_from_read, c03_lines_from_read (exact order, no tables),
   c03_render_node_raw, c03_render_tree_raw (raw mode, tables), c03_render_node_perm,
   c03_render_tree_perm (multiset, tables).  Finding: zero_width_row_dropped.
   Exact statements, hypotheses and what is not proved: SUMMARY at the end of the file. *)
From H2T Require Import Base Tagged Wrap Sub Css Dom Render Api.
From H2T Require Import Proofs.Conserve Proofs.WrapInv Proofs.RenderWidth Proofs.Small.
From H2T Require Import Proofs.Footnotes.
From H2T Require Proofs.TableProof.
From Coq Require Import Lia ZifyN ZifyBool ZifyNat Permutation.

Local Arguments N.add : simpl never.
Local Arguments N.sub : simpl never.
Local Arguments N.mul : simpl never.
Local Arguments N.div : simpl never.
Local Arguments N.modulo : simpl never.
Local Arguments N.leb : simpl never.
Local Arguments N.ltb : simpl never.
Local Arguments N.eqb : simpl never.
Local Arguments N.min : simpl never.
Local Arguments N.max : simpl never.
Local Arguments N.to_nat : simpl never.
Local Arguments N.of_nat : simpl never.
Local Open Scope N_scope.

(* ================================================================== *)
(* 1. Vocabulary                                                        *)
(* ================================================================== *)

(* a DOCUMENT character that can be seen: not whitespace and labelled >= 16 (labels < 16 are
   the kinds of characters the renderer makes itself, Base.v) *)
Definition docp (c : chr) : bool := negb (ws c) && (16 <=? lab c).

Lemma docp_spacel l : docp (spacel l) = false.
Proof. reflexivity. Qed.

(* the visible document characters of a text handed to add_inline_text: Conserve.kept drops the
   whitespace and the characters without a width (cw = None: control characters, which
   add_char drops); zero-width characters (cw = Some 0, e.g. combining marks) are kept *)
Definition doc_chars (t : text) : text := filter docp (kept t).

(* a text without visible document characters *)
Definition nodoc (t : text) : Prop := filter docp t = [].

(* the visible document characters of finished lines / of an open wrapping block / of a
   sub-renderer: all lines top to bottom, left to right, then the open block (finished lines,
   current line, pending word) *)
Definition lstream (ls : list rline) : text := filter docp (flat_map rline_string ls).
Definition bstream (w : wblock) : text :=
  filter docp (flat_map tl_string (wtext w) ++ tl_string (wline w) ++ flat_map elem_text (wword w)).
Definition wstream (ow : option wblock) : text :=
  match ow with Some w => bstream w | None => [] end.
Definition out_stream (s : subr) : text := lstream (slines s) ++ wstream (wrapping s).

(* ================================================================== *)
(* 2. Texts                                                             *)
(* ================================================================== *)

Lemma kept_app a b : kept (a ++ b) = kept a ++ kept b.
Proof. apply filter_app. Qed.

Lemma doc_chars_app a b : doc_chars (a ++ b) = doc_chars a ++ doc_chars b.
Proof. unfold doc_chars. rewrite kept_app, filter_app. reflexivity. Qed.

Lemma filter_filter_nil {A} (p q : A -> bool) l : filter p l = [] -> filter p (filter q l) = [].
Proof.
  induction l as [|c l IH]; cbn [filter]; [reflexivity|].
  destruct (p c) eqn:Hp; [discriminate|]. intros H.
  destruct (q c); cbn [filter]; [rewrite Hp|]; apply IH, H.
Qed.

Lemma nodoc_doc_chars t : nodoc t -> doc_chars t = [].
Proof. apply filter_filter_nil. Qed.

Lemma nodoc_nil : nodoc [].
Proof. reflexivity. Qed.
Lemma nodoc_app a b : nodoc a -> nodoc b -> nodoc (a ++ b).
Proof. unfold nodoc. intros Ha Hb. rewrite filter_app, Ha, Hb. reflexivity. Qed.

Lemma nodoc_Forall t : Forall (fun c => lab c <? 16 = true) t -> nodoc t.
Proof.
  unfold nodoc. induction 1 as [|c t Hc Ht IH]; cbn [filter]; [reflexivity|].
  unfold docp. replace (16 <=? lab c) with false by lia. rewrite andb_false_r. exact IH.
Qed.

Lemma nodoc_of_asciil lb l : lb <? 16 = true -> nodoc (of_asciil lb l).
Proof.
  intros H. apply nodoc_Forall. unfold of_asciil. apply Forall_forall. intros c Hc.
  apply in_map_iff in Hc. destruct Hc as (x & <- & _). exact H.
Qed.
Lemma nodoc_relabel lb t : lb <? 16 = true -> nodoc (relabel lb t).
Proof.
  intros H. apply nodoc_Forall. unfold relabel. apply Forall_forall. intros c Hc.
  apply in_map_iff in Hc. destruct Hc as (x & <- & _). exact H.
Qed.
Lemma nodoc_repeat c n : docp c = false -> nodoc (repeat_chr c n).
Proof.
  intros H. unfold nodoc. induction n as [|n IH]; cbn [repeat_chr filter]; [reflexivity|].
  rewrite H. exact IH.
Qed.

Lemma all_ws_doc_chars t : all_ws t = true -> doc_chars t = [].
Proof.
  unfold all_ws, doc_chars, kept. induction t as [|c t IH]; cbn [forallb filter]; [reflexivity|].
  intros H. apply andb_true_iff in H. destruct H as [Hc Ht]. rewrite Hc. cbn [negb andb].
  apply IH, Ht.
Qed.

(* the strikeout filter inserts U+0336 (label L_strike = 7) after every visible character of
   positive width: the document characters are untouched *)
Lemma doc_chars_strikeout t : doc_chars (filter_strikeout t) = doc_chars t.
Proof.
  unfold filter_strikeout. induction t as [|c t IH]; cbn [flat_map]; [reflexivity|].
  rewrite doc_chars_app, IH. change (c :: t) with ([c] ++ t). rewrite (doc_chars_app [c] t).
  f_equal. destruct (negb (ws c) && (0 <? cw0 c)); [|reflexivity].
  change [c; strike_chr] with ([c] ++ [strike_chr]). rewrite doc_chars_app.
  change (doc_chars [strike_chr]) with (@nil chr). apply app_nil_r.
Qed.
Lemma doc_chars_filters n : forall t, doc_chars (apply_filters n t) = doc_chars t.
Proof.
  induction n as [|n IH]; intros t; cbn [apply_filters]; [reflexivity|].
  rewrite IH. apply doc_chars_strikeout.
Qed.

(* superscript digits keep their label *)
Lemma doc_chars_sup s :
  doc_chars (map sup_char s) = map sup_char (filter (fun c => 16 <=? lab c) s).
Proof.
  unfold doc_chars, kept. induction s as [|c s IH]; cbn [map filter]; [reflexivity|].
  cbn [sup_char ws cw negb andb filter]. unfold docp at 1. cbn [sup_char ws lab negb andb].
  destruct (16 <=? lab c); cbn [map]; rewrite IH; reflexivity.
Qed.

Lemma nodoc_border b : nodoc (border_string b).
Proof.
  apply nodoc_Forall. unfold border_string. apply Forall_forall. intros c Hc.
  apply in_map_iff in Hc. destruct Hc as (x & <- & _). destruct x; reflexivity.
Qed.

(* ================================================================== *)
(* 3. Streams of lines and blocks                                       *)
(* ================================================================== *)

Lemma lstream_app a b : lstream (a ++ b) = lstream a ++ lstream b.
Proof. unfold lstream. rewrite flat_map_app, filter_app. reflexivity. Qed.
Lemma lstream_nil : lstream [] = [].
Proof. reflexivity. Qed.
Lemma lstream_one l : lstream [l] = filter docp (rline_string l).
Proof. unfold lstream. cbn [flat_map]. rewrite app_nil_r. reflexivity. Qed.

Lemma bstream_pstream w : bstream w = projr (pstream docp w).
Proof. unfold bstream. rewrite projr_pstream. reflexivity. Qed.

Lemma bstream_new W pad ovf : bstream (wb_new W pad ovf) = [].
Proof. reflexivity. Qed.

Lemma wstream_get s : bstream (get_wrapping s) = wstream (wrapping s).
Proof. unfold get_wrapping, wstream. destruct (wrapping s); reflexivity. Qed.

Lemma bstream_add_text b s m t1 t2 b' :
  wb_add_text b s m t1 t2 = Ok b' -> bstream b' = bstream b ++ doc_chars s.
Proof.
  intros H. rewrite !bstream_pstream, (add_text_stream docp docp_spacel _ _ _ _ _ _ H).
  rewrite projr_app. unfold pchars. rewrite projr_map_inr. reflexivity.
Qed.

Lemma bstream_add_frag b n : bstream (wb_add_element b (Frag n)) = bstream b.
Proof.
  rewrite !bstream_pstream, add_frag_stream, projr_app. cbn [projr flat_map]. apply app_nil_r.
Qed.

Lemma bstream_into_lines b ls :
  wb_into_lines b = Ok ls -> filter docp (flat_map tl_string ls) = bstream b.
Proof. intros H. rewrite bstream_pstream. exact (into_lines_generic docp docp_spacel b ls H). Qed.

Lemma lstream_RText ls : lstream (map RText ls) = filter docp (flat_map tl_string ls).
Proof.
  unfold lstream. f_equal. induction ls as [|l ls IH]; cbn [map flat_map]; [reflexivity|].
  rewrite IH. reflexivity.
Qed.

Lemma take_frags_stream w w1 frags :
  take_trailing_fragments w = (w1, frags) ->
  bstream w1 = bstream w /\ flat_map elem_text frags = [].
Proof.
  rewrite ttf_eq. intros H. injection H as <- <-.
  pose proof (no_content_text _ (tfr_snd_nocontent (wword w))) as Ht. split; [|exact Ht].
  unfold bstream. cbn [set_word wtext wline wword]. rewrite (tfr_app (wword w)) at 2.
  rewrite flat_map_app, Ht, app_nil_r. reflexivity.
Qed.

(* ================================================================== *)
(* 4. Sub-renderer operations                                           *)
(* ================================================================== *)

(* the pending fragment list holds markers only (no text): true of every sub-renderer the
   renderer creates, and kept by every operation *)
Definition pfc (s : subr) : Prop := pf_text s = [].

Lemma add_line_out s l : pfc s ->
  pfc (add_line s l) /\
  lstream (slines (add_line s l)) = lstream (slines s) ++ filter docp (rline_string l) /\
  wrapping (add_line s l) = wrapping s.
Proof.
  intros Hp. destruct (add_line_same s l) as (_ & _ & Hw). split; [|split; [|exact Hw]].
  - destruct l as [tl|b t].
    + destruct (add_line_text s tl) as (l' & _ & _ & E3). unfold pfc, pf_text. rewrite E3. reflexivity.
    + unfold pfc, pf_text, add_line in *. destruct (pending_frags s); sprj; exact Hp.
  - destruct l as [tl|b t].
    + destruct (add_line_text s tl) as (l' & E1 & E2 & _).
      rewrite E1, lstream_app, lstream_one, E2, Hp. reflexivity.
    + unfold add_line. destruct (pending_frags s); sprj; rewrite lstream_app, lstream_one; reflexivity.
Qed.

Lemma extend_lines_out ls : forall s, pfc s ->
  pfc (extend_lines s ls) /\
  lstream (slines (extend_lines s ls)) = lstream (slines s) ++ lstream ls /\
  wrapping (extend_lines s ls) = wrapping s.
Proof.
  unfold extend_lines. induction ls as [|l ls IH]; intros s Hp; cbn [fold_left].
  - rewrite lstream_nil, app_nil_r. auto.
  - destruct (add_line_out s l Hp) as (A & B & C). destruct (IH _ A) as (A' & B' & C').
    split; [exact A'|]. split; [|congruence].
    rewrite B', B, <- app_assoc. f_equal. change (l :: ls) with ([l] ++ ls).
    rewrite lstream_app, lstream_one. reflexivity.
Qed.

Lemma flush_wrapping_out s s' : flush_wrapping s = Ok s' -> pfc s ->
  pfc s' /\ out_stream s' = out_stream s /\ wrapping s' = None.
Proof.
  intros H Hp. unfold flush_wrapping in H. destruct (wrapping s) as [w|] eqn:Ew.
  - destruct (take_trailing_fragments w) as [w1 frags] eqn:Et. bind_inv H lm Hlm. ok_inv H.
    pose proof (wb_into_lines_markers_fst _ _ Hlm) as Hls.
    pose proof (no_content_text _ (wb_into_lines_markers_no_content _ _ Hlm)) as Hmk.
    destruct lm as [ls mk]. cbn [fst snd] in *.
    destruct (take_frags_stream _ _ _ Et) as [Eb Ef].
    assert (Hp0 : pfc (set_wrapping s None)) by exact Hp.
    destruct (extend_lines_out (map RText ls) _ Hp0) as (A & B & C).
    sprj. split; [|split].
    + unfold pfc, pf_text in *. sprj. rewrite !flat_map_app, A, Ef, Hmk. reflexivity.
    + unfold out_stream. sprj. rewrite C, B. sprj. rewrite Ew. cbn [wstream].
      rewrite app_nil_r, lstream_RText, (bstream_into_lines _ _ Hls), Eb. reflexivity.
    + exact C.
  - ok_inv H. unfold out_stream. rewrite Ew. auto.
Qed.

(* an operation appends the visible document characters t, in order, and nothing else *)
Definition opS (f : subr -> res subr) (t : text) : Prop :=
  forall s s', f s = Ok s' -> pfc s -> pfc s' /\ out_stream s' = out_stream s ++ t.

Lemma opS_comp f g t u : opS f t -> opS g u -> opS (fun s => do s1 <- f s; g s1) (t ++ u).
Proof.
  intros Hf Hg s s' H Hp. bind_inv H s1 H1. destruct (Hf _ _ H1 Hp) as [A B].
  destruct (Hg _ _ H A) as [C D]. split; [exact C|]. rewrite D, B, app_assoc. reflexivity.
Qed.
Lemma opS_comp0 f g u : opS f [] -> opS g u -> opS (fun s => do s1 <- f s; g s1) u.
Proof. intros Hf Hg. exact (opS_comp f g [] u Hf Hg). Qed.
Lemma opS_comp0r f g t : opS f t -> opS g [] -> opS (fun s => do s1 <- f s; g s1) t.
Proof. intros Hf Hg. pose proof (opS_comp f g t [] Hf Hg) as H. rewrite app_nil_r in H. exact H. Qed.

(* a pure change of the text state (annotations, filters, modes, flags) *)
Lemma opS_pure (g : subr -> subr) :
  (forall s, slines (g s) = slines s /\ pending_frags (g s) = pending_frags s /\
             wrapping (g s) = wrapping s) -> opS (fun s => Ok (g s)) [].
Proof.
  intros Hg s s' H Hp. ok_inv H. destruct (Hg s) as (a & b & c).
  unfold pfc, pf_text, out_stream in *. rewrite a, b, c, app_nil_r. auto.
Qed.

Lemma flush_wrapping_opS : opS flush_wrapping [].
Proof.
  intros s s' H Hp. destruct (flush_wrapping_out _ _ H Hp) as (A & B & _).
  rewrite app_nil_r. auto.
Qed.

Lemma add_line_opS_none s l : pfc s -> wrapping s = None ->
  pfc (add_line s l) /\ out_stream (add_line s l) = out_stream s ++ filter docp (rline_string l) /\
  wrapping (add_line s l) = None.
Proof.
  intros Hp Hw. destruct (add_line_out s l Hp) as (A & B & C).
  split; [exact A|]. split; [|congruence].
  unfold out_stream. rewrite C, B, Hw. cbn [wstream]. rewrite !app_nil_r. reflexivity.
Qed.

Lemma add_empty_line_opS : opS add_empty_line [].
Proof.
  intros s s' H Hp. unfold add_empty_line in H. bind_inv H s1 H1. ok_inv H.
  destruct (flush_wrapping_out _ _ H1 Hp) as (A & B & C).
  destruct (add_line_opS_none s1 (RText tl_new) A C) as (A' & B' & _).
  split; [exact A'|]. unfold out_stream in *. sprj. rewrite B', B. reflexivity.
Qed.

Lemma start_block_opS : opS start_block [].
Proof.
  intros s s' H Hp. unfold start_block in H. bind_inv H s1 H1. bind_inv H s2 H2. ok_inv H.
  destruct (flush_wrapping_opS _ _ H1 Hp) as [A B].
  assert (C : pfc s2 /\ out_stream s2 = out_stream s1 ++ []).
  { destruct (existsb rline_has_content (slines s1)).
    - apply add_empty_line_opS; assumption.
    - ok_inv H2. rewrite app_nil_r. auto. }
  destruct C as [C D]. split; [exact C|]. rewrite app_nil_r in *.
  unfold out_stream in *. sprj. rewrite D, B. reflexivity.
Qed.

Lemma new_line_hard_opS : opS new_line_hard [].
Proof.
  intros s s' H Hp. unfold new_line_hard in H. destruct (wrapping s) as [w|].
  - destruct ((wordlen w =? 0) && (tlen_ (wline w) =? 0)).
    + apply add_empty_line_opS; assumption.
    + apply flush_wrapping_opS; assumption.
  - apply add_empty_line_opS; assumption.
Qed.

Lemma add_horizontal_line_opS b t : opS (fun s => add_horizontal_line s b t) [].
Proof.
  intros s s' H Hp. unfold add_horizontal_line in H. bind_inv H s1 H1. ok_inv H.
  destruct (flush_wrapping_out _ _ H1 Hp) as (A & B & C).
  destruct (add_line_opS_none s1 (RLine b t) A C) as (A' & B' & _).
  split; [exact A'|]. rewrite B', B. cbn [rline_string]. rewrite (nodoc_border b). reflexivity.
Qed.
Lemma add_horizontal_border_width_opS w : opS (fun s => add_horizontal_border_width s w) [].
Proof.
  intros s s' H Hp. unfold add_horizontal_border_width in H. bind_inv H s1 H1. ok_inv H.
  destruct (flush_wrapping_out _ _ H1 Hp) as (A & B & C).
  destruct (add_line_opS_none s1 (RLine (border_new w) (ann_stack s1)) A C) as (A' & B' & _).
  split; [exact A'|]. rewrite B', B. cbn [rline_string]. rewrite (nodoc_border _). reflexivity.
Qed.

(* THE text operation: the visible document characters of the text are appended *)
Lemma add_inline_text_opS d t : opS (fun s => add_inline_text d s t) (doc_chars t).
Proof.
  intros s s' H Hp. unfold add_inline_text in H.
  destruct (negb (preserve_ws (ws_mode s)) && at_block_end s && all_ws t) eqn:Ec.
  { ok_inv H. apply andb_true_iff in Ec. destruct Ec as [_ Ea].
    rewrite (all_ws_doc_chars _ Ea), app_nil_r. auto. }
  bind_inv H s1 H1.
  assert (B : pfc s1 /\ out_stream s1 = out_stream s ++ []).
  { destruct (at_block_end s).
    - apply start_block_opS; assumption.
    - ok_inv H1. rewrite app_nil_r. auto. }
  destruct B as [B1 B2]. rewrite app_nil_r in B2.
  bind_inv H w1 Hw1. ok_inv H. split; [exact B1|].
  apply bstream_add_text in Hw1. rewrite doc_chars_filters, wstream_get in Hw1.
  unfold out_stream in *. sprj. cbn [wstream]. rewrite Hw1, app_assoc, B2. reflexivity.
Qed.

Lemma push_ann_opS a : opS (fun s => Ok (push_ann s a)) [].
Proof. apply opS_pure. intros s. unfold push_ann. sprj. auto. Qed.
Lemma pop_ann_opS : opS (fun s => Ok (pop_ann s)) [].
Proof. apply opS_pure. intros s. unfold pop_ann. sprj. auto. Qed.

Lemma start_deco_opS d p : opS (fun s => start_deco d s p) (doc_chars (fst p)).
Proof.
  unfold start_deco.
  exact (opS_comp0 _ _ _ (push_ann_opS (snd p)) (add_inline_text_opS d (fst p))).
Qed.
Lemma end_deco_opS d e : opS (fun s => end_deco d s e) (doc_chars e).
Proof. unfold end_deco. exact (opS_comp0r _ _ _ (add_inline_text_opS d e) pop_ann_opS). Qed.

Lemma start_strikeout_opS d : opS (start_strikeout d) (doc_chars (fst (d_strike_start d))).
Proof.
  unfold start_strikeout. apply opS_comp0r; [apply (start_deco_opS d)|].
  intros s s' H Hp. ok_inv H. rewrite app_nil_r. destruct (o_strike (sopts s)); auto.
Qed.
Lemma end_strikeout_opS d : opS (end_strikeout d) (doc_chars (d_strike_end d)).
Proof.
  unfold end_strikeout. apply opS_comp0; [|apply (end_deco_opS d)].
  intros s s' H Hp. rewrite app_nil_r. destruct (o_strike (sopts s)).
  - destruct (filter_depth s); [discriminate|]. ok_inv H. auto.
  - ok_inv H. auto.
Qed.

Lemma add_image_opS d src title :
  opS (fun s => add_image d s src title) (doc_chars (fst (d_image d src title))).
Proof.
  unfold add_image.
  exact (opS_comp0r _ _ _ (opS_comp0 _ _ _ (push_ann_opS _) (add_inline_text_opS d _)) pop_ann_opS).
Qed.

Lemma record_frag_start_opS name : opS (fun s => Ok (record_frag_start s name)) [].
Proof.
  intros s s' H Hp. ok_inv H. split; [exact Hp|].
  unfold record_frag_start, out_stream. sprj. cbn [wstream].
  rewrite bstream_add_frag, wstream_get, app_nil_r. reflexivity.
Qed.
Lemma end_block_opS : opS (fun s => Ok (end_block s)) [].
Proof. apply opS_pure. intros s. unfold end_block. sprj. auto. Qed.
Lemma push_colour_opS d r g b : opS (fun s => Ok (push_colour d s r g b)) [].
Proof. apply opS_pure. intros s. unfold push_colour, push_ann. destruct (d_colours d); sprj; auto. Qed.
Lemma push_bgcolour_opS d r g b : opS (fun s => Ok (push_bgcolour d s r g b)) [].
Proof. apply opS_pure. intros s. unfold push_bgcolour, push_ann. destruct (d_colours d); sprj; auto. Qed.
Lemma pop_colour_opS d : opS (fun s => Ok (pop_colour d s)) [].
Proof. apply opS_pure. intros s. unfold pop_colour, pop_ann. destruct (d_colours d); sprj; auto. Qed.
Lemma push_ws_mode_opS m : opS (fun s => Ok (push_ws_mode s m)) [].
Proof. apply opS_pure. intros s. unfold push_ws_mode. sprj. auto. Qed.
Lemma pop_ws_mode_opS : opS (fun s => Ok (pop_ws_mode s)) [].
Proof. apply opS_pure. intros s. unfold pop_ws_mode. sprj. auto. Qed.
Lemma push_preformat_opS : opS (fun s => Ok (push_preformat s)) [].
Proof. apply opS_pure. intros s. unfold push_preformat. sprj. auto. Qed.
Lemma pop_preformat_opS : opS pop_preformat [].
Proof.
  intros s s' H Hp. unfold pop_preformat in H. destruct (0 <? pre_depth s); [|discriminate].
  ok_inv H. rewrite app_nil_r. auto.
Qed.

(* ---- a nested sub-renderer is appended with prefixes ---- *)
Lemma attach_prefix_stream t p l :
  nodoc p -> filter docp (rline_string (attach_prefix t p l)) = filter docp (rline_string l).
Proof.
  intros Hp. destruct l as [tl|b bt]; cbn [attach_prefix].
  - destruct p as [|c p]; [reflexivity|]. cbn [rline_string].
    rewrite tl_string_insert_front, filter_app, Hp. reflexivity.
  - cbn [rline_string]. rewrite !TableProof.tl_string_push. cbn [elem_text tl_string tl_new tv flat_map app].
    rewrite filter_app, Hp. reflexivity.
Qed.

Lemma attach_prefixes_stream t first rest ls :
  nodoc first -> nodoc rest -> lstream (attach_prefixes t first rest ls) = lstream ls.
Proof.
  intros Hf Hr. destruct ls as [|l ls]; cbn [attach_prefixes]; [reflexivity|].
  change (l :: ls) with ([l] ++ ls).
  change (attach_prefix t first l :: map (attach_prefix t rest) ls)
    with ([attach_prefix t first l] ++ map (attach_prefix t rest) ls).
  rewrite !lstream_app, !lstream_one, (attach_prefix_stream _ _ _ Hf). f_equal.
  induction ls as [|l' ls IH]; cbn [map]; [reflexivity|].
  change (l' :: ls) with ([l'] ++ ls).
  change (attach_prefix t rest l' :: map (attach_prefix t rest) ls)
    with ([attach_prefix t rest l'] ++ map (attach_prefix t rest) ls).
  rewrite !lstream_app, !lstream_one, (attach_prefix_stream _ _ _ Hr), IH. reflexivity.
Qed.

Lemma sub_into_lines_stream s ls : sub_into_lines s = Ok ls -> pfc s -> lstream ls = out_stream s.
Proof.
  intros H Hp. unfold sub_into_lines in H. bind_inv H s1 H1. ok_inv H.
  destruct (flush_wrapping_out _ _ H1 Hp) as (_ & B & C). rewrite <- B.
  unfold out_stream. rewrite C. cbn [wstream]. rewrite app_nil_r. reflexivity.
Qed.

Lemma append_subrender_opS sub first rest :
  pfc sub -> nodoc first -> nodoc rest ->
  opS (fun s => append_subrender s sub first rest) (out_stream sub).
Proof.
  intros Hsub Hf Hr s s' H Hp. unfold append_subrender in H.
  bind_inv H s1 H1. bind_inv H ols Hols. ok_inv H.
  destruct (flush_wrapping_out _ _ H1 Hp) as (A & B & C).
  destruct (extend_lines_out (attach_prefixes (ann_stack s1) first rest ols) s1 A) as (A' & B' & C').
  split; [exact A'|].
  unfold out_stream at 1. rewrite C', C, B'. cbn [wstream]. rewrite app_nil_r.
  rewrite (attach_prefixes_stream _ _ _ _ Hf Hr), (sub_into_lines_stream _ _ Hols Hsub), <- B.
  unfold out_stream at 2. rewrite C. cbn [wstream]. rewrite app_nil_r. reflexivity.
Qed.

(* ================================================================== *)
(* 5. The length fields of a wrapping block are exact                   *)
(*    (needed for one thing only: a table cell that `sub_empty` calls   *)
(*    empty holds no character of positive width)                       *)
(* ================================================================== *)

Definition llen (b : wblock) : Prop := tlen_ (wline b) = tl_width_raw (wline b).
Definition wlens (b : wblock) : Prop := llen b /\ wordlen b = vw (wword b).
(* word and word length untouched *)
Definition wk (b b' : wblock) : Prop := wword b' = wword b /\ wordlen b' = wordlen b.

Lemma wk_refl b : wk b b.
Proof. split; reflexivity. Qed.
Lemma wk_trans a b c : wk a b -> wk b c -> wk a c.
Proof. unfold wk. intuition congruence. Qed.

Lemma llen_push b e : llen b -> llen (set_line b (tl_push (wline b) e)).
Proof. unfold llen. prj. rewrite tlen_push, raw_push. intros ->. reflexivity. Qed.
Lemma llen_push_wsl lb b n t : llen b -> llen (set_line b (tl_push_wsl lb (wline b) n t)).
Proof. unfold llen. prj. rewrite tlen_push_wsl, raw_push_wsl. intros ->. reflexivity. Qed.
Lemma llen_push_char b c t : llen b -> llen (set_line b (tl_push_char (wline b) c t)).
Proof. unfold llen. prj. rewrite tlen_push_char, raw_push_char. intros ->. reflexivity. Qed.

Lemma ffl_ll b b' : force_flush_line b = Ok b' -> llen b' /\ wk b b'.
Proof.
  unfold force_flush_line. intros H. bind_inv H l Hl. ok_inv H. split; [reflexivity|split; reflexivity].
Qed.
Lemma fl_ll b b' : flush_line b = Ok b' -> llen b -> llen b' /\ wk b b'.
Proof.
  unfold flush_line. destruct (tl_is_empty (wline b)); intros H Hl.
  - ok_inv H. split; [exact Hl|apply wk_refl].
  - apply ffl_ll, H.
Qed.

Lemma hw_piece_ll t w : forall fuel b rest consumed ll wpos b' ll',
  hw_piece fuel b t w rest consumed ll wpos = Ok (b', ll') -> llen b -> llen b'.
Proof.
  induction fuel as [|f IH]; intros b rest consumed ll wpos b' ll' H Hl; cbn [hw_piece] in H;
    [discriminate H|].
  bind_inv H rem Hrem. destruct (ll <? rem).
  - bind_inv H r Hr. destruct r as [[taken x] wpos']. cbv zeta in H.
    bind_inv H b2 H2. apply ffl_ll in H2. eapply IH; [exact H|apply H2].
  - destruct (negb consumed).
    + bind_inv H l1 Hl1. ok_inv H. exact (llen_push b (Str rest t) Hl).
    + destruct rest as [|c rest].
      * ok_inv H. exact Hl.
      * bind_inv H l1 Hl1. ok_inv H. exact (llen_push b (Str (c :: rest) t) Hl).
Qed.

Lemma hw_elems_ll : forall els b ll b', hw_elems b els ll = Ok b' -> llen b -> llen b'.
Proof.
  induction els as [|e els IH]; intros b ll b' H Hl; cbn [hw_elems] in H.
  - ok_inv H. exact Hl.
  - destruct e as [s t|n].
    + bind_inv H r Hr. destruct r as [b1 ll1]. eapply IH; [exact H|].
      eapply hw_piece_ll; eassumption.
    + eapply IH; [exact H|]. apply llen_push, Hl.
Qed.

Lemma ws_loop_ll : forall fuel b b', ws_loop fuel b = Ok b' -> llen b -> llen b'.
Proof.
  induction fuel as [|f IH]; intros b b' H Hl; cbn [ws_loop] in H.
  - destruct (wslen b =? 0); [|discriminate H]. ok_inv H. exact Hl.
  - destruct (wslen b =? 0); [ok_inv H; exact Hl|].
    destruct (wwidth b =? 0); [ok_inv H; exact Hl|].
    destruct (spacetag b) as [st|]; [|discriminate H].
    cbv zeta in H. bind_inv H b2 H2. eapply IH; [exact H|].
    change (llen b2).
    pose proof (llen_push_wsl L_space b (N.min (wslen b) (wwidth b)) st Hl) as Hl1.
    destruct (N.min (wslen b) (wwidth b) =? wwidth b).
    + apply (fl_ll _ _ H2 Hl1).
    + ok_inv H2. exact Hl1.
Qed.

Lemma tab_loop_ll : forall fuel b t tw pos one fl r,
  tab_loop fuel b t tw pos one fl = Ok r -> llen b -> llen (fst r) /\ wk b (fst r).
Proof.
  induction fuel as [|f IH]; intros b t tw pos one fl r H Hl; cbn [tab_loop] in H.
  - destruct (negb (pos mod 8 =? 0) || negb one); [discriminate H|].
    ok_inv H. split; [exact Hl|apply wk_refl].
  - destruct (negb (pos mod 8 =? 0) || negb one);
      [|ok_inv H; split; [exact Hl|apply wk_refl]].
    destruct (wwidth b =? 0); [ok_inv H; split; [exact Hl|apply wk_refl]|].
    destruct (wwidth b <=? pos).
    + bind_inv H b1 H1. destruct (fl_ll _ _ H1 Hl) as [A B].
      destruct (IH _ _ _ _ _ _ _ H A) as [C D]. split; [exact C|eapply wk_trans; eassumption].
    + destruct (IH _ _ _ _ _ _ _ H (llen_push_char b (spacel L_space) t Hl)) as [C D].
      split; [exact C|exact D].
Qed.

Lemma flush_word_wl b m b' : flush_word b m = Ok b' -> wlens b -> wlens b'.
Proof.
  unfold flush_word. destruct (word_is_empty (wword b)) eqn:Hwe; intros H [Hl Hw].
  - ok_inv H. split; [exact Hl|]. prj. rewrite (word_is_empty_vw _ Hwe). reflexivity.
  - cbv zeta in H. bind_inv H sil Hsil.
    destruct (wslen b + wordlen b <=? sil).
    + bind_inv H b1 H1. ok_inv H.
      assert (A : llen b1 /\ wword b1 = wword b).
      { destruct (0 <? wslen b).
        - destruct (spacetag b) as [st|]; [|discriminate H1]. ok_inv H1.
          split; [|reflexivity].
          exact (llen_push (set_space b (spacetag b) (wslen b)) (Str (spacesl L_space (wslen b)) st) Hl).
        - ok_inv H1. split; [exact Hl|reflexivity]. }
      destruct A as [A1 A2]. split; [|reflexivity].
      unfold llen in *. prj. rewrite tlen_fold_push, raw_fold_push, A1. reflexivity.
    + bind_inv H b1 H1. bind_inv H b2 H2. bind_inv H b4 H4. bind_inv H b6 H6. ok_inv H.
      assert (A : llen b1).
      { destruct (negb (do_wrap m)).
        - destruct (sil <=? wslen b); [ok_inv H1; exact Hl|].
          destruct (0 <? wslen b); [|ok_inv H1; exact Hl].
          destruct (spacetag b) as [st|]; [|discriminate H1]. ok_inv H1.
          exact (llen_push_wsl L_space b (wslen b) st Hl).
        - ok_inv H1. exact Hl. }
      destruct (fl_ll _ _ H2 A) as [B _].
      assert (C : llen b4).
      { eapply ws_loop_ll; [exact H4|]. destruct (is_pre m); exact B. }
      unfold flush_word_hard_wrap in H6. bind_inv H6 ll Hll. cbv zeta in H6.
      pose proof (hw_elems_word _ _ _ _ H6) as Ew. prj.
      pose proof (hw_elems_ll _ _ _ _ H6 C) as D.
      split; [exact D|]. prj. rewrite Ew. reflexivity.
Qed.

Lemma cw0_some c n : cw c = Some n -> cw0 c = n.
Proof. unfold cw0. intros ->. reflexivity. Qed.

Lemma wlens_wk b b' : wlens b -> llen b' -> wk b b' -> wlens b'.
Proof. intros [_ Hw] Hl [E1 E2]. split; [exact Hl|]. rewrite E1, E2. exact Hw. Qed.

Lemma add_char_wl m t1 t2 b u c b' u' :
  add_char m t1 t2 (b, u) c = Ok (b', u') -> wlens b -> wlens b'.
Proof.
  unfold add_char. intros H Hb. bind_inv H b0 H0.
  assert (S0 : wlens b0).
  { destruct (ws c && (0 <? wordlen b));
      [eapply flush_word_wl; eassumption | ok_inv H0; exact Hb]. }
  cbv zeta in H. clear H0 Hb b.
  destruct (ws c) eqn:Hws.
  - destruct (preserve_ws m).
    + destruct (cp c =? 10).
      { bind_inv H b1 H1. ok_inv H. destruct (ffl_ll _ _ H1) as [A B].
        exact (wlens_wk b0 _ S0 A B). }
      destruct (cp c =? 9).
      { bind_inv H r H1. cbv zeta in H. ok_inv H.
        destruct (tab_loop_ll _ _ _ _ _ _ _ _ H1 (proj1 S0)) as [A B].
        destruct (is_pre m && snd r); exact (wlens_wk b0 _ S0 A B). }
      destruct (cw c) as [cwidth|]; [|ok_inv H; exact S0].
      destruct (wwidth b0 <? tlen_ (wline b0) + wslen b0 + cwidth); [|ok_inv H; exact S0].
      bind_inv H b2 H2.
      destruct (fl_ll (set_space b0 (spacetag b0) 0) _ H2 (proj1 S0)) as [A B].
      destruct (do_wrap m); ok_inv H; exact (wlens_wk b0 _ S0 A B).
    + destruct ((0 <? tlen_ (wline b0)) && (wslen b0 =? 0)); ok_inv H; exact S0.
  - destruct (cw c) as [cwidth|] eqn:Hcw; [|ok_inv H; exact S0].
    ok_inv H. destruct S0 as [Hl Hw].
    destruct (is_pre m && (wwidth b0 <? tlen_ (wline b0) + wslen b0 + (wordlen b0 + cwidth)));
      (split; [exact Hl|]); prj; rewrite vw_push_merge, swidth_cons, swidth_nil, (cw0_some _ _ Hcw), Hw; lia.
Qed.

Lemma add_chars_wl m t1 t2 : forall s b u b' u',
  add_chars m t1 t2 (b, u) s = Ok (b', u') -> wlens b -> wlens b'.
Proof.
  induction s as [|c s IH]; intros b u b' u' H Hb; cbn [add_chars] in H.
  - ok_inv H. exact Hb.
  - bind_inv H st Hst. destruct st as [b1 u1]. eapply IH; [exact H|].
    eapply add_char_wl; eassumption.
Qed.

Lemma wb_add_text_wl b s m t1 t2 b' : wb_add_text b s m t1 t2 = Ok b' -> wlens b -> wlens b'.
Proof.
  unfold wb_add_text. intros H Hb. bind_inv H r Hr. destruct r as [b1 u1]. ok_inv H.
  eapply add_chars_wl; eassumption.
Qed.

Lemma wlens_new W pad ovf : wlens (wb_new W pad ovf).
Proof. split; reflexivity. Qed.

Lemma wlens_add_frag b n : wlens b -> wlens (wb_add_element b (Frag n)).
Proof.
  intros [Hl Hw]. split; [exact Hl|]. cbn [wb_add_element]. prj.
  rewrite vw_app, vw_cons, vw_nil. cbn [elem_text]. rewrite swidth_nil, Hw. lia.
Qed.

(* a block that wb_is_empty calls empty holds no character of positive width *)
Lemma swidth0_filter_pos (p : chr -> bool) t :
  swidth t = 0 -> Forall (fun c => 0 <? cw0 c = true) (filter p t) -> filter p t = [].
Proof.
  induction t as [|c t IH]; cbn [filter]; [reflexivity|]. rewrite swidth_cons. intros Hs HF.
  destruct (p c).
  - inversion HF as [|? ? Hc _]; subst. lia.
  - apply IH; [lia|exact HF].
Qed.

Lemma wb_is_empty_stream w :
  wb_is_empty w = true -> wlens w -> Forall (fun c => 0 <? cw0 c = true) (bstream w) ->
  bstream w = [].
Proof.
  unfold wb_is_empty, wb_text_len. intros He [Hl Hw] HF.
  assert (E1 : wtext w = []) by (destruct (wtext w); [reflexivity|cbn [length] in He; lia]).
  unfold bstream in *. rewrite E1 in *. cbn [flat_map app] in *.
  apply swidth0_filter_pos; [|exact HF].
  rewrite swidth_app, <- TableProof.tl_width_raw_string.
  change (flat_map elem_text (wword w)) with (TableProof.sv (wword w)).
  rewrite <- TableProof.vw_sv. change (TableProof.vw (wword w)) with (vw (wword w)).
  unfold llen in Hl. cbn [length] in He. lia.
Qed.

(* ---- the open block of a sub-renderer has exact length fields ---- *)
Definition wl (s : subr) : Prop := forall w, wrapping s = Some w -> wlens w.
Definition opL (f : subr -> res subr) : Prop := forall s s', f s = Ok s' -> wl s -> wl s'.

Lemma wl_none s : wrapping s = None -> wl s.
Proof. intros E w H. rewrite E in H. discriminate. Qed.

Lemma opL_none f : (forall s s', f s = Ok s' -> wrapping s' = None) -> opL f.
Proof. intros Hf s s' H _. apply wl_none. eapply Hf, H. Qed.
Lemma opL_pure (g : subr -> subr) : (forall s, wrapping (g s) = wrapping s) -> opL (fun s => Ok (g s)).
Proof. intros Hg s s' H Hw. ok_inv H. unfold wl. rewrite Hg. exact Hw. Qed.
Lemma opL_comp f g : opL f -> opL g -> opL (fun s => do s1 <- f s; g s1).
Proof. intros Hf Hg s s' H Hw. bind_inv H s1 H1. eapply Hg; [exact H|]. eapply Hf; eassumption. Qed.

Lemma add_empty_line_none s s' : add_empty_line s = Ok s' -> wrapping s' = None.
Proof.
  intros H. unfold add_empty_line in H. bind_inv H s1 H1. ok_inv H. sprj.
  destruct (add_line_same s1 (RText tl_new)) as (_ & _ & c). rewrite c.
  apply (flush_wrapping_none _ _ H1).
Qed.
Lemma add_horizontal_line_none b t s s' : add_horizontal_line s b t = Ok s' -> wrapping s' = None.
Proof.
  intros H. unfold add_horizontal_line in H. bind_inv H s1 H1. ok_inv H.
  destruct (add_line_same s1 (RLine b t)) as (_ & _ & c). rewrite c.
  apply (flush_wrapping_none _ _ H1).
Qed.
Lemma add_horizontal_border_width_none w s s' :
  add_horizontal_border_width s w = Ok s' -> wrapping s' = None.
Proof.
  intros H. unfold add_horizontal_border_width in H. bind_inv H s1 H1. ok_inv H.
  destruct (add_line_same s1 (RLine (border_new w) (ann_stack s1))) as (_ & _ & c). rewrite c.
  apply (flush_wrapping_none _ _ H1).
Qed.
Lemma append_subrender_none sub first rest s s' :
  append_subrender s sub first rest = Ok s' -> wrapping s' = None.
Proof.
  intros H. unfold append_subrender in H. bind_inv H s1 H1. bind_inv H ols Hols. ok_inv H.
  rewrite extend_lines_wrapping. apply (flush_wrapping_none _ _ H1).
Qed.

Lemma flush_wrapping_opL : opL flush_wrapping.
Proof. apply opL_none, flush_wrapping_none. Qed.
Lemma add_empty_line_opL : opL add_empty_line.
Proof. apply opL_none, add_empty_line_none. Qed.
Lemma start_block_opL : opL start_block.
Proof. apply opL_none, start_block_none. Qed.
Lemma new_line_hard_opL : opL new_line_hard.
Proof.
  intros s s' H Hw. unfold new_line_hard in H. destruct (wrapping s) as [w|].
  - destruct ((wordlen w =? 0) && (tlen_ (wline w) =? 0)).
    + apply wl_none, (add_empty_line_none _ _ H).
    + apply wl_none, (flush_wrapping_none _ _ H).
  - apply wl_none, (add_empty_line_none _ _ H).
Qed.
Lemma add_horizontal_border_width_opL w : opL (fun s => add_horizontal_border_width s w).
Proof. apply opL_none. intros s s'. apply add_horizontal_border_width_none. Qed.
Lemma append_subrender_opL sub first rest : opL (fun s => append_subrender s sub first rest).
Proof. apply opL_none. intros s s'. apply append_subrender_none. Qed.

Lemma wlens_get s : wl s -> wlens (get_wrapping s).
Proof.
  intros Hw. unfold get_wrapping. destruct (wrapping s) as [w|] eqn:E; [apply Hw, E|apply wlens_new].
Qed.

Lemma add_inline_text_opL d t : opL (fun s => add_inline_text d s t).
Proof.
  intros s s' H Hw. unfold add_inline_text in H.
  destruct (negb (preserve_ws (ws_mode s)) && at_block_end s && all_ws t).
  { ok_inv H. exact Hw. }
  bind_inv H s1 H1.
  assert (B : wl s1).
  { destruct (at_block_end s).
    - eapply start_block_opL; eassumption.
    - ok_inv H1. exact Hw. }
  bind_inv H w1 Hw1. ok_inv H. intros w E. sprj. injection E as <-.
  eapply wb_add_text_wl; [exact Hw1|]. apply wlens_get, B.
Qed.

Lemma push_ann_opL a : opL (fun s => Ok (push_ann s a)).
Proof. apply opL_pure. reflexivity. Qed.
Lemma pop_ann_opL : opL (fun s => Ok (pop_ann s)).
Proof. apply opL_pure. reflexivity. Qed.
Lemma start_deco_opL d p : opL (fun s => start_deco d s p).
Proof. unfold start_deco. exact (opL_comp _ _ (push_ann_opL (snd p)) (add_inline_text_opL d (fst p))). Qed.
Lemma end_deco_opL d e : opL (fun s => end_deco d s e).
Proof. unfold end_deco. exact (opL_comp _ _ (add_inline_text_opL d e) pop_ann_opL). Qed.
Lemma start_strikeout_opL d : opL (start_strikeout d).
Proof.
  unfold start_strikeout. apply opL_comp; [apply (start_deco_opL d)|].
  intros s s' H Hw. ok_inv H. destruct (o_strike (sopts s)); exact Hw.
Qed.
Lemma end_strikeout_opL d : opL (end_strikeout d).
Proof.
  unfold end_strikeout. apply opL_comp; [|apply (end_deco_opL d)].
  intros s s' H Hw. destruct (o_strike (sopts s)).
  - destruct (filter_depth s); [discriminate|]. ok_inv H. exact Hw.
  - ok_inv H. exact Hw.
Qed.
Lemma add_image_opL d src title : opL (fun s => add_image d s src title).
Proof.
  unfold add_image.
  exact (opL_comp _ _ (opL_comp _ _ (push_ann_opL _) (add_inline_text_opL d _)) pop_ann_opL).
Qed.
Lemma record_frag_start_opL name : opL (fun s => Ok (record_frag_start s name)).
Proof.
  intros s s' H Hw. ok_inv H. intros w E. unfold record_frag_start in E. sprj. injection E as <-.
  apply wlens_add_frag, wlens_get, Hw.
Qed.
Lemma end_block_opL : opL (fun s => Ok (end_block s)).
Proof. apply opL_pure. reflexivity. Qed.
Lemma push_colour_opL d r g b : opL (fun s => Ok (push_colour d s r g b)).
Proof. apply opL_pure. intros s. unfold push_colour. destruct (d_colours d); reflexivity. Qed.
Lemma push_bgcolour_opL d r g b : opL (fun s => Ok (push_bgcolour d s r g b)).
Proof. apply opL_pure. intros s. unfold push_bgcolour. destruct (d_colours d); reflexivity. Qed.
Lemma pop_colour_opL d : opL (fun s => Ok (pop_colour d s)).
Proof. apply opL_pure. intros s. unfold pop_colour. destruct (d_colours d); reflexivity. Qed.
Lemma push_ws_mode_opL m : opL (fun s => Ok (push_ws_mode s m)).
Proof. apply opL_pure. reflexivity. Qed.
Lemma pop_ws_mode_opL : opL (fun s => Ok (pop_ws_mode s)).
Proof. apply opL_pure. reflexivity. Qed.
Lemma push_preformat_opL : opL (fun s => Ok (push_preformat s)).
Proof. apply opL_pure. reflexivity. Qed.
Lemma pop_preformat_opL : opL pop_preformat.
Proof.
  intros s s' H Hw. unfold pop_preformat in H. destruct (0 <? pre_depth s); [|discriminate].
  ok_inv H. exact Hw.
Qed.

(* ---- the bundle used at the render layer ---- *)
Definition Iv (s : subr) : Prop := pfc s /\ wl s.
Definition opC (f : subr -> res subr) (t : text) : Prop := sames f /\ opS f t /\ opL f.

Lemma Iv_new s w : Iv (new_sub_renderer s w).
Proof. split; [reflexivity|apply wl_none; reflexivity]. Qed.
Lemma out_new s w : out_stream (new_sub_renderer s w) = [].
Proof. reflexivity. Qed.
Lemma Iv_sub_new w o : Iv (sub_new w o).
Proof. split; [reflexivity|apply wl_none; reflexivity]. Qed.

Lemma flush_wrapping_opC : opC flush_wrapping [].
Proof. split; [apply flush_wrapping_sames|split; [apply flush_wrapping_opS|apply flush_wrapping_opL]]. Qed.
Lemma start_block_opC : opC start_block [].
Proof. split; [apply start_block_sames|split; [apply start_block_opS|apply start_block_opL]]. Qed.
Lemma new_line_hard_opC : opC new_line_hard [].
Proof. split; [apply new_line_hard_sames|split; [apply new_line_hard_opS|apply new_line_hard_opL]]. Qed.
Lemma add_horizontal_border_width_opC w : opC (fun s => add_horizontal_border_width s w) [].
Proof.
  split; [apply add_horizontal_border_width_sames|
          split; [apply add_horizontal_border_width_opS|apply add_horizontal_border_width_opL]].
Qed.
Lemma add_inline_text_opC d t : opC (fun s => add_inline_text d s t) (doc_chars t).
Proof.
  split; [apply add_inline_text_sames|split; [apply add_inline_text_opS|apply add_inline_text_opL]].
Qed.
Lemma start_deco_opC d p : opC (fun s => start_deco d s p) (doc_chars (fst p)).
Proof. split; [apply start_deco_sames|split; [apply start_deco_opS|apply start_deco_opL]]. Qed.
Lemma end_deco_opC d e : opC (fun s => end_deco d s e) (doc_chars e).
Proof. split; [apply end_deco_sames|split; [apply end_deco_opS|apply end_deco_opL]]. Qed.
Lemma start_strikeout_opC d : opC (start_strikeout d) (doc_chars (fst (d_strike_start d))).
Proof.
  split; [apply start_strikeout_sames|split; [apply start_strikeout_opS|apply start_strikeout_opL]].
Qed.
Lemma end_strikeout_opC d : opC (end_strikeout d) (doc_chars (d_strike_end d)).
Proof.
  split; [apply end_strikeout_sames|split; [apply end_strikeout_opS|apply end_strikeout_opL]].
Qed.
Lemma add_image_opC d src title :
  opC (fun s => add_image d s src title) (doc_chars (fst (d_image d src title))).
Proof. split; [apply add_image_sames|split; [apply add_image_opS|apply add_image_opL]]. Qed.
Lemma record_frag_start_opC name : opC (fun s => Ok (record_frag_start s name)) [].
Proof.
  split; [apply record_frag_start_sames|
          split; [apply record_frag_start_opS|apply record_frag_start_opL]].
Qed.
Lemma end_block_opC : opC (fun s => Ok (end_block s)) [].
Proof. split; [apply end_block_sames|split; [apply end_block_opS|apply end_block_opL]]. Qed.
Lemma push_colour_opC d r g b : opC (fun s => Ok (push_colour d s r g b)) [].
Proof. split; [apply push_colour_sames|split; [apply push_colour_opS|apply push_colour_opL]]. Qed.
Lemma push_bgcolour_opC d r g b : opC (fun s => Ok (push_bgcolour d s r g b)) [].
Proof. split; [apply push_bgcolour_sames|split; [apply push_bgcolour_opS|apply push_bgcolour_opL]]. Qed.
Lemma pop_colour_opC d : opC (fun s => Ok (pop_colour d s)) [].
Proof. split; [apply pop_colour_sames|split; [apply pop_colour_opS|apply pop_colour_opL]]. Qed.
Lemma push_ws_mode_opC m : opC (fun s => Ok (push_ws_mode s m)) [].
Proof. split; [apply push_ws_mode_sames|split; [apply push_ws_mode_opS|apply push_ws_mode_opL]]. Qed.
Lemma pop_ws_mode_opC : opC (fun s => Ok (pop_ws_mode s)) [].
Proof. split; [apply pop_ws_mode_sames|split; [apply pop_ws_mode_opS|apply pop_ws_mode_opL]]. Qed.
Lemma push_preformat_opC : opC (fun s => Ok (push_preformat s)) [].
Proof. split; [apply push_preformat_sames|split; [apply push_preformat_opS|apply push_preformat_opL]]. Qed.
Lemma pop_preformat_opC : opC pop_preformat [].
Proof. split; [apply pop_preformat_sames|split; [apply pop_preformat_opS|apply pop_preformat_opL]]. Qed.
Lemma append_subrender_opC sub first rest :
  pfc sub -> nodoc first -> nodoc rest ->
  opC (fun s => append_subrender s sub first rest) (out_stream sub).
Proof.
  intros A B C.
  split; [apply append_subrender_sames|
          split; [apply append_subrender_opS; assumption|apply append_subrender_opL]].
Qed.

(* ---- table rows: vertical layout (order kept) ---- *)
Lemma vert_cols_out : forall cols s first s',
  Forall pfc cols -> vert_cols s cols first = Ok s' -> pfc s ->
  pfc s' /\ out_stream s' = out_stream s ++ flat_map out_stream cols.
Proof.
  induction cols as [|c cols IH]; intros s first s' HF H Hp; cbn [vert_cols] in H.
  - ok_inv H. cbn [flat_map]. rewrite app_nil_r. auto.
  - inversion HF as [|? ? Hc HF']; subst. bind_inv H s1 H1. bind_inv H s2 H2.
    assert (A : pfc s1 /\ out_stream s1 = out_stream s ++ []).
    { destruct (negb first && o_borders (sopts s)).
      - eapply add_horizontal_line_opS; eassumption.
      - ok_inv H1. rewrite app_nil_r. auto. }
    destruct A as [A1 A2]. rewrite app_nil_r in A2.
    destruct (append_subrender_opS c [] [] Hc nodoc_nil nodoc_nil _ _ H2 A1) as [B1 B2].
    destruct (IH _ _ _ HF' H B1) as [C1 C2]. split; [exact C1|].
    cbn [flat_map]. rewrite C2, B2, A2, <- app_assoc. reflexivity.
Qed.

Lemma vert_cols_wl : forall cols s first s', vert_cols s cols first = Ok s' -> wl s -> wl s'.
Proof.
  induction cols as [|c cols IH]; intros s first s' H Hw; cbn [vert_cols] in H.
  - ok_inv H. exact Hw.
  - bind_inv H s1 H1. bind_inv H s2 H2. eapply IH; [exact H|].
    apply wl_none. eapply append_subrender_none, H2.
Qed.

Lemma append_vert_row_opC cols :
  Forall pfc cols -> opC (fun s => append_vert_row s cols) (flat_map out_stream cols).
Proof.
  intros HF. split; [apply append_vert_row_sames|split].
  - intros s s' H Hp. unfold append_vert_row in H. bind_inv H s1 H1. bind_inv H s2 H2.
    destruct (flush_wrapping_opS _ _ H1 Hp) as [A1 A2]. rewrite app_nil_r in A2.
    destruct (vert_cols_out _ _ _ _ HF H2 A1) as [B1 B2].
    assert (C : pfc s' /\ out_stream s' = out_stream s2 ++ []).
    { destruct (o_borders (sopts s2)).
      - unfold add_horizontal_border in H. eapply add_horizontal_border_width_opS; eassumption.
      - ok_inv H. rewrite app_nil_r. auto. }
    destruct C as [C1 C2]. rewrite app_nil_r in C2. split; [exact C1|]. congruence.
  - intros s s' H Hw. unfold append_vert_row in H. bind_inv H s1 H1. bind_inv H s2 H2.
    pose proof (flush_wrapping_opL _ _ H1 Hw) as A.
    pose proof (vert_cols_wl _ _ _ _ H2 A) as B.
    destruct (o_borders (sopts s2)).
    + unfold add_horizontal_border in H. eapply add_horizontal_border_width_opL; eassumption.
    + ok_inv H. exact B.
Qed.

(* ---- table rows: side by side (the lines of the cells are interleaved) ---- *)

(* the visible document characters of line i of a cell (nothing below its last line) *)
Definition lineat (i : nat) (ls : list rline) : text :=
  match nth_opt ls i with Some r => filter docp (rline_string r) | None => [] end.

Definition pads_nodoc (pads : list (option text)) : Prop :=
  Forall (fun p => match p with Some t => nodoc t | None => True end) pads.

Lemma pads_nodoc_hd pads : pads_nodoc pads ->
  match (match pads with p :: _ => p | [] => None end) with Some t => nodoc t | None => True end.
Proof. intros H. destruct pads as [|p pads]; [exact I|]. inversion H; assumption. Qed.
Lemma pads_nodoc_tl pads : pads_nodoc pads -> pads_nodoc (tl pads).
Proof. intros H. destruct pads as [|p pads]; [exact H|]. inversion H; assumption. Qed.

Lemma nodoc_spacesl lb n : nodoc (spacesl lb n).
Proof. unfold spacesl. apply nodoc_repeat. reflexivity. Qed.

Lemma row_text_stream draw i : forall sets pads, pads_nodoc pads ->
  filter docp (TableProof.row_text draw i sets pads) = flat_map (fun p => lineat i (snd p)) sets.
Proof.
  induction sets as [|[w ls] sets IH]; intros pads Hp; cbn [TableProof.row_text flat_map];
    [reflexivity|].
  rewrite filter_app. f_equal.
  - unfold TableProof.cell_text, lineat. cbn [snd]. destruct (nth_opt ls i) as [r|]; [reflexivity|].
    pose proof (pads_nodoc_hd _ Hp) as H.
    destruct (match pads with p :: _ => p | [] => None end) as [t|]; [exact H|apply nodoc_spacesl].
  - destruct sets as [|s' sets']; [reflexivity|].
    change (TableProof.bar draw :: TableProof.row_text draw i (s' :: sets') (tl pads))
      with ([TableProof.bar draw] ++ TableProof.row_text draw i (s' :: sets') (tl pads)).
    rewrite filter_app, (IH (tl pads) (pads_nodoc_tl _ Hp)).
    destruct draw; reflexivity.
Qed.

Fixpoint rows_stream (n i : nat) (sets : list (N * list rline)) : text :=
  match n with
  | O => []
  | S n' => flat_map (fun p => lineat i (snd p)) sets ++ rows_stream n' (S i) sets
  end.
Fixpoint col_stream (n i : nat) (ls : list rline) : text :=
  match n with
  | O => []
  | S n' => lineat i ls ++ col_stream n' (S i) ls
  end.

Lemma row_lines_out t draw sets pads : pads_nodoc pads -> forall n i s,
  pfc s -> wrapping s = None ->
  pfc (row_lines t draw n i sets pads s) /\
  out_stream (row_lines t draw n i sets pads s) = out_stream s ++ rows_stream n i sets /\
  wrapping (row_lines t draw n i sets pads s) = None.
Proof.
  intros Hpads. induction n as [|n IH]; intros i s Hp Hw; cbn [row_lines rows_stream].
  - rewrite app_nil_r. auto.
  - destruct (add_line_opS_none s (RText (row_line t draw i sets pads tl_new)) Hp Hw) as (A & B & C).
    destruct (IH (S i) _ A C) as (A' & B' & C'). split; [exact A'|]. split; [|exact C'].
    rewrite B', B. cbn [rline_string]. rewrite TableProof.row_line_string.
    cbn [tl_string tl_new tv flat_map app]. rewrite (row_text_stream _ _ _ _ Hpads), app_assoc.
    reflexivity.
Qed.

Lemma perm_flat_map_app {A} (f g : A -> text) l :
  Permutation (flat_map f l ++ flat_map g l) (flat_map (fun x => f x ++ g x) l).
Proof.
  induction l as [|a l IH]; cbn [flat_map app]; [apply Permutation_refl|].
  rewrite <- !app_assoc. apply Permutation_app_head.
  eapply Permutation_trans; [apply Permutation_app_swap_app|].
  apply Permutation_app_head. exact IH.
Qed.

Lemma rows_cols_perm sets : forall n i,
  Permutation (rows_stream n i sets) (flat_map (fun p => col_stream n i (snd p)) sets).
Proof.
  induction n as [|n IH]; intros i; cbn [rows_stream col_stream].
  - induction sets as [|a l IHl]; cbn [flat_map app]; [constructor|exact IHl].
  - eapply Permutation_trans; [apply Permutation_app_head, IH|].
    apply (perm_flat_map_app (fun p => lineat i (snd p)) (fun p => col_stream n (S i) (snd p))).
Qed.

Lemma lineat_skipn : forall ls i, lineat i ls ++ lstream (skipn (S i) ls) = lstream (skipn i ls).
Proof.
  induction ls as [|r ls IH]; intros i.
  - unfold lineat. destruct i; reflexivity.
  - destruct i as [|i].
    + unfold lineat. cbn [nth_opt skipn]. change (r :: ls) with ([r] ++ ls).
      rewrite lstream_app, lstream_one. reflexivity.
    + unfold lineat in *. cbn [nth_opt]. change (skipn (S (S i)) (r :: ls)) with (skipn (S i) ls).
      change (skipn (S i) (r :: ls)) with (skipn i ls). apply IH.
Qed.

Lemma col_stream_skipn ls : forall n i,
  (length ls <= i + n)%nat -> col_stream n i ls = lstream (skipn i ls).
Proof.
  induction n as [|n IH]; intros i Hl; cbn [col_stream].
  - rewrite skipn_all2 by lia. reflexivity.
  - rewrite IH by lia. apply lineat_skipn.
Qed.

Lemma fold_max_ge l : forall a, (a <= fold_left Nat.max l a)%nat /\
                                forall x, In x l -> (x <= fold_left Nat.max l a)%nat.
Proof.
  induction l as [|y l IH]; intros a; cbn [fold_left].
  - split; [lia|intros x []].
  - destruct (IH (Nat.max a y)) as [A B]. split; [lia|].
    intros x [->|Hx]; [lia|apply B, Hx].
Qed.

Definition sets_stream (sets : list (N * list rline)) : text :=
  flat_map (fun p => lstream (snd p)) sets.

Lemma flat_map_ext_In {A B} (f g : A -> list B) l :
  (forall a, In a l -> f a = g a) -> flat_map f l = flat_map g l.
Proof.
  induction l as [|a l IH]; intros H; cbn [flat_map]; [reflexivity|].
  rewrite (H a (or_introl eq_refl)), IH; [reflexivity|]. intros b Hb. apply H. right. exact Hb.
Qed.

Lemma rows_stream_perm sets :
  Permutation (rows_stream (fold_left Nat.max (map (fun p => length (snd p)) sets) O) O sets)
              (sets_stream sets).
Proof.
  eapply Permutation_trans; [apply rows_cols_perm|]. unfold sets_stream.
  erewrite flat_map_ext_In; [apply Permutation_refl|].
  intros p Hp. cbn beta. rewrite col_stream_skipn; [reflexivity|].
  destruct (fold_max_ge (map (fun p => length (snd p)) sets) O) as [_ B].
  specialize (B (length (snd p))). cbn [Nat.add]. apply B.
  apply in_map_iff. exists p. auto.
Qed.

(* padding, collapsing the borders: no visible document character involved *)
Lemma tl_pad_to_stream l w t l' :
  tl_pad_to l w t = Ok l' -> filter docp (tl_string l') = filter docp (tl_string l).
Proof.
  intros H. pose proof (pline_pad_to docp docp_spacel _ _ _ _ H) as E.
  rewrite <- !(projr_pline docp). rewrite E. reflexivity.
Qed.

Lemma pad_cell_lines_stream w t : forall ls pls,
  pad_cell_lines w t ls = Ok pls -> lstream pls = lstream ls.
Proof.
  induction ls as [|l ls IH]; intros pls H; cbn [pad_cell_lines] in H.
  - ok_inv H. reflexivity.
  - destruct l as [tl|b bt].
    + bind_inv H tl' Htl. bind_inv H r Hr. ok_inv H.
      change (RText tl' :: r) with ([RText tl'] ++ r). change (RText tl :: ls) with ([RText tl] ++ ls).
      rewrite !lstream_app, !lstream_one, (IH _ Hr). cbn [rline_string].
      rewrite (tl_pad_to_stream _ _ _ _ Htl). reflexivity.
    + bind_inv H r Hr. ok_inv H.
      change (RLine (stretch_to b w) bt :: r) with ([RLine (stretch_to b w) bt] ++ r).
      change (RLine b bt :: ls) with ([RLine b bt] ++ ls).
      rewrite !lstream_app, !lstream_one, (IH _ Hr). cbn [rline_string].
      rewrite !nodoc_border. reflexivity.
Qed.

Lemma col_line_sets_stream t : forall cols sets,
  Forall pfc cols -> col_line_sets t cols = Ok sets ->
  sets_stream sets = flat_map out_stream cols.
Proof.
  induction cols as [|c cols IH]; intros sets HF H; cbn [col_line_sets] in H.
  - ok_inv H. reflexivity.
  - inversion HF as [|? ? Hc HF']; subst.
    bind_inv H ls Hls. bind_inv H pls Hpls. bind_inv H r Hr. ok_inv H.
    unfold sets_stream in *. cbn [flat_map snd]. rewrite (IH _ HF' Hr).
    rewrite (pad_cell_lines_stream _ _ _ _ Hpls), (sub_into_lines_stream _ _ Hls Hc). reflexivity.
Qed.

Lemma collapse_top_stream : forall sets prev pos r,
  collapse_top sets prev pos = Ok r -> sets_stream (snd r) = sets_stream sets.
Proof.
  induction sets as [|[w sub] sets IH]; intros prev pos r H; cbn [collapse_top] in H.
  - ok_inv H. reflexivity.
  - destruct sub as [|[tl|line lt] sub'].
    + bind_inv H r' Hr'. ok_inv H. unfold sets_stream in *. cbn [snd flat_map].
      rewrite (IH _ _ _ Hr'). reflexivity.
    + bind_inv H r' Hr'. ok_inv H. unfold sets_stream in *. cbn [snd flat_map].
      rewrite (IH _ _ _ Hr'). reflexivity.
    + destruct prev as [pb|]; [|discriminate]. bind_inv H r' Hr'. ok_inv H.
      unfold sets_stream in *. cbn [snd flat_map]. rewrite (IH _ _ _ Hr').
      change (RLine line lt :: sub') with ([RLine line lt] ++ sub').
      rewrite lstream_app, lstream_one. cbn [rline_string]. rewrite nodoc_border. reflexivity.
Qed.

Lemma olast_split {A} (l : list A) x : olast l = Some x -> l = removelast l ++ [x].
Proof.
  unfold olast. intros H. destruct (rev l) as [|y r] eqn:E; [discriminate|]. injection H as ->.
  assert (El : l = rev r ++ [x]).
  { rewrite <- (rev_involutive l), E. reflexivity. }
  rewrite El at 2. rewrite removelast_last. exact El.
Qed.

Lemma nodoc_vlines b : nodoc (to_vertical_lines_above b).
Proof.
  apply nodoc_Forall. unfold to_vertical_lines_above. apply Forall_forall. intros c Hc.
  apply in_map_iff in Hc. destruct Hc as (x & <- & _). destruct x; reflexivity.
Qed.

Lemma collapse_bottom_stream : forall sets next pos n' s' p',
  collapse_bottom sets next pos = (n', s', p') ->
  sets_stream s' = sets_stream sets /\ pads_nodoc p'.
Proof.
  induction sets as [|[w sub] sets IH]; intros next pos n' s' p' H; cbn [collapse_bottom] in H.
  - injection H as <- <- <-. split; [reflexivity|constructor].
  - destruct (olast sub) as [[tl|line lt]|] eqn:El.
    + destruct (collapse_bottom sets next (pos + w + 1)) as [[n2 s2] p2] eqn:E.
      injection H as <- <- <-. destruct (IH _ _ _ _ _ E) as [A B].
      unfold sets_stream in *. cbn [flat_map snd]. rewrite A. split; [reflexivity|].
      constructor; [exact I|exact B].
    + destruct (collapse_bottom sets (merge_from_above next line pos) (pos + w + 1))
        as [[n2 s2] p2] eqn:E.
      injection H as <- <- <-. destruct (IH _ _ _ _ _ E) as [A B].
      unfold sets_stream in *. cbn [flat_map snd]. rewrite A. split.
      * f_equal. rewrite (olast_split _ _ El) at 2. rewrite lstream_app, lstream_one.
        cbn [rline_string]. rewrite nodoc_border, app_nil_r. reflexivity.
      * constructor; [apply nodoc_vlines|exact B].
    + destruct (collapse_bottom sets next (pos + w + 1)) as [[n2 s2] p2] eqn:E.
      injection H as <- <- <-. destruct (IH _ _ _ _ _ E) as [A B].
      unfold sets_stream in *. cbn [flat_map snd]. rewrite A. split; [reflexivity|].
      constructor; [exact I|exact B].
Qed.

Lemma pads_nodoc_none {A} (l : list A) : pads_nodoc (map (fun _ => None) l).
Proof. induction l; constructor; [exact I|assumption]. Qed.

Lemma append_columns_out cols collapse s s' :
  Forall pfc cols -> append_columns_with_borders s cols collapse = Ok s' -> pfc s ->
  pfc s' /\ Permutation (out_stream s') (out_stream s ++ flat_map out_stream cols) /\
  wrapping s' = None.
Proof.
  intros HF H Hp. unfold append_columns_with_borders in H.
  bind_inv H s1 H1. bind_inv H sets Hsets. bind_inv H chk Hchk.
  destruct (flush_wrapping_out _ _ H1 Hp) as (A1 & A2 & A3). clear Hchk.
  pose proof (col_line_sets_stream _ _ _ HF Hsets) as Esets.
  match type of H with
  | (let '(p, n) := ?e in _) = _ => destruct e as [prev1 next1]
  end.
  bind_inv H r Hr. destruct r as [[[prev3 next3] sets4] pads].
  assert (K : sets_stream sets4 = sets_stream sets /\ pads_nodoc pads).
  { destruct collapse.
    - bind_inv Hr ct Hct. destruct ct as [prev2 sets2].
      destruct (collapse_bottom sets2 next1 0) as [[next2 sets3] pads3] eqn:Ecb.
      ok_inv Hr. destruct (collapse_bottom_stream _ _ _ _ _ _ Ecb) as [B1 B2].
      pose proof (collapse_top_stream _ _ _ _ Hct) as B3. cbn [snd] in B3.
      split; [congruence|exact B2].
    - ok_inv Hr. split; [reflexivity|apply pads_nodoc_none]. }
  destruct K as [K1 K2].
  ok_inv H.
  match goal with
  | |- context [set_lines s1 ?l (pending_frags s1)] => set (lines1 := l)
  end.
  assert (El : lstream lines1 = lstream (slines s1)).
  { unfold lines1. destruct (olast (slines s1)) as [[tl|pb0 pt]|] eqn:Eo; try reflexivity.
    destruct prev3 as [pb|]; [|reflexivity].
    unfold replace_last. rewrite (olast_split _ _ Eo) at 2.
    rewrite !lstream_app, !lstream_one. cbn [rline_string]. rewrite !nodoc_border. reflexivity. }
  set (s2 := set_lines s1 lines1 (pending_frags s1)).
  assert (Hp2 : pfc s2) by exact A1.
  assert (Hw2 : wrapping s2 = None) by exact A3.
  destruct (row_lines_out (ann_stack s1) (o_borders (sopts s2)) sets4 pads K2
              (fold_left Nat.max (map (fun p => length (snd p)) sets4) O) O s2 Hp2 Hw2)
    as (C1 & C2 & C3).
  assert (E2 : out_stream s2 = out_stream s).
  { rewrite <- A2. unfold out_stream, s2. sprj. rewrite El. reflexivity. }
  assert (Pm : Permutation
                 (out_stream (row_lines (ann_stack s1) (o_borders (sopts s2))
                    (fold_left Nat.max (map (fun p => length (snd p)) sets4) O) O sets4 pads s2))
                 (out_stream s ++ flat_map out_stream cols)).
  { rewrite C2, E2. apply Permutation_app_head. rewrite <- Esets, <- K1. apply rows_stream_perm. }
  change (sopts s2) with (sopts s1) in *.
  destruct (o_borders (sopts s1)).
  - destruct (add_line_opS_none _ (RLine next3 (ann_stack s1)) C1 C3) as (D1 & D2 & D3).
    split; [exact D1|]. split; [|exact D3]. rewrite D2. cbn [rline_string].
    rewrite nodoc_border, app_nil_r. exact Pm.
  - split; [exact C1|]. split; [exact Pm|exact C3].
Qed.

(* a cell that sub_empty calls empty holds no visible document character of positive width *)
Lemma sub_empty_stream c :
  sub_empty c = true -> wl c -> Forall (fun x => 0 <? cw0 x = true) (out_stream c) ->
  out_stream c = [].
Proof.
  unfold sub_empty, out_stream. destruct (slines c) as [|l ls]; [|discriminate].
  cbn [lstream flat_map filter app]. destruct (wrapping c) as [w|] eqn:Ew; [|reflexivity].
  cbn [wstream]. intros He Hw HF. apply wb_is_empty_stream; [exact He|apply Hw; exact Ew|exact HF].
Qed.

(* ================================================================== *)
(* 6. The stream of a render tree                                       *)
(* ================================================================== *)

(* the conditions on the decorator.  Prefixes (heading, quote, list markers) are repeated on
   every line of the block, so they must not contain visible document-labelled characters
   (they are made by the renderer: labels < 16); this is all the main theorem needs. *)
Record prefix_made (d : deco) : Prop := {
  pm_header : forall l, nodoc (d_header_prefix d l);
  pm_quote : nodoc (d_quote_prefix d);
  pm_ul : nodoc (d_ul_prefix d);
  pm_ol : forall i, nodoc (d_ol_prefix d i) }.

(* ... and a decorator all of whose affixes are renderer-made, and whose image text shows
   exactly the document characters of the alt text *)
Record deco_made (d : deco) : Prop := {
  dm_prefix : prefix_made d;
  dm_link_start : forall h, doc_chars (fst (d_link_start d h)) = [];
  dm_link_end : doc_chars (d_link_end d) = [];
  dm_em_start : doc_chars (fst (d_em_start d)) = [];
  dm_em_end : doc_chars (d_em_end d) = [];
  dm_strong_start : doc_chars (fst (d_strong_start d)) = [];
  dm_strong_end : doc_chars (d_strong_end d) = [];
  dm_strike_start : doc_chars (fst (d_strike_start d)) = [];
  dm_strike_end : doc_chars (d_strike_end d) = [];
  dm_code_start : doc_chars (fst (d_code_start d)) = [];
  dm_code_end : doc_chars (d_code_end d) = [];
  dm_sup_start : doc_chars (fst (d_sup_start d)) = [];
  dm_sup_end : doc_chars (d_sup_end d) = [];
  dm_image : forall src title, doc_chars (fst (d_image d src title)) = doc_chars title }.

Definition on_okT {A} (r : res A) (k : A -> text) (dflt : text) : text :=
  match r with Ok a => k a | _ => dflt end.

(* the cells of one row that get a width, at that width *)
Fixpoint cells_ts (f : rnode -> N -> text) (cells : list rcell) (wsl : list (option N)) : text :=
  match cells, wsl with
  | RCell _ content _ :: cells', Some cw_ :: wsl' =>
    flat_map (fun c => f c cw_) content ++ cells_ts f cells' wsl'
  | _ :: cells', None :: wsl' => cells_ts f cells' wsl'
  | _, _ => []
  end.

Section Stream.
  Variable d : deco.
  Variable mw : N.
  Variable o : ropts.

  (* tree_stream n w: the visible document characters that render_node hands to
     add_inline_text when it renders n into a sub-renderer of width w with options o, in
     document (pre-order) order.  It mirrors render_node:
       - text leaves and image texts (as decorated by d_image) contribute doc_chars;
       - the decorator's affixes are included (they contribute nothing when the decorator
         is deco_made; the theorem does not need that);
       - <sup> with a single all-digit text child: the digits are replaced by superscript
         digits (sup_char keeps the label, sets width 1 and non-whitespace);
       - a table cell that gets no width (cell_widths answers None) is skipped with all its
         content, exactly like Footnotes.link_targets (widths mirrored the same way). *)
  Fixpoint tree_stream (n : rnode) (w : N) {struct n} : text :=
    let kids (cs : list rnode) (w' : N) : text := flat_map (fun c => tree_stream c w') cs in
    let sub (cs : list rnode) (r : res N) : text := on_okT r (kids cs) (kids cs w) in
    let wrapped (a : text) (cs : list rnode) (b : text) : text :=
        doc_chars a ++ kids cs w ++ doc_chars b in
    match rn_info n with
    | IText t => doc_chars t
    | IImg src title => doc_chars (fst (d_image d src title))
    | IBreak | IFragStart _ => []
    | ILink href cs => wrapped (fst (d_link_start d href)) cs (d_link_end d)
    | IEm cs | IDt cs => wrapped (fst (d_em_start d)) cs (d_em_end d)
    | IStrong cs => wrapped (fst (d_strong_start d)) cs (d_strong_end d)
    | IStrikeout cs => wrapped (fst (d_strike_start d)) cs (d_strike_end d)
    | ICode cs => wrapped (fst (d_code_start d)) cs (d_code_end d)
    | ISup cs =>
      match sup_digits cs with
      | Some ds => doc_chars ds
      | None => wrapped (fst (d_sup_start d)) cs (d_sup_end d)
      end
    | IContainer cs | IBlock cs | IListItem cs | IDiv cs | IDl cs => kids cs w
    | IHeader _ cs =>
      on_okT (est_of d mw n)
             (fun sz => sub cs (width_minus (sub_new w o) (e_prefix sz) (e_min sz - e_prefix sz)))
             (kids cs w)
    | IBlockQuote cs =>
      let plen := swidth (d_quote_prefix d) in
      on_okT (est_of d mw n)
             (fun sz => sub cs (do iw <- usub 21 (e_min sz) plen; width_minus (sub_new w o) plen iw))
             (kids cs w)
    | IUl cs =>
      let plen := swidth (d_ul_prefix d) in
      on_okT (est_of d mw n)
             (fun sz => sub cs (do iw <- usub 22 (e_min sz) plen; width_minus (sub_new w o) plen iw))
             (kids cs w)
    | IOl start cs =>
      let sn := isat64 (start + Z.of_nat (length cs)) in
      let max_number := isat64 (sn - 1) in
      let pw := N.max (swidth (d_ol_prefix d start)) (swidth (d_ol_prefix d max_number)) in
      on_okT (est_of d mw n)
             (fun sz => sub cs (do im <- usub 23 (e_min sz) (e_prefix sz);
                                width_minus (sub_new w o) pw im))
             (kids cs w)
    | IDd cs =>
      on_okT (est_of d mw n)
             (fun sz => sub cs (do im <- usub 24 (e_min sz) 2; width_minus (sub_new w o) 2 im))
             (kids cs w)
    | ITable rows ncols =>
      let all_cells (cells : list rcell) : text :=
          flat_map (fun c => match c with RCell _ content _ => kids content w end) cells in
      let all_rows : text :=
          flat_map (fun r => match r with RRow rcells _ => all_cells rcells end) rows in
      on_okT (tbl_col_sizes d mw rows ncols) (fun col_sizes =>
      on_okT (tbl_col_widths o w col_sizes) (fun col_widths =>
        flat_map (fun r =>
                    match r with
                    | RRow rcells _ =>
                      on_okT (cell_widths (tbl_vert o w col_sizes) col_widths rcells 0)
                            ((fix cells_loop (cells : list rcell) (wsl : list (option N))
                                {struct cells} : text :=
                                match cells, wsl with
                                | RCell _ content _ :: cells', Some cw_ :: wsl' =>
                                  flat_map (fun c => tree_stream c cw_) content
                                           ++ cells_loop cells' wsl'
                                | _ :: cells', None :: wsl' => cells_loop cells' wsl'
                                | _, _ => []
                                end) rcells)
                            (all_cells rcells)
                    end) rows) all_rows) all_rows
    | ITableRow _ | ITableBody _ | ITableCell _ => []
    end.

  Definition kids_ts (cs : list rnode) (w : N) : text := flat_map (fun c => tree_stream c w) cs.
End Stream.

(* the same without widths: every leaf, in document order (for trees without tables this is
   tree_stream at every width: tree_stream_no_table) *)
Fixpoint doc_stream (d : deco) (n : rnode) {struct n} : text :=
  let kids (cs : list rnode) : text := flat_map (doc_stream d) cs in
  let wrapped (a : text) (cs : list rnode) (b : text) : text :=
      doc_chars a ++ kids cs ++ doc_chars b in
  match rn_info n with
  | IText t => doc_chars t
  | IImg src title => doc_chars (fst (d_image d src title))
  | IBreak | IFragStart _ => []
  | ILink href cs => wrapped (fst (d_link_start d href)) cs (d_link_end d)
  | IEm cs | IDt cs => wrapped (fst (d_em_start d)) cs (d_em_end d)
  | IStrong cs => wrapped (fst (d_strong_start d)) cs (d_strong_end d)
  | IStrikeout cs => wrapped (fst (d_strike_start d)) cs (d_strike_end d)
  | ICode cs => wrapped (fst (d_code_start d)) cs (d_code_end d)
  | ISup cs =>
    match sup_digits cs with
    | Some ds => doc_chars ds
    | None => wrapped (fst (d_sup_start d)) cs (d_sup_end d)
    end
  | IContainer cs | IBlock cs | IListItem cs | IDiv cs | IDl cs
  | IHeader _ cs | IBlockQuote cs | IUl cs | IOl _ cs | IDd cs => kids cs
  | ITable rows _ =>
    flat_map (fun r => match r with
                       | RRow cells _ =>
                         flat_map (fun c => match c with RCell _ k _ => kids k end) cells
                       end) rows
  | ITableRow _ | ITableBody _ | ITableCell _ => []
  end.

(* the plain text of the leaves, no decorator: text nodes and image alt texts (and the
   superscript digits); equal to doc_stream for a deco_made decorator *)
Fixpoint leaf_stream (n : rnode) {struct n} : text :=
  let kids (cs : list rnode) : text := flat_map leaf_stream cs in
  match rn_info n with
  | IText t => doc_chars t
  | IImg src title => doc_chars title
  | IBreak | IFragStart _ => []
  | ISup cs => match sup_digits cs with Some ds => doc_chars ds | None => kids cs end
  | ILink _ cs | IEm cs | IDt cs | IStrong cs | IStrikeout cs | ICode cs
  | IContainer cs | IBlock cs | IListItem cs | IDiv cs | IDl cs
  | IHeader _ cs | IBlockQuote cs | IUl cs | IOl _ cs | IDd cs => kids cs
  | ITable rows _ =>
    flat_map (fun r => match r with
                       | RRow cells _ =>
                         flat_map (fun c => match c with RCell _ k _ => kids k end) cells
                       end) rows
  | ITableRow _ | ITableBody _ | ITableCell _ => []
  end.

(* ================================================================== *)
(* 7. Order: exact (ord = true) or up to a permutation (ord = false)    *)
(* ================================================================== *)

Definition rel (ord : bool) (a b : text) : Prop := if ord then a = b else Permutation a b.

Lemma rel_refl ord a : rel ord a a.
Proof. destruct ord; cbn [rel]; [reflexivity|apply Permutation_refl]. Qed.
Lemma rel_of_eq ord a b : a = b -> rel ord a b.
Proof. intros ->. apply rel_refl. Qed.
Lemma rel_trans ord a b c : rel ord a b -> rel ord b c -> rel ord a c.
Proof. destruct ord; cbn [rel]; [congruence|apply Permutation_trans]. Qed.
Lemma rel_app ord a a' b b' : rel ord a a' -> rel ord b b' -> rel ord (a ++ b) (a' ++ b').
Proof. destruct ord; cbn [rel]; [congruence|apply Permutation_app]. Qed.
Lemma rel_perm ord a b : rel ord a b -> Permutation a b.
Proof. destruct ord; cbn [rel]; [intros ->; apply Permutation_refl|auto]. Qed.
Lemma rel_of_perm a b : Permutation a b -> rel false a b.
Proof. exact (fun H => H). Qed.

(* a character of positive width *)
Definition posw (c : chr) : Prop := 0 <? cw0 c = true.

Lemma geo_stack st w o :
  geo st = Some (w, o) -> exists s rest, stack st = s :: rest /\ swidth_ s = w /\ sopts s = o.
Proof.
  unfold geo, shape. destruct (stack st) as [|s rest]; cbn [map hd_error]; [discriminate|].
  intros [= <- <-]. eauto.
Qed.

(* ================================================================== *)
(* 8. The render layer                                                  *)
(* ================================================================== *)

Section Thread.
  Variable d : deco.
  Variable mw : N.
  Variable o : ropts.
  Variable ord : bool.                      (* exact order / permutation *)
  Variable P : text -> Prop.                (* side condition on the stream of the tree *)
  Hypothesis P_app : forall a b, P (a ++ b) -> P a /\ P b.
  Hypothesis Pd : prefix_made d.
  Variable adm0 : rnode -> bool.            (* side condition on the tree *)
  Hypothesis adm0_kids :
    forall i sty, adm0 (RN i sty) = true -> forallb adm0 (direct_kids i) = true.
  (* tables are only allowed in raw mode (all rows vertical: order kept) or if the order does
     not matter and all visible document characters have a positive width *)
  Hypothesis tab_cond : forall rows nc sty, adm0 (RN (ITable rows nc) sty) = true ->
    o_raw o = true \/ (ord = false /\ forall t, P t -> Forall posw t).

  Notation ts := (tree_stream d mw o).

  Lemma P_nil t : P t -> P [].
  Proof. intros H. exact (proj1 (P_app [] t H)). Qed.

  (* st' differs from st in the top sub-renderer only, which keeps its width and options and
     (if its invariant holds) has received the visible document characters t *)
  Definition Cr (st st' : rstate) (t : text) : Prop :=
    exists s s' rest, stack st = s :: rest /\ stack st' = s' :: rest /\ same s s' /\
      (Iv s -> Iv s' /\ (P t -> rel ord (out_stream s') (out_stream s ++ t))).

  Lemma Cr_refl st w : geo st = Some (w, o) -> Cr st st [].
  Proof.
    intros Hg. destruct (geo_stack _ _ _ Hg) as (s & rest & E & _ & _).
    exists s, s, rest. split; [exact E|]. split; [exact E|]. split; [apply same_refl|].
    intros Hi. split; [exact Hi|]. intros _. rewrite app_nil_r. apply rel_refl.
  Qed.

  Lemma Cr_stack_eq st st' w : geo st = Some (w, o) -> stack st' = stack st -> Cr st st' [].
  Proof.
    intros Hg E. destruct (geo_stack _ _ _ Hg) as (s & rest & E1 & _ & _).
    exists s, s, rest. split; [exact E1|]. split; [congruence|]. split; [apply same_refl|].
    intros Hi. split; [exact Hi|]. intros _. rewrite app_nil_r. apply rel_refl.
  Qed.

  Lemma Cr_trans a b c t1 t2 : Cr a b t1 -> Cr b c t2 -> Cr a c (t1 ++ t2).
  Proof.
    intros (s & s' & rest & E1 & E2 & S1 & K1) (s2 & s2' & rest2 & E3 & E4 & S2 & K2).
    rewrite E2 in E3. injection E3 as <- <-.
    exists s, s2', rest. split; [exact E1|]. split; [exact E4|].
    split; [eapply same_trans; eassumption|].
    intros Hi. destruct (K1 Hi) as [Hi' R1]. destruct (K2 Hi') as [Hi'' R2].
    split; [exact Hi''|]. intros Hp. destruct (P_app _ _ Hp) as [Hp1 Hp2].
    eapply rel_trans; [exact (R2 Hp2)|]. rewrite app_assoc.
    apply rel_app; [exact (R1 Hp1)|apply rel_refl].
  Qed.
  Lemma Cr0_l a b c t : Cr a b [] -> Cr b c t -> Cr a c t.
  Proof. intros A B. exact (Cr_trans _ _ _ _ _ A B). Qed.
  Lemma Cr0_r a b c t : Cr a b t -> Cr b c [] -> Cr a c t.
  Proof. intros A B. pose proof (Cr_trans _ _ _ _ _ A B) as C. rewrite app_nil_r in C. exact C. Qed.

  Lemma Cr_geo a b t : Cr a b t -> geo b = geo a.
  Proof.
    intros (s & s' & rest & E1 & E2 & [S1 S2] & _). unfold geo, shape. rewrite E1, E2.
    cbn [map hd_error]. congruence.
  Qed.

  Lemma with_top_Cr f t st st' : opC f t -> with_top st f = Ok st' -> Cr st st' t.
  Proof.
    intros (Hs & Ho & Hl) H. destruct (with_top_inv _ _ _ H) as (s & rest & s' & Es & Ef & ->).
    exists s, s', rest. split; [exact Es|]. split; [reflexivity|]. split; [apply Hs, Ef|].
    intros [Hp Hw]. destruct (Ho _ _ Ef Hp) as [Hp' E]. split; [split; [exact Hp'|eapply Hl; eassumption]|].
    intros _. apply rel_of_eq, E.
  Qed.
  Lemma with_top'_Cr g t st st' : opC (fun s => Ok (g s)) t -> with_top' st g = Ok st' -> Cr st st' t.
  Proof. unfold with_top'. apply with_top_Cr. Qed.

  Lemma inline_text_Cr t st st' : inline_text d st t = Ok st' -> Cr st st' (doc_chars t).
  Proof. unfold inline_text. apply with_top_Cr, add_inline_text_opC. Qed.

  Lemma apply_style_Cr st cs st' p w :
    geo st = Some (w, o) -> apply_style d st cs = Ok (st', p) -> Cr st st' [].
  Proof.
    intros Hg H. unfold apply_style in H.
    bind_inv H st1 H1. bind_inv H st2 H2. bind_inv H st3 H3. bind_inv H st4 H4.
    injection H as <- _.
    assert (R1 : Cr st st1 []).
    { destruct (ws_val (c_colour (cs_core cs))) as [[[r g] b]|].
      - eapply with_top'_Cr; [apply push_colour_opC|exact H1].
      - ok_inv H1. eapply Cr_refl, Hg. }
    assert (Hg1 : geo st1 = Some (w, o)) by (rewrite (Cr_geo _ _ _ R1); exact Hg).
    assert (R2 : Cr st1 st2 []).
    { destruct (ws_val (c_bg (cs_core cs))) as [[[r g] b]|].
      - eapply with_top'_Cr; [apply push_bgcolour_opC|exact H2].
      - ok_inv H2. eapply Cr_refl, Hg1. }
    assert (Hg2 : geo st2 = Some (w, o)) by (rewrite (Cr_geo _ _ _ R2); exact Hg1).
    assert (R3 : Cr st2 st3 []).
    { destruct (match ws_val (c_white_space (cs_core cs)) with
                | Some WsPre => Some WsPre
                | Some WsPreWrap => Some WsPreWrap
                | _ => None
                end) as [m|].
      - eapply with_top'_Cr; [apply push_ws_mode_opC|exact H3].
      - ok_inv H3. eapply Cr_refl, Hg2. }
    assert (Hg3 : geo st3 = Some (w, o)) by (rewrite (Cr_geo _ _ _ R3); exact Hg2).
    assert (R4 : Cr st3 st4 []).
    { destruct (cs_internal_pre cs).
      - eapply with_top'_Cr; [apply push_preformat_opC|exact H4].
      - ok_inv H4. eapply Cr_refl, Hg3. }
    eapply Cr0_l; [exact R1|]. eapply Cr0_l; [exact R2|]. eapply Cr0_l; eassumption.
  Qed.

  Lemma unwind_Cr p st st' w : geo st = Some (w, o) -> unwind d p st = Ok st' -> Cr st st' [].
  Proof.
    intros Hg H. unfold unwind in H.
    bind_inv H st1 H1. bind_inv H st2 H2. bind_inv H st3 H3.
    assert (R1 : Cr st st1 []).
    { destruct (p_bg p).
      - eapply with_top'_Cr; [apply pop_colour_opC|exact H1].
      - ok_inv H1. eapply Cr_refl, Hg. }
    assert (Hg1 : geo st1 = Some (w, o)) by (rewrite (Cr_geo _ _ _ R1); exact Hg).
    assert (R2 : Cr st1 st2 []).
    { destruct (p_colour p).
      - eapply with_top'_Cr; [apply pop_colour_opC|exact H2].
      - ok_inv H2. eapply Cr_refl, Hg1. }
    assert (Hg2 : geo st2 = Some (w, o)) by (rewrite (Cr_geo _ _ _ R2); exact Hg1).
    assert (R3 : Cr st2 st3 []).
    { destruct (p_ws p).
      - eapply with_top'_Cr; [apply pop_ws_mode_opC|exact H3].
      - ok_inv H3. eapply Cr_refl, Hg2. }
    assert (Hg3 : geo st3 = Some (w, o)) by (rewrite (Cr_geo _ _ _ R3); exact Hg2).
    assert (R4 : Cr st3 st' []).
    { destruct (p_pre p).
      - eapply with_top_Cr; [apply pop_preformat_opC|exact H].
      - ok_inv H. eapply Cr_refl, Hg3. }
    eapply Cr0_l; [exact R1|]. eapply Cr0_l; [exact R2|]. eapply Cr0_l; eassumption.
  Qed.

  Lemma fold_Cr {B} (f : B -> rstate -> res rstate) (g : B -> text) (w : N) (l : list B) :
    (forall b, In b l -> forall a a', geo a = Some (w, o) -> f b a = Ok a' -> Cr a a' (g b)) ->
    forall a a', geo a = Some (w, o) ->
      fold_left (fun acc b => do s <- acc; f b s) l (Ok a) = Ok a' -> Cr a a' (flat_map g l).
  Proof.
    induction l as [|b l IH]; intros Hstep a a' Ha H.
    - cbn [fold_left] in H. ok_inv H. eapply Cr_refl, Ha.
    - apply fold_bind_cons in H. destruct H as (a1 & H1 & H).
      pose proof (Hstep b (or_introl eq_refl) a a1 Ha H1) as T1.
      cbn [flat_map]. eapply Cr_trans; [exact T1|].
      apply IH; [intros b' Hb'; apply Hstep; right; exact Hb'| |exact H].
      rewrite (Cr_geo _ _ _ T1). exact Ha.
  Qed.

  Definition node_cs (n : rnode) : Prop :=
    forall st st' w, adm0 n = true -> geo st = Some (w, o) ->
                     render_node d mw n st = Ok st' -> Cr st st' (ts n w).

  Lemma render_kids_Cr cs st st' w :
    Forall node_cs cs -> forallb adm0 cs = true -> geo st = Some (w, o) ->
    fold_left (fun acc c => do s <- acc; render_node d mw c s) cs (Ok st) = Ok st' ->
    Cr st st' (kids_ts d mw o cs w).
  Proof.
    intros HF Ha Hg H. unfold kids_ts.
    apply (fold_Cr (render_node d mw) (fun c => ts c w) w cs); [|exact Hg|exact H].
    intros c Hc a a' Hga Hr. rewrite Forall_forall in HF. rewrite forallb_forall in Ha.
    apply (HF c Hc a a' w (Ha c Hc) Hga Hr).
  Qed.

  Lemma wrap_case_Cr (f1 f2 : subr -> res subr) t1 t2 cs ps st1 st' w :
    opC f1 t1 -> opC f2 t2 -> Forall node_cs cs -> forallb adm0 cs = true ->
    geo st1 = Some (w, o) ->
    (do a <- with_top st1 f1;
     do b <- fold_left (fun acc c => do s <- acc; render_node d mw c s) cs (Ok a);
     do c <- with_top b f2; unwind d ps c) = Ok st' ->
    Cr st1 st' (t1 ++ kids_ts d mw o cs w ++ t2).
  Proof.
    intros K1 K2 HF Ha Hg H.
    bind_inv H a H1. bind_inv H b H2. bind_inv H c H3.
    pose proof (with_top_Cr _ _ _ _ K1 H1) as Ra.
    assert (Hga : geo a = Some (w, o)) by (rewrite (Cr_geo _ _ _ Ra); exact Hg).
    pose proof (render_kids_Cr _ _ _ _ HF Ha Hga H2) as Rb.
    assert (Hgb : geo b = Some (w, o)) by (rewrite (Cr_geo _ _ _ Rb); exact Hga).
    pose proof (with_top_Cr _ _ _ _ K2 H3) as Rc.
    assert (Hgc : geo c = Some (w, o)) by (rewrite (Cr_geo _ _ _ Rc); exact Hgb).
    pose proof (unwind_Cr _ _ _ _ Hgc H) as Rd.
    eapply Cr_trans; [exact Ra|]. eapply Cr_trans; [exact Rb|]. eapply Cr0_r; eassumption.
  Qed.

  (* a nested sub-renderer: what is popped holds exactly what was rendered into it *)
  Lemma sub_scope_Cr st tp w' st2 sub st3 t :
    Cr (push_sub st (new_sub_renderer tp w')) st2 t -> pop_sub st2 = Ok (sub, st3) ->
    stack st3 = stack st /\ Iv sub /\ (P t -> rel ord (out_stream sub) t).
  Proof.
    intros (s & s' & rest & E1 & E2 & _ & K) Hp. unfold pop_sub in Hp. rewrite E2 in Hp.
    injection Hp as -> <-. cbn [push_sub stack] in E1. injection E1 as <- <-.
    destruct (K (Iv_new tp w')) as [Hi R]. cbn [stack]. split; [reflexivity|]. split; [exact Hi|].
    intros Hp. specialize (R Hp). rewrite out_new in R. exact R.
  Qed.

  Lemma append_Cr st3 sub p1 p2 st4 t :
    Iv sub -> (P t -> rel ord (out_stream sub) t) -> nodoc p1 -> nodoc p2 ->
    with_top st3 (fun s => append_subrender s sub p1 p2) = Ok st4 -> Cr st3 st4 t.
  Proof.
    intros [Hsub _] Hr Hp1 Hp2 H.
    destruct (append_subrender_opC sub p1 p2 Hsub Hp1 Hp2) as (Hs & Ho & Hl).
    destruct (with_top_inv _ _ _ H) as (s & rest & s' & Es & Ef & ->).
    exists s, s', rest. split; [exact Es|]. split; [reflexivity|]. split; [apply Hs, Ef|].
    intros [Hp Hw]. destruct (Ho _ _ Ef Hp) as [Hp' E].
    split; [split; [exact Hp'|eapply Hl; eassumption]|].
    intros HP. rewrite E. apply rel_app; [apply rel_refl|exact (Hr HP)].
  Qed.

  Lemma prefixed_Cr st tp a b w w' st2 sub st3 t :
    geo st = Some (w, o) -> top st = Ok tp -> width_minus tp a b = Ok w' ->
    (geo (push_sub st (new_sub_renderer tp w')) = Some (w', o) ->
     Cr (push_sub st (new_sub_renderer tp w')) st2 t) ->
    pop_sub st2 = Ok (sub, st3) ->
    width_minus (sub_new w o) a b = Ok w' /\ stack st3 = stack st /\ Iv sub /\
    (P t -> rel ord (out_stream sub) t).
  Proof.
    intros Hg Ht Hw Hbody Hp. rewrite (top_geo _ _ Ht) in Hg. injection Hg as E1 E2.
    split; [rewrite <- E1, <- E2, <- width_minus_geo; exact Hw|].
    eapply sub_scope_Cr; [|exact Hp]. apply Hbody. rewrite push_geo, E2. reflexivity.
  Qed.

  Lemma geo_stack_eq a b : stack b = stack a -> geo b = geo a.
  Proof. intros E. unfold geo, shape. rewrite E. reflexivity. Qed.

  Lemma flat_map_on_okT {A B} (r : res A) (h : B -> A -> text) (l : list B) (w0 : A) :
    flat_map (fun b => on_okT r (h b) (h b w0)) l =
    on_okT r (fun x => flat_map (fun b => h b x) l) (flat_map (fun b => h b w0) l).
  Proof. destruct r; reflexivity. Qed.


  Lemma nodoc_pad_width p w : nodoc p -> nodoc (pad_width p w).
  Proof. intros H. unfold pad_width. apply nodoc_app; [exact H|apply nodoc_repeat; reflexivity]. Qed.
  Lemma nodoc_pad_chars w : nodoc (pad_chars [] w).
  Proof. unfold pad_chars. apply nodoc_app; [apply nodoc_nil|apply nodoc_repeat; reflexivity]. Qed.

  (* the rows of a table in terms of cells_ts *)
  Definition row_ts (vr : bool) (col_widths : list N) (w : N) (r : rrow) : text :=
    match r with
    | RRow rcells _ =>
      on_okT (cell_widths vr col_widths rcells 0) (cells_ts ts rcells)
             (flat_map (fun c => kids_ts d mw o (cell_content c) w) rcells)
    end.

  Lemma ts_table rows ncols sty w col_sizes col_widths :
    tbl_col_sizes d mw rows ncols = Ok col_sizes ->
    tbl_col_widths o w col_sizes = Ok col_widths ->
    ts (RN (ITable rows ncols) sty) w =
    flat_map (row_ts (tbl_vert o w col_sizes) col_widths w) rows.
  Proof.
    intros E1 E2. cbn [tree_stream rn_info]. rewrite E1. cbn [on_okT]. rewrite E2. cbn [on_okT].
    apply flat_map_ext. intros [rcells rsty]. unfold row_ts.
    destruct (cell_widths (tbl_vert o w col_sizes) col_widths rcells 0) as [cws| | |];
      cbn [on_okT]; try (apply flat_map_ext; intros [n content csty]; reflexivity).
    revert cws. induction rcells as [|[n content csty] rcells IH]; intros [|[cw_|] wsl];
      cbn [cells_ts]; try reflexivity.
    - rewrite IH. reflexivity.
    - apply IH.
  Qed.

  (* ---- ordered lists ---- *)
  Lemma ol_items_Cr sz pw w : forall items s i r,
    Forall node_cs items -> forallb adm0 items = true -> geo s = Some (w, o) ->
    fold_left (fun acc item => do si <- acc; ol_step d mw sz pw item si) items (Ok (s, i)) = Ok r ->
    Cr s (fst r)
       (flat_map (fun item =>
                    on_okT (do im <- usub 23 (e_min sz) (e_prefix sz);
                            width_minus (sub_new w o) pw im) (ts item) (ts item w)) items).
  Proof.
    induction items as [|item items IH]; intros s i r HF Ha Hg H.
    - cbn [fold_left] in H. ok_inv H. eapply Cr_refl, Hg.
    - apply fold_bind_cons in H. destruct H as ([s4 i'] & Hstep & H).
      pose proof (Forall_inv HF) as HF1. pose proof (Forall_inv_tail HF) as HF2.
      cbn [forallb] in Ha. apply andb_true_iff in Ha. destruct Ha as [Ha1 Ha2].
      unfold ol_step in Hstep.
      bind_inv Hstep iw Hiw. bind_inv Hstep tp Htp. bind_inv Hstep w' Hw.
      bind_inv Hstep s2 Hs2. bind_inv Hstep pp Hpp. destruct pp as [sub s3].
      bind_inv Hstep s4' H4. injection Hstep as -> <-.
      destruct (prefixed_Cr s tp _ _ w w' s2 sub s3 (ts item w') Hg Htp Hw) as (Ew & Es3 & Hi & Hr);
        [|exact Hpp|].
      { intros Hgp. apply (HF1 _ _ _ Ha1 Hgp Hs2). }
      assert (Hg3 : geo s3 = Some (w, o)) by (rewrite (geo_stack_eq _ _ Es3); exact Hg).
      pose proof (Cr_stack_eq _ _ _ Hg Es3) as R3.
      pose proof (append_Cr _ _ _ _ _ _ Hi Hr (nodoc_pad_width _ pw (pm_ol d Pd i))
                            (nodoc_pad_chars pw) H4) as R4.
      pose proof (Cr0_l _ _ _ _ R3 R4) as R04.
      cbn [flat_map]. rewrite Hiw. cbn [bind]. rewrite Ew. cbn [on_okT].
      eapply Cr_trans; [exact R04|].
      specialize (IH s4 (isat64 (i + 1)) r HF2 Ha2).
      rewrite Hiw in IH. cbn [bind] in IH. rewrite Ew in IH. apply IH; [|exact H].
      rewrite (Cr_geo _ _ _ R04). exact Hg.
  Qed.

  (* ---- tables ---- *)
  Definition cells_adm (cells : list rcell) : bool :=
    forallb (fun c => forallb adm0 (cell_content c)) cells.

  Lemma cells_loop_Cr w : forall cells wsl s2 subs r,
    Forall (fun c => Forall node_cs (cell_content c)) cells -> cells_adm cells = true ->
    geo s2 = Some (w, o) -> Forall Iv subs ->
    cells_loop d mw cells wsl s2 subs = Ok r ->
    stack (fst r) = stack s2 /\ Forall Iv (snd r) /\
    (P (cells_ts ts cells wsl) ->
     rel ord (flat_map out_stream (snd r)) (flat_map out_stream subs ++ cells_ts ts cells wsl)).
  Proof.
    induction cells as [|[n content csty] cells IH]; intros wsl s2 subs r HF Ha Hg Hs H;
      cbn [cells_loop] in H.
    - ok_inv H. cbn [fst snd]. split; [reflexivity|]. split; [exact Hs|].
      intros _. destruct wsl; cbn [cells_ts]; rewrite app_nil_r; apply rel_refl.
    - inversion HF as [|? ? HF1 HF2]; subst. cbn [cell_content] in HF1.
      unfold cells_adm in Ha. cbn [forallb cell_content] in Ha. apply andb_true_iff in Ha.
      destruct Ha as [Ha1 Ha2].
      destruct wsl as [|[cw_|] wsl].
      + ok_inv H. cbn [fst snd cells_ts]. split; [reflexivity|]. split; [exact Hs|].
        intros _. rewrite app_nil_r. apply rel_refl.
      + bind_inv H tp2 Htp. bind_inv H apc Hap. destruct apc as [s4 pcell].
        bind_inv H s5 H5. bind_inv H s6 H6. bind_inv H pp Hpp. destruct pp as [sub s7].
        pose proof Hg as Hg'. rewrite (top_geo _ _ Htp) in Hg'. injection Hg' as E1 E2.
        assert (Hg3 : geo (push_sub s2 (new_sub_renderer tp2 cw_)) = Some (cw_, o)).
        { rewrite push_geo, E2. reflexivity. }
        pose proof (apply_style_Cr _ _ _ _ _ Hg3 Hap) as Ra.
        assert (Hg4 : geo s4 = Some (cw_, o)) by (rewrite (Cr_geo _ _ _ Ra); exact Hg3).
        pose proof (render_kids_Cr _ _ _ _ HF1 Ha1 Hg4 H5) as Rb.
        assert (Hg5 : geo s5 = Some (cw_, o)) by (rewrite (Cr_geo _ _ _ Rb); exact Hg4).
        pose proof (unwind_Cr _ _ _ _ Hg5 H6) as Rc.
        destruct (sub_scope_Cr s2 tp2 cw_ s6 sub s7 (kids_ts d mw o content cw_))
          as (Es7 & Hi & Hr); [|exact Hpp|].
        { eapply Cr0_l; [exact Ra|]. eapply Cr0_r; eassumption. }
        assert (Hg7 : geo s7 = Some (w, o)) by (rewrite (geo_stack_eq _ _ Es7); exact Hg).
        destruct (IH wsl s7 (subs ++ [sub]) r HF2 Ha2 Hg7) as (A & B & C); [|exact H|].
        { apply Forall_app. split; [exact Hs|]. constructor; [exact Hi|constructor]. }
        split; [congruence|]. split; [exact B|].
        cbn [cells_ts]. intros HP. destruct (P_app _ _ HP) as [HP1 HP2].
        eapply rel_trans; [exact (C HP2)|].
        rewrite flat_map_app. cbn [flat_map]. rewrite app_nil_r, <- app_assoc.
        apply rel_app; [apply rel_refl|]. apply rel_app; [exact (Hr HP1)|apply rel_refl].
      + cbn [cells_ts]. apply (IH wsl s2 subs r HF2 Ha2 Hg Hs H).
  Qed.

  Lemma Forall_pfc subs : Forall Iv subs -> Forall pfc subs.
  Proof. apply Forall_impl. intros s [H _]. exact H. Qed.

  Lemma all_empty_stream subs :
    existsb (fun c => negb (sub_empty c)) subs = false -> Forall Iv subs ->
    Forall posw (flat_map out_stream subs) -> flat_map out_stream subs = [].
  Proof.
    induction subs as [|c subs IH]; intros He HI HF; cbn [flat_map]; [reflexivity|].
    cbn [existsb] in He. apply orb_false_iff in He. destruct He as [He1 He2].
    inversion HI as [|? ? [_ Hw] HI']; subst. cbn [flat_map] in HF.
    apply Forall_app in HF. destruct HF as [HF1 HF2].
    rewrite (IH He2 HI' HF2), app_nil_r. apply sub_empty_stream; [|exact Hw|exact HF1].
    destruct (sub_empty c); [reflexivity|discriminate].
  Qed.

  Lemma rel_of_perm' a b : ord = false -> Permutation a b -> rel ord a b.
  Proof. intros E H. unfold rel. rewrite E. exact H. Qed.

  Lemma row_body_Cr vr col_widths w r s s' :
    (vr = false -> ord = false /\ forall t, P t -> Forall posw t) ->
    Forall (fun c => Forall node_cs (cell_content c)) (row_cells r) ->
    cells_adm (row_cells r) = true -> geo s = Some (w, o) ->
    row_body d mw vr col_widths r s = Ok s' ->
    Cr s s' (row_ts vr col_widths w r).
  Proof.
    intros Hv HF Ha Hg H. destruct r as [rcells rstyle]. cbn [row_cells] in *. unfold row_body in H.
    bind_inv H apr Hap. destruct apr as [s1 prow]. bind_inv H cws Hcws. bind_inv H rr Hrr.
    destruct rr as [s8 subs]. bind_inv H s9 H9.
    pose proof (apply_style_Cr _ _ _ _ _ Hg Hap) as R1.
    assert (Hg1 : geo s1 = Some (w, o)) by (rewrite (Cr_geo _ _ _ R1); exact Hg).
    destruct (cells_loop_Cr w rcells cws s1 [] (s8, subs) HF Ha Hg1 (Forall_nil _) Hrr)
      as (E8 & HI & Hrel). cbn [fst snd flat_map app] in *.
    assert (Hg8 : geo s8 = Some (w, o)) by (rewrite (geo_stack_eq _ _ E8); exact Hg1).
    pose proof (Cr_stack_eq _ _ _ Hg1 E8) as R8.
    unfold row_ts. rewrite Hcws. cbn [on_okT].
    assert (R9 : Cr s8 s9 (cells_ts ts rcells cws)).
    { destruct vr.
      - destruct (append_vert_row_opC subs (Forall_pfc _ HI)) as (Hs & Ho & Hl).
        destruct (with_top_inv _ _ _ H9) as (t & rest & t' & Es & Ef & ->).
        exists t, t', rest. split; [exact Es|]. split; [reflexivity|]. split; [apply Hs, Ef|].
        intros [Hp Hw]. destruct (Ho _ _ Ef Hp) as [Hp' E].
        split; [split; [exact Hp'|eapply Hl; eassumption]|].
        intros HP. rewrite E. apply rel_app; [apply rel_refl|exact (Hrel HP)].
      - destruct (Hv eq_refl) as [Hord Hpos].
        destruct (existsb (fun c => negb (sub_empty c)) subs) eqn:Ee.
        + destruct (with_top_inv _ _ _ H9) as (t & rest & t' & Es & Ef & ->).
          exists t, t', rest. split; [exact Es|]. split; [reflexivity|].
          split; [eapply append_columns_sames, Ef|].
          intros [Hp Hw]. destruct (append_columns_out _ _ _ _ (Forall_pfc _ HI) Ef Hp) as (A & B & C).
          split; [split; [exact A|apply wl_none, C]|].
          intros HP. apply (rel_of_perm' _ _ Hord). eapply Permutation_trans; [exact B|].
          apply Permutation_app_head. exact (rel_perm _ _ _ (Hrel HP)).
        + ok_inv H9. destruct (geo_stack _ _ _ Hg8) as (t & rest & Es & _ & _).
          exists t, t, rest. split; [exact Es|]. split; [exact Es|]. split; [apply same_refl|].
          intros Hi. split; [exact Hi|]. intros HP. apply (rel_of_perm' _ _ Hord).
          pose proof (rel_perm _ _ _ (Hrel HP)) as Hperm. pose proof (Hpos _ HP) as HF'.
          assert (HF2 : Forall posw (flat_map out_stream subs)).
          { eapply Permutation_Forall; [apply Permutation_sym; exact Hperm|exact HF']. }
          rewrite (all_empty_stream _ Ee HI HF2) in Hperm.
          apply Permutation_nil in Hperm. rewrite Hperm, app_nil_r. apply Permutation_refl. }
    assert (Hg9 : geo s9 = Some (w, o)) by (rewrite (Cr_geo _ _ _ R9); exact Hg8).
    pose proof (unwind_Cr _ _ _ _ Hg9 H) as R10.
    eapply Cr0_l; [exact R1|]. eapply Cr0_l; [exact R8|]. eapply Cr0_r; eassumption.
  Qed.

  Lemma forallb_flat_map {A B} (f : B -> bool) (g : A -> list B) l :
    forallb f (flat_map g l) = forallb (fun x => forallb f (g x)) l.
  Proof.
    induction l as [|a l IH]; cbn [flat_map forallb]; [reflexivity|].
    rewrite forallb_app, IH. reflexivity.
  Qed.

  Lemma doc_chars_ftext l : doc_chars (ftext l) = [].
  Proof. apply nodoc_doc_chars, nodoc_of_asciil. reflexivity. Qed.

  Ltac start H Hg w sz ap st1 ps R1 Hg1 :=
    let Hsz := fresh "Hsz" in let Hap := fresh "Hap" in
    bind_inv H sz Hsz; bind_inv H ap Hap; destruct ap as [st1 ps];
    pose proof (apply_style_Cr _ _ _ _ _ Hg Hap) as R1;
    assert (Hg1 : geo st1 = Some (w, o)) by (rewrite (Cr_geo _ _ _ R1); exact Hg).

  (* THE per-node theorem *)
  Lemma node_cs_all : forall n, node_cs n.
  Proof.
    apply rnode_ind'. intros i sty IH st st' w Ha Hg H.
    pose proof (adm0_kids _ _ Ha) as Hk.
    destruct i; cbn [direct_kids] in IH, Hk; cbn [render_node rn_info rn_style] in H.
    - (* IText *)
      start H Hg w sz ap st1 ps R1 Hg1. bind_inv H st2 H2.
      pose proof (inline_text_Cr _ _ _ H2) as R2.
      assert (Hg2 : geo st2 = Some (w, o)) by (rewrite (Cr_geo _ _ _ R2); exact Hg1).
      pose proof (unwind_Cr _ _ _ _ Hg2 H) as R3.
      cbn [tree_stream rn_info]. eapply Cr0_l; [exact R1|]. eapply Cr0_r; eassumption.
    - (* IContainer *)
      start H Hg w sz ap st1 ps R1 Hg1. bind_inv H st2 H2.
      pose proof (render_kids_Cr _ _ _ _ IH Hk Hg1 H2) as R2.
      assert (Hg2 : geo st2 = Some (w, o)) by (rewrite (Cr_geo _ _ _ R2); exact Hg1).
      pose proof (unwind_Cr _ _ _ _ Hg2 H) as R3.
      eapply Cr0_l; [exact R1|]. eapply Cr0_r; eassumption.
    - (* ILink *)
      start H Hg w sz ap st1 ps R1 Hg1.
      set (st1' := mkrst (stack st1) (links st1 ++ [href])) in H.
      assert (R1' : Cr st1 st1' []) by (apply (Cr_stack_eq _ _ _ Hg1); reflexivity).
      assert (Hg1' : geo st1' = Some (w, o)) by exact Hg1.
      bind_inv H st2 H2. bind_inv H st3 H3. bind_inv H st4 H4. bind_inv H tp H5. bind_inv H st5 H6.
      pose proof (with_top_Cr _ _ _ _ (start_deco_opC d (d_link_start d href)) H2) as R2.
      assert (Hg2 : geo st2 = Some (w, o)) by (rewrite (Cr_geo _ _ _ R2); exact Hg1').
      pose proof (render_kids_Cr _ _ _ _ IH Hk Hg2 H3) as R3.
      assert (Hg3 : geo st3 = Some (w, o)) by (rewrite (Cr_geo _ _ _ R3); exact Hg2).
      pose proof (with_top_Cr _ _ _ _ (end_deco_opC d (d_link_end d)) H4) as R4.
      assert (Hg4 : geo st4 = Some (w, o)) by (rewrite (Cr_geo _ _ _ R4); exact Hg3).
      assert (R5 : Cr st4 st5 []).
      { destruct (o_footnotes (sopts tp)).
        - pose proof (inline_text_Cr _ _ _ H6) as X. rewrite doc_chars_ftext in X. exact X.
        - ok_inv H6. eapply Cr_refl, Hg4. }
      assert (Hg5 : geo st5 = Some (w, o)) by (rewrite (Cr_geo _ _ _ R5); exact Hg4).
      pose proof (unwind_Cr _ _ _ _ Hg5 H) as R6.
      eapply Cr0_l; [exact R1|]. eapply Cr0_l; [exact R1'|].
      change (ts (RN (ILink href cs) sty) w)
        with (doc_chars (fst (d_link_start d href)) ++ kids_ts d mw o cs w ++ doc_chars (d_link_end d)).
      eapply Cr_trans; [exact R2|]. eapply Cr_trans; [exact R3|].
      eapply Cr0_r; [|exact R6]. eapply Cr0_r; eassumption.
    - (* IEm *)
      start H Hg w sz ap st1 ps R1 Hg1. eapply Cr0_l; [exact R1|].
      exact (wrap_case_Cr (start_emphasis d) (end_emphasis d) _ _ cs ps st1 st' w
               (start_deco_opC d (d_em_start d)) (end_deco_opC d (d_em_end d)) IH Hk Hg1 H).
    - (* IStrong *)
      start H Hg w sz ap st1 ps R1 Hg1. eapply Cr0_l; [exact R1|].
      exact (wrap_case_Cr (start_strong d) (end_strong d) _ _ cs ps st1 st' w
               (start_deco_opC d (d_strong_start d)) (end_deco_opC d (d_strong_end d)) IH Hk Hg1 H).
    - (* IStrikeout *)
      start H Hg w sz ap st1 ps R1 Hg1. eapply Cr0_l; [exact R1|].
      exact (wrap_case_Cr (start_strikeout d) (end_strikeout d) _ _ cs ps st1 st' w
               (start_strikeout_opC d) (end_strikeout_opC d) IH Hk Hg1 H).
    - (* ICode *)
      start H Hg w sz ap st1 ps R1 Hg1. eapply Cr0_l; [exact R1|].
      exact (wrap_case_Cr (start_code d) (end_code d) _ _ cs ps st1 st' w
               (start_deco_opC d (d_code_start d)) (end_deco_opC d (d_code_end d)) IH Hk Hg1 H).
    - (* IImg *)
      start H Hg w sz ap st1 ps R1 Hg1. bind_inv H st2 H2.
      pose proof (with_top_Cr _ _ _ _ (add_image_opC d src title) H2) as R2.
      assert (Hg2 : geo st2 = Some (w, o)) by (rewrite (Cr_geo _ _ _ R2); exact Hg1).
      pose proof (unwind_Cr _ _ _ _ Hg2 H) as R3.
      cbn [tree_stream rn_info]. eapply Cr0_l; [exact R1|]. eapply Cr0_r; eassumption.
    - (* IBlock *)
      start H Hg w sz ap st1 ps R1 Hg1. eapply Cr0_l; [exact R1|].
      pose proof (wrap_case_Cr start_block (fun s => Ok (end_block s)) _ _ cs ps st1 st' w
                    start_block_opC end_block_opC IH Hk Hg1 H) as X.
      cbn [app] in X. rewrite app_nil_r in X. exact X.
    - (* IHeader *)
      start H Hg w sz ap st1 ps R1 Hg1.
      destruct (swidth (d_header_prefix d level) =? e_prefix sz); cbn [negb] in H; [|discriminate].
      bind_inv H tp Htp. bind_inv H w' Hw. bind_inv H st2 H2. bind_inv H pp Hpp.
      destruct pp as [sub st3]. bind_inv H st4 H4. bind_inv H st5 H5. bind_inv H st6 H6.
      destruct (prefixed_Cr st1 tp _ _ w w' st2 sub st3 (kids_ts d mw o cs w') Hg1 Htp Hw)
        as (Ew & Es3 & Hi & Hr); [|exact Hpp|].
      { intros Hgp. eapply render_kids_Cr; eassumption. }
      assert (Hg3 : geo st3 = Some (w, o)) by (rewrite (geo_stack_eq _ _ Es3); exact Hg1).
      pose proof (Cr_stack_eq _ _ _ Hg1 Es3) as R3.
      pose proof (with_top_Cr _ _ _ _ start_block_opC H4) as R4.
      assert (Hg4 : geo st4 = Some (w, o)) by (rewrite (Cr_geo _ _ _ R4); exact Hg3).
      pose proof (append_Cr _ _ _ _ _ _ Hi Hr (pm_header d Pd level) (pm_header d Pd level) H5) as R5.
      assert (Hg5 : geo st5 = Some (w, o)) by (rewrite (Cr_geo _ _ _ R5); exact Hg4).
      pose proof (with_top'_Cr _ _ _ _ end_block_opC H6) as R6.
      assert (Hg6 : geo st6 = Some (w, o)) by (rewrite (Cr_geo _ _ _ R6); exact Hg5).
      pose proof (unwind_Cr _ _ _ _ Hg6 H) as R7.
      cbn [tree_stream rn_info]. rewrite Hsz. cbn [on_okT]. rewrite Ew. cbn [on_okT].
      eapply Cr0_l; [exact R1|]. eapply Cr0_l; [exact R3|]. eapply Cr0_l; [exact R4|].
      eapply Cr0_r; [|exact R7]. eapply Cr0_r; eassumption.
    - (* IDiv *)
      start H Hg w sz ap st1 ps R1 Hg1. eapply Cr0_l; [exact R1|].
      pose proof (wrap_case_Cr new_line new_line _ _ cs ps st1 st' w
                    flush_wrapping_opC flush_wrapping_opC IH Hk Hg1 H) as X.
      cbn [app] in X. rewrite app_nil_r in X. exact X.
    - (* IBlockQuote *)
      start H Hg w sz ap st1 ps R1 Hg1.
      destruct (e_prefix sz =? swidth (d_quote_prefix d)); cbn [negb] in H; [|discriminate].
      bind_inv H iw Hiw.
      bind_inv H tp Htp. bind_inv H w' Hw. bind_inv H st2 H2. bind_inv H pp Hpp.
      destruct pp as [sub st3]. bind_inv H st4 H4. bind_inv H st5 H5. bind_inv H st6 H6.
      destruct (prefixed_Cr st1 tp _ _ w w' st2 sub st3 (kids_ts d mw o cs w') Hg1 Htp Hw)
        as (Ew & Es3 & Hi & Hr); [|exact Hpp|].
      { intros Hgp. eapply render_kids_Cr; eassumption. }
      assert (Hg3 : geo st3 = Some (w, o)) by (rewrite (geo_stack_eq _ _ Es3); exact Hg1).
      pose proof (Cr_stack_eq _ _ _ Hg1 Es3) as R3.
      pose proof (with_top_Cr _ _ _ _ start_block_opC H4) as R4.
      assert (Hg4 : geo st4 = Some (w, o)) by (rewrite (Cr_geo _ _ _ R4); exact Hg3).
      pose proof (append_Cr _ _ _ _ _ _ Hi Hr (pm_quote d Pd) (pm_quote d Pd) H5) as R5.
      assert (Hg5 : geo st5 = Some (w, o)) by (rewrite (Cr_geo _ _ _ R5); exact Hg4).
      pose proof (with_top'_Cr _ _ _ _ end_block_opC H6) as R6.
      assert (Hg6 : geo st6 = Some (w, o)) by (rewrite (Cr_geo _ _ _ R6); exact Hg5).
      pose proof (unwind_Cr _ _ _ _ Hg6 H) as R7.
      cbn [tree_stream rn_info]. rewrite Hsz. cbn [on_okT]. rewrite Hiw. cbn [bind].
      rewrite Ew. cbn [on_okT].
      eapply Cr0_l; [exact R1|]. eapply Cr0_l; [exact R3|]. eapply Cr0_l; [exact R4|].
      eapply Cr0_r; [|exact R7]. eapply Cr0_r; eassumption.
    - (* IUl *)
      start H Hg w sz ap st1 ps R1 Hg1. bind_inv H st2 H2.
      cbn [tree_stream rn_info]. rewrite Hsz. cbn [on_okT].
      eapply Cr0_l; [exact R1|].
      rewrite <- (flat_map_on_okT _ (fun c w' => ts c w') cs w).
      assert (R2 : Cr st1 st2
                     (flat_map (fun b => on_okT (do iw <- usub 22 (e_min sz) (swidth (d_ul_prefix d));
                                                  width_minus (sub_new w o) (swidth (d_ul_prefix d)) iw)
                                                 (fun w' => ts b w') (ts b w)) cs)).
      { revert H2.
        apply (fold_Cr
               (fun item s =>
                  do inner_width <- usub 22 (e_min sz) (swidth (d_ul_prefix d));
                  do tp <- top s;
                  do w <- width_minus tp (swidth (d_ul_prefix d)) inner_width;
                  do s2 <- render_node d mw item (push_sub s (new_sub_renderer tp w));
                  do pp <- pop_sub s2;
                  let '(sub, s3) := pp in
                  with_top s3 (fun t => append_subrender t sub (d_ul_prefix d)
                     (repeat_chr (spacel L_prefix) (N.to_nat (swidth (d_ul_prefix d))))))
               _ w cs); [|exact Hg1].
        intros item Hitem a a' Hga Hstep.
        bind_inv Hstep iw Hiw. bind_inv Hstep tp Htp. bind_inv Hstep w' Hw.
        bind_inv Hstep s2 Hs2. bind_inv Hstep pp Hpp. destruct pp as [sub s3].
        rewrite Forall_forall in IH. rewrite forallb_forall in Hk.
        destruct (prefixed_Cr a tp _ _ w w' s2 sub s3 (ts item w') Hga Htp Hw)
          as (Ew & Es3 & Hi & Hr); [|exact Hpp|].
        { intros Hgp. apply (IH item Hitem _ _ _ (Hk item Hitem) Hgp Hs2). }
        pose proof (Cr_stack_eq _ _ _ Hga Es3) as R3.
        assert (Hn : nodoc (repeat_chr (spacel L_prefix) (N.to_nat (swidth (d_ul_prefix d)))))
          by (apply nodoc_repeat; reflexivity).
        pose proof (append_Cr _ _ _ _ _ _ Hi Hr (pm_ul d Pd) Hn Hstep) as R4.
        rewrite Hiw. cbn [bind]. rewrite Ew. cbn [on_okT]. eapply Cr0_l; eassumption. }
      assert (Hg2 : geo st2 = Some (w, o)) by (rewrite (Cr_geo _ _ _ R2); exact Hg1).
      pose proof (unwind_Cr _ _ _ _ Hg2 H) as R3.
      eapply Cr0_r; eassumption.
    - (* IOl *)
      start H Hg w sz ap st1 ps R1 Hg1. bind_inv H r Hr.
      cbn [tree_stream rn_info]. rewrite Hsz. cbn [on_okT].
      eapply Cr0_l; [exact R1|].
      rewrite <- (flat_map_on_okT _ (fun c w' => ts c w') cs w).
      pose proof (ol_items_Cr sz _ w cs st1 start r IH Hk Hg1 Hr) as R2.
      assert (Hg2 : geo (fst r) = Some (w, o)) by (rewrite (Cr_geo _ _ _ R2); exact Hg1).
      pose proof (unwind_Cr _ _ _ _ Hg2 H) as R3.
      eapply Cr0_r; eassumption.
    - (* IDl *)
      start H Hg w sz ap st1 ps R1 Hg1. bind_inv H st2 H2. bind_inv H st3 H3.
      pose proof (with_top_Cr _ _ _ _ start_block_opC H2) as R2.
      assert (Hg2 : geo st2 = Some (w, o)) by (rewrite (Cr_geo _ _ _ R2); exact Hg1).
      pose proof (render_kids_Cr _ _ _ _ IH Hk Hg2 H3) as R3.
      assert (Hg3 : geo st3 = Some (w, o)) by (rewrite (Cr_geo _ _ _ R3); exact Hg2).
      pose proof (unwind_Cr _ _ _ _ Hg3 H) as R4.
      eapply Cr0_l; [exact R1|]. eapply Cr0_l; [exact R2|]. eapply Cr0_r; eassumption.
    - (* IDt *)
      start H Hg w sz ap st1 ps R1 Hg1. bind_inv H st2 H2.
      pose proof (with_top_Cr _ _ _ _ flush_wrapping_opC H2) as R2.
      assert (Hg2 : geo st2 = Some (w, o)) by (rewrite (Cr_geo _ _ _ R2); exact Hg1).
      eapply Cr0_l; [exact R1|]. eapply Cr0_l; [exact R2|].
      exact (wrap_case_Cr (start_emphasis d) (end_emphasis d) _ _ cs ps st2 st' w
               (start_deco_opC d (d_em_start d)) (end_deco_opC d (d_em_end d)) IH Hk Hg2 H).
    - (* IDd *)
      start H Hg w sz ap st1 ps R1 Hg1. bind_inv H iw Hiw.
      bind_inv H tp Htp. bind_inv H w' Hw. bind_inv H st2 H2. bind_inv H pp Hpp.
      destruct pp as [sub st3]. bind_inv H st4 H4.
      destruct (prefixed_Cr st1 tp _ _ w w' st2 sub st3 (kids_ts d mw o cs w') Hg1 Htp Hw)
        as (Ew & Es3 & Hi & Hr); [|exact Hpp|].
      { intros Hgp. eapply render_kids_Cr; eassumption. }
      pose proof (Cr_stack_eq _ _ _ Hg1 Es3) as R3.
      assert (Hn : nodoc (ptext [32; 32])) by (apply nodoc_of_asciil; reflexivity).
      pose proof (append_Cr _ _ _ _ _ _ Hi Hr Hn Hn H4) as R4.
      assert (Hg4 : geo st4 = Some (w, o)).
      { rewrite (Cr_geo _ _ _ R4), (geo_stack_eq _ _ Es3). exact Hg1. }
      pose proof (unwind_Cr _ _ _ _ Hg4 H) as R5.
      cbn [tree_stream rn_info]. rewrite Hsz. cbn [on_okT]. rewrite Hiw. cbn [bind].
      rewrite Ew. cbn [on_okT].
      eapply Cr0_l; [exact R1|]. eapply Cr0_l; [exact R3|]. eapply Cr0_r; eassumption.
    - (* IBreak *)
      start H Hg w sz ap st1 ps R1 Hg1. bind_inv H st2 H2.
      pose proof (with_top_Cr _ _ _ _ new_line_hard_opC H2) as R2.
      assert (Hg2 : geo st2 = Some (w, o)) by (rewrite (Cr_geo _ _ _ R2); exact Hg1).
      pose proof (unwind_Cr _ _ _ _ Hg2 H) as R3.
      cbn [tree_stream rn_info]. eapply Cr0_l; [exact R1|]. eapply Cr0_l; eassumption.
    - (* ITable *)
      start H Hg w sz ap st1 ps R1 Hg1.
      bind_inv H col_sizes Hcs. bind_inv H tp Htp.
      pose proof Hg1 as Hg'. rewrite (top_geo _ _ Htp) in Hg'. injection Hg' as E1 E2.
      set (vr := o_raw (sopts tp)
                 || ((swidth_ tp <? sumN (map e_min col_sizes) + (N.of_nat (length col_sizes) - 1))
                     || (swidth_ tp =? 0))) in *.
      bind_inv H col_widths Hcw. bind_inv H st2 H2. bind_inv H st3 H3. bind_inv H st_rows Hrows.
      assert (Hcs' : tbl_col_sizes d mw rows ncols = Ok col_sizes) by exact Hcs.
      assert (Evr : tbl_vert o w col_sizes = vr) by (rewrite <- E1, <- E2; reflexivity).
      assert (Hcw' : tbl_col_widths o w col_sizes = Ok col_widths).
      { rewrite <- E1, <- E2. exact Hcw. }
      assert (Hv : vr = false -> ord = false /\ forall t, P t -> Forall posw t).
      { intros Ev. destruct (tab_cond _ _ _ Ha) as [Hraw|Hc]; [|exact Hc].
        unfold vr in Ev. rewrite E2, Hraw in Ev. discriminate. }
      pose proof (with_top_Cr _ _ _ _ start_block_opC H2) as R2.
      assert (Hg2 : geo st2 = Some (w, o)) by (rewrite (Cr_geo _ _ _ R2); exact Hg1).
      assert (R3 : Cr st2 st3 []).
      { match type of H3 with (if ?c then _ else _) = _ => destruct c end.
        - eapply with_top_Cr; [apply add_horizontal_border_width_opC|exact H3].
        - ok_inv H3. eapply Cr_refl, Hg2. }
      assert (Hg3 : geo st3 = Some (w, o)) by (rewrite (Cr_geo _ _ _ R3); exact Hg2).
      assert (Hrows' : fold_left (fun acc r => do s <- acc; row_body d mw vr col_widths r s) rows
                                 (Ok st3) = Ok st_rows) by exact Hrows.
      rewrite (ts_table _ _ _ _ _ _ Hcs' Hcw'), Evr.
      assert (R4 : Cr st3 st_rows (flat_map (row_ts vr col_widths w) rows)).
      { revert Hrows'. apply (fold_Cr (row_body d mw vr col_widths) _ w rows); [|exact Hg3].
        intros r Hr a a' Hga Hstep.
        apply Forall_flat_map in IH. rewrite Forall_forall in IH. specialize (IH r Hr).
        unfold row_kids in IH. apply Forall_flat_map in IH.
        rewrite forallb_flat_map in Hk. rewrite forallb_forall in Hk. specialize (Hk r Hr).
        unfold row_kids in Hk. rewrite forallb_flat_map in Hk.
        exact (row_body_Cr vr col_widths w r a a' Hv IH Hk Hga Hstep). }
      assert (Hg4 : geo st_rows = Some (w, o)) by (rewrite (Cr_geo _ _ _ R4); exact Hg3).
      pose proof (unwind_Cr _ _ _ _ Hg4 H) as R5.
      eapply Cr0_l; [exact R1|]. eapply Cr0_l; [exact R2|]. eapply Cr0_l; [exact R3|].
      eapply Cr0_r; eassumption.
    - (* ITableBody *) bind_inv H sz Hsz. bind_inv H ap Hap. destruct ap. discriminate.
    - (* ITableRow *) bind_inv H sz Hsz. bind_inv H ap Hap. destruct ap. discriminate.
    - (* ITableCell *) bind_inv H sz Hsz. bind_inv H ap Hap. destruct ap. discriminate.
    - (* IFragStart *)
      start H Hg w sz ap st1 ps R1 Hg1. bind_inv H st2 H2.
      pose proof (with_top'_Cr _ _ _ _ (record_frag_start_opC name) H2) as R2.
      assert (Hg2 : geo st2 = Some (w, o)) by (rewrite (Cr_geo _ _ _ R2); exact Hg1).
      pose proof (unwind_Cr _ _ _ _ Hg2 H) as R3.
      cbn [tree_stream rn_info]. eapply Cr0_l; [exact R1|]. eapply Cr0_l; eassumption.
    - (* IListItem *)
      start H Hg w sz ap st1 ps R1 Hg1. eapply Cr0_l; [exact R1|].
      pose proof (wrap_case_Cr start_block (fun s => Ok (end_block s)) _ _ cs ps st1 st' w
                    start_block_opC end_block_opC IH Hk Hg1 H) as X.
      cbn [app] in X. rewrite app_nil_r in X. exact X.
    - (* ISup *)
      start H Hg w sz ap st1 ps R1 Hg1. eapply Cr0_l; [exact R1|].
      cbn [tree_stream rn_info].
      destruct (sup_digits cs) as [digitstr|] eqn:Esd.
      + bind_inv H st2 H2.
        pose proof (inline_text_Cr _ _ _ H2) as R2.
        assert (Hg2 : geo st2 = Some (w, o)) by (rewrite (Cr_geo _ _ _ R2); exact Hg1).
        pose proof (unwind_Cr _ _ _ _ Hg2 H) as R3.
        eapply Cr0_r; eassumption.
      + exact (wrap_case_Cr (start_superscript d) (end_superscript d) _ _ cs ps st1 st' w
                 (start_deco_opC d (d_sup_start d)) (end_deco_opC d (d_sup_end d)) IH Hk Hg1 H).
  Qed.
End Thread.

(* ================================================================== *)
(* 9. tree_stream versus the width-free streams                         *)
(* ================================================================== *)

Section Pure.
  Variable d : deco.
  Variable mw : N.
  Variable o : ropts.

  Lemma kids_no_table cs :
    Forall (fun n => no_table n = true -> forall w, tree_stream d mw o n w = doc_stream d n) cs ->
    forallb no_table cs = true ->
    forall w, flat_map (fun c => tree_stream d mw o c w) cs = flat_map (doc_stream d) cs.
  Proof.
    intros HF Hn w. induction HF as [|c cs Hc _ IH]; [reflexivity|].
    cbn [forallb] in Hn. apply andb_true_iff in Hn. destruct Hn as [H1 H2].
    cbn [flat_map]. rewrite (Hc H1 w), (IH H2). reflexivity.
  Qed.

  (* without tables nothing is skipped: the stream does not depend on widths and options *)
  Theorem tree_stream_no_table :
    forall n, no_table n = true -> forall w, tree_stream d mw o n w = doc_stream d n.
  Proof.
    apply (rnode_ind' (fun n => no_table n = true -> forall w, tree_stream d mw o n w = doc_stream d n)).
    intros i sty IH Hn w.
    destruct i; cbn [direct_kids] in IH; cbn [no_table rn_info] in Hn; try discriminate;
      cbn [tree_stream doc_stream rn_info]; try reflexivity;
      repeat match goal with
             | |- context [on_okT ?r _ _] => destruct r; cbn [on_okT]
             end;
      try (rewrite (kids_no_table _ IH Hn); reflexivity).
  Qed.
End Pure.

Lemma flat_map_Forall_eq {A B} (f g : A -> list B) l :
  Forall (fun a => f a = g a) l -> flat_map f l = flat_map g l.
Proof. intros H. apply flat_map_ext_In. apply Forall_forall, H. Qed.

(* for a decorator whose affixes are all renderer-made the stream is the text of the leaves *)
Theorem doc_stream_leaf d : deco_made d -> forall n, doc_stream d n = leaf_stream n.
Proof.
  intros Hd. apply (rnode_ind' (fun n => doc_stream d n = leaf_stream n)).
  intros i sty IH.
  destruct i; cbn [direct_kids] in IH; cbn [doc_stream leaf_stream rn_info];
    rewrite ?(dm_link_start d Hd), ?(dm_link_end d Hd), ?(dm_em_start d Hd), ?(dm_em_end d Hd),
            ?(dm_strong_start d Hd), ?(dm_strong_end d Hd), ?(dm_strike_start d Hd),
            ?(dm_strike_end d Hd), ?(dm_code_start d Hd), ?(dm_code_end d Hd), ?(dm_image d Hd);
    cbn [app]; rewrite ?app_nil_r; try reflexivity; try exact (flat_map_Forall_eq _ _ _ IH).
  - (* ITable *)
    apply Forall_flat_map in IH. apply flat_map_Forall_eq. eapply Forall_impl; [|exact IH].
    intros [cells rsty] Hr. unfold row_kids in Hr. cbn [row_cells] in Hr. apply Forall_flat_map in Hr.
    apply flat_map_Forall_eq. eapply Forall_impl; [|exact Hr].
    intros [n content csty] Hc. cbn [cell_content] in Hc. exact (flat_map_Forall_eq _ _ _ Hc).
  - (* ISup *)
    destruct (sup_digits cs); [reflexivity|].
    rewrite (dm_sup_start d Hd), (dm_sup_end d Hd). cbn [app]. rewrite app_nil_r.
    exact (flat_map_Forall_eq _ _ _ IH).
Qed.

(* In general tree_stream is a subsequence of doc_stream: the only thing the renderer can do to
   the visible document characters is to leave out those of skipped table cells (never
   duplicate, invent or - outside side-by-side rows - reorder). *)
Section Sub.
  Variable d : deco.
  Variable mw : N.
  Variable o : ropts.
  Notation ts := (tree_stream d mw o).
  Notation SS := (fun n => forall w, subseq (ts n w) (doc_stream d n)).

  Lemma kids_subseq cs :
    Forall SS cs -> forall w, subseq (flat_map (fun c => ts c w) cs) (flat_map (doc_stream d) cs).
  Proof. intros HF w. apply subseq_flat_map. eapply Forall_impl; [|exact HF]. intros n H. apply H. Qed.

  Lemma cells_ts_subseq : forall cells wsl,
    Forall (fun c => Forall SS (cell_content c)) cells ->
    subseq (cells_ts ts cells wsl)
           (flat_map (fun c => match c with RCell _ k _ => flat_map (doc_stream d) k end) cells).
  Proof.
    induction cells as [|[n content csty] cells IH]; intros wsl HF.
    - destruct wsl; constructor.
    - inversion HF as [|? ? HF1 HF2]; subst. cbn [cell_content] in HF1.
      destruct wsl as [|[cw_|] wsl]; cbn [cells_ts flat_map].
      + apply subseq_nil_l.
      + apply subseq_app; [apply (kids_subseq _ HF1)|apply IH, HF2].
      + apply subseq_skip_app, IH, HF2.
  Qed.

  Theorem tree_stream_subseq : forall n w, subseq (ts n w) (doc_stream d n).
  Proof.
    apply (rnode_ind' SS). intros i sty IH w.
    destruct i; cbn [direct_kids] in IH;
      try (cbn [tree_stream doc_stream rn_info];
           repeat match goal with
                  | |- context [on_okT ?r _ _] => destruct r; cbn [on_okT]
                  end;
           try match goal with |- context [sup_digits ?cs] => destruct (sup_digits cs) end;
           first [ apply subseq_refl
                 | exact (kids_subseq _ IH _)
                 | apply subseq_app; [apply subseq_refl|
                     apply subseq_app; [exact (kids_subseq _ IH _)|apply subseq_refl]] ]).
    (* ITable *)
    apply Forall_flat_map in IH.
    assert (Hall : subseq
              (flat_map (fun r => match r with
                                  | RRow rcells _ =>
                                    flat_map (fun c => match c with
                                                       | RCell _ content _ =>
                                                         flat_map (fun c0 => ts c0 w) content
                                                       end) rcells
                                  end) rows)
              (doc_stream d (RN (ITable rows ncols) sty))).
    { cbn [doc_stream rn_info]. apply subseq_flat_map. eapply Forall_impl; [|exact IH].
      intros [cells rsty] Hr. unfold row_kids in Hr. apply Forall_flat_map in Hr.
      cbn [row_cells] in Hr. apply subseq_flat_map. eapply Forall_impl; [|exact Hr].
      intros [n content csty] Hc. cbn [cell_content] in Hc. apply (kids_subseq _ Hc). }
    destruct (tbl_col_sizes d mw rows ncols) as [col_sizes| | |] eqn:E1;
      [destruct (tbl_col_widths o w col_sizes) as [col_widths| | |] eqn:E2|..];
      try (cbn [tree_stream rn_info]; rewrite E1; cbn [on_okT]; try rewrite E2; cbn [on_okT];
           exact Hall).
    rewrite (ts_table d mw o rows ncols sty w _ _ E1 E2). cbn [doc_stream rn_info].
    apply subseq_flat_map. eapply Forall_impl; [|exact IH].
    intros [cells rsty] Hr. unfold row_kids in Hr. apply Forall_flat_map in Hr.
    cbn [row_cells] in Hr. unfold row_ts.
    destruct (cell_widths (tbl_vert o w col_sizes) col_widths cells 0) as [cws| | |];
      cbn [on_okT]; try apply (cells_ts_subseq _ _ Hr);
      (apply subseq_flat_map; eapply Forall_impl; [|exact Hr];
       intros [n content csty] Hc; apply (kids_subseq _ Hc)).
  Qed.
End Sub.
Print Assumptions tree_stream_subseq.

(* ================================================================== *)
(* 10. MAIN THEOREMS: render_node                                       *)
(* ================================================================== *)

Lemma no_table_kids i sty : no_table (RN i sty) = true -> forallb no_table (direct_kids i) = true.
Proof. destruct i; cbn [no_table rn_info direct_kids]; intros H; try exact H; try reflexivity; discriminate. Qed.

Lemma Cr_unfold ord P st st' t s rest :
  Cr ord P st st' t -> stack st = s :: rest -> Iv s -> P t ->
  exists s', stack st' = s' :: rest /\ swidth_ s' = swidth_ s /\ sopts s' = sopts s /\ Iv s' /\
             rel ord (out_stream s') (out_stream s ++ t).
Proof.
  intros (s0 & s' & rest0 & E1 & E2 & [S1 S2] & K) Es Hi HP. rewrite Es in E1. injection E1 as <- <-.
  destruct (K Hi) as [Hi' R]. exists s'. repeat (split; [assumption|]). exact (R HP).
Qed.

Lemma stack_geo st s rest : stack st = s :: rest -> geo st = Some (swidth_ s, sopts s).
Proof. intros E. unfold geo, shape. rewrite E. reflexivity. Qed.

(* (A) TABLE-FREE TREES: exact order, every decorator with renderer-made prefixes, all options,
   every width, every white-space mode, every state satisfying the sub-renderer invariant Iv.
   The top sub-renderer receives exactly the visible document characters of the tree, in
   document order, each once; the rest of the stack is untouched. *)
Theorem c03_render_node_no_table : forall d mw n st st' s rest,
  prefix_made d -> no_table n = true ->
  stack st = s :: rest -> Iv s ->
  render_node d mw n st = Ok st' ->
  exists s', stack st' = s' :: rest /\ swidth_ s' = swidth_ s /\ sopts s' = sopts s /\ Iv s' /\
             out_stream s' = out_stream s ++ doc_stream d n.
Proof.
  intros d mw n st st' s rest Hd Hn Es Hi H.
  pose proof (node_cs_all d mw (sopts s) true (fun _ => True) (fun _ _ _ => conj I I) Hd
                no_table no_table_kids) as K.
  assert (Htab : forall rows nc sty, no_table (RN (ITable rows nc) sty) = true ->
            o_raw (sopts s) = true \/ (true = false /\ forall t : text, True -> Forall posw t))
    by (intros; discriminate).
  specialize (K Htab n st st' (swidth_ s) Hn (stack_geo _ _ _ Es) H).
  destruct (Cr_unfold _ _ _ _ _ _ _ K Es Hi I) as (s' & A & B & C & D & E).
  exists s'. repeat (split; [assumption|]). cbn [rel] in E.
  rewrite (tree_stream_no_table d mw (sopts s) n Hn) in E. exact E.
Qed.
Print Assumptions c03_render_node_no_table.

(* (B) RAW MODE, trees with tables: every table row is laid out vertically, the order is kept;
   cells that get no width (only when the sub-renderer has width 0) are skipped, as
   tree_stream says. *)
Theorem c03_render_node_raw : forall d mw n st st' s rest,
  prefix_made d -> o_raw (sopts s) = true ->
  stack st = s :: rest -> Iv s ->
  render_node d mw n st = Ok st' ->
  exists s', stack st' = s' :: rest /\ swidth_ s' = swidth_ s /\ sopts s' = sopts s /\ Iv s' /\
             out_stream s' = out_stream s ++ tree_stream d mw (sopts s) n (swidth_ s).
Proof.
  intros d mw n st st' s rest Hd Hraw Es Hi H.
  pose proof (node_cs_all d mw (sopts s) true (fun _ => True) (fun _ _ _ => conj I I) Hd
                (fun _ => true)) as K.
  assert (Hk : forall (i : rinfo) (sty : cstyle), true = true ->
                 forallb (fun _ : rnode => true) (direct_kids i) = true).
  { intros i sty _. apply forallb_forall. reflexivity. }
  specialize (K Hk (fun _ _ _ _ => or_introl Hraw) n st st' (swidth_ s) eq_refl
                (stack_geo _ _ _ Es) H).
  destruct (Cr_unfold _ _ _ _ _ _ _ K Es Hi I) as (s' & A & B & C & D & E).
  exists s'. repeat (split; [assumption|]). exact E.
Qed.
Print Assumptions c03_render_node_raw.

(* (C) ALL TREES, all options: the multiset version.  Side-by-side table rows interleave the
   lines of their cells, so only a permutation can hold.  Hypothesis: the visible document
   characters have a positive width -- needed because a row all of whose cells `sub_empty`
   calls empty (no finished line, lengths 0) is dropped, and a cell holding only zero-width
   characters counts as empty (finding zero_width_row_dropped below). *)
Theorem c03_render_node_perm : forall d mw n st st' s rest,
  prefix_made d ->
  Forall posw (tree_stream d mw (sopts s) n (swidth_ s)) ->
  stack st = s :: rest -> Iv s ->
  render_node d mw n st = Ok st' ->
  exists s', stack st' = s' :: rest /\ swidth_ s' = swidth_ s /\ sopts s' = sopts s /\ Iv s' /\
             Permutation (out_stream s') (out_stream s ++ tree_stream d mw (sopts s) n (swidth_ s)).
Proof.
  intros d mw n st st' s rest Hd Hpos Es Hi H.
  assert (Papp : forall a b : text, Forall posw (a ++ b) -> Forall posw a /\ Forall posw b).
  { intros a b Hab. apply Forall_app. exact Hab. }
  pose proof (node_cs_all d mw (sopts s) false (Forall posw) Papp Hd (fun _ => true)) as K.
  assert (Hk : forall (i : rinfo) (sty : cstyle), true = true ->
                 forallb (fun _ : rnode => true) (direct_kids i) = true).
  { intros i sty _. apply forallb_forall. reflexivity. }
  specialize (K Hk (fun _ _ _ _ => or_intror (conj eq_refl (fun t Ht => Ht))) n st st' (swidth_ s)
                eq_refl (stack_geo _ _ _ Es) H).
  destruct (Cr_unfold _ _ _ _ _ _ _ K Es Hi Hpos) as (s' & A & B & C & D & E).
  exists s'. repeat (split; [assumption|]). exact E.
Qed.
Print Assumptions c03_render_node_perm.

(* ================================================================== *)
(* 11. MAIN THEOREMS: render_tree                                       *)
(* ================================================================== *)

(* the footnote list (finalise_from / fmt_links) is made of L_foot characters only: the link
   targets are document text (labels >= 16 in the href attribute) but `sub_finalise` relabels
   them L_foot, so they do not count as document characters of the body: they are accounted
   for by property C08 (Proofs/Footnotes.v: render_tree_footnotes, render_tree_output). *)
Definition madeT (t : text) : Prop := Forall (fun c => lab c <? 16 = true) t.

Lemma madeT_nl t : madeT t -> madeT (nl_to_space t).
Proof.
  unfold madeT, nl_to_space. intros H. apply Forall_forall. intros c Hc.
  apply in_map_iff in Hc. destruct Hc as (x & <- & Hx). rewrite Forall_forall in H.
  destruct (cp x =? 10); [reflexivity|apply H, Hx].
Qed.

Lemma finalise_entries_nodoc urls : forall k,
  Forall (fun l => nodoc (entry_text l)) (finalise_from k urls).
Proof.
  induction urls as [|u urls IH]; intros k; cbn [finalise_from]; constructor; [|apply IH].
  unfold entry_text. rewrite tl_string_from_string. apply nodoc_Forall, madeT_nl.
  apply Forall_app. split.
  - unfold ftext, of_asciil. apply Forall_forall. intros c Hc. apply in_map_iff in Hc.
    destruct Hc as (x & <- & _). reflexivity.
  - unfold relabel. apply Forall_forall. intros c Hc. apply in_map_iff in Hc.
    destruct Hc as (x & <- & _). reflexivity.
Qed.

Lemma entry_groups_nodoc es p new :
  entry_groups es p new -> nodoc p -> Forall nodoc es -> lstream new = [].
Proof.
  induction 1 as [p|e es p g rest Hg Eg _ IH]; intros Hp He; [reflexivity|].
  inversion He as [|? ? He1 He2]; subst.
  rewrite lstream_app, (IH nodoc_nil He2), app_nil_r. unfold lstream. rewrite Eg.
  apply nodoc_app; assumption.
Qed.

Lemma fmt_links_pfc ls : forall s, pfc s -> pfc (fmt_links s ls).
Proof.
  induction ls as [|l ls IH]; intros s Hp; cbn [fmt_links]; [exact Hp|].
  destruct (fl_strings s (tl_tagged_strings l) tl_new 0) as [s1 wl]. apply IH.
  destruct (add_line_text s1 wl) as (l' & _ & _ & E3). unfold pfc, pf_text. rewrite E3. reflexivity.
Qed.

Lemma fmt_links_out s ls :
  pfc s -> Forall (fun l => nodoc (entry_text l)) ls ->
  pfc (fmt_links s ls) /\ out_stream (fmt_links s ls) = out_stream s /\
  wrapping (fmt_links s ls) = wrapping s.
Proof.
  intros Hp Hl. split; [apply fmt_links_pfc, Hp|].
  destruct (fmt_links_spec ls s) as (new & A & B & C & _). split; [|exact C].
  unfold out_stream. rewrite A, C, lstream_app.
  rewrite (entry_groups_nodoc _ _ _ B); [rewrite app_nil_r; reflexivity|rewrite Hp; apply nodoc_nil|].
  apply Forall_forall. intros e He. apply in_map_iff in He. destruct He as (l & <- & Hin).
  rewrite Forall_forall in Hl. apply Hl, Hin.
Qed.

(* render_tree = render_node into a fresh sub-renderer, then (maybe) the footnote list, which
   adds no visible document character *)
Lemma render_tree_body d mw o width tree s :
  render_tree d mw o width tree = Ok s ->
  exists st body,
    render_node d mw tree (mkrst [sub_new width o] []) = Ok st /\ stack st = [body] /\
    (Iv body -> pfc s /\ out_stream s = out_stream body).
Proof.
  intros H. destruct (render_tree_footnotes d mw o width tree s H) as (st & body & A & B & _ & _ & _ & F).
  exists st, body. split; [exact A|]. split; [exact B|]. intros [Hp Hw].
  destruct (if o_footnotes o then link_targets d mw o tree width else []) as [|u L'].
  - subst s. auto.
  - destruct F as (b1 & Hb1 & ->). destruct (start_block_opS _ _ Hb1 Hp) as [P1 E1].
    rewrite app_nil_r in E1.
    destruct (fmt_links_out b1 (finalise_from 1 (link_targets d mw o tree width)) P1
                (finalise_entries_nodoc _ 1)) as (P2 & E2 & _).
    split; [exact P2|congruence].
Qed.

(* (A) table-free trees *)
Theorem c03_render_tree_no_table : forall d mw o width tree s,
  prefix_made d -> no_table tree = true ->
  render_tree d mw o width tree = Ok s ->
  out_stream s = doc_stream d tree /\
  forall ls, sub_into_lines s = Ok ls -> filter docp (flat_map rline_string ls) = doc_stream d tree.
Proof.
  intros d mw o width tree s Hd Hn H.
  destruct (render_tree_body _ _ _ _ _ _ H) as (st & body & A & B & C).
  destruct (c03_render_node_no_table d mw tree (mkrst [sub_new width o] []) st (sub_new width o) [] Hd Hn eq_refl
              (Iv_sub_new width o) A) as (s' & E1 & _ & _ & Hi & E2).
  rewrite B in E1. injection E1 as <-. destruct (C Hi) as [Hp E]. cbn [out_stream sub_new] in E2.
  assert (Es : out_stream s = doc_stream d tree) by (rewrite E, E2; reflexivity).
  split; [exact Es|]. intros ls Hls. rewrite <- Es. exact (sub_into_lines_stream _ _ Hls Hp).
Qed.
Print Assumptions c03_render_tree_no_table.

(* ... with a decorator whose affixes are renderer-made (plain, rich, trivial, custom): the
   output shows exactly the text of the leaves *)
Corollary c03_render_tree_leaves : forall d mw o width tree s ls,
  deco_made d -> no_table tree = true ->
  render_tree d mw o width tree = Ok s -> sub_into_lines s = Ok ls ->
  filter docp (flat_map rline_string ls) = leaf_stream tree.
Proof.
  intros d mw o width tree s ls Hd Hn H Hls.
  destruct (c03_render_tree_no_table d mw o width tree s (dm_prefix d Hd) Hn H) as [_ K].
  rewrite (K ls Hls). apply doc_stream_leaf, Hd.
Qed.
Print Assumptions c03_render_tree_leaves.

(* (B) raw mode *)
Theorem c03_render_tree_raw : forall d mw o width tree s,
  prefix_made d -> o_raw o = true ->
  render_tree d mw o width tree = Ok s ->
  out_stream s = tree_stream d mw o tree width /\
  forall ls, sub_into_lines s = Ok ls ->
             filter docp (flat_map rline_string ls) = tree_stream d mw o tree width.
Proof.
  intros d mw o width tree s Hd Hraw H.
  destruct (render_tree_body _ _ _ _ _ _ H) as (st & body & A & B & C).
  destruct (c03_render_node_raw d mw tree (mkrst [sub_new width o] []) st (sub_new width o) [] Hd Hraw eq_refl
              (Iv_sub_new width o) A) as (s' & E1 & _ & _ & Hi & E2).
  rewrite B in E1. injection E1 as <-. destruct (C Hi) as [Hp E].
  cbn [out_stream sub_new sopts swidth_] in E2.
  assert (Es : out_stream s = tree_stream d mw o tree width) by (rewrite E, E2; reflexivity).
  split; [exact Es|]. intros ls Hls. rewrite <- Es. exact (sub_into_lines_stream _ _ Hls Hp).
Qed.
Print Assumptions c03_render_tree_raw.

(* (C) all trees: multiset *)
Theorem c03_render_tree_perm : forall d mw o width tree s,
  prefix_made d -> Forall posw (tree_stream d mw o tree width) ->
  render_tree d mw o width tree = Ok s ->
  Permutation (out_stream s) (tree_stream d mw o tree width) /\
  forall ls, sub_into_lines s = Ok ls ->
             Permutation (filter docp (flat_map rline_string ls)) (tree_stream d mw o tree width).
Proof.
  intros d mw o width tree s Hd Hpos H.
  destruct (render_tree_body _ _ _ _ _ _ H) as (st & body & A & B & C).
  destruct (c03_render_node_perm d mw tree (mkrst [sub_new width o] []) st (sub_new width o) [] Hd Hpos eq_refl
              (Iv_sub_new width o) A) as (s' & E1 & _ & _ & Hi & E2).
  rewrite B in E1. injection E1 as <-. destruct (C Hi) as [Hp E].
  cbn [out_stream sub_new sopts swidth_] in E2.
  assert (Es : Permutation (out_stream s) (tree_stream d mw o tree width)) by (rewrite E; exact E2).
  split; [exact Es|]. intros ls Hls.
  change (filter docp (flat_map rline_string ls)) with (lstream ls).
  rewrite (sub_into_lines_stream _ _ Hls Hp). exact Es.
Qed.
Print Assumptions c03_render_tree_perm.

(* if no cell is skipped (a computable check: the two streams are equal) the multiset is that
   of ALL visible document characters of the tree *)
Corollary c03_render_tree_perm_all : forall d mw o width tree s ls,
  prefix_made d -> tree_stream d mw o tree width = doc_stream d tree ->
  Forall posw (doc_stream d tree) ->
  render_tree d mw o width tree = Ok s -> sub_into_lines s = Ok ls ->
  Permutation (filter docp (flat_map rline_string ls)) (doc_stream d tree).
Proof.
  intros d mw o width tree s ls Hd E Hpos H Hls. rewrite <- E in *.
  exact (proj2 (c03_render_tree_perm d mw o width tree s Hd Hpos H) ls Hls).
Qed.

(* ---- the public routes (Api.v): the string / the tagged lines returned ---- *)
Lemma filter_docp_lines ls :
  filter docp (flat_map (fun l => rline_string l ++ [newline_chr]) ls) =
  filter docp (flat_map rline_string ls).
Proof.
  induction ls as [|l ls IH]; cbn [flat_map]; [reflexivity|].
  rewrite !filter_app, IH. cbn [filter docp newline_chr ws negb andb]. rewrite app_nil_r. reflexivity.
Qed.

Lemma tl_string_into_tagged r : tl_string (rline_into_tagged r) = rline_string r.
Proof.
  destruct r as [l|b t]; cbn [rline_into_tagged rline_string]; [reflexivity|].
  rewrite TableProof.tl_string_push. reflexivity.
Qed.

Theorem c03_string_from_read : forall ist dr (c : config) doc width tree t,
  deco_made (c_deco c) -> to_render_tree ist dr c doc = Ok tree -> no_table tree = true ->
  string_from_read ist dr c doc width = Ok t ->
  filter docp t = leaf_stream tree.
Proof.
  intros ist dr c doc width tree t Hd Ht Hn H. unfold string_from_read in H. rewrite Ht in H.
  cbn [bind] in H. bind_inv H s Hs. unfold render_with_context in Hs.
  destruct (width =? 0); [discriminate|]. unfold sub_into_string in H. bind_inv H ls Hls. ok_inv H.
  rewrite filter_docp_lines. exact (c03_render_tree_leaves _ _ _ _ _ _ _ Hd Hn Hs Hls).
Qed.
Print Assumptions c03_string_from_read.

Theorem c03_lines_from_read : forall ist dr (c : config) doc width tree tls,
  deco_made (c_deco c) -> to_render_tree ist dr c doc = Ok tree -> no_table tree = true ->
  lines_from_read ist dr c doc width = Ok tls ->
  filter docp (flat_map tl_string tls) = leaf_stream tree.
Proof.
  intros ist dr c doc width tree tls Hd Ht Hn H. unfold lines_from_read in H. rewrite Ht in H.
  cbn [bind] in H. bind_inv H s Hs. unfold render_with_context in Hs.
  destruct (width =? 0); [discriminate|]. bind_inv H ls Hls. ok_inv H.
  rewrite flat_map_concat_map, map_map, <- flat_map_concat_map.
  rewrite (flat_map_ext _ _ tl_string_into_tagged).
  exact (c03_render_tree_leaves _ _ _ _ _ _ _ Hd Hn Hs Hls).
Qed.
Print Assumptions c03_lines_from_read.

(* ================================================================== *)
(* 12. The decorators of the model satisfy the conditions               *)
(* ================================================================== *)

Lemma doc_chars_dtext l : doc_chars (dtext l) = [].
Proof. apply nodoc_doc_chars, nodoc_of_asciil. reflexivity. Qed.
Lemma nodoc_ptext l : nodoc (ptext l).
Proof. apply nodoc_of_asciil. reflexivity. Qed.
Lemma nodoc_hashes level : nodoc (hashes level).
Proof. unfold hashes. apply nodoc_app; [apply nodoc_repeat; reflexivity|apply nodoc_ptext]. Qed.
Lemma doc_chars_relabel_deco t : doc_chars (relabel L_deco t) = [].
Proof. apply nodoc_doc_chars, nodoc_relabel. reflexivity. Qed.

Lemma prefix_made_plain : prefix_made plain_deco.
Proof.
  split; cbn [plain_deco d_header_prefix d_quote_prefix d_ul_prefix d_ol_prefix]; intros;
    first [apply nodoc_hashes|apply nodoc_ptext].
Qed.
Lemma prefix_made_rich : prefix_made rich_deco.
Proof.
  split; cbn [rich_deco d_header_prefix d_quote_prefix d_ul_prefix d_ol_prefix]; intros;
    first [apply nodoc_hashes|apply nodoc_ptext].
Qed.
Lemma prefix_made_trivial : prefix_made trivial_deco.
Proof.
  split; cbn [trivial_deco d_header_prefix d_quote_prefix d_ul_prefix d_ol_prefix]; intros;
    apply nodoc_nil.
Qed.

Theorem deco_made_plain : deco_made plain_deco.
Proof.
  split; [apply prefix_made_plain|..]; intros; try reflexivity.
  cbn [plain_deco d_image fst]. rewrite !doc_chars_app, !doc_chars_dtext, app_nil_r. reflexivity.
Qed.
Theorem deco_made_rich : deco_made rich_deco.
Proof. split; [apply prefix_made_rich|..]; intros; reflexivity. Qed.
Theorem deco_made_trivial : deco_made trivial_deco.
Proof. split; [apply prefix_made_trivial|..]; intros; reflexivity. Qed.

Lemma nodoc_flat_repeat (t : text) n : nodoc t -> nodoc (flat_map (fun _ : unit => t) (repeat tt n)).
Proof.
  intros H. induction n as [|n IH]; cbn [repeat flat_map]; [apply nodoc_nil|apply nodoc_app; assumption].
Qed.

Theorem deco_made_custom lks lke ems eme sts ste sks ske cds cde ims ime hdr qt ul olsuf :
  deco_made (custom_deco lks lke ems eme sts ste sks ske cds cde ims ime hdr qt ul olsuf).
Proof.
  split; [split|..]; intros;
    cbn [custom_deco d_header_prefix d_quote_prefix d_ul_prefix d_ol_prefix d_link_start d_link_end
         d_em_start d_em_end d_strong_start d_strong_end d_strike_start d_strike_end d_code_start
         d_code_end d_sup_start d_sup_end d_image fst];
    try apply doc_chars_relabel_deco; try apply doc_chars_dtext;
    try (apply nodoc_relabel; reflexivity).
  - apply nodoc_app; [|apply nodoc_ptext]. apply nodoc_flat_repeat, nodoc_relabel. reflexivity.
  - apply nodoc_app; [apply nodoc_ptext|apply nodoc_relabel; reflexivity].
  - rewrite !doc_chars_app, !doc_chars_relabel_deco, app_nil_r. reflexivity.
Qed.
Print Assumptions deco_made_custom.

(* ================================================================== *)
(* 13. Non-vacuity examples and findings                                *)
(* ================================================================== *)

Lemma posw_forallb t : forallb (fun c => 0 <? cw0 c) t = true -> Forall posw t.
Proof. intros H. apply Forall_forall. intros c Hc. rewrite forallb_forall in H. exact (H c Hc). Qed.

Definition cx_n (i : rinfo) : rnode := RN i cstyle0.
(* ASCII text, labels k, k+1, ... (Conserve.Al: 32 and 10 are whitespace) *)
Definition cx_t (k : N) (l : list N) : rnode := cx_n (IText (Al k l)).
Definition cx_show (r : res subr) : res (list (list N)) :=
  do s <- r; do ls <- sub_into_lines s; Ok (map (fun l => cps (rline_string l)) ls).
(* the visible document characters of the output lines, as (code point, label) *)
Definition cx_labs (r : res subr) : res (list (N * N)) :=
  do s <- r; do ls <- sub_into_lines s;
  Ok (map (fun c => (cp c, lab c)) (filter docp (flat_map rline_string ls))).
Definition cx_pairs (t : text) : list (N * N) := map (fun c => (cp c, lab c)) t.

(* ---- (A) a tree without tables:
   <h2>Hi <em>you</em></h2><p>ab <a href=u>cd</a> <s>x y</s> e<sup>12</sup></p>
   <ul><li>one two three</li><li><img src=s alt=pic></li></ul><blockquote>q r</blockquote>
   plain decorator, footnotes and unicode strikeout on, width 9 ---- *)
Definition cx1 : rnode :=
  cx_n (IContainer
    [ cx_n (IHeader 2 [cx_t 16 [72;105;32]; cx_n (IEm [cx_t 20 [121;111;117]])]);
      cx_n (IBlock [cx_t 30 [97;98;32]; cx_n (ILink (Al 200 [117]) [cx_t 40 [99;100]]); cx_t 45 [32];
                    cx_n (IStrikeout [cx_t 50 [120;32;121]]); cx_t 55 [32;101];
                    cx_n (ISup [cx_t 60 [49;50]])]);
      cx_n (IUl [cx_n (IListItem [cx_t 70 [111;110;101;32;116;119;111;32;116;104;114;101;101]]);
                 cx_n (IListItem [cx_n (IImg (Al 210 [115]) (Al 90 [112;105;99]))])]);
      cx_n (IBlockQuote [cx_t 100 [113;32;114]]) ]).
Definition cx_o1 : ropts := render_options cfg_plain.

Example cx1_output :
  cx_show (render_tree plain_deco 3 cx_o1 9 cx1) =
  Ok [[35; 35; 32; 72; 105; 32; 121; 111; 117]; [];                     (* ## Hi you *)
      [97; 98]; [91; 99; 100; 93; 91; 49; 93; 32; 120; 822];             (* ab / [cd][1] x̶ *)
      [121; 822; 32; 101; 185; 178];                                     (* y̶ e¹² *)
      [42; 32; 111; 110; 101; 32; 116; 119; 111];                        (* * one two *)
      [32; 32; 116; 104; 114; 101; 101]; [42; 32; 91; 112; 105; 99; 93]; (*   three / * [pic] *)
      []; [62; 32; 113; 32; 114]; []; [91; 49; 93; 58; 32; 117]].        (* > q r / [1]: u *)
Proof. vm_compute. reflexivity. Qed.

Example cx1_hyps : no_table cx1 = true /\ exists s, render_tree plain_deco 3 cx_o1 9 cx1 = Ok s.
Proof. split; [reflexivity|]. eexists. vm_compute. reflexivity. Qed.

(* the theorem applies ... *)
Example cx1_theorem : forall s ls,
  render_tree plain_deco 3 cx_o1 9 cx1 = Ok s -> sub_into_lines s = Ok ls ->
  filter docp (flat_map rline_string ls) = leaf_stream cx1.
Proof.
  intros s ls H Hls.
  exact (c03_render_tree_leaves plain_deco 3 cx_o1 9 cx1 s ls deco_made_plain eq_refl H Hls).
Qed.
(* ... and this is what it says here: 30 labelled characters, in document order (the digits
   of <sup> as superscript digits with the labels of the digits); "[", "]", "[1]", "##", "*",
   ">", U+0336 and the footnote "[1]: u" (the target relabelled L_foot) are renderer-made *)
Example cx1_stream :
  cx_labs (render_tree plain_deco 3 cx_o1 9 cx1) = Ok (cx_pairs (leaf_stream cx1)) /\
  cx_pairs (leaf_stream cx1) =
  [(72, 16); (105, 17); (121, 20); (111, 21); (117, 22); (97, 30); (98, 31); (99, 40); (100, 41);
   (120, 50); (121, 52); (101, 56); (185, 60); (178, 61); (111, 70); (110, 71); (101, 72);
   (116, 74); (119, 75); (111, 76); (116, 78); (104, 79); (114, 80); (101, 81); (101, 82);
   (112, 90); (105, 91); (99, 92); (113, 100); (114, 102)].
Proof. split; vm_compute; reflexivity. Qed.

(* ---- (B)/(C) a tree with a table:  x <table><tr><td>aa bb<td>cc dd<tr><td>e<td>f</table> y
   at width 7: the cells of the first row wrap to two lines each ---- *)
Definition cx_cell (k : N) (l : list N) : rcell := RCell 1 [cx_t k l] cstyle0.
Definition cx2 : rnode :=
  cx_n (IContainer [ cx_t 16 [120;32];
    cx_n (ITable [RRow [cx_cell 20 [97;97;32;98;98]; cx_cell 30 [99;99;32;100;100]] cstyle0;
                  RRow [cx_cell 40 [101]; cx_cell 50 [102]] cstyle0] 2);
    cx_t 60 [121]]).

Example cx2_output :
  cx_show (render_tree plain_deco 3 cx_o1 7 cx2) =
  Ok [[120]; []; [9472; 9472; 9472; 9516; 9472; 9472; 9472];
      [97; 97; 32; 9474; 99; 99; 32]; [98; 98; 32; 9474; 100; 100; 32];   (* aa |cc  / bb |dd  *)
      [9472; 9472; 9472; 9532; 9472; 9472; 9472];
      [101; 32; 32; 9474; 102; 32; 32];
      [9472; 9472; 9472; 9524; 9472; 9472; 9472]; [121]].
Proof. vm_compute. reflexivity. Qed.

(* side by side: the characters are all there, each once, but NOT in document order
   (aa cc bb dd): only the multiset statement can hold *)
Example cx2_interleaved :
  cx_labs (render_tree plain_deco 3 cx_o1 7 cx2) =
  Ok [(120, 16); (97, 20); (97, 21); (99, 30); (99, 31); (98, 23); (98, 24); (100, 33); (100, 34);
      (101, 40); (102, 50); (121, 60)] /\
  cx_pairs (tree_stream plain_deco 3 cx_o1 cx2 7) =
  [(120, 16); (97, 20); (97, 21); (98, 23); (98, 24); (99, 30); (99, 31); (100, 33); (100, 34);
   (101, 40); (102, 50); (121, 60)].
Proof. split; vm_compute; reflexivity. Qed.

Example cx2_theorem_perm : forall s ls,
  render_tree plain_deco 3 cx_o1 7 cx2 = Ok s -> sub_into_lines s = Ok ls ->
  Permutation (filter docp (flat_map rline_string ls)) (tree_stream plain_deco 3 cx_o1 cx2 7).
Proof.
  intros s ls H Hls.
  refine (proj2 (c03_render_tree_perm plain_deco 3 cx_o1 7 cx2 s prefix_made_plain _ H) ls Hls).
  apply posw_forallb. vm_compute. reflexivity.
Qed.

(* raw mode: rows are stacked, document order is kept *)
Definition cx_o1raw : ropts := render_options (set_raw cfg_plain true).
Example cx2_raw :
  cx_show (render_tree plain_deco 3 cx_o1raw 7 cx2) =
  Ok [[120]; []; [97; 97; 32; 98; 98]; [99; 99; 32; 100; 100]; [101]; [102]; [121]] /\
  cx_labs (render_tree plain_deco 3 cx_o1raw 7 cx2) =
  Ok (cx_pairs (tree_stream plain_deco 3 cx_o1raw cx2 7)).
Proof. split; vm_compute; reflexivity. Qed.
Example cx2_theorem_raw : forall s ls,
  render_tree plain_deco 3 cx_o1raw 7 cx2 = Ok s -> sub_into_lines s = Ok ls ->
  filter docp (flat_map rline_string ls) = tree_stream plain_deco 3 cx_o1raw cx2 7.
Proof.
  intros s ls H Hls.
  exact (proj2 (c03_render_tree_raw plain_deco 3 cx_o1raw 7 cx2 s prefix_made_plain eq_refl H) ls Hls).
Qed.

(* ---- overflow: a character wider than the block.  Overflow off: the render fails with
   TooNarrow (nothing is output, nothing is lost silently); overflow on: it is kept ---- *)
Definition cx_wide : chr := mkchr 19990 (Some 2) false 16.
Example cx_too_narrow :
  cx_show (render_tree plain_deco 3 cx_o1 1 (cx_n (IBlock [cx_n (IText [cx_wide])]))) = TooNarrow /\
  cx_labs (render_tree plain_deco 3 (render_options (set_overflow cfg_plain)) 1
                       (cx_n (IBlock [cx_n (IText [cx_wide])]))) = Ok [(19990, 16)].
Proof. split; vm_compute; reflexivity. Qed.

(* ---- FINDING (new, minor): zero_width_row_dropped.  A table row all of whose cells hold only
   zero-width characters (U+200B, a lone combining mark, ...) is dropped although its cell has
   a width: `sub_empty`/`wb_is_empty` judge emptiness by the length fields, and a zero-width
   word has length 0.  The same character outside a table (or next to a character of positive
   width in the cell) is kept.  This is why c03_render_node_perm / c03_render_tree_perm need
   the hypothesis that the visible document characters have a positive width; the table-free
   and the raw-mode theorems do not need it (vertical rows are never dropped).
   Reachable from HTML and confirmed on the implementation with the harness probe:
     <table><tr><td>abc</td></tr><tr><td>&#x200b;</td></tr></table>   at width 20 renders
     "───\nabc\n───\n"   (with <td>x&#x200b;</td> the second row "x\u{200b}" is there). ---- *)
Definition cx_zw (k : N) : chr := mkchr 8203 (Some 0) false k.
Definition cx3 : rnode :=
  cx_n (ITable [RRow [cx_cell 20 [97;98;99]] cstyle0;
                RRow [RCell 1 [cx_n (IText [cx_zw 30])] cstyle0] cstyle0] 1).
Example zero_width_row_dropped :
  cx_show (render_tree plain_deco 3 cx_o1 10 cx3) = Ok [[9472; 9472; 9472]; [97; 98; 99]; [9472; 9472; 9472]] /\
  cx_labs (render_tree plain_deco 3 cx_o1 10 cx3) = Ok [(97, 20); (98, 21); (99, 22)] /\
  cx_pairs (tree_stream plain_deco 3 cx_o1 cx3 10) = [(97, 20); (98, 21); (99, 22); (8203, 30)] /\
  forallb (fun c => 0 <? cw0 c) (tree_stream plain_deco 3 cx_o1 cx3 10) = false.
Proof. repeat split; vm_compute; reflexivity. Qed.
(* the same text outside a table: kept (theorem (A) covers zero-width characters) *)
Example zero_width_kept_outside_tables :
  cx_labs (render_tree plain_deco 3 cx_o1 10 (cx_n (IBlock [cx_t 20 [97;98;99]; cx_n (IText [cx_zw 30])])))
  = Ok [(97, 20); (98, 21); (99, 22); (8203, 30)].
Proof. vm_compute. reflexivity. Qed.

Definition cx_el (name : list N) (kids : list node) : node := NElem true (of_ascii name) [] kids.
Definition cx3_dom : list node :=
  [cx_el [116;97;98;108;101] [cx_el [116;98;111;100;121]
     [cx_el [116;114] [cx_el [116;100] [NText (Al 20 [97;98;99])]];
      cx_el [116;114] [cx_el [116;100] [NText [cx_zw 30]]]]]].
Example zero_width_row_dropped_from_html :
  option_map cps (match string_from_read (fun _ => Ok []) (fun _ => Ok []) cfg_plain cx3_dom 20
                  with Ok t => Some t | _ => None end)
  = Some [9472; 9472; 9472; 10; 97; 98; 99; 10; 9472; 9472; 9472; 10].
Proof. vm_compute. reflexivity. Qed.

(* ---- the known finding of Proofs/Footnotes.v (skipped cells), seen from C03: a cell whose
   columns all get width 0 is skipped with its text; tree_stream mirrors this (the cell is not
   in the stream), so the theorems hold, but the document character is not in the output ---- *)
Definition cx4 : rnode :=
  cx_n (ITable [RRow [cx_cell 20 [97;98;99]; RCell 1 [cx_n (IText [cx_zw 30])] cstyle0] cstyle0] 2).
Example zero_width_cell_skipped :
  cx_labs (render_tree plain_deco 3 cx_o1 10 cx4) = Ok [(97, 20); (98, 21); (99, 22)] /\
  cx_pairs (tree_stream plain_deco 3 cx_o1 cx4 10) = [(97, 20); (98, 21); (99, 22)] /\
  cx_pairs (leaf_stream cx4) = [(97, 20); (98, 21); (99, 22); (8203, 30)].
Proof. repeat split; vm_compute; reflexivity. Qed.

(* ---- the public route: <p>ab <em>cd</em> e</p><ul><li>x y</li></ul> through
   string_from_read with cfg_plain (the "*" around <em> are CSS pseudo-element content,
   relabelled L_deco by wrap_pseudo) ---- *)
Definition cx5_dom : list node :=
  [cx_el [112] [NText (Al 16 [97;98;32]); cx_el [101;109] [NText (Al 30 [99;100])];
                NText (Al 40 [32;101])];
   cx_el [117;108] [cx_el [108;105] [NText (Al 50 [120;32;121])]]].
Definition cx_ist : list (text * text) -> res (list styledecl) := fun _ => Ok [].
Definition cx_dr : list node -> res (list ruleset) := fun _ => Ok [].
Example cx5_string :
  option_map cps (match string_from_read cx_ist cx_dr cfg_plain cx5_dom 20 with
                  | Ok t => Some t | _ => None end)
  = Some [97; 98; 32; 42; 99; 100; 42; 32; 101; 10; 42; 32; 120; 32; 121; 10] /\ (* ab *cd* e / * x y *)
  option_map (fun t => cx_pairs (filter docp t))
             (match string_from_read cx_ist cx_dr cfg_plain cx5_dom 20 with
              | Ok t => Some t | _ => None end)
  = Some [(97, 16); (98, 17); (99, 30); (100, 31); (101, 41); (120, 50); (121, 52)].
Proof. split; vm_compute; reflexivity. Qed.
Example cx5_theorem : forall tree t,
  to_render_tree cx_ist cx_dr cfg_plain cx5_dom = Ok tree ->
  string_from_read cx_ist cx_dr cfg_plain cx5_dom 20 = Ok t ->
  filter docp t = leaf_stream tree.
Proof.
  intros tree t Ht H.
  refine (c03_string_from_read cx_ist cx_dr cfg_plain cx5_dom 20 tree t deco_made_plain Ht _ H).
  vm_compute in Ht. injection Ht as <-. vm_compute. reflexivity.
Qed.

Print Assumptions node_cs_all.
Print Assumptions tree_stream_no_table.
Print Assumptions doc_stream_leaf.
Print Assumptions deco_made_plain.
Print Assumptions deco_made_rich.
Print Assumptions deco_made_trivial.
Print Assumptions c03_render_tree_perm_all.
Print Assumptions cx1_theorem.
Print Assumptions cx2_theorem_perm.
Print Assumptions cx2_theorem_raw.
Print Assumptions zero_width_row_dropped.

(* ================================================================== *)
(* SUMMARY                                                              *)
(* ==================================================================

   VOCABULARY
     docp c            := negb (ws c) && (16 <=? lab c)     a visible DOCUMENT character
     doc_chars t       := filter docp (Conserve.kept t)     what add_inline_text keeps of a text:
                          not whitespace, with a width (cw <> None; zero width allowed), label >= 16
     out_stream s      := the docp characters of all lines of the sub-renderer s, top to bottom,
                          left to right, followed by those of its open wrapping block (finished
                          lines, current line, pending word)
     doc_stream d n    := the doc_chars of the text leaves (IText), the image texts
                          (fst (d_image d src alt)) and the decorator's affixes of the render tree n
                          in pre-order; <sup> with one all-digit text child contributes
                          doc_chars (map sup_char digits) (sup_char keeps the label, width 1)
     leaf_stream n     := the same without any decorator text (image: doc_chars alt);
                          doc_stream_leaf: deco_made d -> doc_stream d n = leaf_stream n
     tree_stream d mw o n w := doc_stream restricted to what render_node visits when n is rendered
                          into a sub-renderer of width w, options o: table cells that get no width
                          (cell_widths = None) are left out (widths mirrored like
                          Footnotes.link_targets).  tree_stream_no_table: = doc_stream d n for
                          trees without tables;  tree_stream_subseq: always a subsequence of it.
     prefix_made d     := heading / quote / ul / ol prefixes of d contain no docp character
                          (they are repeated on every line).  deco_made d := prefix_made d, every
                          affix has no doc_chars, and doc_chars (d_image src alt) = doc_chars alt.
                          deco_made_plain / _rich / _trivial / _custom: the model's decorators.
     Iv s              := the sub-renderer invariant: pending_frags holds markers only, and the
                          length fields (tlen_ of the current line, wordlen) of the open block are
                          exact.  Holds for sub_new / new_sub_renderer, kept by every operation.
     posw c            := 0 < cw0 c

   MAIN THEOREMS (all: partial correctness, Ok outcome; every decorator with prefix_made, all
   options, every width, every white-space mode; "Closed under the global context")

   (A) c03_render_node_no_table:
         prefix_made d -> no_table n = true -> stack st = s :: rest -> Iv s ->
         render_node d mw n st = Ok st' ->
         exists s', stack st' = s' :: rest /\ swidth_ s' = swidth_ s /\ sopts s' = sopts s /\ Iv s' /\
                    out_stream s' = out_stream s ++ doc_stream d n
       c03_render_tree_no_table:
         prefix_made d -> no_table tree = true -> render_tree d mw o width tree = Ok s ->
         out_stream s = doc_stream d tree /\
         forall ls, sub_into_lines s = Ok ls ->
                    filter docp (flat_map rline_string ls) = doc_stream d tree
       c03_render_tree_leaves (deco_made d): ... = leaf_stream tree
       c03_string_from_read / c03_lines_from_read (Api routes, deco_made (c_deco c), the render tree
         of the document has no table): filter docp (output) = leaf_stream tree.
       I.e. every visible document character handed to the renderer is in the output exactly
       once, in document order, and every other non-whitespace character of the output has a
       label < 16 (is renderer-made: decorator markup, prefixes, U+0336, footnote references and
       the footnote list, whose targets are relabelled L_foot by sub_finalise and are accounted
       for by C08, Proofs/Footnotes.v).  Zero-width characters (combining marks) included.
   (B) c03_render_node_raw / c03_render_tree_raw:  o_raw = true, any tree (tables allowed):
         out_stream s' = out_stream s ++ tree_stream d mw (sopts s) n (swidth_ s)   (exact order)
   (C) c03_render_node_perm / c03_render_tree_perm / c03_render_tree_perm_all: any tree, any options,
         Forall posw (tree_stream ...) ->
         Permutation (out_stream s') (out_stream s ++ tree_stream d mw (sopts s) n (swidth_ s))
   The three are instances of one induction (Section Thread, node_cs_all) over rnode_ind'.

   HYPOTHESES and why
     prefix_made d: a prefix is attached to every line of the nested block, so a prefix with
       document-labelled characters would be duplicated (decorator's business, not a bug).
     Iv s (render_node theorems only; discharged for render_tree): a statement about an arbitrary
       start state needs the state to be reachable: a text element in pending_frags would be
       flushed into the next line.
     no_table (A): side-by-side table rows interleave the lines of their cells (cx2_interleaved).
     Forall posw (C): FINDING zero_width_row_dropped (new, minor; confirmed on the implementation
       with harness `one`): a row whose cells hold only zero-width characters is dropped.
   Overflow: with allow_overflow = false a character wider than the block makes the whole render
     TooNarrow (cx_too_narrow) - the theorems are about the Ok outcome, so nothing is ever lost
     silently; with overflow on the character is kept (covered, no hypothesis on overflow).

   NOT PROVED
     - exact order for trees with tables outside raw mode when every table happens to be laid
       out vertically (table narrower than its minimum), and the finer statement "order is kept
       outside side-by-side rows" (only: exact without tables / in raw mode, multiset otherwise);
     - anything about the DOM -> render-tree step (Dom.process: head/script/style, display:none,
       <ol>/<dl> dropping non-item children, img without src: see KNOWN_FINDINGS C03) - the
       theorems start from the render tree;
     - whitespace: that the whitespace of the output is made of U+0020 only is
       Conserve.c03_only_spaces_invented at the WrappedBlock level, not lifted here.

   Also seen from here: the finding of Proofs/Footnotes.v (cells whose columns get width 0 are
   skipped with their text) - tree_stream leaves such cells out (zero_width_cell_skipped). *)
