(* Proofs/RenderTotal.v -- property C01 (totality) for the rendering layer of the model.
   (header comment with the exact statements is at the end of the file, section 12) *)
From H2T Require Import Base Tagged Wrap Sub Css Dom Render Api.
From H2T Require Import Proofs.WrapInv Proofs.RenderWidth.
From H2T Require Proofs.TableProof.
From Coq Require Import Lia ZifyN ZifyBool ZifyNat.

Local Arguments N.add : simpl never.
Local Arguments N.sub : simpl never.
Local Arguments N.mul : simpl never.
Local Arguments N.div : simpl never.
Local Arguments N.modulo : simpl never.
Local Arguments N.leb : simpl never.
Local Arguments N.ltb : simpl never.
Local Arguments N.eqb : simpl never.
Local Arguments N.min : simpl never.
Local Arguments N.max : simpl never.
Local Arguments N.to_nat : simpl never.
Local Arguments N.of_nat : simpl never.
Local Open Scope N_scope.

(* ================================================================== *)
(* 0. Outcome predicate                                                 *)
(* ================================================================== *)

(* r is Ok a with P a, or TooNarrow; never Panic, never OutOfFuel *)
Definition okp {A} (P : A -> Prop) (r : res A) : Prop :=
  match r with
  | Ok a => P a
  | TooNarrow => True
  | Panic _ => False
  | OutOfFuel => False
  end.

Definition okish {A} (r : res A) : Prop := okp (fun _ => True) r.

Lemma okp_bind {A B} (P : A -> Prop) (Q : B -> Prop) (r : res A) (f : A -> res B) :
  okp P r -> (forall a, P a -> okp Q (f a)) -> okp Q (bind r f).
Proof. destruct r; cbn; auto. Qed.

Lemma okp_mono {A} (P Q : A -> Prop) (r : res A) :
  okp P r -> (forall a, P a -> Q a) -> okp Q r.
Proof. destruct r; cbn; auto. Qed.

Lemma okp_ok {A} (P : A -> Prop) (a : A) : P a -> okp P (Ok a).
Proof. exact (fun H => H). Qed.

Lemma good_okp {A} ovf (P : A -> Prop) (r : res A) : good ovf P r -> okp P r.
Proof. destruct r; cbn; auto. Qed.

Lemma okp_okish {A} (P : A -> Prop) (r : res A) : okp P r -> okish r.
Proof. intros H. eapply okp_mono; [exact H|auto]. Qed.

Lemma okp_inv {A} (P : A -> Prop) (r : res A) a : okp P r -> r = Ok a -> P a.
Proof. intros H ->. exact H. Qed.

Lemma fold_bind_tn {A B} (f : B -> A -> res A) (l : list B) :
  fold_left (fun acc b => do s <- acc; f b s) l TooNarrow = TooNarrow.
Proof. induction l as [|b l IH]; cbn [fold_left bind]; auto. Qed.

(* invariant of a monadic fold, totality version *)
Lemma okp_fold {A B} (J : A -> Prop) (f : B -> A -> res A) (l : list B) :
  (forall b, In b l -> forall a, J a -> okp J (f b a)) ->
  forall a, J a -> okp J (fold_left (fun acc b => do s <- acc; f b s) l (Ok a)).
Proof.
  induction l as [|b l IH]; intros Hstep a Ha; cbn [fold_left].
  - exact Ha.
  - cbn [bind]. pose proof (Hstep b (or_introl eq_refl) a Ha) as Hb.
    destruct (f b a) as [a1| | |]; cbn [okp] in Hb; try contradiction.
    + apply IH; [|exact Hb]. intros b' Hb'. apply Hstep. right. exact Hb'.
    + rewrite fold_bind_tn. exact I.
Qed.

(* ================================================================== *)
(* 1. WrappedBlock layer at width 0 (WrapInv covers width >= 1)         *)
(* ================================================================== *)

(* WrapInv.Inv0 / Inv with `1 <= wwidth` replaced by `wwidth = 0` *)
Definition Inv0z (b : wblock) : Prop :=
  wwidth b = 0 /\
  line_ok (wwidth b) (wline b) /\
  (forall l, In l (wtext b) -> fin_ok (wwidth b) (allow_overflow b) l) /\
  (0 < wslen b -> spacetag b <> None).

Definition Invz (b : wblock) : Prop :=
  Inv0z b /\ wordlen b = vw (wword b) /\ elems_have_width (wword b).

Lemma Inv0z_set_text_line b tx ln :
  Inv0z b -> line_ok (wwidth b) ln ->
  (forall l, In l tx -> fin_ok (wwidth b) (allow_overflow b) l) ->
  Inv0z (set_text_line b tx ln).
Proof. unfold Inv0z. prj. tauto. Qed.
Lemma Inv0z_set_line b ln : Inv0z b -> line_ok (wwidth b) ln -> Inv0z (set_line b ln).
Proof. unfold Inv0z. prj. tauto. Qed.
Lemma Inv0z_set_word b w n : Inv0z b -> Inv0z (set_word b w n).
Proof. unfold Inv0z. prj. tauto. Qed.
Lemma Inv0z_set_prew b p : Inv0z b -> Inv0z (set_prew b p).
Proof. unfold Inv0z. prj. tauto. Qed.
Lemma Inv0z_set_space b st n :
  Inv0z b -> (0 < n -> st <> None) -> Inv0z (set_space b st n).
Proof. unfold Inv0z. prj. tauto. Qed.

Lemma fflz_ok b ln :
  Inv0z b -> fin_ok (wwidth b) (allow_overflow b) ln ->
  exists tx', force_flush_line (set_line b ln) = Ok (set_text_line b tx' tl_new) /\
              Inv0z (set_text_line b tx' tl_new).
Proof.
  intros HI [Hl1 Hl2].
  destruct (ffl_spec (set_line b ln)) as (l' & E & H1 & H2); [exact Hl1|].
  prj. exists (wtext b ++ [l']). split; [exact E|].
  apply Inv0z_set_text_line; [exact HI | apply line_ok_new |].
  intros l Hin. apply in_app_or in Hin. destruct Hin as [Hin|[<-|[]]].
  - destruct HI as (_ & _ & Htx & _). auto.
  - split; auto.
Qed.

Lemma flush_linez_ok b :
  Inv0z b ->
  exists tx' ln', flush_line b = Ok (set_text_line b tx' ln') /\
                  Inv0z (set_text_line b tx' ln') /\ tlen_ ln' = 0.
Proof.
  intros HI. unfold flush_line. destruct (tl_is_empty (wline b)) eqn:Ee.
  - exists (wtext b), (wline b). rewrite set_text_line_id. split; [reflexivity|]. split; [exact HI|].
    destruct HI as (_ & [Hl _] & _). rewrite Hl. apply tl_is_empty_raw, Ee.
  - destruct (fflz_ok b (wline b) HI) as (tx' & E & HI').
    { destruct HI as (_ & [Hl1 Hl2] & _). split; auto. intros _. lia. }
    rewrite set_line_id in E. exists tx', tl_new. auto.
Qed.

Definition piece_postz (b : wblock) (r : wblock * N) : Prop :=
  let '(b', ll) := r in
  exists tx' ln', b' = set_text_line b tx' ln' /\ Inv0z b' /\
                  tlen_ (wline b') + ll <= wwidth b.

Lemma hw_piecez_ok t w : forall fuel b rest consumed lineleft wpos,
  Inv0z b -> has_width rest -> wpos + swidth rest = w ->
  (consumed = false -> wpos = 0) ->
  tlen_ (wline b) + lineleft <= wwidth b ->
  (2 * length rest + (if (tlen_ (wline b) =? 0)%N then 0 else 1) + 1 <= fuel)%nat ->
  good (allow_overflow b) (piece_postz b) (hw_piece fuel b t w rest consumed lineleft wpos).
Proof.
  induction fuel as [|f IH]; intros b rest consumed lineleft wpos HI Hw Hsum Hcons Hll Hfuel.
  - destruct (tlen_ (wline b) =? 0); lia.
  - cbn [hw_piece]. rewrite (usub_ok 8 w wpos) by lia. cbn [bind].
    pose proof HI as (HW & [Hl1 Hl2] & Htx & Hst).
    destruct (N.ltb_spec lineleft (w - wpos)) as [Hlt|Hge].
    + eapply good_bind.
      { apply (hw_scan_spec (allow_overflow b) (wline b) Hl1 rest true [] lineleft wpos Hw);
          [auto | discriminate | lia]. }
      intros [[taken ll0] wpos'] (pre & rest' & E1 & E2 & E3 & E4).
      cbn [rev app] in E2. subst taken.
      destruct (fflz_ok b (tl_push (wline b) (Str pre t)) HI) as (tx' & E & HI2).
      { split.
        - rewrite tlen_push, raw_push. lia.
        - intros Hovf. rewrite raw_push. cbn [elem_text].
          destruct E4 as [[A _]|(_ & A & _)]; [lia|congruence]. }
      rewrite E. cbn [bind]. subst rest. rewrite skipn_length_app.
      apply has_width_app in Hw. destruct Hw as [Hwp Hwr]. rewrite swidth_app in Hsum.
      eapply good_mono.
      { apply (IH (set_text_line b tx' tl_new)); try assumption.
        - lia.
        - intros Hc. apply orb_false_iff in Hc. destruct Hc as [Hc1 Hc2].
          destruct pre; [|discriminate]. rewrite swidth_nil in E3. rewrite (Hcons Hc1) in E3. lia.
        - prj. cbn [tl_new tlen_]. lia.
        - prj. cbn [tl_new tlen_]. change (0 =? 0) with true.
          rewrite app_length in Hfuel.
          destruct pre as [|c pre].
          + destruct E4 as [[_ A]|(_ & _ & _ & A)]; [|congruence].
            specialize (A eq_refl).
            destruct (N.eqb_spec (tlen_ (wline b)) 0); [congruence|]. cbn [length] in *. lia.
          + cbn [length] in Hfuel. lia. }
      intros [b' ll] (tx'' & ln'' & Eb & HIb & Hb). prj.
      exists tx'', ln''. split; [exact Eb|]. split; [exact HIb|exact Hb].
    + destruct consumed; cbn [negb].
      * destruct rest as [|c rest].
        -- cbn [good piece_postz]. exists (wtext b), (wline b). rewrite set_text_line_id. auto.
        -- rewrite (usub_ok 5 lineleft (w - wpos)) by lia. cbn [bind good piece_postz].
           exists (wtext b), (tl_push (wline b) (Str (c :: rest) t)).
           split; [destruct b; reflexivity|].
           split.
           ++ apply Inv0z_set_line; [exact HI|]. split; rewrite tlen_push, ?raw_push; cbn [elem_text]; lia.
           ++ prj. rewrite tlen_push. cbn [elem_text]. lia.
      * rewrite (Hcons eq_refl) in *.
        rewrite (usub_ok 5 lineleft w) by lia. cbn [bind good piece_postz].
        exists (wtext b), (tl_push (wline b) (Str rest t)).
        split; [destruct b; reflexivity|].
        split.
        -- apply Inv0z_set_line; [exact HI|]. split; rewrite tlen_push, ?raw_push; cbn [elem_text]; lia.
        -- prj. rewrite tlen_push. cbn [elem_text]. lia.
Qed.

Lemma hw_elemsz_ok : forall els b lineleft,
  Inv0z b -> elems_have_width els -> tlen_ (wline b) + lineleft <= wwidth b ->
  good (allow_overflow b)
       (fun b' => (exists tx' ln', b' = set_text_line b tx' ln') /\ Inv0z b')
       (hw_elems b els lineleft).
Proof.
  induction els as [|e els IH]; intros b lineleft HI Hw Hll.
  - cbn [hw_elems good]. split; [|exact HI].
    exists (wtext b), (wline b). rewrite set_text_line_id. reflexivity.
  - inversion Hw as [|? ? He Hels]; subst. destruct e as [s t|n]; cbn [hw_elems].
    + cbn [elem_text] in He. eapply good_bind.
      { apply (hw_piecez_ok t (swidth s) (2 * length s + 2) b s false lineleft 0 HI He);
          auto; try lia.
        destruct (tlen_ (wline b) =? 0); lia. }
      intros [b' ll] (tx' & ln' & Eb & HIb & Hb). subst b'.
      eapply good_mono.
      { apply (IH _ ll HIb Hels). prj. exact Hb. }
      intros b'' ((tx'' & ln'' & Eb') & HIb'). split; [|exact HIb'].
      exists tx'', ln''. exact Eb'.
    + pose proof HI as (HW & [Hl1 Hl2] & _).
      eapply good_mono.
      { apply (IH (set_line b (tl_push (wline b) (Frag n))) lineleft).
        - apply Inv0z_set_line; [exact HI|].
          split; rewrite tlen_push, ?raw_push; cbn [elem_text]; rewrite swidth_nil; lia.
        - exact Hels.
        - prj. rewrite tlen_push. cbn [elem_text]. rewrite swidth_nil. lia. }
      intros b'' ((tx'' & ln'' & Eb') & HIb'). split; [|exact HIb'].
      exists tx'', ln''. rewrite Eb'. reflexivity.
Qed.

Lemma fwhwz_ok b :
  Inv0z b -> elems_have_width (wword b) ->
  good (allow_overflow b)
       (fun b' => (exists tx' ln', b' = set_word (set_text_line b tx' ln') [] (wordlen b)) /\
                  Inv0z b')
       (flush_word_hard_wrap b).
Proof.
  intros HI Hw. pose proof HI as (HW & [Hl1 Hl2] & _).
  unfold flush_word_hard_wrap. rewrite usub_ok by lia. cbn [bind].
  eapply good_mono.
  { apply (hw_elemsz_ok (wword b) (set_word b [] (wordlen b)) (wwidth b - tlen_ (wline b))).
    - apply Inv0z_set_word, HI.
    - exact Hw.
    - prj. lia. }
  intros b' ((tx' & ln' & Eb) & HIb). split; [|exact HIb].
  exists tx', ln'. rewrite Eb. reflexivity.
Qed.

(* at width 0 the whitespace loop drops the pending spaces at once *)
Lemma ws_loopz_ok fuel b :
  Inv0z b -> (1 <= fuel)%nat ->
  good (allow_overflow b)
       (fun b' => (exists tx' ln', b' = set_space (set_text_line b tx' ln') (spacetag b) 0) /\
                  Inv0z b')
       (ws_loop fuel b).
Proof.
  intros HI Hf. pose proof HI as (HW & _).
  destruct fuel as [|f]; [lia|]. cbn [ws_loop].
  destruct (N.eqb_spec (wslen b) 0) as [Ez|Enz].
  - cbn [good]. split; [|exact HI]. exists (wtext b), (wline b).
    rewrite set_text_line_id. destruct b; prj; subst; reflexivity.
  - rewrite HW. change (0 =? 0) with true. cbn [good]. split.
    + exists (wtext b), (wline b). rewrite set_text_line_id. reflexivity.
    + apply Inv0z_set_space; [exact HI|lia].
Qed.

Lemma flush_word_tailz_ok b1 m :
  Inv0z b1 -> elems_have_width (wword b1) ->
  good (allow_overflow b1) (fun b' => Invz b' /\ same_cfg b1 b')
    (do b2 <- flush_line b1;
     let b3 := if is_pre m then set_prew b2 true else b2 in
     do b4 <- ws_loop (S (N.to_nat (wslen b3))) b3;
     let b5 := set_space b4 None (wslen b4) in
     do b6 <- flush_word_hard_wrap b5;
     Ok (set_word b6 (wword b6) 0)).
Proof.
  intros HI Hw.
  destruct (flush_linez_ok _ HI) as (tx' & ln' & E & HI2 & Hz). rewrite E. cbn [bind].
  cbv zeta.
  assert (H3 : exists pw, (if is_pre m then set_prew (set_text_line b1 tx' ln') true
                           else set_text_line b1 tx' ln')
                          = set_prew (set_text_line b1 tx' ln') pw).
  { destruct (is_pre m); eexists; [reflexivity|symmetry; apply set_prew_id]. }
  destruct H3 as (pw & ->).
  eapply good_bind.
  { apply (ws_loopz_ok _ (set_prew (set_text_line b1 tx' ln') pw)).
    - apply Inv0z_set_prew, HI2.
    - lia. }
  intros b4 ((tx4 & ln4 & E4) & HI4). subst b4. prj.
  eapply good_bind.
  { match goal with |- good _ _ (flush_word_hard_wrap ?x) => apply (fwhwz_ok x) end.
    - apply Inv0z_set_space; [|lia]. revert HI4. unfold Inv0z. prj. tauto.
    - prj. exact Hw. }
  intros b6 ((tx6 & ln6 & E6) & HI6). subst b6. prj. cbn [good]. split.
  - unfold Invz. prj. split; [|split].
    + revert HI6. unfold Inv0z. prj. tauto.
    + reflexivity.
    + constructor.
  - unfold same_cfg. prj. auto.
Qed.

Lemma flush_wordz_ok b m :
  Invz b -> good (allow_overflow b) (fun b' => Invz b' /\ same_cfg b b') (flush_word b m).
Proof.
  intros HI. destruct HI as (HI0 & Hwl & Hehw).
  pose proof HI0 as (HW & [Hl1 Hl2] & Htx & Hst).
  unfold flush_word. destruct (word_is_empty (wword b)) eqn:Ewe.
  - cbn [good]. split; [|unfold same_cfg; prj; auto].
    unfold Invz. prj. split; [apply Inv0z_set_word, HI0|]. split; [|exact Hehw].
    symmetry. apply word_is_empty_vw, Ewe.
  - cbv zeta. prj. rewrite usub_ok by lia. cbn [bind].
    destruct (N.leb_spec (wslen b + wordlen b) (wwidth b - tlen_ (wline b))) as [Hfit|Hnofit].
    + (* the word fits on the current line *)
      destruct (N.ltb_spec 0 (wslen b)) as [Hws|Hws].
      * destruct (spacetag b) as [st|] eqn:Est.
        2:{ exfalso. apply Hst; [lia|reflexivity]. }
        cbn [bind]. prj. cbn [good]. split; [|unfold same_cfg; prj; auto].
        unfold Invz. prj. split; [|split; [reflexivity|constructor]].
        unfold Inv0z. prj. split; [exact HW|]. split; [|split; [exact Htx|lia]].
        split; rewrite tlen_fold_push, ?raw_fold_push, tlen_push, ?raw_push;
          cbn [elem_text]; rewrite swidth_spacesl; lia.
      * cbn [bind]. prj. cbn [good]. split; [|unfold same_cfg; prj; auto].
        unfold Invz. prj. split; [|split; [reflexivity|constructor]].
        unfold Inv0z. prj. split; [exact HW|]. split; [|split; [exact Htx|exact Hst]].
        split; rewrite tlen_fold_push, ?raw_fold_push; lia.
    + (* it does not fit *)
      eapply good_bind with
        (P := fun b1 => Inv0z b1 /\ wword b1 = wword b /\ same_cfg b b1).
      { destruct (do_wrap m); cbn [negb].
        - cbn [good]. split; [|split; [reflexivity|unfold same_cfg; prj; auto]].
          apply Inv0z_set_space; [exact HI0|lia].
        - destruct (N.leb_spec (wwidth b - tlen_ (wline b)) (wslen b)) as [Hle|Hgt].
          + cbn [good]. split; [|split; [reflexivity|unfold same_cfg; prj; auto]].
            apply Inv0z_set_space; [exact HI0|]. intros H. apply Hst. lia.
          + destruct (N.ltb_spec 0 (wslen b)) as [Hws|Hws].
            * destruct (spacetag b) as [st|] eqn:Est.
              2:{ exfalso. apply Hst; [lia|reflexivity]. }
              cbn [good]. split; [|split; [reflexivity|unfold same_cfg; prj; auto]].
              apply Inv0z_set_space; [|lia]. apply Inv0z_set_line; [exact HI0|].
              prj. split; rewrite tlen_push_wsl, ?raw_push_wsl; lia.
            * cbn [good]. split; [|split; [reflexivity|unfold same_cfg; prj; auto]].
              exact HI0. }
      intros b1 (H1 & H2 & H3). pose proof H3 as (c1 & c2 & c3). rewrite <- c3.
      eapply good_mono.
      { apply (flush_word_tailz_ok b1 m H1). rewrite H2. exact Hehw. }
      intros b' [Hb' Hc']. split; [exact Hb'|]. eapply same_cfg_trans; eassumption.
Qed.

Lemma tab_loopz b t tw pos one fl f :
  wwidth b = 0 -> tab_loop (S f) b t tw pos one fl = Ok (b, fl).
Proof.
  intros HW. cbn [tab_loop]. rewrite HW. change (0 =? 0) with true.
  destruct (negb (pos mod 8 =? 0) || negb one); reflexivity.
Qed.

Lemma Invz_lines b tx' ln' :
  Invz b -> Inv0z (set_text_line b tx' ln') -> Invz (set_text_line b tx' ln').
Proof. intros HI H0. unfold Invz in *. prj. tauto. Qed.

Lemma add_charz_ok m t1 t2 b u c :
  Invz b ->
  good (allow_overflow b) (fun st' => Invz (fst st') /\ same_cfg b (fst st'))
       (add_char m t1 t2 (b, u) c).
Proof.
  intros HI. unfold add_char.
  eapply good_bind with (P := fun b1 => Invz b1 /\ same_cfg b b1).
  { destruct (ws c && (0 <? wordlen b)); [apply flush_wordz_ok, HI|].
    cbn [good]. split; [exact HI|apply same_cfg_refl]. }
  clear HI. intros b1 [HI Hc]. pose proof Hc as (c1 & c2 & c3). rewrite <- c3.
  apply good_mono with (P := fun st' => Invz (fst st') /\ same_cfg b1 (fst st')).
  2:{ intros st' [A B]. split; [exact A|]. eapply same_cfg_trans; eassumption. }
  clear b Hc c1 c2 c3. rename b1 into b.
  cbv zeta. set (t := if u then t2 else t1).
  pose proof HI as HI'. destruct HI' as (HI0 & Hwl & Hehw).
  pose proof HI0 as (HW & [Hl1 Hl2] & Htx & Hst).
  destruct (ws c).
  - destruct (preserve_ws m).
    + destruct (cp c =? 10).
      * destruct (fflz_ok b (wline b) HI0) as (tx' & E & HI2).
        { split; [exact Hl1|]. intros _. lia. }
        rewrite set_line_id in E. rewrite E. cbn [bind good fst].
        split; [|unfold same_cfg; prj; auto].
        unfold Invz. prj. split; [|auto].
        apply Inv0z_set_prew, Inv0z_set_space; [exact HI2|lia].
      * destruct (cp c =? 9).
        -- change 40%nat with (S 39). rewrite tab_loopz by exact HW. cbn [bind fst snd good].
           destruct (is_pre m && false); cbn [fst].
           ++ split; [|unfold same_cfg; prj; auto].
              unfold Invz. prj. split; [apply Inv0z_set_prew, HI0|auto].
           ++ split; [exact HI|apply same_cfg_refl].
        -- destruct (cw c) as [cwidth|].
           ++ destruct (N.ltb_spec (wwidth b) (tlen_ (wline b) + wslen b + cwidth)) as [Hov|Hfit].
              ** destruct (flush_linez_ok (set_space b (spacetag b) 0)) as (tx' & ln' & E & HI2 & Hz).
                 { apply Inv0z_set_space; [exact HI0|lia]. }
                 rewrite E. cbn [bind]. destruct (do_wrap m); cbn [good fst]; prj.
                 --- split; [|unfold same_cfg; prj; auto].
                     unfold Invz. prj. split; [|auto]. revert HI2. unfold Inv0z. prj. tauto.
                 --- split; [|unfold same_cfg; prj; auto].
                     unfold Invz. prj. split; [|auto]. revert HI2. unfold Inv0z. prj.
                     intuition discriminate.
              ** cbn [good fst]. split; [|unfold same_cfg; prj; auto].
                 unfold Invz. prj. split; [|auto].
                 apply Inv0z_set_space; [exact HI0|]. intros _. discriminate.
           ++ cbn [good fst]. split; [exact HI|apply same_cfg_refl].
    + destruct ((0 <? tlen_ (wline b)) && (wslen b =? 0)); cbn [good fst].
      * split; [|unfold same_cfg; prj; auto].
        unfold Invz. prj. split; [|auto].
        apply Inv0z_set_space; [exact HI0|]. intros _. discriminate.
      * split; [exact HI|apply same_cfg_refl].
  - destruct (cw c) as [cwidth|] eqn:Ecw.
    + assert (Hc0 : cw0 c = cwidth) by (unfold cw0; rewrite Ecw; reflexivity).
      assert (Hwc : has_width [c]).
      { constructor; [congruence|constructor]. }
      cbn [good fst]. split.
      * unfold Invz.
        destruct (is_pre m && (wwidth b <? tlen_ (wline b) + wslen b + (wordlen b + cwidth)));
          prj.
        -- split; [apply Inv0z_set_word, Inv0z_set_prew, HI0|]. prj. split.
           ++ rewrite vw_push_merge, swidth_cons, swidth_nil. lia.
           ++ apply ehw_push_merge; assumption.
        -- split; [apply Inv0z_set_word, HI0|]. prj. split.
           ++ rewrite vw_push_merge, swidth_cons, swidth_nil. lia.
           ++ apply ehw_push_merge; assumption.
      * destruct (is_pre m && (wwidth b <? tlen_ (wline b) + wslen b + (wordlen b + cwidth)));
          unfold same_cfg; prj; auto.
    + cbn [good fst]. split; [exact HI|apply same_cfg_refl].
Qed.

Lemma add_charsz_ok m t1 t2 : forall s b u,
  Invz b ->
  good (allow_overflow b) (fun st' => Invz (fst st') /\ same_cfg b (fst st'))
       (add_chars m t1 t2 (b, u) s).
Proof.
  induction s as [|c s IH]; intros b u HI; cbn [add_chars].
  - cbn [good fst]. split; [exact HI|apply same_cfg_refl].
  - eapply good_bind; [apply add_charz_ok, HI|].
    intros [b' u'] [HI' Hc']. cbn [fst] in *. pose proof Hc' as (c1 & c2 & c3). rewrite <- c3.
    eapply good_mono; [apply (IH b' u' HI')|].
    intros st' [A B]. split; [exact A|]. eapply same_cfg_trans; eassumption.
Qed.

Lemma wb_add_textz_ok b s m t1 t2 :
  Invz b ->
  good (allow_overflow b) (fun b' => Invz b' /\ same_cfg b b') (wb_add_text b s m t1 t2).
Proof.
  intros HI. unfold wb_add_text. eapply good_bind; [apply add_charsz_ok, HI|].
  intros st' H. exact H.
Qed.

Lemma flush_line_Invz b :
  Invz b -> good (allow_overflow b) (fun b' => Invz b' /\ same_cfg b b') (flush_line b).
Proof.
  intros HI. pose proof HI as (HI0 & _).
  destruct (flush_linez_ok b HI0) as (tx' & ln' & E & HI2 & _). rewrite E. cbn [good].
  split; [apply Invz_lines; assumption|unfold same_cfg; prj; auto].
Qed.

Lemma wb_flushz_ok b :
  Invz b -> good (allow_overflow b) (fun b' => Invz b' /\ same_cfg b b') (wb_flush b).
Proof.
  intros HI. unfold wb_flush. eapply good_bind; [apply flush_wordz_ok, HI|].
  intros b1 [HI1 Hc1]. pose proof Hc1 as (c1 & c2 & c3). rewrite <- c3.
  eapply good_mono; [apply flush_line_Invz, HI1|].
  intros b' [A B]. split; [exact A|]. eapply same_cfg_trans; eassumption.
Qed.

Lemma wb_into_linesz_ok b :
  Invz b ->
  good (allow_overflow b)
       (fun ls => forall l, In l ls -> fin_ok (wwidth b) (allow_overflow b) l)
       (wb_into_lines b).
Proof.
  intros HI. unfold wb_into_lines. eapply good_bind; [apply wb_flushz_ok, HI|].
  intros b1 [HI1 (c1 & c2 & c3)]. cbn [good]. rewrite <- c1, <- c3.
  destruct HI1 as ((_ & _ & Htx & _) & _). exact Htx.
Qed.
