(* Proofs/RenderTotal.v -- property C01 (totality) for the rendering layer, the DOM layer and
   the public routes of the model: the outcome is always Ok or TooNarrow, never Panic (checked
   subtraction / unwrap / index / debug-assert sites), never OutOfFuel (every loop's fuel is
   sufficient).  No axioms; every main theorem is followed by Print Assumptions.

   MAIN THEOREMS

   (T1) c01_render_tree_total  (section 8)
          forall d min_wrap o width tree,
            width < usize_max -> tree_wf d min_wrap tree = true ->
            match render_tree d min_wrap o width tree with
            | Ok s => okish (sub_into_lines s) /\ okish (sub_into_string s)
            | TooNarrow => True | Panic _ => False | OutOfFuel => False end.
        okish r := r is Ok _ or TooNarrow.  For EVERY decorator (arbitrary strings, arbitrary
        ordered-list prefix function: no monotonicity needed), every option record (wrap width 0,
        min wrap 0, overflow on or off, ...), every width including 0, every `<ol start>`.
        c01_render_tree_never_panics: the same as inequalities; c01_render_with_context_total:
        through Api.render_with_context.
   (T2) c01_to_render_tree_total (section 13): for every configuration and every document with
        dom_ok doc = true, to_render_tree returns Ok tree with wfs tree = true (structural
        well-formedness), never Panic.  (Dom.process is structurally recursive: no fuel.)
   (T3) c01_routes_total / c01_routes_total_css (sections 13/14):
          w < usize_max -> dom_ok doc = true -> est_side c doc = true ->
          okish (lines_from_read c doc w) /\ okish (string_from_read c doc w)
        for every config c, with the CSS front end as Section variables assumed total
        (c01_routes_total) and instantiated with CssParse.inline_styles / doc_rules through
        CssTotal.c17_inline_total / c17_doc_rules_total (c01_routes_total_css).
        c01_routes_given_tree: the same for any document whose tree satisfies tree_wf.

   THE SIDE CONDITIONS (all decidable), and why each is needed

   width < usize_max   (usize_max = 2^64-1): `col_width + colspan` (site 30) is at most the
        renderer's width + 1.
   tree_wf d min_wrap tree = wf d min_wrap tree (section 4):
     (a) no bare ITableBody / ITableRow / ITableCell node: `unreachable!` in do_render_node
         (site 60, cex_bare_cell);
     (b) in every table: colspan >= 1 (division by zero, site 33, cex_colspan_zero) and the
         colspans of a row add up to at most ncols (index out of bounds, site 31,
         cex_colspan_wide);
     (c) the estimated minimum width of every header / blockquote / ul / ol / dd node is below
         usize_max: with allow_width_overflow the sub-renderer is at least that wide, and a table
         in it then overflows site 30 (cex_big_panics; only reachable with characters of
         absurd display width, which the model does not exclude).
        tree_wf = wfs (a, b) + smalls (c) (wf_of_wfs, section 12).
   dom_ok doc (section 11): (1) no element has more than fan_max = 10^8 children (the colspan
        sums of RenderTable::new / the colspan=0 fix-up stay below 2^64: a row of 1.4*10^8
        colspan=0 cells under a row of 1.3*10^8 colspan=1000 cells would overflow usize);
        (2) tr only in thead/tbody, td/th only in tr, thead/tbody only in table -- or anywhere
        inside a child of table/thead/tbody/tr that the table code drops (tfoot, caption, ...).
        html5ever builds only such DOMs; a td directly in a div reaches site 60 (cex_doc_panics).
   est_side c doc: condition (c) computed on the tree that to_render_tree builds.

   NOT NEEDED (findings of the proof): 1 <= width (render_tree is total at width 0 too; the
   routes answer TooNarrow before); any property of the decorator; i64 bounds on `<ol start>`
   (isat64); sub-renderers of width 0 are total (section 1: the WrappedBlock layer at width 0,
   complementing WrapInv which needs width >= 1); the fuels `tab_loop 40`, `ws_loop`,
   `hw_piece`, `shrink_loop` are always sufficient.

   HOW the sites are excluded
     1-8  WrappedBlock: WrapInv.Inv (width >= 1) or Invz (width 0, section 1); WI = either.
     10,11 pop_preformat / end_strikeout: the render relation R keeps the top renderer's
          pre_depth and filter_depth (frame property: rendering a node changes only the top of
          the stack, Rg), apply_style/unwind and start/end_strikeout are paired (fin_T).
     12   stack underflow: frame property.      20-24 estimates (prefixed_est).
     30   cell_widths_T.   31,33 tree_wf (b), upd_range_some.   34, fuel: TableProof.
     36   append_columns is only called with a non-empty column list.
     37   sub_t: without borders no sub-renderer holds a border line; with borders the table's
          renderer ends in a border line whenever some column has a width (TB, row_body_T).
     40   every text line of every sub-renderer has an exact length field (cons_rline).
     60   tree_wf (a).   32 and the usub/uadd 30 of Dom.v: section 10 (sorted positions).

   STRUCTURE  0 outcome predicates; 1 WrappedBlock at width 0; 2 any width; 3 sub-renderer layer
   (invariant sub_t, `tot`); 4 estimates; 5-6 render layer (node_t_all); 7-8 render_tree;
   9 routes given the tree; 10 Dom table constructors; 11 process/build_element; 12 wf from
   wfs + smalls; 13 routes from the document; 14 CSS instance, examples. *)
From H2T Require Import Base Tagged Wrap Sub Css Dom Render Api.
From H2T Require Import Proofs.WrapInv Proofs.RenderWidth.
From H2T Require Proofs.TableProof.
From Coq Require Import Lia ZifyN ZifyBool ZifyNat.

Local Arguments N.add : simpl never.
Local Arguments N.sub : simpl never.
Local Arguments N.mul : simpl never.
Local Arguments N.div : simpl never.
Local Arguments N.modulo : simpl never.
Local Arguments N.leb : simpl never.
Local Arguments N.ltb : simpl never.
Local Arguments N.eqb : simpl never.
Local Arguments N.min : simpl never.
Local Arguments N.max : simpl never.
Local Arguments N.to_nat : simpl never.
Local Arguments N.of_nat : simpl never.
Local Open Scope N_scope.

(* ================================================================== *)
(* 0. Outcome predicate                                                 *)
(* ================================================================== *)

(* r is Ok a with P a, or TooNarrow; never Panic, never OutOfFuel *)
Definition okp {A} (P : A -> Prop) (r : res A) : Prop :=
  match r with
  | Ok a => P a
  | TooNarrow => True
  | Panic _ => False
  | OutOfFuel => False
  end.

Definition okish {A} (r : res A) : Prop := okp (fun _ => True) r.

Lemma okp_bind {A B} (P : A -> Prop) (Q : B -> Prop) (r : res A) (f : A -> res B) :
  okp P r -> (forall a, P a -> okp Q (f a)) -> okp Q (bind r f).
Proof. destruct r; cbn; auto. Qed.

Lemma okp_mono {A} (P Q : A -> Prop) (r : res A) :
  okp P r -> (forall a, P a -> Q a) -> okp Q r.
Proof. destruct r; cbn; auto. Qed.

Lemma okp_ok {A} (P : A -> Prop) (a : A) : P a -> okp P (Ok a).
Proof. exact (fun H => H). Qed.

Lemma good_okp {A} ovf (P : A -> Prop) (r : res A) : good ovf P r -> okp P r.
Proof. destruct r; cbn; auto. Qed.

Lemma okp_okish {A} (P : A -> Prop) (r : res A) : okp P r -> okish r.
Proof. intros H. eapply okp_mono; [exact H|auto]. Qed.

Lemma okp_inv {A} (P : A -> Prop) (r : res A) a : okp P r -> r = Ok a -> P a.
Proof. intros H ->. exact H. Qed.

Lemma fold_bind_tn {A B} (f : B -> A -> res A) (l : list B) :
  fold_left (fun acc b => do s <- acc; f b s) l TooNarrow = TooNarrow.
Proof. induction l as [|b l IH]; cbn [fold_left bind]; auto. Qed.

(* invariant of a monadic fold, totality version *)
Lemma okp_fold {A B} (J : A -> Prop) (f : B -> A -> res A) (l : list B) :
  (forall b, In b l -> forall a, J a -> okp J (f b a)) ->
  forall a, J a -> okp J (fold_left (fun acc b => do s <- acc; f b s) l (Ok a)).
Proof.
  induction l as [|b l IH]; intros Hstep a Ha; cbn [fold_left].
  - exact Ha.
  - cbn [bind]. pose proof (Hstep b (or_introl eq_refl) a Ha) as Hb.
    destruct (f b a) as [a1| | |]; cbn [okp] in Hb; try contradiction.
    + apply IH; [|exact Hb]. intros b' Hb'. apply Hstep. right. exact Hb'.
    + rewrite fold_bind_tn. exact I.
Qed.

(* ================================================================== *)
(* 1. WrappedBlock layer at width 0 (WrapInv covers width >= 1)         *)
(* ================================================================== *)

(* WrapInv.Inv0 / Inv with `1 <= wwidth` replaced by `wwidth = 0` *)
Definition Inv0z (b : wblock) : Prop :=
  wwidth b = 0 /\
  line_ok (wwidth b) (wline b) /\
  (forall l, In l (wtext b) -> fin_ok (wwidth b) (allow_overflow b) l) /\
  (0 < wslen b -> spacetag b <> None).

Definition Invz (b : wblock) : Prop :=
  Inv0z b /\ wordlen b = vw (wword b) /\ elems_have_width (wword b).

Lemma Inv0z_set_text_line b tx ln :
  Inv0z b -> line_ok (wwidth b) ln ->
  (forall l, In l tx -> fin_ok (wwidth b) (allow_overflow b) l) ->
  Inv0z (set_text_line b tx ln).
Proof. unfold Inv0z. prj. tauto. Qed.
Lemma Inv0z_set_line b ln : Inv0z b -> line_ok (wwidth b) ln -> Inv0z (set_line b ln).
Proof. unfold Inv0z. prj. tauto. Qed.
Lemma Inv0z_set_word b w n : Inv0z b -> Inv0z (set_word b w n).
Proof. unfold Inv0z. prj. tauto. Qed.
Lemma Inv0z_set_prew b p : Inv0z b -> Inv0z (set_prew b p).
Proof. unfold Inv0z. prj. tauto. Qed.
Lemma Inv0z_set_space b st n :
  Inv0z b -> (0 < n -> st <> None) -> Inv0z (set_space b st n).
Proof. unfold Inv0z. prj. tauto. Qed.

Lemma fflz_ok b ln :
  Inv0z b -> fin_ok (wwidth b) (allow_overflow b) ln ->
  exists tx', force_flush_line (set_line b ln) = Ok (set_text_line b tx' tl_new) /\
              Inv0z (set_text_line b tx' tl_new).
Proof.
  intros HI [Hl1 Hl2].
  destruct (ffl_spec (set_line b ln)) as (l' & E & H1 & H2); [exact Hl1|].
  prj. exists (wtext b ++ [l']). split; [exact E|].
  apply Inv0z_set_text_line; [exact HI | apply line_ok_new |].
  intros l Hin. apply in_app_or in Hin. destruct Hin as [Hin|[<-|[]]].
  - destruct HI as (_ & _ & Htx & _). auto.
  - split; auto.
Qed.

Lemma flush_linez_ok b :
  Inv0z b ->
  exists tx' ln', flush_line b = Ok (set_text_line b tx' ln') /\
                  Inv0z (set_text_line b tx' ln') /\ tlen_ ln' = 0.
Proof.
  intros HI. unfold flush_line. destruct (tl_is_empty (wline b)) eqn:Ee.
  - exists (wtext b), (wline b). rewrite set_text_line_id. split; [reflexivity|]. split; [exact HI|].
    destruct HI as (_ & [Hl _] & _). rewrite Hl. apply tl_is_empty_raw, Ee.
  - destruct (fflz_ok b (wline b) HI) as (tx' & E & HI').
    { destruct HI as (_ & [Hl1 Hl2] & _). split; auto. intros _. lia. }
    rewrite set_line_id in E. exists tx', tl_new. auto.
Qed.

Definition piece_postz (b : wblock) (r : wblock * N) : Prop :=
  let '(b', ll) := r in
  exists tx' ln', b' = set_text_line b tx' ln' /\ Inv0z b' /\
                  tlen_ (wline b') + ll <= wwidth b.

Lemma hw_piecez_ok t w : forall fuel b rest consumed lineleft wpos,
  Inv0z b -> has_width rest -> wpos + swidth rest = w ->
  (consumed = false -> wpos = 0) ->
  tlen_ (wline b) + lineleft <= wwidth b ->
  (2 * length rest + (if (tlen_ (wline b) =? 0)%N then 0 else 1) + 1 <= fuel)%nat ->
  good (allow_overflow b) (piece_postz b) (hw_piece fuel b t w rest consumed lineleft wpos).
Proof.
  induction fuel as [|f IH]; intros b rest consumed lineleft wpos HI Hw Hsum Hcons Hll Hfuel.
  - destruct (tlen_ (wline b) =? 0); lia.
  - cbn [hw_piece]. rewrite (usub_ok 8 w wpos) by lia. cbn [bind].
    pose proof HI as (HW & [Hl1 Hl2] & Htx & Hst).
    destruct (N.ltb_spec lineleft (w - wpos)) as [Hlt|Hge].
    + eapply good_bind.
      { apply (hw_scan_spec (allow_overflow b) (wline b) Hl1 rest true [] lineleft wpos Hw);
          [auto | discriminate | lia]. }
      intros [[taken ll0] wpos'] (pre & rest' & E1 & E2 & E3 & E4).
      cbn [rev app] in E2. subst taken.
      destruct (fflz_ok b (tl_push (wline b) (Str pre t)) HI) as (tx' & E & HI2).
      { split.
        - rewrite tlen_push, raw_push. lia.
        - intros Hovf. rewrite raw_push. cbn [elem_text].
          destruct E4 as [[A _]|(_ & A & _)]; [lia|congruence]. }
      rewrite E. cbn [bind]. subst rest. rewrite skipn_length_app.
      apply has_width_app in Hw. destruct Hw as [Hwp Hwr]. rewrite swidth_app in Hsum.
      eapply good_mono.
      { apply (IH (set_text_line b tx' tl_new)); try assumption.
        - lia.
        - intros Hc. apply orb_false_iff in Hc. destruct Hc as [Hc1 Hc2].
          destruct pre; [|discriminate]. rewrite swidth_nil in E3. rewrite (Hcons Hc1) in E3. lia.
        - prj. cbn [tl_new tlen_]. lia.
        - prj. cbn [tl_new tlen_]. change (0 =? 0) with true.
          rewrite app_length in Hfuel.
          destruct pre as [|c pre].
          + destruct E4 as [[_ A]|(_ & _ & _ & A)]; [|congruence].
            specialize (A eq_refl).
            destruct (N.eqb_spec (tlen_ (wline b)) 0); [congruence|]. cbn [length] in *. lia.
          + cbn [length] in Hfuel. lia. }
      intros [b' ll] (tx'' & ln'' & Eb & HIb & Hb). prj.
      exists tx'', ln''. split; [exact Eb|]. split; [exact HIb|exact Hb].
    + destruct consumed; cbn [negb].
      * destruct rest as [|c rest].
        -- cbn [good piece_postz]. exists (wtext b), (wline b). rewrite set_text_line_id. auto.
        -- rewrite (usub_ok 5 lineleft (w - wpos)) by lia. cbn [bind good piece_postz].
           exists (wtext b), (tl_push (wline b) (Str (c :: rest) t)).
           split; [destruct b; reflexivity|].
           split.
           ++ apply Inv0z_set_line; [exact HI|]. split; rewrite tlen_push, ?raw_push; cbn [elem_text]; lia.
           ++ prj. rewrite tlen_push. cbn [elem_text]. lia.
      * rewrite (Hcons eq_refl) in *.
        rewrite (usub_ok 5 lineleft w) by lia. cbn [bind good piece_postz].
        exists (wtext b), (tl_push (wline b) (Str rest t)).
        split; [destruct b; reflexivity|].
        split.
        -- apply Inv0z_set_line; [exact HI|]. split; rewrite tlen_push, ?raw_push; cbn [elem_text]; lia.
        -- prj. rewrite tlen_push. cbn [elem_text]. lia.
Qed.

Lemma hw_elemsz_ok : forall els b lineleft,
  Inv0z b -> elems_have_width els -> tlen_ (wline b) + lineleft <= wwidth b ->
  good (allow_overflow b)
       (fun b' => (exists tx' ln', b' = set_text_line b tx' ln') /\ Inv0z b')
       (hw_elems b els lineleft).
Proof.
  induction els as [|e els IH]; intros b lineleft HI Hw Hll.
  - cbn [hw_elems good]. split; [|exact HI].
    exists (wtext b), (wline b). rewrite set_text_line_id. reflexivity.
  - inversion Hw as [|? ? He Hels]; subst. destruct e as [s t|n]; cbn [hw_elems].
    + cbn [elem_text] in He. eapply good_bind.
      { apply (hw_piecez_ok t (swidth s) (2 * length s + 2) b s false lineleft 0 HI He);
          auto; try lia.
        destruct (tlen_ (wline b) =? 0); lia. }
      intros [b' ll] (tx' & ln' & Eb & HIb & Hb). subst b'.
      eapply good_mono.
      { apply (IH _ ll HIb Hels). prj. exact Hb. }
      intros b'' ((tx'' & ln'' & Eb') & HIb'). split; [|exact HIb'].
      exists tx'', ln''. exact Eb'.
    + pose proof HI as (HW & [Hl1 Hl2] & _).
      eapply good_mono.
      { apply (IH (set_line b (tl_push (wline b) (Frag n))) lineleft).
        - apply Inv0z_set_line; [exact HI|].
          split; rewrite tlen_push, ?raw_push; cbn [elem_text]; rewrite swidth_nil; lia.
        - exact Hels.
        - prj. rewrite tlen_push. cbn [elem_text]. rewrite swidth_nil. lia. }
      intros b'' ((tx'' & ln'' & Eb') & HIb'). split; [|exact HIb'].
      exists tx'', ln''. rewrite Eb'. reflexivity.
Qed.

Lemma fwhwz_ok b :
  Inv0z b -> elems_have_width (wword b) ->
  good (allow_overflow b)
       (fun b' => (exists tx' ln', b' = set_word (set_text_line b tx' ln') [] (wordlen b)) /\
                  Inv0z b')
       (flush_word_hard_wrap b).
Proof.
  intros HI Hw. pose proof HI as (HW & [Hl1 Hl2] & _).
  unfold flush_word_hard_wrap. rewrite usub_ok by lia. cbn [bind].
  eapply good_mono.
  { apply (hw_elemsz_ok (wword b) (set_word b [] (wordlen b)) (wwidth b - tlen_ (wline b))).
    - apply Inv0z_set_word, HI.
    - exact Hw.
    - prj. lia. }
  intros b' ((tx' & ln' & Eb) & HIb). split; [|exact HIb].
  exists tx', ln'. rewrite Eb. reflexivity.
Qed.

(* at width 0 the whitespace loop drops the pending spaces at once *)
Lemma ws_loopz_ok fuel b :
  Inv0z b -> (1 <= fuel)%nat ->
  good (allow_overflow b)
       (fun b' => (exists tx' ln', b' = set_space (set_text_line b tx' ln') (spacetag b) 0) /\
                  Inv0z b')
       (ws_loop fuel b).
Proof.
  intros HI Hf. pose proof HI as (HW & _).
  destruct fuel as [|f]; [lia|]. cbn [ws_loop].
  destruct (N.eqb_spec (wslen b) 0) as [Ez|Enz].
  - cbn [good]. split; [|exact HI]. exists (wtext b), (wline b).
    rewrite set_text_line_id. destruct b; prj; subst; reflexivity.
  - rewrite HW. change (0 =? 0) with true. cbn [good]. split.
    + exists (wtext b), (wline b). rewrite set_text_line_id. reflexivity.
    + apply Inv0z_set_space; [exact HI|lia].
Qed.

Lemma flush_word_tailz_ok b1 m :
  Inv0z b1 -> elems_have_width (wword b1) ->
  good (allow_overflow b1) (fun b' => Invz b' /\ same_cfg b1 b')
    (do b2 <- flush_line b1;
     let b3 := if is_pre m then set_prew b2 true else b2 in
     do b4 <- ws_loop (S (N.to_nat (wslen b3))) b3;
     let b5 := set_space b4 None (wslen b4) in
     do b6 <- flush_word_hard_wrap b5;
     Ok (set_word b6 (wword b6) 0)).
Proof.
  intros HI Hw.
  destruct (flush_linez_ok _ HI) as (tx' & ln' & E & HI2 & Hz). rewrite E. cbn [bind].
  cbv zeta.
  assert (H3 : exists pw, (if is_pre m then set_prew (set_text_line b1 tx' ln') true
                           else set_text_line b1 tx' ln')
                          = set_prew (set_text_line b1 tx' ln') pw).
  { destruct (is_pre m); eexists; [reflexivity|symmetry; apply set_prew_id]. }
  destruct H3 as (pw & ->).
  eapply good_bind.
  { apply (ws_loopz_ok _ (set_prew (set_text_line b1 tx' ln') pw)).
    - apply Inv0z_set_prew, HI2.
    - lia. }
  intros b4 ((tx4 & ln4 & E4) & HI4). subst b4. prj.
  eapply good_bind.
  { match goal with |- good _ _ (flush_word_hard_wrap ?x) => apply (fwhwz_ok x) end.
    - apply Inv0z_set_space; [|lia]. revert HI4. unfold Inv0z. prj. tauto.
    - prj. exact Hw. }
  intros b6 ((tx6 & ln6 & E6) & HI6). subst b6. prj. cbn [good]. split.
  - unfold Invz. prj. split; [|split].
    + revert HI6. unfold Inv0z. prj. tauto.
    + reflexivity.
    + constructor.
  - unfold same_cfg. prj. auto.
Qed.

Lemma flush_wordz_ok b m :
  Invz b -> good (allow_overflow b) (fun b' => Invz b' /\ same_cfg b b') (flush_word b m).
Proof.
  intros HI. destruct HI as (HI0 & Hwl & Hehw).
  pose proof HI0 as (HW & [Hl1 Hl2] & Htx & Hst).
  unfold flush_word. destruct (word_is_empty (wword b)) eqn:Ewe.
  - cbn [good]. split; [|unfold same_cfg; prj; auto].
    unfold Invz. prj. split; [apply Inv0z_set_word, HI0|]. split; [|exact Hehw].
    symmetry. apply word_is_empty_vw, Ewe.
  - cbv zeta. prj. rewrite usub_ok by lia. cbn [bind].
    destruct (N.leb_spec (wslen b + wordlen b) (wwidth b - tlen_ (wline b))) as [Hfit|Hnofit].
    + (* the word fits on the current line *)
      destruct (N.ltb_spec 0 (wslen b)) as [Hws|Hws].
      * destruct (spacetag b) as [st|] eqn:Est.
        2:{ exfalso. apply Hst; [lia|reflexivity]. }
        cbn [bind]. prj. cbn [good]. split; [|unfold same_cfg; prj; auto].
        unfold Invz. prj. split; [|split; [reflexivity|constructor]].
        unfold Inv0z. prj. split; [exact HW|]. split; [|split; [exact Htx|lia]].
        split; rewrite tlen_fold_push, ?raw_fold_push, tlen_push, ?raw_push;
          cbn [elem_text]; rewrite swidth_spacesl; lia.
      * cbn [bind]. prj. cbn [good]. split; [|unfold same_cfg; prj; auto].
        unfold Invz. prj. split; [|split; [reflexivity|constructor]].
        unfold Inv0z. prj. split; [exact HW|]. split; [|split; [exact Htx|exact Hst]].
        split; rewrite tlen_fold_push, ?raw_fold_push; lia.
    + (* it does not fit *)
      eapply good_bind with
        (P := fun b1 => Inv0z b1 /\ wword b1 = wword b /\ same_cfg b b1).
      { destruct (do_wrap m); cbn [negb].
        - cbn [good]. split; [|split; [reflexivity|unfold same_cfg; prj; auto]].
          apply Inv0z_set_space; [exact HI0|lia].
        - destruct (N.leb_spec (wwidth b - tlen_ (wline b)) (wslen b)) as [Hle|Hgt].
          + cbn [good]. split; [|split; [reflexivity|unfold same_cfg; prj; auto]].
            apply Inv0z_set_space; [exact HI0|]. intros H. apply Hst. lia.
          + destruct (N.ltb_spec 0 (wslen b)) as [Hws|Hws].
            * destruct (spacetag b) as [st|] eqn:Est.
              2:{ exfalso. apply Hst; [lia|reflexivity]. }
              cbn [good]. split; [|split; [reflexivity|unfold same_cfg; prj; auto]].
              apply Inv0z_set_space; [|lia]. apply Inv0z_set_line; [exact HI0|].
              prj. split; rewrite tlen_push_wsl, ?raw_push_wsl; lia.
            * cbn [good]. split; [|split; [reflexivity|unfold same_cfg; prj; auto]].
              exact HI0. }
      intros b1 (H1 & H2 & H3). pose proof H3 as (c1 & c2 & c3). rewrite <- c3.
      eapply good_mono.
      { apply (flush_word_tailz_ok b1 m H1). rewrite H2. exact Hehw. }
      intros b' [Hb' Hc']. split; [exact Hb'|]. eapply same_cfg_trans; eassumption.
Qed.

Lemma tab_loopz b t tw pos one fl f :
  wwidth b = 0 -> tab_loop (S f) b t tw pos one fl = Ok (b, fl).
Proof.
  intros HW. cbn [tab_loop]. rewrite HW. change (0 =? 0) with true.
  destruct (negb (pos mod 8 =? 0) || negb one); reflexivity.
Qed.

Lemma Invz_lines b tx' ln' :
  Invz b -> Inv0z (set_text_line b tx' ln') -> Invz (set_text_line b tx' ln').
Proof. intros HI H0. unfold Invz in *. prj. tauto. Qed.

Lemma add_charz_ok m t1 t2 b u c :
  Invz b ->
  good (allow_overflow b) (fun st' => Invz (fst st') /\ same_cfg b (fst st'))
       (add_char m t1 t2 (b, u) c).
Proof.
  intros HI. unfold add_char.
  eapply good_bind with (P := fun b1 => Invz b1 /\ same_cfg b b1).
  { destruct (ws c && (0 <? wordlen b)); [apply flush_wordz_ok, HI|].
    cbn [good]. split; [exact HI|apply same_cfg_refl]. }
  clear HI. intros b1 [HI Hc]. pose proof Hc as (c1 & c2 & c3). rewrite <- c3.
  apply good_mono with (P := fun st' => Invz (fst st') /\ same_cfg b1 (fst st')).
  2:{ intros st' [A B]. split; [exact A|]. eapply same_cfg_trans; eassumption. }
  clear b Hc c1 c2 c3. rename b1 into b.
  cbv zeta. set (t := if u then t2 else t1).
  pose proof HI as HI'. destruct HI' as (HI0 & Hwl & Hehw).
  pose proof HI0 as (HW & [Hl1 Hl2] & Htx & Hst).
  destruct (ws c).
  - destruct (preserve_ws m).
    + destruct (cp c =? 10).
      * destruct (fflz_ok b (wline b) HI0) as (tx' & E & HI2).
        { split; [exact Hl1|]. intros _. lia. }
        rewrite set_line_id in E. rewrite E. cbn [bind good fst].
        split; [|unfold same_cfg; prj; auto].
        unfold Invz. prj. split; [|auto].
        apply Inv0z_set_prew, Inv0z_set_space; [exact HI2|lia].
      * destruct (cp c =? 9).
        -- change 40%nat with (S 39). rewrite tab_loopz by exact HW. cbn [bind fst snd good].
           destruct (is_pre m && false); cbn [fst].
           ++ split; [|unfold same_cfg; prj; auto].
              unfold Invz. prj. split; [apply Inv0z_set_prew, HI0|auto].
           ++ split; [exact HI|apply same_cfg_refl].
        -- destruct (cw c) as [cwidth|].
           ++ destruct (N.ltb_spec (wwidth b) (tlen_ (wline b) + wslen b + cwidth)) as [Hov|Hfit].
              ** destruct (flush_linez_ok (set_space b (spacetag b) 0)) as (tx' & ln' & E & HI2 & Hz).
                 { apply Inv0z_set_space; [exact HI0|lia]. }
                 rewrite E. cbn [bind]. destruct (do_wrap m); cbn [good fst]; prj.
                 --- split; [|unfold same_cfg; prj; auto].
                     unfold Invz. prj. split; [|auto]. revert HI2. unfold Inv0z. prj. tauto.
                 --- split; [|unfold same_cfg; prj; auto].
                     unfold Invz. prj. split; [|auto]. revert HI2. unfold Inv0z. prj.
                     intuition discriminate.
              ** cbn [good fst]. split; [|unfold same_cfg; prj; auto].
                 unfold Invz. prj. split; [|auto].
                 apply Inv0z_set_space; [exact HI0|]. intros _. discriminate.
           ++ cbn [good fst]. split; [exact HI|apply same_cfg_refl].
    + destruct ((0 <? tlen_ (wline b)) && (wslen b =? 0)); cbn [good fst].
      * split; [|unfold same_cfg; prj; auto].
        unfold Invz. prj. split; [|auto].
        apply Inv0z_set_space; [exact HI0|]. intros _. discriminate.
      * split; [exact HI|apply same_cfg_refl].
  - destruct (cw c) as [cwidth|] eqn:Ecw.
    + assert (Hc0 : cw0 c = cwidth) by (unfold cw0; rewrite Ecw; reflexivity).
      assert (Hwc : has_width [c]).
      { constructor; [congruence|constructor]. }
      cbn [good fst]. split.
      * unfold Invz.
        destruct (is_pre m && (wwidth b <? tlen_ (wline b) + wslen b + (wordlen b + cwidth)));
          prj.
        -- split; [apply Inv0z_set_word, Inv0z_set_prew, HI0|]. prj. split.
           ++ rewrite vw_push_merge, swidth_cons, swidth_nil. lia.
           ++ apply ehw_push_merge; assumption.
        -- split; [apply Inv0z_set_word, HI0|]. prj. split.
           ++ rewrite vw_push_merge, swidth_cons, swidth_nil. lia.
           ++ apply ehw_push_merge; assumption.
      * destruct (is_pre m && (wwidth b <? tlen_ (wline b) + wslen b + (wordlen b + cwidth)));
          unfold same_cfg; prj; auto.
    + cbn [good fst]. split; [exact HI|apply same_cfg_refl].
Qed.

Lemma add_charsz_ok m t1 t2 : forall s b u,
  Invz b ->
  good (allow_overflow b) (fun st' => Invz (fst st') /\ same_cfg b (fst st'))
       (add_chars m t1 t2 (b, u) s).
Proof.
  induction s as [|c s IH]; intros b u HI; cbn [add_chars].
  - cbn [good fst]. split; [exact HI|apply same_cfg_refl].
  - eapply good_bind; [apply add_charz_ok, HI|].
    intros [b' u'] [HI' Hc']. cbn [fst] in *. pose proof Hc' as (c1 & c2 & c3). rewrite <- c3.
    eapply good_mono; [apply (IH b' u' HI')|].
    intros st' [A B]. split; [exact A|]. eapply same_cfg_trans; eassumption.
Qed.

Lemma wb_add_textz_ok b s m t1 t2 :
  Invz b ->
  good (allow_overflow b) (fun b' => Invz b' /\ same_cfg b b') (wb_add_text b s m t1 t2).
Proof.
  intros HI. unfold wb_add_text. eapply good_bind; [apply add_charsz_ok, HI|].
  intros st' H. exact H.
Qed.

Lemma flush_line_Invz b :
  Invz b -> good (allow_overflow b) (fun b' => Invz b' /\ same_cfg b b') (flush_line b).
Proof.
  intros HI. pose proof HI as (HI0 & _).
  destruct (flush_linez_ok b HI0) as (tx' & ln' & E & HI2 & _). rewrite E. cbn [good].
  split; [apply Invz_lines; assumption|unfold same_cfg; prj; auto].
Qed.

Lemma wb_flushz_ok b :
  Invz b -> good (allow_overflow b) (fun b' => Invz b' /\ same_cfg b b') (wb_flush b).
Proof.
  intros HI. unfold wb_flush. eapply good_bind; [apply flush_wordz_ok, HI|].
  intros b1 [HI1 Hc1]. pose proof Hc1 as (c1 & c2 & c3). rewrite <- c3.
  eapply good_mono; [apply flush_line_Invz, HI1|].
  intros b' [A B]. split; [exact A|]. eapply same_cfg_trans; eassumption.
Qed.

Lemma wb_into_linesz_ok b :
  Invz b ->
  good (allow_overflow b)
       (fun ls => forall l, In l ls -> fin_ok (wwidth b) (allow_overflow b) l)
       (wb_into_lines b).
Proof.
  intros HI. unfold wb_into_lines. eapply good_bind; [apply wb_flushz_ok, HI|].
  intros b1 [HI1 (c1 & c2 & c3)]. cbn [good]. rewrite <- c1, <- c3.
  destruct HI1 as ((_ & _ & Htx & _) & _). exact Htx.
Qed.

(* ================================================================== *)
(* 2. WrappedBlock layer, any width                                     *)
(* ================================================================== *)

Definition WI (b : wblock) : Prop := Inv b \/ Invz b.

Definition cons_line (l : tline) : Prop := tlen_ l = tl_width_raw l.

Lemma WI_new W pad ovf : WI (wb_new W pad ovf).
Proof.
  destruct (N.eq_dec W 0) as [->|H].
  - right. unfold Invz, Inv0z, wb_new. prj. split; [|split; [reflexivity|constructor]].
    split; [reflexivity|]. split; [apply line_ok_new|]. split; [intros l []|lia].
  - left. apply wb_new_Inv. lia.
Qed.

Lemma WI_add_text b s m t1 t2 : WI b -> okp WI (wb_add_text b s m t1 t2).
Proof.
  intros [H|H].
  - eapply okp_mono; [eapply good_okp, wb_add_text_ok, H|]. intros b' [A _]. left. exact A.
  - eapply okp_mono; [eapply good_okp, wb_add_textz_ok, H|]. intros b' [A _]. right. exact A.
Qed.

Lemma WI_into_lines b :
  WI b -> okp (fun ls => forall l, In l ls -> cons_line l) (wb_into_lines b).
Proof.
  intros [H|H].
  - eapply okp_mono; [eapply good_okp, wb_into_lines_ok, H|].
    intros ls Hls l Hl. exact (proj1 (Hls l Hl)).
  - eapply okp_mono; [eapply good_okp, wb_into_linesz_ok, H|].
    intros ls Hls l Hl. exact (proj1 (Hls l Hl)).
Qed.

Lemma WI_into_lines_markers b :
  WI b -> okp (fun lm => forall l, In l (fst lm) -> cons_line l) (wb_into_lines_markers b).
Proof.
  intros H. apply WI_into_lines in H. rewrite wb_into_lines_of_markers in H.
  destruct (wb_into_lines_markers b); exact H.
Qed.

Lemma WI_take_frags b : WI b -> WI (fst (take_trailing_fragments b)).
Proof.
  intros [H|H].
  - left. apply take_trailing_fragments_Inv, H.
  - right. destruct H as (HI0 & Hwl & Hehw). rewrite ttf_eq. cbn [fst].
    unfold Invz. prj. split; [apply Inv0z_set_word, HI0|]. split.
    + rewrite tfr_fst_vw. exact Hwl.
    + unfold elems_have_width in *. rewrite (tfr_app (wword b)) in Hehw.
      apply Forall_app in Hehw. apply Hehw.
Qed.

Lemma WI_add_frag b n : WI b -> WI (wb_add_element b (Frag n)).
Proof.
  intros [H|H].
  - left. apply wb_add_frag_Inv, H.
  - right. destruct H as (HI0 & Hwl & Hehw). cbn [wb_add_element].
    unfold Invz. prj. split; [apply Inv0z_set_word, HI0|]. split.
    + rewrite vw_app, vw_cons, vw_nil. cbn [elem_text]. rewrite swidth_nil. lia.
    + unfold elems_have_width in *. apply Forall_app. split; [exact Hehw|].
      constructor; [constructor|constructor].
Qed.

(* ================================================================== *)
(* 3. Sub-renderer layer                                                *)
(* ================================================================== *)

Definition cons_rline (r : rline) : Prop :=
  match r with RText l => cons_line l | RLine _ _ => True end.
Definition is_rline (r : rline) : bool :=
  match r with RLine _ _ => true | RText _ => false end.

(* the totality invariant of a sub-renderer:
   - the cached length of every text line is exact (TaggedLine::width debug assertion, site 40),
   - without borders there is no border line at all (so that `collapse_top` never meets one
     without a border above it, site 37),
   - the wrapping block satisfies the WrappedBlock invariant,
   - the width is below usize::MAX (so that `col_width + colspan` cannot overflow, site 30). *)
Definition sub_t (s : subr) : Prop :=
  (forall r, In r (slines s) -> cons_rline r) /\
  (o_borders (sopts s) = false -> forall r, In r (slines s) -> is_rline r = false) /\
  (forall w, wrapping s = Some w -> WI w) /\
  swidth_ s < usize_max.

Definition dsame (s s' : subr) : Prop :=
  same s s' /\ pre_depth s' = pre_depth s /\ filter_depth s' = filter_depth s.

Lemma dsame_refl s : dsame s s.
Proof. split; [apply same_refl|auto]. Qed.
Lemma dsame_trans a b c : dsame a b -> dsame b c -> dsame a c.
Proof.
  intros (A1 & A2 & A3) (B1 & B2 & B3). split; [eapply same_trans; eassumption|].
  split; congruence.
Qed.

Definition tot (f : subr -> res subr) : Prop :=
  forall s, sub_t s -> okp (fun s' => sub_t s' /\ dsame s s') (f s).

Definition lastR (s : subr) : Prop := exists b t, olast (slines s) = Some (RLine b t).

Lemma olast_snoc {A} (l : list A) x : olast (l ++ [x]) = Some x.
Proof. unfold olast. rewrite rev_app_distr. reflexivity. Qed.

Lemma sub_t_ext s s' :
  swidth_ s' = swidth_ s -> sopts s' = sopts s -> slines s' = slines s ->
  wrapping s' = wrapping s -> sub_t s -> sub_t s'.
Proof. unfold sub_t. intros -> -> -> ->. auto. Qed.

Lemma tot_pure (g : subr -> subr) :
  (forall s, swidth_ (g s) = swidth_ s /\ sopts (g s) = sopts s /\ slines (g s) = slines s /\
             wrapping (g s) = wrapping s /\ pre_depth (g s) = pre_depth s /\
             filter_depth (g s) = filter_depth s) ->
  tot (fun s => Ok (g s)).
Proof.
  intros Hg s Hs. destruct (Hg s) as (a & b & c & e & f & g0). cbn [okp].
  split; [apply (sub_t_ext s); auto|]. split; [split; auto|auto].
Qed.

Lemma tot_comp f g : tot f -> tot g -> tot (fun s => do s1 <- f s; g s1).
Proof.
  intros Hf Hg s Hs. eapply okp_bind; [apply Hf, Hs|].
  intros s1 [A B]. eapply okp_mono; [apply Hg, A|].
  intros s2 [C D]. split; [exact C|eapply dsame_trans; eassumption].
Qed.

Lemma add_line_t s l :
  sub_t s -> cons_rline l -> (o_borders (sopts s) = false -> is_rline l = false) ->
  sub_t (add_line s l) /\ dsame s (add_line s l) /\ wrapping (add_line s l) = wrapping s /\
  (is_rline l = true -> lastR (add_line s l)).
Proof.
  intros (H1 & H2 & H3 & H4) Hc Hb.
  assert (G : forall l' pf, cons_rline l' -> is_rline l' = is_rline l ->
            sub_t (set_lines s (slines s ++ [l']) pf) /\
            (is_rline l = true -> lastR (set_lines s (slines s ++ [l']) pf))).
  { intros l' pf Hc' Hr'. split.
    - unfold sub_t. sprj. split; [|split; [|split; assumption]].
      + intros r Hr. apply in_app_or in Hr. destruct Hr as [Hr|[<-|[]]]; auto.
      + intros Ho r Hr. apply in_app_or in Hr. destruct Hr as [Hr|[<-|[]]]; auto.
        rewrite Hr'. auto.
    - intros E. unfold lastR. sprj. rewrite olast_snoc.
      destruct l'; [rewrite <- Hr' in E; discriminate|]. eauto. }
  unfold add_line. destruct (pending_frags s) as [|e pf]; destruct l as [tl|b t].
  - destruct (G (RText tl) [] Hc eq_refl) as [A B].
    split; [exact A|]. split; [(split; [split|split]; reflexivity)|]. split; [reflexivity|exact B].
  - destruct (G (RLine b t) [] Hc eq_refl) as [A B].
    split; [exact A|]. split; [(split; [split|split]; reflexivity)|]. split; [reflexivity|exact B].
  - set (tl2 := fold_left tl_push (tv tl) (fold_left tl_push (e :: pf) tl_new)).
    destruct (G (RText tl2) []) as [A B]; [|reflexivity|].
    { cbn [cons_rline]. unfold cons_line, tl2. rewrite !tlen_fold_push, !raw_fold_push. reflexivity. }
    split; [exact A|]. split; [(split; [split|split]; reflexivity)|]. split; [reflexivity|exact B].
  - destruct (G (RLine b t) (e :: pf) Hc eq_refl) as [A B].
    split; [exact A|]. split; [(split; [split|split]; reflexivity)|]. split; [reflexivity|exact B].
Qed.

Lemma dsame_opts s s' : dsame s s' -> sopts s' = sopts s.
Proof. intros ((_ & A) & _). exact A. Qed.

Lemma extend_lines_t ls : forall s,
  sub_t s -> (forall l, In l ls -> cons_rline l) ->
  (o_borders (sopts s) = false -> forall l, In l ls -> is_rline l = false) ->
  sub_t (extend_lines s ls) /\ dsame s (extend_lines s ls) /\
  wrapping (extend_lines s ls) = wrapping s.
Proof.
  unfold extend_lines. induction ls as [|l ls IH]; intros s Hs Hc Hb; cbn [fold_left].
  - split; [exact Hs|]. split; [apply dsame_refl|reflexivity].
  - destruct (add_line_t s l Hs) as (A & B & C & _).
    { apply Hc. left. reflexivity. }
    { intros Ho. apply Hb; [exact Ho|left; reflexivity]. }
    destruct (IH (add_line s l) A) as (A' & B' & C').
    { intros l' Hl'. apply Hc. right. exact Hl'. }
    { rewrite (dsame_opts _ _ B). intros Ho l' Hl'. apply Hb; [exact Ho|right; exact Hl']. }
    split; [exact A'|]. split; [eapply dsame_trans; eassumption|congruence].
Qed.

Lemma flush_wrapping_none s : wrapping s = None -> flush_wrapping s = Ok s.
Proof. intros H. unfold flush_wrapping. rewrite H. reflexivity. Qed.

Lemma flush_wrapping_t s :
  sub_t s -> okp (fun s' => sub_t s' /\ dsame s s' /\ wrapping s' = None) (flush_wrapping s).
Proof.
  intros Hs. unfold flush_wrapping. destruct (wrapping s) as [w|] eqn:Ew.
  - pose proof (WI_take_frags w) as Hw1.
    destruct (take_trailing_fragments w) as [w1 frags]. cbn [fst] in Hw1.
    pose proof Hs as (H1 & H2 & H3 & H4).
    eapply okp_bind; [apply WI_into_lines_markers, Hw1, H3, Ew|].
    intros [ls mk] Hls. cbn [okp fst snd] in *.
    assert (Hs0 : sub_t (set_wrapping s None)).
    { unfold sub_t. sprj. repeat split; auto. intros ? [=]. }
    destruct (extend_lines_t (map RText ls) _ Hs0) as (A & B & C).
    { intros l Hl. apply in_map_iff in Hl. destruct Hl as (tl & <- & Htl). apply Hls, Htl. }
    { intros _ l Hl. apply in_map_iff in Hl. destruct Hl as (tl & <- & _). reflexivity. }
    sprj. split; [|split].
    + eapply sub_t_ext; [| | | |exact A]; reflexivity.
    + destruct B as ((B1 & B2) & B3 & B4). split; [split|]; sprj; auto.
    + exact C.
  - cbn [okp]. split; [exact Hs|]. split; [apply dsame_refl|exact Ew].
Qed.

Lemma flush_wrapping_tot : tot flush_wrapping.
Proof.
  intros s Hs. eapply okp_mono; [apply flush_wrapping_t, Hs|]. intros s' (A & B & _). auto.
Qed.

Lemma set_abe_t s b : sub_t s -> sub_t (set_abe s b).
Proof. apply sub_t_ext; reflexivity. Qed.

Lemma cons_new : cons_rline (RText tl_new).
Proof. reflexivity. Qed.

Lemma add_empty_line_t s :
  sub_t s -> okp (fun s' => sub_t s' /\ dsame s s' /\ wrapping s' = None) (add_empty_line s).
Proof.
  intros Hs. unfold add_empty_line. eapply okp_bind; [apply flush_wrapping_t, Hs|].
  intros s1 (A & B & C). cbn [okp].
  destruct (add_line_t s1 (RText tl_new) A cons_new (fun _ => eq_refl)) as (A' & B' & C' & _).
  split; [apply set_abe_t, A'|]. split.
  - eapply dsame_trans; [exact B|]. eapply dsame_trans; [exact B'|].
    split; [split|]; sprj; auto.
  - sprj. congruence.
Qed.

Lemma start_block_t s :
  sub_t s -> okp (fun s' => sub_t s' /\ dsame s s' /\ wrapping s' = None) (start_block s).
Proof.
  intros Hs. unfold start_block. eapply okp_bind; [apply flush_wrapping_t, Hs|].
  intros s1 (A & B & C).
  eapply okp_bind with (P := fun s2 => sub_t s2 /\ dsame s1 s2 /\ wrapping s2 = None).
  { destruct (existsb rline_has_content (slines s1)).
    - apply add_empty_line_t, A.
    - cbn [okp]. split; [exact A|]. split; [apply dsame_refl|exact C]. }
  intros s2 (A2 & B2 & C2). cbn [okp]. split; [apply set_abe_t, A2|]. split.
  - eapply dsame_trans; [exact B|]. eapply dsame_trans; [exact B2|]. split; [split|]; sprj; auto.
  - sprj. exact C2.
Qed.

Lemma start_block_tot : tot start_block.
Proof.
  intros s Hs. eapply okp_mono; [apply start_block_t, Hs|]. intros s' (A & B & _). auto.
Qed.

Lemma add_empty_line_tot : tot add_empty_line.
Proof.
  intros s Hs. eapply okp_mono; [apply add_empty_line_t, Hs|]. intros s' (A & B & _). auto.
Qed.

Lemma new_line_tot : tot new_line.
Proof. exact flush_wrapping_tot. Qed.

Lemma new_line_hard_tot : tot new_line_hard.
Proof.
  intros s Hs. unfold new_line_hard. destruct (wrapping s) as [w|].
  - destruct ((wordlen w =? 0) && (tlen_ (wline w) =? 0)).
    + apply add_empty_line_tot, Hs.
    + apply flush_wrapping_tot, Hs.
  - apply add_empty_line_tot, Hs.
Qed.

(* a border line may only be added when borders are on *)
Lemma add_horizontal_line_t s b t :
  sub_t s -> o_borders (sopts s) = true ->
  okp (fun s' => sub_t s' /\ dsame s s' /\ wrapping s' = None /\ lastR s')
      (add_horizontal_line s b t).
Proof.
  intros Hs Hb. unfold add_horizontal_line. eapply okp_bind; [apply flush_wrapping_t, Hs|].
  intros s1 (A & B & C). cbn [okp].
  destruct (add_line_t s1 (RLine b t) A I) as (A' & B' & C' & D').
  { rewrite (dsame_opts _ _ B), Hb. discriminate. }
  split; [exact A'|]. split; [eapply dsame_trans; eassumption|].
  split; [congruence|apply D'; reflexivity].
Qed.

Lemma add_horizontal_border_width_t s w :
  sub_t s -> o_borders (sopts s) = true ->
  okp (fun s' => sub_t s' /\ dsame s s' /\ wrapping s' = None /\ lastR s')
      (add_horizontal_border_width s w).
Proof.
  intros Hs Hb. unfold add_horizontal_border_width.
  eapply okp_bind; [apply flush_wrapping_t, Hs|].
  intros s1 (A & B & C). cbn [okp].
  destruct (add_line_t s1 (RLine (border_new w) (ann_stack s1)) A I) as (A' & B' & C' & D').
  { rewrite (dsame_opts _ _ B), Hb. discriminate. }
  split; [exact A'|]. split; [eapply dsame_trans; eassumption|].
  split; [congruence|apply D'; reflexivity].
Qed.

(* ---- inline text ---- *)
Lemma get_wrapping_t s : sub_t s -> WI (get_wrapping s).
Proof.
  intros (_ & _ & H3 & _). unfold get_wrapping. destruct (wrapping s) as [w|] eqn:Ew.
  - apply H3. reflexivity.
  - apply WI_new.
Qed.

Lemma set_wrapping_t s w : sub_t s -> WI w -> sub_t (set_wrapping s (Some w)).
Proof.
  intros (H1 & H2 & H3 & H4) Hw. unfold sub_t. sprj. repeat split; auto.
  intros w' [= <-]. exact Hw.
Qed.

Lemma add_inline_text_tot d t : tot (fun s => add_inline_text d s t).
Proof.
  intros s Hs. unfold add_inline_text.
  destruct (negb (preserve_ws (ws_mode s)) && at_block_end s && all_ws t).
  { cbn [okp]. split; [exact Hs|apply dsame_refl]. }
  eapply okp_bind with (P := fun s1 => sub_t s1 /\ dsame s s1).
  { destruct (at_block_end s).
    - apply start_block_tot, Hs.
    - cbn [okp]. split; [exact Hs|apply dsame_refl]. }
  intros s1 [A B].
  eapply okp_bind; [apply WI_add_text, get_wrapping_t, A|].
  intros w1 Hw1. cbn [okp]. split; [apply set_wrapping_t; assumption|].
  eapply dsame_trans; [exact B|]. split; [split|]; sprj; auto.
Qed.

Lemma push_ann_tot a : tot (fun s => Ok (push_ann s a)).
Proof. apply tot_pure. intros s. unfold push_ann. sprj. repeat split. Qed.
Lemma pop_ann_tot : tot (fun s => Ok (pop_ann s)).
Proof. apply tot_pure. intros s. unfold pop_ann. sprj. repeat split. Qed.

Lemma start_deco_tot d p : tot (fun s => start_deco d s p).
Proof.
  unfold start_deco.
  exact (tot_comp _ _ (push_ann_tot (snd p)) (add_inline_text_tot d (fst p))).
Qed.
Lemma end_deco_tot d e : tot (fun s => end_deco d s e).
Proof. unfold end_deco. exact (tot_comp _ _ (add_inline_text_tot d e) pop_ann_tot). Qed.

Lemma sub_start_link_tot d href : tot (fun s => sub_start_link d s href).
Proof. apply start_deco_tot. Qed.
Lemma sub_end_link_tot d : tot (sub_end_link d).
Proof. apply (end_deco_tot d). Qed.
Lemma start_emphasis_tot d : tot (start_emphasis d).
Proof. apply (start_deco_tot d). Qed.
Lemma end_emphasis_tot d : tot (end_emphasis d).
Proof. apply (end_deco_tot d). Qed.
Lemma start_strong_tot d : tot (start_strong d).
Proof. apply (start_deco_tot d). Qed.
Lemma end_strong_tot d : tot (end_strong d).
Proof. apply (end_deco_tot d). Qed.
Lemma start_code_tot d : tot (start_code d).
Proof. apply (start_deco_tot d). Qed.
Lemma end_code_tot d : tot (end_code d).
Proof. apply (end_deco_tot d). Qed.
Lemma start_superscript_tot d : tot (start_superscript d).
Proof. apply (start_deco_tot d). Qed.
Lemma end_superscript_tot d : tot (end_superscript d).
Proof. apply (end_deco_tot d). Qed.

Lemma add_image_tot d src title : tot (fun s => add_image d s src title).
Proof.
  unfold add_image.
  exact (tot_comp _ _ (tot_comp _ _ (push_ann_tot _) (add_inline_text_tot d _)) pop_ann_tot).
Qed.

Lemma record_frag_start_tot name : tot (fun s => Ok (record_frag_start s name)).
Proof.
  intros s Hs. cbn [okp]. unfold record_frag_start. split; [|split; [split|]; sprj; auto].
  apply set_wrapping_t; [exact Hs|]. apply WI_add_frag, get_wrapping_t, Hs.
Qed.

Lemma end_block_tot : tot (fun s => Ok (end_block s)).
Proof. apply tot_pure. intros s. unfold end_block. sprj. repeat split. Qed.

(* strikeout: the filter depth goes up by one (when the option is on) and down again *)
Definition strike_inc (s : subr) : nat :=
  if o_strike (sopts s) then S (filter_depth s) else filter_depth s.

Lemma start_strikeout_t d s :
  sub_t s ->
  okp (fun s' => sub_t s' /\ same s s' /\ pre_depth s' = pre_depth s /\
                 filter_depth s' = strike_inc s) (start_strikeout d s).
Proof.
  intros Hs. unfold start_strikeout. eapply okp_bind; [apply (start_deco_tot d), Hs|].
  intros s1 (A & (B1 & B2) & B3 & B4). cbn [okp]. unfold strike_inc.
  rewrite <- B2. destruct (o_strike (sopts s1)) eqn:Eo.
  - split; [eapply sub_t_ext; [| | | |exact A]; reflexivity|].
    split; [split; sprj; congruence|]. sprj. split; congruence.
  - split; [exact A|]. split; [split; congruence|]. split; congruence.
Qed.

Lemma end_strikeout_t d s s0 :
  sub_t s -> sopts s = sopts s0 -> filter_depth s = strike_inc s0 ->
  okp (fun s' => sub_t s' /\ same s s' /\ pre_depth s' = pre_depth s /\
                 filter_depth s' = filter_depth s0) (end_strikeout d s).
Proof.
  intros Hs Eo Ef. unfold end_strikeout. unfold strike_inc in Ef. rewrite Eo.
  destruct (o_strike (sopts s0)) eqn:Es.
  - rewrite Ef. cbn [bind].
    assert (A : sub_t (set_filter s (filter_depth s0))) by (eapply sub_t_ext; [| | | |exact Hs]; reflexivity).
    eapply okp_mono; [apply (end_deco_tot d), A|].
    intros s' (A' & (B1 & B2) & B3 & B4). sprj. split; [exact A'|]. split; [split; assumption|].
    split; assumption.
  - cbn [bind]. eapply okp_mono; [apply (end_deco_tot d), Hs|].
    intros s' (A' & (B1 & B2) & B3 & B4). split; [exact A'|]. split; [split; assumption|].
    split; congruence.
Qed.

Lemma push_ws_mode_tot m : tot (fun s => Ok (push_ws_mode s m)).
Proof. apply tot_pure. intros s. unfold push_ws_mode. sprj. repeat split. Qed.
Lemma pop_ws_mode_tot : tot (fun s => Ok (pop_ws_mode s)).
Proof. apply tot_pure. intros s. unfold pop_ws_mode. sprj. repeat split. Qed.
Lemma push_colour_tot d r g b : tot (fun s => Ok (push_colour d s r g b)).
Proof.
  apply tot_pure. intros s. unfold push_colour, push_ann. destruct (d_colours d); sprj; repeat split.
Qed.
Lemma push_bgcolour_tot d r g b : tot (fun s => Ok (push_bgcolour d s r g b)).
Proof.
  apply tot_pure. intros s. unfold push_bgcolour, push_ann. destruct (d_colours d); sprj; repeat split.
Qed.
Lemma pop_colour_tot d : tot (fun s => Ok (pop_colour d s)).
Proof.
  apply tot_pure. intros s. unfold pop_colour, pop_ann. destruct (d_colours d); sprj; repeat split.
Qed.

Lemma new_sub_renderer_t s w :
  w < usize_max ->
  sub_t (new_sub_renderer s w) /\ sopts (new_sub_renderer s w) = sopts s /\
  swidth_ (new_sub_renderer s w) = w.
Proof.
  intros Hw. unfold new_sub_renderer, sub_new. sprj. split; [|auto].
  unfold sub_t. sprj. split; [intros r []|]. split; [intros _ r []|]. split; [intros ? [=]|exact Hw].
Qed.

(* ---- prefixes ---- *)
Lemma sub_into_lines_t s :
  sub_t s ->
  okp (fun ls => (forall r, In r ls -> cons_rline r) /\
                 (o_borders (sopts s) = false -> forall r, In r ls -> is_rline r = false))
      (sub_into_lines s).
Proof.
  intros Hs. unfold sub_into_lines. eapply okp_bind; [apply flush_wrapping_t, Hs|].
  intros s1 ((A1 & A2 & _) & B & _). cbn [okp]. rewrite <- (dsame_opts _ _ B). auto.
Qed.

Lemma cons_insert_front l s t : cons_line l -> cons_line (tl_insert_front l s t).
Proof.
  unfold cons_line. intros H. rewrite raw_insert_front.
  unfold tl_insert_front. destruct (tv l) as [|[s1 t1|n] v']; [| destruct (tag_eqb t1 t)|];
    cbn [tlen_]; lia.
Qed.

Lemma attach_prefix_t t p l :
  cons_rline l -> cons_rline (attach_prefix t p l) /\ is_rline (attach_prefix t p l) = false.
Proof.
  intros H. destruct l as [tl|b bt]; cbn [attach_prefix].
  - destruct p as [|c p]; cbn [cons_rline is_rline]; [auto|].
    split; [apply cons_insert_front, H|reflexivity].
  - cbn [cons_rline is_rline]. split; [|reflexivity].
    unfold cons_line. rewrite !tlen_push, !raw_push. reflexivity.
Qed.

Lemma attach_prefixes_t t first rest ls :
  (forall r, In r ls -> cons_rline r) ->
  forall r, In r (attach_prefixes t first rest ls) -> cons_rline r /\ is_rline r = false.
Proof.
  intros Hls r Hin. destruct ls as [|l ls]; [destruct Hin|].
  cbn [attach_prefixes] in Hin. destruct Hin as [<-|Hin].
  - apply attach_prefix_t, Hls. left. reflexivity.
  - apply in_map_iff in Hin. destruct Hin as (l' & <- & Hl').
    apply attach_prefix_t, Hls. right. exact Hl'.
Qed.

Lemma append_subrender_tot other first rest :
  sub_t other -> tot (fun s => append_subrender s other first rest).
Proof.
  intros Ho s Hs. unfold append_subrender.
  eapply okp_bind; [apply flush_wrapping_t, Hs|]. intros s1 (A & B & C).
  eapply okp_bind; [apply sub_into_lines_t, Ho|]. intros ols [D _]. cbn [okp].
  destruct (extend_lines_t (attach_prefixes (ann_stack s1) first rest ols) s1 A) as (E & F & _).
  - intros l Hl. eapply attach_prefixes_t; eassumption.
  - intros _ l Hl. eapply attach_prefixes_t; eassumption.
  - split; [exact E|eapply dsame_trans; eassumption].
Qed.

(* ---- append_columns_with_borders ---- *)
Lemma pad_cell_lines_t width t : forall ls,
  (forall r, In r ls -> cons_rline r) ->
  okp (fun pls => map is_rline pls = map is_rline ls) (pad_cell_lines width t ls).
Proof.
  induction ls as [|[tl|b bt] ls IH]; intros H; cbn [pad_cell_lines].
  - reflexivity.
  - destruct (tl_pad_to_spec tl width t (H (RText tl) (or_introl eq_refl))) as (l' & E & _).
    rewrite E. cbn [bind]. eapply okp_bind; [apply IH; intros r Hr; apply H; right; exact Hr|].
    intros r Hr. cbn [okp map is_rline]. congruence.
  - eapply okp_bind; [apply IH; intros r Hr; apply H; right; exact Hr|].
    intros r Hr. cbn [okp map is_rline]. congruence.
Qed.

Lemma map_is_rline_false ls pls :
  map is_rline pls = map is_rline ls ->
  (forall r, In r ls -> is_rline r = false) -> forall r, In r pls -> is_rline r = false.
Proof.
  revert ls. induction pls as [|p pls IH]; intros [|l ls] E H r Hr; try discriminate; [destruct Hr|].
  cbn [map] in E. injection E as E1 E2. destruct Hr as [<-|Hr].
  - rewrite E1. apply H. left. reflexivity.
  - eapply IH; [exact E2| |exact Hr]. intros r' Hr'. apply H. right. exact Hr'.
Qed.

Lemma col_line_sets_t t bd : forall cols,
  Forall (fun c => sub_t c /\ o_borders (sopts c) = bd) cols ->
  okp (fun sets => length sets = length cols /\
                   (bd = false -> forall p, In p sets -> forall r, In r (snd p) -> is_rline r = false))
      (col_line_sets t cols).
Proof.
  induction cols as [|c cols IH]; intros H; cbn [col_line_sets].
  - cbn [okp]. split; [reflexivity|]. intros _ p [].
  - inversion H as [|? ? [Hc Hb] Hcols]; subst.
    eapply okp_bind; [apply sub_into_lines_t, Hc|]. intros ls [L1 L2].
    eapply okp_bind; [apply pad_cell_lines_t, L1|]. intros pls Hpls.
    eapply okp_bind; [apply IH, Hcols|]. intros r [R1 R2]. cbn [okp length]. split; [congruence|].
    intros Hbd p [<-|Hp] r0 Hr0.
    + cbn [snd] in Hr0. eapply map_is_rline_false; [exact Hpls| |exact Hr0].
      apply L2. exact Hbd.
    + eapply R2; eassumption.
Qed.

Lemma collapse_top_t : forall sets prev pos,
  (prev = None -> forall p, In p sets -> forall r, In r (snd p) -> is_rline r = false) ->
  exists pv sets', collapse_top sets prev pos = Ok (pv, sets').
Proof.
  induction sets as [|[w sub] sets IH]; intros prev pos H; cbn [collapse_top].
  - eauto.
  - assert (Hrest : forall prev' pos',
              (prev' = None -> prev = None) ->
              exists pv sets', collapse_top sets prev' pos' = Ok (pv, sets')).
    { intros prev' pos' Hp. apply IH. intros E p Hp' r Hr.
      apply (H (Hp E) p (or_intror Hp') r Hr). }
    destruct sub as [|[tl|line lt] sub'].
    + destruct (Hrest prev (pos + w + 1)) as (pv & sets' & E); [auto|]. rewrite E. cbn [bind]. eauto.
    + destruct (Hrest prev (pos + w + 1)) as (pv & sets' & E); [auto|]. rewrite E. cbn [bind]. eauto.
    + destruct prev as [pb|].
      * destruct (Hrest (Some (merge_from_below pb line pos)) (pos + w + 1)) as (pv & sets' & E);
          [discriminate|]. rewrite E. cbn [bind]. eauto.
      * exfalso. specialize (H eq_refl (w, RLine line lt :: sub') (or_introl eq_refl)
                               (RLine line lt) (or_introl eq_refl)). discriminate.
Qed.

Lemma cons_push l e : cons_line l -> cons_line (tl_push l e).
Proof. unfold cons_line. intros H. rewrite tlen_push, raw_push. lia. Qed.
Lemma cons_push_char l c t : cons_line l -> cons_line (tl_push_char l c t).
Proof. unfold cons_line. intros H. rewrite tlen_push_char, raw_push_char. lia. Qed.
Lemma cons_push_str l s t : cons_line l -> cons_line (tl_push_str l s t).
Proof. unfold cons_line. intros H. rewrite tlen_push_str, raw_push_str. lia. Qed.
Lemma cons_consume l o : cons_line l -> cons_line (tl_consume l o).
Proof.
  unfold cons_line, tl_consume. intros H. rewrite tlen_fold_push, raw_fold_push. lia.
Qed.

Lemma row_line_cons t draw i : forall sets pads acc,
  cons_line acc -> cons_line (row_line t draw i sets pads acc).
Proof.
  induction sets as [|[w ls] sets IH]; intros pads acc H; cbn [row_line]; [exact H|].
  apply IH.
  assert (H1 : cons_line
            match nth_opt ls i with
            | Some (RText tl) => tl_consume acc tl
            | Some (RLine b _) => tl_push acc (Str (border_string b) t)
            | None => tl_push acc (Str match match pads with p :: _ => p | [] => None end with
                                       | Some p => p
                                       | None => spacesl L_pad w
                                       end t)
            end).
  { destruct (nth_opt ls i) as [[tl|b bt]|]; [apply cons_consume|apply cons_push|apply cons_push]; exact H. }
  destruct sets; [exact H1|apply cons_push_char, H1].
Qed.

Lemma row_lines_t t draw sets pads : forall n i s,
  sub_t s ->
  sub_t (row_lines t draw n i sets pads s) /\ dsame s (row_lines t draw n i sets pads s) /\
  wrapping (row_lines t draw n i sets pads s) = wrapping s.
Proof.
  induction n as [|n IH]; intros i s Hs; cbn [row_lines].
  - split; [exact Hs|]. split; [apply dsame_refl|reflexivity].
  - destruct (add_line_t s (RText (row_line t draw i sets pads tl_new)) Hs) as (A & B & C & _).
    { cbn [cons_rline]. apply row_line_cons. reflexivity. }
    { reflexivity. }
    destruct (IH (S i) _ A) as (A' & B' & C').
    split; [exact A'|]. split; [eapply dsame_trans; eassumption|congruence].
Qed.

Lemma columns_tail_t s (prev3 : option (list seg)) (next3 : list seg)
      (sets4 : list (N * list rline)) (pads : list (option text)) (t : tag) :
  sub_t s ->
  let lines1 := match olast (slines s), prev3 with
                | Some (RLine _ pt), Some pb => replace_last (slines s) (RLine pb pt)
                | _, _ => slines s
                end in
  let s2 := set_lines s lines1 (pending_frags s) in
  let cell_height := fold_left Nat.max (map (fun p => length (snd p)) sets4) O in
  let draw := o_borders (sopts s2) in
  let s3 := row_lines t draw cell_height O sets4 pads s2 in
  let s' := if draw then add_line s3 (RLine next3 t) else s3 in
  sub_t s' /\ dsame s s' /\ wrapping s' = wrapping s /\ (o_borders (sopts s) = true -> lastR s').
Proof.
  intros Hs. cbv zeta. pose proof Hs as (H1 & H2 & H3 & H4).
  set (lines1 := match olast (slines s), prev3 with
                 | Some (RLine _ pt), Some pb => replace_last (slines s) (RLine pb pt)
                 | _, _ => slines s
                 end).
  assert (Hs2 : sub_t (set_lines s lines1 (pending_frags s))).
  { unfold sub_t. sprj. split; [|split; [|split; assumption]].
    - intros r Hr. unfold lines1 in Hr.
      destruct (olast (slines s)) as [[l|b pt]|]; auto. destruct prev3 as [pb|]; auto.
      apply in_replace_last in Hr. destruct Hr as [Hr| ->]; [auto|exact I].
    - intros Ho r Hr. unfold lines1 in Hr.
      destruct (olast (slines s)) as [[l|b pt]|] eqn:El; auto. destruct prev3 as [pb|]; auto.
      apply in_replace_last in Hr. destruct Hr as [Hr| ->]; [auto|].
      apply olast_In in El. specialize (H2 Ho _ El). discriminate. }
  set (s2 := set_lines s lines1 (pending_frags s)) in *.
  assert (D2 : dsame s s2 /\ wrapping s2 = wrapping s).
  { split; [split; [split|split]|]; reflexivity. }
  destruct D2 as [D2 W2].
  destruct (row_lines_t t (o_borders (sopts s2))
              sets4 pads (fold_left Nat.max (map (fun p => length (snd p)) sets4) O) O s2 Hs2)
    as (A3 & D3 & W3).
  set (s3 := row_lines t (o_borders (sopts s2)) (fold_left Nat.max (map (fun p => length (snd p)) sets4) O)
                       O sets4 pads s2) in *.
  change (sopts s2) with (sopts s).
  destruct (o_borders (sopts s)) eqn:Eb.
  - destruct (add_line_t s3 (RLine next3 t) A3 I) as (A4 & D4 & W4 & L4).
    { rewrite (dsame_opts _ _ D3). change (sopts s2) with (sopts s). rewrite Eb. discriminate. }
    split; [exact A4|]. split; [eapply dsame_trans; [exact D2|]; eapply dsame_trans; eassumption|].
    split; [congruence|]. intros _. apply L4. reflexivity.
  - split; [exact A3|]. split; [exact (dsame_trans _ _ _ D2 D3)|]. split; [congruence|intros [=]].
Qed.

Lemma append_columns_t s cols collapse :
  sub_t s -> wrapping s = None -> cols <> [] ->
  Forall (fun c => sub_t c /\ o_borders (sopts c) = o_borders (sopts s)) cols ->
  (o_borders (sopts s) = true -> lastR s) ->
  okp (fun s' => sub_t s' /\ dsame s s' /\ wrapping s' = None /\
                 (o_borders (sopts s) = true -> lastR s'))
      (append_columns_with_borders s cols collapse).
Proof.
  intros Hs Hw Hne Hcols Hlast. unfold append_columns_with_borders.
  rewrite (flush_wrapping_none s Hw). cbn [bind].
  eapply okp_bind; [apply (col_line_sets_t (ann_stack s) (o_borders (sopts s))), Hcols|].
  intros sets [Hlen Hnr]. cbv zeta.
  destruct sets as [|p0 sets0] eqn:Esets.
  { destruct cols; [congruence|discriminate]. }
  rewrite <- Esets in *. replace (match sets with [] => Panic 36 | _ :: _ => Ok tt end) with (@Ok unit tt)
    by (rewrite Esets; reflexivity).
  cbn [bind].
  set (tw := sumN (map fst sets) + (N.of_nat (length sets) - 1)).
  assert (Hfin : forall prev3 next3 sets4 pads,
            okp (fun s' => sub_t s' /\ dsame s s' /\ wrapping s' = None /\
                           (o_borders (sopts s) = true -> lastR s'))
                (Ok (let lines1 := match olast (slines s), prev3 with
                                   | Some (RLine _ pt), Some pb => replace_last (slines s) (RLine pb pt)
                                   | _, _ => slines s
                                   end in
                     let s2 := set_lines s lines1 (pending_frags s) in
                     let cell_height := fold_left Nat.max (map (fun p => length (snd p)) sets4) O in
                     let draw := o_borders (sopts s2) in
                     let s3 := row_lines (ann_stack s) draw cell_height O sets4 pads s2 in
                     if draw then add_line s3 (RLine next3 (ann_stack s)) else s3))).
  { intros prev3 next3 sets4 pads. cbn [okp].
    destruct (columns_tail_t s prev3 next3 sets4 pads (ann_stack s) Hs) as (A & B & C & D).
    cbv zeta in A, B, C, D. cbv zeta. split; [exact A|]. split; [exact B|]. split; [congruence|exact D]. }
  destruct (olast (slines s)) as [[l|pb pt]|] eqn:El.
  - (* last line is a text line: borders must be off *)
    assert (Hoff : o_borders (sopts s) = false).
    { destruct (o_borders (sopts s)); [|reflexivity].
      destruct (Hlast eq_refl) as (b & t & E). congruence. }
    destruct collapse.
    + destruct (collapse_top_t sets None 0) as (pv & sets' & E).
      { intros _. apply Hnr, Hoff. }
      rewrite E. cbn [bind].
      destruct (collapse_bottom sets' (border_new tw) 0) as [[n' s'] p'].
      cbn [bind]. apply Hfin; exact None.
    + cbn [bind]. apply Hfin; exact None.
  - destruct (join_cols (map fst sets) pb (border_new tw) 0) as [p n].
    destruct collapse.
    + destruct (collapse_top_t sets (Some p) 0) as (pv & sets' & E); [discriminate|].
      rewrite E. cbn [bind].
      destruct (collapse_bottom sets' n 0) as [[n' s'] p'].
      cbn [bind]. apply (Hfin pv).
    + cbn [bind]. apply (Hfin (Some p)).
  - assert (Hoff : o_borders (sopts s) = false).
    { destruct (o_borders (sopts s)); [|reflexivity].
      destruct (Hlast eq_refl) as (b & t & E). congruence. }
    destruct collapse.
    + destruct (collapse_top_t sets None 0) as (pv & sets' & E).
      { intros _. apply Hnr, Hoff. }
      rewrite E. cbn [bind].
      destruct (collapse_bottom sets' (border_new tw) 0) as [[n' s'] p'].
      cbn [bind]. apply Hfin; exact None.
    + cbn [bind]. apply Hfin; exact None.
Qed.


(* ---- append_vert_row ---- *)
Lemma vert_cols_t : forall cols s first,
  sub_t s -> Forall sub_t cols -> okp (fun s' => sub_t s' /\ dsame s s') (vert_cols s cols first).
Proof.
  induction cols as [|c cols IH]; intros s first Hs Hc; cbn [vert_cols].
  - cbn [okp]. split; [exact Hs|apply dsame_refl].
  - inversion Hc as [|? ? Hc1 Hc2]; subst.
    eapply okp_bind with (P := fun s1 => sub_t s1 /\ dsame s s1).
    { destruct (negb first && o_borders (sopts s)) eqn:E.
      - apply andb_true_iff in E. destruct E as [_ E].
        eapply okp_mono; [apply add_horizontal_line_t; assumption|]. intros s' (A & B & _). auto.
      - cbn [okp]. split; [exact Hs|apply dsame_refl]. }
    intros s1 [A B]. eapply okp_bind; [apply (append_subrender_tot c [] [] Hc1), A|].
    intros s2 [A2 B2]. eapply okp_mono; [apply IH; assumption|].
    intros s3 [A3 B3]. split; [exact A3|].
    eapply dsame_trans; [exact B|]. eapply dsame_trans; eassumption.
Qed.

Lemma append_vert_row_tot cols : Forall sub_t cols -> tot (fun s => append_vert_row s cols).
Proof.
  intros Hc s Hs. unfold append_vert_row.
  eapply okp_bind; [apply flush_wrapping_tot, Hs|]. intros s1 [A B].
  eapply okp_bind; [apply vert_cols_t; assumption|]. intros s2 [A2 B2].
  destruct (o_borders (sopts s2)) eqn:E.
  - unfold add_horizontal_border.
    eapply okp_mono; [apply add_horizontal_border_width_t; assumption|].
    intros s3 (A3 & B3 & _). split; [exact A3|].
    eapply dsame_trans; [exact B|]. eapply dsame_trans; eassumption.
  - cbn [okp]. split; [exact A2|eapply dsame_trans; eassumption].
Qed.

(* ---- footnotes ---- *)
Lemma fl_chars_t t : forall cs s buf wl pos,
  sub_t s -> cons_line wl ->
  let r := fl_chars s t cs buf wl pos in
  sub_t (fst (fst (fst r))) /\ cons_line (snd (fst r)) /\ dsame s (fst (fst (fst r))) /\
  wrapping (fst (fst (fst r))) = wrapping s.
Proof.
  induction cs as [|c cs IH]; intros s buf wl pos Hs Hwl; cbn [fl_chars].
  - cbn [fst snd]. split; [exact Hs|]. split; [exact Hwl|]. split; [apply dsame_refl|reflexivity].
  - destruct (swidth_ s <? pos + cw0 c).
    + set (wl1 := match buf with [] => wl | _ => tl_push_str wl buf t end).
      assert (Hwl1 : cons_line wl1).
      { unfold wl1. destruct buf; [exact Hwl|apply cons_push_str, Hwl]. }
      destruct (add_line_t s (RText wl1) Hs Hwl1 (fun _ => eq_refl)) as (A & B & C & _).
      destruct (IH (add_line s (RText wl1)) [c] tl_new (0 + cw0 c) A eq_refl) as (A' & B' & C' & D').
      cbv zeta in *. split; [exact A'|]. split; [exact B'|].
      split; [eapply dsame_trans; eassumption|congruence].
    + apply IH; assumption.
Qed.

Lemma fl_strings_t : forall strs s wl pos,
  sub_t s -> cons_line wl ->
  let r := fl_strings s strs wl pos in
  sub_t (fst r) /\ cons_line (snd r) /\ dsame s (fst r) /\ wrapping (fst r) = wrapping s.
Proof.
  induction strs as [|[str tg] strs IH]; intros s wl pos Hs Hwl; cbn [fl_strings].
  - cbn [fst snd]. split; [exact Hs|]. split; [exact Hwl|]. split; [apply dsame_refl|reflexivity].
  - destruct (o_wrap_links (sopts s) && (swidth_ s <? pos + swidth (nl_to_space str))).
    + pose proof (fl_chars_t [ADefault] (nl_to_space str) s [] wl pos Hs Hwl) as H.
      destruct (fl_chars s [ADefault] (nl_to_space str) [] wl pos) as [[[s1 buf] wl1] pos1].
      cbv zeta in H. cbn [fst snd] in H. destruct H as (A & B & C & D).
      destruct (IH s1 (tl_push_str wl1 buf [ADefault]) pos1 A (cons_push_str _ _ _ B))
        as (A' & B' & C' & D').
      cbv zeta in *. split; [exact A'|]. split; [exact B'|].
      split; [eapply dsame_trans; eassumption|congruence].
    + apply IH; [exact Hs|apply cons_push_str, Hwl].
Qed.

Lemma fmt_links_t : forall links s,
  sub_t s -> sub_t (fmt_links s links) /\ dsame s (fmt_links s links) /\
             wrapping (fmt_links s links) = wrapping s.
Proof.
  induction links as [|l links IH]; intros s Hs; cbn [fmt_links].
  - split; [exact Hs|]. split; [apply dsame_refl|reflexivity].
  - pose proof (fl_strings_t (tl_tagged_strings l) s tl_new 0 Hs eq_refl) as H.
    destruct (fl_strings s (tl_tagged_strings l) tl_new 0) as [s1 wl].
    cbv zeta in H. cbn [fst snd] in H. destruct H as (A & B & C & D).
    destruct (add_line_t s1 (RText wl) A B (fun _ => eq_refl)) as (A2 & B2 & C2 & _).
    destruct (IH _ A2) as (A3 & B3 & C3).
    split; [exact A3|]. split; [|congruence].
    eapply dsame_trans; [exact C|]. eapply dsame_trans; eassumption.
Qed.

(* ================================================================== *)
(* 4. Size estimates are total on well-formed trees                     *)
(* ================================================================== *)

(* r is Ok a with P a (no failure of any kind) *)
Definition sure {A} (P : A -> Prop) (r : res A) : Prop :=
  match r with Ok a => P a | _ => False end.

Lemma sure_bind {A B} (P : A -> Prop) (Q : B -> Prop) (r : res A) (f : A -> res B) :
  sure P r -> (forall a, P a -> sure Q (f a)) -> sure Q (bind r f).
Proof. destruct r; cbn; auto; contradiction. Qed.

Lemma sure_mono {A} (P Q : A -> Prop) (r : res A) :
  sure P r -> (forall a, P a -> Q a) -> sure Q r.
Proof. destruct r; cbn; auto. Qed.

Lemma sure_ex {A} (P : A -> Prop) (r : res A) : sure P r -> exists a, r = Ok a /\ P a.
Proof. destruct r; cbn; intros H; try contradiction. eauto. Qed.

Lemma sure_fold {A B} (J : A -> Prop) (f : B -> A -> res A) (l : list B) :
  (forall b, In b l -> forall a, J a -> sure J (f b a)) ->
  forall a, J a -> sure J (fold_left (fun acc b => do s <- acc; f b s) l (Ok a)).
Proof.
  induction l as [|b l IH]; intros Hstep a Ha; cbn [fold_left].
  - exact Ha.
  - cbn [bind]. pose proof (Hstep b (or_introl eq_refl) a Ha) as Hb.
    destruct (f b a) as [a1| | |]; cbn [sure] in Hb; try contradiction.
    apply IH; [|exact Hb]. intros b' Hb'. apply Hstep. right. exact Hb'.
Qed.

Lemma upd_range_some {A} (f : A -> A) : forall (l : list A) from len,
  (from + len <= length l)%nat ->
  exists r, upd_range l from len f = Some r /\ length r = length l.
Proof.
  induction l as [|x l IH]; intros from len H.
  - destruct len as [|len]; [cbn; eauto|]. cbn [length] in H. lia.
  - destruct len as [|len]; [cbn; eauto|]. destruct from as [|from]; cbn [upd_range].
    + destruct (IH O len) as (r & E & L); [cbn [length] in H; lia|].
      rewrite E. eexists. split; [reflexivity|]. cbn [length]. congruence.
    + destruct (IH from (S len)) as (r & E & L); [cbn [length] in H; lia|].
      rewrite E. eexists. split; [reflexivity|]. cbn [length]. congruence.
Qed.

Definition row_span (cells : list rcell) : N := sumN (map cell_colspan cells).

(* a fold over the cells of a row that advances a column counter by the colspans and
   rewrites a list of ncols column records in place *)
Lemma cells_fold_sure {E} (nc : N) (F : rcell -> list E * N -> res (list E * N)) :
  forall cells sz colno,
  (forall c, In c cells -> forall sz colno,
     length sz = N.to_nat nc -> colno + cell_colspan c <= nc ->
     sure (fun r => length (fst r) = N.to_nat nc /\ snd r = colno + cell_colspan c)
          (F c (sz, colno))) ->
  length sz = N.to_nat nc -> colno + row_span cells <= nc ->
  sure (fun r => length (fst r) = N.to_nat nc)
       (fold_left (fun acc c => do st <- acc; F c st) cells (Ok (sz, colno))).
Proof.
  induction cells as [|c cells IH]; intros sz colno HF Hl Hs; cbn [fold_left].
  - exact Hl.
  - cbn [bind]. unfold row_span in Hs. cbn [map sumN] in Hs. fold (row_span cells) in Hs.
    pose proof (HF c (or_introl eq_refl) sz colno Hl ltac:(lia)) as H.
    destruct (F c (sz, colno)) as [[sz' colno']| | |]; cbn [sure] in H; try contradiction.
    cbn [fst snd] in H. destruct H as [H1 H2]. apply IH.
    + intros c' Hc'. apply HF. right. exact Hc'.
    + exact H1.
    + lia.
Qed.

Section RenderLayerT.
  Variable d : deco.
  Variable mw : N.

  (* the estimated minimum width of a node fits a usize *)
  Definition small (n : rnode) : bool :=
    match est_node d mw n with Ok e => e_min e <? usize_max | _ => false end.

  (* The decidable side condition on the render tree:
     - the table-internal node kinds (body/row/cell) do not occur as nodes (they are
       `unreachable!` in do_render_node; Dom.build_element never leaves them in a tree, see
       section 10),
     - in every table every cell has colspan >= 1 and the colspans of a row add up to at most
       the number of columns of the table,
     - the estimated minimum width of every block that opens a prefixed sub-renderer is below
       usize::MAX (with allow_width_overflow the sub-renderer gets at least that width). *)
  Fixpoint wf (n : rnode) {struct n} : bool :=
    match rn_info n with
    | IText _ | IImg _ _ | IBreak | IFragStart _ => true
    | IContainer cs | ILink _ cs | IEm cs | IStrong cs | IStrikeout cs | ICode cs | IBlock cs
    | IListItem cs | IDiv cs | IDl cs | IDt cs | ISup cs => forallb wf cs
    | IHeader _ cs | IBlockQuote cs | IUl cs | IOl _ cs | IDd cs => small n && forallb wf cs
    | ITable rows ncols =>
      forallb (fun r => match r with
                        | RRow cells _ =>
                          (sumN (map cell_colspan cells) <=? ncols) &&
                          forallb (fun c => match c with
                                            | RCell k content _ => (1 <=? k) && forallb wf content
                                            end) cells
                        end) rows
    | ITableBody _ | ITableRow _ | ITableCell _ => false
    end.

  Definition cell_wf (c : rcell) : bool :=
    match c with RCell k content _ => (1 <=? k) && forallb wf content end.
  Definition row_wf (ncols : N) (r : rrow) : bool :=
    match r with RRow cells _ => (row_span cells <=? ncols) && forallb cell_wf cells end.

  Lemma wf_table rows ncols sty :
    wf (RN (ITable rows ncols) sty) = forallb (row_wf ncols) rows.
  Proof. reflexivity. Qed.

  Definition est_ok (n : rnode) : Prop := wf n = true -> sure (fun _ => True) (est_node d mw n).

  Lemma est_kids_sure cs :
    Forall est_ok cs -> forallb wf cs = true -> sure (fun _ => True) (est_kids d mw cs).
  Proof.
    intros HF Hw. unfold est_kids.
    apply (sure_fold (fun _ => True) (fun c a => do e <- est_node d mw c; Ok (est_add a e)));
      [|exact I].
    intros c Hc a _. rewrite Forall_forall in HF. rewrite forallb_forall in Hw.
    eapply sure_bind; [apply (HF c Hc), Hw, Hc|]. intros e _. exact I.
  Qed.

  Lemma cell_est_sure c :
    Forall est_ok (cell_content c) -> cell_wf c = true ->
    sure (fun _ => True) (est_kids d mw (cell_content c)).
  Proof.
    destruct c as [k content csty]. cbn [cell_content cell_wf]. intros HF Hw.
    apply andb_true_iff in Hw. apply est_kids_sure; tauto.
  Qed.

  Lemma est_ok_all : forall n, est_ok n.
  Proof.
    apply rnode_ind'. intros i sty IH Hw.
    assert (Hk : forall cs, Forall est_ok cs -> forallb wf cs = true ->
                 sure (fun _ => True)
                   (fold_left (fun acc c => do a <- acc; do e <- est_node d mw c; Ok (est_add a e))
                              cs (Ok est0))) by exact est_kids_sure.
    destruct i; cbn [direct_kids] in IH; cbn [wf rn_info] in Hw; cbn [est_node rn_info];
      try discriminate; try exact I; try (apply Hk; assumption);
      try (apply andb_true_iff in Hw; destruct Hw as [_ Hw]).
    - (* ILink *) eapply sure_bind; [apply Hk; assumption|]. intros; exact I.
    - (* IHeader *) eapply sure_bind; [apply Hk; assumption|]. intros; exact I.
    - (* IBlockQuote *) eapply sure_bind; [apply Hk; assumption|]. intros; exact I.
    - (* IUl *) eapply sure_bind; [apply Hk; assumption|]. intros; exact I.
    - (* IOl *) cbn [ol_prefix_size bind]. eapply sure_bind; [apply Hk; assumption|]. intros; exact I.
    - (* IDd *) eapply sure_bind; [apply Hk; assumption|]. intros; exact I.
    - (* ITable *)
      change (forallb (row_wf ncols) rows = true) in Hw.
      apply Forall_flat_map in IH. rewrite Forall_forall in IH. rewrite forallb_forall in Hw.
      assert (Hcell : forall r c, In r rows -> In c (row_cells r) ->
                sure (fun _ => True) (est_kids d mw (cell_content c)) /\ 1 <= cell_colspan c).
      { intros r c Hr Hc. specialize (IH r Hr). unfold row_kids in IH.
        apply Forall_flat_map in IH. rewrite Forall_forall in IH.
        specialize (Hw r Hr). destruct r as [cells rsty]. cbn [row_wf row_cells] in *.
        apply andb_true_iff in Hw. destruct Hw as [_ Hw]. rewrite forallb_forall in Hw.
        specialize (Hw c Hc). split; [apply cell_est_sure; [apply IH, Hc|exact Hw]|].
        destruct c as [k content csty]. cbn [cell_wf cell_colspan] in *.
        apply andb_true_iff in Hw. lia. }
      destruct (ncols =? 0).
      + eapply sure_bind with (P := fun _ => True); [|intros; exact I].
        apply (sure_fold (fun _ => True)
                 (fun r (_ : unit) =>
                    fold_left (fun acc2 c => do _b <- acc2;
                                 do _c <- match c with
                                          | RCell _ k _ =>
                                            fold_left (fun acc c0 => do a <- acc; do e <- est_node d mw c0;
                                                                     Ok (est_add a e)) k (Ok est0)
                                          end; Ok tt)
                              (row_cells r) (Ok tt))); [|exact I].
        intros r Hr [] _.
        apply (sure_fold (fun _ => True)
                 (fun c (_ : unit) =>
                    do _c <- match c with
                             | RCell _ k _ =>
                               fold_left (fun acc c0 => do a <- acc; do e <- est_node d mw c0;
                                                        Ok (est_add a e)) k (Ok est0)
                             end; Ok tt)); [|exact I].
        intros c Hc [] _. destruct (Hcell r c Hr Hc) as [Hce _].
        destruct c as [k content csty]. cbn [cell_content] in Hce.
        eapply sure_bind; [exact Hce|]. intros; exact I.
      + eapply sure_bind with (P := fun sizes => length sizes = N.to_nat ncols); [|intros; exact I].
        apply (sure_fold (fun sizes => length sizes = N.to_nat ncols)
                 (fun r s =>
                    do res_ <- fold_left
                      (fun acc c =>
                         do st <- acc;
                         let '(sz, colno) := st in
                         do ce <- match c with
                                  | RCell _ k _ =>
                                    fold_left (fun acc1 c0 => do a <- acc1; do e <- est_node d mw c0;
                                                              Ok (est_add a e)) k (Ok est0)
                                  end;
                         match upd_range sz (N.to_nat colno) (N.to_nat (cell_colspan c))
                                 (fun s0 => mkest (e_size s0 + e_size ce / cell_colspan c)
                                                  (N.max (e_min s0) (e_min ce / cell_colspan c))
                                                  (e_prefix s0)) with
                         | Some sz' => Ok (sz', colno + cell_colspan c)
                         | None => Panic 31
                         end) (row_cells r) (Ok (s, 0));
                    Ok (fst res_))); [|apply repeat_length].
        intros r Hr s Hs.
        eapply sure_bind with (P := fun r => length (fst r) = N.to_nat ncols); [|intros a Ha; exact Ha].
        apply (cells_fold_sure ncols
                 (fun c st =>
                    let '(sz, colno) := st in
                    do ce <- match c with
                             | RCell _ k _ =>
                               fold_left (fun acc1 c0 => do a <- acc1; do e <- est_node d mw c0;
                                                         Ok (est_add a e)) k (Ok est0)
                             end;
                    match upd_range sz (N.to_nat colno) (N.to_nat (cell_colspan c))
                            (fun s0 => mkest (e_size s0 + e_size ce / cell_colspan c)
                                             (N.max (e_min s0) (e_min ce / cell_colspan c))
                                             (e_prefix s0)) with
                    | Some sz' => Ok (sz', colno + cell_colspan c)
                    | None => Panic 31
                    end)); [|exact Hs|].
        * intros c Hc sz colno Hl Hcol. destruct (Hcell r c Hr Hc) as [Hce _].
          destruct c as [k content csty]. cbn [cell_content cell_colspan] in *.
          eapply sure_bind; [exact Hce|]. intros ce _.
          destruct (upd_range_some
                      (fun s0 => mkest (e_size s0 + e_size ce / k) (N.max (e_min s0) (e_min ce / k))
                                       (e_prefix s0)) sz (N.to_nat colno) (N.to_nat k))
            as (r' & E & L); [lia|].
          rewrite E. cbn [sure fst snd]. split; [congruence|reflexivity].
        * specialize (Hw r Hr). destruct r as [cells rsty]. cbn [row_wf row_cells] in *.
          apply andb_true_iff in Hw. lia.
  Qed.

  Lemma est_total n : wf n = true -> exists e, est_node d mw n = Ok e.
  Proof.
    intros H. destruct (sure_ex _ _ (est_ok_all n H)) as (e & E & _). eauto.
  Qed.

  (* ================================================================ *)
  (* 5. The render layer: states, frames                               *)
  (* ================================================================ *)

  Definition st_inv (st : rstate) : Prop := stack st <> [] /\ Forall sub_t (stack st).

  (* st' has the same stack as st below the top, and the tops are related by Q *)
  Definition Rg (Q : subr -> subr -> Prop) (st st' : rstate) : Prop :=
    st_inv st' /\ exists s s' rest, stack st = s :: rest /\ stack st' = s' :: rest /\ Q s s'.

  Definition R : rstate -> rstate -> Prop := Rg dsame.

  (* pure bookkeeping operations: everything but the preformat depth is untouched *)
  Definition QD (rel : N -> N -> Prop) (s s' : subr) : Prop :=
    swidth_ s' = swidth_ s /\ sopts s' = sopts s /\ slines s' = slines s /\
    wrapping s' = wrapping s /\ filter_depth s' = filter_depth s /\
    rel (pre_depth s) (pre_depth s').

  Lemma QD_sub_t rel s s' : QD rel s s' -> sub_t s -> sub_t s'.
  Proof. intros (a & b & c & e & _). apply sub_t_ext; assumption. Qed.

  Lemma QD_dsame s s' : QD eq s s' -> dsame s s'.
  Proof. intros (a & b & c & e & f & g). split; [split|split]; auto. Qed.

  Lemma Rg_inv Q st st' : Rg Q st st' -> st_inv st'.
  Proof. intros [H _]. exact H. Qed.

  Lemma Rg_refl (Q : subr -> subr -> Prop) st : (forall s, Q s s) -> st_inv st -> Rg Q st st.
  Proof.
    intros HQ Hi. split; [exact Hi|]. destruct Hi as [Hne _].
    destruct (stack st) as [|s rest] eqn:E; [congruence|]. exists s, s, rest. auto.
  Qed.

  Lemma Rg_comp (Q1 Q2 Q3 : subr -> subr -> Prop) a b c :
    (forall x y z, Q1 x y -> Q2 y z -> Q3 x z) -> Rg Q1 a b -> Rg Q2 b c -> Rg Q3 a c.
  Proof.
    intros HQ [_ (s & s' & rest & E1 & E2 & H1)] [I (t & t' & rest' & E3 & E4 & H2)].
    split; [exact I|]. rewrite E2 in E3. injection E3 as <- <-.
    exists s, t', rest. split; [exact E1|]. split; [exact E4|]. eapply HQ; eassumption.
  Qed.

  Lemma Rg_weak (Q1 Q2 : subr -> subr -> Prop) a b :
    (forall x y, Q1 x y -> Q2 x y) -> Rg Q1 a b -> Rg Q2 a b.
  Proof.
    intros HQ [I (s & s' & rest & E1 & E2 & H)]. split; [exact I|]. exists s, s', rest. auto.
  Qed.

  Lemma R_refl st : st_inv st -> R st st.
  Proof. apply Rg_refl. exact dsame_refl. Qed.
  Lemma R_trans a b c : R a b -> R b c -> R a c.
  Proof. apply Rg_comp. exact dsame_trans. Qed.

  Lemma R_stack_eq st st' : st_inv st -> stack st' = stack st -> R st st'.
  Proof.
    intros [Hne HF] E. split; [split; rewrite E; assumption|].
    destruct (stack st) as [|s rest] eqn:Es; [congruence|]. exists s, s, rest.
    split; [reflexivity|]. split; [exact E|apply dsame_refl].
  Qed.

  Lemma with_top_Q (Q : subr -> subr -> Prop) f st :
    st_inv st ->
    (forall s rest, stack st = s :: rest -> sub_t s -> okp (fun s' => sub_t s' /\ Q s s') (f s)) ->
    okp (Rg Q st) (with_top st f).
  Proof.
    intros [Hne HF] Hf. unfold with_top. destruct (stack st) as [|s rest] eqn:E; [congruence|].
    inversion HF as [|? ? Hs Hrest]; subst.
    eapply okp_bind; [apply (Hf s rest eq_refl Hs)|]. intros s' [A B]. cbn [okp].
    split; [split; cbn [stack]; [discriminate|constructor; assumption]|].
    exists s, s', rest. cbn [stack]. auto.
  Qed.

  Lemma with_top_tot f st : tot f -> st_inv st -> okp (R st) (with_top st f).
  Proof. intros Hf Hi. apply with_top_Q; [exact Hi|]. intros s rest _ Hs. apply Hf, Hs. Qed.

  Lemma with_top'_QD rel g st :
    st_inv st -> (forall s, QD rel s (g s)) -> okp (Rg (QD rel) st) (with_top' st g).
  Proof.
    intros Hi Hg. unfold with_top'. apply with_top_Q; [exact Hi|].
    intros s rest _ Hs. cbn [okp]. split; [eapply QD_sub_t; [apply Hg|exact Hs]|apply Hg].
  Qed.

  Lemma QD_refl s : QD eq s s.
  Proof. repeat split. Qed.

  Lemma push_colour_QD r g b s : QD eq s (push_colour d s r g b).
  Proof. unfold push_colour, push_ann. destruct (d_colours d); sprj; repeat split. Qed.
  Lemma push_bgcolour_QD r g b s : QD eq s (push_bgcolour d s r g b).
  Proof. unfold push_bgcolour, push_ann. destruct (d_colours d); sprj; repeat split. Qed.
  Lemma pop_colour_QD s : QD eq s (pop_colour d s).
  Proof. unfold pop_colour, pop_ann. destruct (d_colours d); sprj; repeat split. Qed.
  Lemma push_ws_mode_QD m s : QD eq s (push_ws_mode s m).
  Proof. unfold push_ws_mode. sprj. repeat split. Qed.
  Lemma pop_ws_mode_QD s : QD eq s (pop_ws_mode s).
  Proof. unfold pop_ws_mode. sprj. repeat split. Qed.
  Lemma push_preformat_QD s : QD (fun a b => b = a + 1) s (push_preformat s).
  Proof. unfold push_preformat. sprj. repeat split. Qed.

  (* a conditional bookkeeping step after a chain of such steps *)
  Lemma QD_step (rel1 rel2 rel3 : N -> N -> Prop) st st1 (r : res rstate) :
    (forall a b c, rel1 a b -> rel2 b c -> rel3 a c) ->
    Rg (QD rel1) st st1 -> okp (Rg (QD rel2) st1) r -> okp (Rg (QD rel3) st) r.
  Proof.
    intros Hrel R1 H. eapply okp_mono; [exact H|]. intros st2 R2.
    eapply Rg_comp; [|exact R1|exact R2].
    intros x y z (a1 & a2 & a3 & a4 & a5 & a6) (b1 & b2 & b3 & b4 & b5 & b6).
    repeat split; try congruence. eapply Hrel; eassumption.
  Qed.

  Definition pre_plus (b : bool) : N -> N -> Prop := fun x y => y = x + (if b then 1 else 0).
  Definition pre_minus (b : bool) : N -> N -> Prop := fun x y => y = x - (if b then 1 else 0).

  Lemma apply_style_T st cs :
    st_inv st ->
    okp (fun ap => Rg (QD (pre_plus (p_pre (snd ap)))) st (fst ap)) (apply_style d st cs).
  Proof.
    intros Hi. unfold apply_style.
    eapply okp_bind with (P := Rg (QD eq) st).
    { destruct (ws_val (c_colour (cs_core cs))) as [[[r g] b]|].
      - apply with_top'_QD; [exact Hi|apply push_colour_QD].
      - cbn [okp]. apply Rg_refl; [exact QD_refl|exact Hi]. }
    intros st1 R1.
    eapply okp_bind with (P := Rg (QD eq) st).
    { eapply (QD_step eq eq eq); [intros; congruence|exact R1|].
      destruct (ws_val (c_bg (cs_core cs))) as [[[r g] b]|].
      - apply with_top'_QD; [exact (Rg_inv _ _ _ R1)|apply push_bgcolour_QD].
      - cbn [okp]. apply Rg_refl; [exact QD_refl|exact (Rg_inv _ _ _ R1)]. }
    intros st2 R2.
    eapply okp_bind with (P := Rg (QD eq) st).
    { eapply (QD_step eq eq eq); [intros; congruence|exact R2|].
      destruct (match ws_val (c_white_space (cs_core cs)) with
                | Some WsPre => Some WsPre
                | Some WsPreWrap => Some WsPreWrap
                | _ => None
                end) as [m|].
      - apply with_top'_QD; [exact (Rg_inv _ _ _ R2)|apply push_ws_mode_QD].
      - cbn [okp]. apply Rg_refl; [exact QD_refl|exact (Rg_inv _ _ _ R2)]. }
    intros st3 R3.
    eapply okp_bind with (P := Rg (QD (pre_plus (cs_internal_pre cs))) st).
    { eapply (QD_step eq (pre_plus (cs_internal_pre cs)) (pre_plus (cs_internal_pre cs)));
        [unfold pre_plus; intros; congruence|exact R3|].
      destruct (cs_internal_pre cs).
      - apply with_top'_QD; [exact (Rg_inv _ _ _ R3)|]. exact push_preformat_QD.
      - cbn [okp]. apply Rg_refl; [|exact (Rg_inv _ _ _ R3)].
        intros s. unfold pre_plus. repeat split. lia. }
    intros st4 R4. cbn [okp fst snd p_pre]. exact R4.
  Qed.

  Lemma pop_preformat_Q s :
    0 < pre_depth s -> sub_t s ->
    okp (fun s' => sub_t s' /\ QD (fun a b => b = a - 1) s s') (pop_preformat s).
  Proof.
    intros Hp Hs. unfold pop_preformat. destruct (N.ltb_spec 0 (pre_depth s)); [|lia].
    cbn [okp]. assert (Q : QD (fun a b => b = a - 1) s (set_pre_depth s (pre_depth s - 1))).
    { sprj. repeat split. }
    split; [eapply QD_sub_t; eassumption|exact Q].
  Qed.

  Lemma unwind_T p st :
    st_inv st ->
    (p_pre p = true -> exists s rest, stack st = s :: rest /\ 0 < pre_depth s) ->
    okp (Rg (QD (pre_minus (p_pre p))) st) (unwind d p st).
  Proof.
    intros Hi Hpre. unfold unwind.
    eapply okp_bind with (P := Rg (QD eq) st).
    { destruct (p_bg p).
      - apply with_top'_QD; [exact Hi|apply pop_colour_QD].
      - cbn [okp]. apply Rg_refl; [exact QD_refl|exact Hi]. }
    intros st1 R1.
    eapply okp_bind with (P := Rg (QD eq) st).
    { eapply (QD_step eq eq eq); [intros; congruence|exact R1|].
      destruct (p_colour p).
      - apply with_top'_QD; [exact (Rg_inv _ _ _ R1)|apply pop_colour_QD].
      - cbn [okp]. apply Rg_refl; [exact QD_refl|exact (Rg_inv _ _ _ R1)]. }
    intros st2 R2.
    eapply okp_bind with (P := Rg (QD eq) st).
    { eapply (QD_step eq eq eq); [intros; congruence|exact R2|].
      destruct (p_ws p).
      - apply with_top'_QD; [exact (Rg_inv _ _ _ R2)|apply pop_ws_mode_QD].
      - cbn [okp]. apply Rg_refl; [exact QD_refl|exact (Rg_inv _ _ _ R2)]. }
    intros st3 R3.
    eapply (QD_step eq (pre_minus (p_pre p)) (pre_minus (p_pre p)));
      [unfold pre_minus; intros; congruence|exact R3|].
    destruct (p_pre p) eqn:Ep.
    - apply with_top_Q; [exact (Rg_inv _ _ _ R3)|]. intros s3 rest3 E3 Hs3.
      destruct (Hpre eq_refl) as (s & rest & E & Hpos).
      destruct R3 as [_ (x & x' & r & X1 & X2 & X3)].
      rewrite E in X1. injection X1 as <- <-. rewrite E3 in X2. injection X2 as <- <-.
      destruct X3 as (_ & _ & _ & _ & _ & X6).
      eapply okp_mono; [apply pop_preformat_Q; [lia|exact Hs3]|].
      intros s' [A B]. split; [exact A|]. unfold pre_minus. exact B.
    - cbn [okp]. apply Rg_refl; [|exact (Rg_inv _ _ _ R3)].
      intros s. unfold pre_minus. repeat split. lia.
  Qed.

  (* the end of every node: undo what apply_style pushed *)
  Lemma fin_T st st1 ps st2 :
    Rg (QD (pre_plus (p_pre ps))) st st1 -> R st1 st2 -> okp (R st) (unwind d ps st2).
  Proof.
    intros R1 R2.
    assert (R12 : Rg (fun s s' => same s s' /\ filter_depth s' = filter_depth s /\
                                  pre_depth s' = pre_depth s + (if p_pre ps then 1 else 0)) st st2).
    { eapply Rg_comp; [|exact R1|exact R2].
      intros x y z (a1 & a2 & a3 & a4 & a5 & a6) ((b1 & b2) & b3 & b4). unfold pre_plus in a6.
      split; [split; congruence|]. split; congruence. }
    eapply okp_mono.
    { apply (unwind_T ps st2 (Rg_inv _ _ _ R2)). intros Ep.
      destruct R12 as [_ (s & s' & rest & E1 & E2 & _ & _ & E3)].
      exists s', rest. split; [exact E2|]. rewrite E3, Ep. lia. }
    intros st3 R3. eapply Rg_comp; [|exact R12|exact R3].
    intros x y z ((a1 & a2) & a3 & a4) (b1 & b2 & b3 & b4 & b5 & b6). unfold pre_minus in b6.
    split; [split; congruence|]. split; [|congruence]. rewrite b6, a4. destruct (p_pre ps); lia.
  Qed.

  Lemma inline_text_T t st : st_inv st -> okp (R st) (inline_text d st t).
  Proof. intros Hi. unfold inline_text. apply with_top_tot; [apply add_inline_text_tot|exact Hi]. Qed.

  (* ---- the per-node property and the fold over children ---- *)
  Definition node_t (n : rnode) : Prop :=
    wf n = true -> forall st, st_inv st -> okp (R st) (render_node d mw n st).

  Lemma kids_T cs st :
    Forall node_t cs -> forallb wf cs = true -> st_inv st ->
    okp (R st) (fold_left (fun acc c => do s <- acc; render_node d mw c s) cs (Ok st)).
  Proof.
    intros HF Hw Hi.
    apply (okp_fold (R st) (render_node d mw) cs); [|apply R_refl, Hi].
    intros c Hc a Ra. rewrite Forall_forall in HF. rewrite forallb_forall in Hw.
    eapply okp_mono; [apply (HF c Hc (Hw c Hc) a (Rg_inv _ _ _ Ra))|].
    intros a' Ra'. eapply R_trans; eassumption.
  Qed.

  Lemma wrap_T (f1 f2 : subr -> res subr) cs st st1 ps a :
    tot f1 -> tot f2 -> Forall node_t cs -> forallb wf cs = true ->
    Rg (QD (pre_plus (p_pre ps))) st st1 -> R st1 a ->
    okp (R st)
        (do a' <- with_top a f1;
         do b <- fold_left (fun acc c => do s <- acc; render_node d mw c s) cs (Ok a');
         do c <- with_top b f2; unwind d ps c).
  Proof.
    intros K1 K2 HF Hw R1 R0.
    eapply okp_bind; [apply (with_top_tot f1 a K1 (Rg_inv _ _ _ R0))|]. intros a' Ra.
    eapply okp_bind; [apply (kids_T cs a' HF Hw (Rg_inv _ _ _ Ra))|]. intros b Rb.
    eapply okp_bind; [apply (with_top_tot f2 b K2 (Rg_inv _ _ _ Rb))|]. intros c Rc.
    eapply fin_T; [exact R1|]. eapply R_trans; [exact R0|]. eapply R_trans; [exact Ra|].
    eapply R_trans; eassumption.
  Qed.

  (* ---- nested sub-renderers ---- *)
  Lemma top_T st :
    st_inv st -> exists tp rest, top st = Ok tp /\ stack st = tp :: rest /\ sub_t tp.
  Proof.
    intros [Hne HF]. unfold top. destruct (stack st) as [|s rest]; [congruence|].
    exists s, rest. inversion HF; auto.
  Qed.

  Lemma width_minus_T tp p m : okp (fun w => w <= N.max (swidth_ tp) m) (width_minus tp p m).
  Proof.
    unfold width_minus.
    destruct (((swidth_ tp - p <? m) || (swidth_ tp <? p)) && negb (o_allow_overflow (sopts tp)));
      cbn [okp]; lia.
  Qed.

  Lemma push_inv st tp w :
    st_inv st -> w < usize_max -> st_inv (push_sub st (new_sub_renderer tp w)).
  Proof.
    intros [Hne HF] Hw. split; cbn [push_sub stack]; [discriminate|].
    constructor; [apply new_sub_renderer_t, Hw|exact HF].
  Qed.

  Lemma pop_T st sub0 st2 :
    st_inv st -> R (push_sub st sub0) st2 ->
    okp (fun pp => sub_t (fst pp) /\ dsame sub0 (fst pp) /\ stack (snd pp) = stack st /\
                   st_inv (snd pp)) (pop_sub st2).
  Proof.
    intros Hi [[_ HF2] (s & s' & rest & E1 & E2 & Hd)]. cbn [push_sub stack] in E1.
    injection E1 as <- <-. unfold pop_sub. rewrite E2. cbn [okp fst snd stack].
    rewrite E2 in HF2. inversion HF2; subst. split; [assumption|]. split; [exact Hd|].
    split; [reflexivity|]. exact Hi.
  Qed.

  (* prefixed block: after the body the child renderer can be appended *)
  Lemma scope_T {X} st tp w (body : res rstate) (k : subr * rstate -> res X) (Q : X -> Prop) :
    st_inv st -> w < usize_max ->
    okp (R (push_sub st (new_sub_renderer tp w))) body ->
    (forall sub st3, sub_t sub -> sopts sub = sopts tp -> R st st3 -> okp Q (k (sub, st3))) ->
    okp Q (do st2 <- body; do pp <- pop_sub st2; k pp).
  Proof.
    intros Hi Hw Hb Hk. eapply okp_bind; [exact Hb|]. intros st2 R2.
    eapply okp_bind; [apply (pop_T st _ st2 Hi R2)|].
    intros [sub st3] (A & B & C & D). cbn [fst snd] in *. apply Hk; [exact A| |].
    - rewrite (dsame_opts _ _ B). apply new_sub_renderer_t, Hw.
    - apply R_stack_eq; assumption.
  Qed.

  Lemma sure_okp {A} (P : A -> Prop) (r : res A) : sure P r -> okp P r.
  Proof. destruct r; cbn; auto. Qed.

  (* ---- table arithmetic ---- *)
  Lemma sumN_firstn_le k l : sumN (firstn k l) <= sumN l.
  Proof. pose proof (sumN_firstn_skipn k l). lia. Qed.
  Lemma sumN_skipn_le k l : sumN (skipn k l) <= sumN l.
  Proof. pose proof (sumN_firstn_skipn k l). lia. Qed.

  Lemma nth_opt_lt {A} : forall (l : list A) n, (n < length l)%nat -> exists x, nth_opt l n = Some x.
  Proof.
    induction l as [|a l IH]; intros n H; cbn [length] in H; [lia|].
    destruct n; cbn [nth_opt]; [eauto|]. apply IH. lia.
  Qed.

  Definition cw_ok (B : N) (o : option N) : Prop :=
    match o with Some w => w <= B | None => True end.

  Lemma cell_widths_T vr ws_ B : forall cells colno,
    Forall (fun c => 1 <= cell_colspan c) cells ->
    colno + row_span cells <= N.of_nat (length ws_) ->
    (vr = false -> sumN ws_ + N.of_nat (length ws_) <= B + 1) ->
    (vr = true -> forall w, In w ws_ -> w <= B) -> B < usize_max ->
    sure (fun cws => Forall (cw_ok B) cws /\
                     (vr = false -> (exists w, In (Some w) cws) -> sumN ws_ <> 0))
         (cell_widths vr ws_ cells colno).
  Proof.
    induction cells as [|c cells IH]; intros colno Hc Hs Hh Hv HB; cbn [cell_widths].
    - cbn [sure]. split; [constructor|]. intros _ (w & []).
    - inversion Hc as [|? ? Hc1 Hc2]; subst.
      unfold row_span in Hs. cbn [map sumN] in Hs. fold (row_span cells) in Hs.
      eapply sure_bind with
        (P := fun cw_ => (vr = false -> cw_ + cell_colspan c <= B + 1 /\ (0 < cw_ -> sumN ws_ <> 0)) /\
                         (vr = true -> cw_ <= B)).
      { destruct vr.
        - destruct (nth_opt_lt ws_ (N.to_nat colno)) as [w E]; [lia|]. rewrite E. cbn [sure].
          split; [discriminate|]. intros _. apply Hv; [reflexivity|]. eapply nth_opt_In, E.
        - destruct (N.ltb_spec (N.of_nat (length ws_)) (colno + cell_colspan c)); [lia|].
          cbn [sure]. split; [|discriminate]. intros _.
          pose proof (sumN_firstn_le (N.to_nat (cell_colspan c)) (skipn (N.to_nat colno) ws_)).
          pose proof (sumN_skipn_le (N.to_nat colno) ws_).
          specialize (Hh eq_refl). split; lia. }
      intros cw_ [P1 P2].
      eapply sure_bind; [apply (IH (colno + cell_colspan c) Hc2); [lia|assumption..]|].
      intros r [R1 R2].
      destruct (N.ltb_spec 0 cw_) as [Hpos|Hz].
      + destruct vr.
        * cbn [sure]. split; [constructor; [apply P2; reflexivity|exact R1]|discriminate].
        * destruct (P1 eq_refl) as [P3 P4].
          unfold uadd. destruct (N.leb_spec (cw_ + cell_colspan c) usize_max); [|lia].
          cbn [bind]. rewrite usub_ok by lia. cbn [bind sure].
          split; [constructor; [cbn [cw_ok]; lia|exact R1]|]. intros _ _. apply P4, Hpos.
      + cbn [sure]. split; [constructor; [exact I|exact R1]|].
        intros Ev (w & [E|Hw]); [discriminate|]. apply R2; eauto.
  Qed.

  Definition sub_of (tp : subr) (c : subr) : Prop := sub_t c /\ sopts c = sopts tp.

  Lemma cells_loop_T : forall cells wsl s2 subs tp rest,
    Forall (fun c => Forall node_t (cell_content c)) cells ->
    forallb cell_wf cells = true ->
    st_inv s2 -> stack s2 = tp :: rest -> swidth_ tp < usize_max ->
    Forall (cw_ok (swidth_ tp)) wsl ->
    Forall (sub_of tp) subs ->
    okp (fun r => stack (fst r) = stack s2 /\ st_inv (fst r) /\ Forall (sub_of tp) (snd r) /\
                  (snd r = subs \/ exists w, In (Some w) wsl))
        (cells_loop d mw cells wsl s2 subs).
  Proof.
    induction cells as [|[n content csty] cells IH]; intros wsl s2 subs tp rest HF Hw Hi Es HB Hwsl Hs;
      cbn [cells_loop].
    - cbn [okp fst snd]. auto.
    - inversion HF as [|? ? HF1 HF2]; subst. cbn [cell_content] in HF1.
      cbn [forallb cell_wf] in Hw. apply andb_true_iff in Hw. destruct Hw as [Hw1 Hw2].
      apply andb_true_iff in Hw1. destruct Hw1 as [_ Hw1].
      destruct wsl as [|[w|] wsl].
      + cbn [okp fst snd]. auto.
      + inversion Hwsl as [|? ? Hw0 Hwsl']; subst. cbn [cw_ok] in Hw0.
        unfold top. rewrite Es. cbn [bind].
        assert (Hwlt : w < usize_max) by lia.
        pose proof (push_inv s2 tp w Hi Hwlt) as Ip.
        eapply okp_bind; [apply apply_style_T, Ip|]. intros [s4 pcell] Ra. cbn [fst snd] in Ra.
        eapply okp_bind; [apply (kids_T content s4 HF1 Hw1 (Rg_inv _ _ _ Ra))|]. intros s5 Rb.
        eapply okp_bind; [apply (fin_T _ _ _ _ Ra Rb)|]. intros s6 Rc.
        eapply okp_bind; [apply (pop_T s2 _ s6 Hi Rc)|].
        intros [sub s7] (A & B & C & D). cbn [fst snd] in *.
        eapply okp_mono.
        { apply (IH wsl s7 (subs ++ [sub]) tp rest HF2 Hw2 D); [congruence|exact HB|exact Hwsl'|].
          apply Forall_app. split; [exact Hs|]. constructor; [|constructor].
          split; [exact A|]. rewrite (dsame_opts _ _ B). apply new_sub_renderer_t, Hwlt. }
        intros r (E1 & E2 & E3 & E4). split; [congruence|]. split; [exact E2|]. split; [exact E3|].
        right. destruct E4 as [_|(w' & Hw')]; [exists w; left; reflexivity|exists w'; right; exact Hw'].
      + inversion Hwsl as [|? ? _ Hwsl']; subst.
        eapply okp_mono; [apply (IH wsl s2 subs tp rest HF2 Hw2 Hi Es HB Hwsl' Hs)|].
        intros r (E1 & E2 & E3 & E4). split; [exact E1|]. split; [exact E2|]. split; [exact E3|].
        destruct E4 as [E4|(w' & Hw')]; [left; exact E4|right; exists w'; right; exact Hw'].
  Qed.

  Definition keepL (s s' : subr) : Prop :=
    slines s' = slines s /\ wrapping s' = wrapping s /\ sopts s' = sopts s.

  Lemma fin_TL st st1 ps st2 :
    Rg (QD (pre_plus (p_pre ps))) st st1 -> R st1 st2 ->
    okp (fun st3 => R st st3 /\ Rg keepL st2 st3) (unwind d ps st2).
  Proof.
    intros R1 R2.
    assert (R12 : Rg (fun s s' => same s s' /\ filter_depth s' = filter_depth s /\
                                  pre_depth s' = pre_depth s + (if p_pre ps then 1 else 0)) st st2).
    { eapply Rg_comp; [|exact R1|exact R2].
      intros x y z (a1 & a2 & a3 & a4 & a5 & a6) ((b1 & b2) & b3 & b4). unfold pre_plus in a6.
      split; [split; congruence|]. split; congruence. }
    eapply okp_mono.
    { apply (unwind_T ps st2 (Rg_inv _ _ _ R2)). intros Ep.
      destruct R12 as [_ (s & s' & rest & E1 & E2 & _ & _ & E3)].
      exists s', rest. split; [exact E2|]. rewrite E3, Ep. lia. }
    intros st3 R3. split.
    - eapply Rg_comp; [|exact R12|exact R3].
      intros x y z ((a1 & a2) & a3 & a4) (b1 & b2 & b3 & b4 & b5 & b6). unfold pre_minus in b6.
      split; [split; congruence|]. split; [|congruence]. rewrite b6, a4. destruct (p_pre ps); lia.
    - eapply Rg_weak; [|exact R3]. intros x y (b1 & b2 & b3 & b4 & _). repeat split; assumption.
  Qed.

  (* the state of the table's own renderer between two rows *)
  Definition TB (need : Prop) (tp : subr) : Prop :=
    wrapping tp = None /\ (need -> o_borders (sopts tp) = true -> lastR tp).

  Lemma TB_keep need s s' :
    slines s' = slines s -> wrapping s' = wrapping s -> sopts s' = sopts s -> TB need s -> TB need s'.
  Proof. unfold TB, lastR. intros -> -> ->. auto. Qed.

  Lemma existsb_nonempty {A} (f : A -> bool) l : existsb f l = true -> l <> [].
  Proof. destruct l; [discriminate|discriminate]. Qed.

  Lemma row_body_T vr col_widths ncols r s tp rest :
    Forall (fun c => Forall node_t (cell_content c)) (row_cells r) ->
    row_wf ncols r = true -> length col_widths = N.to_nat ncols ->
    (vr = false -> sumN col_widths + N.of_nat (length col_widths) <= swidth_ tp + 1) ->
    (vr = true -> forall w, In w col_widths -> w <= swidth_ tp) ->
    st_inv s -> stack s = tp :: rest ->
    (vr = false -> TB (sumN col_widths <> 0) tp) ->
    okp (fun s' => R s s' /\
                   (vr = false -> exists tp' rest', stack s' = tp' :: rest' /\
                                                    TB (sumN col_widths <> 0) tp'))
        (row_body d mw vr col_widths r s).
  Proof.
    intros HF Hw Hlen Hh Hv Hi Es Htb. destruct r as [rcells rstyle]. cbn [row_cells row_wf] in *.
    apply andb_true_iff in Hw. destruct Hw as [Hspan Hcw].
    assert (Htp : sub_t tp). { destruct Hi as [_ F]. rewrite Es in F. inversion F; assumption. }
    pose proof Htp as (_ & _ & _ & HB).
    unfold row_body.
    eapply okp_bind; [apply apply_style_T, Hi|]. intros [s1 prow] R1. cbn [fst snd] in R1.
    pose proof R1 as [I1 (x & tp1 & r1 & X1 & Es1 & Q1)].
    rewrite Es in X1. injection X1 as <- <-.
    pose proof Q1 as (q1 & q2 & q3 & q4 & q5 & q6).
    eapply okp_bind.
    { apply sure_okp, (cell_widths_T vr col_widths (swidth_ tp) rcells 0).
      - apply Forall_forall. intros c Hc. rewrite forallb_forall in Hcw. specialize (Hcw c Hc).
        destruct c as [k content csty]. cbn [cell_wf cell_colspan] in *.
        apply andb_true_iff in Hcw. lia.
      - rewrite Hlen. lia.
      - exact Hh.
      - exact Hv.
      - exact HB. }
    intros cws [C1 C2].
    eapply okp_bind.
    { apply (cells_loop_T rcells cws s1 [] tp1 rest HF Hcw I1 Es1); [lia| |constructor].
      rewrite q1. exact C1. }
    intros [s8 subs] (E1 & E2 & E3 & E4). cbn [fst snd] in *.
    assert (R18 : R s1 s8) by (apply R_stack_eq; assumption).
    assert (Es8 : stack s8 = tp1 :: rest) by congruence.
    assert (Hsubs : Forall sub_t subs).
    { eapply Forall_impl; [|exact E3]. intros c [A _]. exact A. }
    eapply okp_bind with
      (P := fun s9 => R s1 s9 /\
                      (vr = false -> exists tp9 rest9, stack s9 = tp9 :: rest9 /\
                                                       TB (sumN col_widths <> 0) tp9)).
    { destruct vr.
      - eapply okp_mono; [apply (with_top_tot _ s8 (append_vert_row_tot subs Hsubs) E2)|].
        intros s9 R9. split; [eapply R_trans; eassumption|discriminate].
      - specialize (Htb eq_refl). destruct Htb as [T1 T2].
        assert (Htb1 : TB (sumN col_widths <> 0) tp1).
        { apply (TB_keep _ tp); auto. split; assumption. }
        destruct (existsb (fun c => negb (sub_empty c)) subs) eqn:Ex.
        + eapply okp_mono.
          { apply (with_top_Q
                     (fun s s' => dsame s s' /\ wrapping s' = None /\
                                  (o_borders (sopts s) = true -> lastR s')) _ s8 E2).
            intros t rest' Et Ht. rewrite Es8 in Et. injection Et as <- <-.
            eapply okp_mono.
            { apply (append_columns_t tp1 subs true Ht).
              - destruct Htb1 as [A _]. exact A.
              - eapply existsb_nonempty, Ex.
              - eapply Forall_impl; [|exact E3]. intros c [A B]. split; [exact A|]. rewrite B. reflexivity.
              - destruct Htb1 as [_ A]. apply A.
                destruct E4 as [E4|E4]; [subst subs; discriminate|]. apply C2; [reflexivity|exact E4]. }
            intros t' (A & B & C & D). auto. }
          intros s9 R9. split.
          * eapply R_trans; [exact R18|]. eapply Rg_weak; [|exact R9]. intros a b (A & _). exact A.
          * intros _. destruct R9 as [_ (a & b & r9 & A1 & A2 & A3 & A4 & A5)].
            exists b, r9. split; [exact A2|]. split; [exact A4|]. intros _ Hb. apply A5.
            rewrite (dsame_opts _ _ A3) in Hb. exact Hb.
        + cbn [okp]. split; [exact R18|]. intros _. exists tp1, rest. auto. }
    intros s9 [R9 T9].
    eapply okp_mono; [apply (fin_TL _ _ _ _ R1 R9)|].
    intros s' [A B]. split; [exact A|]. intros Ev.
    destruct (T9 Ev) as (tp9 & rest9 & Et9 & Htb9).
    destruct B as [_ (a & b & r & B1 & B2 & B3 & B4 & B5)].
    rewrite Et9 in B1. injection B1 as <- <-. exists b, rest9. split; [exact B2|].
    apply (TB_keep _ tp9); assumption.
  Qed.

  Lemma prefixed_est cs pw sz :
    (do e <- est_kids d mw cs;
     let r := est_add_hor e (mkest pw pw 0) in Ok (mkest (e_size r) (e_min r) pw)) = Ok sz ->
    e_prefix sz = pw /\ pw <= e_min sz.
  Proof.
    intros H. bind_inv H e He. injection H as <-. cbn [e_prefix e_min est_add_hor]. lia.
  Qed.

  Ltac startT Hw Hi sz Hsz st1 ps R1 :=
    match goal with |- okp _ (render_node _ _ ?n _) =>
      destruct (est_total n Hw) as [sz Hsz] end;
    cbn [render_node rn_info rn_style]; unfold est_of; rewrite Hsz; cbn [bind];
    (eapply okp_bind; [apply apply_style_T, Hi|]); intros [st1 ps] R1; cbn [fst snd] in R1.

  Lemma node_t_all : forall n, node_t n.
  Proof.
    apply rnode_ind'. intros i sty IH Hw st Hi.
    destruct i; cbn [direct_kids] in IH; try (cbn [wf rn_info] in Hw; discriminate).
    - (* IText *)
      startT Hw Hi sz Hsz st1 ps R1.
      eapply okp_bind; [apply inline_text_T, (Rg_inv _ _ _ R1)|]. intros st2 R2.
      eapply fin_T; eassumption.
    - (* IContainer *)
      startT Hw Hi sz Hsz st1 ps R1. cbn [wf rn_info] in Hw.
      eapply okp_bind; [apply (kids_T cs st1 IH Hw (Rg_inv _ _ _ R1))|]. intros st2 R2.
      eapply fin_T; eassumption.
    - (* ILink *)
      startT Hw Hi sz Hsz st1 ps R1. cbn [wf rn_info] in Hw.
      pose proof (Rg_inv _ _ _ R1) as I1.
      assert (R1' : R st1 (mkrst (stack st1) (links st1 ++ [href]))) by (apply R_stack_eq; auto).
      eapply okp_bind; [apply (with_top_tot _ _ (sub_start_link_tot d href) (Rg_inv _ _ _ R1'))|].
      intros st2 R2.
      eapply okp_bind; [apply (kids_T cs st2 IH Hw (Rg_inv _ _ _ R2))|]. intros st3 R3.
      eapply okp_bind; [apply (with_top_tot _ _ (sub_end_link_tot d) (Rg_inv _ _ _ R3))|].
      intros st4 R4.
      destruct (top_T st4 (Rg_inv _ _ _ R4)) as (tp & rest & Et & _). rewrite Et. cbn [bind].
      eapply okp_bind with (P := R st4).
      { destruct (o_footnotes (sopts tp)).
        - apply inline_text_T, (Rg_inv _ _ _ R4).
        - cbn [okp]. apply R_refl, (Rg_inv _ _ _ R4). }
      intros st5 R5. eapply fin_T; [exact R1|].
      eapply R_trans; [exact R1'|]. eapply R_trans; [exact R2|]. eapply R_trans; [exact R3|].
      eapply R_trans; eassumption.
    - (* IEm *)
      startT Hw Hi sz Hsz st1 ps R1. cbn [wf rn_info] in Hw.
      apply (wrap_T (start_emphasis d) (end_emphasis d) cs st st1 ps st1); auto.
      + apply start_emphasis_tot. + apply end_emphasis_tot. + apply R_refl, (Rg_inv _ _ _ R1).
    - (* IStrong *)
      startT Hw Hi sz Hsz st1 ps R1. cbn [wf rn_info] in Hw.
      apply (wrap_T (start_strong d) (end_strong d) cs st st1 ps st1); auto.
      + apply start_strong_tot. + apply end_strong_tot. + apply R_refl, (Rg_inv _ _ _ R1).
    - (* IStrikeout *)
      startT Hw Hi sz Hsz st1 ps R1. cbn [wf rn_info] in Hw.
      eapply okp_bind.
      { apply (with_top_Q (fun s s' => same s s' /\ pre_depth s' = pre_depth s /\
                                        filter_depth s' = strike_inc s) _ st1 (Rg_inv _ _ _ R1)).
        intros s rest _ Hs. apply start_strikeout_t, Hs. }
      intros a Ra.
      eapply okp_bind; [apply (kids_T cs a IH Hw (Rg_inv _ _ _ Ra))|]. intros b Rb.
      assert (Rab : Rg (fun s s' => same s s' /\ pre_depth s' = pre_depth s /\
                                    filter_depth s' = strike_inc s) st1 b).
      { eapply Rg_comp; [|exact Ra|exact Rb].
        intros x y z (a1 & a2 & a3) ((b1 & b2) & b3 & b4).
        split; [eapply same_trans; [exact a1|split; assumption]|]. split; congruence. }
      destruct Rab as [Ib (s0 & sb & rest0 & E0 & Eb & (q1 & q2) & q3 & q4)].
      eapply okp_bind.
      { apply (with_top_Q (fun s s' => same s s' /\ pre_depth s' = pre_depth s /\
                                        filter_depth s' = filter_depth s0) _ b Ib).
        intros s rest Es Hs. rewrite Eb in Es. injection Es as <- <-.
        apply (end_strikeout_t d sb s0 Hs q2 q4). }
      intros c Rc. eapply fin_T; [exact R1|].
      split; [exact (Rg_inv _ _ _ Rc)|].
      destruct Rc as [_ (x & y & r & X1 & X2 & (y1 & y2) & y3 & y4)].
      rewrite Eb in X1. injection X1 as <- <-.
      exists s0, y, rest0. split; [exact E0|]. split; [exact X2|].
      split; [split; congruence|]. split; congruence.
    - (* ICode *)
      startT Hw Hi sz Hsz st1 ps R1. cbn [wf rn_info] in Hw.
      apply (wrap_T (start_code d) (end_code d) cs st st1 ps st1); auto.
      + apply start_code_tot. + apply end_code_tot. + apply R_refl, (Rg_inv _ _ _ R1).
    - (* IImg *)
      startT Hw Hi sz Hsz st1 ps R1.
      eapply okp_bind; [apply (with_top_tot _ _ (add_image_tot d src title) (Rg_inv _ _ _ R1))|].
      intros st2 R2. eapply fin_T; eassumption.
    - (* IBlock *)
      startT Hw Hi sz Hsz st1 ps R1. cbn [wf rn_info] in Hw.
      apply (wrap_T start_block (fun s => Ok (end_block s)) cs st st1 ps st1); auto.
      + apply start_block_tot. + apply end_block_tot. + apply R_refl, (Rg_inv _ _ _ R1).
    - (* IHeader *)
      startT Hw Hi sz Hsz st1 ps R1. cbn [wf rn_info] in Hw.
      apply andb_true_iff in Hw. destruct Hw as [Hsm Hw].
      unfold small in Hsm. rewrite Hsz in Hsm. apply N.ltb_lt in Hsm.
      cbn [est_node rn_info] in Hsz. apply prefixed_est in Hsz. destruct Hsz as [Ep Hpm].
      rewrite Ep, N.eqb_refl. cbn [negb].
      pose proof (Rg_inv _ _ _ R1) as I1.
      destruct (top_T st1 I1) as (tp & rest & Et & Es & Htp). rewrite Et. cbn [bind].
      eapply okp_bind; [apply width_minus_T|]. intros w Hwd. cbv beta in Hwd.
      assert (Hwlt : w < usize_max). { destruct Htp as (_ & _ & _ & B). lia. }
      eapply (scope_T st1 tp w); [exact I1|exact Hwlt| |].
      { apply (kids_T cs _ IH Hw). apply push_inv; assumption. }
      intros sub st3 Hsub Hso R3. cbv beta iota.
      eapply okp_bind; [apply (with_top_tot _ _ start_block_tot (Rg_inv _ _ _ R3))|]. intros st4 R4.
      eapply okp_bind; [apply (with_top_tot _ _ (append_subrender_tot sub _ _ Hsub) (Rg_inv _ _ _ R4))|].
      intros st5 R5.
      eapply okp_bind; [apply (with_top_tot _ _ end_block_tot (Rg_inv _ _ _ R5))|]. intros st6 R6.
      eapply fin_T; [exact R1|]. eapply R_trans; [exact R3|]. eapply R_trans; [exact R4|].
      eapply R_trans; eassumption.
    - (* IDiv *)
      startT Hw Hi sz Hsz st1 ps R1. cbn [wf rn_info] in Hw.
      apply (wrap_T new_line new_line cs st st1 ps st1); auto.
      + apply new_line_tot. + apply new_line_tot. + apply R_refl, (Rg_inv _ _ _ R1).
    - (* IBlockQuote *)
      startT Hw Hi sz Hsz st1 ps R1. cbn [wf rn_info] in Hw.
      apply andb_true_iff in Hw. destruct Hw as [Hsm Hw].
      unfold small in Hsm. rewrite Hsz in Hsm. apply N.ltb_lt in Hsm.
      cbn [est_node rn_info] in Hsz. apply prefixed_est in Hsz. destruct Hsz as [Ep Hpm].
      rewrite Ep, N.eqb_refl. cbn [negb]. rewrite usub_ok by exact Hpm. cbn [bind].
      pose proof (Rg_inv _ _ _ R1) as I1.
      destruct (top_T st1 I1) as (tp & rest & Et & Es & Htp). rewrite Et. cbn [bind].
      eapply okp_bind; [apply width_minus_T|]. intros w Hwd. cbv beta in Hwd.
      assert (Hwlt : w < usize_max). { destruct Htp as (_ & _ & _ & B). lia. }
      eapply (scope_T st1 tp w); [exact I1|exact Hwlt| |].
      { apply (kids_T cs _ IH Hw). apply push_inv; assumption. }
      intros sub st3 Hsub Hso R3. cbv beta iota.
      eapply okp_bind; [apply (with_top_tot _ _ start_block_tot (Rg_inv _ _ _ R3))|]. intros st4 R4.
      eapply okp_bind; [apply (with_top_tot _ _ (append_subrender_tot sub _ _ Hsub) (Rg_inv _ _ _ R4))|].
      intros st5 R5.
      eapply okp_bind; [apply (with_top_tot _ _ end_block_tot (Rg_inv _ _ _ R5))|]. intros st6 R6.
      eapply fin_T; [exact R1|]. eapply R_trans; [exact R3|]. eapply R_trans; [exact R4|].
      eapply R_trans; eassumption.
    - (* IUl *)
      startT Hw Hi sz Hsz st1 ps R1. cbn [wf rn_info] in Hw.
      apply andb_true_iff in Hw. destruct Hw as [Hsm Hw].
      unfold small in Hsm. rewrite Hsz in Hsm. apply N.ltb_lt in Hsm.
      cbn [est_node rn_info] in Hsz. apply prefixed_est in Hsz. destruct Hsz as [Ep Hpm].
      pose proof (Rg_inv _ _ _ R1) as I1.
      eapply okp_bind; [eapply (okp_fold (R st1)); [|apply R_refl, I1]
                       |intros st2 R2; eapply fin_T; eassumption].
      intros item Hitem a Ra. cbv beta. pose proof (Rg_inv _ _ _ Ra) as Ia.
      rewrite usub_ok by exact Hpm. cbn [bind].
      destruct (top_T a Ia) as (tp & rest & Et & Es & Htp). rewrite Et. cbn [bind].
      eapply okp_bind; [apply width_minus_T|]. intros w Hwd. cbv beta in Hwd.
      assert (Hwlt : w < usize_max). { destruct Htp as (_ & _ & _ & B). lia. }
      rewrite Forall_forall in IH. rewrite forallb_forall in Hw.
      eapply (scope_T a tp w); [exact Ia|exact Hwlt| |].
      { apply (IH item Hitem (Hw item Hitem)). apply push_inv; assumption. }
      intros sub s3 Hsub Hso R3. cbv beta iota.
      eapply okp_mono; [apply (with_top_tot _ _ (append_subrender_tot sub _ _ Hsub) (Rg_inv _ _ _ R3))|].
      intros s4 R4. eapply R_trans; [exact Ra|]. eapply R_trans; eassumption.
    - (* IOl *)
      startT Hw Hi sz Hsz st1 ps R1. cbn [wf rn_info] in Hw.
      apply andb_true_iff in Hw. destruct Hw as [Hsm Hw].
      unfold small in Hsm. rewrite Hsz in Hsm. apply N.ltb_lt in Hsm.
      cbn [est_node rn_info ol_prefix_size bind] in Hsz. apply prefixed_est in Hsz.
      destruct Hsz as [Ep Hpm].
      pose proof (Rg_inv _ _ _ R1) as I1.
      eapply okp_bind; [eapply (okp_fold (fun si : rstate * Z => R st1 (fst si))); [|apply R_refl, I1]
                       |intros r Rr; eapply fin_T; [exact R1|exact Rr]].
      intros item Hitem [a i] Ra. cbv beta iota. cbn [fst] in Ra. pose proof (Rg_inv _ _ _ Ra) as Ia.
      rewrite usub_ok by lia. cbn [bind].
      destruct (top_T a Ia) as (tp & rest & Et & Es & Htp). rewrite Et. cbn [bind].
      eapply okp_bind; [apply width_minus_T|]. intros w Hwd. cbv beta in Hwd.
      assert (Hwlt : w < usize_max). { destruct Htp as (_ & _ & _ & B). lia. }
      rewrite Forall_forall in IH. rewrite forallb_forall in Hw.
      eapply (scope_T a tp w); [exact Ia|exact Hwlt| |].
      { apply (IH item Hitem (Hw item Hitem)). apply push_inv; assumption. }
      intros sub s3 Hsub Hso R3. cbv beta iota.
      eapply okp_bind; [apply (with_top_tot _ _ (append_subrender_tot sub _ _ Hsub) (Rg_inv _ _ _ R3))|].
      intros s4 R4. cbn [okp fst]. eapply R_trans; [exact Ra|]. eapply R_trans; eassumption.
    - (* IDl *)
      startT Hw Hi sz Hsz st1 ps R1. cbn [wf rn_info] in Hw.
      eapply okp_bind; [apply (with_top_tot _ _ start_block_tot (Rg_inv _ _ _ R1))|]. intros st2 R2.
      eapply okp_bind; [apply (kids_T cs st2 IH Hw (Rg_inv _ _ _ R2))|]. intros st3 R3.
      eapply fin_T; [exact R1|]. eapply R_trans; eassumption.
    - (* IDt *)
      startT Hw Hi sz Hsz st1 ps R1. cbn [wf rn_info] in Hw.
      eapply okp_bind; [apply (with_top_tot _ _ new_line_tot (Rg_inv _ _ _ R1))|]. intros st2 R2.
      apply (wrap_T (start_emphasis d) (end_emphasis d) cs st st1 ps st2); auto.
      + apply start_emphasis_tot. + apply end_emphasis_tot.
    - (* IDd *)
      startT Hw Hi sz Hsz st1 ps R1. cbn [wf rn_info] in Hw.
      apply andb_true_iff in Hw. destruct Hw as [Hsm Hw].
      unfold small in Hsm. rewrite Hsz in Hsm. apply N.ltb_lt in Hsm.
      cbn [est_node rn_info] in Hsz. apply prefixed_est in Hsz. destruct Hsz as [Ep Hpm].
      rewrite usub_ok by exact Hpm. cbn [bind].
      pose proof (Rg_inv _ _ _ R1) as I1.
      destruct (top_T st1 I1) as (tp & rest & Et & Es & Htp). rewrite Et. cbn [bind].
      eapply okp_bind; [apply width_minus_T|]. intros w Hwd. cbv beta in Hwd.
      assert (Hwlt : w < usize_max). { destruct Htp as (_ & _ & _ & B). lia. }
      eapply (scope_T st1 tp w); [exact I1|exact Hwlt| |].
      { apply (kids_T cs _ IH Hw). apply push_inv; assumption. }
      intros sub st3 Hsub Hso R3. cbv beta iota.
      eapply okp_bind; [apply (with_top_tot _ _ (append_subrender_tot sub _ _ Hsub) (Rg_inv _ _ _ R3))|].
      intros st4 R4. eapply fin_T; [exact R1|]. eapply R_trans; eassumption.
    - (* IBreak *)
      startT Hw Hi sz Hsz st1 ps R1.
      eapply okp_bind; [apply (with_top_tot _ _ new_line_hard_tot (Rg_inv _ _ _ R1))|]. intros st2 R2.
      eapply fin_T; eassumption.
    - (* ITable *)
      startT Hw Hi sz Hsz st1 ps R1. rewrite wf_table in Hw. clear sz Hsz.
      pose proof (Rg_inv _ _ _ R1) as I1.
      apply Forall_flat_map in IH. rewrite Forall_forall in IH.
      pose proof Hw as Hw'. rewrite forallb_forall in Hw'.
      assert (Hcell : forall r c, In r rows -> In c (row_cells r) ->
                sure (fun _ => True) (est_kids d mw (cell_content c)) /\ 1 <= cell_colspan c).
      { intros r c Hr Hc. specialize (Hw' r Hr). destruct r as [cells rsty]. cbn [row_wf row_cells] in *.
        apply andb_true_iff in Hw'. destruct Hw' as [_ Hw']. rewrite forallb_forall in Hw'.
        specialize (Hw' c Hc). split.
        - apply cell_est_sure; [|exact Hw']. apply Forall_forall. intros x _. apply est_ok_all.
        - destruct c as [k content csty]. cbn [cell_wf cell_colspan] in *.
          apply andb_true_iff in Hw'. lia. }
      (* column size estimates *)
      eapply okp_bind with (P := fun col_sizes => length col_sizes = N.to_nat ncols).
      { apply sure_okp.
        eapply (sure_fold (fun sizes => length sizes = N.to_nat ncols)); [|apply repeat_length].
        intros r Hr s Hs. cbv beta.
        eapply sure_bind with (P := fun r => length (fst r) = N.to_nat ncols); [|intros a Ha; exact Ha].
        eapply (cells_fold_sure ncols); [|exact Hs|].
        - intros c Hc sz colno Hl Hcol. cbv beta iota.
          destruct (Hcell r c Hr Hc) as [Hce Hc1].
          eapply sure_bind; [exact Hce|]. intros ce _. cbv zeta.
          destruct (N.eqb_spec (cell_colspan c) 0) as [E0|_]; [lia|].
          match goal with |- sure _ match upd_range _ _ _ ?f with _ => _ end =>
            destruct (upd_range_some f sz (N.to_nat colno) (N.to_nat (cell_colspan c)))
              as (r' & E & L); [lia|] end.
          rewrite E. cbn [sure fst snd]. split; [congruence|reflexivity].
        - specialize (Hw' r Hr). destruct r as [cells rsty]. cbn [row_wf row_cells] in *.
          apply andb_true_iff in Hw'. lia. }
      intros col_sizes Hlen. cbv zeta.
      destruct (top_T st1 I1) as (tp & rest & Et & Es & Htp). rewrite Et. cbn [bind].
      pose proof Htp as (_ & _ & _ & HB).
      set (vr := o_raw (sopts tp)
                 || ((swidth_ tp <? sumN (map e_min col_sizes) + (N.of_nat (length col_sizes) - 1))
                     || (swidth_ tp =? 0))).
      (* column widths *)
      eapply okp_bind with
        (P := fun cw => length cw = N.to_nat ncols /\
                        (vr = false -> sumN cw + N.of_nat (length cw) <= swidth_ tp + 1) /\
                        (vr = true -> forall w, In w cw -> w <= swidth_ tp)).
      { destruct vr eqn:Evr; cbn [negb].
        - cbn [okp]. split; [rewrite map_length; exact Hlen|]. split; [discriminate|].
          intros _ w Hin. apply in_map_iff in Hin. destruct Hin as (? & <- & _). lia.
        - set (ws0 := map (col_width_of (swidth_ tp) (sumN (map e_size col_sizes))) col_sizes).
          assert (Hl0 : length ws0 = length col_sizes) by apply map_length.
          destruct ws0 as [|x ws0'] eqn:Ews.
          + cbn [okp]. cbn [length] in Hl0. split; [cbn [length]; congruence|].
            split; [cbn; lia|discriminate].
          + rewrite <- Ews in *.
            apply orb_false_iff in Evr. destruct Evr as [_ Evr].
            apply orb_false_iff in Evr. destruct Evr as [Evr _]. apply N.ltb_ge in Evr.
            destruct (TableProof.shrink_loop_never_panics (swidth_ tp) (map e_min col_sizes) ws0)
              as (ws_ & E & L & _ & _ & Hfit).
            * rewrite map_length. congruence.
            * rewrite Ews. discriminate.
            * rewrite map_length. exact Evr.
            * rewrite E. cbn [okp]. split; [congruence|]. split; [|discriminate]. intros _.
              assert (1 <= N.of_nat (length ws_)).
              { rewrite L, Ews. cbn [length]. lia. }
              lia. }
      intros cw (Hcwl & Hh & Hv).
      (* start_block *)
      eapply okp_bind.
      { apply (with_top_Q (fun s s' => dsame s s' /\ wrapping s' = None) _ st1 I1).
        intros s r _ Hs. eapply okp_mono; [apply start_block_t, Hs|]. intros s' (A & B & C). auto. }
      intros st2 R2.
      assert (R12 : R st1 st2) by (eapply Rg_weak; [|exact R2]; intros a b [A _]; exact A).
      destruct R2 as [I2 (x & tp2 & r2 & X1 & Es2 & D2 & W2)].
      rewrite Es in X1. injection X1 as <- <-.
      (* top border *)
      eapply okp_bind with
        (P := fun st3 => R st1 st3 /\
                (vr = false -> exists tp3 rest3, stack st3 = tp3 :: rest3 /\ TB (sumN cw <> 0) tp3)).
      { match goal with |- okp _ (if ?c then _ else _) => destruct c eqn:Ec end.
        - apply andb_true_iff in Ec. destruct Ec as [_ Eb].
          eapply okp_mono.
          { apply (with_top_Q (fun s s' => dsame s s' /\ wrapping s' = None /\ lastR s') _ st2 I2).
            intros s r Es' Hs. rewrite Es2 in Es'. injection Es' as <- <-.
            eapply okp_mono; [apply add_horizontal_border_width_t; [exact Hs|]|].
            - rewrite (dsame_opts _ _ D2). exact Eb.
            - intros s' (A & B & C & D). auto. }
          intros st3 R3. split.
          + eapply R_trans; [exact R12|]. eapply Rg_weak; [|exact R3]. intros a b [A _]. exact A.
          + intros _. destruct R3 as [_ (a & b & r3 & A1 & A2 & A3 & A4 & A5)].
            exists b, r3. split; [exact A2|]. split; [exact A4|]. intros _ _. exact A5.
        - cbn [okp]. split; [exact R12|]. intros Evr. exists tp2, rest. split; [exact Es2|].
          split; [exact W2|]. intros Hne Hb. exfalso.
          rewrite (dsame_opts _ _ D2) in Hb. rewrite Hb, andb_true_r in Ec.
          apply negb_false_iff in Ec. rewrite Evr in Ec. apply N.eqb_eq in Ec. lia. }
      intros st3 [R3 T3].
      (* rows *)
      eapply okp_bind with
        (P := fun a => R st1 a /\
                (vr = false -> exists tp' rest', stack a = tp' :: rest' /\ TB (sumN cw <> 0) tp')).
      { change (okp (fun a => R st1 a /\
                  (vr = false -> exists tp' rest', stack a = tp' :: rest' /\ TB (sumN cw <> 0) tp'))
                  (fold_left (fun acc r => do s <- acc; row_body d mw vr cw r s) rows (Ok st3))).
        apply (okp_fold (fun a => R st1 a /\
                 (vr = false -> exists tp' rest', stack a = tp' :: rest' /\ TB (sumN cw <> 0) tp'))
                 (row_body d mw vr cw) rows); [|split; assumption].
        intros r Hr a [Ra Ta].
        pose proof Ra as [Ia (x & tpa & ra & X1 & Esa & Da)].
        rewrite Es in X1. injection X1 as <- <-.
        assert (Ewa : swidth_ tpa = swidth_ tp) by (destruct Da as ((A & _) & _); exact A).
        eapply okp_mono.
        { apply (row_body_T vr cw ncols r a tpa rest); try assumption.
          - specialize (IH r Hr). unfold row_kids in IH. apply Forall_flat_map in IH. exact IH.
          - apply Hw', Hr.
          - rewrite Ewa. exact Hh.
          - rewrite Ewa. exact Hv.
          - intros Evr. destruct (Ta Evr) as (t' & r' & E' & T'). rewrite Esa in E'.
            injection E' as <- <-. exact T'. }
        intros a' [Ra' Ta']. split; [eapply R_trans; eassumption|exact Ta']. }
      intros st4 [R4 _]. eapply fin_T; eassumption.
    - (* IFragStart *)
      startT Hw Hi sz Hsz st1 ps R1.
      eapply okp_bind; [apply (with_top_tot _ _ (record_frag_start_tot name) (Rg_inv _ _ _ R1))|].
      intros st2 R2. eapply fin_T; eassumption.
    - (* IListItem *)
      startT Hw Hi sz Hsz st1 ps R1. cbn [wf rn_info] in Hw.
      apply (wrap_T start_block (fun s => Ok (end_block s)) cs st st1 ps st1); auto.
      + apply start_block_tot. + apply end_block_tot. + apply R_refl, (Rg_inv _ _ _ R1).
    - (* ISup *)
      startT Hw Hi sz Hsz st1 ps R1. cbn [wf rn_info] in Hw.
      destruct (sup_digits cs) as [digitstr|].
      + eapply okp_bind; [apply inline_text_T, (Rg_inv _ _ _ R1)|]. intros st2 R2.
        eapply fin_T; eassumption.
      + apply (wrap_T (start_superscript d) (end_superscript d) cs st st1 ps st1); auto.
        * apply start_superscript_tot. * apply end_superscript_tot. * apply R_refl, (Rg_inv _ _ _ R1).
  Qed.

  (* ================================================================ *)
  (* 7. render_tree                                                    *)
  (* ================================================================ *)

  Lemma sub_new_t width o : width < usize_max -> sub_t (sub_new width o).
  Proof.
    intros Hw. unfold sub_t, sub_new. sprj. split; [intros r []|]. split; [intros _ r []|].
    split; [intros ? [=]|exact Hw].
  Qed.

  Lemma render_tree_T o width tree :
    width < usize_max -> wf tree = true -> okp sub_t (render_tree d mw o width tree).
  Proof.
    intros Hwd Hw. unfold render_tree, est_of.
    destruct (est_total tree Hw) as [e He]. rewrite He. cbn [bind].
    set (st0 := mkrst [sub_new width o] []).
    assert (I0 : st_inv st0).
    { split; cbn [st0 stack]; [discriminate|]. constructor; [apply sub_new_t, Hwd|constructor]. }
    eapply okp_bind; [apply (node_t_all tree Hw st0 I0)|].
    intros st [[_ HF] (s & s' & rest & E1 & E2 & _)].
    cbn [st0 stack] in E1. injection E1 as <- <-. rewrite E2. rewrite E2 in HF.
    pose proof (Forall_inv HF) as Hs'.
    destruct (sub_finalise s' (links st)) as [|l ls].
    - exact Hs'.
    - eapply okp_bind; [apply start_block_tot, Hs'|]. intros s1 [A _]. cbn [okp].
      apply fmt_links_t, A.
  Qed.

  Lemma sub_into_lines_okish s : sub_t s -> okish (sub_into_lines s).
  Proof. intros Hs. eapply okp_okish, sub_into_lines_t, Hs. Qed.

  Lemma sub_into_string_okish s : sub_t s -> okish (sub_into_string s).
  Proof.
    intros Hs. unfold sub_into_string, okish. eapply okp_bind; [apply sub_into_lines_t, Hs|].
    intros ls _. exact I.
  Qed.
End RenderLayerT.

(* ================================================================== *)
(* 8. Main theorems, render-tree level                                  *)
(* ================================================================== *)

(* The decidable side condition (see [wf] in section 4):
   tree_wf d min_wrap tree = true  iff
   (a) no node of the tree is a bare table body / row / cell,
   (b) in every table: every colspan >= 1, the colspans of each row sum to <= ncols,
   (c) for every header / blockquote / ul / ol / dd node the estimated minimum width
       (est_node) is < usize::MAX. *)
Definition tree_wf (d : deco) (min_wrap : N) (tree : rnode) : bool := wf d min_wrap tree.

(* C01 at the level of the renderer: for EVERY decorator (arbitrary strings, arbitrary
   ordered-list prefix function), every option record, every width below usize::MAX
   (0 included) and every well-formed render tree, `render_tree` returns Ok or TooNarrow,
   and so do `sub_into_lines` / `sub_into_string` of its result. *)
Theorem c01_render_tree_total :
  forall (d : deco) (min_wrap : N) (o : ropts) (width : N) (tree : rnode),
  width < usize_max ->
  tree_wf d min_wrap tree = true ->
  match render_tree d min_wrap o width tree with
  | Ok s => okish (sub_into_lines s) /\ okish (sub_into_string s)
  | TooNarrow => True
  | Panic _ => False
  | OutOfFuel => False
  end.
Proof.
  intros d mw o width tree Hwd Hw.
  pose proof (render_tree_T d mw o width tree Hwd Hw) as H.
  destruct (render_tree d mw o width tree) as [s| | |]; cbn [okp] in H; auto.
  split; [apply sub_into_lines_okish, H|apply sub_into_string_okish, H].
Qed.
Print Assumptions c01_render_tree_total.

(* the same, spelled out as "never Panic, never OutOfFuel" *)
Corollary c01_render_tree_never_panics :
  forall d min_wrap o width tree,
  width < usize_max -> tree_wf d min_wrap tree = true ->
  (forall site, render_tree d min_wrap o width tree <> Panic site) /\
  render_tree d min_wrap o width tree <> OutOfFuel /\
  (forall s, render_tree d min_wrap o width tree = Ok s ->
     (forall site, sub_into_lines s <> Panic site) /\ sub_into_lines s <> OutOfFuel /\
     (forall site, sub_into_string s <> Panic site) /\ sub_into_string s <> OutOfFuel).
Proof.
  intros d mw o width tree Hwd Hw.
  pose proof (c01_render_tree_total d mw o width tree Hwd Hw) as H.
  destruct (render_tree d mw o width tree) as [s| | |]; try contradiction.
  - split; [discriminate|]. split; [discriminate|]. intros s' [= <-]. destruct H as [H1 H2].
    unfold okish in *.
    destruct (sub_into_lines s), (sub_into_string s); cbn [okp] in *; try contradiction;
      repeat split; discriminate.
  - split; [discriminate|]. split; discriminate.
Qed.
Print Assumptions c01_render_tree_never_panics.

(* RenderTree::render_with_context (Api.v): width 0 is answered TooNarrow *)
Theorem c01_render_with_context_total :
  forall (c : config) (tree : rnode) (width : N),
  width < usize_max ->
  tree_wf (c_deco c) (c_min_wrap c) tree = true ->
  match render_with_context c tree width with
  | Ok s => okish (sub_into_lines s) /\ okish (sub_into_string s)
  | TooNarrow => True
  | Panic _ => False
  | OutOfFuel => False
  end.
Proof.
  intros c tree width Hwd Hw. unfold render_with_context.
  destruct (width =? 0); [exact I|]. apply c01_render_tree_total; assumption.
Qed.
Print Assumptions c01_render_with_context_total.

(* ---- non-vacuity: the example tree of RenderWidth.v (headings, lists, quote, table, link) ---- *)
Example ex_tree_wf : tree_wf plain_deco 3 ex_tree = true.
Proof. vm_compute. reflexivity. Qed.

Example ex_tree_total_applies :
  match render_tree plain_deco 3 ex_opts 12 ex_tree with
  | Ok s => okish (sub_into_lines s) /\ okish (sub_into_string s)
  | TooNarrow => True | Panic _ => False | OutOfFuel => False
  end.
Proof. apply c01_render_tree_total; [vm_compute; reflexivity|exact ex_tree_wf]. Qed.

(* both outcomes occur: Ok at width 12, TooNarrow at width 1 *)
Example ex_tree_ok_12 :
  match render_tree plain_deco 3 ex_opts 12 ex_tree with Ok _ => True | _ => False end.
Proof. vm_compute. exact I. Qed.
Example ex_tree_narrow_1 : render_tree plain_deco 3 ex_opts 1 ex_tree = TooNarrow.
Proof. vm_compute. reflexivity. Qed.

(* the side conditions are needed: a bare table cell is `unreachable!` (site 60), a colspan
   that exceeds the declared number of columns indexes out of bounds (site 31), colspan 0
   divides by zero (site 33) *)
Example cex_bare_cell :
  render_tree plain_deco 3 ex_opts 12 (ex_n (ITableCell (ex_cell [120]))) = Panic 60.
Proof. vm_compute. reflexivity. Qed.
Example cex_colspan_wide :
  render_tree plain_deco 3 ex_opts 12
    (ex_n (ITable [RRow [RCell 2 [ex_n (IText (ex_str [120]))] cstyle0] cstyle0] 1)) = Panic 31.
Proof. vm_compute. reflexivity. Qed.
Example cex_colspan_zero :
  render_tree plain_deco 3 ex_opts 12
    (ex_n (ITable [RRow [RCell 0 [ex_n (IText (ex_str [120]))] cstyle0] cstyle0] 1)) = Panic 33.
Proof. vm_compute. reflexivity. Qed.

(* ================================================================== *)
(* 9. The public routes, given the render tree                          *)
(* ================================================================== *)

Section RoutesGivenTree.
  Variable inline_styles : list (text * text) -> res (list styledecl).
  Variable doc_rules : list node -> res (list ruleset).

  (* Whenever the DOM layer delivers a well-formed tree, both routes return Ok or TooNarrow. *)
  Theorem c01_routes_given_tree :
    forall (c : config) (doc : list node) (w : N) (tree : rnode),
    w < usize_max ->
    to_render_tree inline_styles doc_rules c doc = Ok tree ->
    tree_wf (c_deco c) (c_min_wrap c) tree = true ->
    okish (lines_from_read inline_styles doc_rules c doc w) /\
    okish (string_from_read inline_styles doc_rules c doc w).
  Proof.
    intros c doc w tree Hw Ht Hwf. unfold lines_from_read, string_from_read. rewrite Ht. cbn [bind].
    pose proof (c01_render_with_context_total c tree w Hw Hwf) as H.
    destruct (render_with_context c tree w) as [s| | |]; cbn [bind]; try contradiction;
      try (split; exact I).
    destruct H as [H1 H2]. split; [|exact H2].
    unfold okish in *. destruct (sub_into_lines s); cbn [bind okp] in *; auto.
  Qed.
End RoutesGivenTree.
Print Assumptions c01_routes_given_tree.

(* ================================================================== *)
(* 10. The DOM layer (Dom.v): table constructors                        *)
(* ================================================================== *)

(* strictly increasing lists (the sorted set of column positions) *)
Fixpoint inc (l : list N) : Prop :=
  match l with
  | [] => True
  | x :: l' => (forall y, In y l' -> x < y) /\ inc l'
  end.

Lemma insert_sorted_in x : forall l y, In y (insert_sorted x l) <-> y = x \/ In y l.
Proof.
  induction l as [|h l IH]; intros y; cbn [insert_sorted].
  - cbn [In]. intuition.
  - destruct (N.ltb_spec x h).
    + cbn [In]. intuition.
    + destruct (N.eqb_spec x h) as [->|Hne].
      * cbn [In]. intuition.
      * cbn [In]. rewrite IH. intuition.
Qed.

Lemma insert_sorted_inc x : forall l, inc l -> inc (insert_sorted x l).
Proof.
  induction l as [|h l IH]; intros Hl; cbn [insert_sorted].
  - cbn. split; [intros y []|exact I].
  - destruct Hl as [H1 H2]. destruct (N.ltb_spec x h) as [Hlt|Hge].
    + cbn [inc]. split; [|split; assumption].
      intros y [<-|Hy]; [exact Hlt|]. specialize (H1 y Hy). lia.
    + destruct (N.eqb_spec x h) as [->|Hne]; [split; assumption|].
      cbn [inc]. split; [|apply IH, H2].
      intros y Hy. apply insert_sorted_in in Hy. destruct Hy as [->|Hy]; [lia|auto].
Qed.

Lemma sorted_set_gen : forall l acc,
  inc acc ->
  inc (fold_left (fun acc x => insert_sorted x acc) l acc) /\
  forall y, In y (fold_left (fun acc x => insert_sorted x acc) l acc) <-> In y l \/ In y acc.
Proof.
  induction l as [|x l IH]; intros acc Ha; cbn [fold_left].
  - split; [exact Ha|]. intros y. cbn [In]. intuition.
  - destruct (IH (insert_sorted x acc) (insert_sorted_inc x acc Ha)) as [A B].
    split; [exact A|]. intros y. rewrite B, insert_sorted_in. cbn [In]. intuition.
Qed.

Lemma sorted_set_ok l : inc (sorted_set l) /\ forall y, In y (sorted_set l) <-> In y l.
Proof.
  unfold sorted_set. destruct (sorted_set_gen l [] I) as [A B]. split; [exact A|].
  intros y. rewrite B. cbn [In]. intuition.
Qed.

Lemma index_of_ge : forall l x i a, index_of x l i = Some a -> i <= a.
Proof.
  induction l as [|h l IH]; intros x i a H; cbn [index_of] in H; [discriminate|].
  destruct (x =? h); [injection H as <-; lia|]. apply IH in H. lia.
Qed.

Lemma index_of_in : forall l x i, In x l -> exists a, index_of x l i = Some a.
Proof.
  induction l as [|h l IH]; intros x i H; [destruct H|]. cbn [index_of].
  destruct (N.eqb_spec x h) as [->|Hne]; [eauto|].
  destruct H as [->|H]; [congruence|]. apply IH, H.
Qed.

Lemma index_of_mono : forall l, inc l -> forall i x y a b,
  In y l -> x < y -> index_of x l i = Some a -> index_of y l i = Some b -> a < b.
Proof.
  induction l as [|h l IH]; intros Hl i x y a b Hy Hxy Ha Hb; [destruct Hy|].
  destruct Hl as [H1 H2]. cbn [index_of] in Ha, Hb.
  destruct (N.eqb_spec x h) as [->|Hxh].
  - injection Ha as <-. destruct (N.eqb_spec y h) as [->|Hyh]; [lia|].
    apply index_of_ge in Hb. lia.
  - destruct (N.eqb_spec y h) as [->|Hyh].
    + (* x is further down the list, so h < x < y = h *)
      exfalso. assert (Hx : In x l).
      { clear - Ha. revert Ha. generalize (i + 1). induction l as [|k l IHl]; intros j Ha;
          cbn [index_of] in Ha; [discriminate|].
        destruct (N.eqb_spec x k) as [->|]; [left; reflexivity|right; eapply IHl, Ha]. }
      specialize (H1 x Hx). lia.
    + destruct Hy as [->|Hy]; [congruence|]. eapply (IH H2 (i + 1) x y); eassumption.
Qed.

Lemma index_of_zero l : inc l -> In 0 l -> index_of 0 l 0 = Some 0.
Proof.
  intros Hl Hin. destruct l as [|h l]; [destruct Hin|]. destruct Hl as [H1 _]. cbn [index_of].
  destruct (N.eqb_spec 0 h) as [_|Hne]; [reflexivity|].
  destruct Hin as [->|Hin]; [congruence|]. specialize (H1 0 Hin). lia.
Qed.

Lemma sumN_colspan_le M : forall cells,
  Forall (fun c => cell_colspan c <= M) cells ->
  sumN (map cell_colspan cells) <= N.of_nat (length cells) * M.
Proof.
  induction cells as [|c cells IH]; intros H; cbn [map sumN length]; [lia|].
  inversion H; subst. specialize (IH H3). rewrite Nat2N.inj_succ, N.mul_succ_l. lia.
Qed.

Definition cellC (c : rcell) (P : list rnode -> Prop) : Prop := P (cell_content c).

(* ---- row_count / tbody_rows ---- *)
Lemma row_count_ok : forall cells hz n,
  Forall (fun c => cell_colspan c <= 1000) cells ->
  n + N.of_nat (length cells) * 1000 <= usize_max ->
  exists hz' n', row_count cells hz n = Ok (hz', n') /\
                 n' <= n + N.of_nat (length cells) * 1000 /\
                 (hz' = false -> Forall (fun c => 1 <= cell_colspan c) cells).
Proof.
  induction cells as [|c cells IH]; intros hz n Hc Hn; cbn [row_count].
  - exists hz, n. split; [reflexivity|]. split; [cbn [length]; lia|]. constructor.
  - inversion Hc as [|? ? Hc1 Hc2]; subst. cbn [length] in Hn.
    rewrite Nat2N.inj_succ, N.mul_succ_l in Hn.
    unfold uadd. destruct (N.leb_spec (n + N.max (cell_colspan c) 1) usize_max); [|lia].
    cbn [bind].
    destruct (IH (hz || (cell_colspan c =? 0)) (n + N.max (cell_colspan c) 1) Hc2) as (hz' & n' & E & Hn' & Hz);
      [lia|].
    exists hz', n'. split; [exact E|]. split.
    + cbn [length]. rewrite Nat2N.inj_succ, N.mul_succ_l. lia.
    + intros ->. specialize (Hz eq_refl). constructor; [|exact Hz].
      (* hz' = false means no zero was seen *)
      assert (Hmono : forall cells hz n hz' n', row_count cells hz n = Ok (hz', n') -> hz' = false -> hz = false).
      { clear. induction cells as [|c cells IH]; intros hz n hz' n' H Hf; cbn [row_count] in H.
        - injection H as <- _. exact Hf.
        - bind_inv H n1 H1. apply IH in H; [|exact Hf]. apply orb_false_iff in H. tauto. }
      apply Hmono in E; [|reflexivity]. apply orb_false_iff in E. destruct E as [_ E].
      apply N.eqb_neq in E. lia.
Qed.

Definition clean_cell (P : rnode -> bool) (c : rcell) : Prop := forallb P (cell_content c) = true.

(* a row as <tr> builds it / as <tbody> leaves it, for a fan-out bound B *)
Definition rowA (P : rnode -> bool) (B : N) (r : rrow) : Prop :=
  N.of_nat (length (row_cells r)) <= B /\
  Forall (fun c => cell_colspan c <= 1000 /\ clean_cell P c) (row_cells r).
Definition rowB (P : rnode -> bool) (B : N) (r : rrow) : Prop :=
  N.of_nat (length (row_cells r)) <= B /\
  Forall (fun c => 1 <= cell_colspan c <= 1000 * B + 1 /\ clean_cell P c) (row_cells r).

Lemma rows_counts_ok P B : forall rows,
  B * 1000 <= usize_max -> Forall (rowA P B) rows ->
  exists counts, rows_counts rows = Ok counts /\
    Forall2 (fun r cnt => snd cnt <= B * 1000 /\
                          (fst cnt = false -> Forall (fun c => 1 <= cell_colspan c) (row_cells r)))
            rows counts.
Proof.
  intros rows HB. induction rows as [|r rows IH]; intros H; cbn [rows_counts].
  - exists []. split; [reflexivity|constructor].
  - inversion H as [|? ? [Hl Hc] Hr]; subst.
    assert (Hb : N.of_nat (length (row_cells r)) * 1000 <= B * 1000) by (apply N.mul_le_mono_r; exact Hl).
    destruct (row_count_ok (row_cells r) false 0) as (hz & n & E & Hn & Hz).
    { eapply Forall_impl; [|exact Hc]. intros c [A _]. exact A. }
    { lia. }
    rewrite E. cbn [bind]. destruct (IH Hr) as (counts & E2 & F2). rewrite E2. cbn [bind].
    exists ((hz, n) :: counts). split; [reflexivity|]. constructor; [|exact F2].
    cbn [fst snd]. split; [lia|exact Hz].
Qed.

Lemma maxN_le l M : Forall (fun x => x <= M) l -> maxN l <= M.
Proof. induction 1; cbn [maxN]; lia. Qed.

Lemma maxN_ge l x : In x l -> x <= maxN l.
Proof.
  induction l as [|h l IH]; intros H; [destruct H|]. cbn [maxN].
  destruct H as [->|H]; [lia|]. specialize (IH H). lia.
Qed.

Lemma tbody_rows_ok P B rows :
  B * 1000 <= usize_max -> Forall (rowA P B) rows ->
  exists rows', tbody_rows rows = Ok rows' /\ Forall (rowB P B) rows'.
Proof.
  intros HB H. unfold tbody_rows.
  destruct (rows_counts_ok P B rows HB H) as (counts & E & F). rewrite E. cbn [bind].
  eexists. split; [reflexivity|].
  set (maxc := match counts with [] => 1 | _ :: _ => maxN (map snd counts) end).
  assert (Hmax : maxc <= B * 1000 \/ counts = []).
  { unfold maxc. destruct counts as [|c0 counts']; [right; reflexivity|left].
    apply maxN_le. apply Forall_forall. intros x Hx. apply in_map_iff in Hx.
    destruct Hx as (cnt & <- & Hcnt).
    clear - F Hcnt. induction F as [|r c rows cs [A _] _ IH]; [destruct Hcnt|].
    destruct Hcnt as [->|Hc]; [exact A|apply IH, Hc]. }
  clearbody maxc. clear E.
  induction F as [|r cnt rows counts [A1 A2] F IH]; cbn [map2]; [constructor|].
  inversion H as [|? ? [Hl Hc] Hr]; subst.
  assert (Hmax' : maxc <= B * 1000) by (destruct Hmax as [?|?]; [assumption|discriminate]).
  constructor.
  - unfold fix_zero_colspan. destruct (fst cnt) eqn:Ef.
    + destruct r as [cells s]. cbn [row_cells] in *. unfold rowB. cbn [row_cells].
      split; [rewrite map_length; exact Hl|].
      apply Forall_forall. intros c' Hc'. apply in_map_iff in Hc'. destruct Hc' as (c & <- & Hin).
      rewrite Forall_forall in Hc. destruct (Hc c Hin) as [C1 C2].
      assert (HB1 : 1 <= B). { destruct cells; [destruct Hin|cbn [length] in Hl; lia]. }
      destruct c as [n k st]. cbn [cell_colspan] in C1. unfold clean_cell in *. cbn [cell_content] in C2.
      destruct (N.eqb_spec n 0) as [->|Hn]; cbn [cell_colspan cell_content].
      * split; [lia|exact C2].
      * split; [lia|exact C2].
    + split; [exact Hl|]. specialize (A2 eq_refl).
      assert (HB1 : row_cells r <> [] -> 1 <= B).
      { destruct (row_cells r); [congruence|cbn [length] in Hl; lia]. }
      clear - Hc A2 HB1. induction Hc as [|c cells [C1 C2] _ IHc]; [constructor|].
      inversion A2; subst. constructor.
      * specialize (HB1 ltac:(discriminate)). split; [lia|exact C2].
      * apply IHc; [assumption|]. intros _. apply HB1. discriminate.
  - apply IH; [exact Hr|]. destruct Hmax as [Hm|Hm]; [left; exact Hm|discriminate].
Qed.

(* ---- RenderTable::new ---- *)
Lemma row_positions_ok : forall cells col,
  col + sumN (map cell_colspan cells) <= usize_max ->
  exists l, row_positions cells col = Ok l.
Proof.
  induction cells as [|c cells IH]; intros col H; cbn [row_positions]; [eauto|].
  cbn [map sumN] in H. unfold uadd.
  destruct (N.leb_spec (col + cell_colspan c) usize_max); [|lia]. cbn [bind].
  destruct (IH (col + cell_colspan c)) as [l E]; [lia|]. rewrite E. cbn [bind]. eauto.
Qed.

Lemma all_positions_ok : forall rows,
  Forall (fun r => sumN (map cell_colspan (row_cells r)) <= usize_max) rows ->
  exists ps, all_positions rows = Ok ps /\
    forall r, In r rows -> exists l, row_positions (row_cells r) 0 = Ok l /\
                                     forall x, In x l -> In x ps.
Proof.
  induction rows as [|r rows IH]; intros H; cbn [all_positions].
  - exists []. split; [reflexivity|]. intros r [].
  - inversion H as [|? ? H1 H2]; subst.
    destruct (row_positions_ok (row_cells r) 0) as [l E]; [lia|]. rewrite E. cbn [bind].
    destruct (IH H2) as (ps & E2 & F). rewrite E2. cbn [bind].
    exists (l ++ ps). split; [reflexivity|]. intros r' [<-|Hr'].
    + exists l. split; [exact E|]. intros x Hx. apply in_or_app. left. exact Hx.
    + destruct (F r' Hr') as (l' & El' & Hl'). exists l'. split; [exact El'|].
      intros x Hx. apply in_or_app. right. apply Hl', Hx.
Qed.

Definition cell_good (P : rnode -> bool) (c : rcell) : Prop :=
  1 <= cell_colspan c /\ clean_cell P c.

Lemma remap_cells_ok P set : inc set -> forall cells pos mapped l,
  row_positions cells pos = Ok l -> (forall x, In x l -> In x set) ->
  index_of pos set 0 = Some mapped ->
  Forall (cell_good P) cells ->
  exists cells', remap_cells set cells pos mapped = Ok cells' /\ Forall (cell_good P) cells'.
Proof.
  intros Hset. induction cells as [|c cells IH]; intros pos mapped l Hrp Hl Hidx Hc;
    cbn [remap_cells].
  - exists []. split; [reflexivity|constructor].
  - inversion Hc as [|? ? [Hc1 Hc2] Hc3]; subst. destruct c as [n k s].
    cbn [cell_colspan] in Hc1. unfold clean_cell in Hc2. cbn [cell_content] in Hc2.
    cbn [row_positions cell_colspan] in Hrp. bind_inv Hrp col' Hcol. bind_inv Hrp r' Hr'.
    ok_inv Hrp. replace (N.max n 1) with n by lia. rewrite Hcol. cbn [bind].
    assert (Ecol : col' = pos + n).
    { unfold uadd in Hcol. destruct (pos + n <=? usize_max); [|discriminate]. ok_inv Hcol. reflexivity. }
    assert (Hin : In col' set) by (apply Hl; left; reflexivity).
    destruct (index_of_in set col' 0 Hin) as [nm Enm]. rewrite Enm.
    assert (Hlt : mapped < nm).
    { eapply (index_of_mono set Hset 0 pos col'); try eassumption. lia. }
    rewrite usub_ok by lia. cbn [bind].
    destruct (IH col' nm r' Hr') as (cells' & E & F); [|exact Enm|exact Hc3|].
    { intros x Hx. apply Hl. right. exact Hx. }
    rewrite E. cbn [bind]. eexists. split; [reflexivity|]. constructor; [|exact F].
    split; [cbn [cell_colspan]; lia|exact Hc2].
Qed.

Lemma remap_rows_ok P set ps : inc set -> In 0 set -> (forall x, In x ps -> In x set) ->
  forall rows,
  (forall r, In r rows -> exists l, row_positions (row_cells r) 0 = Ok l /\
                                    forall x, In x l -> In x ps) ->
  Forall (fun r => Forall (cell_good P) (row_cells r)) rows ->
  exists rows', remap_rows set rows = Ok rows' /\
                Forall (fun r => Forall (cell_good P) (row_cells r)) rows'.
Proof.
  intros Hset H0 Hps. induction rows as [|[cells s] rows IH]; intros Hpos Hc; cbn [remap_rows].
  - exists []. split; [reflexivity|constructor].
  - inversion Hc as [|? ? Hc1 Hc2]; subst. cbn [row_cells] in Hc1.
    destruct (Hpos (RRow cells s) (or_introl eq_refl)) as (l & El & Hl). cbn [row_cells] in El.
    destruct (remap_cells_ok P set Hset cells 0 0 l El) as (cells' & E & F);
      [intros x Hx; apply Hps, Hl, Hx|apply index_of_zero; assumption|exact Hc1|].
    rewrite E. cbn [bind].
    destruct IH as (rows' & E2 & F2); [intros r Hr; apply Hpos; right; exact Hr|exact Hc2|].
    rewrite E2. cbn [bind]. eexists. split; [reflexivity|]. constructor; [exact F|exact F2].
Qed.

Lemma num_cells_span cells :
  Forall (fun c => 1 <= cell_colspan c) cells ->
  sumN (map (fun c => N.max (cell_colspan c) 1) cells) = sumN (map cell_colspan cells).
Proof.
  induction 1 as [|c cells Hc _ IH]; cbn [map sumN]; [reflexivity|]. rewrite IH. lia.
Qed.

Lemma render_table_new_ok P B rows :
  B * (1000 * B + 1) <= usize_max -> Forall (rowB P B) rows ->
  exists rows' nc, render_table_new rows = Ok (ITable rows' nc) /\
    Forall (fun r => row_span (row_cells r) <= nc /\ Forall (cell_good P) (row_cells r)) rows'.
Proof.
  intros HB H. unfold render_table_new.
  destruct (all_positions_ok rows) as (ps & E & Hps).
  { eapply Forall_impl; [|exact H]. intros r [Hl Hc].
    pose proof (sumN_colspan_le (1000 * B + 1) (row_cells r)) as Hs.
    assert (N.of_nat (length (row_cells r)) * (1000 * B + 1) <= B * (1000 * B + 1))
      by (apply N.mul_le_mono_r; exact Hl).
    assert (sumN (map cell_colspan (row_cells r)) <= N.of_nat (length (row_cells r)) * (1000 * B + 1)).
    { apply Hs. eapply Forall_impl; [|exact Hc]. intros c [[_ A] _]. exact A. }
    lia. }
  rewrite E. cbn [bind].
  destruct (sorted_set_ok (0 :: ps)) as [Hinc Hin].
  destruct (remap_rows_ok P (sorted_set (0 :: ps)) ps Hinc) with (rows := rows) as (rows' & E2 & F).
  - apply Hin. left. reflexivity.
  - intros x Hx. apply Hin. right. exact Hx.
  - exact Hps.
  - eapply Forall_impl; [|exact H]. intros r [_ Hc].
    eapply Forall_impl; [|exact Hc]. intros c [[A _] C]. split; assumption.
  - rewrite E2. cbn [bind]. eexists _, _. split; [reflexivity|].
    apply Forall_forall. intros r Hr. rewrite Forall_forall in F. specialize (F r Hr).
    split; [|exact F].
    assert (Hn : row_num_cells r = row_span (row_cells r)).
    { unfold row_num_cells, row_span. apply num_cells_span.
      eapply Forall_impl; [|exact F]. intros c [A _]. exact A. }
    rewrite <- Hn. apply maxN_ge. apply in_map, Hr.
Qed.

(* ================================================================== *)
(* 11. The DOM layer: process / build_element                           *)
(* ================================================================== *)

(* the structural part of [wf] (everything but the estimate bound [small]) *)
Fixpoint wfs (n : rnode) {struct n} : bool :=
  match rn_info n with
  | IText _ | IImg _ _ | IBreak | IFragStart _ => true
  | IContainer cs | ILink _ cs | IEm cs | IStrong cs | IStrikeout cs | ICode cs | IBlock cs
  | IListItem cs | IDiv cs | IDl cs | IDt cs | ISup cs
  | IHeader _ cs | IBlockQuote cs | IUl cs | IOl _ cs | IDd cs => forallb wfs cs
  | ITable rows ncols =>
    forallb (fun r => match r with
                      | RRow cells _ =>
                        (sumN (map cell_colspan cells) <=? ncols) &&
                        forallb (fun c => match c with
                                          | RCell k content _ => (1 <=? k) && forallb wfs content
                                          end) cells
                      end) rows
  | ITableBody _ | ITableRow _ | ITableCell _ => false
  end.

Definition cell_wfs (c : rcell) : bool :=
  match c with RCell k content _ => (1 <=? k) && forallb wfs content end.
Definition row_wfs (ncols : N) (r : rrow) : bool :=
  match r with RRow cells _ => (row_span cells <=? ncols) && forallb cell_wfs cells end.

Lemma wfs_table rows ncols sty : wfs (RN (ITable rows ncols) sty) = forallb (row_wfs ncols) rows.
Proof. reflexivity. Qed.

Lemma cell_wfs_good c : cell_wfs c = true <-> cell_good wfs c.
Proof.
  destruct c as [k content s]. unfold cell_good, clean_cell. cbn [cell_wfs cell_colspan cell_content].
  rewrite andb_true_iff, N.leb_le. tauto.
Qed.

Lemma wfs_table_intro rows nc sty :
  Forall (fun r => row_span (row_cells r) <= nc /\ Forall (cell_good wfs) (row_cells r)) rows ->
  wfs (RN (ITable rows nc) sty) = true.
Proof.
  intros H. rewrite wfs_table. apply forallb_forall. intros r Hr. rewrite Forall_forall in H.
  destruct (H r Hr) as [A B]. destruct r as [cells s]. cbn [row_wfs row_cells] in *.
  apply andb_true_iff. split; [apply N.leb_le, A|]. apply forallb_forall. intros c Hc.
  apply cell_wfs_good. rewrite Forall_forall in B. apply B, Hc.
Qed.

(* what a processed child may be, for a fan-out bound B *)
Definition res_ok (B : N) (x : rnode) : Prop :=
  match rn_info x with
  | ITableCell c => cell_colspan c <= 1000 /\ clean_cell wfs c
  | ITableRow r => rowA wfs B r
  | ITableBody rows => Forall (rowB wfs B) rows
  | _ => True
  end.
Definition kid_ok (B : N) (strict : bool) (x : rnode) : Prop :=
  res_ok B x /\ (strict = true -> wfs x = true).

Lemma forallb_ins {A} (f : A -> bool) at_start x l :
  f x = true -> forallb f l = true -> forallb f (ins at_start x l) = true.
Proof.
  intros Hx Hl. unfold ins. destruct at_start; cbn [forallb].
  - rewrite Hx, Hl. reflexivity.
  - rewrite forallb_app, Hl. cbn [forallb]. rewrite Hx. reflexivity.
Qed.

Lemma ins_first_cell_props at_start x cells :
  wfs x = true ->
  length (ins_first_cell at_start x cells) = length cells /\
  map cell_colspan (ins_first_cell at_start x cells) = map cell_colspan cells /\
  (forall Q : rcell -> Prop,
     (forall n k s, Q (RCell n k s) -> forallb wfs k = true ->
                    Q (RCell n (ins at_start x k) s)) ->
     Forall (fun c => Q c /\ clean_cell wfs c) cells ->
     Forall (fun c => Q c /\ clean_cell wfs c) (ins_first_cell at_start x cells)).
Proof.
  intros Hx. destruct cells as [|[n k s] cells]; cbn [ins_first_cell].
  - split; [reflexivity|]. split; [reflexivity|]. auto.
  - split; [reflexivity|]. split; [reflexivity|]. intros Q HQ H.
    inversion H as [|? ? [H1 H2] H3]; subst. constructor; [|exact H3].
    unfold clean_cell in *. cbn [cell_content] in *. split; [apply HQ; assumption|].
    apply forallb_ins; assumption.
Qed.

Lemma wfs_container2 a b : wfs (rn_new (IContainer [a; b])) = wfs a && (wfs b && true).
Proof. reflexivity. Qed.

Lemma insert_child_ok B new orig at_start strict :
  wfs new = true -> kid_ok B strict orig -> kid_ok B strict (insert_child new orig at_start).
Proof.
  intros Hn [Hr Hs]. destruct orig as [info st].
  assert (Hdef : kid_ok B strict (if at_start then rn_new (IContainer [new; RN info st])
                                  else rn_new (IContainer [RN info st; new])) \/ strict = true /\ wfs (RN info st) = false).
  { destruct strict.
    - destruct (wfs (RN info st)) eqn:E; [|right; auto]. left. split; [destruct at_start; exact I|].
      intros _. destruct at_start; rewrite wfs_container2, Hn, E; reflexivity.
    - left. split; [destruct at_start; exact I|discriminate]. }
  assert (Hlist : forall (K : list rnode -> rinfo) v,
            (forall l, wfs (RN (K l) st) = forallb wfs l) -> (forall l, res_ok B (RN (K l) st)) ->
            info = K v -> kid_ok B strict (RN (K (ins at_start new v)) st)).
  { intros K v HK HR ->. split; [apply HR|]. intros E. specialize (Hs E). rewrite HK in *.
    apply forallb_ins; assumption. }
  destruct info; cbn [insert_child];
    try (destruct Hdef as [Hdef|[E1 E2]]; [exact Hdef|rewrite (Hs E1) in E2; discriminate]);
    try (match goal with |- kid_ok _ _ (RN (?K (ins _ _ ?v)) _) =>
           apply (Hlist K v); [intros l; reflexivity|intros l; exact I|reflexivity] end).
  - (* ITable *)
    split; [exact I|]. intros E. specialize (Hs E). rewrite wfs_table in *.
    destruct rows as [|[cells s] rows]; [exact Hs|]. cbn [ins_first_row forallb] in *.
    apply andb_true_iff in Hs. destruct Hs as [Hs1 Hs2]. rewrite Hs2, andb_true_r.
    cbn [row_wfs] in *. apply andb_true_iff in Hs1. destruct Hs1 as [A1 A2].
    destruct (ins_first_cell_props at_start new cells Hn) as (L & M & F).
    apply andb_true_iff. split; [unfold row_span in *; rewrite M; exact A1|].
    apply forallb_forall. intros c Hc. apply cell_wfs_good.
    assert (G : Forall (fun c => 1 <= cell_colspan c /\ clean_cell wfs c)
                       (ins_first_cell at_start new cells)).
    { apply (F (fun c => 1 <= cell_colspan c)); [intros; assumption|].
      apply Forall_forall. intros c' Hc'. rewrite forallb_forall in A2.
      apply cell_wfs_good, A2, Hc'. }
    rewrite Forall_forall in G. apply G, Hc.
  - (* ITableBody *)
    split; [|intros E; specialize (Hs E); discriminate].
    cbn [res_ok rn_info] in *. destruct rows as [|[cells s] rows]; [exact Hr|].
    cbn [ins_first_row]. inversion Hr as [|? ? [R1 R2] R3]; subst. constructor; [|exact R3].
    cbn [row_cells] in *. destruct (ins_first_cell_props at_start new cells Hn) as (L & M & F).
    unfold rowB. cbn [row_cells]. split; [rewrite L; exact R1|].
    apply (F (fun c => 1 <= cell_colspan c <= 1000 * B + 1)); [intros; assumption|exact R2].
  - (* ITableRow *)
    split; [|intros E; specialize (Hs E); discriminate].
    cbn [res_ok rn_info] in *. destruct r as [cells s]. destruct Hr as [R1 R2]. cbn [row_cells] in *.
    destruct (ins_first_cell_props at_start new cells Hn) as (L & M & F).
    cbn [res_ok rn_info]. unfold rowA. cbn [row_cells]. split; [rewrite L; exact R1|].
    apply (F (fun c => cell_colspan c <= 1000)); [intros; assumption|exact R2].
  - (* ITableCell *)
    split; [|intros E; specialize (Hs E); discriminate].
    cbn [res_ok rn_info] in *. destruct c as [n k s]. destruct Hr as [R1 R2].
    unfold clean_cell in *. cbn [cell_colspan cell_content] in *. split; [exact R1|].
    apply forallb_ins; assumption.
Qed.

Lemma wrap_pseudo_ok B computed nd strict :
  kid_ok B strict nd -> kid_ok B strict (wrap_pseudo computed nd).
Proof.
  intros H. unfold wrap_pseudo.
  assert (H1 : kid_ok B strict
                 match cs_before computed with
                 | Some c => match ws_val (c_content c) with
                             | Some t => insert_child (rn_new (IText (relabel L_deco t))) nd true
                             | None => nd
                             end
                 | None => nd
                 end).
  { destruct (cs_before computed) as [c|]; [|exact H].
    destruct (ws_val (c_content c)); [|exact H]. apply insert_child_ok; [reflexivity|exact H]. }
  destruct (cs_after computed) as [c|]; [|exact H1].
  destruct (ws_val (c_content c)); [|exact H1]. apply insert_child_ok; [reflexivity|exact H1].
Qed.

(* ---- the element kinds that matter for table nesting; mirrors the if-chain of build_element ---- *)
Inductive tk := TOther | TTable | TSection | TRow | TCell.

Definition ekind (name : text) : tk :=
  if names [[104;116;109;108]; [98;111;100;121]] name then TOther
  else if names [[108;105;110;107]; [109;101;116;97]; [104;114]; [115;99;114;105;112;116];
                 [115;116;121;108;101]; [104;101;97;100]] name then TOther
  else if names [[115;112;97;110]] name then TOther
  else if names [[97]] name then TOther
  else if names [[101;109]; [105]; [105;110;115]] name then TOther
  else if names [[115;116;114;111;110;103]] name then TOther
  else if names [[115]; [100;101;108]] name then TOther
  else if names [[99;111;100;101]] name then TOther
  else if names [[105;109;103]] name then TOther
  else match heading_level name with
  | Some _ => TOther
  | None =>
  if names [[112]] name then TOther
  else if names [[108;105]] name then TOther
  else if names [[115;117;112]] name then TOther
  else if names [[100;105;118]] name then TOther
  else if names [[112;114;101]] name then TOther
  else if names [[98;114]] name then TOther
  else if names [[116;97;98;108;101]] name then TTable
  else if names [[116;104;101;97;100]; [116;98;111;100;121]] name then TSection
  else if names [[116;114]] name then TRow
  else if names [[116;104]; [116;100]] name then TCell
  else TOther
  end.

Definition kid_strict (strict : bool) (k : tk) : bool :=
  match k with TOther => strict | TCell => true | _ => false end.
Definition allowed (strict : bool) (k : tk) : bool :=
  match k with TOther | TTable => true | _ => negb strict end.

Lemma kids_wfs B strict cs : Forall (kid_ok B strict) cs -> strict = true -> forallb wfs cs = true.
Proof.
  intros H E. apply forallb_forall. intros x Hx. rewrite Forall_forall in H.
  destruct (H x Hx) as [_ A]. apply A, E.
Qed.

Lemma forallb_filter {A} (g f : A -> bool) l : forallb g l = true -> forallb g (filter f l) = true.
Proof.
  intros H. apply forallb_forall. intros x Hx. apply filter_In in Hx.
  rewrite forallb_forall in H. apply H, Hx.
Qed.

Lemma bodies_rows B strict cs :
  Forall (kid_ok B strict) cs ->
  Forall (rowB wfs B) (flat_map (fun n => match rn_info n with ITableBody b => b | _ => [] end) cs).
Proof.
  induction 1 as [|x cs [Hx _] _ IH]; cbn [flat_map]; [constructor|].
  apply Forall_app. split; [|exact IH]. unfold res_ok in Hx.
  destruct (rn_info x); try constructor. exact Hx.
Qed.

Lemma rows_of B strict cs :
  Forall (kid_ok B strict) cs ->
  Forall (rowA wfs B) (flat_map (fun n => match rn_info n with ITableRow r => [r] | _ => [] end) cs).
Proof.
  induction 1 as [|x cs [Hx _] _ IH]; cbn [flat_map]; [constructor|].
  apply Forall_app. split; [|exact IH]. unfold res_ok in Hx.
  destruct (rn_info x); try constructor; [exact Hx|constructor].
Qed.

Lemma cells_of B strict cs :
  Forall (kid_ok B strict) cs ->
  Forall (fun c => cell_colspan c <= 1000 /\ clean_cell wfs c)
         (flat_map (fun n => match rn_info n with ITableCell c => [c] | _ => [] end) cs) /\
  (length (flat_map (fun n => match rn_info n with ITableCell c => [c] | _ => [] end) cs)
   <= length cs)%nat.
Proof.
  induction 1 as [|x cs [Hx _] _ [IH1 IH2]]; cbn [flat_map]; [split; [constructor|apply le_n]|].
  rewrite app_length. unfold res_ok in Hx. split.
  - apply Forall_app. split; [|exact IH1]. destruct (rn_info x); try constructor; [exact Hx|constructor].
  - cbn [length]. destruct (rn_info x); cbn [length]; lia.
Qed.

Lemma td_colspan_le attrs : td_colspan attrs <= 1000.
Proof.
  unfold td_colspan.
  assert (G : forall l acc, acc <= 1000 ->
            fold_left (fun acc kv => if attr_is (fst kv) s_colspan
                                     then match parse_usize (snd kv) with
                                          | Some n => N.min n 1000
                                          | None => 1
                                          end
                                     else acc) l acc <= 1000).
  { induction l as [|kv l IH]; intros acc Ha; cbn [fold_left]; [exact Ha|]. apply IH.
    destruct (attr_is (fst kv) s_colspan); [|exact Ha]. destruct (parse_usize (snd kv)); lia. }
  apply G. lia.
Qed.

Definition out_ok (B : N) (strict : bool) (r : option rnode) : Prop :=
  match r with None => True | Some x => kid_ok B strict x end.

Lemma fan_bound B : B * (1000 * B + 1) <= usize_max -> B * 1000 <= usize_max.
Proof.
  intros H. destruct (N.eq_dec B 0) as [->|Hz]; [lia|].
  assert (B * 1000 <= B * (1000 * B + 1)) by (apply N.mul_le_mono_l; lia). lia.
Qed.

Lemma build_element_ok B name attrs computed cs strict :
  B * (1000 * B + 1) <= usize_max -> N.of_nat (length cs) <= B ->
  allowed strict (ekind name) = true ->
  Forall (kid_ok B (kid_strict strict (ekind name))) cs ->
  okp (out_ok B strict) (build_element name attrs computed cs).
Proof.
  intros HB Hlen. unfold build_element, ekind.
  (* generic closers for the branches whose kind is TOther *)
  assert (Tmk : forall K : list rnode -> rinfo,
            (forall l, wfs (RN (K l) computed) = forallb wfs l) ->
            (forall l, res_ok B (RN (K l) computed)) ->
            Forall (kid_ok B strict) cs -> okp (out_ok B strict) (Ok (Some (RN (K cs) computed)))).
  { intros K HK HR Hk. cbn [okp out_ok]. split; [apply HR|]. intros E. rewrite HK.
    eapply kids_wfs; eassumption. }
  assert (Tne : forall K : list rnode -> rinfo,
            (forall l, wfs (RN (K l) computed) = forallb wfs l) ->
            (forall l, res_ok B (RN (K l) computed)) ->
            Forall (kid_ok B strict) cs ->
            okp (out_ok B strict) (match cs with [] => Ok None | _ :: _ => Ok (Some (RN (K cs) computed)) end)).
  { intros K HK HR Hk. destruct cs as [|c0 cs0] eqn:Ecs; [exact I|]. rewrite <- Ecs in *.
    apply Tmk; assumption. }
  Ltac nm := match goal with
             | |- _ -> _ -> okp _ (if names ?L ?n then _ else _) => destruct (names L n)
             end; cbv iota.
  Ltac tmk K Tmk := intros _ Hk; cbn [kid_strict] in Hk;
                    apply (Tmk K); [intros l; reflexivity|intros l; exact I|exact Hk].
  nm. { tmk IContainer Tmk. }
  nm. { intros _ _. exact I. }
  nm. { tmk IContainer Tne. }
  nm. { intros _ Hk. cbn [kid_strict] in Hk. destruct (find_attr attrs s_href) as [href|].
        - destruct (existsb (fun c => negb (is_shallow_empty c)) cs); [|exact I].
          apply (Tmk (ILink href)); [intros l; reflexivity|intros l; exact I|exact Hk].
        - apply (Tmk IContainer); [intros l; reflexivity|intros l; exact I|exact Hk]. }
  nm. { tmk IEm Tmk. }
  nm. { tmk IStrong Tmk. }
  nm. { tmk IStrikeout Tmk. }
  nm. { tmk ICode Tmk. }
  nm. { intros _ _. exact I. }
  destruct (heading_level name) as [lvl|]; cbv iota.
  { tmk (IHeader lvl) Tmk. }
  nm. { tmk IBlock Tne. }
  nm. { tmk IListItem Tmk. }
  nm. { tmk ISup Tmk. }
  nm. { tmk IDiv Tne. }
  nm. { intros _ Hk. cbn [kid_strict] in Hk. cbn [okp out_ok]. split; [exact I|].
        intros E. exact (kids_wfs _ _ _ Hk E). }
  nm. { intros _ _. exact I. }
  nm. { (* table *)
    intros _ Hk. cbn [kid_strict] in Hk.
    pose proof (bodies_rows B false cs Hk) as Hrows.
    destruct (flat_map (fun n => match rn_info n with ITableBody b => b | _ => [] end) cs)
      as [|r0 rows0] eqn:Erows; [exact I|]. rewrite <- Erows in *. clear Erows.
    destruct (render_table_new_ok wfs B _ HB Hrows) as (rows' & nc & E & F).
    rewrite E. cbn [bind okp out_ok]. split; [exact I|]. intros _. apply wfs_table_intro, F. }
  nm. { (* thead / tbody *)
    intros Ha Hk. cbn [kid_strict allowed] in *. apply negb_true_iff in Ha. subst strict.
    destruct cs as [|c0 cs0] eqn:Ecs; [exact I|]. rewrite <- Ecs in *. clear Ecs.
    destruct (tbody_rows_ok wfs B _ (fan_bound B HB) (rows_of B false cs Hk)) as (rows' & E & F).
    rewrite E. cbn [bind okp out_ok]. split; [exact F|discriminate]. }
  nm. { (* tr *)
    intros Ha Hk. cbn [kid_strict allowed] in *. apply negb_true_iff in Ha. subst strict.
    cbn [okp out_ok]. split; [|discriminate]. cbn [res_ok rn_info]. unfold rowA. cbn [row_cells].
    destruct (cells_of B false cs Hk) as [C1 C2]. split; [lia|exact C1]. }
  nm. { (* th / td *)
    intros Ha Hk. cbn [kid_strict allowed] in *. apply negb_true_iff in Ha. subst strict.
    cbn [okp out_ok]. split; [|discriminate]. cbn [res_ok rn_info cell_colspan].
    split; [apply td_colspan_le|]. unfold clean_cell. cbn [cell_content].
    exact (kids_wfs _ _ _ Hk eq_refl). }
  nm. { tmk IBlockQuote Tne. }
  nm. { tmk IUl Tne. }
  nm. { intros _ Hk. cbn [kid_strict] in Hk. destruct cs as [|c0 cs0] eqn:Ecs; [exact I|].
        rewrite <- Ecs in *. clear Ecs. cbn [okp out_ok]. split; [exact I|]. intros E.
        apply forallb_filter. exact (kids_wfs _ _ _ Hk E). }
  nm. { intros _ Hk. cbn [kid_strict] in Hk. destruct cs as [|c0 cs0] eqn:Ecs; [exact I|].
        rewrite <- Ecs in *. clear Ecs. cbn [okp out_ok]. split; [exact I|]. intros E.
        apply forallb_filter. exact (kids_wfs _ _ _ Hk E). }
  nm. { tmk IDt Tmk. }
  nm. { tmk IDd Tmk. }
  tmk IContainer Tne.
Qed.

(* ---- the side condition on the DOM ---- *)
Definition fan_max : N := 100000000.

Lemma fan_max_ok : fan_max * (1000 * fan_max + 1) <= usize_max.
Proof. vm_compute. discriminate. Qed.

(* dom_ok: (1) no element has more than 10^8 children (so that the colspan sums of a table row
   fit a usize); (2) the table elements are nested the way the HTML parser nests them:
   <tr> only in <thead>/<tbody>, <td>/<th> only in <tr>, <thead>/<tbody> only in <table>
   -- or anywhere below a child of <table>/<thead>/<tbody>/<tr> that the table code skips
   (<caption>, <tfoot>, ...).  strict = the node's result will be rendered. *)
Fixpoint dok (strict : bool) (n : node) {struct n} : bool :=
  match n with
  | NElem html name attrs kids =>
    (N.of_nat (length kids) <=? fan_max) &&
    (if negb html then forallb (dok strict) kids
     else if names [[105;109;103]] name then true
     else if names [[98;114]] name then true
     else if names [[108;105;110;107]; [109;101;116;97]; [104;114]; [115;99;114;105;112;116];
                    [115;116;121;108;101]; [104;101;97;100]] name then true
     else allowed strict (ekind name) && forallb (dok (kid_strict strict (ekind name))) kids)
  | _ => true
  end.

Definition dom_ok (doc : list node) : bool := forallb (dok true) doc.

Section NodeInd.
  Variable P : node -> Prop.
  Hypothesis HE : forall html name attrs kids, Forall P kids -> P (NElem html name attrs kids).
  Hypothesis HT : forall t, P (NText t).
  Hypothesis HC : P NComment.
  Hypothesis HO : P NOther.
  Fixpoint node_ind' (n : node) : P n :=
    match n with
    | NElem h nm a kids =>
      HE h nm a kids
         ((fix go (l : list node) : Forall P l :=
             match l with
             | [] => Forall_nil P
             | k :: l' => @Forall_cons _ P k l' (node_ind' k) (go l')
             end) kids)
    | NText t => HT t
    | NComment => HC
    | NOther => HO
    end.
End NodeInd.

Lemma pk_gen (proc : node -> Z -> res (option rnode)) B b : forall kids,
  Forall (fun k => forall i, okp (out_ok B b) (proc k i)) kids ->
  forall idx0,
  okp (fun cs => Forall (kid_ok B b) cs /\ (length cs <= length kids)%nat)
      ((fix pk (kids0 : list node) (idx0 : Z) {struct kids0} : res (list rnode) :=
          match kids0 with
          | [] => Ok []
          | k :: kids' =>
            do r <- proc k idx0;
            do rs <- pk kids' (if match k with NElem _ _ _ _ => true | _ => false end
                               then (idx0 + 1)%Z else idx0);
            Ok match r with Some x => x :: rs | None => rs end
          end) kids idx0).
Proof.
  induction kids as [|k kids IH]; intros H idx0.
  - cbn [okp length]. split; [constructor|apply le_n].
  - inversion H as [|? ? Hk Hkids]; subst.
    eapply okp_bind; [apply Hk|]. intros r Hr.
    eapply okp_bind; [apply (IH Hkids)|]. intros rs [A B0]. cbn [okp].
    destruct r as [x|]; cbn [length]; split; try lia; [constructor; assumption|exact A].
Qed.

Section ProcessTotal.
  Variable sd : styledata.
  Variable udc : bool.
  Variable inl : list (text * text) -> res (list styledecl).
  Hypothesis Hinl : forall attrs, okish (inl attrs).

  Lemma process_ok : forall n strict p idx,
    dok strict n = true -> okp (out_ok fan_max strict) (process sd udc inl n p idx).
  Proof.
    apply (node_ind' (fun n => forall strict p idx, dok strict n = true ->
                                 okp (out_ok fan_max strict) (process sd udc inl n p idx)));
      try (intros; exact I).
    2:{ intros t strict p idx _. cbn [process okp out_ok]. split; [exact I|reflexivity]. }
    intros html name attrs kids IH strict p idx Hd. cbn [dok] in Hd.
    apply andb_true_iff in Hd. destruct Hd as [Hfan Hd]. apply N.leb_le in Hfan.
    cbn [process].
    eapply okp_bind with (P := fun _ => True).
    { destruct udc; [apply Hinl|exact I]. }
    intros inls _.
    set (me := {| a_name := name; a_attrs := attrs; a_idx := idx |} :: p).
    set (computed := computed_style sd me inls).
    (* hidden iff the display cell is [Some true]; the other two branches share one continuation *)
    match goal with
    | |- okp ?P (match ?d with Some b => if b then _ else ?k | None => _ end) =>
      cut (okp P k); [intros Hcont; destruct d as [[|]|]; [exact I|exact Hcont|exact Hcont]|]
    end.
    (* the children, processed in the context b *)
    assert (Hpk : forall b, forallb (dok b) kids = true ->
              Forall (fun k => forall i, okp (out_ok fan_max b) (process sd udc inl k me i)) kids).
    { intros b Hb. apply Forall_forall. intros k Hk. rewrite Forall_forall in IH.
      rewrite forallb_forall in Hb. intros i. apply (IH k Hk b me i (Hb k Hk)). }
    eapply okp_bind with (P := out_ok fan_max strict).
    { destruct (negb html).
      - eapply okp_bind; [apply (pk_gen (fun k i => process sd udc inl k me i) fan_max strict kids (Hpk strict Hd))|].
        intros cs [Hcs _]. destruct cs as [|c0 cs0] eqn:Ecs; [exact I|]. rewrite <- Ecs in *.
        cbn [okp out_ok]. split; [exact I|]. intros E. exact (kids_wfs _ _ _ Hcs E).
      - destruct (names [[105;109;103]] name).
        { destruct (img_attrs attrs None None) as [[title|] [src|]]; try exact I.
          cbn [okp out_ok]. split; [exact I|reflexivity]. }
        destruct (names [[98;114]] name).
        { cbn [okp out_ok]. split; [exact I|reflexivity]. }
        destruct (names [[108;105;110;107]; [109;101;116;97]; [104;114]; [115;99;114;105;112;116];
                         [115;116;121;108;101]; [104;101;97;100]] name); [exact I|].
        apply andb_true_iff in Hd. destruct Hd as [Ha Hk].
        eapply okp_bind;
          [apply (pk_gen (fun k i => process sd udc inl k me i) fan_max _ kids (Hpk _ Hk))|].
        intros cs [Hcs Hlen]. apply build_element_ok; [exact fan_max_ok|lia|exact Ha|exact Hcs]. }
    intros base Hbase.
    assert (Hw : out_ok fan_max strict
                   match base with Some nd => Some (wrap_pseudo computed nd) | None => None end).
    { destruct base as [nd|]; [|exact I]. cbn [out_ok] in *. apply wrap_pseudo_ok, Hbase. }
    destruct (fragment_of name (html && names [[97]] name) attrs) as [frag|]; [|exact Hw].
    destruct base as [nd|]; cbn [okp out_ok] in *.
    - apply insert_child_ok; [reflexivity|exact Hw].
    - split; [exact I|reflexivity].
  Qed.

  Lemma process_kids_ok b : forall kids p idx,
    forallb (dok b) kids = true ->
    okp (fun cs => Forall (kid_ok fan_max b) cs) (process_kids sd udc inl kids p idx).
  Proof.
    induction kids as [|k kids IH]; intros p idx H; cbn [process_kids].
    - constructor.
    - cbn [forallb] in H. apply andb_true_iff in H. destruct H as [H1 H2].
      eapply okp_bind; [apply (process_ok k b p idx H1)|]. intros r Hr.
      eapply okp_bind; [apply (IH p _ H2)|]. intros rs Hrs. cbn [okp].
      destruct r as [x|]; [constructor; assumption|exact Hrs].
  Qed.

  Lemma dom_to_render_tree_ok doc :
    dom_ok doc = true -> okp (fun t => wfs t = true) (dom_to_render_tree sd udc inl doc).
  Proof.
    intros H. unfold dom_to_render_tree.
    eapply okp_bind; [apply (process_kids_ok true doc [] 1%Z H)|]. intros cs Hcs. cbn [okp].
    change (forallb wfs cs = true). exact (kids_wfs _ _ _ Hcs eq_refl).
  Qed.
End ProcessTotal.

(* ================================================================== *)
(* 12. From the structural condition and the estimate bound to [wf]     *)
(* ================================================================== *)

Section Smalls.
  Variable d : deco.
  Variable mw : N.

  (* the estimate part of [wf]: every block that opens a prefixed sub-renderer has an
     estimated minimum width below usize::MAX *)
  Fixpoint smalls (n : rnode) {struct n} : bool :=
    match rn_info n with
    | IText _ | IImg _ _ | IBreak | IFragStart _ => true
    | IContainer cs | ILink _ cs | IEm cs | IStrong cs | IStrikeout cs | ICode cs | IBlock cs
    | IListItem cs | IDiv cs | IDl cs | IDt cs | ISup cs => forallb smalls cs
    | IHeader _ cs | IBlockQuote cs | IUl cs | IOl _ cs | IDd cs =>
      small d mw n && forallb smalls cs
    | ITable rows _ =>
      forallb (fun r => match r with
                        | RRow cells _ =>
                          forallb (fun c => match c with
                                            | RCell _ content _ => forallb smalls content
                                            end) cells
                        end) rows
    | ITableBody _ | ITableRow _ | ITableCell _ => true
    end.

  Definition both (n : rnode) : Prop := wfs n = true -> smalls n = true -> wf d mw n = true.

  Lemma forallb_both cs :
    Forall both cs -> forallb wfs cs = true -> forallb smalls cs = true ->
    forallb (wf d mw) cs = true.
  Proof.
    intros HF H1 H2. apply forallb_forall. intros c Hc. rewrite Forall_forall in HF.
    rewrite forallb_forall in H1, H2. apply (HF c Hc); auto.
  Qed.

  Lemma wf_of_wfs : forall n, both n.
  Proof.
    apply rnode_ind'. intros i sty IH H1 H2.
    destruct i; cbn [direct_kids] in IH; cbn [wfs rn_info] in H1; cbn [smalls rn_info] in H2;
      cbn [wf rn_info]; try discriminate; try reflexivity;
      try (apply forallb_both; assumption);
      try (apply andb_true_iff in H2; destruct H2 as [H2a H2b]; rewrite H2a; cbn [andb];
           apply forallb_both; assumption).
    (* ITable *)
    apply forallb_forall. intros r Hr. rewrite forallb_forall in H1, H2.
    specialize (H1 r Hr). specialize (H2 r Hr).
    apply Forall_flat_map in IH. rewrite Forall_forall in IH. specialize (IH r Hr).
    destruct r as [cells rsty]. unfold row_kids in IH. cbn [row_cells] in IH.
    apply Forall_flat_map in IH.
    apply andb_true_iff in H1. destruct H1 as [H1a H1b]. rewrite H1a. cbn [andb].
    apply forallb_forall. intros c Hc. rewrite forallb_forall in H1b, H2.
    specialize (H1b c Hc). specialize (H2 c Hc). rewrite Forall_forall in IH. specialize (IH c Hc).
    destruct c as [k content csty]. cbn [cell_content] in IH.
    apply andb_true_iff in H1b. destruct H1b as [A B]. rewrite A. cbn [andb].
    apply forallb_both; assumption.
  Qed.
End Smalls.

(* ================================================================== *)
(* 13. The public routes (Api.v), from the document                     *)
(* ================================================================== *)

Section Routes.
  (* the CSS front end, as in Api.v / RenderWidth.v; its totality is proved in CssTotal.v
     (c17_inline_total, c17_doc_rules_total) and assumed here in the form needed *)
  Variable inline_styles : list (text * text) -> res (list styledecl).
  Variable doc_rules : list node -> res (list ruleset).
  Hypothesis Hinl : forall attrs, okish (inline_styles attrs).
  Hypothesis Hrules : forall doc, okish (doc_rules doc).

  (* The DOM layer never panics on a DOM that is nested like parser output, and the tree it
     builds is structurally well-formed. *)
  Theorem c01_to_render_tree_total : forall (c : config) (doc : list node),
    dom_ok doc = true ->
    okp (fun tree => wfs tree = true) (to_render_tree inline_styles doc_rules c doc).
  Proof.
    intros c doc Hd. unfold to_render_tree.
    eapply okp_bind with (P := fun _ => True).
    { unfold effective_sd. destruct (c_use_doc_css c); [|exact I].
      eapply okp_bind; [apply Hrules|]. intros; exact I. }
    intros sd _. apply dom_to_render_tree_ok; assumption.
  Qed.

  (* the estimate bound, computed on the tree the DOM layer builds (decidable: everything
     here is a computable function of the configuration and the document) *)
  Definition est_side (c : config) (doc : list node) : bool :=
    match to_render_tree inline_styles doc_rules c doc with
    | Ok tree => smalls (c_deco c) (c_min_wrap c) tree
    | _ => true
    end.

  Theorem c01_routes_total : forall (c : config) (doc : list node) (w : N),
    w < usize_max ->
    dom_ok doc = true ->
    est_side c doc = true ->
    okish (lines_from_read inline_styles doc_rules c doc w) /\
    okish (string_from_read inline_styles doc_rules c doc w).
  Proof.
    intros c doc w Hw Hd He.
    pose proof (c01_to_render_tree_total c doc Hd) as Ht. unfold est_side in He.
    destruct (to_render_tree inline_styles doc_rules c doc) as [tree| | |] eqn:E;
      cbn [okp] in Ht; try contradiction.
    - apply (c01_routes_given_tree inline_styles doc_rules c doc w tree Hw E).
      apply wf_of_wfs; assumption.
    - unfold lines_from_read, string_from_read. rewrite E. split; exact I.
  Qed.
End Routes.
Print Assumptions c01_to_render_tree_total.
Print Assumptions c01_routes_total.

(* ================================================================== *)
(* 14. The routes with the model's CSS front end; examples              *)
(* ================================================================== *)
From H2T Require CssParse Proofs.CssTotal.

Lemma css_inline_okish : forall attrs, okish (CssParse.inline_styles attrs).
Proof. intros attrs. destruct (CssTotal.c17_inline_total attrs) as [l ->]. exact I. Qed.
Lemma css_rules_okish : forall doc, okish (CssParse.doc_rules doc).
Proof. intros doc. destruct (CssTotal.c17_doc_rules_total doc) as [l ->]. exact I. Qed.

(* C01 for the public routes of the model: every configuration, every document nested like
   parser output, every width below usize::MAX (0 included: TooNarrow). *)
Theorem c01_routes_total_css : forall (c : config) (doc : list node) (w : N),
  w < usize_max ->
  dom_ok doc = true ->
  est_side CssParse.inline_styles CssParse.doc_rules c doc = true ->
  okish (lines_from_read CssParse.inline_styles CssParse.doc_rules c doc w) /\
  okish (string_from_read CssParse.inline_styles CssParse.doc_rules c doc w).
Proof.
  intros c doc w. apply c01_routes_total; [exact css_inline_okish|exact css_rules_okish].
Qed.
Print Assumptions c01_routes_total_css.

Theorem c01_to_render_tree_total_css : forall (c : config) (doc : list node),
  dom_ok doc = true ->
  okp (fun tree => wfs tree = true)
      (to_render_tree CssParse.inline_styles CssParse.doc_rules c doc).
Proof.
  intros c doc. apply c01_to_render_tree_total; [exact css_inline_okish|exact css_rules_okish].
Qed.
Print Assumptions c01_to_render_tree_total_css.

(* ---- a document: <html><body><p>hi there</p>
        <table><tbody><tr><td colspan=2>ab</td><td>c</td></tr><tr><td>d</td><td>e</td><td>f</td></tr>
        </tbody><tfoot><tr><td>g</td></tr></tfoot></table><ol start=9><li>x</li><li>y</li></ol></body></html> *)
Definition el (name : list N) (attrs : list (text * text)) (kids : list node) : node :=
  NElem true (of_ascii name) attrs kids.
Definition tx (l : list N) : node := NText (ex_str l).
Definition td_ (l : list N) : node := el [116;100] [] [tx l].
Definition ex_doc : list node :=
  [el [104;116;109;108] []
    [el [98;111;100;121] []
      [el [112] [] [tx [104;105;32;116;104;101;114;101]];
       el [116;97;98;108;101] []
         [el [116;98;111;100;121] []
            [el [116;114] [] [el [116;100] [(of_ascii s_colspan, of_ascii [50])] [tx [97;98]]; td_ [99]];
             el [116;114] [] [td_ [100]; td_ [101]; td_ [102]]];
          el [116;102;111;111;116] [] [el [116;114] [] [td_ [103]]]];
       el [111;108] [(of_ascii s_start, of_ascii [57])]
         [el [108;105] [] [tx [120]]; el [108;105] [] [tx [121]]]]]].

Example ex_doc_ok : dom_ok ex_doc = true.
Proof. vm_compute. reflexivity. Qed.
Example ex_doc_est :
  est_side CssParse.inline_styles CssParse.doc_rules cfg_plain ex_doc = true.
Proof. vm_compute. reflexivity. Qed.
Example ex_doc_total_applies :
  okish (lines_from_read CssParse.inline_styles CssParse.doc_rules cfg_plain ex_doc 20) /\
  okish (string_from_read CssParse.inline_styles CssParse.doc_rules cfg_plain ex_doc 20).
Proof.
  apply c01_routes_total_css; [vm_compute; reflexivity|exact ex_doc_ok|exact ex_doc_est].
Qed.
(* the outcomes that occur: Ok at width 20, TooNarrow at widths 2 and 0 *)
Example ex_doc_20 :
  match string_from_read CssParse.inline_styles CssParse.doc_rules cfg_plain ex_doc 20 with
  | Ok t => (0 <? tlen t) = true | _ => False end.
Proof. vm_compute. reflexivity. Qed.
Example ex_doc_2 :
  string_from_read CssParse.inline_styles CssParse.doc_rules cfg_plain ex_doc 2 = TooNarrow.
Proof. vm_compute. reflexivity. Qed.
Example ex_doc_0 :
  string_from_read CssParse.inline_styles CssParse.doc_rules cfg_plain ex_doc 0 = TooNarrow.
Proof. vm_compute. reflexivity. Qed.

(* the nesting condition is needed: a table cell outside a row is `unreachable!` in
   do_render_node (the HTML parser never builds such a DOM) *)
Definition cex_doc : list node := [el [100;105;118] [] [td_ [120]]].
Example cex_doc_not_ok : dom_ok cex_doc = false.
Proof. vm_compute. reflexivity. Qed.
Example cex_doc_panics :
  string_from_read CssParse.inline_styles CssParse.doc_rules cfg_plain cex_doc 20 = Panic 60.
Proof. vm_compute. reflexivity. Qed.

(* condition (c) of tree_wf is needed in the model (whose characters may have any width):
   with allow_width_overflow a block quote around a table whose only character is 2^64
   columns wide gets a sub-renderer of width 2^64, and `col_width + colspan` overflows *)
Definition big : N := 18446744073709551616.
Definition cex_bigchr : chr := mkchr 120 (Some big) false 16.
Definition cex_big_tree : rnode :=
  ex_n (IBlockQuote [ex_n (ITable [RRow [RCell 1 [ex_n (IText [cex_bigchr])] cstyle0] cstyle0] 1)]).
Definition cex_opts : ropts := mkopts None true false false false true false true.
Example cex_big_not_wf : tree_wf plain_deco big cex_big_tree = false.
Proof. lazy. reflexivity. Qed.
Example cex_big_panics : render_tree plain_deco big cex_opts 10 cex_big_tree = Panic 30.
Proof. lazy. reflexivity. Qed.

(* non-vacuity of c01_to_render_tree_total: the DOM layer builds a structurally well-formed
   tree for ex_doc (table with colspan, a dropped tfoot, ordered list) *)
Example ex_doc_tree_wfs :
  match to_render_tree CssParse.inline_styles CssParse.doc_rules cfg_plain ex_doc with
  | Ok tree => wfs tree = true /\ tree_wf plain_deco 3 tree = true
  | _ => False
  end.
Proof. vm_compute. split; reflexivity. Qed.
