(* Proofs/RenderWidth.v -- property C02 at the level of the whole renderer model:
   whenever rendering returns Ok, no line is wider than the requested width.
   Partial correctness (only the Ok outcome is considered).  No axioms.

   MAIN THEOREMS (sections 13/14)

     c02_render_width_bound :
       forall d min_wrap o width tree s,
         ol_prefix_monotone d -> ol_prefix_sat d ->          (H1)
         o_allow_overflow o = false ->                        (H2)
         (o_footnotes o = true -> o_wrap_links o = true) ->   (H3)
         1 <= width ->                                        (H4)
         c02_side o width tree = true ->                      (H5, decidable)
         render_tree d min_wrap o width tree = Ok s ->
         forall ls, sub_into_lines s = Ok ls -> forall r, In r ls -> rline_width r <= width.

     c02_render_width_bound_gen : the same with the link-target characters checked against
       any bound Wl <= width;  c02_render_width_bound_w2 : Wl = 2 and 2 <= width;
       c02_render_width_bound_nofoot : footnotes off (no link-target condition at all).

     c02_lines_from_read : through Api.lines_from_read (tl_width_raw of every returned
       tagged line <= w), with the side condition c02_doc_side computed on the document.

     ol_prefix_monotone_plain/_rich/_trivial, ol_prefix_sat_plain/_rich/_trivial :
       (H1) holds for the built-in decorators.

   THE HYPOTHESES, and why each is there

   (H1) the only properties of the decorator that are needed, both about d_ol_prefix:
        ol_prefix_monotone d: the prefix of a number between a and b is no wider than the
        wider of the prefixes of a and b;  ol_prefix_sat d: the prefix of i64_max is no
        wider than the prefix of i64_max - 1.  render_node only measures the prefixes of
        the first number and of  isat64 (isat64 (start + n) - 1); the item numbers are
        start, isat64 (start+1), ... which saturate at i64_max while the measured last
        number is then i64_max - 1.  A decorator violating them really overflows.
   (H2) overflow is not allowed (otherwise lines may of course be wider).
   (H3) footnotes are only wrapped when o_wrap_links is set; without it a footnote line is
        as wide as the link target (an option, not a defect: cex3 in section 15).
   (H4) width 0 is rejected by the public routes anyway; fmt_links needs room for the
        1-column characters of "[n]: ".
   (H5) c02_side o Wl tree = tree_ok (o_footnotes o) Wl tree, a boolean function of the
        render tree (section 12) made of two checks:
        (b) every ordered list has i64_min <= start.  Trees built from a DOM always
            satisfy it (Dom.parse_i64 checks i64_ok); for start < i64_min the numbering
            jumps to i64_min and then runs past the measured last number.
        (c) when footnotes are on: every character of every link target is at most
            Wl (= width) columns wide.  `fmt_links` puts a character that is wider than
            the line on a line of its own (known defect, cex4).
        The former prefix-fit condition is gone: `width_minus` now answers TooNarrow when
        the prefix is wider than the renderer, sub-renderers of width 0 are legitimate,
        and the WrappedBlock layer is proved for every width including 0 (section 2).

   STRUCTURE
     1    widths of made strings
     2    WrappedBlock layer for ANY width, partial correctness: invariant InvP = WrapInv.Inv
          without `1 <= wwidth`; width >= 1 reuses WrapInv, width 0 has a direct argument
          (every line a width-0 block emits has width 0)
     3-8  sub-renderer layer: invariant sub_ok, preserved by every SubRenderer operation,
          append_subrender, append_columns_with_borders, append_vert_row, fmt_links
     9    decorator prefixes, decimal printing
     10   induction principle for the mutual/nested render tree
     11   table arithmetic (shrink_loop, cell_widths)
     12   render layer: node_ok_all (every render_node call preserves the stack invariant
          and the widths of the sub-renderers on the stack)
     13   render_tree;  14  Api;  15  non-vacuity example, regression examples for the
          former counterexamples, remaining counterexamples. *)
From H2T Require Import Base Tagged Wrap Sub Css Dom Render Api.
From H2T Require Import Proofs.WrapInv.
From Coq Require Import Lia ZifyN ZifyBool ZifyNat.

Local Arguments N.add : simpl never.
Local Arguments N.sub : simpl never.
Local Arguments N.mul : simpl never.
Local Arguments N.div : simpl never.
Local Arguments N.modulo : simpl never.
Local Arguments N.leb : simpl never.
Local Arguments N.ltb : simpl never.
Local Arguments N.eqb : simpl never.
Local Arguments N.min : simpl never.
Local Arguments N.max : simpl never.
Local Arguments N.to_nat : simpl never.
Local Arguments N.of_nat : simpl never.
Local Open Scope N_scope.

(* ================================================================== *)
(* 0. Generic helpers                                                   *)
(* ================================================================== *)

Lemma bind_ok {A B} (e : res A) (k : A -> res B) r :
  bind e k = Ok r -> exists x, e = Ok x /\ k x = Ok r.
Proof. destruct e; cbn; intros H; try discriminate. eauto. Qed.

(* [bind_inv H x Hx]: H : (do x <- e; k) = Ok r  becomes  Hx : e = Ok x, H : k x = Ok r *)
Ltac bind_inv H x Hx := apply bind_ok in H; destruct H as (x & Hx & H).
Ltac ok_inv H := injection H as H; try subst.

Lemma fold_bind_err {A B} (f : B -> A -> res A) (l : list B) (e : res A) :
  (forall a, e <> Ok a) ->
  forall r, fold_left (fun acc b => do s <- acc; f b s) l e <> Ok r.
Proof.
  revert e. induction l as [|b l IH]; intros e He r; cbn [fold_left].
  - apply He.
  - apply IH. intros a. destruct e; cbn; try discriminate. exfalso. eapply He. reflexivity.
Qed.

(* invariant of a monadic fold *)
Lemma fold_bind_inv {A B} (I : A -> Prop) (f : B -> A -> res A) (l : list B) :
  (forall b, In b l -> forall a a', I a -> f b a = Ok a' -> I a') ->
  forall a a', I a -> fold_left (fun acc b => do s <- acc; f b s) l (Ok a) = Ok a' -> I a'.
Proof.
  induction l as [|b l IH]; intros Hstep a a' Ha H; cbn [fold_left] in H.
  - ok_inv H. exact Ha.
  - cbn [bind] in H. destruct (f b a) as [a1| | |] eqn:E.
    + apply (IH (fun b' Hb' => Hstep b' (or_intror Hb')) a1 a'); [|exact H].
      apply (Hstep b (or_introl eq_refl) a a1 Ha E).
    + exfalso. revert H. apply fold_bind_err. discriminate.
    + exfalso. revert H. apply fold_bind_err. discriminate.
    + exfalso. revert H. apply fold_bind_err. discriminate.
Qed.

Lemma olast_In {A} (l : list A) x : olast l = Some x -> In x l.
Proof.
  unfold olast. intros H. apply in_rev. destruct (rev l); [discriminate|].
  injection H as <-. left. reflexivity.
Qed.

Lemma In_removelast {A} (l : list A) x : In x (removelast l) -> In x l.
Proof.
  induction l as [|a l IH]; cbn [removelast]; [auto|].
  destruct l as [|b l]; [intros []|]. intros [<-|H]; [left; reflexivity|right; auto].
Qed.

Lemma nth_opt_In {A} (l : list A) n x : nth_opt l n = Some x -> In x l.
Proof.
  revert n. induction l as [|a l IH]; intros n H; cbn [nth_opt] in H; [discriminate|].
  destruct n; [injection H as <-; left; reflexivity|right; eauto].
Qed.

(* ================================================================== *)
(* 1. Widths of made strings                                            *)
(* ================================================================== *)

Definition rline_width (r : rline) : N :=
  match r with RText l => tl_width_raw l | RLine b _ => N.of_nat (length b) end.

Lemma swidth_repeat_w1 c n : cw0 c = 1 -> swidth (repeat_chr c n) = N.of_nat n.
Proof.
  intros Hc. induction n as [|n IH]; cbn [repeat_chr].
  - reflexivity.
  - rewrite swidth_cons, IH, Hc. lia.
Qed.

Lemma swidth_map_w1 {A} (f : A -> chr) (l : list A) :
  (forall a, cw0 (f a) = 1) -> swidth (map f l) = N.of_nat (length l).
Proof.
  intros Hf. induction l as [|a l IH]; cbn [map length].
  - reflexivity.
  - rewrite swidth_cons, IH, Hf. lia.
Qed.

Lemma swidth_border_string b : swidth (border_string b) = N.of_nat (length b).
Proof. unfold border_string. apply swidth_map_w1. intros []; reflexivity. Qed.

Lemma swidth_vlines b : swidth (to_vertical_lines_above b) = N.of_nat (length b).
Proof. unfold to_vertical_lines_above. apply swidth_map_w1. intros []; reflexivity. Qed.

Lemma frags_vw (l : list elem) : (forall e, In e l -> exists n, e = Frag n) -> vw l = 0.
Proof.
  induction l as [|e l IH]; intros H; [reflexivity|].
  rewrite vw_cons, IH by (intros e' He'; apply H; right; exact He').
  destruct (H e (or_introl eq_refl)) as [n ->]. reflexivity.
Qed.

Lemma raw_new : tl_width_raw tl_new = 0.
Proof. reflexivity. Qed.

Lemma raw_insert_front l s t : tl_width_raw (tl_insert_front l s t) = swidth s + tl_width_raw l.
Proof.
  unfold tl_insert_front. rewrite !raw_eq.
  destruct (tv l) as [|[s1 t1|n] v'].
  - cbn [tv]. rewrite vw_cons. reflexivity.
  - destruct (tag_eqb t1 t); cbn [tv]; rewrite !vw_cons; cbn [elem_text]; rewrite ?swidth_app; lia.
  - cbn [tv]. rewrite vw_cons. reflexivity.
Qed.

Lemma tl_pad_to_ok l W t l' :
  tl_pad_to l W t = Ok l' -> tl_width_raw l' = N.max (tl_width_raw l) W.
Proof.
  unfold tl_pad_to, tl_width. intros H.
  destruct (tlen_ l =? tl_width_raw l); cbn [bind] in H; [|discriminate].
  destruct (N.ltb_spec (tl_width_raw l) W); ok_inv H.
  - rewrite raw_push_wsl. lia.
  - lia.
Qed.

(* ================================================================== *)
(* 2. WrappedBlock layer, any width (partial correctness)               *)
(* ================================================================== *)

(* WrapInv.Inv without the conjunct 1 <= wwidth *)
Definition InvP (b : wblock) : Prop :=
  line_ok (wwidth b) (wline b) /\
  (forall l, In l (wtext b) ->
     tlen_ l = tl_width_raw l /\
     (allow_overflow b = false -> tl_width_raw l <= wwidth b)) /\
  wordlen b = word_width (wword b) /\
  (0 < wslen b -> spacetag b <> None) /\
  elems_have_width (wword b).

Lemma Inv_InvP b : Inv b <-> 1 <= wwidth b /\ InvP b.
Proof. unfold Inv, InvP. tauto. Qed.

(* ---- width 0, overflow not allowed: the direct argument ---- *)

(* the part about the lines *)
Definition Z0 (b : wblock) : Prop :=
  wwidth b = 0 /\ allow_overflow b = false /\
  tlen_ (wline b) = 0 /\ tl_width_raw (wline b) = 0 /\
  (forall l, In l (wtext b) -> tlen_ l = tl_width_raw l /\ tl_width_raw l = 0) /\
  (0 < wslen b -> spacetag b <> None).

Definition ZI (b : wblock) : Prop :=
  Z0 b /\ wordlen b = vw (wword b) /\ elems_have_width (wword b).

Lemma ZI_InvP b : wwidth b = 0 -> allow_overflow b = false -> (InvP b <-> ZI b).
Proof.
  intros Hw Ho. unfold InvP, ZI, Z0, line_ok, word_width. rewrite Hw, Ho. split.
  - intros ((A1 & A2) & B & C & D & E). repeat split; auto; try lia.
    + apply B; assumption.
    + destruct (B l H) as [_ X]. specialize (X eq_refl). lia.
  - intros ((_ & _ & A1 & A2 & B & D) & C & E). repeat split; auto; try lia.
    + apply B; assumption.
    + intros _. destruct (B l H) as [_ X]. lia.
Qed.

(* b' differs from b only in its finished lines and current line *)
Definition lc (b b' : wblock) : Prop := exists tx ln, b' = set_text_line b tx ln.

Lemma lc_refl b : lc b b.
Proof. exists (wtext b), (wline b). symmetry. apply set_text_line_id. Qed.
Lemma lc_trans a b c : lc a b -> lc b c -> lc a c.
Proof. intros (t1 & l1 & ->) (t2 & l2 & ->). exists t2, l2. reflexivity. Qed.
Lemma lc_set_line b ln : lc b (set_line b ln).
Proof. exists (wtext b), ln. reflexivity. Qed.

Lemma Z0_stl b tx ln :
  Z0 b -> tlen_ ln = 0 -> tl_width_raw ln = 0 ->
  (forall l, In l tx -> tlen_ l = tl_width_raw l /\ tl_width_raw l = 0) ->
  Z0 (set_text_line b tx ln).
Proof. unfold Z0. prj. tauto. Qed.

Lemma Z0_set_line b ln : Z0 b -> tlen_ ln = 0 -> tl_width_raw ln = 0 -> Z0 (set_line b ln).
Proof. unfold Z0. prj. tauto. Qed.
Lemma Z0_set_word b w n : Z0 b -> Z0 (set_word b w n).
Proof. unfold Z0. prj. tauto. Qed.
Lemma Z0_set_prew b p : Z0 b -> Z0 (set_prew b p).
Proof. unfold Z0. prj. tauto. Qed.
Lemma Z0_set_space b st n : Z0 b -> (0 < n -> st <> None) -> Z0 (set_space b st n).
Proof. unfold Z0. prj. tauto. Qed.

Lemma Z0_push_str b s t :
  Z0 b -> swidth s = 0 -> Z0 (set_line b (tl_push (wline b) (Str s t))).
Proof.
  intros HZ Hs. pose proof HZ as (HW & Ho & Hl & Hr & Htx & Hst).
  apply Z0_set_line; [exact HZ| |]; rewrite ?tlen_push, ?raw_push; cbn [elem_text]; lia.
Qed.

Lemma ffl_z b b' : Z0 b -> force_flush_line b = Ok b' -> Z0 b' /\ lc b b'.
Proof.
  intros HZ H. pose proof HZ as (Hw & Ho & Hl & Hr & Htx & Hst).
  destruct (ffl_spec b) as (l' & E & H1 & H2); [congruence|].
  rewrite E in H. injection H as <-. split; [|eexists; eexists; reflexivity].
  apply Z0_stl; auto. intros l Hin. apply in_app_or in Hin. destruct Hin as [Hin|[<-|[]]]; auto.
  split; [exact H1|]. specialize (H2 ltac:(lia)). lia.
Qed.

Lemma flush_line_z b b' : Z0 b -> flush_line b = Ok b' -> Z0 b' /\ lc b b'.
Proof.
  intros HZ H. unfold flush_line in H. destruct (tl_is_empty (wline b)).
  - injection H as <-. split; [exact HZ|apply lc_refl].
  - apply ffl_z; assumption.
Qed.

Lemma hw_piece_z t w : forall fuel b rest consumed wpos r,
  Z0 b -> has_width rest -> wpos + swidth rest = w ->
  hw_piece fuel b t w rest consumed 0 wpos = Ok r ->
  Z0 (fst r) /\ lc b (fst r) /\ snd r = 0.
Proof.
  induction fuel as [|f IH]; intros b rest consumed wpos r HZ Hw Hsum H; cbn [hw_piece] in H;
    [discriminate|].
  pose proof HZ as (HW & Ho & Hl & Hr & Htx & Hst).
  bind_inv H rem Hrem. unfold usub in Hrem. destruct (wpos <=? w); [|discriminate].
  injection Hrem as <-.
  destruct (N.ltb_spec 0 (w - wpos)) as [Hlt|Hge].
  - bind_inv H r0 Hscan. rewrite Ho in Hscan.
    pose proof (hw_scan_spec false (wline b) ltac:(congruence) rest true [] 0 wpos Hw
                  (fun _ => eq_refl) ltac:(discriminate) ltac:(lia)) as G.
    rewrite Hscan in G. cbn [good] in G. destruct r0 as [[taken ll0] wpos'].
    destruct G as (pre & rest' & E1 & E2 & E3 & E4). cbn [rev app] in E2. subst taken.
    assert (Hpre : swidth pre = 0).
    { destruct E4 as [[X _]|(_ & X & _)]; [lia|discriminate]. }
    bind_inv H b2 Hffl.
    apply ffl_z in Hffl.
    2:{ apply Z0_push_str; assumption. }
    destruct Hffl as [HZ2 Hlc2]. pose proof HZ2 as (HW2 & _). rewrite HW2 in H.
    subst rest. rewrite skipn_length_app in H.
    apply has_width_app in Hw. destruct Hw as [_ Hw']. rewrite swidth_app in Hsum.
    destruct (IH b2 rest' _ wpos' _ HZ2 Hw' ltac:(lia) H) as (A & B & C).
    split; [exact A|]. split; [|exact C].
    eapply lc_trans; [|exact B]. eapply lc_trans; [apply lc_set_line|exact Hlc2].
  - assert (Hz : swidth rest = w - wpos) by lia.
    destruct consumed; cbn [negb] in H.
    + destruct rest as [|c rest].
      * injection H as <-. cbn [fst snd]. split; [exact HZ|]. split; [apply lc_refl|reflexivity].
      * bind_inv H ll Hll. unfold usub in Hll. destruct (w - wpos <=? 0); [|discriminate].
        injection Hll as <-. injection H as <-. cbn [fst snd].
        split; [|split; [apply lc_set_line|lia]].
        exact (Z0_push_str b (c :: rest) t HZ ltac:(lia)).
    + bind_inv H ll Hll. unfold usub in Hll. destruct (N.leb_spec w 0); [|discriminate].
      injection Hll as <-. injection H as <-. cbn [fst snd].
      split; [|split; [apply lc_set_line|lia]].
      exact (Z0_push_str b rest t HZ ltac:(lia)).
Qed.

Lemma hw_elems_z : forall els b r,
  Z0 b -> elems_have_width els -> hw_elems b els 0 = Ok r -> Z0 r /\ lc b r.
Proof.
  induction els as [|e els IH]; intros b r HZ Hw H; cbn [hw_elems] in H.
  - injection H as <-. split; [exact HZ|apply lc_refl].
  - inversion Hw as [|? ? He Hels]; subst. pose proof HZ as (HW & Ho & Hl & Hr & Htx & Hst).
    destruct e as [s t|n].
    + bind_inv H r0 Hp. destruct r0 as [b1 ll].
      destruct (hw_piece_z t (swidth s) _ b s false 0 _ HZ He ltac:(lia) Hp) as (A & B & C).
      cbn [fst snd] in *. subst ll. destruct (IH _ _ A Hels H) as [D E].
      split; [exact D|eapply lc_trans; eassumption].
    + destruct (IH _ _ (Z0_set_line b (tl_push (wline b) (Frag n)) HZ
                         ltac:(rewrite tlen_push; cbn [elem_text]; rewrite swidth_nil; lia)
                         ltac:(rewrite raw_push; cbn [elem_text]; rewrite swidth_nil; lia))
                  Hels H) as [D E].
      split; [exact D|]. eapply lc_trans; [apply lc_set_line|exact E].
Qed.

Lemma fwhw_z b b' :
  Z0 b -> elems_have_width (wword b) -> flush_word_hard_wrap b = Ok b' ->
  Z0 b' /\ exists tx ln, b' = set_word (set_text_line b tx ln) [] (wordlen b).
Proof.
  intros HZ Hw H. pose proof HZ as (HW & Ho & Hl & Hr & Htx & Hst).
  unfold flush_word_hard_wrap in H. bind_inv H ll Hll. unfold usub in Hll.
  rewrite HW, Hl in Hll. destruct (0 <=? 0); [|discriminate]. injection Hll as <-.
  change (0 - 0) with 0 in H.
  destruct (hw_elems_z _ _ _ (Z0_set_word b [] (wordlen b) HZ) Hw H) as [A (tx & ln & ->)].
  split; [exact A|]. exists tx, ln. reflexivity.
Qed.

Lemma ws_loop_z fuel b b' :
  Z0 b -> ws_loop fuel b = Ok b' -> b' = set_space b (spacetag b) 0.
Proof.
  intros (HW & _) H. destruct fuel as [|f]; cbn [ws_loop] in H.
  - destruct (N.eqb_spec (wslen b) 0) as [E|]; [|discriminate]. injection H as <-.
    destruct b; prj; subst; reflexivity.
  - destruct (N.eqb_spec (wslen b) 0) as [E|].
    + injection H as <-. destruct b; prj; subst; reflexivity.
    + rewrite HW in H. change (0 =? 0) with true in H. cbn iota in H. injection H as <-. reflexivity.
Qed.

Ltac zfin :=
  unfold ZI, Z0 in *; prj;
  intuition (try lia; try congruence; try discriminate).

Lemma flush_word_z b m b' : ZI b -> flush_word b m = Ok b' -> ZI b'.
Proof.
  intros HI H. pose proof HI as (HZ & Hwl & Hehw).
  pose proof HZ as (HW & Ho & Hl & Hr & Htx & Hst).
  unfold flush_word in H. destruct (word_is_empty (wword b)) eqn:Ewe.
  - injection H as <-. pose proof (word_is_empty_vw _ Ewe). zfin.
  - cbv zeta in H. prj. bind_inv H sil Hsil. unfold usub in Hsil. rewrite HW, Hl in Hsil.
    destruct (0 <=? 0); [|discriminate]. injection Hsil as <-. change (0 - 0) with 0 in H.
    destruct (N.leb_spec (wslen b + wordlen b) 0) as [Hfit|Hnofit].
    + bind_inv H b1 H1. destruct (N.ltb_spec 0 (wslen b)); [lia|]. injection H1 as <-.
      injection H as <-. prj.
      assert (vw (wword b) = 0) by lia.
      split; [|split; [reflexivity|constructor]].
      apply Z0_set_word, Z0_set_line; [exact HZ| |]; prj;
        rewrite ?tlen_fold_push, ?raw_fold_push; lia.
    + bind_inv H b1 H1.
      assert (A : Z0 b1 /\ wword b1 = wword b /\ wordlen b1 = wordlen b).
      { destruct (do_wrap m); cbn [negb] in H1.
        - injection H1 as <-. prj. split; [|auto].
          apply Z0_set_space; [exact HZ|lia].
        - destruct (N.leb_spec 0 (wslen b)); [|lia]. injection H1 as <-. prj. split; [|auto].
          apply Z0_set_space; [exact HZ|]. intros X. apply Hst. lia. }
      destruct A as (Z1 & W1 & L1).
      bind_inv H b2 H2. destruct (flush_line_z _ _ Z1 H2) as [Z2 (tx2 & ln2 & ->)].
      bind_inv H b4 H4.
      match type of H4 with ws_loop _ ?b3 = _ =>
        assert (Z3 : Z0 b3) by (destruct (is_pre m); [apply Z0_set_prew|]; exact Z2);
        apply (ws_loop_z _ _ _ Z3) in H4
      end.
      bind_inv H b6 H6.
      match type of H6 with flush_word_hard_wrap ?b5 = _ =>
        assert (Z5 : Z0 b5 /\ wword b5 = wword b)
      end.
      { subst b4. destruct (is_pre m); prj; (split; [|exact W1]);
          (apply Z0_set_space; [apply Z0_set_space; [|lia]|lia]);
          [apply Z0_set_prew|]; exact Z2. }
      destruct Z5 as [Z5 W5].
      destruct (fwhw_z _ _ Z5 ltac:(rewrite W5; exact Hehw) H6) as [Z6 (tx6 & ln6 & E6)].
      injection H as <-. rewrite E6. rewrite E6 in Z6. prj.
      split; [|split; [reflexivity|constructor]].
      revert Z6. unfold Z0. prj. tauto.
Qed.

Lemma tab_loop_z t tw : forall f b pos one fl r,
  wwidth b = 0 -> tab_loop f b t tw pos one fl = Ok r -> r = (b, fl).
Proof.
  intros f b pos one fl r HW H. destruct f as [|f]; cbn [tab_loop] in H.
  - destruct (negb (pos mod 8 =? 0) || negb one); [discriminate|]. injection H as <-. reflexivity.
  - destruct (negb (pos mod 8 =? 0) || negb one).
    + rewrite HW in H. change (0 =? 0) with true in H. cbn iota in H. injection H as <-. reflexivity.
    + injection H as <-. reflexivity.
Qed.

Lemma add_char_z m t1 t2 b u c b' u' :
  ZI b -> add_char m t1 t2 (b, u) c = Ok (b', u') -> ZI b'.
Proof.
  intros HI H. unfold add_char in H. bind_inv H b1 H1.
  assert (HI1 : ZI b1).
  { destruct (ws c && (0 <? wordlen b)).
    - eapply flush_word_z; eassumption.
    - injection H1 as <-. exact HI. }
  clear H1 HI. cbv zeta in H.
  pose proof HI1 as (HZ & Hwl & Hehw). pose proof HZ as (HW & Ho & Hl & Hr & Htx & Hst).
  destruct (ws c).
  - destruct (preserve_ws m).
    + destruct (cp c =? 10).
      * bind_inv H b2 H2. destruct (ffl_z _ _ HZ H2) as [Z2 (tx & ln & ->)].
        injection H as <- _. revert Z2. unfold ZI, Z0. prj. intuition (try lia; try discriminate).
      * destruct (cp c =? 9).
        -- bind_inv H r2 H2. apply tab_loop_z in H2; [|exact HW]. subst r2.
           cbn [fst snd] in H. rewrite Bool.andb_false_r in H.
           injection H as <- _. exact HI1.
        -- destruct (cw c) as [cwidth|].
           ++ destruct (wwidth b1 <? tlen_ (wline b1) + wslen b1 + cwidth).
              ** bind_inv H b2 H2.
                 destruct (flush_line_z _ _ (Z0_set_space b1 (spacetag b1) 0 HZ ltac:(lia)) H2)
                   as [Z2 (tx & ln & ->)].
                 destruct (do_wrap m); injection H as <- _; revert Z2; unfold ZI, Z0; prj;
                   intuition (try lia; try discriminate).
              ** injection H as <- _. zfin.
           ++ injection H as <- _. exact HI1.
    + destruct ((0 <? tlen_ (wline b1)) && (wslen b1 =? 0)); injection H as <- _;
        [zfin|exact HI1].
  - destruct (cw c) as [cwidth|] eqn:Ecw.
    + assert (Hc0 : cw0 c = cwidth) by (unfold cw0; rewrite Ecw; reflexivity).
      assert (Hwc : has_width [c]) by (constructor; [congruence|constructor]).
      injection H as <- _.
      destruct (is_pre m && (wwidth b1 <? tlen_ (wline b1) + wslen b1 + (wordlen b1 + cwidth)));
        prj; (split; [|split]); prj;
        try (rewrite vw_push_merge, swidth_cons, swidth_nil; lia);
        try (apply ehw_push_merge; assumption).
      * apply Z0_set_word, Z0_set_prew, HZ.
      * apply Z0_set_word, HZ.
    + injection H as <- _. exact HI1.
Qed.

Lemma add_chars_z m t1 t2 : forall s b u r,
  ZI b -> add_chars m t1 t2 (b, u) s = Ok r -> ZI (fst r).
Proof.
  induction s as [|c s IH]; intros b u r HI H; cbn [add_chars] in H.
  - injection H as <-. exact HI.
  - bind_inv H st' H1. destruct st' as [b1 u1]. eapply IH; [|exact H].
    eapply add_char_z; eassumption.
Qed.

Lemma wb_into_lines_z b ls :
  ZI b -> wb_into_lines b = Ok ls -> forall l, In l ls -> tl_width_raw l = 0.
Proof.
  intros HI H. unfold wb_into_lines, wb_flush in H. bind_inv H b2 H2. bind_inv H2 b1 H1.
  injection H as <-. pose proof (flush_word_z _ _ _ HI H1) as (Z1 & _).
  destruct (flush_line_z _ _ Z1 H2) as [(_ & _ & _ & _ & Htx & _) _].
  intros l Hl. apply Htx, Hl.
Qed.

(* ---- any width: case split on wwidth = 0 ---- *)

Definition wb_okW (W : N) (w : wblock) : Prop :=
  InvP w /\ wwidth w <= W /\ allow_overflow w = false.

Lemma wb_add_text_okW W b s m t1 t2 b' :
  wb_okW W b -> wb_add_text b s m t1 t2 = Ok b' -> wb_okW W b'.
Proof.
  intros (HI & HW & Ho) H. destruct (N.eq_dec (wwidth b) 0) as [Ez|Enz].
  - unfold wb_add_text in H. bind_inv H r Hr. injection H as <-.
    apply (ZI_InvP b Ez Ho) in HI.
    pose proof (add_chars_z _ _ _ _ _ _ _ HI Hr) as HI'.
    pose proof HI' as ((HW' & Ho' & _) & _).
    split; [apply ZI_InvP; assumption|]. split; [lia|exact Ho'].
  - assert (HInv : Inv b) by (apply Inv_InvP; split; [lia|exact HI]).
    pose proof (wb_add_text_total b s m t1 t2 HInv) as T. rewrite H in T.
    destruct T as (HI' & E1 & _ & E3). apply Inv_InvP in HI'. destruct HI' as [_ HI'].
    unfold wb_okW. rewrite E1, E3. auto.
Qed.

Lemma wb_into_lines_okW W b ls :
  wb_okW W b -> wb_into_lines b = Ok ls -> forall l, In l ls -> tl_width_raw l <= W.
Proof.
  intros (HI & HW & Ho) H l Hl. destruct (N.eq_dec (wwidth b) 0) as [Ez|Enz].
  - apply (ZI_InvP b Ez Ho) in HI. rewrite (wb_into_lines_z _ _ HI H l Hl). lia.
  - assert (HInv : Inv b) by (apply Inv_InvP; split; [lia|exact HI]).
    pose proof (wb_into_lines_total b HInv) as T.
    rewrite H in T. destruct (T l Hl) as [_ T2]. specialize (T2 Ho). lia.
Qed.

Lemma take_frags_okW W b b1 frags :
  wb_okW W b -> take_trailing_fragments b = (b1, frags) -> wb_okW W b1 /\ vw frags = 0.
Proof.
  intros ((A & B & C & D & E) & HW & Ho) H. rewrite ttf_eq in H. injection H as <- <-.
  split; [|apply tfr_snd_vw].
  split; [|prj; auto]. unfold InvP, word_width in *. prj.
  split; [exact A|]. split; [exact B|]. split; [rewrite tfr_fst_vw; exact C|].
  split; [exact D|]. unfold elems_have_width in *. rewrite (tfr_app (wword b)) in E.
  apply Forall_app in E. apply E.
Qed.

Lemma wb_add_frag_okW W b n : wb_okW W b -> wb_okW W (wb_add_element b (Frag n)).
Proof.
  intros ((A & B & C & D & E) & HW & Ho). cbn [wb_add_element].
  split; [|prj; auto]. unfold InvP, word_width in *. prj.
  split; [exact A|]. split; [exact B|]. split.
  { rewrite vw_app, vw_cons, vw_nil. cbn [elem_text]. rewrite swidth_nil. lia. }
  split; [exact D|].
  unfold elems_have_width in *. apply Forall_app. split; [exact E|].
  constructor; [constructor|constructor].
Qed.

Lemma wb_new_okW W ww pad : ww <= W -> wb_okW W (wb_new ww pad false).
Proof.
  intros H. unfold wb_okW, InvP, wb_new. prj. split; [|auto].
  split; [apply line_ok_new|]. split; [intros l []|]. split; [reflexivity|].
  split; [lia|constructor].
Qed.
(* ================================================================== *)
(* 3. Sub-renderer layer                                                *)
(* ================================================================== *)

Definition sub_ok (s : subr) : Prop :=
  o_allow_overflow (sopts s) = false /\
  (forall r, In r (slines s) -> rline_width r <= swidth_ s) /\
  vw (pending_frags s) = 0 /\
  (forall w, wrapping s = Some w -> wb_okW (swidth_ s) w).

Lemma sub_ok_mk s :
  o_allow_overflow (sopts s) = false ->
  (forall r, In r (slines s) -> rline_width r <= swidth_ s) ->
  vw (pending_frags s) = 0 ->
  (forall w, wrapping s = Some w -> wb_okW (swidth_ s) w) -> sub_ok s.
Proof. unfold sub_ok. auto. Qed.

Definition same (s s' : subr) : Prop := swidth_ s' = swidth_ s /\ sopts s' = sopts s.

Lemma same_refl s : same s s.
Proof. split; reflexivity. Qed.
Lemma same_trans a b c : same a b -> same b c -> same a c.
Proof. unfold same. intuition congruence. Qed.

(* operations that preserve the invariant, the width and the options *)
Definition keeps (f : subr -> res subr) : Prop :=
  forall s s', sub_ok s -> f s = Ok s' -> sub_ok s' /\ same s s'.

Ltac sprj :=
  cbn [swidth_ sopts slines pending_frags at_block_end wrapping ann_stack filter_depth pre_depth
       ws_stack set_lines set_abe set_wrapping set_ann set_filter set_pre_depth set_ws_stack] in *.

Lemma sub_ok_ext s s' :
  swidth_ s' = swidth_ s -> sopts s' = sopts s -> slines s' = slines s ->
  pending_frags s' = pending_frags s -> wrapping s' = wrapping s -> sub_ok s -> sub_ok s'.
Proof. unfold sub_ok. intros -> -> -> -> ->. auto. Qed.

Lemma keeps_pure (g : subr -> subr) :
  (forall s, swidth_ (g s) = swidth_ s /\ sopts (g s) = sopts s /\ slines (g s) = slines s /\
             pending_frags (g s) = pending_frags s /\ wrapping (g s) = wrapping s) ->
  keeps (fun s => Ok (g s)).
Proof.
  intros Hg s s' Hs H. ok_inv H. destruct (Hg s) as (a & b & c & e & f).
  split; [apply (sub_ok_ext s); auto|split; auto].
Qed.

Lemma keeps_comp f g : keeps f -> keeps g -> keeps (fun s => do s1 <- f s; g s1).
Proof.
  intros Hf Hg s s' Hs H. bind_inv H s1 H1.
  destruct (Hf _ _ Hs H1) as [A B]. destruct (Hg _ _ A H) as [C D].
  split; [exact C|eapply same_trans; eassumption].
Qed.

Lemma add_line_same s l :
  swidth_ (add_line s l) = swidth_ s /\ sopts (add_line s l) = sopts s /\
  wrapping (add_line s l) = wrapping s.
Proof. unfold add_line. destruct (pending_frags s); destruct l; sprj; auto. Qed.

Lemma add_line_lines s l : vw (pending_frags s) = 0 ->
  exists l', slines (add_line s l) = slines s ++ [l'] /\ rline_width l' = rline_width l /\
             vw (pending_frags (add_line s l)) = 0.
Proof.
  intros Hp. unfold add_line. destruct (pending_frags s) as [|e pf] eqn:E; destruct l as [tl|b t]; sprj.
  - eexists. split; [reflexivity|]. split; [reflexivity|exact Hp].
  - eexists. split; [reflexivity|]. split; [reflexivity|exact Hp].
  - eexists. split; [reflexivity|]. split; [|reflexivity].
    cbn [rline_width]. rewrite !raw_fold_push, raw_new, Hp, (raw_eq tl). lia.
  - eexists. split; [reflexivity|]. split; [reflexivity|exact Hp].
Qed.

Lemma add_line_ok s l : sub_ok s -> rline_width l <= swidth_ s -> sub_ok (add_line s l).
Proof.
  intros (H2 & H3 & H4 & H5) Hl.
  destruct (add_line_same s l) as (a & b & c).
  destruct (add_line_lines s l H4) as (l' & El & Ew & Ep).
  unfold sub_ok. rewrite a, b, c, El. split; [exact H2|].
  split; [|split; [exact Ep|exact H5]].
  intros r Hr. apply in_app_or in Hr. destruct Hr as [Hr|[<-|[]]]; [auto|lia].
Qed.

Lemma add_line_same' s l : same s (add_line s l).
Proof. destruct (add_line_same s l) as (a & b & _). split; auto. Qed.

Lemma extend_lines_ok ls : forall s,
  sub_ok s -> (forall l, In l ls -> rline_width l <= swidth_ s) ->
  sub_ok (extend_lines s ls) /\ same s (extend_lines s ls) /\
  wrapping (extend_lines s ls) = wrapping s.
Proof.
  unfold extend_lines. induction ls as [|l ls IH]; intros s Hs Hls; cbn [fold_left].
  - split; [exact Hs|]. split; [apply same_refl|reflexivity].
  - destruct (add_line_same s l) as (a & b & c).
    destruct (IH (add_line s l)) as (A & B & C).
    + apply add_line_ok; [exact Hs|]. apply Hls. left. reflexivity.
    + intros l' Hl'. rewrite a. apply Hls. right. exact Hl'.
    + split; [exact A|]. split; [|congruence].
      eapply same_trans; [apply add_line_same'|exact B].
Qed.

Lemma flush_wrapping_ok s s' :
  sub_ok s -> flush_wrapping s = Ok s' -> sub_ok s' /\ same s s' /\ wrapping s' = None.
Proof.
  intros Hs H. unfold flush_wrapping in H. destruct (wrapping s) as [w|] eqn:Ew.
  - destruct (take_trailing_fragments w) as [w1 frags] eqn:Et.
    bind_inv H lm Hlm. ok_inv H.
    pose proof (wb_into_lines_markers_fst _ _ Hlm) as Hls.
    pose proof (frags_vw _ (wb_into_lines_markers_frags _ _ Hlm)) as Hmk.
    destruct lm as [ls mk]. cbn [fst snd] in *.
    pose proof Hs as (H2 & H3 & H4 & H5).
    destruct (take_frags_okW _ _ _ _ (H5 w Ew) Et) as [Hw1 Hfr].
    assert (Hs0 : sub_ok (set_wrapping s None)).
    { apply sub_ok_mk; sprj; auto. intros ? [=]. }
    destruct (extend_lines_ok (map RText ls) _ Hs0) as (A & (B1 & B2) & C).
    { intros l Hl. apply in_map_iff in Hl. destruct Hl as (tl & <- & Htl). sprj.
      cbn [rline_width]. eapply wb_into_lines_okW; eassumption. }
    sprj. destruct A as (A2 & A3 & A4 & A5).
    split; [|split; [split; sprj; auto|sprj; exact C]].
    apply sub_ok_mk; sprj; auto. rewrite !vw_app. lia.
  - ok_inv H. split; [exact Hs|]. split; [apply same_refl|exact Ew].
Qed.

Lemma flush_wrapping_keeps : keeps flush_wrapping.
Proof. intros s s' Hs H. destruct (flush_wrapping_ok s s' Hs H) as (A & B & _). auto. Qed.

Lemma set_abe_ok s b : sub_ok s -> sub_ok (set_abe s b).
Proof. apply sub_ok_ext; reflexivity. Qed.

Lemma add_empty_line_keeps : keeps add_empty_line.
Proof.
  intros s s' Hs H. unfold add_empty_line in H. bind_inv H s1 H1. ok_inv H.
  destruct (flush_wrapping_keeps _ _ Hs H1) as [A B].
  split.
  - apply set_abe_ok, add_line_ok; [exact A|]. cbn [rline_width]. rewrite raw_new. lia.
  - eapply same_trans; [exact B|]. destruct (add_line_same s1 (RText tl_new)) as (a & b & _).
    split; sprj; auto.
Qed.

Lemma start_block_keeps : keeps start_block.
Proof.
  intros s s' Hs H. unfold start_block in H. bind_inv H s1 H1. bind_inv H s2 H2. ok_inv H.
  destruct (flush_wrapping_keeps _ _ Hs H1) as [A B].
  assert (C : sub_ok s2 /\ same s1 s2).
  { destruct (existsb rline_has_content (slines s1)).
    - apply add_empty_line_keeps; assumption.
    - ok_inv H2. split; [exact A|apply same_refl]. }
  destruct C as [C D]. split; [apply set_abe_ok, C|].
  eapply same_trans; [exact B|]. eapply same_trans; [exact D|]. split; reflexivity.
Qed.

Lemma new_line_keeps : keeps new_line.
Proof. exact flush_wrapping_keeps. Qed.

Lemma new_line_hard_keeps : keeps new_line_hard.
Proof.
  intros s s' Hs H. unfold new_line_hard in H. destruct (wrapping s) as [w|].
  - destruct ((wordlen w =? 0) && (tlen_ (wline w) =? 0)).
    + apply add_empty_line_keeps; assumption.
    + apply flush_wrapping_keeps; assumption.
  - apply add_empty_line_keeps; assumption.
Qed.

Lemma add_horizontal_line_ok s b t s' :
  sub_ok s -> N.of_nat (length b) <= swidth_ s -> add_horizontal_line s b t = Ok s' ->
  sub_ok s' /\ same s s'.
Proof.
  intros Hs Hb H. unfold add_horizontal_line in H. bind_inv H s1 H1. ok_inv H.
  destruct (flush_wrapping_keeps _ _ Hs H1) as [A [B1 B2]].
  split.
  - apply add_line_ok; [exact A|]. cbn [rline_width]. lia.
  - eapply same_trans; [split; eassumption|apply add_line_same'].
Qed.

Lemma length_border_new w : length (border_new w) = N.to_nat w.
Proof. apply repeat_length. Qed.
Lemma length_border_new_type w sg : length (border_new_type w sg) = N.to_nat w.
Proof. apply repeat_length. Qed.

Lemma add_horizontal_border_width_ok s w s' :
  sub_ok s -> w <= swidth_ s -> add_horizontal_border_width s w = Ok s' -> sub_ok s' /\ same s s'.
Proof.
  intros Hs Hw H. unfold add_horizontal_border_width in H. bind_inv H s1 H1. ok_inv H.
  destruct (flush_wrapping_keeps _ _ Hs H1) as [A [B1 B2]].
  split.
  - apply add_line_ok; [exact A|]. cbn [rline_width]. rewrite length_border_new. lia.
  - eapply same_trans; [split; eassumption|apply add_line_same'].
Qed.

Lemma add_horizontal_border_keeps : keeps add_horizontal_border.
Proof.
  intros s s' Hs H. unfold add_horizontal_border in H.
  eapply add_horizontal_border_width_ok; [exact Hs| |exact H]. lia.
Qed.

(* ---- inline text ---- *)
Lemma get_wrapping_ok s : sub_ok s -> wb_okW (swidth_ s) (get_wrapping s).
Proof.
  intros (H2 & H3 & H4 & H5). unfold get_wrapping. destruct (wrapping s) as [w|] eqn:Ew.
  - apply H5. reflexivity.
  - rewrite H2. apply wb_new_okW. destruct (wrap_width (sopts s)); lia.
Qed.

Lemma set_wrapping_ok s w : sub_ok s -> wb_okW (swidth_ s) w -> sub_ok (set_wrapping s (Some w)).
Proof.
  intros (H2 & H3 & H4 & H5) Hw. apply sub_ok_mk; sprj; auto.
  intros w' [= <-]. exact Hw.
Qed.

Lemma add_inline_text_keeps d t : keeps (fun s => add_inline_text d s t).
Proof.
  intros s s' Hs H. unfold add_inline_text in H.
  destruct (negb (preserve_ws (ws_mode s)) && at_block_end s && all_ws t).
  { ok_inv H. split; [exact Hs|apply same_refl]. }
  bind_inv H s1 H1.
  assert (A : sub_ok s1 /\ same s s1).
  { destruct (at_block_end s).
    - apply start_block_keeps; assumption.
    - ok_inv H1. split; [exact Hs|apply same_refl]. }
  destruct A as [A B]. bind_inv H w1 Hw1. ok_inv H.
  split.
  - apply set_wrapping_ok; [exact A|].
    eapply wb_add_text_okW; [apply get_wrapping_ok, A|exact Hw1].
  - eapply same_trans; [exact B|]. split; reflexivity.
Qed.

Lemma push_ann_pure a : keeps (fun s => Ok (push_ann s a)).
Proof. apply keeps_pure. intros s. unfold push_ann. sprj. auto. Qed.
Lemma pop_ann_pure : keeps (fun s => Ok (pop_ann s)).
Proof. apply keeps_pure. intros s. unfold pop_ann. sprj. auto. Qed.

Lemma start_deco_keeps d p : keeps (fun s => start_deco d s p).
Proof.
  unfold start_deco.
  exact (keeps_comp _ _ (push_ann_pure (snd p)) (add_inline_text_keeps d (fst p))).
Qed.

Lemma end_deco_keeps d e : keeps (fun s => end_deco d s e).
Proof.
  unfold end_deco. exact (keeps_comp _ _ (add_inline_text_keeps d e) pop_ann_pure).
Qed.

Lemma sub_start_link_keeps d href : keeps (fun s => sub_start_link d s href).
Proof. apply start_deco_keeps. Qed.
Lemma sub_end_link_keeps d : keeps (sub_end_link d).
Proof. apply (end_deco_keeps d). Qed.
Lemma start_emphasis_keeps d : keeps (start_emphasis d).
Proof. apply (start_deco_keeps d). Qed.
Lemma end_emphasis_keeps d : keeps (end_emphasis d).
Proof. apply (end_deco_keeps d). Qed.
Lemma start_strong_keeps d : keeps (start_strong d).
Proof. apply (start_deco_keeps d). Qed.
Lemma end_strong_keeps d : keeps (end_strong d).
Proof. apply (end_deco_keeps d). Qed.
Lemma start_code_keeps d : keeps (start_code d).
Proof. apply (start_deco_keeps d). Qed.
Lemma end_code_keeps d : keeps (end_code d).
Proof. apply (end_deco_keeps d). Qed.
Lemma start_superscript_keeps d : keeps (start_superscript d).
Proof. apply (start_deco_keeps d). Qed.
Lemma end_superscript_keeps d : keeps (end_superscript d).
Proof. apply (end_deco_keeps d). Qed.

Lemma start_strikeout_keeps d : keeps (start_strikeout d).
Proof.
  unfold start_strikeout. apply keeps_comp; [apply (start_deco_keeps d)|].
  apply keeps_pure. intros s. destruct (o_strike (sopts s)); sprj; auto.
Qed.

Lemma end_strikeout_keeps d : keeps (end_strikeout d).
Proof.
  unfold end_strikeout. apply keeps_comp; [|apply (end_deco_keeps d)].
  intros s s' Hs H. destruct (o_strike (sopts s)).
  - destruct (filter_depth s); [discriminate|]. ok_inv H.
    split; [apply (sub_ok_ext s); auto|split; reflexivity].
  - ok_inv H. split; [exact Hs|apply same_refl].
Qed.

Lemma add_image_keeps d src title : keeps (fun s => add_image d s src title).
Proof.
  unfold add_image.
  exact (keeps_comp _ _ (keeps_comp _ _ (push_ann_pure _) (add_inline_text_keeps d _)) pop_ann_pure).
Qed.

Lemma record_frag_start_keeps name : keeps (fun s => Ok (record_frag_start s name)).
Proof.
  intros s s' Hs H. ok_inv H. unfold record_frag_start. split; [|split; reflexivity].
  apply set_wrapping_ok; [exact Hs|]. apply wb_add_frag_okW, get_wrapping_ok, Hs.
Qed.

Lemma end_block_pure : keeps (fun s => Ok (end_block s)).
Proof. apply keeps_pure. intros s. unfold end_block. sprj. auto. Qed.

Lemma push_colour_pure d r g b : keeps (fun s => Ok (push_colour d s r g b)).
Proof. apply keeps_pure. intros s. unfold push_colour, push_ann. destruct (d_colours d); sprj; auto. Qed.
Lemma push_bgcolour_pure d r g b : keeps (fun s => Ok (push_bgcolour d s r g b)).
Proof. apply keeps_pure. intros s. unfold push_bgcolour, push_ann. destruct (d_colours d); sprj; auto. Qed.
Lemma pop_colour_pure d : keeps (fun s => Ok (pop_colour d s)).
Proof. apply keeps_pure. intros s. unfold pop_colour, pop_ann. destruct (d_colours d); sprj; auto. Qed.
Lemma push_ws_mode_pure m : keeps (fun s => Ok (push_ws_mode s m)).
Proof. apply keeps_pure. intros s. unfold push_ws_mode. sprj. auto. Qed.
Lemma pop_ws_mode_pure : keeps (fun s => Ok (pop_ws_mode s)).
Proof. apply keeps_pure. intros s. unfold pop_ws_mode. sprj. auto. Qed.
Lemma push_preformat_pure : keeps (fun s => Ok (push_preformat s)).
Proof. apply keeps_pure. intros s. unfold push_preformat. sprj. auto. Qed.
Lemma pop_preformat_keeps : keeps pop_preformat.
Proof.
  intros s s' Hs H. unfold pop_preformat in H. destruct (0 <? pre_depth s); [|discriminate].
  ok_inv H. split; [apply (sub_ok_ext s); auto|split; reflexivity].
Qed.

Lemma new_sub_renderer_ok s w :
  o_allow_overflow (sopts s) = false -> sub_ok (new_sub_renderer s w).
Proof.
  intros Ho. unfold new_sub_renderer, sub_new. apply sub_ok_mk; sprj; auto;
    [intros r []|intros ? [=]].
Qed.
(* ================================================================== *)
(* 4. append_subrender (prefixes)                                       *)
(* ================================================================== *)

Lemma sub_into_lines_ok s ls :
  sub_ok s -> sub_into_lines s = Ok ls -> forall r, In r ls -> rline_width r <= swidth_ s.
Proof.
  intros Hs H. unfold sub_into_lines in H. bind_inv H s1 H1. ok_inv H.
  destruct (flush_wrapping_ok _ _ Hs H1) as ((_ & A & _) & (B & _) & _).
  intros r Hr. rewrite <- B. auto.
Qed.

Lemma attach_prefix_width t p l : rline_width (attach_prefix t p l) = swidth p + rline_width l.
Proof.
  destruct l as [tl|b bt]; cbn [attach_prefix rline_width].
  - destruct p as [|c p]; cbn [rline_width]; [rewrite swidth_nil; lia|].
    apply raw_insert_front.
  - rewrite !raw_push, raw_new. cbn [elem_text]. rewrite swidth_border_string. lia.
Qed.

Lemma attach_prefixes_width t first rest ls p W :
  swidth first <= p -> swidth rest <= p -> (forall r, In r ls -> rline_width r <= W) ->
  forall r, In r (attach_prefixes t first rest ls) -> rline_width r <= p + W.
Proof.
  intros Hf Hr Hls r Hin. destruct ls as [|l ls]; [destruct Hin|].
  cbn [attach_prefixes] in Hin. destruct Hin as [<-|Hin].
  - rewrite attach_prefix_width. specialize (Hls l (or_introl eq_refl)). lia.
  - apply in_map_iff in Hin. destruct Hin as (l' & <- & Hl').
    rewrite attach_prefix_width. specialize (Hls l' (or_intror Hl')). lia.
Qed.

Lemma append_subrender_ok s other first rest p s' :
  sub_ok s -> sub_ok other -> swidth first <= p -> swidth rest <= p ->
  p + swidth_ other <= swidth_ s ->
  append_subrender s other first rest = Ok s' -> sub_ok s' /\ same s s'.
Proof.
  intros Hs Ho Hf Hr Hw H. unfold append_subrender in H.
  bind_inv H s1 H1. bind_inv H ols H2. ok_inv H.
  destruct (flush_wrapping_keeps _ _ Hs H1) as [A [B1 B2]].
  destruct (extend_lines_ok (attach_prefixes (ann_stack s1) first rest ols) s1 A) as (C & D & _).
  - intros l Hl. rewrite B1.
    pose proof (attach_prefixes_width _ _ _ _ p (swidth_ other) Hf Hr
                  (sub_into_lines_ok _ _ Ho H2) l Hl). lia.
  - split; [exact C|]. eapply same_trans; [split; eassumption|exact D].
Qed.

(* ================================================================== *)
(* 5. Borders                                                           *)
(* ================================================================== *)

Lemma length_upd_nth {A} (f : A -> A) : forall l n, length (upd_nth l n f) = length l.
Proof. induction l as [|a l IH]; intros [|n]; cbn [upd_nth length]; auto. Qed.

Lemma length_stretch_to b w : length (stretch_to b w) = Nat.max (length b) (N.to_nat w).
Proof. unfold stretch_to. rewrite app_length, repeat_length. lia. Qed.

Lemma length_join_above b x : length (join_above b x) = Nat.max (length b) (N.to_nat x + 1).
Proof. unfold join_above. rewrite length_upd_nth, length_stretch_to. lia. Qed.
Lemma length_join_below b x : length (join_below b x) = Nat.max (length b) (N.to_nat x + 1).
Proof. unfold join_below. rewrite length_upd_nth, length_stretch_to. lia. Qed.

(* jn is join_above or join_below *)
Definition is_join (jn : list seg -> N -> list seg) : Prop :=
  forall b x, length (jn b x) = Nat.max (length b) (N.to_nat x + 1).

Lemma merge_from_len jn (Hj : is_join jn) B : forall other b pos,
  N.of_nat (length b) <= B -> pos + N.of_nat (length other) <= B ->
  N.of_nat (length (merge_from jn b other pos)) <= B.
Proof.
  induction other as [|sg other IH]; intros b pos Hb Hp; cbn [merge_from].
  - exact Hb.
  - cbn [length] in Hp. apply IH; [|lia].
    destruct (seg_is_join sg); [rewrite Hj; lia|exact Hb].
Qed.

(* sum of (w+1): the columns a list of cells occupies, separators included *)
Definition sspan (l : list N) : N := sumN (map (fun w => w + 1) l).
Lemma sspan_nil : sspan [] = 0.
Proof. reflexivity. Qed.
Lemma sspan_cons w l : sspan (w :: l) = w + 1 + sspan l.
Proof. reflexivity. Qed.
Lemma sspan_app a b : sspan (a ++ b) = sspan a + sspan b.
Proof. induction a as [|x a IH]; cbn [app]; rewrite ?sspan_nil, ?sspan_cons; lia. Qed.
Lemma sspan_eq l : sspan l = sumN l + N.of_nat (length l).
Proof.
  induction l as [|w l IH]; [reflexivity|]. rewrite sspan_cons, IH. cbn [sumN length]. lia.
Qed.

Lemma join_cols_len B : forall ws_ prev next pos,
  N.of_nat (length prev) <= B -> N.of_nat (length next) <= B -> pos + sspan ws_ <= B + 1 ->
  N.of_nat (length (fst (join_cols ws_ prev next pos))) <= B /\
  N.of_nat (length (snd (join_cols ws_ prev next pos))) <= B.
Proof.
  induction ws_ as [|w ws_ IH]; intros prev next pos Hp Hn Hs; cbn [join_cols].
  - cbn [fst snd]. auto.
  - destruct ws_ as [|w' ws_]; [cbn [fst snd]; auto|].
    rewrite sspan_cons in Hs. rewrite (sspan_cons w') in Hs.
    apply IH.
    + rewrite length_join_below. lia.
    + rewrite length_join_above. lia.
    + rewrite sspan_cons. lia.
Qed.

(* ================================================================== *)
(* 6. append_columns_with_borders                                       *)
(* ================================================================== *)

Definition set_ok (p : N * list rline) : Prop :=
  forall r, In r (snd p) -> rline_width r <= fst p.

Lemma pad_cell_lines_ok w t : forall ls pls,
  (forall r, In r ls -> rline_width r <= w) -> pad_cell_lines w t ls = Ok pls ->
  forall r, In r pls -> rline_width r <= w.
Proof.
  induction ls as [|l ls IH]; intros pls Hls H; cbn [pad_cell_lines] in H.
  - ok_inv H. intros r [].
  - destruct l as [tl|b bt].
    + bind_inv H tl' H1. bind_inv H r0 H2. ok_inv H.
      intros r [<-|Hr].
      * cbn [rline_width]. rewrite (tl_pad_to_ok _ _ _ _ H1).
        specialize (Hls (RText tl) (or_introl eq_refl)). cbn [rline_width] in Hls. lia.
      * eapply IH; [|exact H2|exact Hr]. intros r' Hr'. apply Hls. right. exact Hr'.
    + bind_inv H r0 H2. ok_inv H.
      intros r [<-|Hr].
      * cbn [rline_width]. rewrite length_stretch_to.
        specialize (Hls (RLine b bt) (or_introl eq_refl)). cbn [rline_width] in Hls. lia.
      * eapply IH; [|exact H2|exact Hr]. intros r' Hr'. apply Hls. right. exact Hr'.
Qed.

Lemma col_line_sets_ok t : forall cols sets,
  Forall sub_ok cols -> col_line_sets t cols = Ok sets ->
  map fst sets = map swidth_ cols /\ Forall set_ok sets.
Proof.
  induction cols as [|c cols IH]; intros sets Hc H; cbn [col_line_sets] in H.
  - ok_inv H. split; [reflexivity|constructor].
  - inversion Hc as [|? ? Hc1 Hc2]; subst.
    bind_inv H ls H1. bind_inv H pls H2. bind_inv H r H3. ok_inv H.
    destruct (IH _ Hc2 H3) as [A B]. cbn [map fst]. split; [f_equal; exact A|].
    constructor; [|exact B]. unfold set_ok. cbn [fst snd].
    eapply pad_cell_lines_ok; [|exact H2]. apply (sub_into_lines_ok _ _ Hc1 H1).
Qed.

Definition ob (B : N) (o : option (list seg)) : Prop :=
  match o with Some b => N.of_nat (length b) <= B | None => True end.

Lemma collapse_top_ok B : forall sets prev pos r,
  Forall set_ok sets -> ob B prev -> pos + sspan (map fst sets) <= B + 1 ->
  collapse_top sets prev pos = Ok r ->
  ob B (fst r) /\ Forall set_ok (snd r) /\ map fst (snd r) = map fst sets.
Proof.
  induction sets as [|[w sub] sets IH]; intros prev pos r Hs Hp Hpos H; cbn [collapse_top] in H.
  - ok_inv H. cbn [fst snd]. auto.
  - inversion Hs as [|? ? Hs1 Hs2]; subst. cbn [map fst] in Hpos. rewrite sspan_cons in Hpos.
    assert (Hdef : forall r0, collapse_top sets prev (pos + w + 1) = Ok r0 ->
              ob B (fst r0) /\ Forall set_ok ((w, sub) :: snd r0) /\
              map fst ((w, sub) :: snd r0) = map fst ((w, sub) :: sets)).
    { intros r0 H0. destruct (IH prev (pos + w + 1) r0 Hs2 Hp ltac:(lia) H0) as (A & B0 & C).
      split; [exact A|]. split; [constructor; assumption|]. cbn [map fst]. f_equal. exact C. }
    destruct sub as [|[tl|line bt] sub'].
    + bind_inv H r0 H0. ok_inv H. cbn [fst snd]. apply Hdef, H0.
    + bind_inv H r0 H0. ok_inv H. cbn [fst snd]. apply Hdef, H0.
    + destruct prev as [pb|]; [|discriminate].
      bind_inv H r0 H0. ok_inv H. cbn [fst snd].
      destruct (IH (Some (merge_from_below pb line pos)) (pos + w + 1) r0 Hs2) as (A & B0 & C);
        [|lia|exact H0|].
      * cbn [ob]. apply merge_from_len; [exact length_join_below|exact Hp|].
        specialize (Hs1 (RLine line bt) (or_introl eq_refl)). cbn [rline_width fst] in Hs1. lia.
      * split; [exact A|]. split; [|cbn [map fst]; f_equal; exact C].
        constructor; [|exact B0]. intros r Hr. apply Hs1. right. exact Hr.
Qed.

Fixpoint pads_ok (sets : list (N * list rline)) (pads : list (option text)) : Prop :=
  match sets with
  | [] => True
  | (w, _) :: sets' =>
    match pads with Some p :: _ => swidth p <= w | _ => True end /\ pads_ok sets' (tl pads)
  end.

Lemma collapse_bottom_ok B : forall sets next pos,
  Forall set_ok sets -> N.of_nat (length next) <= B -> pos + sspan (map fst sets) <= B + 1 ->
  let '(n', s', p') := collapse_bottom sets next pos in
  N.of_nat (length n') <= B /\ Forall set_ok s' /\ map fst s' = map fst sets /\ pads_ok s' p'.
Proof.
  induction sets as [|[w sub] sets IH]; intros next pos Hs Hn Hpos; cbn [collapse_bottom].
  - cbn [pads_ok]. auto.
  - inversion Hs as [|? ? Hs1 Hs2]; subst. cbn [map fst] in Hpos. rewrite sspan_cons in Hpos.
    destruct (olast sub) as [[tl|line bt]|] eqn:El.
    + specialize (IH next (pos + w + 1) Hs2 Hn ltac:(lia)).
      destruct (collapse_bottom sets next (pos + w + 1)) as [[n' s'] p'].
      destruct IH as (A & B0 & C & D). split; [exact A|]. split; [constructor; assumption|].
      split; [cbn [map fst]; f_equal; exact C|]. cbn [pads_ok List.tl]. auto.
    + apply olast_In in El. pose proof (Hs1 _ El) as Hl. cbn [rline_width fst] in Hl.
      specialize (IH (merge_from_above next line pos) (pos + w + 1) Hs2).
      destruct (collapse_bottom sets (merge_from_above next line pos) (pos + w + 1)) as [[n' s'] p'].
      destruct IH as (A & B0 & C & D); [|lia|].
      { apply merge_from_len; [exact length_join_above|exact Hn|lia]. }
      split; [exact A|]. split.
      { constructor; [|exact B0]. intros r Hr. apply Hs1. cbn [snd] in *.
        apply In_removelast, Hr. }
      split; [cbn [map fst]; f_equal; exact C|]. cbn [pads_ok List.tl]. split; [|exact D].
      rewrite swidth_vlines. exact Hl.
    + specialize (IH next (pos + w + 1) Hs2 Hn ltac:(lia)).
      destruct (collapse_bottom sets next (pos + w + 1)) as [[n' s'] p'].
      destruct IH as (A & B0 & C & D). split; [exact A|]. split; [constructor; assumption|].
      split; [cbn [map fst]; f_equal; exact C|]. cbn [pads_ok List.tl]. auto.
Qed.

Lemma raw_consume acc tl : tl_width_raw (tl_consume acc tl) = tl_width_raw acc + tl_width_raw tl.
Proof. unfold tl_consume. rewrite raw_fold_push, (raw_eq tl). reflexivity. Qed.

Lemma cw0_sep (draw : bool) : cw0 (if draw then vbar else spacel L_border) = 1.
Proof. destruct draw; reflexivity. Qed.

Lemma row_line_width t draw i : forall sets pads acc,
  Forall set_ok sets -> pads_ok sets pads -> sets <> [] ->
  tl_width_raw (row_line t draw i sets pads acc) + 1 <= tl_width_raw acc + sspan (map fst sets).
Proof.
  induction sets as [|[w ls] sets IH]; intros pads acc Hs Hp Hne; [congruence|].
  inversion Hs as [|? ? Hs1 Hs2]; subst. cbn [pads_ok] in Hp. destruct Hp as [Hp1 Hp2].
  cbn [row_line map fst]. rewrite sspan_cons.
  set (acc1 := match nth_opt ls i with
               | Some (RText tl) => tl_consume acc tl
               | Some (RLine b _) => tl_push acc (Str (border_string b) t)
               | None => tl_push acc (Str match match pads with p :: _ => p | [] => None end with
                                          | Some p => p
                                          | None => spacesl L_pad w
                                          end t)
               end).
  assert (H1 : tl_width_raw acc1 <= tl_width_raw acc + w).
  { unfold acc1. destruct (nth_opt ls i) as [[tl|b bt]|] eqn:En.
    - apply nth_opt_In in En. specialize (Hs1 _ En). cbn [rline_width fst] in Hs1.
      rewrite raw_consume. lia.
    - apply nth_opt_In in En. specialize (Hs1 _ En). cbn [rline_width fst] in Hs1.
      rewrite raw_push. cbn [elem_text]. rewrite swidth_border_string. lia.
    - rewrite raw_push. cbn [elem_text]. destruct pads as [|[p|] pads'].
      + rewrite swidth_spacesl. lia.
      + lia.
      + rewrite swidth_spacesl. lia. }
  destruct sets as [|s2 sets].
  - cbn [row_line map]. rewrite sspan_nil. lia.
  - eassert (H2 := IH (tl pads) _ Hs2 Hp2 ltac:(discriminate)).
    etransitivity; [exact H2|]. rewrite raw_push_char, cw0_sep. lia.
Qed.

Lemma row_lines_ok t draw sets pads : forall n i s,
  sub_ok s -> Forall set_ok sets -> pads_ok sets pads -> sets <> [] ->
  sspan (map fst sets) <= swidth_ s + 1 ->
  sub_ok (row_lines t draw n i sets pads s) /\ same s (row_lines t draw n i sets pads s).
Proof.
  induction n as [|n IH]; intros i s Hs Hsets Hp Hne Hw; cbn [row_lines].
  - split; [exact Hs|apply same_refl].
  - destruct (add_line_same' s (RText (row_line t draw i sets pads tl_new))) as [a b].
    destruct (IH (S i) (add_line s (RText (row_line t draw i sets pads tl_new)))) as [A B]; auto.
    + apply add_line_ok; [exact Hs|]. cbn [rline_width].
      pose proof (row_line_width t draw i sets pads tl_new Hsets Hp Hne) as H.
      rewrite raw_new in H. lia.
    + rewrite a. exact Hw.
    + split; [exact A|]. eapply same_trans; [split; eassumption|exact B].
Qed.

Lemma in_replace_last {A} (l : list A) x y : In y (replace_last l x) -> In y l \/ y = x.
Proof.
  unfold replace_last. intros H. apply in_app_or in H. destruct H as [H|[<-|[]]]; auto.
  left. apply In_removelast, H.
Qed.

Lemma append_columns_ok s cols collapse s' :
  sub_ok s -> Forall sub_ok cols ->
  sumN (map swidth_ cols) + (N.of_nat (length cols) - 1) <= swidth_ s ->
  append_columns_with_borders s cols collapse = Ok s' -> sub_ok s' /\ same s s'.
Proof.
  intros Hs Hcols Hw H. unfold append_columns_with_borders in H.
  bind_inv H s1 H1. destruct (flush_wrapping_keeps _ _ Hs H1) as [A [B1 B2]].
  bind_inv H sets Hsets. destruct (col_line_sets_ok _ _ _ Hcols Hsets) as [Em Hso].
  bind_inv H chk Hchk.
  assert (Hne : sets <> []) by (destruct sets; [discriminate|discriminate]).
  assert (Hspan : sspan (map fst sets) <= swidth_ s1 + 1).
  { rewrite sspan_eq, Em, map_length. rewrite B1.
    assert (length cols <> 0%nat).
    { intros E. apply Hne. apply (f_equal (@length _)) in Em. rewrite !map_length in Em.
      destruct sets; [reflexivity|cbn in Em; lia]. }
    lia. }
  assert (Htot : sumN (map fst sets) + (N.of_nat (length sets) - 1) <= swidth_ s1).
  { rewrite sspan_eq, map_length in Hspan. destruct sets; [congruence|]. cbn [length] in *. lia. }
  set (B := swidth_ s1) in *.
  set (next0 := border_new (sumN (map fst sets) + (N.of_nat (length sets) - 1))) in H.
  assert (Hn0 : N.of_nat (length next0) <= B).
  { unfold next0. rewrite length_border_new. lia. }
  set (lastl := olast (slines s1)) in H.
  assert (Hlast : forall pb pt, lastl = Some (RLine pb pt) -> N.of_nat (length pb) <= B).
  { intros pb pt E. apply olast_In in E. destruct A as (_ & A3 & _).
    specialize (A3 _ E). exact A3. }
  (* the borders after join_cols *)
  remember (match lastl with
            | Some (RLine pb pt) =>
              let '(p, n) := join_cols (map fst sets) pb next0 0 in (Some p, n)
            | _ => (None, next0)
            end) as pn eqn:Epn.
  destruct pn as [prev1 next1].
  assert (Hpn : ob B prev1 /\ N.of_nat (length next1) <= B).
  { destruct lastl as [[tl|pb pt]|] eqn:El.
    - injection Epn as -> ->. cbn [ob]. auto.
    - pose proof (join_cols_len B (map fst sets) pb next0 0 (Hlast pb pt eq_refl) Hn0 ltac:(lia))
        as [J1 J2].
      destruct (join_cols (map fst sets) pb next0 0) as [p n]. injection Epn as -> ->.
      cbn [ob fst snd] in *. auto.
    - injection Epn as -> ->. cbn [ob]. auto. }
  destruct Hpn as [Hp1 Hn1].
  bind_inv H r Hr. destruct r as [[[prev3 next3] sets4] pads].
  assert (R : ob B prev3 /\ N.of_nat (length next3) <= B /\ Forall set_ok sets4 /\
              map fst sets4 = map fst sets /\ pads_ok sets4 pads).
  { destruct collapse.
    - bind_inv Hr ct Hct. destruct ct as [prev2 sets2].
      destruct (collapse_top_ok B sets prev1 0 _ Hso Hp1 ltac:(lia) Hct) as (T1 & T2 & T3).
      cbn [fst snd] in *.
      pose proof (collapse_bottom_ok B sets2 next1 0 T2 Hn1 ltac:(rewrite T3; lia)) as CB.
      destruct (collapse_bottom sets2 next1 0) as [[n2 s3] pd]. ok_inv Hr.
      destruct CB as (C1 & C2 & C3 & C4). repeat split; auto. congruence.
    - ok_inv Hr. repeat split; auto.
      clear. induction sets4 as [|[w l] sets4 IH]; cbn [pads_ok map List.tl]; auto. }
  destruct R as (R1 & R2 & R3 & R4 & R5).
  injection H as H.
  set (lines1 := match lastl with
                 | Some (RLine _ pt) =>
                   match prev3 with
                   | Some pb => replace_last (slines s1) (RLine pb pt)
                   | None => slines s1
                   end
                 | _ => slines s1
                 end).
  assert (Hs2 : sub_ok (set_lines s1 lines1 (pending_frags s1))).
  { destruct A as (A2 & A3 & A4 & A5). apply sub_ok_mk; sprj; auto.
    intros r0 Hin. unfold lines1 in Hin.
    destruct lastl as [[tl0|pb0 pt]|]; auto. destruct prev3 as [pb|]; auto.
    apply in_replace_last in Hin. destruct Hin as [Hin| ->]; auto. }
  assert (Hne4 : sets4 <> []).
  { intros E. rewrite E in R4. destruct sets; [congruence|discriminate]. }
  match type of H with
  | context [row_lines ?t ?dr ?n ?i ?st ?pd ?s0] =>
    destruct (row_lines_ok t dr st pd n i s0) as [Q1 Q2]; auto
  end.
  { sprj. rewrite R4. exact Hspan. }
  match goal with
  | H : (if ?c then _ else _) = s' |- _ => destruct c
  end; subst s'.
  - split.
    + apply add_line_ok; [exact Q1|]. cbn [rline_width]. destruct Q2 as [q _]. rewrite q. sprj. exact R2.
    + eapply same_trans; [split; eassumption|]. eapply same_trans; [|apply add_line_same'].
      eapply same_trans; [|exact Q2]. split; reflexivity.
  - split; [exact Q1|]. eapply same_trans; [split; eassumption|].
    eapply same_trans; [|exact Q2]. split; reflexivity.
Qed.

(* ================================================================== *)
(* 7. append_vert_row                                                   *)
(* ================================================================== *)

Lemma vert_cols_ok : forall cols s first s',
  sub_ok s -> Forall (fun c => sub_ok c /\ swidth_ c <= swidth_ s) cols ->
  vert_cols s cols first = Ok s' -> sub_ok s' /\ same s s'.
Proof.
  induction cols as [|c cols IH]; intros s first s' Hs Hc H; cbn [vert_cols] in H.
  - ok_inv H. split; [exact Hs|apply same_refl].
  - inversion Hc as [|? ? [Hc1 Hc1'] Hc2]; subst.
    bind_inv H s1 H1. bind_inv H s2 H2.
    assert (A : sub_ok s1 /\ same s s1).
    { destruct (negb first && o_borders (sopts s)).
      - eapply add_horizontal_line_ok; [exact Hs| |exact H1]. rewrite length_border_new_type. lia.
      - ok_inv H1. split; [exact Hs|apply same_refl]. }
    destruct A as [A [A1 A2]].
    destruct (append_subrender_ok s1 c [] [] 0 s2 A Hc1) as [C [C1 C2]];
      [rewrite swidth_nil; lia|rewrite swidth_nil; lia|lia|exact H2|].
    destruct (IH s2 false s' C) as [D E]; [|exact H|].
    + eapply Forall_impl; [|exact Hc2]. intros a [X Y]. split; [exact X|]. lia.
    + split; [exact D|]. eapply same_trans; [|exact E]. split; congruence.
Qed.

Lemma append_vert_row_ok s cols s' :
  sub_ok s -> Forall (fun c => sub_ok c /\ swidth_ c <= swidth_ s) cols ->
  append_vert_row s cols = Ok s' -> sub_ok s' /\ same s s'.
Proof.
  intros Hs Hc H. unfold append_vert_row in H. bind_inv H s1 H1. bind_inv H s2 H2.
  destruct (flush_wrapping_keeps _ _ Hs H1) as [A [A1 A2]].
  destruct (vert_cols_ok cols s1 true s2 A) as [C [C1 C2]]; [|exact H2|].
  { eapply Forall_impl; [|exact Hc]. intros a [X Y]. split; [exact X|]. lia. }
  assert (D : sub_ok s' /\ same s2 s').
  { destruct (o_borders (sopts s2)).
    - apply add_horizontal_border_keeps; assumption.
    - ok_inv H. split; [exact C|apply same_refl]. }
  destruct D as [D [D1 D2]]. split; [exact D|]. split; congruence.
Qed.

(* ================================================================== *)
(* 8. fmt_links (footnote list)                                         *)
(* ================================================================== *)

Definition chars_le (W : N) (t : text) : Prop := Forall (fun c => cw0 c <= W) t.

Lemma fl_chars_ok t : forall cs s buf wl pos,
  sub_ok s -> chars_le (swidth_ s) cs ->
  tl_width_raw wl + swidth buf = pos -> pos <= swidth_ s ->
  let '(s1, buf1, wl1, pos1) := fl_chars s t cs buf wl pos in
  sub_ok s1 /\ same s s1 /\ tl_width_raw wl1 + swidth buf1 = pos1 /\ pos1 <= swidth_ s.
Proof.
  induction cs as [|c cs IH]; intros s buf wl pos Hs Hc Hpos Hle; cbn [fl_chars].
  - split; [exact Hs|]. split; [apply same_refl|auto].
  - inversion Hc as [|? ? Hc1 Hc2]; subst.
    destruct (N.ltb_spec (swidth_ s) (tl_width_raw wl + swidth buf + cw0 c)) as [Hov|Hfit].
    + set (wl1 := match buf with [] => wl | _ :: _ => tl_push_str wl buf t end).
      assert (Hwl1 : tl_width_raw wl1 = tl_width_raw wl + swidth buf).
      { unfold wl1. destruct buf; [rewrite swidth_nil; lia|apply raw_push_str]. }
      destruct (add_line_same' s (RText wl1)) as [a b].
      specialize (IH (add_line s (RText wl1)) [c] tl_new (0 + cw0 c)).
      destruct (fl_chars (add_line s (RText wl1)) t cs [c] tl_new (0 + cw0 c)) as [[[s1 buf1] wl2] pos1].
      destruct IH as (A & B & C & D).
      * apply add_line_ok; [exact Hs|]. cbn [rline_width]. lia.
      * rewrite a. exact Hc2.
      * rewrite raw_new, swidth_cons, swidth_nil. lia.
      * rewrite a. lia.
      * split; [exact A|]. split; [eapply same_trans; [split; eassumption|exact B]|].
        split; [exact C|]. rewrite a in D. exact D.
    + apply IH; auto. rewrite swidth_app, swidth_cons, swidth_nil. lia.
Qed.

Lemma chars_le_nl W t : 1 <= W -> chars_le W t -> chars_le W (nl_to_space t).
Proof.
  intros HW H. unfold chars_le, nl_to_space in *. apply Forall_forall. intros c Hc.
  apply in_map_iff in Hc. destruct Hc as (c0 & <- & Hc0).
  destruct (cp c0 =? 10); [exact HW|]. rewrite Forall_forall in H. apply H, Hc0.
Qed.

Lemma fl_strings_ok : forall strs s wl pos,
  sub_ok s -> 1 <= swidth_ s -> o_wrap_links (sopts s) = true ->
  Forall (fun st => chars_le (swidth_ s) (fst st)) strs ->
  tl_width_raw wl = pos -> pos <= swidth_ s ->
  let '(s1, wl1) := fl_strings s strs wl pos in
  sub_ok s1 /\ same s s1 /\ tl_width_raw wl1 <= swidth_ s.
Proof.
  induction strs as [|[str tg] strs IH]; intros s wl pos Hs Hs1 Hwrap Hc Hpos Hle; cbn [fl_strings].
  - split; [exact Hs|]. split; [apply same_refl|lia].
  - inversion Hc as [|? ? Hc1 Hc2]; subst. cbn [fst] in Hc1.
    rewrite Hwrap. cbn [andb].
    destruct (N.ltb_spec (swidth_ s) (tl_width_raw wl + swidth (nl_to_space str))) as [Hov|Hfit].
    + pose proof (fl_chars_ok [ADefault] (nl_to_space str) s [] wl (tl_width_raw wl) Hs
                    (chars_le_nl _ _ Hs1 Hc1)) as F.
      destruct (fl_chars s [ADefault] (nl_to_space str) [] wl (tl_width_raw wl)) as [[[s1 buf] wl1] pos1].
      destruct F as (A & [B1 B2] & C & D); [rewrite swidth_nil; lia|exact Hle|].
      specialize (IH s1 (tl_push_str wl1 buf [ADefault]) pos1 A ltac:(rewrite B1; exact Hs1)).
      destruct (fl_strings s1 strs (tl_push_str wl1 buf [ADefault]) pos1) as [s2 wl2].
      destruct IH as (E & F & G).
      * congruence.
      * rewrite B1. exact Hc2.
      * rewrite raw_push_str. exact C.
      * rewrite B1. exact D.
      * split; [exact E|]. split; [eapply same_trans; [split; eassumption|exact F]|].
        rewrite B1 in G. exact G.
    + apply IH; auto. rewrite raw_push_str. reflexivity.
Qed.

Lemma fmt_links_ok : forall links s,
  sub_ok s -> 1 <= swidth_ s -> o_wrap_links (sopts s) = true ->
  Forall (fun l => Forall (fun st => chars_le (swidth_ s) (fst st)) (tl_tagged_strings l)) links ->
  sub_ok (fmt_links s links) /\ same s (fmt_links s links).
Proof.
  induction links as [|l links IH]; intros s Hs Hs1 Hwrap Hl; cbn [fmt_links].
  - split; [exact Hs|apply same_refl].
  - inversion Hl as [|? ? Hl1 Hl2]; subst.
    pose proof (fl_strings_ok (tl_tagged_strings l) s tl_new 0 Hs Hs1 Hwrap Hl1 raw_new) as F.
    destruct (fl_strings s (tl_tagged_strings l) tl_new 0) as [s1 wl].
    destruct F as (A & [B1 B2] & C); [lia|].
    destruct (add_line_same' s1 (RText wl)) as [a b].
    destruct (IH (add_line s1 (RText wl))) as [D E].
    + apply add_line_ok; [exact A|]. cbn [rline_width]. lia.
    + rewrite a, B1. exact Hs1.
    + congruence.
    + rewrite a, B1. exact Hl2.
    + split; [exact D|]. eapply same_trans; [|exact E]. split; congruence.
Qed.
(* ================================================================== *)
(* 9. Decorator prefixes                                                *)
(* ================================================================== *)

(* The only property of the decorator that the width bound needs: the ordered-list prefix
   of a number between a and b is no wider than the wider of the prefixes of a and b
   (render_node only measures the prefixes of the first and of the last number of a list).
   True of decimal numbering, hence of plain_deco, rich_deco and (trivially) trivial_deco. *)
Definition ol_prefix_monotone (d : deco) : Prop :=
  forall a i b, (a <= i <= b)%Z ->
    swidth (d_ol_prefix d i) <= N.max (swidth (d_ol_prefix d a)) (swidth (d_ol_prefix d b)).

(* ... and, because the numbering saturates at i64_max while the last measured number is
   then i64_max - 1: the prefix of i64_max is no wider than that of i64_max - 1 *)
Definition ol_prefix_sat (d : deco) : Prop :=
  swidth (d_ol_prefix d i64_max) <= swidth (d_ol_prefix d (i64_max - 1)).

Lemma ascii_text lb l : swidth (of_asciil lb l) = N.of_nat (length l).
Proof. unfold of_asciil. apply swidth_map_w1. reflexivity. Qed.

(* ---- decimal printing ---- *)
Fixpoint ndig (f : nat) (n : N) : nat :=
  match f with
  | O => O
  | S f' => if n / 10 =? 0 then 1%nat else S (ndig f' (n / 10))
  end.

Lemma dec_pos_fuel_len : forall f n acc,
  length (dec_pos_fuel f n acc) = (ndig f n + length acc)%nat.
Proof.
  induction f as [|f IH]; intros n acc; cbn [dec_pos_fuel ndig]; [reflexivity|].
  destruct (n / 10 =? 0); [reflexivity|]. rewrite IH. cbn [length]. lia.
Qed.

Lemma pow2_succ f : 2 ^ N.of_nat (S f) = 2 * 2 ^ N.of_nat f.
Proof. rewrite Nat2N.inj_succ, N.pow_succ_r'. reflexivity. Qed.

Lemma ndig_pos f n : (1 <= f)%nat -> (1 <= ndig f n)%nat.
Proof. destruct f; [lia|]. intros _. cbn [ndig]. destruct (n / 10 =? 0); lia. Qed.

Lemma ndig_mono : forall f n f' m,
  n <= m -> n < 2 ^ N.of_nat f -> (1 <= f)%nat -> m < 2 ^ N.of_nat f' -> (1 <= f')%nat ->
  (ndig f n <= ndig f' m)%nat.
Proof.
  induction f as [|f IH]; intros n f' m Hnm Hn Hf Hm Hf'; [lia|].
  destruct f' as [|f']; [lia|]. cbn [ndig].
  rewrite pow2_succ in Hn, Hm.
  destruct (N.eqb_spec (n / 10) 0) as [En|En].
  - destruct (m / 10 =? 0); lia.
  - destruct (N.eqb_spec (m / 10) 0) as [Em|Em]; [exfalso; lia|].
    apply le_n_S. apply IH.
    + lia.
    + lia.
    + destruct f; [|lia]. cbn in Hn. lia.
    + lia.
    + destruct f'; [|lia]. cbn in Hm. lia.
Qed.

Lemma lt_pow2_log2 n : n < 2 ^ N.of_nat (S (N.to_nat (N.log2 n))).
Proof.
  rewrite Nat2N.inj_succ, N2Nat.id.
  destruct (N.eq_dec n 0) as [->|Hn]; [reflexivity|].
  apply N.log2_spec. lia.
Qed.

Lemma dec_N_len n : length (dec_N n) = ndig (S (N.to_nat (N.log2 n))) n.
Proof. unfold dec_N. rewrite dec_pos_fuel_len. cbn [length]. lia. Qed.

Lemma dec_N_len_mono n m : n <= m -> (length (dec_N n) <= length (dec_N m))%nat.
Proof.
  intros H. rewrite !dec_N_len.
  apply ndig_mono; [exact H|apply lt_pow2_log2|lia|apply lt_pow2_log2|lia].
Qed.

Lemma dec_N_len_pos n : (1 <= length (dec_N n))%nat.
Proof. rewrite dec_N_len. apply ndig_pos. lia. Qed.

Lemma dec_Z_len_mono a i b : (a <= i <= b)%Z ->
  (length (dec_Z i) <= Nat.max (length (dec_Z a)) (length (dec_Z b)))%nat.
Proof.
  intros [Ha Hb]. destruct i as [|p|p].
  - destruct b as [|q|q]; [cbn; lia| |lia]. cbn [dec_Z length].
    pose proof (dec_N_len_pos (N.pos q)). lia.
  - destruct b as [|q|q]; [lia| |lia]. cbn [dec_Z].
    pose proof (dec_N_len_mono (N.pos p) (N.pos q) ltac:(lia)). lia.
  - destruct a as [|q|q]; [lia|lia|]. cbn [dec_Z length].
    pose proof (dec_N_len_mono (N.pos p) (N.pos q) ltac:(lia)). lia.
Qed.

Lemma decimal_ol_prefix_monotone (f : Z -> text) :
  (forall i, f i = ptext (dec_Z i ++ [46; 32])) ->
  forall a i b, (a <= i <= b)%Z -> swidth (f i) <= N.max (swidth (f a)) (swidth (f b)).
Proof.
  intros Hf a i b H. rewrite !Hf. unfold ptext. rewrite !ascii_text, !app_length.
  pose proof (dec_Z_len_mono a i b H). cbn [length]. lia.
Qed.

Lemma ol_prefix_monotone_plain : ol_prefix_monotone plain_deco.
Proof. exact (decimal_ol_prefix_monotone (d_ol_prefix plain_deco) (fun _ => eq_refl)). Qed.

Lemma ol_prefix_monotone_rich : ol_prefix_monotone rich_deco.
Proof. exact (decimal_ol_prefix_monotone (d_ol_prefix rich_deco) (fun _ => eq_refl)). Qed.

Lemma ol_prefix_monotone_trivial : ol_prefix_monotone trivial_deco.
Proof. intros a i b _. cbn. lia. Qed.

Lemma ol_prefix_sat_plain : ol_prefix_sat plain_deco.
Proof. unfold ol_prefix_sat. vm_compute. discriminate. Qed.
Lemma ol_prefix_sat_rich : ol_prefix_sat rich_deco.
Proof. unfold ol_prefix_sat. vm_compute. discriminate. Qed.
Lemma ol_prefix_sat_trivial : ol_prefix_sat trivial_deco.
Proof. unfold ol_prefix_sat. vm_compute. discriminate. Qed.

(* padding to a number of characters / to a display width *)
Lemma swidth_pad_chars s n :
  swidth (pad_chars s n) = swidth s + N.of_nat (N.to_nat n - length s).
Proof.
  unfold pad_chars. rewrite swidth_app, swidth_repeat_w1; reflexivity.
Qed.

Lemma swidth_pad_width s n : swidth (pad_width s n) = N.max (swidth s) n.
Proof.
  unfold pad_width. rewrite swidth_app, swidth_repeat_w1 by reflexivity. lia.
Qed.
(* ================================================================== *)
(* 10. Induction principle for the (mutual, nested) render tree         *)
(* ================================================================== *)

Definition row_kids (r : rrow) : list rnode := flat_map cell_content (row_cells r).

Definition direct_kids (i : rinfo) : list rnode :=
  match i with
  | IText _ | IImg _ _ | IBreak | IFragStart _ => []
  | IContainer cs | ILink _ cs | IEm cs | IStrong cs | IStrikeout cs | ICode cs | IBlock cs
  | IHeader _ cs | IDiv cs | IBlockQuote cs | IUl cs | IOl _ cs | IDl cs | IDt cs | IDd cs
  | IListItem cs | ISup cs => cs
  | ITable rows _ | ITableBody rows => flat_map row_kids rows
  | ITableRow r => row_kids r
  | ITableCell c => cell_content c
  end.

Section RnodeInd.
  Variable P : rnode -> Prop.
  Hypothesis H : forall i sty, Forall P (direct_kids i) -> P (RN i sty).

  Definition Forall_app_t {A} (Q : A -> Prop) : forall l1 l2 : list A,
      Forall Q l1 -> Forall Q l2 -> Forall Q (l1 ++ l2) :=
    fix go l1 l2 h1 h2 {struct h1} :=
      match h1 in Forall _ l return Forall Q (l ++ l2) with
      | Forall_nil _ => h2
      | @Forall_cons _ _ x l hx hr => @Forall_cons _ Q x (l ++ l2) hx (go l l2 hr h2)
      end.

  Fixpoint rnode_ind' (n : rnode) : P n :=
    let list_all :=
        fix list_all (cs : list rnode) : Forall P cs :=
          match cs with
          | [] => Forall_nil P
          | c :: cs' => @Forall_cons _ P c cs' (rnode_ind' c) (list_all cs')
          end in
    let cell_all (c : rcell) : Forall P (cell_content c) :=
        match c with RCell _ k _ => list_all k end in
    let cells_all :=
        fix cells_all (cells : list rcell) : Forall P (flat_map cell_content cells) :=
          match cells with
          | [] => Forall_nil P
          | c :: cells' => Forall_app_t P _ _ (cell_all c) (cells_all cells')
          end in
    let row_all (r : rrow) : Forall P (row_kids r) :=
        match r with RRow cells _ => cells_all cells end in
    let rows_all :=
        fix rows_all (rows : list rrow) : Forall P (flat_map row_kids rows) :=
          match rows with
          | [] => Forall_nil P
          | r :: rows' => Forall_app_t P _ _ (row_all r) (rows_all rows')
          end in
    match n with
    | RN i sty =>
      H i sty
        (match i return Forall P (direct_kids i) with
         | IText _ | IImg _ _ | IBreak | IFragStart _ => Forall_nil P
         | IContainer cs | ILink _ cs | IEm cs | IStrong cs | IStrikeout cs | ICode cs | IBlock cs
         | IHeader _ cs | IDiv cs | IBlockQuote cs | IUl cs | IOl _ cs | IDl cs | IDt cs | IDd cs
         | IListItem cs | ISup cs => list_all cs
         | ITable rows _ | ITableBody rows => rows_all rows
         | ITableRow r => row_all r
         | ITableCell c => cell_all c
         end)
    end.
End RnodeInd.

(* ================================================================== *)
(* 11. Table arithmetic                                                 *)
(* ================================================================== *)

Fixpoint somes (l : list (option N)) : list N :=
  match l with
  | [] => []
  | Some w :: l' => w :: somes l'
  | None :: l' => somes l'
  end.

Lemma shrink_loop_ok : forall fuel width mins ws_ r,
  shrink_loop fuel width mins ws_ = Ok r -> sumN r + N.of_nat (length r) - 1 <= width.
Proof.
  induction fuel as [|f IH]; intros width mins ws_ r H; cbn [shrink_loop] in H.
  - destruct (N.leb_spec (sumN ws_ + N.of_nat (length ws_) - 1) width); [|discriminate].
    ok_inv H. assumption.
  - destruct (N.leb_spec (sumN ws_ + N.of_nat (length ws_) - 1) width); [ok_inv H; assumption|].
    destruct (argmax_col ws_ mins 0 None) as [i|]; [|discriminate].
    destruct (nth_opt ws_ (N.to_nat i)) as [[|p]|]; try discriminate.
    eapply IH, H.
Qed.

Lemma skipn_add {A} : forall a b (l : list A), skipn (a + b) l = skipn b (skipn a l).
Proof.
  induction a as [|a IH]; intros b l; [reflexivity|].
  destruct l as [|x l]; cbn [Nat.add skipn]; [destruct b; reflexivity|apply IH].
Qed.

Lemma sumN_app a b : sumN (a ++ b) = sumN a + sumN b.
Proof. induction a as [|x a IH]; cbn [app sumN]; lia. Qed.

Lemma sumN_firstn_skipn k l : sumN (firstn k l) + sumN (skipn k l) = sumN l.
Proof. rewrite <- sumN_app, firstn_skipn. reflexivity. Qed.

Lemma cell_widths_h ws_ : forall cells colno cws,
  cell_widths false ws_ cells colno = Ok cws ->
  Forall (fun w => 1 <= w) (somes cws) /\
  sspan (somes cws) <= sumN (skipn (N.to_nat colno) ws_) + (N.of_nat (length ws_) - colno).
Proof.
  induction cells as [|c cells IH]; intros colno cws H; cbn [cell_widths] in H.
  - ok_inv H. cbn [somes]. split; [constructor|]. rewrite sspan_nil. lia.
  - bind_inv H cw_ H1. bind_inv H r H2.
    destruct (N.ltb_spec (N.of_nat (length ws_)) (colno + cell_colspan c)) as [|Hlen];
      [discriminate|]. ok_inv H1.
    destruct (IH _ _ H2) as [A B].
    rewrite N2Nat.inj_add, skipn_add in B.
    pose proof (sumN_firstn_skipn (N.to_nat (cell_colspan c)) (skipn (N.to_nat colno) ws_)) as E.
    destruct (N.ltb_spec 0 (sumN (firstn (N.to_nat (cell_colspan c)) (skipn (N.to_nat colno) ws_))))
      as [Hpos|Hz].
    + bind_inv H w1 H3. bind_inv H w2 H4. ok_inv H.
      unfold uadd in H3.
      destruct (_ + cell_colspan c <=? usize_max); [|discriminate]. ok_inv H3.
      unfold usub in H4. destruct (N.leb_spec 1 (sumN (firstn (N.to_nat (cell_colspan c))
                                    (skipn (N.to_nat colno) ws_)) + cell_colspan c));
        [|discriminate]. ok_inv H4.
      assert (Hc : 1 <= cell_colspan c).
      { destruct (N.eq_dec (cell_colspan c) 0) as [Ez|]; [|lia].
        rewrite Ez in Hpos. change (N.to_nat 0) with 0%nat in Hpos. cbn [firstn sumN] in Hpos. lia. }
      cbn [somes]. split; [constructor; [lia|exact A]|]. rewrite sspan_cons. lia.
    + ok_inv H. cbn [somes]. split; [exact A|]. lia.
Qed.

Lemma cell_widths_v ws_ : forall cells colno cws,
  cell_widths true ws_ cells colno = Ok cws ->
  Forall (fun w => 1 <= w /\ In w ws_) (somes cws).
Proof.
  induction cells as [|c cells IH]; intros colno cws H; cbn [cell_widths] in H.
  - ok_inv H. constructor.
  - bind_inv H cw_ H1. bind_inv H r H2. specialize (IH _ _ H2).
    destruct (nth_opt ws_ (N.to_nat colno)) as [w|] eqn:En; [|discriminate]. ok_inv H1.
    destruct (N.ltb_spec 0 cw_).
    + ok_inv H. cbn [somes]. constructor; [|exact IH]. split; [lia|]. eapply nth_opt_In, En.
    + ok_inv H. exact IH.
Qed.

Lemma filter_length_le {A} (f : A -> bool) l : (length (filter f l) <= length l)%nat.
Proof. induction l as [|a l IH]; cbn [filter length]; [lia|]. destruct (f a); cbn [length]; lia. Qed.

(* ================================================================== *)
(* 12. The render layer                                                 *)
(* ================================================================== *)

Definition shape (st : rstate) : list (N * ropts) :=
  map (fun s => (swidth_ s, sopts s)) (stack st).
Definition topw (st : rstate) : option N :=
  match stack st with s :: _ => Some (swidth_ s) | [] => None end.

Lemma shape_topw a b : shape a = shape b -> topw a = topw b.
Proof.
  unfold shape, topw. destruct (stack a), (stack b); cbn [map]; intros E; try discriminate;
    [reflexivity|]. injection E as E1 _ _. congruence.
Qed.

Section RenderLayer.
  Variable d : deco.
  Variable mw : N.
  Variable fn : bool.     (* footnotes are on: link targets are checked *)
  Variable W : N.         (* the bound on the width of link-target characters *)
  Hypothesis Hd : ol_prefix_monotone d.
  Hypothesis Hsat : ol_prefix_sat d.

  (* The decidable side condition on the tree (see the header comment of the file). *)
  Fixpoint tree_ok (n : rnode) {struct n} : bool :=
    match rn_info n with
    | IText _ | IImg _ _ | IBreak | IFragStart _ => true
    | IContainer cs | IEm cs | IStrong cs | IStrikeout cs | ICode cs | IBlock cs | IListItem cs
    | IDiv cs | IDl cs | IDt cs | ISup cs | IHeader _ cs | IBlockQuote cs | IUl cs | IDd cs =>
      forallb tree_ok cs
    | ILink href cs =>
      (negb fn || forallb (fun c => cw0 c <=? W) href) && forallb tree_ok cs
    | IOl start cs => (i64_min <=? start)%Z && forallb tree_ok cs
    | ITable rows _ =>
      forallb (fun r => match r with
                        | RRow cells _ =>
                          forallb (fun c => match c with
                                            | RCell _ k _ => forallb tree_ok k
                                            end) cells
                        end) rows
    | ITableBody _ | ITableRow _ | ITableCell _ => true
    end.

  Definition st_inv (st : rstate) : Prop :=
    Forall sub_ok (stack st) /\ (fn = true -> Forall (chars_le W) (links st)).

  (* st' is a good state with the same sub-renderer widths and options as st *)
  Definition R (st st' : rstate) : Prop := st_inv st' /\ shape st' = shape st.

  Lemma R_refl st : st_inv st -> R st st.
  Proof. intros H. split; [exact H|reflexivity]. Qed.
  Lemma R_trans a b c : R a b -> R b c -> R a c.
  Proof. intros [A1 A2] [B1 B2]. split; [exact B1|congruence]. Qed.

  Definition keepsW (a : N) (f : subr -> res subr) : Prop :=
    forall s s', sub_ok s -> swidth_ s = a -> f s = Ok s' -> sub_ok s' /\ same s s'.

  Lemma with_top_inv st f st' :
    with_top st f = Ok st' ->
    exists s rest s', stack st = s :: rest /\ f s = Ok s' /\ st' = mkrst (s' :: rest) (links st).
  Proof.
    unfold with_top. destruct (stack st) as [|s rest]; [discriminate|]. intros H.
    bind_inv H s' Hs. ok_inv H. exists s, rest, s'. auto.
  Qed.

  Lemma with_top_RW a f st st' :
    keepsW a f -> topw st = Some a -> st_inv st -> with_top st f = Ok st' -> R st st'.
  Proof.
    intros Hk Ht [Hi1 Hi2] H. destruct (with_top_inv _ _ _ H) as (s & rest & s' & Es & Ef & ->).
    unfold topw in Ht. rewrite Es in *. injection Ht as Ht.
    inversion Hi1 as [|? ? Hs Hrest]; subst.
    destruct (Hk s s' Hs eq_refl Ef) as [A [B1 B2]].
    split; [split|].
    - cbn [stack]. constructor; assumption.
    - exact Hi2.
    - unfold shape. cbn [stack]. rewrite Es. cbn [map]. congruence.
  Qed.

  Lemma with_top_R f st st' : keeps f -> st_inv st -> with_top st f = Ok st' -> R st st'.
  Proof.
    intros Hk Hi H. destruct (with_top_inv _ _ _ H) as (s & rest & s' & Es & Ef & E).
    eapply (with_top_RW (swidth_ s) f); [|unfold topw; rewrite Es; reflexivity|exact Hi|exact H].
    intros x x' Hx _ Hf. apply Hk; assumption.
  Qed.

  Lemma with_top'_R g st st' :
    keeps (fun s => Ok (g s)) -> st_inv st -> with_top' st g = Ok st' -> R st st'.
  Proof. unfold with_top'. apply with_top_R. Qed.

  Lemma apply_style_R st cs st' p : st_inv st -> apply_style d st cs = Ok (st', p) -> R st st'.
  Proof.
    intros Hi H. unfold apply_style in H.
    bind_inv H st1 H1. bind_inv H st2 H2. bind_inv H st3 H3. bind_inv H st4 H4.
    injection H as <- _.
    assert (R1 : R st st1).
    { destruct (ws_val (c_colour (cs_core cs))) as [[[r g] b]|].
      - eapply with_top'_R; [apply push_colour_pure|exact Hi|exact H1].
      - ok_inv H1. apply R_refl, Hi. }
    assert (R2 : R st1 st2).
    { destruct (ws_val (c_bg (cs_core cs))) as [[[r g] b]|].
      - eapply with_top'_R; [apply push_bgcolour_pure|exact (proj1 R1)|exact H2].
      - ok_inv H2. apply R_refl, R1. }
    assert (R3 : R st2 st3).
    { destruct (match ws_val (c_white_space (cs_core cs)) with
                | Some WsPre => Some WsPre
                | Some WsPreWrap => Some WsPreWrap
                | _ => None
                end) as [m|].
      - eapply with_top'_R; [apply push_ws_mode_pure|exact (proj1 R2)|exact H3].
      - ok_inv H3. apply R_refl, R2. }
    assert (R4 : R st3 st4).
    { destruct (cs_internal_pre cs).
      - eapply with_top'_R; [apply push_preformat_pure|exact (proj1 R3)|exact H4].
      - ok_inv H4. apply R_refl, R3. }
    eapply R_trans; [|exact R4]. eapply R_trans; [|exact R3]. eapply R_trans; eassumption.
  Qed.

  Lemma unwind_R p st st' : st_inv st -> unwind d p st = Ok st' -> R st st'.
  Proof.
    intros Hi H. unfold unwind in H.
    bind_inv H st1 H1. bind_inv H st2 H2. bind_inv H st3 H3.
    assert (R1 : R st st1).
    { destruct (p_bg p).
      - eapply with_top'_R; [apply pop_colour_pure|exact Hi|exact H1].
      - ok_inv H1. apply R_refl, Hi. }
    assert (R2 : R st1 st2).
    { destruct (p_colour p).
      - eapply with_top'_R; [apply pop_colour_pure|exact (proj1 R1)|exact H2].
      - ok_inv H2. apply R_refl, R1. }
    assert (R3 : R st2 st3).
    { destruct (p_ws p).
      - eapply with_top'_R; [apply pop_ws_mode_pure|exact (proj1 R2)|exact H3].
      - ok_inv H3. apply R_refl, R2. }
    assert (R4 : R st3 st').
    { destruct (p_pre p).
      - eapply with_top_R; [apply pop_preformat_keeps|exact (proj1 R3)|exact H].
      - ok_inv H. apply R_refl, R3. }
    eapply R_trans; [|exact R4]. eapply R_trans; [|exact R3]. eapply R_trans; eassumption.
  Qed.

  Lemma inline_text_R t st st' : st_inv st -> inline_text d st t = Ok st' -> R st st'.
  Proof. unfold inline_text. apply with_top_R, add_inline_text_keeps. Qed.

  (* ---- the per-node property and the fold over children ---- *)
  Definition node_ok (n : rnode) : Prop :=
    forall st st', tree_ok n = true -> st_inv st -> render_node d mw n st = Ok st' -> R st st'.

  Lemma render_kids_R cs st st' :
    Forall node_ok cs -> forallb tree_ok cs = true -> st_inv st ->
    fold_left (fun acc c => do s <- acc; render_node d mw c s) cs (Ok st) = Ok st' -> R st st'.
  Proof.
    intros HF Ht Hi H.
    apply (fold_bind_inv (fun a => R st a) (render_node d mw) cs) with (a := st); [|apply R_refl, Hi|exact H].
    intros c Hc a a' Ra Hr. eapply R_trans; [exact Ra|].
    rewrite Forall_forall in HF. rewrite forallb_forall in Ht.
    apply (HF c Hc a a' (Ht c Hc) (proj1 Ra) Hr).
  Qed.

  (* ---- nested sub-renderers ---- *)
  Lemma top_inv st tp : top st = Ok tp -> exists rest, stack st = tp :: rest.
  Proof. unfold top. destruct (stack st); [discriminate|]. intros [= ->]. eauto. Qed.

  Lemma top_topw st tp : top st = Ok tp -> topw st = Some (swidth_ tp).
  Proof. intros H. destruct (top_inv _ _ H) as [rest E]. unfold topw. rewrite E. reflexivity. Qed.

  Lemma top_sub_ok st tp : st_inv st -> top st = Ok tp -> sub_ok tp.
  Proof.
    intros [Hi _] H. destruct (top_inv _ _ H) as [rest E]. rewrite E in Hi.
    inversion Hi; assumption.
  Qed.

  Lemma push_inv st tp w :
    st_inv st -> top st = Ok tp -> st_inv (push_sub st (new_sub_renderer tp w)).
  Proof.
    intros Hi Ht. pose proof (top_sub_ok _ _ Hi Ht) as (Ho & _).
    destruct Hi as [Hi1 Hi2]. split.
    - cbn [push_sub stack]. constructor; [apply new_sub_renderer_ok; assumption|exact Hi1].
    - exact Hi2.
  Qed.

  Lemma sub_scope st tp w st2 sub st3 :
    st_inv st -> top st = Ok tp -> R (push_sub st (new_sub_renderer tp w)) st2 ->
    pop_sub st2 = Ok (sub, st3) ->
    R st st3 /\ sub_ok sub /\ swidth_ sub = w.
  Proof.
    intros Hi Ht [[I1 I2] E] Hp. unfold pop_sub in Hp.
    destruct (stack st2) as [|s rest] eqn:Es; [discriminate|]. injection Hp as -> <-.
    inversion I1 as [|? ? Hs Hr]; subst.
    unfold shape in E. rewrite Es in E. cbn [push_sub stack map] in E. injection E as E1 E2 E3.
    split; [split; [split|]|split].
    - exact Hr.
    - exact I2.
    - exact E3.
    - exact Hs.
    - exact E1.
  Qed.

  Lemma width_minus_ok tp p m w :
    o_allow_overflow (sopts tp) = false -> width_minus tp p m = Ok w ->
    w = swidth_ tp - p /\ m <= w /\ p <= swidth_ tp.
  Proof.
    unfold width_minus. intros Ho H. rewrite Ho in H. cbn [negb] in H. rewrite andb_true_r in H.
    destruct (N.ltb_spec (swidth_ tp - p) m); [discriminate|].
    destruct (N.ltb_spec (swidth_ tp) p); [discriminate|]. cbn [orb] in H. ok_inv H. lia.
  Qed.

  (* a prefixed block: width_minus, push, body, pop; afterwards the child can be appended
     with any prefixes of at most p columns *)
  Lemma prefixed_scope st tp p m w st2 sub st3 :
    st_inv st -> top st = Ok tp -> width_minus tp p m = Ok w ->
    (st_inv (push_sub st (new_sub_renderer tp w)) ->
     R (push_sub st (new_sub_renderer tp w)) st2) ->
    pop_sub st2 = Ok (sub, st3) ->
    R st st3 /\
    forall first rest, swidth first <= p -> swidth rest <= p ->
      keepsW (swidth_ tp) (fun s => append_subrender s sub first rest).
  Proof.
    intros Hi Ht Hw Hbody Hp.
    pose proof (top_sub_ok _ _ Hi Ht) as Htp. pose proof Htp as (Ho & _).
    destruct (width_minus_ok _ _ _ _ Ho Hw) as (Ew & Hm & Hple).
    pose proof (push_inv st tp w Hi Ht) as Hi1.
    destruct (sub_scope st tp w st2 sub st3 Hi Ht (Hbody Hi1) Hp) as (R3 & Hsub & Esub).
    split; [exact R3|].
    intros first rest H1 H2 s s' Hs Es Happ.
    eapply (append_subrender_ok s sub first rest p); try eassumption. lia.
  Qed.

  (* ---- the simple node kinds ---- *)
  Ltac start H Hinv sz ap st1 ps R1 :=
    let Hsz := fresh "Hsz" in let Hap := fresh "Hap" in
    bind_inv H sz Hsz; bind_inv H ap Hap; destruct ap as [st1 ps];
    pose proof (apply_style_R _ _ _ _ Hinv Hap) as R1.

  Lemma wrap_case (f1 f2 : subr -> res subr) cs ps st1 st' :
    keeps f1 -> keeps f2 -> Forall node_ok cs -> forallb tree_ok cs = true ->
    st_inv st1 ->
    (do a <- with_top st1 f1;
     do b <- fold_left (fun acc c => do s <- acc; render_node d mw c s) cs (Ok a);
     do c <- with_top b f2; unwind d ps c) = Ok st' -> R st1 st'.
  Proof.
    intros K1 K2 HF Ht Hi H.
    bind_inv H a H1. bind_inv H b H2. bind_inv H c H3.
    pose proof (with_top_R _ _ _ K1 Hi H1) as Ra.
    pose proof (render_kids_R _ _ _ HF Ht (proj1 Ra) H2) as Rb.
    pose proof (with_top_R _ _ _ K2 (proj1 Rb) H3) as Rc.
    pose proof (unwind_R _ _ _ (proj1 Rc) H) as Rd.
    eapply R_trans; [exact Ra|]. eapply R_trans; [exact Rb|]. eapply R_trans; eassumption.
  Qed.

  Lemma fold_bind_cons {A B} (f : B -> A -> res A) b l a a' :
    fold_left (fun acc b => do s <- acc; f b s) (b :: l) (Ok a) = Ok a' ->
    exists a1, f b a = Ok a1 /\ fold_left (fun acc b => do s <- acc; f b s) l (Ok a1) = Ok a'.
  Proof.
    cbn [fold_left bind]. destruct (f b a) as [a1| | |] eqn:E; intros H.
    - eauto.
    - exfalso. revert H. apply fold_bind_err. discriminate.
    - exfalso. revert H. apply fold_bind_err. discriminate.
    - exfalso. revert H. apply fold_bind_err. discriminate.
  Qed.

  (* ---- ordered lists ---- *)
  Definition ol_step (sz : est) (pw : N) (item : rnode) (si : rstate * Z) : res (rstate * Z) :=
    let '(s, i) := si in
    do inner_min <- usub 23 (e_min sz) (e_prefix sz);
    do tp <- top s;
    do w <- width_minus tp pw inner_min;
    do s2 <- render_node d mw item (push_sub s (new_sub_renderer tp w));
    do pp <- pop_sub s2;
    let '(sub, s3) := pp in
    do s4 <- with_top s3 (fun t => append_subrender t sub (pad_width (d_ol_prefix d i) pw)
                                                    (pad_chars [] pw));
    Ok (s4, isat64 (i + 1)).

  (* the number of the k-th item (k = 0, 1, ...) of a list starting at start0 >= i64_min:
     isat64 (i + 1) iterated *)
  Definition ol_idx (start0 : Z) (k : nat) : Z :=
    match k with O => start0 | S _ => Z.min (start0 + Z.of_nat k) i64_max end.

  Lemma ol_idx_succ start0 k :
    (i64_min <= start0)%Z -> isat64 (ol_idx start0 k + 1) = ol_idx start0 (S k).
  Proof.
    intros H. unfold isat64, ol_idx, i64_min, i64_max in *. destruct k; lia.
  Qed.

  Lemma ol_items_R sz pw start0 (n : nat) : forall items k s r,
    Forall node_ok items -> forallb tree_ok items = true ->
    (forall j, (j < n)%nat -> swidth (d_ol_prefix d (ol_idx start0 j)) <= pw) ->
    (k + length items = n)%nat -> (i64_min <= start0)%Z ->
    st_inv s ->
    fold_left (fun acc item => do si <- acc; ol_step sz pw item si) items
              (Ok (s, ol_idx start0 k)) = Ok r ->
    R s (fst r).
  Proof.
    induction items as [|item items IH]; intros k s r HF Ht Hlen Hk Hmin Hi H.
    - cbn [fold_left] in H. ok_inv H. apply R_refl, Hi.
    - apply fold_bind_cons in H. destruct H as ([s4 i'] & Hstep & H).
      pose proof (Forall_inv HF) as HF1. pose proof (Forall_inv_tail HF) as HF2.
      cbn [forallb] in Ht. apply andb_true_iff in Ht. destruct Ht as [Ht1 Ht2].
      cbn [length] in Hk.
      unfold ol_step in Hstep.
      bind_inv Hstep iw Hiw. unfold usub in Hiw.
      destruct (e_prefix sz <=? e_min sz); [|discriminate]. ok_inv Hiw.
      bind_inv Hstep tp Htp. bind_inv Hstep w Hw. bind_inv Hstep s2 Hs2. bind_inv Hstep pp Hpp.
      destruct pp as [sub s3]. bind_inv Hstep s4' H4. injection Hstep as -> <-.
      destruct (prefixed_scope _ _ _ _ _ s2 sub s3 Hi Htp Hw) as [R3 Kapp]; [|exact Hpp|].
      { intros Ip. eapply HF1; [exact Ht1|exact Ip|exact Hs2]. }
      assert (R4 : R s3 s4).
      { eapply (with_top_RW (swidth_ tp)); [|
          rewrite (shape_topw _ _ (proj2 R3)); apply top_topw, Htp|exact (proj1 R3)|exact H4].
        apply Kapp.
        - rewrite swidth_pad_width. specialize (Hlen k ltac:(lia)). lia.
        - rewrite swidth_pad_chars, swidth_nil. cbn [length]. lia. }
      assert (R04 : R s s4) by (eapply R_trans; eassumption).
      eapply R_trans; [exact R04|].
      rewrite (ol_idx_succ _ _ Hmin) in H.
      eapply (IH (S k) s4 r); try eassumption; try lia.
      exact (proj1 R04).
  Qed.

  (* ---- tables ---- *)
  Fixpoint cells_loop (cells : list rcell) (wsl : list (option N)) (s2 : rstate)
           (subs : list subr) {struct cells} : res (rstate * list subr) :=
    match cells, wsl with
    | RCell _ content cstyle_ :: cells', Some w :: wsl' =>
      do tp2 <- top s2;
      let s3 := push_sub s2 (new_sub_renderer tp2 w) in
      do apc <- apply_style d s3 cstyle_;
      let '(s4, pcell) := apc in
      do s5 <- fold_left (fun acc c => do s <- acc; render_node d mw c s) content (Ok s4);
      do s6 <- unwind d pcell s5;
      do pp <- pop_sub s6;
      let '(sub, s7) := pp in
      cells_loop cells' wsl' s7 (subs ++ [sub])
    | _ :: cells', None :: wsl' => cells_loop cells' wsl' s2 subs
    | _, _ => Ok (s2, subs)
    end.

  Definition cell_tree_ok (c : rcell) : bool :=
    match c with RCell _ k _ => forallb tree_ok k end.

  Lemma cells_loop_ok : forall cells wsl s2 subs r,
    Forall (fun c => Forall node_ok (cell_content c)) cells ->
    forallb cell_tree_ok cells = true ->
    st_inv s2 -> Forall sub_ok subs ->
    cells_loop cells wsl s2 subs = Ok r ->
    R s2 (fst r) /\ Forall sub_ok (snd r) /\
    exists used rest, map swidth_ (snd r) = map swidth_ subs ++ used /\ somes wsl = used ++ rest.
  Proof.
    induction cells as [|[n content csty] cells IH]; intros wsl s2 subs r HF Ht Hi Hs H;
      cbn [cells_loop] in H.
    - ok_inv H. cbn [fst snd]. split; [apply R_refl, Hi|]. split; [exact Hs|].
      exists [], (somes wsl). rewrite app_nil_r. auto.
    - inversion HF as [|? ? HF1 HF2]; subst. cbn [cell_content] in HF1.
      cbn [forallb cell_tree_ok] in Ht. apply andb_true_iff in Ht. destruct Ht as [Ht1 Ht2].
      destruct wsl as [|[w|] wsl].
      + ok_inv H. cbn [fst snd]. split; [apply R_refl, Hi|]. split; [exact Hs|].
        exists [], []. rewrite app_nil_r. auto.
      + bind_inv H tp2 Htp. bind_inv H apc Hap. destruct apc as [s4 pcell].
        bind_inv H s5 H5. bind_inv H s6 H6. bind_inv H pp Hpp. destruct pp as [sub s7].
        pose proof (push_inv s2 tp2 w Hi Htp) as Ip.
        pose proof (apply_style_R _ _ _ _ Ip Hap) as Ra.
        pose proof (render_kids_R _ _ _ HF1 Ht1 (proj1 Ra) H5) as Rb.
        pose proof (unwind_R _ _ _ (proj1 Rb) H6) as Rc.
        destruct (sub_scope s2 tp2 w s6 sub s7 Hi Htp
                    (R_trans _ _ _ Ra (R_trans _ _ _ Rb Rc)) Hpp) as (R7 & Hsub & Esub).
        destruct (IH wsl s7 (subs ++ [sub]) r HF2 Ht2 (proj1 R7))
          as (R8 & Hs8 & used & rest & E1 & E2); [|exact H|].
        { apply Forall_app. split; [exact Hs|]. constructor; [exact Hsub|constructor]. }
        split; [eapply R_trans; eassumption|]. split; [exact Hs8|].
        exists (w :: used), rest. rewrite E1, map_app. cbn [map somes].
        rewrite Esub, <- app_assoc. cbn [app]. rewrite E2. auto.
      + cbn [somes]. apply (IH wsl s2 subs r HF2 Ht2 Hi Hs H).
  Qed.

  Definition row_body (vr : bool) (col_widths : list N) (r : rrow) (s : rstate) : res rstate :=
    match r with
    | RRow rcells rstyle =>
      do apr <- apply_style d s rstyle;
      let '(s1, prow) := apr in
      do cws <- cell_widths vr col_widths rcells 0;
      do rr <- cells_loop rcells cws s1 [];
      let '(s8, subs) := rr in
      do s9 <- (if vr
                then with_top s8 (fun t => append_vert_row t subs)
                else if existsb (fun c => negb (sub_empty c)) subs
                     then with_top s8 (fun t => append_columns_with_borders t subs true)
                     else Ok s8);
      unwind d prow s9
    end.

  Lemma row_body_R vr col_widths width r s s' :
    (vr = true -> forall w, In w col_widths -> w = width) ->
    (vr = false -> sspan col_widths <= width + 1) ->
    Forall (fun c => Forall node_ok (cell_content c)) (row_cells r) ->
    forallb cell_tree_ok (row_cells r) = true ->
    st_inv s -> topw s = Some width ->
    row_body vr col_widths r s = Ok s' -> R s s'.
  Proof.
    intros Hv Hh HF Ht Hi Htw H. destruct r as [rcells rstyle]. cbn [row_cells] in *.
    unfold row_body in H.
    bind_inv H apr Hap. destruct apr as [s1 prow]. bind_inv H cws Hcws. bind_inv H rr Hrr.
    destruct rr as [s8 subs]. bind_inv H s9 H9.
    pose proof (apply_style_R _ _ _ _ Hi Hap) as R1.
    destruct (cells_loop_ok rcells cws s1 [] (s8, subs) HF Ht (proj1 R1) (Forall_nil _) Hrr)
      as (R8 & Hsubs & used & rest & E1 & E2).
    cbn [fst snd map app] in *.
    assert (Htw8 : topw s8 = Some width).
    { rewrite (shape_topw _ _ (proj2 R8)), (shape_topw _ _ (proj2 R1)). exact Htw. }
    assert (R9 : R s8 s9).
    { destruct vr.
      - eapply (with_top_RW width); [|exact Htw8|exact (proj1 R8)|exact H9].
        intros t t' Hst Et Happ. eapply append_vert_row_ok; [exact Hst| |exact Happ].
        pose proof (cell_widths_v _ _ _ _ Hcws) as Hcv. rewrite Forall_forall in Hcv.
        rewrite Forall_forall in Hsubs. apply Forall_forall. intros c Hc.
        split; [apply Hsubs, Hc|].
        assert (Hin : In (swidth_ c) (somes cws)).
        { rewrite E2. apply in_or_app. left. rewrite <- E1. apply in_map, Hc. }
        destruct (Hcv _ Hin) as [_ Hin2]. rewrite (Hv eq_refl _ Hin2). lia.
      - destruct (existsb (fun c => negb (sub_empty c)) subs).
        + eapply (with_top_RW width); [|exact Htw8|exact (proj1 R8)|exact H9].
          intros t t' Hst Et Happ. eapply append_columns_ok; [exact Hst|exact Hsubs| |exact Happ].
          destruct (cell_widths_h _ _ _ _ Hcws) as [_ Hsp].
          change (N.to_nat 0) with 0%nat in Hsp. cbn [skipn] in Hsp.
          specialize (Hh eq_refl). rewrite sspan_eq in Hh.
          rewrite E2, sspan_app in Hsp. rewrite E1, Et.
          rewrite <- (map_length swidth_ subs), E1.
          destruct used as [|u used]; [cbn; lia|]. rewrite sspan_eq in Hsp. cbn [length] in *. lia.
        + ok_inv H9. apply R_refl, R8. }
    pose proof (unwind_R _ _ _ (proj1 R9) H) as R10.
    eapply R_trans; [exact R1|]. eapply R_trans; [exact R8|]. eapply R_trans; eassumption.
  Qed.

  Lemma node_ok_all : forall n, node_ok n.
  Proof.
    apply rnode_ind'. intros i sty IH st st' Ht Hinv H.
    destruct i; cbn [direct_kids] in IH;
      cbn [render_node rn_info rn_style] in H; cbn [tree_ok rn_info] in Ht;
      try discriminate.
    - (* IText *)
      start H Hinv sz ap st1 ps R1. bind_inv H st2 H2.
      pose proof (inline_text_R _ _ _ (proj1 R1) H2) as R2.
      pose proof (unwind_R _ _ _ (proj1 R2) H) as R3.
      eapply R_trans; [exact R1|]. eapply R_trans; eassumption.
    - (* IContainer *)
      start H Hinv sz ap st1 ps R1. bind_inv H st2 H2.
      pose proof (render_kids_R _ _ _ IH Ht (proj1 R1) H2) as R2.
      pose proof (unwind_R _ _ _ (proj1 R2) H) as R3.
      eapply R_trans; [exact R1|]. eapply R_trans; eassumption.
    - (* ILink *)
      start H Hinv sz ap st1 ps R1.
      apply andb_true_iff in Ht. destruct Ht as [Hh Ht].
      pose proof (proj1 R1) as I1.
      set (st1' := mkrst (stack st1) (links st1 ++ [href])) in H.
      assert (R1' : R st1 st1').
      { split; [|reflexivity]. destruct I1 as [X Y]. split; [exact X|].
        intros Hfn. cbn [links st1']. apply Forall_app. split; [auto|].
        constructor; [|constructor]. rewrite Hfn in Hh. cbn [negb orb] in Hh.
        unfold chars_le. apply Forall_forall. intros c Hc.
        rewrite forallb_forall in Hh. specialize (Hh c Hc). lia. }
      bind_inv H st2 H2. bind_inv H st3 H3. bind_inv H st4 H4. bind_inv H tp H5. bind_inv H st5 H6.
      pose proof (with_top_R _ _ _ (sub_start_link_keeps d href) (proj1 R1') H2) as R2.
      pose proof (render_kids_R _ _ _ IH Ht (proj1 R2) H3) as R3.
      pose proof (with_top_R _ _ _ (sub_end_link_keeps d) (proj1 R3) H4) as R4.
      assert (R5 : R st4 st5).
      { destruct (o_footnotes (sopts tp)).
        - eapply inline_text_R; [exact (proj1 R4)|exact H6].
        - ok_inv H6. apply R_refl, R4. }
      pose proof (unwind_R _ _ _ (proj1 R5) H) as R6.
      eapply R_trans; [exact R1|]. eapply R_trans; [exact R1'|]. eapply R_trans; [exact R2|].
      eapply R_trans; [exact R3|]. eapply R_trans; [exact R4|]. eapply R_trans; eassumption.
    - (* IEm *)
      start H Hinv sz ap st1 ps R1. eapply R_trans; [exact R1|].
      eapply (wrap_case (start_emphasis d) (end_emphasis d)); try eassumption;
        [apply start_emphasis_keeps|apply end_emphasis_keeps|exact (proj1 R1)].
    - (* IStrong *)
      start H Hinv sz ap st1 ps R1. eapply R_trans; [exact R1|].
      eapply (wrap_case (start_strong d) (end_strong d)); try eassumption;
        [apply start_strong_keeps|apply end_strong_keeps|exact (proj1 R1)].
    - (* IStrikeout *)
      start H Hinv sz ap st1 ps R1. eapply R_trans; [exact R1|].
      eapply (wrap_case (start_strikeout d) (end_strikeout d)); try eassumption;
        [apply start_strikeout_keeps|apply end_strikeout_keeps|exact (proj1 R1)].
    - (* ICode *)
      start H Hinv sz ap st1 ps R1. eapply R_trans; [exact R1|].
      eapply (wrap_case (start_code d) (end_code d)); try eassumption;
        [apply start_code_keeps|apply end_code_keeps|exact (proj1 R1)].
    - (* IImg *)
      start H Hinv sz ap st1 ps R1. bind_inv H st2 H2.
      pose proof (with_top_R _ _ _ (add_image_keeps d src title) (proj1 R1) H2) as R2.
      pose proof (unwind_R _ _ _ (proj1 R2) H) as R3.
      eapply R_trans; [exact R1|]. eapply R_trans; eassumption.
    - (* IBlock *)
      start H Hinv sz ap st1 ps R1. eapply R_trans; [exact R1|].
      eapply (wrap_case start_block (fun s => Ok (end_block s))); try eassumption;
        [apply start_block_keeps|apply end_block_pure|exact (proj1 R1)].
    - (* IHeader *)
      start H Hinv sz ap st1 ps R1. pose proof (proj1 R1) as I1.
      destruct (N.eqb_spec (swidth (d_header_prefix d level)) (e_prefix sz)) as [Ep|];
        cbn [negb] in H; [|discriminate].
      bind_inv H tp Htp. bind_inv H w Hw. bind_inv H st2 H2. bind_inv H pp Hpp.
      destruct pp as [sub st3]. bind_inv H st4 H4. bind_inv H st5 H5. bind_inv H st6 H6.
      destruct (prefixed_scope _ _ _ _ _ st2 sub st3 I1 Htp Hw) as [R3 Kapp]; [|exact Hpp|].
      { intros Ip. eapply render_kids_R; eassumption. }
      pose proof (with_top_R _ _ _ start_block_keeps (proj1 R3) H4) as R4.
      assert (R5 : R st4 st5).
      { eapply (with_top_RW (swidth_ tp)); [|
          rewrite (shape_topw _ _ (proj2 R4)), (shape_topw _ _ (proj2 R3)); apply top_topw, Htp
          |exact (proj1 R4)|exact H5].
        apply Kapp; rewrite Ep; lia. }
      pose proof (with_top'_R _ _ _ end_block_pure (proj1 R5) H6) as R6.
      pose proof (unwind_R _ _ _ (proj1 R6) H) as R7.
      eapply R_trans; [exact R1|]. eapply R_trans; [exact R3|]. eapply R_trans; [exact R4|].
      eapply R_trans; [exact R5|]. eapply R_trans; eassumption.
    - (* IDiv *)
      start H Hinv sz ap st1 ps R1. eapply R_trans; [exact R1|].
      eapply (wrap_case new_line new_line); try eassumption;
        [apply new_line_keeps|apply new_line_keeps|exact (proj1 R1)].
    - (* IBlockQuote *)
      start H Hinv sz ap st1 ps R1. pose proof (proj1 R1) as I1.
      destruct (e_prefix sz =? swidth (d_quote_prefix d)); cbn [negb] in H; [|discriminate].
      bind_inv H iw Hiw. unfold usub in Hiw.
      destruct (swidth (d_quote_prefix d) <=? e_min sz); [|discriminate]. ok_inv Hiw.
      bind_inv H tp Htp. bind_inv H w Hw. bind_inv H st2 H2. bind_inv H pp Hpp.
      destruct pp as [sub st3]. bind_inv H st4 H4. bind_inv H st5 H5. bind_inv H st6 H6.
      destruct (prefixed_scope _ _ _ _ _ st2 sub st3 I1 Htp Hw) as [R3 Kapp]; [|exact Hpp|].
      { intros Ip. eapply render_kids_R; eassumption. }
      pose proof (with_top_R _ _ _ start_block_keeps (proj1 R3) H4) as R4.
      assert (R5 : R st4 st5).
      { eapply (with_top_RW (swidth_ tp)); [|
          rewrite (shape_topw _ _ (proj2 R4)), (shape_topw _ _ (proj2 R3)); apply top_topw, Htp
          |exact (proj1 R4)|exact H5].
        apply Kapp; lia. }
      pose proof (with_top'_R _ _ _ end_block_pure (proj1 R5) H6) as R6.
      pose proof (unwind_R _ _ _ (proj1 R6) H) as R7.
      eapply R_trans; [exact R1|]. eapply R_trans; [exact R3|]. eapply R_trans; [exact R4|].
      eapply R_trans; [exact R5|]. eapply R_trans; eassumption.
    - (* IUl *)
      start H Hinv sz ap st1 ps R1. pose proof (proj1 R1) as I1.
      bind_inv H st2 H2.
      assert (R2 : R st1 st2).
      { revert H2.
        apply (fold_bind_inv (fun a => R st1 a)
                 (fun item s =>
                    do inner_width <- usub 22 (e_min sz) (swidth (d_ul_prefix d));
                    do tp <- top s;
                    do w <- width_minus tp (swidth (d_ul_prefix d)) inner_width;
                    do s2 <- render_node d mw item (push_sub s (new_sub_renderer tp w));
                    do pp <- pop_sub s2;
                    let '(sub, s3) := pp in
                    with_top s3 (fun t => append_subrender t sub (d_ul_prefix d)
                       (repeat_chr (spacel L_prefix) (N.to_nat (swidth (d_ul_prefix d))))))
                 cs); [|apply R_refl, I1].
        intros item Hitem a a' Ra Hstep. pose proof (proj1 Ra) as Ia.
        bind_inv Hstep iw Hiw. unfold usub in Hiw.
        destruct (swidth (d_ul_prefix d) <=? e_min sz); [|discriminate]. ok_inv Hiw.
        bind_inv Hstep tp Htp. bind_inv Hstep w Hw. bind_inv Hstep s2 Hs2. bind_inv Hstep pp Hpp.
        destruct pp as [sub s3].
        rewrite Forall_forall in IH. rewrite forallb_forall in Ht.
        destruct (prefixed_scope _ _ _ _ _ s2 sub s3 Ia Htp Hw) as [R3 Kapp]; [|exact Hpp|].
        { intros Ip. eapply (IH item Hitem); [apply Ht, Hitem|exact Ip|exact Hs2]. }
        eapply R_trans; [exact Ra|]. eapply R_trans; [exact R3|].
        eapply (with_top_RW (swidth_ tp)); [|
          rewrite (shape_topw _ _ (proj2 R3)); apply top_topw, Htp|exact (proj1 R3)|exact Hstep].
        apply Kapp; [lia|].
        rewrite swidth_repeat_w1 by reflexivity. lia. }
      pose proof (unwind_R _ _ _ (proj1 R2) H) as R3.
      eapply R_trans; [exact R1|]. eapply R_trans; eassumption.
    - (* IOl *)
      start H Hinv sz ap st1 ps R1. pose proof (proj1 R1) as I1.
      apply andb_true_iff in Ht. destruct Ht as [Hmin Ht].
      bind_inv H r Hr.
      set (n := length cs) in *.
      set (mn := isat64 (isat64 (start + Z.of_nat n) - 1)) in *.
      set (pw := N.max (swidth (d_ol_prefix d start)) (swidth (d_ol_prefix d mn))) in *.
      assert (Hr' : fold_left (fun acc item => do si <- acc; ol_step sz pw item si) cs
                              (Ok (st1, ol_idx start 0)) = Ok r) by exact Hr.
      assert (R2 : R st1 (fst r)).
      { eapply (ol_items_R sz pw start n cs 0 st1 r); try eassumption; try lia.
        intros j Hj.
        pose proof (Hd start (ol_idx start j) mn) as Hm. unfold ol_prefix_sat in Hsat.
        assert (Hcases : ol_idx start j = start \/ (start <= ol_idx start j <= mn)%Z \/
                         (ol_idx start j = i64_max /\ mn = (i64_max - 1)%Z)).
        { unfold ol_idx, mn, isat64, i64_min, i64_max in *. destruct j; lia. }
        destruct Hcases as [E|[E|[E1 E2]]].
        - rewrite E. unfold pw. lia.
        - specialize (Hm E). unfold pw. exact Hm.
        - rewrite E1. unfold pw. rewrite E2. lia. }
      pose proof (unwind_R _ _ _ (proj1 R2) H) as R3.
      eapply R_trans; [exact R1|]. eapply R_trans; eassumption.
    - (* IDl *)
      start H Hinv sz ap st1 ps R1.
      bind_inv H st2 H2. bind_inv H st3 H3.
      pose proof (with_top_R _ _ _ start_block_keeps (proj1 R1) H2) as R2.
      pose proof (render_kids_R _ _ _ IH Ht (proj1 R2) H3) as R3.
      pose proof (unwind_R _ _ _ (proj1 R3) H) as R4.
      eapply R_trans; [exact R1|]. eapply R_trans; [exact R2|]. eapply R_trans; eassumption.
    - (* IDt *)
      start H Hinv sz ap st1 ps R1.
      bind_inv H st2 H2.
      pose proof (with_top_R _ _ _ new_line_keeps (proj1 R1) H2) as R2.
      eapply R_trans; [exact R1|]. eapply R_trans; [exact R2|].
      eapply (wrap_case (start_emphasis d) (end_emphasis d)); try eassumption;
        [apply start_emphasis_keeps|apply end_emphasis_keeps|exact (proj1 R2)].
    - (* IDd *)
      start H Hinv sz ap st1 ps R1. pose proof (proj1 R1) as I1.
      bind_inv H iw Hiw. unfold usub in Hiw.
      destruct (2 <=? e_min sz); [|discriminate]. ok_inv Hiw.
      bind_inv H tp Htp. bind_inv H w Hw. bind_inv H st2 H2. bind_inv H pp Hpp.
      destruct pp as [sub st3]. bind_inv H st4 H4.
      destruct (prefixed_scope _ _ _ _ _ st2 sub st3 I1 Htp Hw) as [R3 Kapp]; [|exact Hpp|].
      { intros Ip. eapply render_kids_R; eassumption. }
      assert (R4 : R st3 st4).
      { eapply (with_top_RW (swidth_ tp)); [|
          rewrite (shape_topw _ _ (proj2 R3)); apply top_topw, Htp|exact (proj1 R3)|exact H4].
        apply Kapp; cbn; lia. }
      pose proof (unwind_R _ _ _ (proj1 R4) H) as R5.
      eapply R_trans; [exact R1|]. eapply R_trans; [exact R3|]. eapply R_trans; eassumption.
    - (* IBreak *)
      start H Hinv sz ap st1 ps R1. bind_inv H st2 H2.
      pose proof (with_top_R _ _ _ new_line_hard_keeps (proj1 R1) H2) as R2.
      pose proof (unwind_R _ _ _ (proj1 R2) H) as R3.
      eapply R_trans; [exact R1|]. eapply R_trans; eassumption.
    - (* ITable *)
      start H Hinv sz ap st1 ps R1.
      bind_inv H col_sizes Hcs. bind_inv H tp Htp.
      set (vr := o_raw (sopts tp)
                 || ((swidth_ tp <? sumN (map e_min col_sizes) + (N.of_nat (length col_sizes) - 1))
                     || (swidth_ tp =? 0))) in *.
      bind_inv H col_widths Hcw. bind_inv H st2 H2. bind_inv H st3 H3. bind_inv H st_rows Hrows.
      pose proof (top_topw _ _ Htp) as Htw.
      assert (Hv : vr = true -> forall w, In w col_widths -> w = swidth_ tp).
      { intros E w Hw. rewrite E in Hcw. cbn [negb] in Hcw. ok_inv Hcw.
        apply in_map_iff in Hw. destruct Hw as (? & <- & _). reflexivity. }
      assert (Hh : vr = false -> sspan col_widths <= swidth_ tp + 1).
      { intros E. rewrite E in Hcw. cbn [negb] in Hcw.
        destruct (map (col_width_of (swidth_ tp) (sumN (map e_size col_sizes))) col_sizes) as [|x l].
        - ok_inv Hcw. rewrite sspan_nil. lia.
        - apply shrink_loop_ok in Hcw. rewrite sspan_eq. lia. }
      pose proof (with_top_R _ _ _ start_block_keeps (proj1 R1) H2) as R2.
      assert (Htw2 : topw st2 = Some (swidth_ tp)).
      { rewrite (shape_topw _ _ (proj2 R2)). exact Htw. }
      assert (R3 : R st2 st3).
      { match type of H3 with (if ?c then _ else _) = _ => destruct c end.
        - eapply (with_top_RW (swidth_ tp)); [|exact Htw2|exact (proj1 R2)|exact H3].
          intros s s' Hs Es Hb. eapply add_horizontal_border_width_ok; [exact Hs| |exact Hb].
          rewrite Es. destruct vr; [lia|]. specialize (Hh eq_refl). rewrite sspan_eq in Hh.
          pose proof (filter_length_le (fun w => 0 <? w) col_widths).
          destruct col_widths; [cbn; lia|]. cbn [length] in *. lia.
        - ok_inv H3. apply R_refl, R2. }
      assert (Hrows' : fold_left (fun acc r => do s <- acc; row_body vr col_widths r s) rows
                                 (Ok st3) = Ok st_rows) by exact Hrows.
      assert (R4 : R st3 st_rows).
      { revert Hrows'. apply (fold_bind_inv (fun a => R st3 a) (row_body vr col_widths) rows);
          [|apply R_refl, R3].
        intros r Hr a a' Ra Hstep. eapply R_trans; [exact Ra|].
        apply Forall_flat_map in IH. rewrite Forall_forall in IH. specialize (IH r Hr).
        unfold row_kids in IH. apply Forall_flat_map in IH.
        rewrite forallb_forall in Ht. specialize (Ht r Hr).
        eapply (row_body_R vr col_widths (swidth_ tp) r a a' Hv Hh IH); [| | |exact Hstep].
        - destruct r as [cells rsty]. exact Ht.
        - exact (proj1 Ra).
        - rewrite (shape_topw _ _ (proj2 Ra)), (shape_topw _ _ (proj2 R3)). exact Htw2. }
      pose proof (unwind_R _ _ _ (proj1 R4) H) as R5.
      eapply R_trans; [exact R1|]. eapply R_trans; [exact R2|]. eapply R_trans; [exact R3|].
      eapply R_trans; eassumption.
    - (* ITableBody *) bind_inv H sz Hsz. bind_inv H ap Hap. destruct ap. discriminate.
    - (* ITableRow *) bind_inv H sz Hsz. bind_inv H ap Hap. destruct ap. discriminate.
    - (* ITableCell *) bind_inv H sz Hsz. bind_inv H ap Hap. destruct ap. discriminate.
    - (* IFragStart *)
      start H Hinv sz ap st1 ps R1. bind_inv H st2 H2.
      pose proof (with_top'_R _ _ _ (record_frag_start_keeps name) (proj1 R1) H2) as R2.
      pose proof (unwind_R _ _ _ (proj1 R2) H) as R3.
      eapply R_trans; [exact R1|]. eapply R_trans; eassumption.
    - (* IListItem *)
      start H Hinv sz ap st1 ps R1. eapply R_trans; [exact R1|].
      eapply (wrap_case start_block (fun s => Ok (end_block s))); try eassumption;
        [apply start_block_keeps|apply end_block_pure|exact (proj1 R1)].
    - (* ISup *)
      start H Hinv sz ap st1 ps R1. eapply R_trans; [exact R1|].
      destruct (sup_digits cs) as [digitstr|].
      + bind_inv H st2 H2.
        pose proof (inline_text_R _ _ _ (proj1 R1) H2) as R2.
        pose proof (unwind_R _ _ _ (proj1 R2) H) as R3. eapply R_trans; eassumption.
      + eapply (wrap_case (start_superscript d) (end_superscript d)); try eassumption;
          [apply start_superscript_keeps|apply end_superscript_keeps|exact (proj1 R1)].
  Qed.
End RenderLayer.
(* ================================================================== *)
(* 13. render_tree                                                      *)
(* ================================================================== *)

Lemma chars_le_mono W W' t : W <= W' -> chars_le W t -> chars_le W' t.
Proof. intros H. unfold chars_le. apply Forall_impl. intros c Hc. lia. Qed.

Lemma chars_le_ascii W lb l : 1 <= W -> chars_le W (of_asciil lb l).
Proof.
  intros H. unfold chars_le, of_asciil. apply Forall_forall. intros c Hc.
  apply in_map_iff in Hc. destruct Hc as (x & <- & _). exact H.
Qed.

Lemma chars_le_relabel W lb t : chars_le W t -> chars_le W (relabel lb t).
Proof.
  unfold chars_le, relabel. intros H. apply Forall_forall. intros c Hc.
  apply in_map_iff in Hc. destruct Hc as (x & <- & Hx). rewrite Forall_forall in H.
  exact (H x Hx).
Qed.

Lemma finalise_from_ok W : 1 <= W -> forall urls k,
  Forall (chars_le W) urls ->
  Forall (fun l => Forall (fun st => chars_le W (fst st)) (tl_tagged_strings l))
         (finalise_from k urls).
Proof.
  intros HW. induction urls as [|u urls IH]; intros k Hu; cbn [finalise_from]; [constructor|].
  inversion Hu as [|? ? Hu1 Hu2]; subst. constructor; [|apply IH, Hu2].
  unfold tl_from_string, tl_tagged_strings. cbn [tv flat_map app]. constructor; [|constructor].
  cbn [fst]. unfold chars_le. apply Forall_app. split.
  - apply chars_le_ascii, HW.
  - apply chars_le_relabel, Hu1.
Qed.

(* The decidable side condition of the theorem (tree_ok, section 12):
   (b) every ordered list has i64_min <= start (always true of trees built from a DOM);
   (c) when footnotes are on, every character of every link target is at most Wl columns. *)
Definition c02_side (o : ropts) (Wl : N) (tree : rnode) : bool :=
  tree_ok (o_footnotes o) Wl tree.

Theorem c02_render_width_bound_gen :
  forall (d : deco) (min_wrap : N) (o : ropts) (Wl width : N) (tree : rnode) (s : subr),
  ol_prefix_monotone d -> ol_prefix_sat d ->
  o_allow_overflow o = false ->
  (o_footnotes o = true -> o_wrap_links o = true) ->
  1 <= width -> Wl <= width ->
  c02_side o Wl tree = true ->
  render_tree d min_wrap o width tree = Ok s ->
  forall ls, sub_into_lines s = Ok ls -> forall r, In r ls -> rline_width r <= width.
Proof.
  intros d mw o Wl width tree s Hd Hsat Hovf Hwrap Hw HWl Hside H.
  unfold render_tree in H. bind_inv H e He. bind_inv H st Hst.
  set (st0 := mkrst [sub_new width o] []) in Hst.
  assert (I0 : st_inv (o_footnotes o) Wl st0).
  { split; [|intros _; constructor]. cbn [st0 stack]. constructor; [|constructor].
    unfold sub_new. apply sub_ok_mk; cbn; auto; [intros r []|intros ? [=]]. }
  destruct (node_ok_all d mw (o_footnotes o) Wl Hd Hsat tree st0 st Hside I0 Hst)
    as [[I1 I2] Esh].
  destruct (stack st) as [|s0 [|s1 rest]] eqn:Es; try discriminate.
  unfold shape in Esh. rewrite Es in Esh. cbn [st0 stack map] in Esh. injection Esh as Ew Eo.
  pose proof (Forall_inv I1) as Hs0.
  assert (Hfinal : sub_ok s /\ swidth_ s = swidth_ s0).
  { unfold sub_finalise in H. rewrite Eo in H.
    destruct (o_footnotes o) eqn:Efn.
    - destruct (finalise_from 1 (links st)) as [|l0 ls0] eqn:Ef.
      + injection H as <-. auto.
      + bind_inv H s1 H1. injection H as <-.
        destruct (start_block_keeps _ _ Hs0 H1) as [A [B1 B2]].
        destruct (fmt_links_ok (l0 :: ls0) s1 A) as [C [D1 D2]].
        * lia.
        * rewrite B2, Eo. auto.
        * rewrite <- Ef. rewrite B1.
          apply finalise_from_ok; [lia|].
          eapply Forall_impl; [|apply I2; reflexivity].
          intros t Ht. eapply chars_le_mono; [|exact Ht]. lia.
        * split; [exact C|exact (eq_trans D1 B1)].
    - injection H as <-. auto. }
  destruct Hfinal as [Hs Esw].
  intros ls Hls r Hr. pose proof (sub_into_lines_ok _ _ Hs Hls r Hr). lia.
Qed.

(* The main statement: link-target characters are checked against the width itself. *)
Theorem c02_render_width_bound :
  forall (d : deco) (min_wrap : N) (o : ropts) (width : N) (tree : rnode) (s : subr),
  ol_prefix_monotone d -> ol_prefix_sat d ->
  o_allow_overflow o = false ->
  (o_footnotes o = true -> o_wrap_links o = true) ->
  1 <= width ->
  c02_side o width tree = true ->
  render_tree d min_wrap o width tree = Ok s ->
  forall ls, sub_into_lines s = Ok ls -> forall r, In r ls -> rline_width r <= width.
Proof.
  intros d mw o width tree s Hd Hsat Hovf Hwrap Hw Hside.
  apply (c02_render_width_bound_gen d mw o width width tree s); auto. lia.
Qed.

(* The variant with 2 <= width: every link-target character is at most 2 columns wide. *)
Theorem c02_render_width_bound_w2 :
  forall (d : deco) (min_wrap : N) (o : ropts) (width : N) (tree : rnode) (s : subr),
  ol_prefix_monotone d -> ol_prefix_sat d ->
  o_allow_overflow o = false ->
  (o_footnotes o = true -> o_wrap_links o = true) ->
  2 <= width ->
  c02_side o 2 tree = true ->
  render_tree d min_wrap o width tree = Ok s ->
  forall ls, sub_into_lines s = Ok ls -> forall r, In r ls -> rline_width r <= width.
Proof.
  intros d mw o width tree s Hd Hsat Hovf Hwrap Hw Hside.
  apply (c02_render_width_bound_gen d mw o 2 width tree s); auto. lia.
Qed.

(* Without footnotes the side condition only concerns the ordered-list starts. *)
Corollary c02_render_width_bound_nofoot :
  forall (d : deco) (min_wrap : N) (o : ropts) (width : N) (tree : rnode) (s : subr),
  ol_prefix_monotone d -> ol_prefix_sat d ->
  o_allow_overflow o = false -> o_footnotes o = false -> 1 <= width ->
  tree_ok false 0 tree = true ->
  render_tree d min_wrap o width tree = Ok s ->
  forall ls, sub_into_lines s = Ok ls -> forall r, In r ls -> rline_width r <= width.
Proof.
  intros d mw o width tree s Hd Hsat Hovf Hfn Hw Hside.
  apply (c02_render_width_bound_gen d mw o 0 width tree s Hd Hsat Hovf).
  - intros X. rewrite Hfn in X. discriminate.
  - exact Hw.
  - lia.
  - unfold c02_side. rewrite Hfn. exact Hside.
Qed.

(* ================================================================== *)
(* 14. The public route (Api.v)                                         *)
(* ================================================================== *)

Lemma raw_into_tagged r : tl_width_raw (rline_into_tagged r) = rline_width r.
Proof.
  destruct r as [l|b t]; cbn [rline_into_tagged rline_width]; [reflexivity|].
  rewrite raw_push, raw_new. cbn [elem_text]. rewrite swidth_border_string. lia.
Qed.

Section Routes.
  Variable inline_styles : list (text * text) -> res (list styledecl).
  Variable doc_rules : list node -> res (list ruleset).

  (* the side condition, on the document: decidable (everything is computable) *)
  Definition c02_doc_side (c : config) (doc : list node) (w : N) : bool :=
    match to_render_tree inline_styles doc_rules c doc with
    | Ok tree => c02_side (render_options c) w tree
    | _ => true
    end.

  Theorem c02_lines_from_read : forall (c : config) (doc : list node) (w : N) (ls : list tline),
    ol_prefix_monotone (c_deco c) -> ol_prefix_sat (c_deco c) ->
    c_overflow c = false ->
    (c_footnotes c = true -> c_wrap_links c = true) ->
    c02_doc_side c doc w = true ->
    lines_from_read inline_styles doc_rules c doc w = Ok ls ->
    forall l, In l ls -> tl_width_raw l <= w.
  Proof.
    intros c doc w ls Hd Hsat Hovf Hwrap Hside H l Hl.
    unfold lines_from_read in H. bind_inv H tree Htree. bind_inv H s Hs. bind_inv H rls Hrls.
    ok_inv H. apply in_map_iff in Hl. destruct Hl as (r & <- & Hr).
    rewrite raw_into_tagged. unfold c02_doc_side in Hside. rewrite Htree in Hside.
    unfold render_with_context in Hs. destruct (N.eqb_spec w 0) as [|Hw0]; [discriminate|].
    eapply (c02_render_width_bound (c_deco c) (c_min_wrap c) (render_options c) w tree s);
      try eassumption; try lia.
  Qed.
End Routes.

(* ================================================================== *)
(* 15. Non-vacuity and the recorded counterexamples                     *)
(* ================================================================== *)

Definition ex_chr (c : N) : chr := if c =? 32 then mkchr 32 (Some 1) true 16 else mkchr c (Some 1) false 16.
Definition ex_str (l : list N) : text := map ex_chr l.
Definition ex_n (i : rinfo) : rnode := RN i cstyle0.
Definition ex_cell (l : list N) : rcell := RCell 1 [ex_n (IText (ex_str l))] cstyle0.

(* <p>hello wide world</p>
   <table><tr><td>ab cd</td><td>efg</td></tr><tr><td>h</td><td>ij kl mn</td></tr></table>
   <ul><li>one two three</li></ul> <ol start=9><li>x</li><li>y</li></ol> *)
Definition ex_tree : rnode :=
  ex_n (IContainer
    [ex_n (IBlock [ex_n (IText (ex_str [104;101;108;108;111;32;119;105;100;101;32;119;111;114;108;100]))]);
     ex_n (ITable [RRow [ex_cell [97;98;32;99;100]; ex_cell [101;102;103]] cstyle0;
                   RRow [ex_cell [104]; ex_cell [105;106;32;107;108;32;109;110]] cstyle0] 2);
     ex_n (IUl [ex_n (IListItem [ex_n (IText (ex_str [111;110;101;32;116;119;111;32;116;104;114;101;101]))])]);
     ex_n (IOl 9 [ex_n (IListItem [ex_n (IText (ex_str [120]))]);
                  ex_n (IListItem [ex_n (IText (ex_str [121]))])])]).

Definition ex_opts : ropts := render_options (with_decorator plain_deco).

Definition ex_widths (r : res subr) : res (list N) :=
  do s <- r; do ls <- sub_into_lines s; Ok (map rline_width ls).

Example ex_render_ok :
  ex_widths (render_tree plain_deco 3 ex_opts 12 ex_tree) =
  Ok [10; 5; 0; 12; 12; 12; 12; 12; 12; 12; 9; 7; 5; 5].
Proof. vm_compute. reflexivity. Qed.

Example ex_side_ok : c02_side ex_opts 12 ex_tree = true.
Proof. vm_compute. reflexivity. Qed.

(* the theorem applies to the example, which has 14 lines *)
Definition ex_s : subr :=
  match render_tree plain_deco 3 ex_opts 12 ex_tree with Ok s => s | _ => sub_new 0 ex_opts end.
Example ex_render_eq : render_tree plain_deco 3 ex_opts 12 ex_tree = Ok ex_s.
Proof. vm_compute. reflexivity. Qed.
Definition ex_ls : list rline := match sub_into_lines ex_s with Ok ls => ls | _ => [] end.
Example ex_lines_eq : sub_into_lines ex_s = Ok ex_ls.
Proof. vm_compute. reflexivity. Qed.
Example ex_lines_len : length ex_ls = 14%nat.
Proof. vm_compute. reflexivity. Qed.

Example ex_theorem_applies : forall r, In r ex_ls -> rline_width r <= 12.
Proof.
  refine (c02_render_width_bound plain_deco 3 ex_opts 12 ex_tree ex_s
            ol_prefix_monotone_plain ol_prefix_sat_plain eq_refl _ _ ex_side_ok ex_render_eq
            ex_ls ex_lines_eq).
  - intros X. discriminate X.
  - lia.
Qed.

(* ---- Regression examples: former counterexamples of the model (fixed in the code) ---- *)

(* A prefix wider than the whole line, around content whose estimated minimum width is 0 but
   which still emits a line, used to overflow (width_minus saturated).  Now TooNarrow, and
   within the width as soon as the prefix fits (the child sub-renderer then has width 0). *)
Definition cex_empty_table : rnode := ex_n (ITable [RRow [RCell 1 [] cstyle0] cstyle0] 1).
Definition cex1 : rnode := ex_n (IUl [ex_n (IListItem [cex_empty_table])]).
Example cex1_fixed :
  ex_widths (render_tree plain_deco 3 ex_opts 1 cex1) = TooNarrow /\
  ex_widths (render_tree plain_deco 3 ex_opts 2 cex1) = Ok [2].
Proof. split; vm_compute; reflexivity. Qed.

Definition cex_zw : chr := mkchr 8203 (Some 0) false 16.      (* U+200B *)
Definition cex1b : rnode := ex_n (IUl [ex_n (IListItem [ex_n (IText [cex_zw])])]).
Example cex1b_fixed :
  ex_widths (render_tree plain_deco 3 ex_opts 1 cex1b) = TooNarrow /\
  ex_widths (render_tree plain_deco 3 ex_opts 2 cex1b) = Ok [2].
Proof. split; vm_compute; reflexivity. Qed.

Definition cex1c : rnode := ex_n (IHeader 3 [cex_empty_table]).
Example cex1c_fixed :
  ex_widths (render_tree plain_deco 3 ex_opts 3 cex1c) = TooNarrow /\
  ex_widths (render_tree plain_deco 3 ex_opts 4 cex1c) = Ok [4].
Proof. split; vm_compute; reflexivity. Qed.

Definition cex1d : rnode := ex_n (IOl 1000 [ex_n (IListItem [cex_empty_table])]).
Example cex1d_fixed :
  ex_widths (render_tree plain_deco 3 ex_opts 5 cex1d) = TooNarrow /\
  ex_widths (render_tree plain_deco 3 ex_opts 6 cex1d) = Ok [6].
Proof. split; vm_compute; reflexivity. Qed.

(* max_wrap set and min_wrap = 0: the wrapping block of a width-0 sub-renderer used to get
   width 1; now it has width 0 and "x" does not fit *)
Definition cex2 : rnode := ex_n (IUl [ex_n (IListItem [ex_n (IText (ex_str [120]))])]).
Example cex2_fixed :
  ex_widths (render_tree plain_deco 0 (render_options (set_max_wrap (with_decorator plain_deco) 5)) 2 cex2)
    = TooNarrow /\
  ex_widths (render_tree plain_deco 0 (render_options (set_max_wrap (with_decorator plain_deco) 5)) 3 cex2)
    = Ok [3].
Proof. split; vm_compute; reflexivity. Qed.

(* the theorem covers all of them (the side condition holds) *)
Example cex_side_ok :
  c02_side ex_opts 1 cex1 = true /\ c02_side ex_opts 1 cex1b = true /\
  c02_side ex_opts 3 cex1c = true /\ c02_side ex_opts 5 cex1d = true /\
  c02_side ex_opts 2 cex2 = true.
Proof. vm_compute. repeat split. Qed.

(* an ordered list whose numbering saturates at i64_max: covered *)
Definition ex_sat : rnode :=
  ex_n (IOl 9223372036854775806
            [ex_n (IListItem [ex_n (IText (ex_str [120]))]);
             ex_n (IListItem [ex_n (IText (ex_str [120]))]);
             ex_n (IListItem [ex_n (IText (ex_str [120]))])]).
Example ex_sat_ok :
  ex_widths (render_tree plain_deco 3 ex_opts 30 ex_sat) = Ok [22; 22; 22] /\
  c02_side ex_opts 30 ex_sat = true.
Proof. split; vm_compute; reflexivity. Qed.

(* ---- Counterexamples that remain, excluded by the hypotheses ---- *)

(* footnotes without link wrapping (an option, not a defect): the footnote line
   "[1]: xxxxxxxxxxxx" is not wrapped; excluded by (o_footnotes -> o_wrap_links) *)
Definition cex3 : rnode := ex_n (ILink (ex_str [120;120;120;120;120;120;120;120;120;120;120;120])
                                       [ex_n (IText (ex_str [120]))]).
Example cex3_overflows :
  ex_widths (render_tree plain_deco 3
     (render_options (set_no_link_wrap (set_footnotes (with_decorator plain_deco) true))) 8 cex3)
  = Ok [6; 0; 17].
Proof. vm_compute. reflexivity. Qed.

(* a link target with a character wider than the line (known defect of fmt_links);
   excluded by the link-target check of c02_side *)
Definition cex4 : rnode := ex_n (ILink [mkchr 19990 (Some 2) false 16] [ex_n (IText [cex_zw])]).
Example cex4_overflows :
  ex_widths (render_tree plain_deco 3
     (render_options (set_footnotes (with_decorator plain_deco) true)) 1 cex4)
  = Ok [1; 1; 1; 1; 1; 0; 1; 1; 1; 1; 1; 2] /\
  c02_side (render_options (set_footnotes (with_decorator plain_deco) true)) 1 cex4 = false.
Proof. split; vm_compute; reflexivity. Qed.

Check (c02_render_width_bound :
  forall (d : deco) (min_wrap : N) (o : ropts) (width : N) (tree : rnode) (s : subr),
  ol_prefix_monotone d -> ol_prefix_sat d ->
  o_allow_overflow o = false ->
  (o_footnotes o = true -> o_wrap_links o = true) ->
  1 <= width ->
  c02_side o width tree = true ->
  render_tree d min_wrap o width tree = Ok s ->
  forall ls, sub_into_lines s = Ok ls -> forall r, In r ls -> rline_width r <= width).
Check (c02_lines_from_read :
  forall inl dr (c : config) (doc : list node) (w : N) (ls : list tline),
  ol_prefix_monotone (c_deco c) -> ol_prefix_sat (c_deco c) ->
  c_overflow c = false ->
  (c_footnotes c = true -> c_wrap_links c = true) ->
  c02_doc_side inl dr c doc w = true ->
  lines_from_read inl dr c doc w = Ok ls ->
  forall l, In l ls -> tl_width_raw l <= w).

Print Assumptions node_ok_all.
Print Assumptions c02_render_width_bound_gen.
Print Assumptions c02_render_width_bound.
Print Assumptions c02_render_width_bound_w2.
Print Assumptions c02_render_width_bound_nofoot.
Print Assumptions c02_lines_from_read.
Print Assumptions ol_prefix_monotone_plain.
Print Assumptions ol_prefix_monotone_rich.
Print Assumptions ol_prefix_monotone_trivial.
Print Assumptions ol_prefix_sat_plain.
Print Assumptions ol_prefix_sat_rich.
Print Assumptions ol_prefix_sat_trivial.
Print Assumptions ex_theorem_applies.
