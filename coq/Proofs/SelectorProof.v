(* Proofs/SelectorProof.v -- C20: the right-to-left backtracking selector matcher agrees
   with the relational semantics of Spec/Selector.v. *)
From Coq Require Import Lia ZifyN ZifyBool ZifyNat.
From H2T Require Import Base Tagged Wrap Css Spec.Selector.

(* ------------------------------------------------------------------ *)
(* :nth-child(an+b) *)

Theorem c20_nth : forall a b idx : Z, nth_test a b idx = true <-> nth_spec a b idx.
Proof.
  intros a b idx. unfold nth_test, nth_spec.
  destruct (Z.eqb_spec a 0) as [Ha|Ha].
  - subst a. split.
    + intros H. apply Z.eqb_eq in H. exists 0%Z. lia.
    + intros (n & _ & Hn). apply Z.eqb_eq. lia.
  - destruct (Z.eqb_spec (Z.rem (idx - b) a) 0) as [Hr|Hr]; simpl.
    + split.
      * intros Hq. apply Z.leb_le in Hq. exists (Z.quot (idx - b) a). split; [assumption|].
        pose proof (Z.quot_rem' (idx - b) a) as E. lia.
      * intros (n & Hn & E). apply Z.leb_le.
        replace (idx - b)%Z with (n * a)%Z by lia.
        rewrite Z.quot_mul by assumption. assumption.
    + split; [discriminate|].
      intros (n & Hn & E). exfalso. apply Hr.
      replace (idx - b)%Z with (n * a)%Z by lia.
      apply Z.rem_mul. assumption.
Qed.

(* ------------------------------------------------------------------ *)
(* unfolding equations for the combinators *)

Lemma dm_child : forall rest e p,
  do_matches (CCombChild :: rest) (e :: p) = do_matches rest p.
Proof. reflexivity. Qed.

Lemma dm_desc_nil : forall rest, do_matches (CCombDescendant :: rest) [] = false.
Proof. reflexivity. Qed.

Lemma dm_desc_cons : forall rest e p,
  do_matches (CCombDescendant :: rest) (e :: p) =
  do_matches rest p || do_matches (CCombDescendant :: rest) p.
Proof. reflexivity. Qed.

(* the descendant combinator: some ancestor chain suffix matches the rest *)
Lemma dm_desc : forall rest p,
  do_matches (CCombDescendant :: rest) p = true <->
  exists e p', p = e :: p' /\ exists k, do_matches rest (skipn k p') = true.
Proof.
  intros rest p. induction p as [|e p IH].
  - rewrite dm_desc_nil. split; [discriminate|]. intros (e & p' & H & _). discriminate.
  - rewrite dm_desc_cons, orb_true_iff. split.
    + intros [H|H].
      * exists e, p. split; [reflexivity|]. exists 0%nat. exact H.
      * apply IH in H. destruct H as (e' & p' & -> & k & Hk).
        exists e, (e' :: p'). split; [reflexivity|]. exists (S k). exact Hk.
    + intros (e0 & p0 & Heq & k & Hk). injection Heq as <- <-.
      destruct k as [|k]; [left; exact Hk|].
      destruct p as [|e' p'].
      * left. exact Hk.
      * right. apply IH. exists e', p'. split; [reflexivity|]. exists k. exact Hk.
Qed.

(* ------------------------------------------------------------------ *)
(* one compound selector *)

Lemma dm_simples_nil : forall cs rest, cs <> [] ->
  do_matches (map comp_of cs ++ rest) [] = false.
Proof. intros [|[] cs] rest H; [congruence| | | | |]; reflexivity. Qed.

Lemma dm_simples : forall cs rest e p,
  do_matches (map comp_of cs ++ rest) (e :: p) = true <->
  Forall (fun x => simple_matches x e) cs /\ do_matches rest (e :: p) = true.
Proof.
  induction cs as [|c cs IH]; intros rest e p.
  - simpl. split; [intros H; split; [constructor|exact H]|intros [_ H]; exact H].
  - assert (Hstep : do_matches (map comp_of (c :: cs) ++ rest) (e :: p) = true <->
                    simple_matches c e /\ do_matches (map comp_of cs ++ rest) (e :: p) = true).
    { destruct c; simpl; try (rewrite andb_true_iff); try tauto.
      rewrite c20_nth. tauto. }
    rewrite Hstep, IH. split.
    + intros (H1 & H2 & H3). split; [constructor; assumption|assumption].
    + intros (H1 & H3). inversion H1; subst. tauto.
Qed.

Lemma dm_compound : forall cs rest e p,
  do_matches (rev (map comp_of cs) ++ rest) (e :: p) = true <->
  Forall (fun x => simple_matches x e) cs /\ do_matches rest (e :: p) = true.
Proof.
  intros cs rest e p. rewrite <- map_rev, dm_simples.
  split; intros [H1 H2]; (split; [|exact H2]).
  - rewrite <- (rev_involutive cs). apply Forall_rev. exact H1.
  - apply Forall_rev. exact H1.
Qed.

Lemma dm_compound_nil : forall cs rest, cs <> [] ->
  do_matches (rev (map comp_of cs) ++ rest) [] = false.
Proof.
  intros cs rest H. rewrite <- map_rev. apply dm_simples_nil.
  intros E. apply H. rewrite <- (rev_involutive cs), E. reflexivity.
Qed.

(* ------------------------------------------------------------------ *)
(* C20 *)

Theorem c20_match : forall (s : sel) (p : list anc), wf s ->
  (do_matches (flatten s) p = true <-> matches s p).
Proof.
  induction s as [cs|l IH cs|l IH cs]; intros p Hwf; simpl in Hwf; simpl flatten; simpl matches.
  - rewrite <- (app_nil_r (rev (map comp_of cs))).
    destruct p as [|e p].
    + rewrite dm_compound_nil by assumption. split; [discriminate|].
      intros (e & p' & H & _). discriminate.
    + rewrite dm_compound. simpl. split.
      * intros [H _]. exists e, p. auto.
      * intros (e' & p' & Heq & H). injection Heq as <- <-. auto.
  - destruct Hwf as [Hcs Hl].
    destruct p as [|e p].
    + rewrite dm_compound_nil by assumption. split; [discriminate|].
      intros (e & p' & H & _). discriminate.
    + rewrite dm_compound, dm_desc. split.
      * intros (H1 & e' & p' & Heq & k & Hk). injection Heq as <- <-.
        exists e, p. split; [reflexivity|]. split; [assumption|].
        exists k. apply IH; assumption.
      * intros (e' & p' & Heq & H1 & k & Hk). injection Heq as <- <-.
        split; [assumption|]. exists e, p. split; [reflexivity|].
        exists k. apply IH; assumption.
  - destruct Hwf as [Hcs Hl].
    destruct p as [|e p].
    + rewrite dm_compound_nil by assumption. split; [discriminate|].
      intros (e & p' & H & _). discriminate.
    + rewrite dm_compound, dm_child, (IH p Hl). split.
      * intros (H1 & H2). exists e, p. auto.
      * intros (e' & p' & Heq & H1 & H2). injection Heq as <- <-. auto.
Qed.

Theorem c20_list : forall (ss : list sel) (p : list anc), Forall wf ss ->
  (existsb (fun s => do_matches (flatten s) p) ss = true <-> exists s, In s ss /\ matches s p).
Proof.
  intros ss p Hwf. rewrite existsb_exists. rewrite Forall_forall in Hwf.
  split; intros (s & Hin & H); exists s; (split; [assumption|]);
    apply (c20_match s p (Hwf s Hin)); assumption.
Qed.

(* ------------------------------------------------------------------ *)
(* non-vacuity: div > ul li:nth-child(2n+1) *)

Definition t_div : text := of_ascii [100;105;118].
Definition t_ul : text := of_ascii [117;108].
Definition t_li : text := of_ascii [108;105].
Definition t_ol : text := of_ascii [111;108].
Definition t_body : text := of_ascii [98;111;100;121].

Definition ex_sel : sel :=
  SDesc (SChild (SCompound [SElt t_div]) [SElt t_ul]) [SElt t_li; SNth 2 1].

(* <body><div><ul><ol><li/><li/><li> ... : the third li, inside ol, inside ul, child of div *)
Definition ex_pos : list anc :=
  [ mkanc t_li [] 3; mkanc t_ol [] 1; mkanc t_ul [] 2; mkanc t_div [] 1; mkanc t_body [] 1 ].

Example ex_wf : wf ex_sel.
Proof. simpl. repeat split; discriminate. Qed.

Example ex_flatten :
  flatten ex_sel = [CNthChild 2 1; CElement t_li; CCombDescendant; CElement t_ul; CCombChild;
                    CElement t_div].
Proof. reflexivity. Qed.

Example ex_matches : matches ex_sel ex_pos.
Proof. apply (c20_match ex_sel ex_pos ex_wf). vm_compute. reflexivity. Qed.

(* the second li (index 2 is not 2n+1) does not match; neither does a ul not child of div *)
Example ex_not_matches_even :
  ~ matches ex_sel (mkanc t_li [] 2 :: tl ex_pos).
Proof. intros H. apply (c20_match ex_sel _ ex_wf) in H. vm_compute in H. discriminate. Qed.

Example ex_not_matches_child :
  ~ matches ex_sel [ mkanc t_li [] 3; mkanc t_ul [] 1; mkanc t_ol [] 1; mkanc t_div [] 1 ].
Proof. intros H. apply (c20_match ex_sel _ ex_wf) in H. vm_compute in H. discriminate. Qed.

Print Assumptions c20_nth.
Print Assumptions c20_match.
Print Assumptions c20_list.
Print Assumptions ex_matches.
